import Cppcms.C03.FinalLemmas
import Cppcms.C03.HeadersLemmas
/-! `HttpHeadersOk` (what the RFC parser sees) from conditions on the header container itself. -/
namespace Cppcms.C03
open Cppcms

theorem lowerByte_aux : ∀ n : Fin 256, lowerByte (UInt8.ofNat n.val) = Spec.lowerByte (UInt8.ofNat n.val) := by decide +kernel

/-- the model's `ascii_to_lower` (range extracted from the source) is the specification's -/
theorem lowerByte_spec (c : UInt8) : lowerByte c = Spec.lowerByte c := by
  have h := lowerByte_aux ⟨c.toNat, c.toNat_lt⟩
  simpa using h

theorem foldName_spec (s : Bytes) : foldName s = Spec.lower s := by
  unfold foldName Spec.lower
  induction s with
  | nil => rfl
  | cons c cs ih => simp only [List.map_cons, lowerByte_spec, ih]

theorem ieq_lower (k n : Bytes) : ieq k n = true ↔ Spec.lower k = Spec.lower n := by
  rw [ieq_iff, foldName_spec, foldName_spec]

theorem takeWhile_colon : ∀ (k rest : Bytes), (∀ c ∈ k, c ≠ 58) →
    (k ++ 58 :: rest).takeWhile (· ≠ 58) = k ∧ (k ++ 58 :: rest).dropWhile (· ≠ 58) = 58 :: rest := by
  intro k
  induction k with
  | nil => intro rest _; simp
  | cons c cs ih =>
    intro rest h
    have hc : c ≠ 58 := h c (by simp)
    have ⟨i1, i2⟩ := ih rest (fun x hx => h x (by simp [hx]))
    simp only [List.cons_append, List.takeWhile_cons, List.dropWhile_cons, hc, ne_eq, not_false_eq_true, decide_true, if_true]
    exact ⟨by rw [i1], i2⟩

/-- the RFC field parser on a `Name: value` line written by `format_*_headers` -/
theorem parseField_line (k v : Bytes) (hk : ∀ c ∈ k, c ≠ 58) :
    Spec.parseField (k ++ [58, 32] ++ v) = some (Spec.lower k, v.dropWhile Spec.isWs) := by
  have e : k ++ [58, 32] ++ v = k ++ 58 :: (32 :: v) := by simp
  have ⟨t1, t2⟩ := takeWhile_colon k (32 :: v) hk
  unfold Spec.parseField
  simp only [e, t1, t2]
  have : Spec.isWs 32 = true := by decide
  simp [List.dropWhile_cons, this]

/-- the field values a client sees under a name, for the map part of a header block whose names contain no colon -/
theorem fieldValues_map : ∀ (m : List (Bytes × Bytes)), Sorted m → (∀ kv ∈ m, ∀ c ∈ kv.1, c ≠ 58) → ∀ (n : Bytes),
    Spec.fieldValues (Spec.lower n) (m.map fun kv => kv.1 ++ [58, 32] ++ kv.2) =
      ((mapFind n m).map fun kv => kv.2.dropWhile Spec.isWs).toList := by
  intro m
  induction m with
  | nil => intro _ _ _; rfl
  | cons e rest ih =>
    intro hs hk n
    obtain ⟨k, v⟩ := e
    have hk0 : ∀ c ∈ k, c ≠ 58 := hk (k, v) (by simp)
    have ih' := ih hs.2 (fun kv h => hk kv (by simp [h])) n
    have hcons : Spec.fieldValues (Spec.lower n) (((k, v) :: rest).map fun kv => kv.1 ++ [58, 32] ++ kv.2) =
        (if Spec.lower k = Spec.lower n then [v.dropWhile Spec.isWs] else []) ++
          Spec.fieldValues (Spec.lower n) (rest.map fun kv => kv.1 ++ [58, 32] ++ kv.2) := by
      simp only [List.map_cons, Spec.fieldValues, List.filterMap_cons, parseField_line k v hk0]
      by_cases hl : Spec.lower k = Spec.lower n
      · simp [hl]
      · simp [hl]
    rw [hcons, ih']
    by_cases hq : ieq k n = true
    · have hl := (ieq_lower k n).1 hq
      have hnone : mapFind n rest = none := mapFind_none_of_all_less rest k n hq hs.1
      simp only [mapFind, hq, if_true, hl, hnone, Option.map_some, Option.map_none, Option.toList_some, Option.toList_none,
        List.append_nil]
    · have hl : ¬ Spec.lower k = Spec.lower n := fun h => hq ((ieq_lower k n).2 h)
      simp only [mapFind, hq, Bool.false_eq_true, if_false, hl, List.nil_append]

theorem mapFind_mem : ∀ (m : List (Bytes × Bytes)) (n : Bytes) (kv : Bytes × Bytes), mapFind n m = some kv → kv ∈ m ∧ ieq kv.1 n = true := by
  intro m
  induction m with
  | nil => intro n kv h; cases h
  | cons e rest ih =>
    intro n kv h
    obtain ⟨k, v⟩ := e
    by_cases hq : ieq k n = true
    · simp only [mapFind, hq, if_true, Option.some.injEq] at h
      subst h
      exact ⟨by simp, hq⟩
    · simp only [mapFind, hq, Bool.false_eq_true, if_false] at h
      have ⟨h1, h2⟩ := ih n kv h
      exact ⟨by simp [h1], h2⟩

theorem Sorted.filter (p : Bytes × Bytes → Bool) : ∀ (m : List (Bytes × Bytes)), Sorted m → Sorted (m.filter p) := by
  intro m
  induction m with
  | nil => intro _; trivial
  | cons e rest ih =>
    intro hs
    obtain ⟨k, v⟩ := e
    by_cases hp : p (k, v) = true
    · simp only [List.filter_cons, hp, if_true]
      exact ⟨fun e he => hs.1 e (List.mem_filter.1 he).1, ih hs.2⟩
    · simp only [List.filter_cons, hp, Bool.false_eq_true, if_false]
      exact ih hs.2

/-- leaving out the `Status` entry does not disturb the look-up of any other name -/
theorem mapFind_filter_skip (s : Bytes) : ∀ (m : List (Bytes × Bytes)) (n : Bytes), ieq n s = false →
    mapFind n (m.filter fun kv => !ieq kv.1 s) = mapFind n m := by
  intro m
  induction m with
  | nil => intro _ _; rfl
  | cons e rest ih =>
    intro n hn
    obtain ⟨k, v⟩ := e
    by_cases hks : ieq k s = true
    · have hkn : ieq k n = false := by
        cases h : ieq k n with
        | false => rfl
        | true => have := ieq_trans (ieq_symm h) hks; rw [hn] at this; cases this
      simp only [List.filter_cons, hks, Bool.not_true, Bool.false_eq_true, if_false, mapFind, hkn]
      exact ih n hn
    · simp only [Bool.not_eq_true] at hks
      simp only [List.filter_cons, hks, Bool.not_false, if_true, mapFind]
      rw [ih n hn]

theorem lines_skip (H : Headers) (s : Bytes) :
    H.lines (some s) = ((H.map.filter fun kv => !ieq kv.1 s).map fun kv => kv.1 ++ [58, 32] ++ kv.2) ++ H.added := by
  unfold Headers.lines
  congr 1
  induction H.map with
  | nil => rfl
  | cons kv m ih =>
    simp only [List.flatMap_cons, List.filter_cons, ih]
    by_cases h : ieq kv.1 s = true
    · simp [h]
    · simp [h]

/-- **the field values the client sees under a name** (other than `Status`): the map entry for that name, if any,
then whatever added lines carry the name -/
theorem fieldValues_lines (H : Headers) (ok : H.Ok) (hkeys : ∀ kv ∈ H.map, ∀ c ∈ kv.1, c ≠ 58) (s n : Bytes)
    (hns : ieq n s = false) :
    Spec.fieldValues (Spec.lower n) (H.lines (some s)) =
      ((mapFind n H.map).map fun kv => kv.2.dropWhile Spec.isWs).toList ++ Spec.fieldValues (Spec.lower n) H.added := by
  rw [lines_skip, fieldValues_append,
    fieldValues_map _ (Sorted.filter _ _ ok) (fun kv h => hkeys kv (List.mem_filter.1 h).1) n, mapFind_filter_skip s _ n hns]

theorem atollAux_digits : ∀ (v : Bytes) (acc : Nat), (∀ c ∈ v, 48 ≤ c ∧ c ≤ 57) → Spec.parseDecAcc v acc = some (atollAux v acc) := by
  intro v
  induction v with
  | nil => intro acc _; rfl
  | cons c cs ih =>
    intro acc h
    have hc := h c (by simp)
    simp only [Spec.parseDecAcc, atollAux, hc, and_self, if_true]
    exact ih _ (fun x hx => h x (by simp [hx]))

/-- `atoll` and the RFC's `1*DIGIT` agree on plain decimal numbers -/
theorem atoll_digits (v : Bytes) (hne : v ≠ []) (hd : ∀ c ∈ v, 48 ≤ c ∧ c ≤ 57) : Spec.parseDecNum v = some (atoll v) := by
  cases v with
  | nil => exact absurd rfl hne
  | cons c cs =>
    have hc := hd c (by simp)
    have hws : (c = 32 || (9 ≤ c && c ≤ 13)) = false := by
      have h1 : c ≠ 32 := by intro h; rw [h] at hc; exact absurd hc.1 (by decide)
      have h2 : ¬ (c ≤ 13) := by intro h; exact absurd (Nat.le_trans (UInt8.le_iff_toNat_le.1 hc.1) (UInt8.le_iff_toNat_le.1 h)) (by decide)
      simp [h1, h2]
    unfold Spec.parseDecNum atoll
    simp only [List.isEmpty_cons, Bool.false_eq_true, if_false, List.dropWhile_cons, hws]
    exact atollAux_digits (c :: cs) 0 hd

def sTransferEncodingName : Bytes := b [84,114,97,110,115,102,101,114,45,69,110,99,111,100,105,110,103]

/-- conditions on the header *container* (names, values, added lines) under which an HTTP response head is well formed:
no colon or CR in a name, no CR in a value or the status, clean added lines that are neither a Transfer-Encoding nor a
Content-Length, no Transfer-Encoding entry, and a Content-Length entry — if any — in plain decimal -/
structure HeadersClean (H : Headers) : Prop where
  ok : H.Ok
  keys : ∀ kv ∈ H.map, ∀ c ∈ kv.1, c ≠ 58 ∧ c ≠ 13
  vals : ∀ kv ∈ H.map, ∀ c ∈ kv.2, c ≠ 13
  added : ∀ l ∈ H.added, LineOk l
  addedTE : Spec.fieldValues Spec.sTransferEncoding H.added = []
  addedCL : Spec.fieldValues Spec.sContentLength H.added = []
  noTE : mapFind sTransferEncodingName H.map = none
  cl : ∀ kv, mapFind sContentLengthName H.map = some kv → kv.2 ≠ [] ∧ ∀ c ∈ kv.2, 48 ≤ c ∧ c ≤ 57

theorem HttpHeadersOk.of_clean (H : Headers) (h : HeadersClean H) : HttpHeadersOk H where
  status := by
    unfold Headers.statusValue
    cases hm : mapFind (b Gen.statusName) H.map with
    | none => simp only; decide
    | some kv => exact h.vals kv (mapFind_mem _ _ kv hm).1
  lines := by
    intro l hl
    rw [lines_skip] at hl
    rcases List.mem_append.1 hl with hl | hl
    · obtain ⟨kv, hkv, rfl⟩ := List.mem_map.1 hl
      have hmem := (List.mem_filter.1 hkv).1
      refine ⟨by simp, ?_⟩
      intro c hc
      simp only [List.mem_append, List.mem_cons, List.not_mem_nil, or_false] at hc
      rcases hc with (hc | hc | hc) | hc
      · exact (h.keys kv hmem c hc).2
      · rw [hc]; decide
      · rw [hc]; decide
      · exact h.vals kv hmem c hc
    · exact h.added l hl
  noTE := by
    have e : Spec.sTransferEncoding = Spec.lower sTransferEncodingName := by decide
    rw [e, fieldValues_lines H h.ok (fun kv hk c hc => (h.keys kv hk c hc).1) _ sTransferEncodingName (by decide), h.noTE, ← e, h.addedTE]
    rfl
  cl := by
    have e : Spec.sContentLength = Spec.lower sContentLengthName := by decide
    have hfv := fieldValues_lines H h.ok (fun kv hk c hc => (h.keys kv hk c hc).1) (b Gen.statusName) sContentLengthName (by decide)
    rw [← e, h.addedCL, List.append_nil] at hfv
    cases hm : mapFind sContentLengthName H.map with
    | none =>
      left
      rw [hm] at hfv
      exact ⟨by unfold Headers.get; rw [hm], hfv⟩
    | some kv =>
      right
      obtain ⟨hne, hd⟩ := h.cl kv hm
      have hget : H.get sContentLengthName = kv.2 := by unfold Headers.get; rw [hm]
      have hdw : kv.2.dropWhile Spec.isWs = kv.2 := by
        cases hv : kv.2 with
        | nil => rfl
        | cons c cs =>
          have hc := hd c (by rw [hv]; simp)
          have : Spec.isWs c = false := by
            unfold Spec.isWs
            have h1 : c ≠ 32 := by intro hh; rw [hh] at hc; exact absurd hc.1 (by decide)
            have h2 : c ≠ 9 := by intro hh; rw [hh] at hc; exact absurd hc.1 (by decide)
            simp [h1, h2]
          simp [List.dropWhile_cons, this]
      rw [hm] at hfv
      simp only [Option.map_some, Option.toList_some, hdw] at hfv
      rw [hget]
      exact ⟨hne, hfv, atoll_digits kv.2 hne hd⟩

/-! ### raw modes: every line of the application's header block is kept -/

theorem tok_not_sp (c : UInt8) (h : isTokenChar c = true) : isSpHt c = false := by
  unfold isTokenChar at h
  simp only [Bool.and_eq_true, Bool.not_eq_true'] at h
  have hs := h.2
  unfold isSpHt
  cases h32 : decide (c = 32) with
  | true =>
    have : c = 32 := of_decide_eq_true h32
    rw [this] at hs; exact absurd hs (by decide)
  | false =>
    cases h9 : decide (c = 9) with
    | true =>
      have : c = 9 := of_decide_eq_true h9
      rw [this] at hs; exact absurd hs (by decide)
    | false => simp [of_decide_eq_false h32, of_decide_eq_false h9]

theorem takeWhile_stop (p : UInt8 → Bool) (x : UInt8) (hx : p x = false) : ∀ (k rest : Bytes), (∀ c ∈ k, p c = true) →
    (k ++ x :: rest).takeWhile p = k ∧ (k ++ x :: rest).dropWhile p = x :: rest := by
  intro k
  induction k with
  | nil => intro rest _; simp [hx]
  | cons c cs ih =>
    intro rest h
    have hc : p c = true := h c (by simp)
    have ⟨i1, i2⟩ := ih rest (fun y hy => h y (by simp [hy]))
    simp only [List.cons_append, List.takeWhile_cons, List.dropWhile_cons, hc, if_true]
    exact ⟨by rw [i1], i2⟩

/-- `cgi_headers_parser::add_header` on an ordinary `Name: value` line (token name other than `Status` / `Content-Length`):
the line is appended to the added headers — whatever lines with the same name came before, whether the value is empty or not -/
theorem rawAddHeader_line (h : Headers) (k v : Bytes) (hk : k ≠ []) (htok : ∀ c ∈ k, isTokenChar c = true)
    (hsp : isSpecialName k = false) (hv : ∀ c, v.head? = some c → isSpHt c = false) :
    rawAddHeader h (k ++ [58, 32] ++ v) = { h with added := h.added ++ [k ++ [58, 32] ++ v] } := by
  have e : k ++ [58, 32] ++ v = k ++ 58 :: (32 :: v) := by simp
  have hd0 : (k ++ 58 :: (32 :: v)).dropWhile isSpHt = k ++ 58 :: (32 :: v) := by
    cases k with
    | nil => exact absurd rfl hk
    | cons c cs => simp [List.dropWhile_cons, tok_not_sp c (htok c (by simp))]
  have ⟨t1, t2⟩ := takeWhile_stop isTokenChar 58 (by decide) k (32 :: v) htok
  have hvd : v.dropWhile isSpHt = v := by
    cases v with
    | nil => rfl
    | cons c cs => simp [List.dropWhile_cons, hv c rfl]
  have hke : k.isEmpty = false := by cases k with
    | nil => exact absurd rfl hk
    | cons _ _ => rfl
  have hkept : Gen.rawLineKept = true := rfl
  unfold rawAddHeader
  simp only [e, hd0, t1, t2]
  have h58 : (58 :: 32 :: v).dropWhile isSpHt = 58 :: 32 :: v := by simp [List.dropWhile_cons, show isSpHt 58 = false by decide]
  simp only [h58, hke, Bool.false_eq_true, if_false, hkept, if_true]
  have h32 : (32 :: v).dropWhile isSpHt = v := by simp [List.dropWhile_cons, show isSpHt 32 = true by decide, hvd]
  rw [h32]
  unfold Headers.add
  have : (Gen.addHeaderAsSet.map b).any (ieq k) = false := hsp
  rw [this]
  simp only [Bool.false_eq_true, if_false, lit_headerSep_lineEnd.2]
  simp

/-- an ordinary header line of a raw-mode block -/
structure RawLineOk (kv : Bytes × Bytes) : Prop where
  name : kv.1 ≠ []
  tok : ∀ c ∈ kv.1, isTokenChar c = true
  notSpecial : isSpecialName kv.1 = false
  value : ∀ c, kv.2.head? = some c → isSpHt c = false
  noCR : ∀ c ∈ kv.2, c ≠ 13

theorem rawAddHeader_fold : ∀ (ls : List (Bytes × Bytes)) (h : Headers), (∀ kv ∈ ls, RawLineOk kv) →
    (ls.map fun kv => kv.1 ++ [58, 32] ++ kv.2).foldl rawAddHeader h =
      { h with added := h.added ++ ls.map fun kv => kv.1 ++ [58, 32] ++ kv.2 } := by
  intro ls
  induction ls with
  | nil => intro h _; simp
  | cons kv rest ih =>
    intro h hok
    have o := hok kv (by simp)
    simp only [List.map_cons, List.foldl_cons]
    rw [rawAddHeader_line h kv.1 kv.2 o.name o.tok o.notSpecial o.value, ih _ (fun x hx => hok x (by simp [hx]))]
    simp

/-- **raw modes keep every header line.**  Of a stream that starts with a header block of ordinary `Name: value` lines —
names may repeat, in any mix of case; values may be empty — the parser hands the connection a header set whose added
lines are exactly those lines, all of them, in the order written (and passes on exactly what follows the block) -/
theorem raw_lines_all_kept (ls : List (Bytes × Bytes)) (hok : ∀ kv ∈ ls, RawLineOk kv) (body : Bytes) :
    filterOf true (((ls.map fun kv => kv.1 ++ [58, 32] ++ kv.2).map (· ++ [13, 10])).flatten ++ 13 :: 10 :: body) = body ∧
    (({} : RawParser).consume (((ls.map fun kv => kv.1 ++ [58, 32] ++ kv.2).map (· ++ [13, 10])).flatten ++ 13 :: 10 :: body)).2.2 =
      some { map := [], added := ls.map fun kv => kv.1 ++ [58, 32] ++ kv.2 } := by
  have hl : ∀ l ∈ (ls.map fun kv => kv.1 ++ [58, 32] ++ kv.2), l ≠ [] ∧ ∀ c ∈ l, c ≠ 13 := by
    intro l hl
    obtain ⟨kv, hkv, rfl⟩ := List.mem_map.1 hl
    have o := hok kv hkv
    refine ⟨by simp, ?_⟩
    intro c hc
    simp only [List.mem_append, List.mem_cons, List.not_mem_nil, or_false] at hc
    rcases hc with (hc | hc | hc) | hc
    · intro h13; have := o.tok c hc; rw [h13] at this; exact absurd this (by decide)
    · rw [hc]; decide
    · rw [hc]; decide
    · exact o.noCR c hc
  have := consume_block _ {} body rfl rfl hl
  refine ⟨this.1, ?_⟩
  rw [this.2.2, rawAddHeader_fold ls _ hok]
  simp

end Cppcms.C03
