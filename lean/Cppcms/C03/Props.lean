import Cppcms.C03.ConnWriteLemmas
import Cppcms.C03.FramingLemmas
/-!
# C03 — the client receives exactly the bytes the application wrote, once and in order

Property theorems only; helper lemmas are in `ConnWriteLemmas.lean`, `FramingLemmas.lean`.
-/
namespace Cppcms.C03.Props
open Cppcms Cppcms.C03

/-! ## 1. connection write path: every schedule of partial socket writes -/

/-- **pending_invariant.**  For every trace of `nonblocking_write` / `async_write` / handler
invocations / blocking `write` calls and every answer of the socket to each `write_some`
(accept any prefix, would-block, error), as long as no write ended in a hard error:
bytes on the wire ++ bytes owned by the in-flight asynchronous handler ++ `pending_output_`
= concatenation of the formatted outputs handed over so far.
Hypothesis `disciplined`: the application does not write while an asynchronous write is in flight. -/
theorem pending_invariant (evs : List Ev) (hd : disciplined {} evs = true) (hb : (runEvs {} evs).broken = false) :
    (runEvs {} evs).wire ++ (runEvs {} evs).backlog = (evs.map Ev.data).flatten := by
  have h := runEvs_inv evs {} (by simp [Conn.Inv, Conn.backlog]) hd hb
  have hh := runEvs_handed evs {}
  simp only [List.nil_append] at hh
  rw [← hh]
  exact h

/-- non-vacuity: a trace with a partial accept, a would-block, an asynchronous write and handler steps -/
example : disciplined {} [.nb [1,2,3] (.accept 2), .nb [4] .wouldBlock, .async [5] (.accept 1), .writable .wouldBlock, .writable (.accept 9)] = true
    ∧ (runEvs {} [.nb [1,2,3] (.accept 2), .nb [4] .wouldBlock, .async [5] (.accept 1), .writable .wouldBlock, .writable (.accept 9)]).broken = false
    ∧ (runEvs {} [.nb [1,2,3] (.accept 2), .nb [4] .wouldBlock, .async [5] (.accept 1), .writable .wouldBlock, .writable (.accept 9)]).wire = [1,2,3,4,5] := by decide

/-- **completion.**  Once nothing is pending or in flight, the peer has received everything, once, in order. -/
theorem wire_complete_when_drained (evs : List Ev) (hd : disciplined {} evs = true) (hb : (runEvs {} evs).broken = false)
    (hp : (runEvs {} evs).backlog = []) : (runEvs {} evs).wire = (evs.map Ev.data).flatten := by
  have := pending_invariant evs hd hb
  rwa [hp, List.append_nil] at this

/-- **a failing write never corrupts the stream**: after the event on which a write fails for
good, the wire still holds a prefix of what was handed over (nothing duplicated or reordered). -/
theorem wire_prefix_on_failure (evs : List Ev) (e : Ev) (hd : disciplined {} (evs ++ [e]) = true)
    (hb : (runEvs {} evs).broken = false) :
    (runEvs {} (evs ++ [e])).wire <+: ((evs ++ [e]).map Ev.data).flatten := by
  have hd' : disciplined {} evs = true ∧ evOk (runEvs {} evs) e = true := by
    have : ∀ (es : List Ev) (c : Conn), disciplined c (es ++ [e]) = true →
        disciplined c es = true ∧ evOk (runEvs c es) e = true := by
      intro es
      induction es with
      | nil => intro c h; simpa [disciplined, runEvs] using h
      | cons x xs ih =>
        intro c h
        simp only [List.cons_append, disciplined, Bool.and_eq_true] at h
        have := ih _ h.2
        simp only [disciplined, Bool.and_eq_true, runEvs, List.foldl_cons]
        exact ⟨⟨h.1, this.1⟩, this.2⟩
    exact this evs {} hd
  have hinv := runEvs_inv evs {} (by simp [Conn.Inv, Conn.backlog]) hd'.1 hb
  have := stepEv_wire_prefix (runEvs {} evs) e hinv hd'.2
  have hh := runEvs_handed (evs ++ [e]) {}
  simp only [List.nil_append] at hh
  rw [← hh]
  simpa [runEvs, List.foldl_append] using this

/-- **liveness of the asynchronous handler**: if the socket accepts at least one byte each time
it is reported writable, the handler completes after at most `|data|` invocations and the data is
on the wire exactly once. -/
theorem async_write_drains (c : Conn) (out : Bytes) (ks : List Nat) (hi : c.inflight = some out) (hne : out ≠ [])
    (hl : out.length ≤ ks.length) (hb : c.broken = false) :
    (drainSteps c ks).inflight = none ∧ (drainSteps c ks).wire = c.wire ++ out := by
  have := drain_complete ks c out hi hne hl hb
  exact ⟨this.1, this.2.1⟩

/-- the discipline hypothesis is necessary: writing while an asynchronous write is in flight
reorders the stream (`async_write` took `pending_output_` away by `swap`). -/
theorem write_during_async_reorders :
    (runEvs {} [.async [1, 2] (.accept 1), .nb [3] (.accept 1), .writable (.accept 1)]).wire = [1, 3, 2] := by decide

/-! ## 2. framing -/

/-- **chunked round trip** (RFC 7230 4.1 decoder of `Spec.lean`): whatever sequence of
`format_output(w, false)` calls and final `format_output(last, true)` produced the body in chunked
mode, a client decodes exactly the concatenation of the writes, and stops exactly at the end. -/
theorem chunked_roundtrip (ws : List Bytes) (last rest : Bytes) :
    Spec.deChunked ((ws.map fun w => chunkWrap w false).flatten ++ chunkWrap last true ++ rest)
      = some (ws.flatten ++ last, rest) :=
  deChunked_body ws last rest

/-- chunk sizes are written in lower-case hexadecimal without prefix, and parse back -/
theorem chunk_size_roundtrip (n : Nat) : Spec.parseHexNum (hexDigits n) = some n := parseHexNum_hexDigits n

/-- **FastCGI round trip**: the records sent for the gathered inputs `ds` of the successive
`format_output` calls (the first one starts with the CGI header block) parse back, by the
record grammar of the FastCGI specification, to a STDOUT stream equal to their concatenation. -/
theorem fcgi_roundtrip (reqId : Nat) (hr : reqId < 65536) (ds : List Bytes) :
    ∃ recs, Spec.deRecords (fcgiWire reqId ds) = some recs ∧ Spec.fcgiStdoutStream reqId recs = some ds.flatten :=
  ⟨fcgiAllRecs reqId ds, deRecords_fcgiWire reqId hr ds, fcgiStdoutStream_wire reqId hr ds⟩

/-- **fcgi_records_wellformed**: every STDOUT record carries between 1 and 65535 bytes, the stream
is closed by exactly one empty STDOUT record followed by exactly one END_REQUEST, which is last. -/
theorem fcgi_records_wellformed (reqId : Nat) (hr : reqId < 65536) (ds : List Bytes) :
    ∃ body, fcgiAllRecs reqId ds = body ++ eofRecs reqId ∧
      (∀ r ∈ body, r.type = Spec.FCGI_STDOUT ∧ r.requestId = reqId ∧ 1 ≤ r.content.length ∧ r.content.length ≤ 65535) ∧
      Spec.deRecords (fcgiWire reqId ds) = some (fcgiAllRecs reqId ds) := by
  refine ⟨ds.flatMap (stdoutRecs reqId), rfl, ?_, deRecords_fcgiWire reqId hr ds⟩
  intro r h
  simp only [List.mem_flatMap] at h
  obtain ⟨d, _, hd⟩ := h
  have := (stdoutRecs_spec reqId hr d).2.1 r hd
  refine ⟨this.2.1, this.2.2.1, ?_, this.2.2.2.2⟩
  exact List.length_pos_iff.2 this.2.2.2.1

/-- non-vacuity: a 70000-byte write is cut into a full record (65535 + 1 pad) and a 4465-byte record (+ 7 pad) -/
example (data : Bytes) (h : data.length = 70000) :
    (stdoutRecs 1 data).map (fun r => (r.content.length, r.padding)) = [(65535, 1), (4465, 7)] := by
  have h2 : (data.drop Gen.maxPacketLen).length = 4465 := by simp [List.length_drop, h, Gen.maxPacketLen]
  rw [stdoutRecs]
  simp only [h, Gen.isFullRecord, Gen.maxPacketLen, Gen.fullPad]
  rw [stdoutRecs]
  have h2' : (data.drop 65535).length = 4465 := h2
  simp [h, h2', Gen.isFullRecord, Gen.maxPacketLen, Gen.lastPad, List.length_take]

end Cppcms.C03.Props
