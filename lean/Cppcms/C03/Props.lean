import Cppcms.C03.FinalLemmas
import Cppcms.C03.CacheLemmas
import Cppcms.C03.HeadersLemmas
import Cppcms.C03.HttpHeadersLemmas
/-!
# C03 — the client receives exactly the bytes the application wrote, once and in order

Property theorems only; helper lemmas are in the `*Lemmas.lean` files.  Sections 1–4 are the layer
theorems (connection write path, framing, stream buffers, framing of a whole response), section 5 the
`response_headers` container, section 6 the composition over the model the correspondence runs
(`runCase`): response object → trace → connection → wire, and the page cache.
-/
namespace Cppcms.C03.Props
open Cppcms Cppcms.C03


/-! ## 1. connection write path: every schedule of partial socket writes -/

/-- **pending_invariant.**  For every trace of `nonblocking_write` / `async_write` / handler
invocations / blocking `write` calls and every answer of the socket to each `write_some`
(accept any prefix, would-block, error), as long as no write ended in a hard error:
bytes on the wire ++ bytes owned by the in-flight asynchronous handler ++ `pending_output_`
= concatenation of the formatted outputs handed over so far.
Hypothesis `disciplined`: the application does not write while an asynchronous write is in flight. -/
theorem pending_invariant (evs : List Ev) (hd : disciplined {} evs = true) (hb : (runEvs {} evs).broken = false) :
    (runEvs {} evs).wire ++ (runEvs {} evs).backlog = (evs.map Ev.data).flatten := by
  have h := runEvs_inv evs {} (by simp [Conn.Inv, Conn.backlog]) hd hb
  have hh := runEvs_handed evs {}
  simp only [List.nil_append] at hh
  rw [← hh]
  exact h

/-- non-vacuity: a trace with a partial accept, a would-block, an asynchronous write and handler steps -/
example : disciplined {} [.nb [1,2,3] (.accept 2), .nb [4] .wouldBlock, .async [5] (.accept 1), .writable .wouldBlock, .writable (.accept 9)] = true
    ∧ (runEvs {} [.nb [1,2,3] (.accept 2), .nb [4] .wouldBlock, .async [5] (.accept 1), .writable .wouldBlock, .writable (.accept 9)]).broken = false
    ∧ (runEvs {} [.nb [1,2,3] (.accept 2), .nb [4] .wouldBlock, .async [5] (.accept 1), .writable .wouldBlock, .writable (.accept 9)]).wire = [1,2,3,4,5] := by decide

/-- **completion.**  Once nothing is pending or in flight, the peer has received everything, once, in order. -/
theorem wire_complete_when_drained (evs : List Ev) (hd : disciplined {} evs = true) (hb : (runEvs {} evs).broken = false)
    (hp : (runEvs {} evs).backlog = []) : (runEvs {} evs).wire = (evs.map Ev.data).flatten := by
  have := pending_invariant evs hd hb
  rwa [hp, List.append_nil] at this

/-- **a failing write never corrupts the stream**: after the event on which a write fails for
good, the wire still holds a prefix of what was handed over (nothing duplicated or reordered). -/
theorem wire_prefix_on_failure (evs : List Ev) (e : Ev) (hd : disciplined {} (evs ++ [e]) = true)
    (hb : (runEvs {} evs).broken = false) :
    (runEvs {} (evs ++ [e])).wire <+: ((evs ++ [e]).map Ev.data).flatten := by
  have hd' : disciplined {} evs = true ∧ evOk (runEvs {} evs) e = true := by
    have : ∀ (es : List Ev) (c : Conn), disciplined c (es ++ [e]) = true →
        disciplined c es = true ∧ evOk (runEvs c es) e = true := by
      intro es
      induction es with
      | nil => intro c h; simpa [disciplined, runEvs] using h
      | cons x xs ih =>
        intro c h
        simp only [List.cons_append, disciplined, Bool.and_eq_true] at h
        have := ih _ h.2
        simp only [disciplined, Bool.and_eq_true, runEvs, List.foldl_cons]
        exact ⟨⟨h.1, this.1⟩, this.2⟩
    exact this evs {} hd
  have hinv := runEvs_inv evs {} (by simp [Conn.Inv, Conn.backlog]) hd'.1 hb
  have := stepEv_wire_prefix (runEvs {} evs) e hinv hd'.2
  have hh := runEvs_handed (evs ++ [e]) {}
  simp only [List.nil_append] at hh
  rw [← hh]
  simpa [runEvs, List.foldl_append] using this

/-- **liveness of the asynchronous handler**: if the socket accepts at least one byte each time
it is reported writable, the handler completes after at most `|data|` invocations and the data is
on the wire exactly once. -/
theorem async_write_drains (c : Conn) (out : Bytes) (ks : List Nat) (hi : c.inflight = some out) (hne : out ≠ [])
    (hl : out.length ≤ ks.length) (hb : c.broken = false) :
    (drainSteps c ks).inflight = none ∧ (drainSteps c ks).wire = c.wire ++ out := by
  have := drain_complete ks c out hi hne hl hb
  exact ⟨this.1, this.2.1⟩

/-- the discipline hypothesis is necessary: writing while an asynchronous write is in flight
reorders the stream (`async_write` took `pending_output_` away by `swap`). -/
theorem write_during_async_reorders :
    (runEvs {} [.async [1, 2] (.accept 1), .nb [3] (.accept 1), .writable (.accept 1)]).wire = [1, 3, 2] := by decide

/-! ## 2. framing -/

/-- **chunked round trip** (RFC 7230 4.1 decoder of `Spec.lean`): whatever sequence of
`format_output(w, false)` calls and final `format_output(last, true)` produced the body in chunked
mode, a client decodes exactly the concatenation of the writes, and stops exactly at the end. -/
theorem chunked_roundtrip (ws : List Bytes) (last rest : Bytes) :
    Spec.deChunked ((ws.map fun w => chunkWrap w false).flatten ++ chunkWrap last true ++ rest)
      = some (ws.flatten ++ last, rest) :=
  deChunked_body ws last rest

/-- chunk sizes are written in lower-case hexadecimal without prefix, and parse back -/
theorem chunk_size_roundtrip (n : Nat) : Spec.parseHexNum (hexDigits n) = some n := parseHexNum_hexDigits n

/-- **FastCGI round trip**: the records sent for the gathered inputs `ds` of the successive
`format_output` calls (the first one starts with the CGI header block) parse back, by the
record grammar of the FastCGI specification, to a STDOUT stream equal to their concatenation. -/
theorem fcgi_roundtrip (reqId : Nat) (hr : reqId < 65536) (ds : List Bytes) :
    ∃ recs, Spec.deRecords (fcgiWire reqId ds) = some recs ∧ Spec.fcgiStdoutStream reqId recs = some ds.flatten :=
  ⟨fcgiAllRecs reqId ds, deRecords_fcgiWire reqId hr ds, fcgiStdoutStream_wire reqId hr ds⟩

/-- **fcgi_records_wellformed**: every STDOUT record carries between 1 and 65535 bytes, the stream
is closed by exactly one empty STDOUT record followed by exactly one END_REQUEST, which is last. -/
theorem fcgi_records_wellformed (reqId : Nat) (hr : reqId < 65536) (ds : List Bytes) :
    ∃ body, fcgiAllRecs reqId ds = body ++ eofRecs reqId ∧
      (∀ r ∈ body, r.type = Spec.FCGI_STDOUT ∧ r.requestId = reqId ∧ 1 ≤ r.content.length ∧ r.content.length ≤ 65535) ∧
      Spec.deRecords (fcgiWire reqId ds) = some (fcgiAllRecs reqId ds) := by
  refine ⟨ds.flatMap (stdoutRecs reqId), rfl, ?_, deRecords_fcgiWire reqId hr ds⟩
  intro r h
  simp only [List.mem_flatMap] at h
  obtain ⟨d, _, hd⟩ := h
  have := (stdoutRecs_spec reqId hr d).2.1 r hd
  refine ⟨this.2.1, this.2.2.1, ?_, this.2.2.2.2⟩
  exact List.length_pos_iff.2 this.2.2.2.1

/-- non-vacuity: a 70000-byte write is cut into a full record (65535 + 1 pad) and a 4465-byte record (+ 7 pad) -/
example (data : Bytes) (h : data.length = 70000) :
    (stdoutRecs 1 data).map (fun r => (r.content.length, r.padding)) = [(65535, 1), (4465, 7)] := by
  have h2 : (data.drop Gen.maxPacketLen).length = 4465 := by simp [List.length_drop, h, Gen.maxPacketLen]
  rw [stdoutRecs]
  simp only [h, Gen.isFullRecord, Gen.maxPacketLen, Gen.fullPad]
  rw [stdoutRecs]
  have h2' : (data.drop 65535).length = 4465 := h2
  simp [h, h2', Gen.isFullRecord, Gen.maxPacketLen, Gen.lastPad, List.length_take]

/-! ## 3. the stream-buffer chain -/

/-! ## 3. the stream-buffer chain -/

/-- **device_conservation.**  For either device (`output_device`, `async_io_buf` with full or
partial buffering), in every io mode (`raw` = the raw modes, where the device first takes the
application's own CGI header block out of the stream), any initial buffer size and every sequence of
`sputn` / `sputc` / `pubsync` / `flush_async_chunk` / `setbuf m` / `full_asynchronous_buffering b`
(over a connection that accepts its writes): before `close()` no eof was announced; after `close()` nothing
is buffered, the bytes passed to `connection::write` are exactly the bytes written by the layer above
(`filterOf raw` = identity outside the raw modes), and eof is announced exactly once — with the last write.
And **whatever** is done to the device afterwards (`post`: any number of `flush_async_chunk`, `pubsync`,
`setbuf`, buffering-mode changes, in any order — `async_write_response` after an explicit `finalize()`, an
application that keeps calling `async_flush_output`) sends no further byte and announces eof no second time. -/
theorem device_conservation (isAsync full raw : Bool) (n : Nat) (ops post : List DevOp) (hpost : ∀ op ∈ post, op.data = []) :
    let r := Dev.run (Dev.fresh isAsync full raw n, []) ops
    let c := r.1.close traceIf r.2
    let p := Dev.run (c.1, c.2) post
    r.2.eofs = 0 ∧
    c.2.bytes = filterOf raw (ops.map DevOp.data).flatten ∧ c.1.content = [] ∧ c.2.eofs = 1 ∧
    (c.2.sends.getLast?.map (fun (x : Bytes × Bool) => x.2)) = some true ∧
    p.2.bytes = filterOf raw (ops.map DevOp.data).flatten ∧ p.2.eofs = 1 := by
  intro r c p
  have ⟨hi0, hq0, hm0⟩ := Dev.fresh_inv isAsync full raw n [] rfl
  have hr0 : RawOk (Dev.fresh isAsync full raw n) [] := by
    intro _
    exact ⟨fun _ => ⟨rfl, rfl⟩, fun hd => by have : (Dev.fresh isAsync full raw n).raw.done = false := rfl; rw [this] at hd; cases hd⟩
  have ⟨g, hm, _, _⟩ := Dev.run_good ops _ [] [] ⟨hi0, hq0, hr0⟩
  simp only [List.nil_append] at g
  have ⟨c1, c2, c3, c4, c5, c6, _, c8, _, _⟩ := Dev.close_spec r.1 r.2 _ g
  have hmr : r.1.rawMode = raw := hm.trans hm0
  rw [hmr] at c1 c8
  have ⟨_, _, p3, p4, _⟩ := Dev.run_sealed post c.1 c.2 _ c5 c6 (by rw [c8]; exact c1) hpost
  rw [c8] at p4
  refine ⟨g.quiet.2.2, c1, c2, c3, ?_, p4, p3.trans c3⟩
  show (List.getLast? (Trace.sends (r.1.close traceIf r.2).2)).map _ = _
  rw [c4]; simp

/-- written ++ buffered = input at every moment (outside the raw modes) -/
theorem device_conservation_running (isAsync full : Bool) (n : Nat) (ops : List DevOp) :
    let r := Dev.run (Dev.fresh isAsync full false n, []) ops
    r.2.bytes ++ r.1.content = (ops.map DevOp.data).flatten := by
  intro r
  have ⟨hi0, hq0, hm0⟩ := Dev.fresh_inv isAsync full false n [] rfl
  have hr0 : RawOk (Dev.fresh isAsync full false n) [] := by
    intro h; rw [hm0] at h; cases h
  have ⟨g, hm, _, _⟩ := Dev.run_good ops _ [] [] ⟨hi0, hq0, hr0⟩
  simp only [List.nil_append] at g
  obtain ⟨fed, _, _, h3, h4, _⟩ := g.inv
  have hmr : r.1.rawMode = false := hm.trans hm0
  rw [hmr] at h4
  simp only [filterOf, Bool.false_eq_true, if_false] at h4
  unfold Dev.content
  rw [h4]; exact h3

/-- **raw modes**: of a stream that starts with a CGI header block given line by line (lines not
empty, no CR inside) the device passes on exactly what follows the block, and the block's lines reach
`set_response_headers` through `add_header`, in order — however the stream is cut into writes
(`device_conservation` quantifies over the cuts). -/
theorem raw_header_block_stripped (ls : List Bytes) (hok : ∀ l ∈ ls, l ≠ [] ∧ ∀ c ∈ l, c ≠ 13) (body : Bytes) :
    filterOf true ((ls.map (· ++ [13, 10])).flatten ++ 13 :: 10 :: body) = body ∧
    (({} : RawParser).consume ((ls.map (· ++ [13, 10])).flatten ++ 13 :: 10 :: body)).2.2 = some (ls.foldl rawAddHeader {}) := by
  have := consume_block ls {} body rfl rfl hok
  exact ⟨this.1, this.2.2⟩

/-- **raw modes keep every header line the application wrote** — "exactly one header block carrying every header and cookie
the application set": for a block of ordinary `Name: value` lines (token names other than `Status`/`Content-Length`, which
are assignments; names may repeat in any mix of case, values may be empty), the header set handed to the connection has
exactly those lines as its added headers, all of them, in the order written; the body follows untouched.  (How the parser
stores a line — `add_header`, not `set_header` — is read from the source: `Gen.rawLineKept`.) -/
theorem raw_header_lines_all_kept (ls : List (Bytes × Bytes)) (hok : ∀ kv ∈ ls, RawLineOk kv) (body : Bytes) :
    filterOf true (((ls.map fun kv => kv.1 ++ [58, 32] ++ kv.2).map (· ++ [13, 10])).flatten ++ 13 :: 10 :: body) = body ∧
    (({} : RawParser).consume (((ls.map fun kv => kv.1 ++ [58, 32] ++ kv.2).map (· ++ [13, 10])).flatten ++ 13 :: 10 :: body)).2.2 =
      some { map := [], added := ls.map fun kv => kv.1 ++ [58, 32] ++ kv.2 } :=
  raw_lines_all_kept ls hok body

/-- non-vacuity: `Set-Cookie: a=1`, `set-cookie: b=2`, `X-Trace:` (empty value), `Set-Cookie: c=3` -/
example : ∀ kv ∈ ([(b [83,101,116,45,67,111,111,107,105,101], b [97,61,49]), (b [115,101,116,45,99,111,111,107,105,101], b [98,61,50]),
    (b [88,45,84,114,97,99,101], []), (b [83,101,116,45,67,111,111,107,105,101], b [99,61,51])] : List (Bytes × Bytes)), RawLineOk kv := by
  intro kv hkv
  simp only [List.mem_cons, List.not_mem_nil, or_false] at hkv
  rcases hkv with h | h | h | h <;> subst h <;>
    exact ⟨by decide, by decide, by decide, by decide, by decide⟩

/-- non-vacuity / illustration: unbuffered device, a write larger than the buffer, a put, a setbuf that forces a flush -/
example : (Dev.run (Dev.fresh false true false 2, []) [.put [1,2,3], .putc 4, .putc 5, .setbuf 1, .put [6]]).2.sends = [([1,2,3], false), ([4,5], false)]
    ∧ (Dev.run (Dev.fresh false true false 2, []) [.put [1,2,3], .putc 4, .putc 5, .setbuf 1, .put [6]]).1.content = [6] := by
  decide

/-- raw mode illustration: `A: b CRLF CRLF xy` written in two pieces that cut the header block -/
example : ((Dev.run (Dev.fresh false true true 0, []) [.put [65, 58, 32, 98, 13], .put [10, 13, 10, 120, 121]]).1.close traceIf
    (Dev.run (Dev.fresh false true true 0, []) [.put [65, 58, 32, 98, 13], .put [10, 13, 10, 120, 121]]).2).2.bytes = [120, 121] := by
  decide

/-- the scenario that used to announce eof twice (`eof_send_ = send_eof` toggled; fixed in /repo, 6aa2ae1):
`close()` then three flushes — one eof -/
example : (Dev.run ((Dev.fresh true true false 4).close traceIf []) [.flush, .flush, .flush]).2.eofs = 1 := by decide


/-- **cache_copy_identical.**  For every sequence of writes/puts/flushes through `copy_buf` followed by
`close()`: the bytes it handed to the next buffer (what goes towards the client) and the bytes
`copied_data()` returns for the page cache are both exactly the bytes written into it. -/
theorem cache_copy_identical (ops : List BufOp) :
    let r := Copy.run ({}, []) ops
    let c := r.1.close
    actBytes (r.2 ++ c.2) = (ops.map BufOp.data).flatten ∧ c.1.getstr.1 = (ops.map BufOp.data).flatten ∧
    c.1.getstr.1 = actBytes (r.2 ++ c.2) := by
  intro r c
  have h := Copy.run_inv ops {} [] [] (by simpa [actBytes] using Copy.inv_init)
  simp only [List.nil_append] at h
  have ⟨h1, h2⟩ := Copy.close_spec r.1 _ _ h
  rw [actBytes_append]
  exact ⟨h1, h2, by rw [h1, h2]⟩

/-- `copied_data()` can be asked again (a second `store_page` under another key): it returns the same page,
not the buffer's capacity (fixed in /repo: `copy_buf::getstr` keeps exactly the data) -/
theorem cache_copy_repeatable (k : Copy) : k.getstr.2.getstr.1 = k.getstr.1 := by
  unfold Copy.getstr
  simp only [Bool.false_eq_true, if_false]
  exact List.take_length

/-- non-vacuity: 300 bytes overflow the initial 128-byte buffer twice (doubling to 256 then 512) -/
example : ((Copy.run ({}, []) [.put (List.replicate 300 7), .sync]).1.vec.length,
           actBytes (Copy.run ({}, []) [.put (List.replicate 300 7), .sync]).2 == List.replicate 300 7) = (512, true) := by
  decide +kernel

/-- **gzip_bookkeeping.**  For every deflater, buffer size and sequence of writes/puts/flushes through
`gzip_buf` followed by `close()`: the inputs fed to the deflater, in order, are exactly the
application bytes; `Z_FINISH` is issued exactly once, as the last call; the bytes handed to the next
buffer are exactly the deflater's outputs in order.  Hence, for any `inflate` that inverts this deflater
on finished streams, the client recovers the application bytes from the body. -/
theorem gzip_bookkeeping (D : Deflater) (bufsize : Int) (ops : List BufOp) :
    let r := Gz.run (Gz.open D bufsize, []) ops
    let c := r.1.close
    ∃ calls last, c.1.fed = calls ++ [(last, Flush.finish)] ∧ (∀ x ∈ calls, x.2 ≠ Flush.finish) ∧
      (c.1.fed.map (·.1)).flatten = (ops.map BufOp.data).flatten ∧
      actBytes (r.2 ++ c.2) = (feedAll D D.init c.1.fed).2 ∧
      ∀ inflate : Bytes → Option Bytes,
        (∀ cs l, (∀ x ∈ cs, x.2 ≠ Flush.finish) →
            inflate (feedAll D D.init (cs ++ [(l, Flush.finish)])).2 = some ((cs ++ [(l, Flush.finish)]).map (·.1)).flatten) →
        inflate (actBytes (r.2 ++ c.2)) = some (ops.map BufOp.data).flatten := by
  intro r c
  have h := Gz.run_inv ops (Gz.open D bufsize) [] [] (by simpa [actBytes] using Gz.open_inv D bufsize)
  simp only [List.nil_append] at h
  obtain ⟨calls, last, h1, h2, h3, h4, _⟩ := Gz.close_spec r.1 _ _ h
  refine ⟨calls, last, h1, h2, h3, ?_, ?_⟩
  · rw [actBytes_append]; exact h4.symm
  · intro inflate hinf
    rw [actBytes_append, ← h4, h1, hinf calls last h2, ← h1, h3]

/-- a deflater that stores: output = input -/
def idDeflater : Deflater := { σ := Unit, init := (), feed := fun _ i _ => ((), i) }

/-- non-vacuity: a storing deflater satisfies the hypothesis shape on a concrete run
(259 bytes through a 256-byte buffer: one Z_NO_FLUSH feed of 256 bytes, then Z_FINISH with the remaining 3) -/
example : ((Gz.run (Gz.open idDeflater (-1), []) [.put (List.replicate 259 9)]).1.close).1.fed.map (fun x => (x.1.length, x.2))
    = [(256, Flush.noFlush), (3, Flush.finish)] := by
  decide +kernel

/-! ## 4. framing of a whole response, as a client decodes it -/

/-- **framing_roundtrip (HTTP).**  `st` is the connection state after `set_response_headers`: the
application's status line `l0` and header lines `rest0` (no CR inside, none empty, no Transfer-Encoding
among them, at most one Content-Length, in plain decimal).  For every sequence of `format_output` calls
of a finalized response whose total length is the announced Content-Length (if one was announced), no
`protocol_violation` is raised and the RFC 7230 client of `Spec.lean` reads **exactly one head** — the
application's lines followed by the ones `format_output` adds — and a body equal to the concatenation of
the inputs, whether the server chose Content-Length (announced, or computed for a single write),
chunked (keep-alive and HTTP/1.1) or close-delimited framing. -/
theorem framing_roundtrip_http (st : HttpSt) (l0 : Bytes) (rest0 : List Bytes) (h : HttpReady st l0 rest0)
    (ws : List Bytes) (last : Bytes) (hlen : ∀ n, st.contentLength = some n → (ws.flatten ++ last).length = n) :
    ∃ extras enc,
      httpRun st (callsOf ws last) = (joinLines (l0 :: (rest0 ++ extras)) ++ [13, 10] ++ enc, false) ∧
      Spec.deHttp (joinLines (l0 :: (rest0 ++ extras)) ++ [13, 10] ++ enc) =
        some (joinLines (l0 :: (rest0 ++ extras)) ++ [13, 10], ws.flatten ++ last) :=
  http_roundtrip_lemma st l0 rest0 h ws last hlen

/-- a concrete ready state: HTTP/1.1 keep-alive client, `HTTP/1.1 200 Ok` + `Content-Type: text/html` -/
def exampleHttpSt : HttpSt :=
  { isHttp11 := true, clientKeepAlive := true,
    responseHeaders := joinLines [[72,84,84,80,47,49,46,49,32,50,48,48,32,79,107],
                                  [67,111,110,116,101,110,116,45,84,121,112,101,58,32,116,101,120,116,47,104,116,109,108]] }

/-- non-vacuity of `HttpReady` -/
example : HttpReady exampleHttpSt [72,84,84,80,47,49,46,49,32,50,48,48,32,79,107]
    [[67,111,110,116,101,110,116,45,84,121,112,101,58,32,116,101,120,116,47,104,116,109,108]] where
  fresh := rfl
  hdr := rfl
  status := by decide
  ok := by
    intro l hl
    simp only [List.mem_cons, List.not_mem_nil, or_false] at hl
    rcases hl with hl | hl <;> subst hl <;> exact ⟨by decide, by decide⟩
  noTE := by decide
  cl := Or.inl ⟨rfl, by decide⟩
  written0 := rfl
  version := by intro _; decide

/-- and what that state sends for two writes: chunked, decoded back by the client -/
example : (httpRun exampleHttpSt (callsOf [[1, 2, 3]] [4])).2 = false ∧
    (Spec.deHttp (httpRun exampleHttpSt (callsOf [[1, 2, 3]] [4])).1).map (·.2) = some [1, 2, 3, 4] := by
  decide +kernel

/-- **framing_roundtrip (FastCGI).**  With a CGI header block `H` (exactly one block: its first blank line
is its end) and any request id: the records sent for a finalized response parse, by the record grammar of
the FastCGI specification, to a STDOUT stream that splits into exactly that header block and the
concatenation of the inputs; see `fcgi_records_wellformed` for the shape of the records. -/
theorem framing_roundtrip_fcgi (reqId : Nat) (hr : reqId < 65536) (H : Bytes) (hH : HeadOk H) (ws : List Bytes) (last : Bytes) :
    Spec.deFcgi reqId (fcgiRun { reqId := reqId, responseHeaders := H, headersWritten := false } (callsOf ws last))
      = some (H, ws.flatten ++ last) := by
  have hrun := fcgiRun_fresh reqId H ws last
  unfold callsOf
  rw [hrun]
  unfold Spec.deFcgi
  cases ws with
  | nil =>
    simp only [deRecords_fcgiWire reqId hr, fcgiStdoutStream_wire reqId hr, List.flatten_cons, List.flatten_nil,
      List.append_nil, List.nil_append]
    exact splitHead_append H last hH
  | cons w ws' =>
    simp only [deRecords_fcgiWire reqId hr, fcgiStdoutStream_wire reqId hr]
    have e : ((H ++ w) :: ws' ++ [last]).flatten = H ++ ((w :: ws').flatten ++ last) := by simp [List.append_assoc]
    rw [e]
    exact splitHead_append H _ hH

/-- **framing_roundtrip (SCGI/CGI).**  The header block is sent once, in front of the first output. -/
theorem framing_roundtrip_scgi (H : Bytes) (hH : HeadOk H) (ws : List Bytes) (last : Bytes) :
    Spec.deScgi (scgiRun { headers := H, headersWritten := false } (ws ++ [last])) = some (H, ws.flatten ++ last) := by
  unfold Spec.deScgi
  cases ws with
  | nil =>
    rw [List.nil_append, scgiRun_fresh]
    simp only [List.flatten_cons, List.flatten_nil, List.append_nil, List.nil_append]
    exact splitHead_append H last hH
  | cons w ws' =>
    rw [List.cons_append, scgiRun_fresh]
    have : (w :: (ws' ++ [last])).flatten = (w :: ws').flatten ++ last := by simp [List.append_assoc]
    rw [this]
    exact splitHead_append H _ hH


/-- **one header block from the header set** (SCGI/FastCGI): what `format_xcgi_response_headers` makes of
the response's headers — the map entries as `Name: value` lines in map order, then the added
headers/cookies in insertion order, then a blank line — is exactly one header block (`HeadOk`, the
hypothesis of the two round-trip theorems) whenever no line is empty or contains a CR. -/
theorem header_block_once_xcgi (h : Headers) (hne : h.lines none ≠ []) (hok : ∀ l ∈ h.lines none, LineOk l) :
    HeadOk (xcgiHeaders false h) ∧ xcgiHeaders false h = joinLines (h.lines none) ++ [13, 10] :=
  xcgi_headOk h hne hok

/-- non-vacuity: `Content-Type: text/html` set, a cookie added -/
example : (({} : Headers).set [67,111,110,116,101,110,116,45,84,121,112,101] [116,101,120,116,47,104,116,109,108] |>.addRaw [83,101,116,45,67,111,111,107,105,101,58,97,61,98]).lines none
    = [[67,111,110,116,101,110,116,45,84,121,112,101,58,32,116,101,120,116,47,104,116,109,108], [83,101,116,45,67,111,111,107,105,101,58,97,61,98]] := by
  decide

/-- non-vacuity of `HeadOk`: `Content-Type: text/html CRLF CRLF` -/
example : HeadOk [67,111,110,116,101,110,116,45,84,121,112,101,58,32,116,101,120,116,47,104,116,109,108,13,10,13,10] := by
  unfold HeadOk; decide

/-! ## 5. composition -/

/-! ## 5. the header container (`response_headers`) -/

/-- header names are compared without regard to ASCII case — `ieq` is the equivalence of
`protocol::compare` (the ordering of the `headers_` map) -/
theorem header_names_case_insensitive (l r : Bytes) : ieq l r = true ↔ l.map lowerByte = r.map lowerByte :=
  ieq_iff l r

/-- **last set wins, under any spelling.**  After any sequence of `set_header` (and the typed setters
built on it), `add_header` and `set_cookie` calls on an empty container, `get_header(n)` returns the value of
the last assignment to a name equal to `n` up to case (`add_header` assigns only for `Status` and
`Content-Length`), or nothing if there was none / the last one was empty (which erases). -/
theorem headers_last_set_wins (ops : List HOp) (n : Bytes) :
    (ops.foldl Headers.apply {}).get n = lastValue n [] ops :=
  (Headers.run_spec ops {} Headers.ok_empty).2.1 n

/-- **one entry per name**: the map never holds two entries whose names differ only in case, so
at most one `Name: value` line per name is written -/
theorem headers_unique_names (ops : List HOp) (n : Bytes) :
    ((ops.foldl Headers.apply {}).map.filter fun e => ieq e.1 n).length ≤ 1 :=
  Sorted.unique _ (Headers.run_spec ops {} Headers.ok_empty).1 n

/-- **added headers and cookies are kept, all of them, in the order they were added** -/
theorem headers_added_in_order (ops : List HOp) :
    (ops.foldl Headers.apply {}).added = ops.filterMap HOp.adds := by
  have := (Headers.run_spec ops {} Headers.ok_empty).2.2
  simpa using this

/-- the lines of the header block: one per map entry, then the added ones -/
theorem header_lines_shape (H : Headers) :
    H.lines none = H.map.map (fun kv => kv.1 ++ [58, 32] ++ kv.2) ++ H.added := by
  unfold Headers.lines
  congr 1
  induction H.map with
  | nil => rfl
  | cons kv m ih => simp only [List.flatMap_cons, List.map_cons, ih]; rfl

/-- non-vacuity / illustration: `Content-Type` set twice in different case, a cookie, `add_header("Status")` -/
example : ((([HOp.set [67,111,110,116,101,110,116,45,84,121,112,101] [97], HOp.addRaw [99,61,49],
              HOp.set [99,79,78,84,69,78,84,45,116,121,112,101] [98], HOp.add (b Gen.statusName) [52,48,52]] : List HOp).foldl Headers.apply {}).lines none)
    = [[67,111,110,116,101,110,116,45,84,121,112,101,58,32,98], [83,116,97,116,117,115,58,32,52,48,52], [99,61,49]] := by
  decide

/-! ## 6. composition: the response as a whole

`runCaseWith D cfg cache cs` is the model the correspondence runs against the real framework, byte for
byte (`Model.lean`): the script `cs.script` drives the response object (`Response.lean`: `out()` with its
gzip decision and header hand-over, `gzip_buf → copy_buf → device`, `finalize`, the context's completion,
`fetch_page`/`store_page`), whose trace is replayed on the connection (`WireModel.lean`: `format_output` of
`cs.proto`, the write path under the socket schedule `cs.sched`).  `wellFormed` is the usage contract: no
write (and no synchronous flush, no `fetch_page`) after `finalize()`/`store_page()`. -/

/-- non-vacuity of the usage contract; an explicit `finalize()` followed by asynchronous flushes is inside it -/
example : wellFormed .async [.setbuf 0, .write 5 1, .flush, .write 3 2, .finalize, .flush, .flush] = true ∧
          wellFormed .normal [.fetchPage "k", .write 5 1, .flush, .storePage "k"] = true ∧
          wellFormed .normal [.finalize, .write 1 1] = false := by decide

/-- **stage 1: the response object.**  For every script within the usage contract, io mode, buffer / gzip
configuration, cache content and request: when the context has completed the response it is `Done` — every
byte written went through the chain; `Z`, what left `gzip_buf` (or the bytes written), is what `copy_buf` kept and
— minus the application's own header block in the raw modes — what the connection was given as a sequence of
calls `…(wᵢ, false)…, (last, true), ([], false)*`: eof announced exactly once, with the last data, empty calls
afterwards only; the header set is handed over exactly once, before the first byte. -/
theorem response_trace (D : Deflater) (cfg : Config) (cache : PageCache) (mode : Mode) (acceptGzip : Bool) (script : List Op)
    (hwf : wellFormed mode script = true) :
    ∃ Z, Done (runScript D cfg cache mode acceptGzip script).resp (runScript D cfg cache mode acceptGzip script).resp.written Z ∧
      (runScript D cfg cache mode acceptGzip script).resp.mode = mode :=
  response_trace_spec cfg cache mode acceptGzip script hwf

/-- **body = what the application wrote, or a gzip stream of it.**  In a `Done` response without `gzip_buf`,
what left the chain is what was written; with `gzip_buf`, it is the output of the deflater fed exactly the bytes
written, `Z_FINISH` exactly once and last — so any `inflate` that inverts the deflater on finished streams
recovers the application's bytes. -/
theorem body_is_written_or_gzip_of_it {D : Deflater} {r : Resp D} {W Z : Bytes} (d : Done r W Z) :
    (r.gz = none → Z = W) ∧
    (r.gz.isSome = true → ∀ inflate : Bytes → Option Bytes,
      (∀ cs l, (∀ x ∈ cs, x.2 ≠ Flush.finish) →
          inflate (feedAll D D.init (cs ++ [(l, Flush.finish)])).2 = some ((cs ++ [(l, Flush.finish)]).map (·.1)).flatten) →
      inflate Z = some W) := by
  have hg := d.gz
  unfold GzDone at hg
  refine ⟨fun h => by rw [h] at hg; exact hg, fun h inflate hinf => ?_⟩
  obtain ⟨g, hgs⟩ := Option.isSome_iff_exists.mp h
  rw [hgs] at hg
  obtain ⟨_, calls, last, h1, h2, h3, h4⟩ := hg
  rw [← h4, h1, hinf calls last h2, ← h1, h3]

/-- **the gzip decision and the headers agree**, for every script (no usage contract needed): a `gzip_buf` exists
exactly if `need_gzip()` held for the application's headers when `out()` ran, and then — only then — `out()` added
`Content-Encoding: gzip` before handing the headers over; see `Enc`. -/
theorem gzip_decision_matches_headers (D : Deflater) (cfg : Config) (cache : PageCache) (mode : Mode) (acceptGzip : Bool)
    (script : List Op) : Enc (runScript D cfg cache mode acceptGzip script).resp :=
  encoding_decision cfg cache mode acceptGzip script

/-- **response_wire_eq (SCGI/CGI).**  For every write script within the usage contract, io mode, buffer and gzip
configuration, cache content, request and socket schedule: nothing is violated, given up, broken or left
pending, and the bytes on the wire are the header block `format_xcgi_response_headers` makes of the header set
`out()` handed over (in the raw modes: parsed from the application's own block, which must be complete), followed
by exactly the bytes that left the buffer chain. -/
theorem response_wire_eq_scgi (D : Deflater) (cfg : Config) (cache : PageCache) (cs : Case)
    (hwf : wellFormed cs.mode cs.script = true) (hp : cs.proto = .scgi) :
    ∃ Z, Done (runCaseWith D cfg cache cs).run.resp (runCaseWith D cfg cache cs).run.resp.written Z ∧
      ((cs.mode.isRaw = true → (rawNext {} (runCaseWith D cfg cache cs).run.resp.written).done = true) →
        WireOk (runCaseWith D cfg cache cs).wire ∧
        (runCaseWith D cfg cache cs).wire.conn.wire =
          xcgiHeaders false (runCaseWith D cfg cache cs).run.resp.wireHeaders ++ filterOf cs.mode.isRaw Z) :=
  Cppcms.C03.response_wire_eq_scgi cfg cache cs hwf hp

/-- **response_wire_eq (FastCGI).**  As above; the wire is a well-formed record sequence for request 1 (see
`fcgi_records_wellformed`) whose STDOUT stream is the header block followed by the bytes that left the chain. -/
theorem response_wire_eq_fcgi (D : Deflater) (cfg : Config) (cache : PageCache) (cs : Case)
    (hwf : wellFormed cs.mode cs.script = true) (hp : cs.proto = .fcgi) :
    ∃ Z, Done (runCaseWith D cfg cache cs).run.resp (runCaseWith D cfg cache cs).run.resp.written Z ∧
      ((cs.mode.isRaw = true → (rawNext {} (runCaseWith D cfg cache cs).run.resp.written).done = true) →
        WireOk (runCaseWith D cfg cache cs).wire ∧
        ∃ ds, ds.flatten = xcgiHeaders false (runCaseWith D cfg cache cs).run.resp.wireHeaders ++ filterOf cs.mode.isRaw Z ∧
          (runCaseWith D cfg cache cs).wire.conn.wire = fcgiWire 1 ds ∧
          Spec.deRecords (runCaseWith D cfg cache cs).wire.conn.wire = some (fcgiAllRecs 1 ds) ∧
          Spec.fcgiStdoutStream 1 (fcgiAllRecs 1 ds) = some ds.flatten) :=
  Cppcms.C03.response_wire_eq_fcgi cfg cache cs hwf hp

/-- **response_wire_eq (HTTP).**  As above, for an HTTP/1.0 or 1.1 request with or without keep-alive.  Hypotheses
about the application's headers (`HttpReady`, derivable from `HttpHeadersOk` by `httpReady_of_headers`: no CR in
status / header lines, no Transfer-Encoding of its own, at most one Content-Length, in plain decimal) and, if it
announced a Content-Length, that the body has that length.  Then the wire is exactly one head — the application's
status line and headers, then the lines `format_output` adds — followed by the body in the framing chosen
(Content-Length, chunked, until-close), and an RFC 7230 client decodes it to the bytes that left the chain. -/
theorem response_wire_eq_http (D : Deflater) (cfg : Config) (cache : PageCache) (cs : Case)
    (hwf : wellFormed cs.mode cs.script = true) (a c : Bool) (hp : cs.proto = .http a c) (l0 : Bytes) (rest0 : List Bytes)
    (hready : HttpReady (({ isHttp11 := a, clientKeepAlive := c } : HttpSt).setHeaders (runCaseWith D cfg cache cs).run.resp.wireHeaders) l0 rest0) :
    ∃ Z, Done (runCaseWith D cfg cache cs).run.resp (runCaseWith D cfg cache cs).run.resp.written Z ∧
      ((cs.mode.isRaw = true → (rawNext {} (runCaseWith D cfg cache cs).run.resp.written).done = true) →
       (∀ n, (({ isHttp11 := a, clientKeepAlive := c } : HttpSt).setHeaders (runCaseWith D cfg cache cs).run.resp.wireHeaders).contentLength = some n →
          (filterOf cs.mode.isRaw Z).length = n) →
        WireOk (runCaseWith D cfg cache cs).wire ∧
        ∃ extras enc,
          (runCaseWith D cfg cache cs).wire.conn.wire = joinLines (l0 :: (rest0 ++ extras)) ++ [13, 10] ++ enc ∧
          Spec.deHttp (runCaseWith D cfg cache cs).wire.conn.wire =
            some (joinLines (l0 :: (rest0 ++ extras)) ++ [13, 10], filterOf cs.mode.isRaw Z)) :=
  Cppcms.C03.response_wire_eq_http cfg cache cs hwf a c hp l0 rest0 hready

/-- the header hypothesis of `response_wire_eq_http`, from conditions on the header set alone -/
theorem http_ready_of_clean_headers (a c : Bool) (H : Headers) (ok : HttpHeadersOk H) :
    HttpReady (({ isHttp11 := a, clientKeepAlive := c } : HttpSt).setHeaders H) (httpStatusLine a H)
      (H.lines (some (b Gen.statusName))) :=
  httpReady_of_headers a c H ok

/-- … and those follow from conditions on the header *container* — names without colon or CR, values and status without CR,
clean added lines that are neither Transfer-Encoding nor Content-Length, no Transfer-Encoding entry, a Content-Length entry (if
any) in plain decimal: the case-insensitive uniqueness of the map (§5) is what makes the client see exactly one Content-Length. -/
theorem http_headers_ok_of_clean_container (H : Headers) (h : HeadersClean H) : HttpHeadersOk H :=
  HttpHeadersOk.of_clean H h

/-- the field values a client sees under a name (other than `Status`): the value of the map entry for that name under any
spelling, if there is one, then those of the added lines carrying the name -/
theorem client_field_values (H : Headers) (ok : H.Ok) (hkeys : ∀ kv ∈ H.map, ∀ c ∈ kv.1, c ≠ 58) (s n : Bytes)
    (hns : ieq n s = false) :
    Spec.fieldValues (Spec.lower n) (H.lines (some s)) =
      ((mapFind n H.map).map fun kv => kv.2.dropWhile Spec.isWs).toList ++ Spec.fieldValues (Spec.lower n) H.added :=
  fieldValues_lines H ok hkeys s n hns

/-- **client_sees_app_bytes.**  The same for any presentation `F` of the protocol with a round-trip theorem against
the independent de-framer (`httpFraming`, `fcgiFraming`, `scgiFraming`): the client decodes exactly one head and
exactly the bytes that left the buffer chain. -/
theorem client_sees_app_bytes (D : Deflater) (cfg : Config) (cache : PageCache) (cs : Case)
    (hwf : wellFormed cs.mode cs.script = true) :
    ∃ Z, Done (runCaseWith D cfg cache cs).run.resp (runCaseWith D cfg cache cs).run.resp.written Z ∧
      (runCaseWith D cfg cache cs).run.resp.mode = cs.mode ∧
      ∀ (F : Framing),
        (∀ calls, F.run calls = ((cs.framer (runCaseWith D cfg cache cs).run.resp.wireHeaders).run calls).2) →
        (cs.mode.isRaw = true → (rawNext {} (runCaseWith D cfg cache cs).run.resp.written).done = true) →
        F.lengthOk (filterOf cs.mode.isRaw Z).length →
        (runCaseWith D cfg cache cs).wire.violated = false ∧ (runCaseWith D cfg cache cs).wire.gaveUp = false ∧
        (runCaseWith D cfg cache cs).wire.conn.broken = false ∧ (runCaseWith D cfg cache cs).wire.conn.backlog = [] ∧
        ∃ ws last head, ws.flatten ++ last = filterOf cs.mode.isRaw Z ∧
          (runCaseWith D cfg cache cs).wire.conn.wire = (F.run (callsOf ws last)).1 ∧
          F.deframe (runCaseWith D cfg cache cs).wire.conn.wire = some (head, filterOf cs.mode.isRaw Z) :=
  response_wire_generic cfg cache cs hwf

/-- what left the chain is determined by the response: the `Z` of the theorems above is the same `Z` -/
theorem done_body_unique {D : Deflater} {r : Resp D} {W W' Z Z' : Bytes} (d : Done r W Z) (d' : Done r W' Z') :
    filterOf r.mode.isRaw Z = filterOf r.mode.isRaw Z' := by
  rw [← d.bytesAll, ← d'.bytesAll]

/-! ### the page cache -/

/-- **store_page stores what was sent** (one step; see `Run.storePage_stores`) -/
theorem store_page_stores_sent_bytes {D : Deflater} (x : Run D) (key : String) (p : Phase x.resp) (e : Enc x.resp) (a : Armed x.resp)
    (hnf : x.resp.finalized = false) :
    ∃ Z, Done (x.storePage key).resp (x.storePage key).resp.written Z ∧
      (x.storePage key).resp.gz.isSome = x.resp.finalize.gz.isSome ∧
      (x.storePage key).cache.fetch (pageKey (x.storePage key).resp.gz.isSome key) = some Z ∧
      (x.storePage key).cacheCopy = some Z :=
  x.storePage_stores key p e a hnf

/-- **a miss is recorded and stored as sent** (whole scripts; see `Cppcms.C03.cache_miss_stores_sent_bytes`) -/
theorem cache_miss_stores_sent_bytes (D : Deflater) (cfg : Config) (cache : PageCache) (mode : Mode) (acceptGzip : Bool)
    (pre mid post : List Op) (key : String) (hpre : ∀ op ∈ pre, op.isPrelude = true)
    (hmiss : cache.fetch (pageKey (pre.foldl Run.step ({ resp := Resp.new D cfg mode acceptGzip, cache } : Run D)).resp.needGzip key) = none)
    (hmid : ∀ op ∈ mid, op.keepsEncoding = true ∧ op.finalizes = false)
    (hpost : ∀ op ∈ post, op.afterFinalOk mode = true ∧ op.isStore = false) :
    ∃ Z, Done (runScript D cfg cache mode acceptGzip (pre ++ .fetchPage key :: (mid ++ .storePage key :: post))).resp
           (runScript D cfg cache mode acceptGzip (pre ++ .fetchPage key :: (mid ++ .storePage key :: post))).resp.written Z ∧
      (runScript D cfg cache mode acceptGzip (pre ++ .fetchPage key :: (mid ++ .storePage key :: post))).cache.fetch
        (pageKey (runScript D cfg cache mode acceptGzip (pre ++ .fetchPage key :: (mid ++ .storePage key :: post))).resp.gz.isSome key) = some Z ∧
      (runScript D cfg cache mode acceptGzip (pre ++ .fetchPage key :: (mid ++ .storePage key :: post))).cacheCopy = some Z :=
  Cppcms.C03.cache_miss_stores_sent_bytes cfg cache mode acceptGzip pre mid post key hpre hmiss hmid hpost

/-- **cached_hit_serves_stored_bytes_once** (see `Cppcms.C03.cached_hit_serves_stored_bytes_once`) -/
theorem cached_hit_serves_stored_bytes_once (D : Deflater) (cfg : Config) (cache : PageCache) (mode : Mode) (acceptGzip : Bool)
    (pre rest : List Op) (key : String) (page : Bytes) (hpre : ∀ op ∈ pre, op.isPrelude = true)
    (hit : cache.fetch (pageKey (pre.foldl Run.step ({ resp := Resp.new D cfg mode acceptGzip, cache } : Run D)).resp.needGzip key) = some page) :
    Done (runScript D cfg cache mode acceptGzip (pre ++ .fetchPage key :: rest)).resp page page ∧
    (runScript D cfg cache mode acceptGzip (pre ++ .fetchPage key :: rest)).resp.written = page ∧
    (runScript D cfg cache mode acceptGzip (pre ++ .fetchPage key :: rest)).resp.gz = none ∧
    (runScript D cfg cache mode acceptGzip (pre ++ .fetchPage key :: rest)).resp.copy = none ∧
    (runScript D cfg cache mode acceptGzip (pre ++ .fetchPage key :: rest)).resp.mode = mode ∧
    (runScript D cfg cache mode acceptGzip (pre ++ .fetchPage key :: rest)).cache = cache ∧
    (mode.isRaw = false → (runScript D cfg cache mode acceptGzip (pre ++ .fetchPage key :: rest)).resp.sentHeaders =
      some (if (pre.foldl Run.step ({ resp := Resp.new D cfg mode acceptGzip, cache } : Run D)).resp.needGzip
        then (pre.foldl Run.step ({ resp := Resp.new D cfg mode acceptGzip, cache } : Run D)).resp.headers.set sContentEncoding sGzip
        else (pre.foldl Run.step ({ resp := Resp.new D cfg mode acceptGzip, cache } : Run D)).resp.headers)) :=
  Cppcms.C03.cached_hit_serves_stored_bytes_once cfg cache mode acceptGzip pre rest key page hpre hit

/-- **cache round trip.**  Request A misses, writes, stores; any later request B whose `need_gzip()` selects the
variant A stored gets — as its whole body, uncompressed a second time by nobody — exactly the bytes `Z` that A's
client was sent. -/
theorem cache_roundtrip (D : Deflater) (cfgA cfgB : Config) (cache : PageCache) (modeA modeB : Mode) (accA accB : Bool)
    (preA midA postA preB restB : List Op) (key : String)
    (hpreA : ∀ op ∈ preA, op.isPrelude = true)
    (hmiss : cache.fetch (pageKey (preA.foldl Run.step ({ resp := Resp.new D cfgA modeA accA, cache } : Run D)).resp.needGzip key) = none)
    (hmid : ∀ op ∈ midA, op.keepsEncoding = true ∧ op.finalizes = false)
    (hpost : ∀ op ∈ postA, op.afterFinalOk modeA = true ∧ op.isStore = false)
    (hpreB : ∀ op ∈ preB, op.isPrelude = true) :
    ∃ Z, Done (runScript D cfgA cache modeA accA (preA ++ .fetchPage key :: (midA ++ .storePage key :: postA))).resp
           (runScript D cfgA cache modeA accA (preA ++ .fetchPage key :: (midA ++ .storePage key :: postA))).resp.written Z ∧
      ((preB.foldl Run.step ({ resp := Resp.new D cfgB modeB accB, cache := (runScript D cfgA cache modeA accA (preA ++ .fetchPage key :: (midA ++ .storePage key :: postA))).cache } : Run D)).resp.needGzip =
          (runScript D cfgA cache modeA accA (preA ++ .fetchPage key :: (midA ++ .storePage key :: postA))).resp.gz.isSome →
        Done (runScript D cfgB (runScript D cfgA cache modeA accA (preA ++ .fetchPage key :: (midA ++ .storePage key :: postA))).cache
               modeB accB (preB ++ .fetchPage key :: restB)).resp Z Z) := by
  obtain ⟨Z, d, hc, _⟩ := Cppcms.C03.cache_miss_stores_sent_bytes (D := D) cfgA cache modeA accA preA midA postA key hpreA hmiss hmid hpost
  refine ⟨Z, d, fun hsel => ?_⟩
  rw [← hsel] at hc
  exact (Cppcms.C03.cached_hit_serves_stored_bytes_once (D := D) cfgB _ modeB accB preB restB key Z hpreB hc).1

/-! ### non-vacuity of the hypotheses of section 6 -/

/-- an HTTP/1.1 keep-alive case: status, cookie, gzip (stand-in deflater), two writes and a flush, a short write and a would-block -/
def exCase : Case :=
  { proto := .http true true, mode := .normal, gz := true, zstub := true,
    script := [.status 404, .cookie [97] [98], .write 5 1, .flush, .write 3 2], sched := [.accept 3, .wouldBlock] }

def exHeaders : Headers :=
  { map := [([67, 111, 110, 116, 101, 110, 116, 45, 69, 110, 99, 111, 100, 105, 110, 103], [103, 122, 105, 112]),
          ([67, 111, 110, 116, 101, 110, 116, 45, 84, 121, 112, 101], [116, 101, 120, 116, 47, 104, 116, 109, 108]),
          ([83, 116, 97, 116, 117, 115], [52, 48, 52, 32, 78, 111, 116, 32, 70, 111, 117, 110, 100])],
    added := [[83, 101, 116, 45, 67, 111, 111, 107, 105, 101, 58, 97, 61, 98, 59, 32, 86, 101, 114, 115, 105, 111, 110, 61, 49]] }

example : wellFormed exCase.mode exCase.script = true := by decide

/-- the header set `out()` hands over in `exCase` -/
theorem exHeaders_eq : (runCaseWith stubDeflater {} [] exCase).run.resp.wireHeaders = exHeaders := by decide +kernel

/-- … satisfies the header hypothesis of `response_wire_eq_http` -/
example : HttpHeadersOk exHeaders where
  status := by decide
  lines := by
    intro l hl
    have : exHeaders.lines (some (b Gen.statusName)) = [[67,111,110,116,101,110,116,45,69,110,99,111,100,105,110,103,58,32,103,122,105,112],
      [67,111,110,116,101,110,116,45,84,121,112,101,58,32,116,101,120,116,47,104,116,109,108],
      [83,101,116,45,67,111,111,107,105,101,58,97,61,98,59,32,86,101,114,115,105,111,110,61,49]] := by decide
    rw [this] at hl
    simp only [List.mem_cons, List.not_mem_nil, or_false] at hl
    rcases hl with h | h | h <;> subst h <;> exact ⟨by decide, by decide⟩
  noTE := by decide
  cl := Or.inl ⟨by decide, by decide⟩

/-- a response with an announced Content-Length (the other branch of `HttpHeadersOk.cl`) -/
example : HttpHeadersOk ((({} : Headers).set sContentType sTextHtml).set sContentLengthName [56]) where
  status := by decide
  lines := by
    intro l hl
    have : ((({} : Headers).set sContentType sTextHtml).set sContentLengthName [56]).lines (some (b Gen.statusName)) =
      [[67,111,110,116,101,110,116,45,76,101,110,103,116,104,58,32,56], [67,111,110,116,101,110,116,45,84,121,112,101,58,32,116,101,120,116,47,104,116,109,108]] := by decide
    rw [this] at hl
    simp only [List.mem_cons, List.not_mem_nil, or_false] at hl
    rcases hl with h | h <;> subst h <;> exact ⟨by decide, by decide⟩
  noTE := by decide
  cl := Or.inr ⟨by decide, by decide, by decide⟩

/-- the hit hypothesis of `cached_hit_serves_stored_bytes_once`: a compressed page in the cache, a client that accepts gzip -/
example : PageCache.fetch [("_Z:k", [1,2,3])] (pageKey (([] : List Op).foldl Run.step
    ({ resp := Resp.new stubDeflater {} .normal true, cache := [("_Z:k", [1,2,3])] } : Run stubDeflater)).resp.needGzip "k") = some [1,2,3] := by
  decide

/-- the miss hypothesis of `cache_miss_stores_sent_bytes`, and a script of the shape it covers -/
example : PageCache.fetch [] (pageKey (([.status 404] : List Op).foldl Run.step
    ({ resp := Resp.new stubDeflater {} .normal true, cache := [] } : Run stubDeflater)).resp.needGzip "k") = none ∧
    (∀ op ∈ ([.write 5 1, .flush, .cookie [97] [98], .setbuf 0, .putc 3 2] : List Op), op.keepsEncoding = true ∧ op.finalizes = false) ∧
    (∀ op ∈ ([.flush, .flush, .finalize] : List Op), op.afterFinalOk .async = true ∧ op.isStore = false) := by
  decide

/-- raw modes: a complete header block satisfies the completeness hypothesis -/
example : (rawNext {} [65, 58, 32, 98, 13, 10, 13, 10, 120, 121]).done = true := by decide

/-- non-vacuity: the header set of `Props.exCase` (Content-Encoding, Content-Type, Status, a cookie) is clean -/
example : HeadersClean exHeaders where
  ok := by unfold Headers.Ok exHeaders; simp only [Sorted]; decide
  keys := by decide
  vals := by decide
  added := by
    intro l hl
    simp only [exHeaders, List.mem_cons, List.not_mem_nil, or_false] at hl
    subst hl; exact ⟨by decide, by decide⟩
  addedTE := by decide
  addedCL := by decide
  noTE := by decide
  cl := by intro kv h; have : mapFind sContentLengthName exHeaders.map = none := by decide
           rw [this] at h; cases h

end Cppcms.C03.Props
