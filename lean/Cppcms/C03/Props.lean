import Cppcms.C03.ConnWriteLemmas
import Cppcms.C03.FramingLemmas
import Cppcms.C03.DeviceLemmas
import Cppcms.C03.ChainLemmas
/-!
# C03 — the client receives exactly the bytes the application wrote, once and in order

Property theorems only; helper lemmas are in `ConnWriteLemmas.lean`, `FramingLemmas.lean`.
-/
namespace Cppcms.C03.Props
open Cppcms Cppcms.C03

/-! ## 1. connection write path: every schedule of partial socket writes -/

/-- **pending_invariant.**  For every trace of `nonblocking_write` / `async_write` / handler
invocations / blocking `write` calls and every answer of the socket to each `write_some`
(accept any prefix, would-block, error), as long as no write ended in a hard error:
bytes on the wire ++ bytes owned by the in-flight asynchronous handler ++ `pending_output_`
= concatenation of the formatted outputs handed over so far.
Hypothesis `disciplined`: the application does not write while an asynchronous write is in flight. -/
theorem pending_invariant (evs : List Ev) (hd : disciplined {} evs = true) (hb : (runEvs {} evs).broken = false) :
    (runEvs {} evs).wire ++ (runEvs {} evs).backlog = (evs.map Ev.data).flatten := by
  have h := runEvs_inv evs {} (by simp [Conn.Inv, Conn.backlog]) hd hb
  have hh := runEvs_handed evs {}
  simp only [List.nil_append] at hh
  rw [← hh]
  exact h

/-- non-vacuity: a trace with a partial accept, a would-block, an asynchronous write and handler steps -/
example : disciplined {} [.nb [1,2,3] (.accept 2), .nb [4] .wouldBlock, .async [5] (.accept 1), .writable .wouldBlock, .writable (.accept 9)] = true
    ∧ (runEvs {} [.nb [1,2,3] (.accept 2), .nb [4] .wouldBlock, .async [5] (.accept 1), .writable .wouldBlock, .writable (.accept 9)]).broken = false
    ∧ (runEvs {} [.nb [1,2,3] (.accept 2), .nb [4] .wouldBlock, .async [5] (.accept 1), .writable .wouldBlock, .writable (.accept 9)]).wire = [1,2,3,4,5] := by decide

/-- **completion.**  Once nothing is pending or in flight, the peer has received everything, once, in order. -/
theorem wire_complete_when_drained (evs : List Ev) (hd : disciplined {} evs = true) (hb : (runEvs {} evs).broken = false)
    (hp : (runEvs {} evs).backlog = []) : (runEvs {} evs).wire = (evs.map Ev.data).flatten := by
  have := pending_invariant evs hd hb
  rwa [hp, List.append_nil] at this

/-- **a failing write never corrupts the stream**: after the event on which a write fails for
good, the wire still holds a prefix of what was handed over (nothing duplicated or reordered). -/
theorem wire_prefix_on_failure (evs : List Ev) (e : Ev) (hd : disciplined {} (evs ++ [e]) = true)
    (hb : (runEvs {} evs).broken = false) :
    (runEvs {} (evs ++ [e])).wire <+: ((evs ++ [e]).map Ev.data).flatten := by
  have hd' : disciplined {} evs = true ∧ evOk (runEvs {} evs) e = true := by
    have : ∀ (es : List Ev) (c : Conn), disciplined c (es ++ [e]) = true →
        disciplined c es = true ∧ evOk (runEvs c es) e = true := by
      intro es
      induction es with
      | nil => intro c h; simpa [disciplined, runEvs] using h
      | cons x xs ih =>
        intro c h
        simp only [List.cons_append, disciplined, Bool.and_eq_true] at h
        have := ih _ h.2
        simp only [disciplined, Bool.and_eq_true, runEvs, List.foldl_cons]
        exact ⟨⟨h.1, this.1⟩, this.2⟩
    exact this evs {} hd
  have hinv := runEvs_inv evs {} (by simp [Conn.Inv, Conn.backlog]) hd'.1 hb
  have := stepEv_wire_prefix (runEvs {} evs) e hinv hd'.2
  have hh := runEvs_handed (evs ++ [e]) {}
  simp only [List.nil_append] at hh
  rw [← hh]
  simpa [runEvs, List.foldl_append] using this

/-- **liveness of the asynchronous handler**: if the socket accepts at least one byte each time
it is reported writable, the handler completes after at most `|data|` invocations and the data is
on the wire exactly once. -/
theorem async_write_drains (c : Conn) (out : Bytes) (ks : List Nat) (hi : c.inflight = some out) (hne : out ≠ [])
    (hl : out.length ≤ ks.length) (hb : c.broken = false) :
    (drainSteps c ks).inflight = none ∧ (drainSteps c ks).wire = c.wire ++ out := by
  have := drain_complete ks c out hi hne hl hb
  exact ⟨this.1, this.2.1⟩

/-- the discipline hypothesis is necessary: writing while an asynchronous write is in flight
reorders the stream (`async_write` took `pending_output_` away by `swap`). -/
theorem write_during_async_reorders :
    (runEvs {} [.async [1, 2] (.accept 1), .nb [3] (.accept 1), .writable (.accept 1)]).wire = [1, 3, 2] := by decide

/-! ## 2. framing -/

/-- **chunked round trip** (RFC 7230 4.1 decoder of `Spec.lean`): whatever sequence of
`format_output(w, false)` calls and final `format_output(last, true)` produced the body in chunked
mode, a client decodes exactly the concatenation of the writes, and stops exactly at the end. -/
theorem chunked_roundtrip (ws : List Bytes) (last rest : Bytes) :
    Spec.deChunked ((ws.map fun w => chunkWrap w false).flatten ++ chunkWrap last true ++ rest)
      = some (ws.flatten ++ last, rest) :=
  deChunked_body ws last rest

/-- chunk sizes are written in lower-case hexadecimal without prefix, and parse back -/
theorem chunk_size_roundtrip (n : Nat) : Spec.parseHexNum (hexDigits n) = some n := parseHexNum_hexDigits n

/-- **FastCGI round trip**: the records sent for the gathered inputs `ds` of the successive
`format_output` calls (the first one starts with the CGI header block) parse back, by the
record grammar of the FastCGI specification, to a STDOUT stream equal to their concatenation. -/
theorem fcgi_roundtrip (reqId : Nat) (hr : reqId < 65536) (ds : List Bytes) :
    ∃ recs, Spec.deRecords (fcgiWire reqId ds) = some recs ∧ Spec.fcgiStdoutStream reqId recs = some ds.flatten :=
  ⟨fcgiAllRecs reqId ds, deRecords_fcgiWire reqId hr ds, fcgiStdoutStream_wire reqId hr ds⟩

/-- **fcgi_records_wellformed**: every STDOUT record carries between 1 and 65535 bytes, the stream
is closed by exactly one empty STDOUT record followed by exactly one END_REQUEST, which is last. -/
theorem fcgi_records_wellformed (reqId : Nat) (hr : reqId < 65536) (ds : List Bytes) :
    ∃ body, fcgiAllRecs reqId ds = body ++ eofRecs reqId ∧
      (∀ r ∈ body, r.type = Spec.FCGI_STDOUT ∧ r.requestId = reqId ∧ 1 ≤ r.content.length ∧ r.content.length ≤ 65535) ∧
      Spec.deRecords (fcgiWire reqId ds) = some (fcgiAllRecs reqId ds) := by
  refine ⟨ds.flatMap (stdoutRecs reqId), rfl, ?_, deRecords_fcgiWire reqId hr ds⟩
  intro r h
  simp only [List.mem_flatMap] at h
  obtain ⟨d, _, hd⟩ := h
  have := (stdoutRecs_spec reqId hr d).2.1 r hd
  refine ⟨this.2.1, this.2.2.1, ?_, this.2.2.2.2⟩
  exact List.length_pos_iff.2 this.2.2.2.1

/-- non-vacuity: a 70000-byte write is cut into a full record (65535 + 1 pad) and a 4465-byte record (+ 7 pad) -/
example (data : Bytes) (h : data.length = 70000) :
    (stdoutRecs 1 data).map (fun r => (r.content.length, r.padding)) = [(65535, 1), (4465, 7)] := by
  have h2 : (data.drop Gen.maxPacketLen).length = 4465 := by simp [List.length_drop, h, Gen.maxPacketLen]
  rw [stdoutRecs]
  simp only [h, Gen.isFullRecord, Gen.maxPacketLen, Gen.fullPad]
  rw [stdoutRecs]
  have h2' : (data.drop 65535).length = 4465 := h2
  simp [h, h2', Gen.isFullRecord, Gen.maxPacketLen, Gen.lastPad, List.length_take]

/-! ## 3. the stream-buffer chain -/

/-- **device_conservation.**  For either device (`output_device`, `async_io_buf` with full or
partial buffering), in every io mode (`raw` = the raw modes, where the device first takes the
application's own CGI header block out of the stream), any initial buffer size and every sequence of
`sputn` / `sputc` / `pubsync` / `flush_async_chunk` / `setbuf m` / `full_asynchronous_buffering b`
(over a connection that accepts its writes): after `close()` nothing is buffered, the bytes passed to
`connection::write` are exactly the bytes written by the layer above (`filterOf raw` = identity outside
the raw modes), no eof was announced before, and eof is announced exactly once — with the last write.
The `flush_async_chunk` that `async_write_response` adds after `finalize()` sends no byte and no second eof. -/
theorem device_conservation (isAsync full raw : Bool) (n : Nat) (ops : List DevOp) :
    let r := Dev.run (Dev.fresh isAsync full raw n, []) ops
    let c := r.1.close logIf r.2
    let f := c.1.flush logIf c.2
    Log.eofs r.2 = 0 ∧
    Log.bytes c.2 = filterOf raw (ops.map DevOp.data).flatten ∧ c.1.content = [] ∧ Log.eofs c.2 = 1 ∧
    (c.2.getLast?.map (fun (x : Bytes × Bool) => x.2)) = some true ∧
    Log.bytes f.2.1 = filterOf raw (ops.map DevOp.data).flatten ∧ Log.eofs f.2.1 = 1 := by
  intro r c f
  have ⟨hi0, hq0, hm0⟩ := Dev.fresh_inv isAsync full raw n
  have ⟨hi, hq⟩ := Dev.run_inv ops _ [] [] hi0 hq0
  have hm := Dev.run_rawMode ops _ [] [] hi0
  simp only [List.nil_append] at hi
  have ⟨c1, c2, c3, c4, c5, c6, c7⟩ := Dev.close_spec r.1 r.2 _ hi hq
  have ⟨f1, f2⟩ := Dev.flush_after_close c.1 c.2 _ c5 c6 c7
  have hmc : c.1.rawMode = raw := by
    have := (Dev.flush_inv { r.1 with final := true } r.2 _ hi).2.2.2.2.2.2.2.2.2.2.2
    have hcl : c.1 = ({ r.1 with final := true }.flush logIf r.2).1 := by
      show (r.1.close logIf r.2).1 = _
      unfold Dev.close
      rw [if_neg (by rw [hq.2.1]; exact Bool.false_ne_true)]
    rw [hcl, this]
    show r.1.rawMode = raw
    rw [hm, hm0]
  rw [hm, hm0] at c1
  rw [hmc] at f1
  exact ⟨hq.2.2, c1, c2, c3, c4, f1, by rw [f2, c3]⟩

/-- written ++ buffered = input at every moment (outside the raw modes) -/
theorem device_conservation_running (isAsync full : Bool) (n : Nat) (ops : List DevOp) :
    let r := Dev.run (Dev.fresh isAsync full false n, []) ops
    Log.bytes r.2 ++ r.1.content = (ops.map DevOp.data).flatten := by
  intro r
  have ⟨hi0, hq0, hm0⟩ := Dev.fresh_inv isAsync full false n
  have ⟨hi, _⟩ := Dev.run_inv ops _ [] [] hi0 hq0
  have hm := Dev.run_rawMode ops _ [] [] hi0
  simp only [List.nil_append] at hi
  obtain ⟨fed, _, _, h3, h4, _⟩ := hi
  rw [hm, hm0] at h4
  simp only [filterOf, Bool.false_eq_true, if_false] at h4
  unfold Dev.content
  rw [h4]; exact h3

/-- **raw modes**: of a stream that starts with a CGI header block given line by line (lines not
empty, no CR inside) the device passes on exactly what follows the block, and the block's lines reach
`set_response_headers` through `add_header`, in order — however the stream is cut into writes
(`device_conservation` quantifies over the cuts). -/
theorem raw_header_block_stripped (ls : List Bytes) (hok : ∀ l ∈ ls, l ≠ [] ∧ ∀ c ∈ l, c ≠ 13) (body : Bytes) :
    filterOf true ((ls.map (· ++ [13, 10])).flatten ++ 13 :: 10 :: body) = body ∧
    (({} : RawParser).consume ((ls.map (· ++ [13, 10])).flatten ++ 13 :: 10 :: body)).2.2 = some (ls.foldl rawAddHeader {}) := by
  have := consume_block ls {} body rfl rfl hok
  exact ⟨this.1, this.2.2⟩

/-- non-vacuity / illustration: unbuffered device, a write larger than the buffer, a put, a setbuf that forces a flush -/
example : (Dev.run (Dev.fresh false true false 2, []) [.put [1,2,3], .putc 4, .putc 5, .setbuf 1, .put [6]]).2 = [([1,2,3], false), ([4,5], false)]
    ∧ (Dev.run (Dev.fresh false true false 2, []) [.put [1,2,3], .putc 4, .putc 5, .setbuf 1, .put [6]]).1.content = [6] := by
  decide

/-- raw mode illustration: `A: b CRLF CRLF xy` written in two pieces that cut the header block -/
example : Log.bytes ((Dev.run (Dev.fresh false true true 0, []) [.put [65, 58, 32, 98, 13], .put [10, 13, 10, 120, 121]]).1.close logIf
    (Dev.run (Dev.fresh false true true 0, []) [.put [65, 58, 32, 98, 13], .put [10, 13, 10, 120, 121]]).2).2 = [120, 121] := by
  decide

/-- the eof bookkeeping of `basic_device::write` (`eof_send_ = send_eof`) toggles: a third flush after
`close(); flush()` would announce eof again.  `http::context` never does that (one `finalize`, at most one
`flush_async_chunk` after it), which is what `device_conservation` covers; an application calling
`response().finalize()` itself and then `async_flush_output` does reach it (reproduced on the real code,
see design.d/C03.md). -/
theorem eof_flag_toggles_counterexample :
    let d0 := Dev.fresh true true false 4
    let c := d0.close logIf []
    let f1 := c.1.flush logIf c.2
    let f2 := f1.1.flush logIf f1.2.1
    Log.eofs f2.2.1 = 2 := by decide

/-- **cache_copy_identical.**  For every sequence of writes/puts/flushes through `copy_buf` followed by
`close()`: the bytes it handed to the next buffer (what goes towards the client) and the bytes
`copied_data()` returns for the page cache are both exactly the bytes written into it. -/
theorem cache_copy_identical (ops : List BufOp) :
    let r := Copy.run ({}, []) ops
    let c := r.1.close
    actBytes (r.2 ++ c.2) = (ops.map BufOp.data).flatten ∧ c.1.getstr.1 = (ops.map BufOp.data).flatten ∧
    c.1.getstr.1 = actBytes (r.2 ++ c.2) := by
  intro r c
  have h := Copy.run_inv ops {} [] [] (by simpa [actBytes] using Copy.inv_init)
  simp only [List.nil_append] at h
  have ⟨h1, h2⟩ := Copy.close_spec r.1 _ _ h
  rw [actBytes_append]
  exact ⟨h1, h2, by rw [h1, h2]⟩

/-- non-vacuity: 300 bytes overflow the initial 128-byte buffer twice (doubling to 256 then 512) -/
example : ((Copy.run ({}, []) [.put (List.replicate 300 7), .sync]).1.vec.length,
           actBytes (Copy.run ({}, []) [.put (List.replicate 300 7), .sync]).2 == List.replicate 300 7) = (512, true) := by
  decide +kernel

/-- **gzip_bookkeeping.**  For every deflater, buffer size and sequence of writes/puts/flushes through
`gzip_buf` followed by `close()`: the inputs fed to the deflater, in order, are exactly the
application bytes; `Z_FINISH` is issued exactly once, as the last call; the bytes handed to the next
buffer are exactly the deflater's outputs in order.  Hence, for any `inflate` that inverts this deflater
on finished streams, the client recovers the application bytes from the body. -/
theorem gzip_bookkeeping (D : Deflater) (bufsize : Int) (ops : List BufOp) :
    let r := Gz.run (Gz.open D bufsize, []) ops
    let c := r.1.close
    ∃ calls last, c.1.fed = calls ++ [(last, Flush.finish)] ∧ (∀ x ∈ calls, x.2 ≠ Flush.finish) ∧
      (c.1.fed.map (·.1)).flatten = (ops.map BufOp.data).flatten ∧
      actBytes (r.2 ++ c.2) = (feedAll D D.init c.1.fed).2 ∧
      ∀ inflate : Bytes → Option Bytes,
        (∀ cs l, (∀ x ∈ cs, x.2 ≠ Flush.finish) →
            inflate (feedAll D D.init (cs ++ [(l, Flush.finish)])).2 = some ((cs ++ [(l, Flush.finish)]).map (·.1)).flatten) →
        inflate (actBytes (r.2 ++ c.2)) = some (ops.map BufOp.data).flatten := by
  intro r c
  have h := Gz.run_inv ops (Gz.open D bufsize) [] [] (by simpa [actBytes] using Gz.open_inv D bufsize)
  simp only [List.nil_append] at h
  obtain ⟨calls, last, h1, h2, h3, h4, _⟩ := Gz.close_spec r.1 _ _ h
  refine ⟨calls, last, h1, h2, h3, ?_, ?_⟩
  · rw [actBytes_append]; exact h4.symm
  · intro inflate hinf
    rw [actBytes_append, ← h4, h1, hinf calls last h2, ← h1, h3]

/-- a deflater that stores: output = input -/
def idDeflater : Deflater := { σ := Unit, init := (), feed := fun _ i _ => ((), i) }

/-- non-vacuity: a storing deflater satisfies the hypothesis shape on a concrete run
(259 bytes through a 256-byte buffer: one Z_NO_FLUSH feed of 256 bytes, then Z_FINISH with the remaining 3) -/
example : ((Gz.run (Gz.open idDeflater (-1), []) [.put (List.replicate 259 9)]).1.close).1.fed.map (fun x => (x.1.length, x.2))
    = [(256, Flush.noFlush), (3, Flush.finish)] := by
  decide +kernel

/-! ## 4. framing of a whole response, as a client decodes it -/

/-- **framing_roundtrip (HTTP).**  `st` is the connection state after `set_response_headers`: the
application's status line `l0` and header lines `rest0` (no CR inside, none empty, no Transfer-Encoding
among them, at most one Content-Length, in plain decimal).  For every sequence of `format_output` calls
of a finalized response whose total length is the announced Content-Length (if one was announced), no
`protocol_violation` is raised and the RFC 7230 client of `Spec.lean` reads **exactly one head** — the
application's lines followed by the ones `format_output` adds — and a body equal to the concatenation of
the inputs, whether the server chose Content-Length (announced, or computed for a single write),
chunked (keep-alive and HTTP/1.1) or close-delimited framing. -/
theorem framing_roundtrip_http (st : HttpSt) (l0 : Bytes) (rest0 : List Bytes) (h : HttpReady st l0 rest0)
    (ws : List Bytes) (last : Bytes) (hlen : ∀ n, st.contentLength = some n → (ws.flatten ++ last).length = n) :
    ∃ extras enc,
      httpRun st (callsOf ws last) = (joinLines (l0 :: (rest0 ++ extras)) ++ [13, 10] ++ enc, false) ∧
      Spec.deHttp (joinLines (l0 :: (rest0 ++ extras)) ++ [13, 10] ++ enc) =
        some (joinLines (l0 :: (rest0 ++ extras)) ++ [13, 10], ws.flatten ++ last) :=
  http_roundtrip_lemma st l0 rest0 h ws last hlen

/-- a concrete ready state: HTTP/1.1 keep-alive client, `HTTP/1.1 200 Ok` + `Content-Type: text/html` -/
def exampleHttpSt : HttpSt :=
  { isHttp11 := true, clientKeepAlive := true,
    responseHeaders := joinLines [[72,84,84,80,47,49,46,49,32,50,48,48,32,79,107],
                                  [67,111,110,116,101,110,116,45,84,121,112,101,58,32,116,101,120,116,47,104,116,109,108]] }

/-- non-vacuity of `HttpReady` -/
example : HttpReady exampleHttpSt [72,84,84,80,47,49,46,49,32,50,48,48,32,79,107]
    [[67,111,110,116,101,110,116,45,84,121,112,101,58,32,116,101,120,116,47,104,116,109,108]] where
  fresh := rfl
  hdr := rfl
  status := by decide
  ok := by
    intro l hl
    simp only [List.mem_cons, List.not_mem_nil, or_false] at hl
    rcases hl with hl | hl <;> subst hl <;> exact ⟨by decide, by decide⟩
  noTE := by decide
  cl := Or.inl ⟨rfl, by decide⟩
  written0 := rfl
  version := by intro _; decide

/-- and what that state sends for two writes: chunked, decoded back by the client -/
example : (httpRun exampleHttpSt (callsOf [[1, 2, 3]] [4])).2 = false ∧
    (Spec.deHttp (httpRun exampleHttpSt (callsOf [[1, 2, 3]] [4])).1).map (·.2) = some [1, 2, 3, 4] := by
  decide +kernel

/-- **framing_roundtrip (FastCGI).**  With a CGI header block `H` (exactly one block: its first blank line
is its end) and any request id: the records sent for a finalized response parse, by the record grammar of
the FastCGI specification, to a STDOUT stream that splits into exactly that header block and the
concatenation of the inputs; see `fcgi_records_wellformed` for the shape of the records. -/
theorem framing_roundtrip_fcgi (reqId : Nat) (hr : reqId < 65536) (H : Bytes) (hH : HeadOk H) (ws : List Bytes) (last : Bytes) :
    Spec.deFcgi reqId (fcgiRun { reqId := reqId, responseHeaders := H, headersWritten := false } (callsOf ws last))
      = some (H, ws.flatten ++ last) := by
  have hrun := fcgiRun_fresh reqId H ws last
  unfold callsOf
  rw [hrun]
  unfold Spec.deFcgi
  cases ws with
  | nil =>
    simp only [deRecords_fcgiWire reqId hr, fcgiStdoutStream_wire reqId hr, List.flatten_cons, List.flatten_nil,
      List.append_nil, List.nil_append]
    exact splitHead_append H last hH
  | cons w ws' =>
    simp only [deRecords_fcgiWire reqId hr, fcgiStdoutStream_wire reqId hr]
    have e : ((H ++ w) :: ws' ++ [last]).flatten = H ++ ((w :: ws').flatten ++ last) := by simp [List.append_assoc]
    rw [e]
    exact splitHead_append H _ hH

/-- **framing_roundtrip (SCGI/CGI).**  The header block is sent once, in front of the first output. -/
theorem framing_roundtrip_scgi (H : Bytes) (hH : HeadOk H) (ws : List Bytes) (last : Bytes) :
    Spec.deScgi (scgiRun { headers := H, headersWritten := false } (ws ++ [last])) = some (H, ws.flatten ++ last) := by
  unfold Spec.deScgi
  cases ws with
  | nil =>
    rw [List.nil_append, scgiRun_fresh]
    simp only [List.flatten_cons, List.flatten_nil, List.append_nil, List.nil_append]
    exact splitHead_append H last hH
  | cons w ws' =>
    rw [List.cons_append, scgiRun_fresh]
    have : (w :: (ws' ++ [last])).flatten = (w :: ws').flatten ++ last := by simp [List.append_assoc]
    rw [this]
    exact splitHead_append H _ hH


/-- **one header block from the header set** (SCGI/FastCGI): what `format_xcgi_response_headers` makes of
the response's headers — the map entries as `Name: value` lines in map order, then the added
headers/cookies in insertion order, then a blank line — is exactly one header block (`HeadOk`, the
hypothesis of the two round-trip theorems) whenever no line is empty or contains a CR. -/
theorem header_block_once_xcgi (h : Headers) (hne : h.lines none ≠ []) (hok : ∀ l ∈ h.lines none, LineOk l) :
    HeadOk (xcgiHeaders false h) ∧ xcgiHeaders false h = joinLines (h.lines none) ++ [13, 10] :=
  xcgi_headOk h hne hok

/-- non-vacuity: `Content-Type: text/html` set, a cookie added -/
example : (({} : Headers).set [67,111,110,116,101,110,116,45,84,121,112,101] [116,101,120,116,47,104,116,109,108] |>.addRaw [83,101,116,45,67,111,111,107,105,101,58,97,61,98]).lines none
    = [[67,111,110,116,101,110,116,45,84,121,112,101,58,32,116,101,120,116,47,104,116,109,108], [83,101,116,45,67,111,111,107,105,101,58,97,61,98]] := by
  decide

/-- non-vacuity of `HeadOk`: `Content-Type: text/html CRLF CRLF` -/
example : HeadOk [67,111,110,116,101,110,116,45,84,121,112,101,58,32,116,101,120,116,47,104,116,109,108,13,10,13,10] := by
  unfold HeadOk; decide

/-! ## 5. composition -/

/-- **client_sees_app_bytes.**  Put together for any of the protocols (`F` is `httpFraming`,
`fcgiFraming` or `scgiFraming`, which carry their round-trip theorems): for either device, any buffer
size, every sequence of device operations followed by `close()`, and **every** disciplined trace of
connection events that was handed the formatted outputs and ended drained without a hard error — whatever
prefixes the socket accepted and however often it reported would-block — the bytes on the wire decode, with
the independent de-framer, to exactly one head and a body equal to the bytes written to the device
(`filterOf raw`: in the raw modes, the bytes after the application's own header block). -/
theorem client_sees_app_bytes (F : Framing) (isAsync full raw : Bool) (n : Nat) (ops : List DevOp)
    (hlen : F.lengthOk (filterOf raw (ops.map DevOp.data).flatten).length)
    (evs : List Ev) (hd : disciplined {} evs = true) (hb : (runEvs {} evs).broken = false) (hdr : (runEvs {} evs).backlog = [])
    (hh : (evs.map Ev.data).flatten =
      (F.run ((Dev.run (Dev.fresh isAsync full raw n, []) ops).1.close logIf (Dev.run (Dev.fresh isAsync full raw n, []) ops).2).2).1) :
    ∃ head, F.deframe (runEvs {} evs).wire = some (head, filterOf raw (ops.map DevOp.data).flatten) :=
  chain_device F isAsync full raw n ops hlen evs hd hb hdr hh

/-- **client_sees_app_bytes, compressed and cached page.**  The full chain application → `gzip_buf` →
`copy_buf` → device → framing → connection, for any deflater with an `inflate` that inverts it on
finished streams: the client's body decompresses to exactly the application's bytes, and the page copied
for the cache is byte-identical to the body that was sent. -/
theorem client_sees_app_bytes_gzip_cached (F : Framing) (D : Deflater) (gzBuf : Int) (isAsync full : Bool) (n : Nat)
    (appOps : List BufOp) (inflate : Bytes → Option Bytes)
    (hinf : ∀ cs l, (∀ x ∈ cs, x.2 ≠ Flush.finish) →
        inflate (feedAll D D.init (cs ++ [(l, Flush.finish)])).2 = some ((cs ++ [(l, Flush.finish)]).map (·.1)).flatten) :
    let g := Gz.run (Gz.open D gzBuf, []) appOps
    let acts1 := g.2 ++ g.1.close.2
    let k := Copy.run ({}, []) (acts1.map Act.toBufOp)
    let acts2 := k.2 ++ k.1.close.2
    let d := Dev.run (Dev.fresh isAsync full false n, []) (acts2.map Act.toDevOp)
    F.lengthOk (actBytes acts1).length →
    ∀ evs, disciplined {} evs = true → (runEvs {} evs).broken = false → (runEvs {} evs).backlog = [] →
      (evs.map Ev.data).flatten = (F.run (d.1.close logIf d.2).2).1 →
      ∃ head body, F.deframe (runEvs {} evs).wire = some (head, body) ∧
        inflate body = some (appOps.map BufOp.data).flatten ∧ k.1.close.1.getstr.1 = body :=
  chain_gzip_cached F D gzBuf isAsync full n appOps inflate hinf

/-- non-vacuity of the `inflate` hypothesis: the storing deflater is inverted by the identity -/
example : ∀ cs l, (∀ x ∈ cs, x.2 ≠ Flush.finish) →
    (fun x => some x) (feedAll idDeflater idDeflater.init (cs ++ [(l, Flush.finish)])).2 = some ((cs ++ [(l, Flush.finish)]).map (·.1)).flatten := by
  intro cs l _
  have key : ∀ (xs : List (Bytes × Flush)) (s : idDeflater.σ), (feedAll idDeflater s xs).2 = (xs.map (·.1)).flatten := by
    intro xs
    induction xs with
    | nil => intro s; rfl
    | cons x xs ih =>
      intro s
      obtain ⟨i, f⟩ := x
      show i ++ (feedAll idDeflater _ xs).2 = i ++ (xs.map (·.1)).flatten
      rw [ih]
  show some _ = some _
  rw [key]

end Cppcms.C03.Props
