import Cppcms.Common
import Cppcms.C03.Gen
import Cppcms.C03.Framing
/-!
# C03 model, part 3: the stream-buffer chain of `http::response` (src/http_response.cpp)

    application → [gzip_buf] → [copy_buf] → output_device | async_io_buf → connection

Every layer is a state machine whose operations return the *actions* it performs on the layer
below (`sputn` / `pubsync`); composition is replay of those actions (`Model.lean`).  The
device at the bottom talks to the connection through `ConnIf`.

`std::vector<char>` buffers are modelled with their contents (`resize` truncates or appends
zeros; the put area is `vec[0, pos)`), because the defect fixed in `async_io_buf::setbuf`
(`known_findings.txt`) lived exactly there.
-/
namespace Cppcms.C03
open Cppcms

/-- what a layer does to the `std::streambuf` below it -/
inductive Act where
  | put (bs : Bytes)     -- `out_->sputn(p, n)`
  | sync                 -- `out_->pubsync()`
  deriving Repr, DecidableEq, Inhabited

def Act.bytes : Act → Bytes
  | .put bs => bs
  | .sync => []

/-- all bytes a list of actions hands down, in order -/
def actBytes (as : List Act) : Bytes := (as.map Act.bytes).flatten

/-- `std::vector<char>::resize(n)` -/
def resize (v : Bytes) (n : Nat) : Bytes := v.take n ++ List.replicate (n - v.length) 0

/-- `memcpy(&v[pos], s, |s|)` (requires `pos + |s| ≤ |v|`) -/
def poke (v : Bytes) (pos : Nat) (s : Bytes) : Bytes := v.take pos ++ s ++ v.drop (pos + s.length)

/-! ## gzip_buf -/

inductive Flush where
  | noFlush | syncFlush | finish
  deriving Repr, DecidableEq, Inhabited

/-- zlib as a parameter: `feed st input flush` is the complete output of the `do { deflate } while(avail_out == 0)`
loop of one `gzip_buf::do_write` call.  Assumptions on zlib made by this shape (documented contract of
`deflate`): all input of the call is consumed; when `deflate` returns with `avail_out != 0` no output is
pending; the produced bytes do not depend on how much room each call offers. -/
structure Deflater where
  σ : Type
  init : σ
  feed : σ → Bytes → Flush → σ × Bytes

/-- the pieces in which `do_write` forwards `total` (the loop ends with the first piece shorter than `chunk`) -/
def piecesAux (chunk : Nat) : Nat → Bytes → List Bytes
  | 0, t => [t]
  | fuel + 1, t => if t.length < chunk then [t] else t.take chunk :: piecesAux chunk fuel (t.drop chunk)

def pieces (chunk : Nat) (t : Bytes) : List Bytes := piecesAux chunk (t.length + 1) t

structure Gz (D : Deflater) where
  /-- `buffer_`: size of `in_chunk_` and `chunk_` -/
  cap : Nat
  /-- put area `in_chunk_[0, pptr)` -/
  inBuf : Bytes := []
  z : D.σ := D.init
  opened : Bool := true
  /-- ghost: every `(input, flush)` handed to the deflater, in order -/
  fed : List (Bytes × Flush) := []

/-- `gzip_buf::open`: `if(buffer_size < 256) buffer_size = 256;` -/
def Gz.open (D : Deflater) (configured : Int) : Gz D :=
  { cap := if configured < (Gen.gzipMinBuffer : Int) then Gen.gzipMinBuffer else configured.toNat }

/-- `gzip_buf::do_write(p, n, flush)` -/
def Gz.doWrite {D : Deflater} (g : Gz D) (input : Bytes) (fl : Flush) : Gz D × List Act :=
  if !g.opened then (g, [])
  else if input.isEmpty && fl == .noFlush then (g, [])
  else
    let r := D.feed g.z input fl
    let acts := (pieces g.cap r.2).map Act.put ++ (if fl == .syncFlush then [Act.sync] else [])
    ({ g with z := r.1, fed := g.fed ++ [(input, fl)] }, acts)

/-- `gzip_buf::overflow(c)` with `c != EOF` -/
def Gz.overflowC {D : Deflater} (g : Gz D) (c : UInt8) : Gz D × List Act :=
  if !g.opened then (g, [])      -- `pbase() == epptr()`: -1
  else
    let r := if g.inBuf.isEmpty then (g, []) else g.doWrite g.inBuf .noFlush
    ({ r.1 with inBuf := [c] }, r.2)

/-- `std::streambuf::sputc` -/
def Gz.sputc {D : Deflater} (g : Gz D) (c : UInt8) : Gz D × List Act :=
  if g.inBuf.length < g.cap then ({ g with inBuf := g.inBuf ++ [c] }, []) else g.overflowC c

/-- `std::streambuf::xsputn` (libstdc++): copy what fits, `overflow(next char)`, repeat -/
def Gz.xsputnAux {D : Deflater} : Nat → Gz D → Bytes → Gz D × List Act
  | 0, g, _ => (g, [])
  | fuel + 1, g, s =>
    let room := g.cap - g.inBuf.length
    if s.length ≤ room then ({ g with inBuf := g.inBuf ++ s }, [])
    else
      let g1 := { g with inBuf := g.inBuf ++ s.take room }
      match s.drop room with
      | [] => (g1, [])
      | c :: rest =>
        let r1 := g1.overflowC c
        let r2 := Gz.xsputnAux fuel r1.1 rest
        (r2.1, r1.2 ++ r2.2)

def Gz.xsputn {D : Deflater} (g : Gz D) (s : Bytes) : Gz D × List Act :=
  if !g.opened then (g, []) else Gz.xsputnAux (s.length + 1) g s

/-- `gzip_buf::sync` -/
def Gz.sync {D : Deflater} (g : Gz D) : Gz D × List Act :=
  let r := g.doWrite g.inBuf .syncFlush
  (if g.opened then { r.1 with inBuf := [] } else r.1, r.2)

/-- `gzip_buf::close` -/
def Gz.close {D : Deflater} (g : Gz D) : Gz D × List Act :=
  if !g.opened then (g, [])
  else
    let r := g.doWrite g.inBuf .finish
    ({ r.1 with opened := false }, r.2)

/-! ## copy_buf -/

structure Copy where
  /-- `buffer_` -/
  vec : Bytes := []
  /-- `pbase() - &buffer_[0]`, `pptr() - &buffer_[0]`; `epptr()` is the end of `buffer_` once started -/
  base : Nat := 0
  pos : Nat := 0
  /-- `pptr() != 0` -/
  started : Bool := false
  /-- `out_ != 0` -/
  attached : Bool := true
  deriving Repr, DecidableEq, Inhabited

/-- the `sputn(pbase(), pptr()-pbase())` at the head of `copy_buf::overflow` -/
def Copy.teeActs (k : Copy) : List Act :=
  if k.attached && k.base != k.pos then [Act.put ((k.vec.drop k.base).take (k.pos - k.base))] else []

/-- the `setp` part of `copy_buf::overflow`: first allocation, doubling, or just moving `pbase` up -/
def Copy.reposition (k : Copy) : Copy :=
  if !k.started then
    { k with vec := if k.vec.isEmpty then resize k.vec Gen.copyBufInitial else k.vec, base := 0, pos := 0, started := true }
  else if k.pos = k.vec.length then
    { k with vec := resize k.vec (k.vec.length * 2), base := k.vec.length, pos := k.vec.length }
  else { k with base := k.pos }

/-- `sputc(c)` into a put area that has room -/
def Copy.store (k : Copy) (c : UInt8) : Copy := { k with vec := poke k.vec k.pos [c], pos := k.pos + 1 }

/-- `copy_buf::overflow(c)`; `c = none` is `EOF` -/
def Copy.overflow (k : Copy) (c : Option UInt8) : Copy × List Act :=
  match c with
  | none => (k.reposition, k.teeActs)
  | some c => (k.reposition.store c, k.teeActs)

def Copy.sputc (k : Copy) (c : UInt8) : Copy × List Act :=
  if k.started && k.pos < k.vec.length then (k.store c, [])
  else k.overflow (some c)

/-- `std::streambuf::xsputn` over `copy_buf::overflow` -/
def Copy.xsputnAux : Nat → Copy → Bytes → Copy × List Act
  | 0, k, _ => (k, [])
  | fuel + 1, k, s =>
    let room := if k.started then k.vec.length - k.pos else 0
    if s.length ≤ room then ({ k with vec := poke k.vec k.pos s, pos := k.pos + s.length }, [])
    else
      let k1 := if room = 0 then k else { k with vec := poke k.vec k.pos (s.take room), pos := k.pos + room }
      match s.drop room with
      | [] => (k1, [])
      | c :: rest =>
        let r1 := k1.overflow (some c)
        let r2 := Copy.xsputnAux fuel r1.1 rest
        (r2.1, r1.2 ++ r2.2)

def Copy.xsputn (k : Copy) (s : Bytes) : Copy × List Act := Copy.xsputnAux (s.length + 1) k s

/-- `copy_buf::sync` -/
def Copy.sync (k : Copy) : Copy × List Act :=
  let r := k.overflow none
  (r.1, r.2 ++ (if k.attached then [Act.sync] else []))

/-- `copy_buf::close` -/
def Copy.close (k : Copy) : Copy × List Act :=
  let r := k.overflow none
  ({ r.1 with attached := false }, r.2)

/-- `copy_buf::getstr(std::string &)` -/
def Copy.getstr (k : Copy) : Bytes × Copy :=
  let n := if k.started then k.pos else k.vec.length
  (k.vec.take n, { k with vec := k.vec.take n, base := 0, pos := 0, started := false })

/-! ## raw mode: `cgi_headers_parser` -/

def isSeparator (c : UInt8) : Bool :=
  [40, 41, 60, 62, 64, 44, 59, 58, 92, 34, 47, 91, 93, 63, 61, 123, 125, 32, 9].contains c

def isTokenChar (c : UInt8) : Bool := 0x20 ≤ c && c ≤ 0x7E && !isSeparator c
def isSpHt (c : UInt8) : Bool := c = 32 || c = 9

structure RawParser where
  /-- `header_` (the line being collected), most recent byte first -/
  hrev : List UInt8 := []
  h : Headers := {}
  done : Bool := false
  deriving Repr, DecidableEq, Inhabited

/-- `cgi_headers_parser::add_header` on a complete line (without its CRLF) -/
def rawAddHeader (h : Headers) (line : Bytes) : Headers :=
  let s := line.dropWhile isSpHt
  let key := s.takeWhile isTokenChar
  let afterKey := (s.dropWhile isTokenChar).dropWhile isSpHt
  match afterKey with
  | 58 :: v =>
    if key.isEmpty then h.addRaw line
    else if Gen.rawLineKept then h.add key (v.dropWhile isSpHt) else h.set key (v.dropWhile isSpHt)
  | _ => h.addRaw line

/-- `consume(data, length, conn)`: returns the parser, the unconsumed rest, and the header set if the
block was completed by this call (the code then calls `conn.set_response_headers`).  A line is complete when
the byte just appended is LF and the one before it CR; a line consisting of CRLF only ends the block. -/
def RawParser.consume (p : RawParser) : Bytes → RawParser × Bytes × Option Headers
  | [] => (p, [], none)
  | c :: rest =>
    if p.done then (p, c :: rest, none)
    else if c = 10 ∧ p.hrev.head? = some 13 then
      if p.hrev.tail.isEmpty then ({ p with hrev := c :: p.hrev, done := true }, rest, some p.h)
      else RawParser.consume { p with h := rawAddHeader p.h p.hrev.tail.reverse, hrev := [] } rest
    else RawParser.consume { p with hrev := c :: p.hrev } rest

/-! ## the devices -/

/-- how a device reaches its connection -/
structure ConnIf (κ : Type) where
  /-- `do_write`: `connection::write` or `connection::nonblocking_write`; `false` = failed with an error -/
  send : κ → Bytes → Bool → κ × Bool
  /-- `connection::set_response_headers` -/
  setHeaders : κ → Headers → κ

/-- what a response does to its connection, in order (the only feedback it takes from the connection is
the success flag of a write; after a failed write it never touches the connection again) -/
inductive WEv where
  | send (bs : Bytes) (eof : Bool)   -- `do_write`: `connection::write` / `nonblocking_write`
  | hdr (h : Headers)                -- `connection::set_response_headers`
  | asyncFlush                       -- `connection::async_write_response` after `flush_async_chunk` succeeded
  deriving Repr, DecidableEq, Inhabited

abbrev Trace := List WEv

/-- a connection that records what it is asked to do and accepts every write -/
def traceIf : ConnIf Trace :=
  { send := fun t bs e => (t ++ [WEv.send bs e], true), setHeaders := fun t h => t ++ [WEv.hdr h] }

def WEv.asSend : WEv → Option (Bytes × Bool)
  | .send bs e => some (bs, e)
  | _ => none

def WEv.asHdr : WEv → Option Headers
  | .hdr h => some h
  | _ => none

/-- the `(bytes, eof)` calls of a trace, in order -/
def Trace.sends (t : Trace) : List (Bytes × Bool) := t.filterMap WEv.asSend
/-- the header sets handed over, in order -/
def Trace.hdrs (t : Trace) : List Headers := t.filterMap WEv.asHdr

structure Dev where
  /-- `output_` and `pptr() - pbase()`; `epptr() - pbase()` is `vec.length` throughout -/
  vec : Bytes := []
  pos : Nat := 0
  bufferSize : Nat := 0
  final : Bool := false
  eofSend : Bool := false
  /-- `conn_` was reset after a failed write -/
  dead : Bool := false
  /-- `async_io_buf` (else `output_device`) -/
  isAsync : Bool := false
  fullBuffering : Bool := true
  rawMode : Bool := false
  raw : RawParser := {}
  deriving Repr, DecidableEq, Inhabited

def Dev.content (d : Dev) : Bytes := d.vec.take d.pos

/-- `do_setp` -/
def Dev.doSetp (d : Dev) : Dev := { d with vec := resize d.vec d.bufferSize, pos := 0 }

/-- `basic_device::open` -/
def Dev.open (d : Dev) (n : Nat) : Dev := { d with bufferSize := n }.doSetp

/-- a freshly opened device of either kind (`async_io_buf` / `output_device`), in any io mode -/
def Dev.fresh (isAsync full raw : Bool) (n : Nat) : Dev :=
  ({ isAsync := isAsync, fullBuffering := full, rawMode := raw } : Dev).open n

/-- `basic_device::write(out, e)`; result `false` = returned -1 -/
def Dev.write {κ : Type} (I : ConnIf κ) (d : Dev) (k : κ) (out : List Bytes) : Dev × κ × Bool :=
  if d.dead then (d, k, false)
  else
    let sendEof := d.final && !d.eofSend
    let d := { d with eofSend := d.eofSend || sendEof }     -- `eof_send_ = eof_send_ || send_eof`
    if d.rawMode && !d.raw.done then
      -- the gathered pieces go through the header parser (the code loops over them; the parser is
      -- insensitive to how the bytes are cut, `RawParser.consume_append`)
      let r := d.raw.consume out.flatten
      let k := (r.2.2.map (I.setHeaders k)).getD k     -- `conn.set_response_headers(h_)` when the block completes
      let d := { d with raw := r.1 }
      if r.1.done || sendEof then
        let s := I.send k r.2.1 sendEof
        if s.2 then (d, s.1, true) else ({ d with dead := true }, s.1, false)
      else (d, k, true)
    else
      let s := I.send k out.flatten sendEof
      if s.2 then (d, s.1, true) else ({ d with dead := true }, s.1, false)

/-- `basic_device::overflow(c)` -/
def Dev.basicOverflow {κ : Type} (I : ConnIf κ) (d : Dev) (k : κ) (c : Option UInt8) : Dev × κ :=
  let r := d.write I k (match c with | some c => [d.content, [c]] | none => [d.content])
  if r.2.2 then (r.1.doSetp, r.2.1) else (r.1, r.2.1)

/-- `basic_device::xsputn` -/
def Dev.basicXsputn {κ : Type} (I : ConnIf κ) (d : Dev) (k : κ) (s : Bytes) : Dev × κ :=
  if s.length ≤ d.vec.length - d.pos then
    (if s.isEmpty then d else { d with vec := poke d.vec d.pos s, pos := d.pos + s.length }, k)
  else
    let r := d.write I k [d.content, s]
    if r.2.2 then (r.1.doSetp, r.2.1) else (r.1, r.2.1)

/-- `basic_device::flush(e)` (also `response::flush_async_chunk`) -/
def Dev.flush {κ : Type} (I : ConnIf κ) (d : Dev) (k : κ) : Dev × κ × Bool :=
  let r := d.write I k [d.content]
  ({ r.1 with pos := 0 }, r.2.1, r.2.2)

/-- `basic_device::setbuf(0, size)` -/
def Dev.basicSetbuf {κ : Type} (I : ConnIf κ) (d : Dev) (k : κ) (size : Nat) : Dev × κ :=
  let d := { d with bufferSize := size }
  if d.pos > size then
    let r := d.flush I k
    if r.2.2 then ({ r.1.doSetp with pos := 0 }, r.2.1) else (r.1, r.2.1)
  else
    let p := d.pos
    ({ d.doSetp with pos := p }, k)

/-- doubling loop of `async_io_buf::xsputn` -/
def growTo : Nat → Nat → Nat → Nat
  | 0, rs, _ => rs
  | fuel + 1, rs, minimal => if rs < minimal then growTo fuel (rs * 2) minimal else rs

/-- `async_io_buf::setbuf` / `basic_device::setbuf` -/
def Dev.setbuf {κ : Type} (I : ConnIf κ) (d : Dev) (k : κ) (size : Nat) : Dev × κ :=
  if d.isAsync && d.fullBuffering then
    let newSize := if d.pos > size then d.pos else size
    ({ d with bufferSize := size, vec := resize d.vec newSize }, k)
  else d.basicSetbuf I k size

/-- `overflow(c)` of the device in use -/
def Dev.overflow {κ : Type} (I : ConnIf κ) (d : Dev) (k : κ) (c : Option UInt8) : Dev × κ :=
  if d.isAsync && d.fullBuffering then
    let d := if d.pos = d.vec.length then { d with vec := resize d.vec (Gen.nextSize d.vec.length) } else d
    match c with
    | some c => ({ d with vec := poke d.vec d.pos [c], pos := d.pos + 1 }, k)
    | none => (d, k)
  else d.basicOverflow I k c

/-- `xsputn` of the device in use -/
def Dev.xsputn {κ : Type} (I : ConnIf κ) (d : Dev) (k : κ) (s : Bytes) : Dev × κ :=
  if d.isAsync && d.fullBuffering then
    let d :=
      if d.vec.length - d.pos < s.length then
        { d with vec := resize d.vec (growTo (d.pos + s.length + 1) (Gen.nextSize d.vec.length) (d.pos + s.length)) }
      else d
    (if s.isEmpty then d else { d with vec := poke d.vec d.pos s, pos := d.pos + s.length }, k)
  else d.basicXsputn I k s

/-- `std::streambuf::sputc` on the device -/
def Dev.sputc {κ : Type} (I : ConnIf κ) (d : Dev) (k : κ) (c : UInt8) : Dev × κ :=
  if d.pos < d.vec.length then ({ d with vec := poke d.vec d.pos [c], pos := d.pos + 1 }, k)
  else d.overflow I k (some c)

/-- `basic_device::sync` -/
def Dev.sync {κ : Type} (I : ConnIf κ) (d : Dev) (k : κ) : Dev × κ := d.overflow I k none

/-- `basic_device::close` -/
def Dev.close {κ : Type} (I : ConnIf κ) (d : Dev) (k : κ) : Dev × κ :=
  if d.eofSend then (d, k)
  else
    let r := { d with final := true }.flush I k
    (r.1, r.2.1)

/-- `async_io_buf::full_buffering(b)` -/
def Dev.setFullBuffering {κ : Type} (I : ConnIf κ) (d : Dev) (k : κ) (v : Bool) : Dev × κ :=
  if d.fullBuffering = v then (d, k)
  else
    let d := { d with fullBuffering := v }
    if !v then d.setbuf I k d.bufferSize else (d, k)

/-- apply the actions of an upper layer to the device -/
def Dev.apply {κ : Type} (I : ConnIf κ) (d : Dev) (k : κ) : List Act → Dev × κ
  | [] => (d, k)
  | .put bs :: rest => let r := d.xsputn I k bs; Dev.apply I r.1 r.2 rest
  | .sync :: rest => let r := d.sync I k; Dev.apply I r.1 r.2 rest

end Cppcms.C03
