import Cppcms.C03.ScriptLemmas
import Cppcms.C03.HeadersLemmas
/-! The decisions `out()` takes once — gzip or not, `Content-Encoding`, tee to the cache — and the
page-cache path (`cache_interface::fetch_page` / `store_page`). -/
namespace Cppcms.C03
open Cppcms

variable {D : Deflater}

/-! ### what is fixed once `out()` has run -/

/-- the part of a response that no stream operation changes -/
structure Static where
  requested : Bool
  gzSome : Bool
  copySome : Bool
  sent : Option Headers
  mode : Mode
  cfg : Config
  accept : Bool
  copyToCache : Bool
  pcu : Bool

def Resp.static (r : Resp D) : Static :=
  ⟨r.ostreamRequested, r.gz.isSome, r.copy.isSome, r.sentHeaders, r.mode, r.cfg, r.acceptGzip, r.copyToCache, r.pageCompressionUsed⟩

theorem Resp.intoDev_static (r : Resp D) (acts : List Act) : (r.intoDev acts).static = r.static := rfl

theorem static_gz (r : Resp D) (g g' : Gz D) (h : r.gz = some g) : ({ r with gz := some g' } : Resp D).static = r.static := by
  simp only [Resp.static, h, Option.isSome_some]

theorem static_copy (r : Resp D) (k k' : Copy) (h : r.copy = some k) : ({ r with copy := some k' } : Resp D).static = r.static := by
  simp only [Resp.static, h, Option.isSome_some]

theorem Resp.belowGz_static : ∀ (acts : List Act) (r : Resp D), (r.belowGz acts).static = r.static := by
  intro acts
  induction acts with
  | nil => intro r; rfl
  | cons a rest ih =>
    intro r
    rw [Resp.belowGz]
    split
    · rw [ih, Resp.intoDev_static]
    · next k hk => rw [ih, Resp.intoDev_static, static_copy r k _ hk]

theorem Resp.push_static (r : Resp D) (s : Bytes) : (r.push s).static = r.static := by
  unfold Resp.push
  split
  · next g hg => rw [Resp.belowGz_static, static_gz r g _ hg]
  · split
    · next k hk => rw [Resp.intoDev_static, static_copy r k _ hk]
    · rfl

theorem Resp.pushc_static (r : Resp D) (c : UInt8) : (r.pushc c).static = r.static := by
  unfold Resp.pushc
  split
  · next g hg => rw [Resp.belowGz_static, static_gz r g _ hg]
  · split
    · next k hk => rw [Resp.intoDev_static, static_copy r k _ hk]
    · rfl

theorem Resp.write_static (r : Resp D) (s : Bytes) : (r.write s).static = r.requestStream.static := by
  unfold Resp.write
  exact Resp.push_static r.requestStream s

theorem Resp.putc_static (r : Resp D) (c : UInt8) : (r.putc c).static = r.requestStream.static := by
  unfold Resp.putc
  exact Resp.pushc_static r.requestStream c

theorem Resp.sync_static (r : Resp D) : r.sync.static = r.requestStream.static := by
  unfold Resp.sync
  simp only
  generalize r.requestStream = r1
  split
  · next g hg => rw [Resp.belowGz_static, static_gz r1 g _ hg]
  · split
    · next k hk => rw [Resp.intoDev_static, static_copy r1 k _ hk]
    · rfl

theorem Resp.setbuf_static (r : Resp D) (n : Int) : (r.setbuf n).static = r.static := by
  unfold Resp.setbuf
  simp only
  split <;> rfl

theorem Resp.setFullBuffering_static (r : Resp D) (v : Bool) : (r.setFullBuffering v).static = r.static := by
  unfold Resp.setFullBuffering
  split <;> rfl

theorem Resp.asyncWriteResponse_static (r : Resp D) : r.asyncWriteResponse.static = r.static := rfl

theorem Resp.asyncFlush_static (r : Resp D) : r.asyncFlush.static = r.static := by
  unfold Resp.asyncFlush
  split
  · rfl
  · rfl

theorem Resp.closeGz_static (r : Resp D) : r.closeGz.static = r.static := by
  unfold Resp.closeGz
  split
  · next g hg => rw [Resp.belowGz_static, static_gz r g _ hg]
  · rfl

theorem Resp.closeCopy_static (r : Resp D) : r.closeCopy.static = r.static := by
  unfold Resp.closeCopy
  split
  · next k hk => rw [Resp.intoDev_static, static_copy r k _ hk]
  · rfl

theorem Resp.closeDev_static (r : Resp D) : r.closeDev.static = r.static := rfl

theorem Resp.finalize_static (r : Resp D) : r.finalize.static = (if r.finalized then r.static else r.requestStream.static) := by
  unfold Resp.finalize
  split
  · rfl
  · rw [Resp.closeDev_static, Resp.closeCopy_static, Resp.closeGz_static]

theorem Resp.complete_static (r : Resp D) : r.complete.static = r.finalize.static := by
  unfold Resp.complete
  simp only
  split
  · rfl
  · rfl

theorem putAll_static : ∀ (bs : Bytes) (r : Resp D), r.ostreamRequested = true → (putAll r bs).static = r.static := by
  intro bs
  induction bs with
  | nil => intro r _; rfl
  | cons c cs ih =>
    intro r h
    have h1 : (r.putc c).static = r.static := by rw [Resp.putc_static, Resp.requestStream_of_requested r h]
    rw [putAll, ih (r.putc c) (by have := congrArg Static.requested h1; exact this.trans h), h1]

/-! ### the decision `out()` takes -/

/-- `need_gzip()` minus the look at the headers -/
def Resp.eligible (r : Resp D) : Bool := r.mode == .normal && r.cfg.gzipEnable && r.acceptGzip

/-- `need_gzip()` evaluated on header set `H` -/
def Resp.needGzipOn (r : Resp D) (H : Headers) : Bool :=
  r.eligible && (H.get sContentEncoding).isEmpty && (H.get sContentType).take 5 == sTextSlash

theorem Resp.needGzip_eq (r : Resp D) : r.needGzip = r.needGzipOn r.headers := rfl

/-- **the gzip decision and the headers agree.**  Before `out()` there are no filter buffers and nothing has
been handed over.  After it: if there is a `gzip_buf`, the response was eligible (`normal` mode, gzip enabled,
client accepts it), the header set the connection got is the application's set `H0` — for which `need_gzip()`
held — with `Content-Encoding: gzip` added; if there is none, the connection got a header set for which
`need_gzip()` does not hold (so either the response is not eligible, or it is not `text/…`, or the application
declared a Content-Encoding of its own — as `fetch_page` does for a stored gzip page).  A `copy_buf` exists
exactly if `copy_to_cache` was on at that moment. -/
structure Enc (r : Resp D) : Prop where
  pre : r.ostreamRequested = false → r.gz = none ∧ r.copy = none ∧ r.sentHeaders = none
  gzOn : r.ostreamRequested = true → r.gz.isSome = true →
    r.eligible = true ∧ ∃ H0, r.sentHeaders = some (H0.set sContentEncoding sGzip) ∧ r.needGzipOn H0 = true
  gzOff : r.ostreamRequested = true → r.gz.isSome = false → r.mode.isRaw = false →
    ∃ H, r.sentHeaders = some H ∧ r.needGzipOn H = false
  raw : r.ostreamRequested = true → r.mode.isRaw = true → r.gz.isSome = false ∧ r.sentHeaders = none

/-- `Enc` only depends on the static part -/
theorem Enc.of_static {r r' : Resp D} (e : Enc r) (h : r'.static = r.static) : Enc r' := by
  have h1 : r'.ostreamRequested = r.ostreamRequested := congrArg Static.requested h
  have h2 : r'.gz.isSome = r.gz.isSome := congrArg Static.gzSome h
  have h3 : r'.copy.isSome = r.copy.isSome := congrArg Static.copySome h
  have h4 : r'.sentHeaders = r.sentHeaders := congrArg Static.sent h
  have h5 : r'.mode = r.mode := congrArg Static.mode h
  have h6 : r'.cfg = r.cfg := congrArg Static.cfg h
  have h7 : r'.acceptGzip = r.acceptGzip := congrArg Static.accept h
  have he : r'.eligible = r.eligible := by unfold Resp.eligible; rw [h5, h6, h7]
  have hn : ∀ H, r'.needGzipOn H = r.needGzipOn H := by intro H; unfold Resp.needGzipOn; rw [he]
  refine ⟨fun hq => ?_, fun hq hg => ?_, fun hq hg hm => ?_, fun hq hm => ?_⟩
  · have ⟨a, c, d⟩ := e.pre (by rw [← h1]; exact hq)
    refine ⟨?_, ?_, by rw [h4]; exact d⟩
    · have : r'.gz.isSome = false := by rw [h2, a]; rfl
      cases hx : r'.gz with
      | none => rfl
      | some g => rw [hx] at this; cases this
    · have : r'.copy.isSome = false := by rw [h3, c]; rfl
      cases hx : r'.copy with
      | none => rfl
      | some g => rw [hx] at this; cases this
  · have ⟨a, H0, c, d⟩ := e.gzOn (by rw [← h1]; exact hq) (by rw [← h2]; exact hg)
    exact ⟨by rw [he]; exact a, H0, by rw [h4]; exact c, by rw [hn]; exact d⟩
  · have ⟨H, a, c⟩ := e.gzOff (by rw [← h1]; exact hq) (by rw [← h2]; exact hg) (by rw [← h5]; exact hm)
    exact ⟨H, by rw [h4]; exact a, by rw [hn]; exact c⟩
  · have ⟨a, c⟩ := e.raw (by rw [← h1]; exact hq) (by rw [← h5]; exact hm)
    exact ⟨by rw [h2]; exact a, by rw [h4]; exact c⟩

/-- changing only the headers / cache flags of a response whose stream is not yet requested keeps `Enc` -/
theorem Enc.of_pre {r r' : Resp D} (e : Enc r) (hq : r.ostreamRequested = false) (h1 : r'.ostreamRequested = false)
    (h2 : r'.gz = r.gz) (h3 : r'.copy = r.copy) (h4 : r'.sentHeaders = r.sentHeaders) : Enc r' := by
  have ⟨a, c, d⟩ := e.pre hq
  refine ⟨fun _ => ⟨by rw [h2]; exact a, by rw [h3]; exact c, by rw [h4]; exact d⟩, fun hq' => ?_, fun hq' => ?_, fun hq' => ?_⟩
  all_goals (rw [h1] at hq'; cases hq')

theorem Resp.needGzip_raw (r : Resp D) (h : r.mode.isRaw = true) : r.needGzip = false := by
  unfold Resp.needGzip
  cases hmode : r.mode <;> simp_all [Mode.isRaw]

/-- `out()` establishes `Enc` -/
theorem Enc.request {r : Resp D} (e : Enc r) : Enc r.requestStream := by
  by_cases hq : r.ostreamRequested = true
  · rw [Resp.requestStream_of_requested r hq]; exact e
  · simp only [Bool.not_eq_true] at hq
    have ⟨a, c, d⟩ := e.pre hq
    have hreq : r.requestStream.ostreamRequested = true := Resp.requestStream_requested r
    have hgz : r.requestStream.gz = if r.needGzip then some (Gz.open D r.cfg.gzipBuffer) else none := by
      unfold Resp.requestStream; simp only [hq, Bool.false_eq_true, if_false, a]
    have hsent : r.requestStream.sentHeaders = if r.mode.isRaw then none else some r.outHeaders := by
      unfold Resp.requestStream Resp.outHeaders; simp only [hq, Bool.false_eq_true, if_false, d]
    have hk := Resp.requestStream_keeps r
    have hel : r.requestStream.eligible = r.eligible := by
      unfold Resp.eligible; rw [hk.2.2.1, hk.2.2.2.1, hk.2.2.2.2.1]
    have hn : ∀ H, r.requestStream.needGzipOn H = r.needGzipOn H := by intro H; unfold Resp.needGzipOn; rw [hel]
    refine ⟨(fun h => by rw [hreq] at h; cases h), fun _ hg => ?_, fun _ hg hm => ?_, fun _ hm => ?_⟩
    · rw [hgz] at hg
      have hz : r.needGzip = true := by
        by_cases hz : r.needGzip = true
        · exact hz
        · simp [hz] at hg
      have hnr : r.mode.isRaw = false := by
        cases hm : r.mode.isRaw with
        | false => rfl
        | true => rw [Resp.needGzip_raw r hm] at hz; cases hz
      refine ⟨?_, r.headers, ?_, by rw [hn, ← Resp.needGzip_eq]; exact hz⟩
      · rw [hel]
        rw [Resp.needGzip_eq] at hz
        unfold Resp.needGzipOn at hz
        simp only [Bool.and_eq_true] at hz
        exact hz.1.1
      · rw [hsent]; simp only [hnr, Bool.false_eq_true, if_false, Resp.outHeaders, hz, if_true]
    · rw [hgz] at hg
      have hz : r.needGzip = false := by
        cases hz : r.needGzip with
        | false => rfl
        | true => simp [hz] at hg
      rw [hk.2.2.1] at hm
      refine ⟨r.headers, ?_, by rw [hn, ← Resp.needGzip_eq]; exact hz⟩
      rw [hsent]; simp only [hm, Bool.false_eq_true, if_false, Resp.outHeaders, hz]
    · rw [hk.2.2.1] at hm
      refine ⟨?_, by rw [hsent]; simp only [hm, if_true]⟩
      rw [hgz, Resp.needGzip_raw r hm]; rfl

theorem Enc.write {r : Resp D} (e : Enc r) (s : Bytes) : Enc (r.write s) := e.request.of_static (Resp.write_static r s)

theorem Enc.finalize {r : Resp D} (e : Enc r) : Enc r.finalize := by
  have h := Resp.finalize_static r
  by_cases hf : r.finalized = true
  · rw [if_pos hf] at h; exact e.of_static h
  · rw [if_neg hf] at h; exact e.request.of_static h

theorem Enc.complete {r : Resp D} (e : Enc r) : Enc r.complete := e.finalize.of_static (Resp.complete_static r)

theorem Enc.fresh {r : Resp D} (f : Fresh r) : Enc r :=
  ⟨fun _ => ⟨f.gz, f.copy, f.sent⟩, (fun h => by rw [f.req] at h; cases h), (fun h => by rw [f.req] at h; cases h),
   (fun h => by rw [f.req] at h; cases h)⟩

/-- header setters and cache flags: nothing `Enc` looks at after `out()`, and before it only the "nothing yet" part -/
theorem Enc.sameStream {r r' : Resp D} (e : Enc r) (h1 : r'.ostreamRequested = r.ostreamRequested) (h2 : r'.gz = r.gz)
    (h3 : r'.copy = r.copy) (h4 : r'.sentHeaders = r.sentHeaders) (h5 : r'.mode = r.mode) (h6 : r'.cfg = r.cfg)
    (h7 : r'.acceptGzip = r.acceptGzip) : Enc r' := by
  have he : r'.eligible = r.eligible := by unfold Resp.eligible; rw [h5, h6, h7]
  have hn : ∀ H, r'.needGzipOn H = r.needGzipOn H := by intro H; unfold Resp.needGzipOn; rw [he]
  refine ⟨fun hq => ?_, fun hq hg => ?_, fun hq hg hm => ?_, fun hq hm => ?_⟩
  · have ⟨a, c, d⟩ := e.pre (by rw [← h1]; exact hq)
    exact ⟨by rw [h2]; exact a, by rw [h3]; exact c, by rw [h4]; exact d⟩
  · have ⟨a, H0, c, d⟩ := e.gzOn (by rw [← h1]; exact hq) (by rw [← h2]; exact hg)
    exact ⟨by rw [he]; exact a, H0, by rw [h4]; exact c, by rw [hn]; exact d⟩
  · have ⟨H, a, c⟩ := e.gzOff (by rw [← h1]; exact hq) (by rw [← h2]; exact hg) (by rw [← h5]; exact hm)
    exact ⟨H, by rw [h4]; exact a, by rw [hn]; exact c⟩
  · have ⟨a, c⟩ := e.raw (by rw [← h1]; exact hq) (by rw [← h5]; exact hm)
    exact ⟨by rw [h2]; exact a, by rw [h4]; exact c⟩

theorem Enc.fetchPage (x : Run D) (key : String) (e : Enc x.resp) : Enc (x.fetchPage key).resp := by
  unfold Run.fetchPage
  simp only
  split
  · next page _ =>
    apply Enc.write
    split
    · exact e.sameStream rfl rfl rfl rfl rfl rfl rfl
    · exact e.sameStream rfl rfl rfl rfl rfl rfl rfl
  · exact e.sameStream rfl rfl rfl rfl rfl rfl rfl

theorem Enc.storePage (x : Run D) (key : String) (e : Enc x.resp) : Enc (x.storePage key).resp := by
  have e1 := e.finalize
  unfold Run.storePage
  simp only
  split
  · next k hk =>
    split
    · exact e1
    · refine e1.of_static ?_
      simp only [Resp.static, hk, Option.isSome_some]
  · exact e1

theorem Enc.step (x : Run D) (op : Op) (e : Enc x.resp) : Enc (x.step op).resp := by
  unfold Run.step
  split
  · exact e
  · cases op with
    | write n seed => exact e.write _
    | lit bs => exact e.write _
    | putc n seed => exact e.request.of_static (putAll_static _ _ (Resp.requestStream_requested _))
    | out => exact e.request
    | finalize => exact e.finalize
    | flush =>
      simp only
      split
      · exact e.of_static (Resp.asyncFlush_static _)
      · exact e.request.of_static (Resp.sync_static _)
    | setbuf n => exact e.of_static (Resp.setbuf_static _ _)
    | fullBuf v => exact e.of_static (Resp.setFullBuffering_static _ _)
    | setHeader n v => exact e.sameStream rfl rfl rfl rfl rfl rfl rfl
    | addHeader n v => exact e.sameStream rfl rfl rfl rfl rfl rfl rfl
    | cookie n v => exact e.sameStream rfl rfl rfl rfl rfl rfl rfl
    | contentLength n => exact e.sameStream rfl rfl rfl rfl rfl rfl rfl
    | status n => exact e.sameStream rfl rfl rfl rfl rfl rfl rfl
    | fetchPage key => exact Enc.fetchPage x key e
    | storePage key => exact Enc.storePage x key e

theorem Enc.fold : ∀ (ops : List Op) (x : Run D), Enc x.resp → Enc (ops.foldl Run.step x).resp := by
  intro ops
  induction ops with
  | nil => intro x e; exact e
  | cons op ops ih => intro x e; exact ih _ (Enc.step x op e)

/-- **the gzip decision, for every script** (no usage contract needed): see `Enc` -/
theorem encoding_decision (cfg : Config) (cache : PageCache) (mode : Mode) (acceptGzip : Bool) (script : List Op) :
    Enc (runScript D cfg cache mode acceptGzip script).resp := by
  unfold runScript
  exact (Enc.fold script _ (Enc.fresh (Resp.new_fresh cfg mode acceptGzip))).complete

/-! ### the page cache: miss, tee, `store_page` -/

/-- the response is being recorded for the cache: `fetch_page` missed, so `copy_to_cache` is on and
`page_compression_used_` says whether the response is (going to be) compressed -/
structure Armed (r : Resp D) : Prop where
  on : r.copyToCache = true
  tee : r.ostreamRequested = true → r.copy.isSome = true
  pcuPre : r.ostreamRequested = false → r.pageCompressionUsed = r.needGzip
  pcuPost : r.ostreamRequested = true → r.pageCompressionUsed = r.gz.isSome

theorem Armed.keep {r r' : Resp D} (a : Armed r) (h : r'.static = r.static)
    (hn : r.ostreamRequested = false → r'.needGzip = r.needGzip) : Armed r' := by
  have h1 : r'.ostreamRequested = r.ostreamRequested := congrArg Static.requested h
  have h2 : r'.gz.isSome = r.gz.isSome := congrArg Static.gzSome h
  have h3 : r'.copy.isSome = r.copy.isSome := congrArg Static.copySome h
  have h8 : r'.copyToCache = r.copyToCache := congrArg Static.copyToCache h
  have h9 : r'.pageCompressionUsed = r.pageCompressionUsed := congrArg Static.pcu h
  exact ⟨by rw [h8]; exact a.on, fun hq => by rw [h3]; exact a.tee (by rw [← h1]; exact hq),
    fun hq => by rw [h9, hn (by rw [← h1]; exact hq)]; exact a.pcuPre (by rw [← h1]; exact hq),
    fun hq => by rw [h9, h2]; exact a.pcuPost (by rw [← h1]; exact hq)⟩

theorem Armed.of_static {r r' : Resp D} (a : Armed r) (hq : r.ostreamRequested = true) (h : r'.static = r.static) : Armed r' :=
  a.keep h (fun h' => by rw [hq] at h'; cases h')

/-- `out()`: the tee is installed, and the compression decision is the one `fetch_page` recorded -/
theorem Armed.request {r : Resp D} (a : Armed r) (e : Enc r) : Armed r.requestStream := by
  by_cases hq : r.ostreamRequested = true
  · rw [Resp.requestStream_of_requested r hq]; exact a
  · simp only [Bool.not_eq_true] at hq
    have ⟨g0, c0, _⟩ := e.pre hq
    have hk := Resp.requestStream_keeps r
    have hreq : r.requestStream.ostreamRequested = true := Resp.requestStream_requested r
    have hgz : r.requestStream.gz = if r.needGzip then some (Gz.open D r.cfg.gzipBuffer) else none := by
      unfold Resp.requestStream; simp only [hq, Bool.false_eq_true, if_false, g0]
    have hcp : r.requestStream.copy = some {} := by
      unfold Resp.requestStream; simp only [hq, Bool.false_eq_true, if_false, a.on, if_true]
    refine ⟨by rw [hk.2.2.2.2.2.1]; exact a.on, fun _ => by rw [hcp]; rfl, (fun h => by rw [hreq] at h; cases h), fun _ => ?_⟩
    rw [hk.2.2.2.2.2.2, a.pcuPre hq, hgz]
    cases r.needGzip <;> rfl

theorem Resp.needGzip_congr {r r' : Resp D} (h1 : r'.mode = r.mode) (h2 : r'.cfg = r.cfg) (h3 : r'.acceptGzip = r.acceptGzip)
    (h4 : r'.headers.get sContentEncoding = r.headers.get sContentEncoding)
    (h5 : r'.headers.get sContentType = r.headers.get sContentType) : r'.needGzip = r.needGzip := by
  unfold Resp.needGzip; rw [h1, h2, h3, h4, h5]

/-- does the action leave `need_gzip()` alone (it does not touch Content-Encoding / Content-Type) and is it not a second `fetch_page`? -/
def Op.keepsEncoding : Op → Bool
  | .setHeader n _ => !(ieq n sContentEncoding || ieq n sContentType)
  | .addHeader n _ => !(ieq n sContentEncoding || ieq n sContentType)
  | .fetchPage _ => false
  | _ => true

theorem Headers.get_add_other (h : Headers) (n n' v : Bytes) (hn : ieq n n' = false) : (h.add n v).get n' = h.get n' := by
  unfold Headers.add
  split
  · exact Headers.get_set_other h n n' v hn
  · rfl

theorem Armed.step (x : Run D) (op : Op) (a : Armed x.resp) (e : Enc x.resp) (hop : op.keepsEncoding = true) :
    Armed (x.step op).resp := by
  unfold Run.step
  split
  · exact a
  · have hreq := Resp.requestStream_requested x.resp
    have hset : ∀ n v, (ieq n sContentEncoding || ieq n sContentType) = false →
        Armed ({ x.resp with headers := x.resp.headers.set n v } : Resp D) := by
      intro n v hn
      simp only [Bool.or_eq_false_iff] at hn
      exact a.keep rfl (fun _ => Resp.needGzip_congr rfl rfl rfl (Headers.get_set_other _ _ _ _ hn.1) (Headers.get_set_other _ _ _ _ hn.2))
    cases op with
    | write n seed => exact (a.request e).of_static hreq (Resp.write_static _ _)
    | lit bs => exact (a.request e).of_static hreq (Resp.write_static _ _)
    | putc n seed => exact (a.request e).of_static hreq (putAll_static _ _ hreq)
    | out => exact a.request e
    | finalize =>
      show Armed x.resp.finalize
      by_cases hf : x.resp.finalized = true
      · have : x.resp.finalize = x.resp := by unfold Resp.finalize; simp [hf]
        rw [this]; exact a
      · have h := Resp.finalize_static x.resp
        rw [if_neg hf] at h
        exact (a.request e).of_static hreq h
    | flush =>
      simp only
      split
      · show Armed x.resp.asyncFlush
        unfold Resp.asyncFlush
        split
        · next hq => exact a.of_static hq (Resp.asyncWriteResponse_static _)
        · exact a
      · exact (a.request e).of_static hreq (Resp.sync_static _)
    | setbuf n =>
      refine a.keep (Resp.setbuf_static _ _) (fun _ => ?_)
      show (x.resp.setbuf n).needGzip = x.resp.needGzip
      unfold Resp.setbuf; simp only; split <;> rfl
    | fullBuf v =>
      refine a.keep (Resp.setFullBuffering_static _ _) (fun _ => ?_)
      show (x.resp.setFullBuffering v).needGzip = x.resp.needGzip
      unfold Resp.setFullBuffering; split <;> rfl
    | setHeader n v =>
      simp only [Op.keepsEncoding, Bool.not_eq_true'] at hop
      exact hset n v hop
    | addHeader n v =>
      simp only [Op.keepsEncoding, Bool.not_eq_true', Bool.or_eq_false_iff] at hop
      exact a.keep rfl (fun _ => Resp.needGzip_congr rfl rfl rfl (Headers.get_add_other _ _ _ _ hop.1) (Headers.get_add_other _ _ _ _ hop.2))
    | cookie n v => exact a.keep rfl (fun _ => rfl)
    | contentLength n => exact hset _ _ (by decide)
    | status n => exact hset _ _ (by decide)
    | fetchPage key => cases hop
    | storePage key =>
      have a1 : Armed x.resp.finalize := by
        by_cases hf : x.resp.finalized = true
        · have : x.resp.finalize = x.resp := by unfold Resp.finalize; simp [hf]
          rw [this]; exact a
        · have h := Resp.finalize_static x.resp
          rw [if_neg hf] at h
          exact (a.request e).of_static hreq h
      show Armed (x.storePage key).resp
      unfold Run.storePage
      simp only
      split
      · next k hk =>
        split
        · exact a1
        · refine a1.keep ?_ (fun _ => rfl)
          simp only [Resp.static, hk, Option.isSome_some]
      · exact a1

theorem Armed.fold : ∀ (ops : List Op) (x : Run D), Armed x.resp → Enc x.resp → (∀ op ∈ ops, op.keepsEncoding = true) →
    Armed (ops.foldl Run.step x).resp := by
  intro ops
  induction ops with
  | nil => intro x a _ _; exact a
  | cons op ops ih =>
    intro x a e h
    exact ih _ (Armed.step x op a e (h op (by simp))) (Enc.step x op e) (fun o ho => h o (by simp [ho]))

/-- `fetch_page` on a miss arms the response (if the stream has not been requested yet) -/
theorem Run.fetchPage_miss (x : Run D) (key : String) (hq : x.resp.ostreamRequested = false)
    (hmiss : x.cache.fetch (pageKey x.resp.needGzip key) = none) :
    Armed (x.fetchPage key).resp ∧ (x.fetchPage key).stopped = x.stopped ∧ (x.fetchPage key).cache = x.cache ∧
    (x.fetchPage key).resp.headers = x.resp.headers := by
  unfold Run.fetchPage
  simp only [hmiss]
  exact ⟨⟨rfl, (fun h => by rw [show _ = x.resp.ostreamRequested from rfl, hq] at h; cases h), fun _ => rfl,
    (fun h => by rw [show _ = x.resp.ostreamRequested from rfl, hq] at h; cases h)⟩, (by rt), (by rt), (by rt)⟩

theorem PageCache.fetch_store (c : PageCache) (key : String) (v : Bytes) : (c.store key v).fetch key = some v := by
  simp [PageCache.fetch, PageCache.store, List.find?]

/-- **`store_page` stores what was sent.**  On an armed, not yet finalized response `store_page(key)` finalizes
it and stores — under the key variant for "compressed" exactly if the body went through `gzip_buf` — the very
byte string `Z` that left the buffer chain towards the client (`Done … Z`): the cached copy is byte-identical to
what was sent, and the read-back through `cache_interface` returns it. -/
theorem Run.storePage_stores (x : Run D) (key : String) (p : Phase x.resp) (e : Enc x.resp) (a : Armed x.resp)
    (hnf : x.resp.finalized = false) :
    ∃ Z, Done (x.storePage key).resp (x.storePage key).resp.written Z ∧
      (x.storePage key).resp.gz.isSome = x.resp.finalize.gz.isSome ∧
      (x.storePage key).cache.fetch (pageKey (x.storePage key).resp.gz.isSome key) = some Z ∧
      (x.storePage key).cacheCopy = some Z := by
  have ⟨⟨Z, d, cd⟩, hw, hm, hf⟩ := p.finalize
  have hcd := cd hnf
  have hs := Resp.finalize_static x.resp
  rw [if_neg (by rw [hnf]; exact Bool.false_ne_true)] at hs
  have hreq := Resp.requestStream_requested x.resp
  have a1 : Armed x.resp.finalize := (a.request e).of_static hreq hs
  have hq1 : x.resp.finalize.ostreamRequested = true := (congrArg Static.requested hs).trans hreq
  have hcs := a1.tee hq1
  obtain ⟨k, hk⟩ := Option.isSome_iff_exists.mp hcs
  have hkz : k.getstr.1 = Z := by
    unfold CopyDone at hcd; rw [hk] at hcd; exact hcd.1
  have hdata : x.resp.finalize.copiedData = Z := by
    unfold Resp.copiedData
    simp only [a1.on, hq1, Bool.not_true, Bool.or_self, Bool.false_eq_true, if_false, hk, hkz]
  have hpcu := a1.pcuPost hq1
  have hsp : (x.storePage key).resp = ({ x.resp.finalize with copy := some k.getstr.2 } : Resp D) ∧
      (x.storePage key).cache = x.cache.store (pageKey x.resp.finalize.pageCompressionUsed key) x.resp.finalize.copiedData ∧
      (x.storePage key).cacheCopy =
        (x.cache.store (pageKey x.resp.finalize.pageCompressionUsed key) x.resp.finalize.copiedData).fetch
          (pageKey x.resp.finalize.pageCompressionUsed key) := by
    unfold Run.storePage
    simp only
    split
    · next k' hk' =>
      have hkk : k' = k := by rw [hk] at hk'; injection hk' with h; exact h.symm
      subst hkk
      split
      · next hc => exfalso; simp [a1.on, hq1] at hc
      · exact ⟨by rt, by rt, by rt⟩
    · next hnone => rw [hk] at hnone; cases hnone
  obtain ⟨s1, s2, s3⟩ := hsp
  refine ⟨Z, ?_, ?_, ?_, ?_⟩
  · rw [s1]
    exact d.congr rfl rfl rfl rfl rfl rfl rfl
  · rw [s1]
  · rw [s1, s2, hdata]
    show PageCache.fetch _ (pageKey x.resp.finalize.gz.isSome key) = some Z
    rw [← hpcu]
    exact PageCache.fetch_store _ _ _
  · rw [s3, hdata]
    exact PageCache.fetch_store _ _ _

/-! ### the page cache: hit -/

theorem Run.fetchPage_hit_eq (x : Run D) (key : String) (page : Bytes)
    (hit : x.cache.fetch (pageKey x.resp.needGzip key) = some page) :
    x.fetchPage key = { x with
      resp := (if x.resp.needGzip then
          ({ x.resp with pageCompressionUsed := true, headers := x.resp.headers.set sContentEncoding sGzip } : Resp D)
        else ({ x.resp with pageCompressionUsed := false } : Resp D)).write page,
      stopped := true } := by
  unfold Run.fetchPage
  simp only [hit]
  cases hg : x.resp.needGzip <;> simp only [Bool.false_eq_true, if_false, if_true]

/-- **a hit serves the stored page, nothing else.**  `fetch_page(key)` on a response nothing has been written to,
when the cache holds a page under the key variant `need_gzip()` selects: the application is told to stop; the
response's stream is opened *without* `gzip_buf` and without `copy_buf` (the stored bytes are not compressed a
second time, and not stored again), exactly the stored bytes have been written to it, and the header set handed
to the connection is the application's — with `Content-Encoding: gzip` added exactly if the compressed variant
was selected. -/
theorem Run.fetchPage_hit (x : Run D) (key : String) (page : Bytes) (f : Fresh x.resp) (hc : x.resp.copyToCache = false)
    (hit : x.cache.fetch (pageKey x.resp.needGzip key) = some page) :
    (x.fetchPage key).stopped = true ∧ (x.fetchPage key).cache = x.cache ∧
    Open (x.fetchPage key).resp page ∧ (x.fetchPage key).resp.written = page ∧
    (x.fetchPage key).resp.gz = none ∧ (x.fetchPage key).resp.copy = none ∧ (x.fetchPage key).resp.mode = x.resp.mode ∧
    (x.resp.mode.isRaw = false → (x.fetchPage key).resp.sentHeaders =
      some (if x.resp.needGzip then x.resp.headers.set sContentEncoding sGzip else x.resp.headers)) := by
  rw [Run.fetchPage_hit_eq x key page hit]
  simp only
  generalize hr0 : (if x.resp.needGzip then
          ({ x.resp with pageCompressionUsed := true, headers := x.resp.headers.set sContentEncoding sGzip } : Resp D)
        else ({ x.resp with pageCompressionUsed := false } : Resp D)) = r0
  have hf0 : Fresh r0 := by
    rw [← hr0]; split <;> exact ⟨f.req, f.notFin, f.trace, f.written, f.gz, f.copy, f.sent⟩
  have hm0 : r0.mode = x.resp.mode := by rw [← hr0]; split <;> rfl
  have hc0 : r0.copyToCache = false := by rw [← hr0]; split <;> exact hc
  have hh0 : r0.headers = (if x.resp.needGzip then x.resp.headers.set sContentEncoding sGzip else x.resp.headers) := by
    rw [← hr0]; split <;> rfl
  have hn0 : r0.needGzip = false := by
    cases hg : x.resp.needGzip with
    | false =>
      have : r0.needGzip = x.resp.needGzip := by
        rw [← hr0, if_neg (by rw [hg]; exact Bool.false_ne_true)]; rfl
      rw [this, hg]
    | true =>
      have hce : r0.headers.get sContentEncoding = sGzip := by
        rw [hh0]; simp only [hg, if_true]
        exact Headers.get_set_nonempty _ _ _ _ (by decide) (ieq_refl _)
      unfold Resp.needGzip
      rw [hce]
      have : sGzip.isEmpty = false := by decide
      simp only [this, Bool.and_false, Bool.false_and]
  obtain ⟨o1, w1, g1, c1, h1, m1, s1, _⟩ := hf0.request
  rw [Resp.write_request]
  have hw1 : Open r0.requestStream r0.requestStream.written := by rw [w1]; exact o1
  obtain ⟨o2, w2, _⟩ := hw1.write page
  have hst := Resp.write_static r0.requestStream page
  rw [Resp.requestStream_idem] at hst
  have hgz : (r0.requestStream.write page).gz.isSome = false := by
    have : (r0.requestStream.write page).gz.isSome = r0.requestStream.gz.isSome := congrArg Static.gzSome hst
    exact this.trans (by rw [g1]; exact hn0)
  have hcp : (r0.requestStream.write page).copy.isSome = false := by
    have : (r0.requestStream.write page).copy.isSome = r0.requestStream.copy.isSome := congrArg Static.copySome hst
    exact this.trans (by rw [c1]; exact hc0)
  have hwr : (r0.requestStream.write page).written = page := by rw [w2, w1]; rfl
  have o3 : Open (r0.requestStream.write page) page := by
    have h := o2
    generalize (r0.requestStream.write page) = rr at *
    rw [hwr] at h; exact h
  refine ⟨(by rt), (by rt), o3, hwr, ?_, ?_, ?_, fun hm => ?_⟩
  · cases hx : (r0.requestStream.write page).gz with
    | none => rfl
    | some g => rw [hx] at hgz; cases hgz
  · cases hx : (r0.requestStream.write page).copy with
    | none => rfl
    | some g => rw [hx] at hcp; cases hcp
  · have : (r0.requestStream.write page).mode = r0.requestStream.mode := congrArg Static.mode hst
    exact this.trans (m1.trans hm0)
  · have : (r0.requestStream.write page).sentHeaders = r0.requestStream.sentHeaders := congrArg Static.sent hst
    refine this.trans ?_
    rw [s1 (by rw [hm0]; exact hm)]
    unfold Resp.outHeaders
    rw [hn0, hh0]
    rfl

/-! ### whole scripts -/

/-- what an application may do before `fetch_page` without opening the stream -/
def Op.isPrelude : Op → Bool
  | .setHeader _ _ | .addHeader _ _ | .cookie _ _ | .contentLength _ | .status _ | .setbuf _ | .fullBuf _ => true
  | _ => false

theorem Fresh.keep {r r' : Resp D} (f : Fresh r) (h1 : r'.ostreamRequested = r.ostreamRequested) (h2 : r'.finalized = r.finalized)
    (h3 : r'.trace = r.trace) (h4 : r'.written = r.written) (h5 : r'.gz = r.gz) (h6 : r'.copy = r.copy)
    (h7 : r'.sentHeaders = r.sentHeaders) : Fresh r' :=
  ⟨by rw [h1]; exact f.req, by rw [h2]; exact f.notFin, by rw [h3]; exact f.trace, by rw [h4]; exact f.written,
   by rw [h5]; exact f.gz, by rw [h6]; exact f.copy, by rw [h7]; exact f.sent⟩

theorem Run.step_prelude (x : Run D) (op : Op) (hop : op.isPrelude = true) (f : Fresh x.resp) :
    Fresh (x.step op).resp ∧ (x.step op).stopped = x.stopped ∧ (x.step op).cache = x.cache ∧
    (x.step op).resp.copyToCache = x.resp.copyToCache ∧ (x.step op).resp.mode = x.resp.mode := by
  unfold Run.step
  split
  · exact ⟨f, rfl, rfl, rfl, rfl⟩
  · cases op with
    | setHeader n v => exact ⟨f.keep rfl rfl rfl rfl rfl rfl rfl, rfl, rfl, rfl, rfl⟩
    | addHeader n v => exact ⟨f.keep rfl rfl rfl rfl rfl rfl rfl, rfl, rfl, rfl, rfl⟩
    | cookie n v => exact ⟨f.keep rfl rfl rfl rfl rfl rfl rfl, rfl, rfl, rfl, rfl⟩
    | contentLength n => exact ⟨f.keep rfl rfl rfl rfl rfl rfl rfl, rfl, rfl, rfl, rfl⟩
    | status n => exact ⟨f.keep rfl rfl rfl rfl rfl rfl rfl, rfl, rfl, rfl, rfl⟩
    | setbuf n =>
      have e : x.resp.setbuf n = { x.resp with requiredBufferSize := if n < 0 then -1 else n } := by
        unfold Resp.setbuf; simp only
        rw [if_neg (show ¬ (({ x.resp with requiredBufferSize := if n < 0 then -1 else n } : Resp D).ostreamRequested = true) by
          show ¬ (x.resp.ostreamRequested = true); rw [f.req]; exact Bool.false_ne_true)]
      simp only [e]
      exact ⟨f.keep rfl rfl rfl rfl rfl rfl rfl, by rt, by rt, by rt, by rt⟩
    | fullBuf v =>
      have e : x.resp.setFullBuffering v = { x.resp with asyncFullBuffering := v } := by
        unfold Resp.setFullBuffering; rw [if_neg (by rw [f.req]; simp)]
      simp only [e]
      exact ⟨f.keep rfl rfl rfl rfl rfl rfl rfl, by rt, by rt, by rt, by rt⟩
    | write _ _ => cases hop
    | lit _ => cases hop
    | putc _ _ => cases hop
    | out => cases hop
    | finalize => cases hop
    | flush => cases hop
    | fetchPage _ => cases hop
    | storePage _ => cases hop

theorem fold_prelude : ∀ (ops : List Op) (x : Run D), (∀ op ∈ ops, op.isPrelude = true) → Fresh x.resp →
    Fresh (ops.foldl Run.step x).resp ∧ (ops.foldl Run.step x).stopped = x.stopped ∧ (ops.foldl Run.step x).cache = x.cache ∧
    (ops.foldl Run.step x).resp.copyToCache = x.resp.copyToCache ∧ (ops.foldl Run.step x).resp.mode = x.resp.mode := by
  intro ops
  induction ops with
  | nil => intro x _ f; exact ⟨f, rfl, rfl, rfl, rfl⟩
  | cons op ops ih =>
    intro x h f
    have ⟨f1, s1, c1, k1, m1⟩ := x.step_prelude op (h op (by simp)) f
    have ⟨f2, s2, c2, k2, m2⟩ := ih (x.step op) (fun o ho => h o (by simp [ho])) f1
    exact ⟨f2, s2.trans s1, c2.trans c1, k2.trans k1, m2.trans m1⟩

/-- the context's last act keeps a finalized response as it is (same `Z`) -/
theorem Done.complete {r : Resp D} {W Z : Bytes} (d : Done r W Z) : Done r.complete W Z := by
  have hfin : r.finalize = r := by unfold Resp.finalize; simp [d.fin]
  unfold Resp.complete
  simp only [hfin]
  split
  · exact d.asyncWriteResponse.1
  · exact d

/-- an open response is finalized by the context; if there is no `gzip_buf`, what leaves the chain is what was written -/
theorem Open.complete_plain {r : Resp D} (o : Open r r.written) (hgz : r.gz = none) :
    Done r.complete r.written r.written ∧ r.complete.written = r.written ∧ r.complete.mode = r.mode ∧
    r.complete.static = r.static := by
  have p : Phase r := Or.inr (Or.inl o)
  have ⟨⟨Z, d⟩, hm, hw⟩ := p.complete
  have hst : r.complete.static = r.static := by
    rw [Resp.complete_static, Resp.finalize_static, if_neg (by rw [o.notFin]; exact Bool.false_ne_true),
      Resp.requestStream_of_requested r o.req]
  have hg : r.complete.gz = none := by
    have h1 : r.complete.gz.isSome = r.gz.isSome := congrArg Static.gzSome hst
    rw [hgz] at h1
    cases hx : r.complete.gz with
    | none => rfl
    | some g => rw [hx] at h1; cases h1
  have hZ : Z = r.complete.written := by
    have := d.gz; unfold GzDone at this; rw [hg] at this; exact this
  rw [← hZ] at d
  rw [hZ, hw] at d
  exact ⟨d, hw, hm, hst⟩

/-- **a cached page is served as stored, once.**  For every configuration, io mode and request, every prelude
(header setters, `setbuf`, buffering mode) and whatever the application would have done afterwards (`rest` is
never run): if the cache holds `page` under the key variant that `need_gzip()` selects when `fetch_page(key)` is
called, the completed response is `Done` with written = left-the-chain = `page` (no second compression, no
`copy_buf`), and — outside the raw modes — the header set handed to the connection is the application's, with
`Content-Encoding: gzip` added exactly if the compressed variant was selected.  The cache is left as it was. -/
theorem cached_hit_serves_stored_bytes_once (cfg : Config) (cache : PageCache) (mode : Mode) (acceptGzip : Bool)
    (pre rest : List Op) (key : String) (page : Bytes) (hpre : ∀ op ∈ pre, op.isPrelude = true)
    (hit : cache.fetch (pageKey (pre.foldl Run.step ({ resp := Resp.new D cfg mode acceptGzip, cache } : Run D)).resp.needGzip key) = some page) :
    Done (runScript D cfg cache mode acceptGzip (pre ++ .fetchPage key :: rest)).resp page page ∧
    (runScript D cfg cache mode acceptGzip (pre ++ .fetchPage key :: rest)).resp.written = page ∧
    (runScript D cfg cache mode acceptGzip (pre ++ .fetchPage key :: rest)).resp.gz = none ∧
    (runScript D cfg cache mode acceptGzip (pre ++ .fetchPage key :: rest)).resp.copy = none ∧
    (runScript D cfg cache mode acceptGzip (pre ++ .fetchPage key :: rest)).resp.mode = mode ∧
    (runScript D cfg cache mode acceptGzip (pre ++ .fetchPage key :: rest)).cache = cache ∧
    (mode.isRaw = false → (runScript D cfg cache mode acceptGzip (pre ++ .fetchPage key :: rest)).resp.sentHeaders =
      some (if (pre.foldl Run.step ({ resp := Resp.new D cfg mode acceptGzip, cache } : Run D)).resp.needGzip
        then (pre.foldl Run.step ({ resp := Resp.new D cfg mode acceptGzip, cache } : Run D)).resp.headers.set sContentEncoding sGzip
        else (pre.foldl Run.step ({ resp := Resp.new D cfg mode acceptGzip, cache } : Run D)).resp.headers)) := by
  generalize hx0 : (pre.foldl Run.step ({ resp := Resp.new D cfg mode acceptGzip, cache } : Run D)) = x0 at *
  have ⟨f0, s0, c0, k0, m0⟩ := fold_prelude pre ({ resp := Resp.new D cfg mode acceptGzip, cache } : Run D) hpre (Resp.new_fresh cfg mode acceptGzip)
  rw [hx0] at f0 s0 c0 k0 m0
  have hs0 : x0.stopped = false := s0
  have hc0 : x0.cache = cache := c0
  have hk0 : x0.resp.copyToCache = false := k0
  have hm0 : x0.resp.mode = mode := m0
  rw [← hc0] at hit
  have ⟨h1, h2, h3, h4, h5, h6, h7, h8⟩ := x0.fetchPage_hit key page f0 hk0 hit
  have hfold : (pre ++ Op.fetchPage key :: rest).foldl Run.step ({ resp := Resp.new D cfg mode acceptGzip, cache } : Run D) = x0.fetchPage key := by
    rw [List.foldl_append, hx0, List.foldl_cons]
    have : x0.step (.fetchPage key) = x0.fetchPage key := by unfold Run.step; simp [hs0]
    rw [this, foldl_stopped _ _ h1]
  unfold runScript
  simp only [hfold]
  have o : Open (x0.fetchPage key).resp (x0.fetchPage key).resp.written := by rw [h4]; exact h3
  have ⟨d, w, m, st⟩ := o.complete_plain h5
  rw [h4] at d w
  have hgz : (x0.fetchPage key).resp.complete.gz.isSome = (x0.fetchPage key).resp.gz.isSome := congrArg Static.gzSome st
  have hcp : (x0.fetchPage key).resp.complete.copy.isSome = (x0.fetchPage key).resp.copy.isSome := congrArg Static.copySome st
  have hsent : (x0.fetchPage key).resp.complete.sentHeaders = (x0.fetchPage key).resp.sentHeaders := congrArg Static.sent st
  refine ⟨d, w, ?_, ?_, by rw [m, h7, hm0], by rw [h2, hc0], fun hm => ?_⟩
  · rw [h5] at hgz
    cases hx : (x0.fetchPage key).resp.complete.gz with
    | none => rfl
    | some g => rw [hx] at hgz; cases hgz
  · rw [h6] at hcp
    cases hx : (x0.fetchPage key).resp.complete.copy with
    | none => rfl
    | some g => rw [hx] at hcp; cases hcp
  · rw [hsent, h8 (by rw [hm0]; exact hm)]

/-! ### miss, tee, store: whole scripts -/

def Op.isStore : Op → Bool
  | .storePage _ => true
  | _ => false

theorem Run.step_plain (x : Run D) (op : Op) (h1 : op.keepsEncoding = true) (h2 : op.finalizes = false) :
    (x.step op).stopped = x.stopped ∧ (x.step op).cache = x.cache ∧ (x.step op).cacheCopy = x.cacheCopy := by
  unfold Run.step
  split
  · exact ⟨rfl, rfl, rfl⟩
  · cases op with
    | fetchPage _ => simp [Op.keepsEncoding] at h1
    | storePage _ => simp [Op.finalizes] at h2
    | finalize => simp [Op.finalizes] at h2
    | _ => exact ⟨rfl, rfl, rfl⟩

/-- the part of a script between `fetch_page` (miss) and `store_page` -/
theorem fold_mid : ∀ (ops : List Op) (x : Run D), Phase x.resp → Enc x.resp → Armed x.resp → x.stopped = false →
    x.resp.finalized = false → (∀ op ∈ ops, op.keepsEncoding = true ∧ op.finalizes = false) →
    Phase (ops.foldl Run.step x).resp ∧ Enc (ops.foldl Run.step x).resp ∧ Armed (ops.foldl Run.step x).resp ∧
    (ops.foldl Run.step x).stopped = false ∧ (ops.foldl Run.step x).resp.finalized = false ∧
    (ops.foldl Run.step x).cache = x.cache ∧ (ops.foldl Run.step x).resp.mode = x.resp.mode := by
  intro ops
  induction ops with
  | nil => intro x p e a s f _; exact ⟨p, e, a, s, f, rfl, rfl⟩
  | cons op ops ih =>
    intro x p e a s f h
    have ⟨hk, hnf⟩ := h op (by simp)
    have ⟨p1, m1, f1, _⟩ := x.step_spec op p s (fun hf => by rw [f] at hf; cases hf)
    have ⟨s1, c1, _⟩ := x.step_plain op hk hnf
    have s1' : (x.step op).stopped = false := s1.trans s
    have f1' : (x.step op).resp.finalized = false := by rw [f1 s1', f, hnf]; rfl
    have ⟨i1, i2, i3, i4, i5, i6, i7⟩ := ih (x.step op) p1 (Enc.step x op e) (Armed.step x op a e hk) s1' f1'
      (fun o ho => h o (by simp [ho]))
    exact ⟨i1, i2, i3, i4, i5, i6.trans c1, i7.trans m1⟩

/-- after `finalize`, what the application may still do changes neither what was sent nor the cache -/
theorem Run.step_done (x : Run D) (op : Op) {W Z : Bytes} (d : Done x.resp W Z)
    (hok : op.afterFinalOk x.resp.mode = true) (hns : op.isStore = false) :
    Done (x.step op).resp W Z ∧ (x.step op).cache = x.cache ∧ (x.step op).cacheCopy = x.cacheCopy ∧
    (x.step op).resp.static = x.resp.static ∧ (x.step op).resp.written = x.resp.written := by
  unfold Run.step
  split
  · exact ⟨d, rfl, rfl, rfl, rfl⟩
  · cases op with
    | write _ _ => simp [Op.afterFinalOk] at hok
    | lit _ => simp [Op.afterFinalOk] at hok
    | putc _ _ => simp [Op.afterFinalOk] at hok
    | fetchPage _ => simp [Op.afterFinalOk] at hok
    | storePage _ => simp [Op.isStore] at hns
    | out =>
      simp only [Resp.requestStream_of_requested x.resp d.req]
      exact ⟨d, by rt, by rt, by rt, by rt⟩
    | finalize =>
      have : x.resp.finalize = x.resp := by unfold Resp.finalize; simp [d.fin]
      simp only [this]
      exact ⟨d, by rt, by rt, by rt, by rt⟩
    | flush =>
      have ha : x.resp.mode.isAsync = true := by simpa [Op.afterFinalOk] using hok
      have e : x.resp.asyncFlush = x.resp.asyncWriteResponse := by unfold Resp.asyncFlush; rw [if_pos d.req]
      simp only [ha, if_true, e]
      exact ⟨d.asyncWriteResponse.1, by rt, by rt, Resp.asyncWriteResponse_static _, by rt⟩
    | setbuf n =>
      refine ⟨(d.setbuf n).1, rfl, rfl, Resp.setbuf_static _ _, ?_⟩
      show (x.resp.setbuf n).written = x.resp.written
      unfold Resp.setbuf; simp only; split <;> rfl
    | fullBuf v =>
      refine ⟨(d.setFullBuffering v).1, rfl, rfl, Resp.setFullBuffering_static _ _, ?_⟩
      show (x.resp.setFullBuffering v).written = x.resp.written
      unfold Resp.setFullBuffering; split <;> rfl
    | setHeader n v => exact ⟨d.congr rfl rfl rfl rfl rfl rfl rfl, rfl, rfl, rfl, rfl⟩
    | addHeader n v => exact ⟨d.congr rfl rfl rfl rfl rfl rfl rfl, rfl, rfl, rfl, rfl⟩
    | cookie n v => exact ⟨d.congr rfl rfl rfl rfl rfl rfl rfl, rfl, rfl, rfl, rfl⟩
    | contentLength n => exact ⟨d.congr rfl rfl rfl rfl rfl rfl rfl, rfl, rfl, rfl, rfl⟩
    | status n => exact ⟨d.congr rfl rfl rfl rfl rfl rfl rfl, rfl, rfl, rfl, rfl⟩

theorem fold_done : ∀ (ops : List Op) (x : Run D) {W Z : Bytes}, Done x.resp W Z →
    (∀ op ∈ ops, op.afterFinalOk x.resp.mode = true ∧ op.isStore = false) →
    Done (ops.foldl Run.step x).resp W Z ∧ (ops.foldl Run.step x).cache = x.cache ∧
    (ops.foldl Run.step x).cacheCopy = x.cacheCopy ∧ (ops.foldl Run.step x).resp.static = x.resp.static ∧
    (ops.foldl Run.step x).resp.written = x.resp.written := by
  intro ops
  induction ops with
  | nil => intro x W Z d _; exact ⟨d, rfl, rfl, rfl, rfl⟩
  | cons op ops ih =>
    intro x W Z d h
    have ⟨h1, h2⟩ := h op (by simp)
    have ⟨d1, c1, k1, s1, w1⟩ := x.step_done op d h1 h2
    have hm : (x.step op).resp.mode = x.resp.mode := congrArg Static.mode s1
    have ⟨d2, c2, k2, s2, w2⟩ := ih (x.step op) d1 (fun o ho => by rw [hm]; exact h o (by simp [ho]))
    exact ⟨d2, c2.trans c1, k2.trans k1, s2.trans s1, w2.trans w1⟩

/-- **a miss is recorded and stored as sent.**  For every configuration, io mode, request, prelude, and every
script part `mid` between `fetch_page(key)` and `store_page(key)` that neither finalizes the response nor touches
Content-Encoding / Content-Type nor calls `fetch_page` again, and whatever finalization-compatible actions `post`
follow: if the cache has no page under the variant `need_gzip()` selects, then at the end the response is `Done`
with `Z` = the bytes that left the buffer chain for the client, and the cache holds exactly `Z` under the
variant "compressed" iff the body went through `gzip_buf` (the read-back returned `Z` as well). -/
theorem cache_miss_stores_sent_bytes (cfg : Config) (cache : PageCache) (mode : Mode) (acceptGzip : Bool)
    (pre mid post : List Op) (key : String) (hpre : ∀ op ∈ pre, op.isPrelude = true)
    (hmiss : cache.fetch (pageKey (pre.foldl Run.step ({ resp := Resp.new D cfg mode acceptGzip, cache } : Run D)).resp.needGzip key) = none)
    (hmid : ∀ op ∈ mid, op.keepsEncoding = true ∧ op.finalizes = false)
    (hpost : ∀ op ∈ post, op.afterFinalOk mode = true ∧ op.isStore = false) :
    ∃ Z, Done (runScript D cfg cache mode acceptGzip (pre ++ .fetchPage key :: (mid ++ .storePage key :: post))).resp
           (runScript D cfg cache mode acceptGzip (pre ++ .fetchPage key :: (mid ++ .storePage key :: post))).resp.written Z ∧
      (runScript D cfg cache mode acceptGzip (pre ++ .fetchPage key :: (mid ++ .storePage key :: post))).cache.fetch
        (pageKey (runScript D cfg cache mode acceptGzip (pre ++ .fetchPage key :: (mid ++ .storePage key :: post))).resp.gz.isSome key) = some Z ∧
      (runScript D cfg cache mode acceptGzip (pre ++ .fetchPage key :: (mid ++ .storePage key :: post))).cacheCopy = some Z := by
  generalize hx0 : (pre.foldl Run.step ({ resp := Resp.new D cfg mode acceptGzip, cache } : Run D)) = x0 at *
  have ⟨f0, s0, c0, _, m0⟩ := fold_prelude pre ({ resp := Resp.new D cfg mode acceptGzip, cache } : Run D) hpre (Resp.new_fresh cfg mode acceptGzip)
  rw [hx0] at f0 s0 c0 m0
  have hs0 : x0.stopped = false := s0
  have hc0 : x0.cache = cache := c0
  have hm0 : x0.resp.mode = mode := m0
  rw [← hc0] at hmiss
  -- fetch_page: miss
  have hstep1 : x0.step (.fetchPage key) = x0.fetchPage key := by unfold Run.step; simp [hs0]
  have ⟨a1, s1, c1, _⟩ := x0.fetchPage_miss key f0.req hmiss
  have ⟨p1, m1, f1⟩ := x0.fetchPage_spec key (Or.inl f0) f0.notFin
  have e1 := Enc.fetchPage x0 key (Enc.fresh f0)
  -- mid
  have ⟨p2, e2, a2, s2, f2, c2, m2⟩ := fold_mid mid (x0.fetchPage key) p1 e1 a1 (s1.trans hs0) f1 hmid
  generalize hx2 : mid.foldl Run.step (x0.fetchPage key) = x2 at *
  -- store_page
  have hstep3 : x2.step (.storePage key) = x2.storePage key := by unfold Run.step; simp [s2]
  obtain ⟨Z, d3, g3, k3, cc3⟩ := x2.storePage_stores key p2 e2 a2 f2
  have hm3 : (x2.storePage key).resp.mode = mode := by
    rw [(x2.storePage_spec key p2).2.1, m2, m1, hm0]
  -- post
  have ⟨d4, c4, cc4, st4, w4⟩ := fold_done post (x2.storePage key) d3 (fun o ho => by rw [hm3]; exact hpost o ho)
  have hfold : (pre ++ Op.fetchPage key :: (mid ++ Op.storePage key :: post)).foldl Run.step
      ({ resp := Resp.new D cfg mode acceptGzip, cache } : Run D) = post.foldl Run.step (x2.storePage key) := by
    rw [List.foldl_append, hx0, List.foldl_cons, hstep1, List.foldl_append, hx2, List.foldl_cons, hstep3]
  unfold runScript
  simp only [hfold]
  generalize post.foldl Run.step (x2.storePage key) = x4 at *
  -- complete
  have hfin : x4.resp.finalize = x4.resp := by unfold Resp.finalize; simp [d4.fin]
  have hst : x4.resp.complete.static = x4.resp.static := by
    rw [Resp.complete_static, hfin]
  have hgz : x4.resp.complete.gz.isSome = (x2.storePage key).resp.gz.isSome :=
    (congrArg Static.gzSome hst).trans (congrArg Static.gzSome st4)
  have hwr : x4.resp.complete.written = x4.resp.written := by
    unfold Resp.complete; simp only [hfin]; split <;> rfl
  refine ⟨Z, ?_, ?_, ?_⟩
  · rw [hwr, w4]; exact d4.complete
  · rw [hgz, c4]; exact k3
  · rw [cc4]; exact cc3

end Cppcms.C03
