import Cppcms.Common
/-!
# C03 model, part 1: the connection write path (`src/cgi_api.cpp`)

`connection::write`, `nonblocking_write`, `append_pending`, `async_write` and
`async_write_handler::operator()` over a *socket oracle*: every `write_some(buf)` the code
issues is answered by the environment with

* `accept k` — `writev` returned `k` (the code treats `k = 0` as `aio_error::eof`),
* `wouldBlock` — `EAGAIN`/`EWOULDBLOCK`,
* `error` — any other error.

`format_output` is applied by the caller (see `Framing.lean`); here the argument `newData`
is its result, and the ghost field `handed` accumulates those results in order.
-/
namespace Cppcms.C03
open Cppcms

/-- answer of the socket to one `write_some` -/
inductive Ans where
  | accept (k : Nat)
  | wouldBlock
  | error
  deriving Repr, DecidableEq, Inhabited

/-- state of a `cgi::connection` as far as output is concerned -/
structure Conn where
  /-- bytes the socket has accepted, in order (what the peer will read) -/
  wire : Bytes := []
  /-- `pending_output_` -/
  pending : Bytes := []
  /-- buffer owned by an `async_write_handler` waiting for writability (`data`/`output`) -/
  inflight : Option Bytes := none
  /-- ghost: concatenation of every `format_output` result handed to the write path -/
  handed : Bytes := []
  /-- a blocking `write` failed: `pending_output_` was cleared, the response gives up -/
  broken : Bool := false
  deriving Repr, DecidableEq, Inhabited

/-- `stream_socket::write_some` on a non-empty buffer `out`: number of bytes taken.
`writev` returning `0` is reported as `eof` (an error) with `n = 0`; the kernel never accepts more than offered. -/
def Ans.taken (out : Bytes) : Ans → Nat
  | .accept k => min k out.length
  | .wouldBlock => 0
  | .error => 0

/-- `e` is set after `write_some` -/
def Ans.err : Ans → Bool
  | .accept k => k == 0
  | .wouldBlock => true
  | .error => true

/-- `e` is set and is not `would_block` -/
def Ans.hardErr : Ans → Bool
  | .accept k => k == 0
  | .wouldBlock => false
  | .error => true

/-- result of `nonblocking_write` -/
inductive NbRes where
  | done        -- returned true: everything (old pending and new data) is on the wire
  | blocked     -- returned false, `e` clear: data kept in `pending_output_`
  | failed      -- returned false, `e` set
  deriving Repr, DecidableEq, Inhabited

/-- `connection::nonblocking_write` after `format_output` produced `newData`.
The three branches of the code: `n == total`, `n == 0` (`append_pending(new_data)`),
`0 < n < total` (`swap` + `append_pending(output + n)`). The oracle is consulted only when
there is something to send (`if(output.empty()) return true;`). -/
def nbWrite (c : Conn) (newData : Bytes) (a : Ans) : Conn × NbRes :=
  let c := { c with handed := c.handed ++ newData }
  let output := c.pending ++ newData
  if output.isEmpty then (c, .done)
  else
    let n := a.taken output
    if n = output.length then
      ({ c with wire := c.wire ++ output, pending := [] }, .done)
    else if n = 0 then
      ({ c with pending := c.pending ++ newData }, if a.hardErr then .failed else .blocked)
    else
      ({ c with wire := c.wire ++ output.take n, pending := output.drop n },
        if a.hardErr then .failed else .blocked)

/-- does `nbWrite` consult the socket? -/
def nbWriteAsks (c : Conn) (newData : Bytes) : Bool := !(c.pending ++ newData).isEmpty

/-- `stream_socket::write` / `http::write_to_socket`: loop `write_some` until everything is
written or an error is reported. Consumes answers from the schedule; an exhausted schedule
counts as the kernel accepting everything offered. Returns (bytes written, success, rest of schedule). -/
def writeAll : (fuel : Nat) → Bytes → List Ans → Bytes × Bool × List Ans
  | 0, _, s => ([], false, s)
  | fuel + 1, out, s =>
    if out.isEmpty then ([], true, s)
    else
      let a := s.headD (Ans.accept out.length)
      let s' := s.tail
      let n := a.taken out
      if a.err then (out.take n, false, s')
      else
        let r := writeAll fuel (out.drop n) s'
        (out.take n ++ r.1, r.2.1, r.2.2)

/-- `connection::write` (blocking): `pending_output_` is cleared whatever the result. -/
def blockingWrite (c : Conn) (newData : Bytes) (s : List Ans) : Conn × Bool × List Ans :=
  let c := { c with handed := c.handed ++ newData }
  let output := c.pending ++ newData
  if output.isEmpty then (c, true, s)
  else
    let r := writeAll (output.length + 1) output s
    ({ c with wire := c.wire ++ r.1, pending := [], broken := c.broken || !r.2.1 }, r.2.1, r.2.2)

/-- `connection::async_write`: try `nonblocking_write`; if data is left over (and no error)
the `async_write_handler` takes `pending_output_` (by `swap`) and waits for writability. -/
def asyncWrite (c : Conn) (newData : Bytes) (a : Ans) : Conn × NbRes :=
  let r := nbWrite c newData a
  match r.2 with
  | .done => r
  | .failed => r
  | .blocked => ({ r.1 with inflight := some r.1.pending, pending := [] }, .blocked)

/-- one `async_write_handler::operator()` invocation (socket reported writable, `ein` clear):
`write_some(output)`, advance, complete when empty, fail on a real error, otherwise re-arm. -/
def asyncStep (c : Conn) (a : Ans) : Conn × NbRes :=
  match c.inflight with
  | none => (c, .done)
  | some out =>
    if out.isEmpty then ({ c with inflight := none }, .done)   -- cannot happen: handler is only created with data
    else
      let n := a.taken out
      let rest := out.drop n
      let c' := { c with wire := c.wire ++ out.take n }
      if rest.isEmpty then ({ c' with inflight := none }, if a.err then .failed else .done)
      else if a.hardErr then ({ c' with inflight := none, broken := true }, .failed)
      else ({ c' with inflight := some rest }, .blocked)

/-- events of the write path, as the response layer and the event loop drive it -/
inductive Ev where
  | nb (data : Bytes) (a : Ans)          -- nonblocking_write (async_io_buf::do_write)
  | async (data : Bytes) (a : Ans)       -- async_write (async_write_response / handle_http_error)
  | writable (a : Ans)                   -- event loop calls the armed async_write_handler
  | blocking (data : Bytes) (s : List Ans) -- connection::write (output_device::do_write)
  deriving Repr, Inhabited

def stepEv (c : Conn) : Ev → Conn
  | .nb d a => (nbWrite c d a).1
  | .async d a => (asyncWrite c d a).1
  | .writable a => (asyncStep c a).1
  | .blocking d s => (blockingWrite c d s).1

def runEvs (c : Conn) (evs : List Ev) : Conn := evs.foldl stepEv c

/-- The documented usage contract of the asynchronous API: while an asynchronous write is in
flight (its completion handler has not run) the application does not write.  `disciplined`
checks a trace against the states it leads through. -/
def evOk (c : Conn) : Ev → Bool
  | .writable _ => true
  | _ => c.inflight.isNone

def disciplined : Conn → List Ev → Bool
  | _, [] => true
  | c, e :: es => evOk c e && disciplined (stepEv c e) es

/-- everything not yet on the wire, in wire order -/
def Conn.backlog (c : Conn) : Bytes := c.inflight.getD [] ++ c.pending

end Cppcms.C03
