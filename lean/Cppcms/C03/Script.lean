import Cppcms.Common
/-!
# C03 case lines (shared by the model driver and the judge)

    <proto> <mode> <opts> <script> <sched>

see harness/c03.cpp for the meaning of the fields.
-/
namespace Cppcms.C03
open Cppcms

/-- pseudo-random payload of the write scripts (`gen_bytes` in harness/c03.cpp): a 31-bit LCG -/
def genBytesAux : Nat → Nat → List UInt8 → List UInt8
  | 0, _, acc => acc.reverse
  | n + 1, x, acc =>
    let x' := (x * 1103515245 + 12345) % 2147483648
    genBytesAux n x' (UInt8.ofNat (x' / 65536 % 256) :: acc)

def genBytes (seed n : Nat) : Bytes := genBytesAux n (seed % 2147483648) []

inductive Proto where
  | scgi | fcgi | http (v11 ka : Bool)
  deriving Repr, DecidableEq, Inhabited

inductive Mode where
  | normal | nogzip | raw | async | asyncRaw
  deriving Repr, DecidableEq, Inhabited

def Mode.isAsync : Mode → Bool
  | .async | .asyncRaw => true
  | _ => false

def Mode.isRaw : Mode → Bool
  | .raw | .asyncRaw => true
  | _ => false

inductive Op where
  | write (n seed : Nat)          -- `out().write(p, n)`
  | putc (n seed : Nat)           -- n times `out().put(c)`
  | lit (bs : Bytes)              -- `out().write` of literal bytes
  | out                           -- `response().out()`
  | finalize                      -- `response().finalize()` (documented for asynchronous applications before `async_complete_response`)
  | flush                         -- `out().flush()` / `async_flush_output`
  | setbuf (n : Int)              -- `response().setbuf(n)`
  | fullBuf (v : Bool)            -- `full_asynchronous_buffering(v)`
  | setHeader (name value : Bytes)
  | addHeader (name value : Bytes)
  | cookie (name value : Bytes)
  | contentLength (n : Nat)
  | status (n : Nat)
  | fetchPage (key : String)
  | storePage (key : String)
  deriving Repr, Inhabited

inductive SchedItem where
  | accept (k : Nat) | wouldBlock | full
  deriving Repr, DecidableEq, Inhabited

structure Case where
  proto : Proto
  mode : Mode
  gz : Bool
  zstub : Bool
  script : List Op
  sched : List SchedItem
  deriving Repr, Inhabited

def splitComma (s : String) : List String := if s == "-" then [] else s.splitOn ","

def parseOp (s : String) : Option Op :=
  match s.toList with
  | [] => none
  | k :: rest =>
    let a := String.ofList rest
    match k with
    | 'w' | 'p' => match a.splitOn "." with
      | [n, sd] => match n.toNat?, sd.toNat? with
        | some n, some sd => some (if k = 'w' then .write n sd else .putc n sd)
        | _, _ => none
      | _ => none
    | 'x' => (parseHex a).map .lit
    | 'f' => if a.isEmpty then some .flush else none
    | 'o' => if a.isEmpty then some .out else none
    | 'Z' => if a.isEmpty then some .finalize else none
    | 'b' => if a == "-" then some (.setbuf (-1)) else a.toNat?.map fun n => .setbuf n
    | 'F' => a.toNat?.map fun n => .fullBuf (n != 0)
    | 'L' => a.toNat?.map .contentLength
    | 'S' => a.toNat?.map .status
    | 'h' | 'a' | 'k' => match a.splitOn ":" with
      | [n, v] => match parseHex v with
        | some v =>
          let nb := n.toUTF8.toList
          some (if k = 'h' then .setHeader nb v else if k = 'a' then .addHeader nb v else .cookie nb v)
        | none => none
      | _ => none
    | 'C' => some (.fetchPage a)
    | 'T' => some (.storePage a)
    | _ => none

def parseSched (s : String) : Option SchedItem :=
  match s.toList with
  | ['w'] => some .wouldBlock
  | ['f'] => some .full
  | 'a' :: rest => (String.ofList rest).toNat?.map .accept
  | _ => none

def allSome {α : Type} : List (Option α) → Option (List α)
  | [] => some []
  | none :: _ => none
  | some a :: rest => (allSome rest).map (a :: ·)

def parseCase (w : List String) : Option Case :=
  match w with
  | [proto, mode, opts, script, sched] =>
    let proto? : Option Proto := match proto with
      | "scgi" => some .scgi | "fcgi" => some .fcgi
      | "http10" => some (.http false false) | "http11" => some (.http true false)
      | "http10ka" => some (.http false true) | "http11ka" => some (.http true true)
      -- "...2": the harness sends the request twice on one connection and demands identical responses; one response is predicted
      | "http10ka2" => some (.http false true) | "http11ka2" => some (.http true true) | "fcgi2" => some .fcgi
      | _ => none
    let mode? : Option Mode := match mode with
      | "normal" => some .normal | "nogzip" => some .nogzip | "raw" => some .raw
      | "async" => some .async | "asyncraw" => some .asyncRaw | _ => none
    let os := splitComma opts
    if !os.all (fun o => o == "gz" || o == "zstub") then none else
    match proto?, mode?, allSome ((splitComma script).map parseOp), allSome ((splitComma sched).map parseSched) with
    | some p, some m, some sc, some sd =>
      some { proto := p, mode := m, gz := os.contains "gz", zstub := os.contains "zstub", script := sc, sched := sd }
    | _, _, _, _ => none
  | _ => none

/-- the bytes the script writes to the response stream, in order -/
def Op.payload : Op → Bytes
  | .write n seed => genBytes seed n
  | .putc n seed => genBytes seed n
  | .lit bs => bs
  | _ => []

end Cppcms.C03
