import Cppcms.Common
import Cppcms.C03.Gen
import Cppcms.C03.ConnWrite
import Cppcms.C03.Framing
import Cppcms.C03.Buffers
import Cppcms.C03.Script
/-!
# C03 model, part 4b: the connection side (stage 2)

Replays the `Trace` of a response (`Response.lean`) on the connection: `format_output` of the
protocol in use, `connection::write` / `nonblocking_write` / `async_write` + event loop under a
socket schedule.  The first write that fails (the only way here: `protocol_violation` because
the application wrote more than the Content-Length it announced) makes the device drop its
connection: nothing of the trace after it is performed.
-/
namespace Cppcms.C03
open Cppcms

/-- the framing state of the protocol in use -/
structure Framer where
  proto : Proto
  http : HttpSt := { isHttp11 := false, clientKeepAlive := false }
  fcgi : FcgiSt := { reqId := 1 }
  scgi : ScgiSt := {}
  deriving Inhabited

/-- `format_output` of the protocol in use: new state, bytes, `protocol_violation` -/
def Framer.format (f : Framer) (inp : Bytes) (eof : Bool) : Framer × Bytes × Bool :=
  match f.proto with
  | .scgi => ({ f with scgi := (scgiFormat f.scgi inp).1 }, (scgiFormat f.scgi inp).2, false)
  | .fcgi => ({ f with fcgi := (fcgiFormat f.fcgi inp eof).1 }, (fcgiFormat f.fcgi inp eof).2, false)
  | .http _ _ => ({ f with http := (httpFormat f.http inp eof).1 }, (httpFormat f.http inp eof).2.1, (httpFormat f.http inp eof).2.2)

/-- `set_response_headers` of the protocol in use (`service.generate_http_headers` is off) -/
def Framer.setHeaders (f : Framer) (h : Headers) : Framer :=
  match f.proto with
  | .scgi => { f with scgi := { headers := xcgiHeaders false h, headersWritten := false } }
  | .fcgi => { f with fcgi := { f.fcgi with responseHeaders := xcgiHeaders false h, headersWritten := false } }
  | .http _ _ => { f with http := f.http.setHeaders h }

/-- connection-side state: framing, write path, socket schedule -/
structure Wire where
  fr : Framer
  conn : Conn := {}
  sched : List SchedItem := []
  /-- `format_output` raised `protocol_violation` (more body than the announced Content-Length) -/
  violated : Bool := false
  /-- a write failed: the device reset its `conn_`, later events are not performed -/
  gaveUp : Bool := false
  /-- ghost: every `(bytes, eof)` the device handed to `write` / `nonblocking_write`, in order -/
  calls : List (Bytes × Bool) := []
  /-- ghost: concatenation of the results of all `format_output` calls -/
  outs : Bytes := []
  deriving Inhabited

/-- `format_output` for a device call, with the ghost bookkeeping -/
def Wire.formatLogged (w : Wire) (inp : Bytes) (eof : Bool) : Wire × Bytes × Bool :=
  let r := w.fr.format inp eof
  ({ w with fr := r.1, calls := w.calls ++ [(inp, eof)], outs := if r.2.2 then w.outs else w.outs ++ r.2.1 }, r.2.1, r.2.2)

def Wire.setHeaders (w : Wire) (h : Headers) : Wire := { w with fr := w.fr.setHeaders h }

/-- next answer of the socket for a `write_some` offering `total > 0` bytes.  On a blocking socket
`w` cannot happen (the harness turns it into a one-byte accept). -/
def nextAns (sched : List SchedItem) (total : Nat) (blocking : Bool) : Ans × List SchedItem :=
  match sched with
  | [] => (.accept total, [])
  | .accept k :: rest => (.accept (if k = 0 then 1 else k), rest)
  | .wouldBlock :: rest => (if blocking then .accept 1 else .wouldBlock, rest)
  | .full :: rest => (.accept total, rest)

/-- the schedule as the list of answers a blocking `write` will see -/
def blockingAnswers (sched : List SchedItem) (total : Nat) : List Ans :=
  sched.map fun
    | .accept k => .accept (if k = 0 then 1 else k)
    | .wouldBlock => .accept 1
    | .full => .accept total

/-- `output_device::do_write` = `connection::write` -/
def Wire.sendBlocking (w : Wire) (inp : Bytes) (eof : Bool) : Wire × Bool :=
  let r := w.formatLogged inp eof
  if r.2.2 then ({ r.1 with violated := true }, false)
  else
    let w := r.1
    let total := (w.conn.pending ++ r.2.1).length
    let x := blockingWrite w.conn r.2.1 (blockingAnswers w.sched total)
    -- schedule items consumed = answers consumed
    let used := w.sched.length - x.2.2.length
    ({ w with conn := x.1, sched := w.sched.drop used }, x.2.1)

/-- `async_io_buf::do_write` = `connection::nonblocking_write` -/
def Wire.sendNonblocking (w : Wire) (inp : Bytes) (eof : Bool) : Wire × Bool :=
  let r := w.formatLogged inp eof
  if r.2.2 then ({ r.1 with violated := true }, false)
  else
    let w := r.1
    if nbWriteAsks w.conn r.2.1 then
      let a := nextAns w.sched (w.conn.pending ++ r.2.1).length false
      let x := nbWrite w.conn r.2.1 a.1
      ({ w with conn := x.1, sched := a.2 }, x.2 != .failed)
    else ({ w with conn := (nbWrite w.conn r.2.1 (.accept 0)).1 }, true)

/-- the event loop serving an armed `async_write_handler` until it completes -/
def Wire.drain : Nat → Wire → Wire
  | 0, w => w
  | fuel + 1, w =>
    match w.conn.inflight with
    | none => w
    | some out =>
      let a := nextAns w.sched out.length false
      let r := asyncStep w.conn a.1
      Wire.drain fuel { w with conn := r.1, sched := a.2 }

/-- `connection::async_write(empty, false, h)` followed by the event loop until `h` runs
(the application continues only from the completion handler) -/
def Wire.asyncWriteEmpty (w : Wire) : Wire :=
  let r := w.fr.format [] false
  if r.2.2 then { w with fr := r.1, violated := true }
  else
    let w := { w with fr := r.1, outs := w.outs ++ r.2.1 }
    let asks := nbWriteAsks w.conn r.2.1
    let a := if asks then nextAns w.sched (w.conn.pending ++ r.2.1).length false else (.accept 0, w.sched)
    let x := asyncWrite w.conn r.2.1 a.1
    let w := { w with conn := x.1, sched := a.2 }
    -- every would-block costs one schedule item; afterwards the kernel takes what is offered
    Wire.drain (w.sched.length + (w.conn.inflight.getD []).length + 2) w

/-- one event of the response's trace; `blocking` = `output_device` (synchronous io modes) -/
def Wire.step (blocking : Bool) (w : Wire) : WEv → Wire
  | .send bs e =>
    if w.gaveUp then w
    else
      let r := if blocking then w.sendBlocking bs e else w.sendNonblocking bs e
      if r.2 then r.1 else { r.1 with gaveUp := true }
  | .hdr h => if w.gaveUp then w else w.setHeaders h
  | .asyncFlush => if w.gaveUp || w.conn.pending.isEmpty then w else w.asyncWriteEmpty

def Wire.replay (blocking : Bool) (w : Wire) (t : Trace) : Wire := t.foldl (Wire.step blocking) w

/-- the connection before the response starts -/
def Wire.init (proto : Proto) (sched : List SchedItem) : Wire :=
  let v := match proto with | .http a c => (a, c) | _ => (false, false)
  { fr := { proto, http := { isHttp11 := v.1, clientKeepAlive := v.2 } }, sched }

end Cppcms.C03
