import Cppcms.C03.ConnWrite
/-! Invariants of the connection write path. -/
namespace Cppcms.C03
open Cppcms

/-- the write-path invariant: nothing lost, duplicated or reordered -/
def Conn.Inv (c : Conn) : Prop := c.wire ++ c.backlog = c.handed

theorem Ans.taken_le (out : Bytes) (a : Ans) : a.taken out ≤ out.length := by
  cases a <;> simp [Ans.taken]
  exact Nat.min_le_right _ _

theorem Ans.err_taken (out : Bytes) (a : Ans) (h : a.err = true) : a.taken out = 0 := by
  cases a <;> simp_all [Ans.taken, Ans.err]

theorem take_append_drop_assoc (w p : Bytes) (n : Nat) : (w ++ p.take n) ++ p.drop n = w ++ p := by
  rw [List.append_assoc, List.take_append_drop]

theorem isEmpty_append_iff (p d : Bytes) : (p ++ d).isEmpty = true ↔ p = [] ∧ d = [] := by
  simp [List.isEmpty_iff]

/-- `nonblocking_write` keeps the invariant when no asynchronous write is in flight. -/
theorem nbWrite_inv (c : Conn) (d : Bytes) (a : Ans) (hi : c.inflight = none) (h : c.Inv) :
    (nbWrite c d a).1.Inv ∧ (nbWrite c d a).1.inflight = none ∧ (nbWrite c d a).1.broken = c.broken := by
  unfold Conn.Inv Conn.backlog at *
  simp only [hi, Option.getD_none, List.nil_append] at h
  unfold nbWrite
  simp only
  by_cases he : (c.pending ++ d).isEmpty = true
  · have := (isEmpty_append_iff _ _).1 he
    simp [hi, this.1, this.2, ← h]
  · simp only [he, Bool.false_eq_true, if_false]
    by_cases hn : a.taken (c.pending ++ d) = (c.pending ++ d).length
    · simp [hn, hi, ← h, List.append_assoc]
    · simp only [hn, if_false]
      by_cases h0 : a.taken (c.pending ++ d) = 0
      · simp [h0, hi, ← h, List.append_assoc]
      · simp only [h0, if_false, hi, Option.getD_none, List.nil_append, and_self, and_true]
        rw [take_append_drop_assoc, ← h, List.append_assoc]

theorem nbWrite_handed (c : Conn) (d : Bytes) (a : Ans) : (nbWrite c d a).1.handed = c.handed ++ d := by
  unfold nbWrite
  simp only
  split
  · rfl
  · split
    · rfl
    · split <;> rfl

/-- `done` means nothing is left behind. -/
theorem nbWrite_done (c : Conn) (d : Bytes) (a : Ans) (h : (nbWrite c d a).2 = .done) :
    (nbWrite c d a).1.pending = [] := by
  unfold nbWrite at *
  simp only at *
  by_cases he : (c.pending ++ d).isEmpty = true
  · have := (isEmpty_append_iff _ _).1 he
    simp [this.1, this.2]
  · simp only [he, Bool.false_eq_true, if_false] at *
    by_cases hn : a.taken (c.pending ++ d) = (c.pending ++ d).length
    · simp [hn]
    · simp only [hn, if_false] at *
      by_cases h0 : a.taken (c.pending ++ d) = 0
      · simp only [h0, if_true] at h
        split at h <;> cases h
      · simp only [h0, if_false] at h
        split at h <;> cases h

theorem asyncWrite_inv (c : Conn) (d : Bytes) (a : Ans) (hi : c.inflight = none) (h : c.Inv) :
    (asyncWrite c d a).1.Inv ∧ (asyncWrite c d a).1.broken = c.broken := by
  have ⟨h1, h2, h3⟩ := nbWrite_inv c d a hi h
  unfold asyncWrite
  simp only
  split
  · exact ⟨h1, h3⟩
  · exact ⟨h1, h3⟩
  · refine ⟨?_, h3⟩
    unfold Conn.Inv Conn.backlog at *
    simp only [h2, Option.getD_none, List.nil_append] at h1
    simpa using h1

theorem asyncWrite_handed (c : Conn) (d : Bytes) (a : Ans) : (asyncWrite c d a).1.handed = c.handed ++ d := by
  have := nbWrite_handed c d a
  unfold asyncWrite
  simp only
  split <;> simpa using this

/-- a handler step keeps the invariant unless it fails with a real error (then the rest is dropped and `broken` is set) -/
theorem asyncStep_inv (c : Conn) (a : Ans) (h : c.Inv) :
    (asyncStep c a).1.broken = false → (asyncStep c a).1.Inv := by
  unfold asyncStep
  cases hi : c.inflight with
  | none => intro _; simpa [hi] using h
  | some out =>
    simp only
    unfold Conn.Inv Conn.backlog at *
    simp only [hi, Option.getD_some] at h
    by_cases he : out.isEmpty = true
    · simp only [List.isEmpty_iff] at he
      intro _
      simpa [he] using h
    · simp only [he, Bool.false_eq_true, if_false]
      by_cases hr : (out.drop (a.taken out)).isEmpty = true
      · simp only [hr, if_true, Option.getD_none, List.nil_append]
        simp only [List.isEmpty_iff] at hr
        intro _
        have : out.take (a.taken out) = out := by
          have := List.take_append_drop (a.taken out) out
          rw [hr, List.append_nil] at this
          exact this
        rw [this, ← h, List.append_assoc]
      · simp only [hr, Bool.false_eq_true, if_false]
        by_cases hh : a.hardErr = true
        · simp [hh]
        · simp only [hh, Bool.false_eq_true, if_false, Option.getD_some]
          intro _
          rw [← List.append_assoc, take_append_drop_assoc, ← h, List.append_assoc]

theorem asyncStep_handed (c : Conn) (a : Ans) : (asyncStep c a).1.handed = c.handed := by
  unfold asyncStep
  cases hi : c.inflight with
  | none => rfl
  | some out =>
    simp only
    split
    · rfl
    · split
      · rfl
      · split <;> rfl

theorem asyncStep_broken_mono (c : Conn) (a : Ans) (h : c.broken = true) : (asyncStep c a).1.broken = true := by
  unfold asyncStep
  cases hi : c.inflight with
  | none => simpa using h
  | some out =>
    simp only
    split
    · simpa using h
    · split
      · simpa using h
      · split <;> simp [h]

/-! ### blocking write -/

theorem writeAll_spec : ∀ (fuel : Nat) (out : Bytes) (s : List Ans),
    (writeAll fuel out s).1 <+: out ∧ ((writeAll fuel out s).2.1 = true → (writeAll fuel out s).1 = out) := by
  intro fuel
  induction fuel with
  | zero => intro out s; simp [writeAll]
  | succ f ih =>
    intro out s
    unfold writeAll
    by_cases he : out.isEmpty = true
    · simp only [List.isEmpty_iff] at he
      simp [he]
    · simp only [he, Bool.false_eq_true, if_false]
      by_cases herr : (s.headD (Ans.accept out.length)).err = true
      · simp only [herr, if_true, Bool.false_eq_true, false_implies, and_true]
        exact List.take_prefix _ out
      · simp only [herr, Bool.false_eq_true, if_false]
        have ⟨p1, p2⟩ := ih (out.drop ((s.headD (Ans.accept out.length)).taken out)) s.tail
        constructor
        · obtain ⟨t, ht⟩ := p1
          refine ⟨t, ?_⟩
          rw [List.append_assoc, ht, List.take_append_drop]
        · intro hok
          rw [p2 hok, List.take_append_drop]

theorem blockingWrite_handed (c : Conn) (d : Bytes) (s : List Ans) : (blockingWrite c d s).1.handed = c.handed ++ d := by
  unfold blockingWrite
  simp only
  split <;> rfl

theorem blockingWrite_inv (c : Conn) (d : Bytes) (s : List Ans) (hi : c.inflight = none) (h : c.Inv) :
    (blockingWrite c d s).1.inflight = none ∧
    ((blockingWrite c d s).1.broken = false → (blockingWrite c d s).1.Inv) := by
  unfold Conn.Inv Conn.backlog at *
  simp only [hi, Option.getD_none, List.nil_append] at h
  unfold blockingWrite
  simp only
  by_cases he : (c.pending ++ d).isEmpty = true
  · have := (isEmpty_append_iff _ _).1 he
    simp [hi, this.1, this.2, ← h]
  · simp only [he, Bool.false_eq_true, if_false]
    have ⟨_, p2⟩ := writeAll_spec ((c.pending ++ d).length + 1) (c.pending ++ d) s
    refine ⟨hi, ?_⟩
    intro hb
    simp only [Bool.or_eq_false_iff, Bool.not_eq_false'] at hb
    simp only [hi, Option.getD_none, List.append_nil]
    rw [p2 hb.2, ← h, List.append_assoc]

theorem blockingWrite_broken_mono (c : Conn) (d : Bytes) (s : List Ans) (h : c.broken = true) :
    (blockingWrite c d s).1.broken = true := by
  unfold blockingWrite
  simp only
  split
  · simpa using h
  · simp [h]

/-! ### prefix property (holds in every state, also after errors) -/

/-- weaker invariant that survives errors: the wire is a prefix of what was handed over, and the
backlog is the matching next part -/
def Conn.PInv (c : Conn) : Prop := ∃ t, c.wire ++ c.backlog ++ t = c.handed

theorem Conn.Inv.pinv {c : Conn} (h : c.Inv) : c.PInv := ⟨[], by simpa [Conn.Inv] using h⟩

end Cppcms.C03

namespace Cppcms.C03
open Cppcms

/-! ### traces -/

def Ev.data : Ev → Bytes
  | .nb d _ => d
  | .async d _ => d
  | .writable _ => []
  | .blocking d _ => d

theorem stepEv_handed (c : Conn) (e : Ev) : (stepEv c e).handed = c.handed ++ e.data := by
  cases e <;> simp [stepEv, Ev.data, nbWrite_handed, asyncWrite_handed, asyncStep_handed, blockingWrite_handed]

theorem runEvs_handed : ∀ (evs : List Ev) (c : Conn), (runEvs c evs).handed = c.handed ++ (evs.map Ev.data).flatten := by
  intro evs
  induction evs with
  | nil => intro c; simp [runEvs]
  | cons e es ih =>
    intro c
    have := ih (stepEv c e)
    simp only [runEvs, List.foldl_cons, List.map_cons, List.flatten_cons] at *
    rw [this, stepEv_handed, List.append_assoc]

theorem stepEv_broken_mono (c : Conn) (e : Ev) (h : c.broken = true) : (stepEv c e).broken = true := by
  cases e with
  | nb d a =>
    unfold stepEv nbWrite; simp only
    split
    · simpa using h
    · split
      · simpa using h
      · split <;> simpa using h
  | async d a =>
    have : (nbWrite c d a).1.broken = true := by
      unfold nbWrite; simp only
      split
      · simpa using h
      · split
        · simpa using h
        · split <;> simpa using h
    unfold stepEv asyncWrite; simp only
    split <;> simpa using this
  | writable a => exact asyncStep_broken_mono c a h
  | blocking d s => exact blockingWrite_broken_mono c d s h

theorem runEvs_broken_mono : ∀ (evs : List Ev) (c : Conn), c.broken = true → (runEvs c evs).broken = true := by
  intro evs
  induction evs with
  | nil => intro c h; simpa [runEvs] using h
  | cons e es ih =>
    intro c h
    simp only [runEvs, List.foldl_cons]
    exact ih _ (stepEv_broken_mono c e h)

/-- one event keeps the invariant, provided it obeys the discipline and does not end in `broken` -/
theorem stepEv_inv (c : Conn) (e : Ev) (h : c.Inv) (hd : evOk c e = true) (hb : (stepEv c e).broken = false) :
    (stepEv c e).Inv := by
  cases e with
  | nb d a =>
    simp only [evOk, Option.isNone_iff_eq_none] at hd
    exact (nbWrite_inv c d a hd h).1
  | async d a =>
    simp only [evOk, Option.isNone_iff_eq_none] at hd
    exact (asyncWrite_inv c d a hd h).1
  | writable a => exact asyncStep_inv c a h hb
  | blocking d s =>
    simp only [evOk, Option.isNone_iff_eq_none] at hd
    exact (blockingWrite_inv c d s hd h).2 hb

theorem runEvs_inv : ∀ (evs : List Ev) (c : Conn), c.Inv → disciplined c evs = true →
    (runEvs c evs).broken = false → (runEvs c evs).Inv := by
  intro evs
  induction evs with
  | nil => intro c h _ _; simpa [runEvs] using h
  | cons e es ih =>
    intro c h hd hb
    simp only [disciplined, Bool.and_eq_true] at hd
    simp only [runEvs, List.foldl_cons] at *
    have hb1 : (stepEv c e).broken = false := by
      cases hx : (stepEv c e).broken with
      | false => rfl
      | true =>
        have := runEvs_broken_mono es _ hx
        simp only [runEvs] at this
        rw [this] at hb
        cases hb
    exact ih _ (stepEv_inv c e h hd.1 hb1) hd.2 hb

/-- the step that fails still leaves a prefix of the handed data on the wire -/
theorem stepEv_wire_prefix (c : Conn) (e : Ev) (h : c.Inv) (hd : evOk c e = true) :
    (stepEv c e).wire <+: (stepEv c e).handed := by
  by_cases hb : (stepEv c e).broken = false
  · have := stepEv_inv c e h hd hb
    exact ⟨_, this⟩
  · cases e with
    | nb d a =>
      simp only [evOk, Option.isNone_iff_eq_none] at hd
      exact ⟨_, (nbWrite_inv c d a hd h).1⟩
    | async d a =>
      simp only [evOk, Option.isNone_iff_eq_none] at hd
      exact ⟨_, (asyncWrite_inv c d a hd h).1⟩
    | writable a =>
      -- the failing handler step: wire gets a prefix of the in-flight data
      simp only [stepEv]
      rw [asyncStep_handed]
      unfold Conn.Inv Conn.backlog at h
      unfold asyncStep
      cases hi : c.inflight with
      | none => simp only [hi, Option.getD_none, List.nil_append] at h; exact ⟨_, h⟩
      | some out =>
        simp only [hi, Option.getD_some] at h
        simp only
        split
        · exact ⟨_, h⟩
        · have key : (c.wire ++ out.take (a.taken out)) <+: c.handed := by
            refine ⟨out.drop (a.taken out) ++ c.pending, ?_⟩
            rw [← List.append_assoc, take_append_drop_assoc, ← h, List.append_assoc]
          split
          · exact key
          · split <;> exact key
    | blocking d s =>
      simp only [evOk, Option.isNone_iff_eq_none] at hd
      simp only [stepEv]
      rw [blockingWrite_handed]
      unfold Conn.Inv Conn.backlog at h
      simp only [hd, Option.getD_none, List.nil_append] at h
      unfold blockingWrite
      simp only
      split
      · exact ⟨c.pending ++ d, by rw [← h, List.append_assoc]⟩
      · have ⟨⟨t, ht⟩, _⟩ := writeAll_spec ((c.pending ++ d).length + 1) (c.pending ++ d) s
        refine ⟨t, ?_⟩
        simp only
        rw [List.append_assoc, ht, ← h, List.append_assoc]

/-! ### liveness of the asynchronous handler -/

/-- `k` handler invocations all answered with (positive) accepts -/
def drainSteps (c : Conn) : List Nat → Conn
  | [] => c
  | k :: ks => drainSteps (asyncStep c (.accept (k + 1))).1 ks

theorem drain_complete : ∀ (ks : List Nat) (c : Conn) (out : Bytes), c.inflight = some out → out ≠ [] →
    out.length ≤ ks.length → c.broken = false →
    (drainSteps c ks).inflight = none ∧ (drainSteps c ks).wire = c.wire ++ out ∧
    (drainSteps c ks).pending = c.pending ∧ (drainSteps c ks).broken = false := by
  intro ks
  induction ks with
  | nil => intro c out _ hne hl _; simp at hl; exact absurd hl hne
  | cons k ks ih =>
    intro c out hi hne hl hb
    simp only [drainSteps]
    have hstep : asyncStep c (.accept (k + 1)) =
        (if (out.drop (min (k+1) out.length)).isEmpty
          then ({ c with wire := c.wire ++ out.take (min (k+1) out.length), inflight := none }, NbRes.done)
          else ({ c with wire := c.wire ++ out.take (min (k+1) out.length), inflight := some (out.drop (min (k+1) out.length)) }, NbRes.blocked)) := by
      unfold asyncStep
      have : out.isEmpty = false := by simpa [List.isEmpty_iff] using hne
      simp [hi, this, Ans.taken, Ans.err, Ans.hardErr]
    rw [hstep]
    by_cases hr : (out.drop (min (k+1) out.length)).isEmpty = true
    · simp only [hr, if_true]
      have hr' : out.drop (min (k+1) out.length) = [] := by simpa [List.isEmpty_iff] using hr
      have htake : out.take (min (k+1) out.length) = out := by
        have := List.take_append_drop (min (k+1) out.length) out
        rw [hr', List.append_nil] at this
        exact this
      -- remaining steps find nothing in flight
      have hrest : ∀ (ks : List Nat) (c' : Conn), c'.inflight = none → drainSteps c' ks = c' := by
        intro ks
        induction ks with
        | nil => intro c' _; rfl
        | cons k ks ih2 =>
          intro c' h'
          simp only [drainSteps]
          have : (asyncStep c' (.accept (k+1))).1 = c' := by simp [asyncStep, h']
          rw [this]
          exact ih2 c' h'
      rw [hrest ks _ rfl]
      simp [htake, hb]
    · simp only [hr, Bool.false_eq_true, if_false]
      have hne' : out.drop (min (k+1) out.length) ≠ [] := by simpa [List.isEmpty_iff] using hr
      have hlen : (out.drop (min (k+1) out.length)).length ≤ ks.length := by
        simp only [List.length_drop, List.length_cons] at *
        have : 0 < out.length := List.length_pos_iff.2 hne
        omega
      have := ih { c with wire := c.wire ++ out.take (min (k+1) out.length), inflight := some (out.drop (min (k+1) out.length)) }
        (out.drop (min (k+1) out.length)) rfl hne' hlen hb
      simp only at this
      obtain ⟨h1, h2, h3, h4⟩ := this
      refine ⟨h1, ?_, h3, h4⟩
      rw [h2, List.append_assoc, List.take_append_drop]

end Cppcms.C03
