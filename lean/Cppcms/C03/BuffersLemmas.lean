import Cppcms.C03.Buffers
/-! Lemmas about the stream-buffer models: vectors, `copy_buf`, `gzip_buf`, the devices. -/
namespace Cppcms.C03
open Cppcms

/-- closes goals that are `a = a` or have been simplified to `True` -/
macro "rt" : tactic => `(tactic| first | rfl | trivial)

/-! ### vectors -/

theorem resize_length (v : Bytes) (n : Nat) : (resize v n).length = n := by
  unfold resize
  simp only [List.length_append, List.length_take, List.length_replicate]
  omega

theorem resize_take (v : Bytes) (n k : Nat) (hk : k ≤ v.length) (hn : k ≤ n) : (resize v n).take k = v.take k := by
  unfold resize
  rw [List.take_append_of_le_length (by simp only [List.length_take]; omega)]
  rw [List.take_take]
  congr 1
  omega

theorem poke_length (v : Bytes) (pos : Nat) (s : Bytes) (h : pos + s.length ≤ v.length) : (poke v pos s).length = v.length := by
  unfold poke
  simp only [List.length_append, List.length_take, List.length_drop]
  omega

theorem poke_take (v : Bytes) (pos : Nat) (s : Bytes) (h : pos + s.length ≤ v.length) :
    (poke v pos s).take (pos + s.length) = v.take pos ++ s := by
  unfold poke
  have hl : (v.take pos ++ s).length = pos + s.length := by
    simp only [List.length_append, List.length_take]; omega
  exact List.take_left' hl

theorem poke_take_le (v : Bytes) (pos : Nat) (s : Bytes) (k : Nat) (hk : k ≤ pos) (h : pos ≤ v.length) :
    (poke v pos s).take k = v.take k := by
  unfold poke
  rw [List.append_assoc, List.take_append_of_le_length (by simp only [List.length_take]; omega), List.take_take]
  congr 1
  omega

theorem poke_nil (v : Bytes) (pos : Nat) : poke v pos [] = v := by
  unfold poke; simp

theorem take_drop_take (v : Bytes) (a c : Nat) (h : a ≤ c) : v.take a ++ (v.drop a).take (c - a) = v.take c := by
  have : v.take c = (v.take c).take a ++ (v.take c).drop a := (List.take_append_drop a _).symm
  rw [this, List.take_take, List.drop_take]
  congr 2
  omega

theorem actBytes_append (a c : List Act) : actBytes (a ++ c) = actBytes a ++ actBytes c := by
  simp [actBytes]

theorem actBytes_nil : actBytes [] = [] := rfl

/-! ### copy_buf -/

/-- invariant of `copy_buf` relative to everything written into it (`inp`) and everything it has
passed on to the next buffer (`teed`) -/
def Copy.Inv (k : Copy) (inp teed : Bytes) : Prop :=
  k.attached = true ∧
  ((k.started = true ∧ k.base ≤ k.pos ∧ k.pos ≤ k.vec.length ∧ 0 < k.vec.length ∧ k.vec.take k.pos = inp ∧ teed = k.vec.take k.base) ∨
   (k.started = false ∧ k.vec = [] ∧ inp = [] ∧ teed = []))

theorem Copy.inv_init : ({} : Copy).Inv [] [] := by
  simp [Copy.Inv]

/-- the put area is usable: started, room for at least one byte -/
def Copy.Ready (k : Copy) (inp teed : Bytes) : Prop :=
  k.attached = true ∧ k.started = true ∧ k.base ≤ k.pos ∧ k.pos < k.vec.length ∧ k.vec.take k.pos = inp ∧ teed = k.vec.take k.base

theorem Copy.Ready.inv {k : Copy} {inp teed : Bytes} (h : k.Ready inp teed) : k.Inv inp teed :=
  ⟨h.1, Or.inl ⟨h.2.1, h.2.2.1, Nat.le_of_lt h.2.2.2.1, by have := h.2.2.2.1; omega, h.2.2.2.2.1, h.2.2.2.2.2⟩⟩

theorem Copy.teeActs_bytes (k : Copy) (inp teed : Bytes) (h : k.Inv inp teed) : teed ++ actBytes k.teeActs = inp := by
  obtain ⟨hatt, h⟩ := h
  unfold Copy.teeActs
  rcases h with ⟨hs, hbp, hpl, hlen, hinp, hteed⟩ | ⟨hs, hv, hinp, hteed⟩
  · by_cases hb : k.base = k.pos
    · simp [hb, actBytes, hteed, ← hinp]
    · have : (k.base != k.pos) = true := by simpa using hb
      simp only [hatt, this, Bool.and_self, if_true, actBytes, List.map_cons, List.map_nil, Act.bytes, List.flatten_cons,
        List.flatten_nil, List.append_nil, hteed, ← hinp]
      exact take_drop_take _ _ _ hbp
  · subst hinp hteed
    simp only [hv, List.drop_nil, List.take_nil, List.nil_append]
    split <;> simp [actBytes, Act.bytes]

/-- after `reposition` everything written so far has been passed on and there is room for one more byte -/
theorem Copy.reposition_ready (k : Copy) (inp teed : Bytes) (h : k.Inv inp teed) :
    k.reposition.Ready inp inp ∧ k.reposition.base = k.reposition.pos := by
  obtain ⟨hatt, h⟩ := h
  unfold Copy.reposition
  rcases h with ⟨hs, hbp, hpl, hlen, hinp, hteed⟩ | ⟨hs, hv, hinp, hteed⟩
  · simp only [hs, Bool.not_true, Bool.false_eq_true, if_false]
    by_cases hfull : k.pos = k.vec.length
    · simp only [hfull, if_true]
      have hr : (resize k.vec (k.vec.length * 2)).length = k.vec.length * 2 := resize_length _ _
      have hrt : (resize k.vec (k.vec.length * 2)).take k.vec.length = k.vec := by
        rw [resize_take _ _ _ (Nat.le_refl _) (by omega), List.take_length]
      have hi : k.vec = inp := by rw [← hinp, hfull, List.take_length]
      refine ⟨⟨hatt, rfl, Nat.le_refl _, ?_, ?_, ?_⟩, trivial⟩
      · show k.vec.length < (resize k.vec (k.vec.length * 2)).length
        rw [hr]; omega
      · show (resize k.vec (k.vec.length * 2)).take k.vec.length = inp
        rw [hrt, hi]
      · show inp = (resize k.vec (k.vec.length * 2)).take k.vec.length
        rw [hrt, hi]
    · simp only [hfull, if_false]
      exact ⟨⟨hatt, rfl, Nat.le_refl _, by show k.pos < k.vec.length; omega, hinp, hinp.symm⟩, trivial⟩
  · subst hinp hteed
    simp only [hs, hv, Bool.not_false, if_true, List.isEmpty_nil]
    have hinit : (resize ([] : Bytes) Gen.copyBufInitial).length = Gen.copyBufInitial := resize_length _ _
    have hpos : 0 < Gen.copyBufInitial := by decide
    refine ⟨⟨hatt, rfl, Nat.le_refl _, ?_, ?_, ?_⟩, by simp⟩
    · show 0 < (resize ([] : Bytes) Gen.copyBufInitial).length
      rw [hinit]; exact hpos
    · simp
    · simp

theorem Copy.store_ready (k : Copy) (inp teed : Bytes) (c : UInt8) (h : k.Ready inp teed) :
    (k.store c).Inv (inp ++ [c]) teed := by
  obtain ⟨hatt, hs, hbp, hpl, hinp, hteed⟩ := h
  have hp : k.pos + [c].length ≤ k.vec.length := by simp only [List.length_cons, List.length_nil]; omega
  have hlen := poke_length k.vec k.pos [c] hp
  have htake := poke_take k.vec k.pos [c] hp
  simp only [List.length_cons, List.length_nil] at htake
  refine ⟨hatt, Or.inl ⟨hs, ?_, ?_, ?_, ?_, ?_⟩⟩
  · show k.base ≤ k.pos + 1; omega
  · show k.pos + 1 ≤ (poke k.vec k.pos [c]).length; rw [hlen]; omega
  · show 0 < (poke k.vec k.pos [c]).length; rw [hlen]; omega
  · show (poke k.vec k.pos [c]).take (k.pos + 1) = inp ++ [c]; rw [htake, hinp]
  · show teed = (poke k.vec k.pos [c]).take k.base
    rw [poke_take_le _ _ _ _ hbp (by omega)]; exact hteed

theorem Copy.overflow_inv (k : Copy) (inp teed : Bytes) (c : Option UInt8) (h : k.Inv inp teed) :
    (k.overflow c).1.Inv (inp ++ c.toList) (teed ++ actBytes (k.overflow c).2) ∧
    (c = none → (k.overflow c).1.base = (k.overflow c).1.pos) := by
  have ht := Copy.teeActs_bytes k inp teed h
  have ⟨hr, hbp⟩ := Copy.reposition_ready k inp teed h
  cases c with
  | none =>
    simp only [Copy.overflow, Option.toList_none, List.append_nil, ht]
    exact ⟨hr.inv, fun _ => hbp⟩
  | some c =>
    simp only [Copy.overflow, Option.toList_some, ht]
    exact ⟨Copy.store_ready _ _ _ c hr, fun h => by cases h⟩

theorem Copy.sputc_inv (k : Copy) (inp teed : Bytes) (c : UInt8) (h : k.Inv inp teed) :
    (k.sputc c).1.Inv (inp ++ [c]) (teed ++ actBytes (k.sputc c).2) := by
  unfold Copy.sputc
  by_cases hc : (k.started && decide (k.pos < k.vec.length)) = true
  · simp only [hc, if_true, actBytes_nil, List.append_nil]
    simp only [Bool.and_eq_true, decide_eq_true_eq] at hc
    obtain ⟨hatt, h⟩ := h
    rcases h with ⟨hs, hbp, hpl, hlen, hinp, hteed⟩ | ⟨hs, _⟩
    · exact Copy.store_ready _ _ _ c ⟨hatt, hs, hbp, hc.2, hinp, hteed⟩
    · rw [hs] at hc; exact absurd hc.1 (by simp)
  · simp only [hc, Bool.false_eq_true, if_false]
    exact (Copy.overflow_inv k inp teed (some c) h).1

/-- storing a block that fits -/
theorem Copy.pokeBlock_inv (k : Copy) (inp teed : Bytes) (s : Bytes) (h : k.Inv inp teed)
    (hfit : s.length ≤ (if k.started then k.vec.length - k.pos else 0)) :
    ({ k with vec := poke k.vec k.pos s, pos := k.pos + s.length } : Copy).Inv (inp ++ s) teed := by
  obtain ⟨hatt, h⟩ := h
  rcases h with ⟨hs, hbp, hpl, hlen, hinp, hteed⟩ | ⟨hs, hv, hinp, hteed⟩
  · simp only [hs, if_true] at hfit
    have hp : k.pos + s.length ≤ k.vec.length := by omega
    refine ⟨hatt, Or.inl ⟨hs, ?_, ?_, ?_, ?_, ?_⟩⟩
    · show k.base ≤ k.pos + s.length; omega
    · show k.pos + s.length ≤ (poke k.vec k.pos s).length; rw [poke_length _ _ _ hp]; omega
    · show 0 < (poke k.vec k.pos s).length; rw [poke_length _ _ _ hp]; omega
    · show (poke k.vec k.pos s).take (k.pos + s.length) = inp ++ s; rw [poke_take _ _ _ hp, hinp]
    · show teed = (poke k.vec k.pos s).take k.base
      rw [poke_take_le _ _ _ _ hbp hpl]; exact hteed
  · simp only [hs, Bool.false_eq_true, if_false, Nat.le_zero, List.length_eq_zero_iff] at hfit
    subst hfit
    refine ⟨hatt, Or.inr ⟨hs, ?_, by simp [hinp], hteed⟩⟩
    show poke k.vec k.pos [] = []
    rw [poke_nil, hv]

theorem Copy.xsputnAux_inv : ∀ (fuel : Nat) (k : Copy) (inp teed s : Bytes), k.Inv inp teed → s.length < fuel →
    (Copy.xsputnAux fuel k s).1.Inv (inp ++ s) (teed ++ actBytes (Copy.xsputnAux fuel k s).2) := by
  intro fuel
  induction fuel with
  | zero => intro k inp teed s _ hf; omega
  | succ f ih =>
    intro k inp teed s h hf
    rw [Copy.xsputnAux]
    simp only
    by_cases hfit : s.length ≤ (if k.started then k.vec.length - k.pos else 0)
    · simp only [hfit, if_true, actBytes_nil, List.append_nil]
      exact Copy.pokeBlock_inv k inp teed s h hfit
    · simp only [hfit, if_false]
      -- fill what fits
      have hk1 : (if (if k.started then k.vec.length - k.pos else 0) = 0 then k
            else { k with vec := poke k.vec k.pos (s.take (if k.started then k.vec.length - k.pos else 0)),
                          pos := k.pos + (if k.started then k.vec.length - k.pos else 0) } : Copy).Inv
          (inp ++ s.take (if k.started then k.vec.length - k.pos else 0)) teed := by
        by_cases hz : (if k.started then k.vec.length - k.pos else 0) = 0
        · simp only [hz, if_true, List.take_zero, List.append_nil]; exact h
        · simp only [hz, if_false]
          have hl : (s.take (if k.started then k.vec.length - k.pos else 0)).length = (if k.started then k.vec.length - k.pos else 0) := by
            simp only [List.length_take]; omega
          have := Copy.pokeBlock_inv k inp teed (s.take (if k.started then k.vec.length - k.pos else 0)) h (by rw [hl]; exact Nat.le_refl _)
          rw [hl] at this
          exact this
      generalize hroom : (if k.started then k.vec.length - k.pos else 0) = room at *
      generalize hk1def : (if room = 0 then k else { k with vec := poke k.vec k.pos (s.take room), pos := k.pos + room } : Copy) = k1 at *
      cases hd : s.drop room with
      | nil =>
        have : s.length ≤ room := by
          have := congrArg List.length hd
          simp only [List.length_drop, List.length_nil] at this; omega
        omega
      | cons c rest =>
        simp only
        have hsplit : s = s.take room ++ c :: rest := by rw [← hd, List.take_append_drop]
        have ho := (Copy.overflow_inv k1 _ teed (some c) hk1).1
        simp only [Option.toList_some] at ho
        have hrl : rest.length < f := by
          have := congrArg List.length hd
          simp only [List.length_drop, List.length_cons] at this
          omega
        have := ih _ _ _ rest ho hrl
        rw [actBytes_append, ← List.append_assoc]
        have e : inp ++ s = inp ++ s.take room ++ [c] ++ rest := by
          conv => lhs; rw [hsplit]
          simp [List.append_assoc]
        rw [e]
        exact this

theorem Copy.xsputn_inv (k : Copy) (inp teed s : Bytes) (h : k.Inv inp teed) :
    (k.xsputn s).1.Inv (inp ++ s) (teed ++ actBytes (k.xsputn s).2) :=
  Copy.xsputnAux_inv (s.length + 1) k inp teed s h (Nat.lt_succ_self _)

theorem Copy.sync_inv (k : Copy) (inp teed : Bytes) (h : k.Inv inp teed) :
    (k.sync).1.Inv inp (teed ++ actBytes (k.sync).2) ∧ teed ++ actBytes (k.sync).2 = inp := by
  have ho := Copy.overflow_inv k inp teed none h
  have ht := Copy.teeActs_bytes k inp teed h
  simp only [Option.toList_none, List.append_nil] at ho
  unfold Copy.sync
  simp only [h.1, if_true, actBytes_append]
  have : actBytes [Act.sync] = [] := rfl
  simp only [this, List.append_nil]
  refine ⟨ho.1, ?_⟩
  simp only [Copy.overflow, ht]

/-- after `close()` the whole input has been passed on, and `getstr` returns exactly it -/
theorem Copy.close_spec (k : Copy) (inp teed : Bytes) (h : k.Inv inp teed) :
    teed ++ actBytes (k.close).2 = inp ∧ (k.close).1.getstr.1 = inp := by
  have ht := Copy.teeActs_bytes k inp teed h
  have ⟨hr, _⟩ := Copy.reposition_ready k inp teed h
  unfold Copy.close
  simp only [Copy.overflow]
  refine ⟨ht, ?_⟩
  unfold Copy.getstr
  simp only [hr.2.1, if_true]
  exact hr.2.2.2.2.1

end Cppcms.C03

namespace Cppcms.C03
open Cppcms

/-! ### gzip_buf -/

theorem piecesAux_flatten (chunk : Nat) : ∀ (fuel : Nat) (t : Bytes), (piecesAux chunk fuel t).flatten = t := by
  intro fuel
  induction fuel with
  | zero => intro t; simp [piecesAux]
  | succ f ih =>
    intro t
    rw [piecesAux]
    split
    · simp
    · simp [ih]

theorem pieces_flatten (chunk : Nat) (t : Bytes) : (pieces chunk t).flatten = t := piecesAux_flatten chunk _ t

theorem actBytes_put_pieces (chunk : Nat) (t : Bytes) : actBytes ((pieces chunk t).map Act.put) = t := by
  unfold actBytes
  rw [List.map_map]
  have : (Act.bytes ∘ Act.put) = id := by funext x; rfl
  rw [this, List.map_id, pieces_flatten]

/-- run the deflater over a list of `do_write` calls: final state and concatenated output -/
def feedAll (D : Deflater) : D.σ → List (Bytes × Flush) → D.σ × Bytes
  | s, [] => (s, [])
  | s, (i, f) :: rest =>
    let r := D.feed s i f
    let r2 := feedAll D r.1 rest
    (r2.1, r.2 ++ r2.2)

theorem feedAll_append (D : Deflater) : ∀ (xs : List (Bytes × Flush)) (s : D.σ) (i : Bytes) (f : Flush),
    feedAll D s (xs ++ [(i, f)]) =
      ((D.feed (feedAll D s xs).1 i f).1, (feedAll D s xs).2 ++ (D.feed (feedAll D s xs).1 i f).2) := by
  intro xs
  induction xs with
  | nil => intro s i f; simp [feedAll]
  | cons x xs ih =>
    intro s i f
    obtain ⟨xi, xf⟩ := x
    simp only [List.cons_append, feedAll, ih, List.append_assoc]

/-- invariant of `gzip_buf` relative to the application bytes written into it (`inp`) and the bytes
it has passed down (`out`) -/
def Gz.Inv {D : Deflater} (g : Gz D) (inp out : Bytes) : Prop :=
  g.opened = true ∧ 0 < g.cap ∧ g.inBuf.length ≤ g.cap ∧
  (g.fed.map (·.1)).flatten ++ g.inBuf = inp ∧
  (∀ c ∈ g.fed, c.2 ≠ Flush.finish) ∧
  feedAll D D.init g.fed = (g.z, out)

theorem Gz.open_inv (D : Deflater) (n : Int) : (Gz.open D n).Inv [] [] := by
  unfold Gz.open Gz.Inv
  have : 0 < Gen.gzipMinBuffer := by decide
  refine ⟨rfl, ?_, by simp, by simp, by simp, by simp [feedAll]⟩
  simp only
  split
  · exact this
  · rename_i h; simp only [Int.not_lt] at h; omega

/-- the effect of one `do_write(pbase(), have, flush)` that is not skipped -/
theorem Gz.doWrite_spec {D : Deflater} (g : Gz D) (inp out : Bytes) (fl : Flush) (h : g.Inv inp out)
    (hns : ¬ (g.inBuf.isEmpty = true ∧ fl = .noFlush)) :
    (g.doWrite g.inBuf fl).1.fed = g.fed ++ [(g.inBuf, fl)] ∧
    (g.doWrite g.inBuf fl).1.opened = true ∧ (g.doWrite g.inBuf fl).1.cap = g.cap ∧ (g.doWrite g.inBuf fl).1.inBuf = g.inBuf ∧
    feedAll D D.init (g.fed ++ [(g.inBuf, fl)]) = ((g.doWrite g.inBuf fl).1.z, out ++ actBytes (g.doWrite g.inBuf fl).2) := by
  obtain ⟨ho, hc, hl, hi, hf, hz⟩ := h
  have hskip : (g.inBuf.isEmpty && fl == .noFlush) = false := by
    cases hh : (g.inBuf.isEmpty && fl == .noFlush) with
    | false => rfl
    | true =>
      simp only [Bool.and_eq_true, beq_iff_eq] at hh
      exact absurd hh hns
  unfold Gz.doWrite
  simp only [ho, Bool.not_true, Bool.false_eq_true, if_false, hskip]
  refine ⟨trivial, trivial, trivial, trivial, ?_⟩
  rw [feedAll_append, hz]
  simp only [actBytes_append, actBytes_put_pieces]
  congr 2
  split <;> simp [actBytes, Act.bytes]

theorem Gz.overflowC_inv {D : Deflater} (g : Gz D) (inp out : Bytes) (c : UInt8) (h : g.Inv inp out) :
    (g.overflowC c).1.Inv (inp ++ [c]) (out ++ actBytes (g.overflowC c).2) := by
  have h' := h
  obtain ⟨ho, hc, hl, hi, hf, hz⟩ := h
  unfold Gz.overflowC
  simp only [ho, Bool.not_true, Bool.false_eq_true, if_false]
  by_cases he : g.inBuf.isEmpty = true
  · simp only [he, if_true, actBytes_nil, List.append_nil]
    have he' : g.inBuf = [] := by simpa [List.isEmpty_iff] using he
    refine ⟨ho, hc, by simp; omega, ?_, hf, hz⟩
    simp only [← hi, he', List.append_nil]
  · simp only [he, Bool.false_eq_true, if_false]
    have ⟨s1, s2, s3, s4, s5⟩ := Gz.doWrite_spec g inp out .noFlush h' (by simp [he])
    refine ⟨s2, by rw [s3]; exact hc, by simp; rw [s3]; omega, ?_, ?_, ?_⟩
    · simp only [s1, List.map_append, List.map_cons, List.map_nil, List.flatten_append, List.flatten_cons, List.flatten_nil,
        List.append_nil]
      rw [hi]
    · intro x hx
      simp only [s1, List.mem_append, List.mem_singleton] at hx
      cases hx with
      | inl hx => exact hf x hx
      | inr hx => subst hx; simp
    · simp only [s1]; exact s5

theorem Gz.sputc_inv {D : Deflater} (g : Gz D) (inp out : Bytes) (c : UInt8) (h : g.Inv inp out) :
    (g.sputc c).1.Inv (inp ++ [c]) (out ++ actBytes (g.sputc c).2) := by
  unfold Gz.sputc
  by_cases hr : g.inBuf.length < g.cap
  · simp only [hr, if_true, actBytes_nil, List.append_nil]
    obtain ⟨ho, hc, hl, hi, hf, hz⟩ := h
    refine ⟨ho, hc, by simp; omega, ?_, hf, hz⟩
    simp only [← hi, List.append_assoc]
  · simp only [hr, if_false]
    exact Gz.overflowC_inv g inp out c h

theorem Gz.appendBuf_inv {D : Deflater} (g : Gz D) (inp out s : Bytes) (h : g.Inv inp out) (hfit : g.inBuf.length + s.length ≤ g.cap) :
    ({ g with inBuf := g.inBuf ++ s } : Gz D).Inv (inp ++ s) out := by
  obtain ⟨ho, hc, hl, hi, hf, hz⟩ := h
  refine ⟨ho, hc, by simp; omega, ?_, hf, hz⟩
  simp only [← hi, List.append_assoc]

theorem Gz.xsputnAux_inv {D : Deflater} : ∀ (fuel : Nat) (g : Gz D) (inp out s : Bytes), g.Inv inp out → s.length < fuel →
    (Gz.xsputnAux fuel g s).1.Inv (inp ++ s) (out ++ actBytes (Gz.xsputnAux fuel g s).2) := by
  intro fuel
  induction fuel with
  | zero => intro g inp out s _ hf; omega
  | succ f ih =>
    intro g inp out s h hf
    rw [Gz.xsputnAux]
    simp only
    by_cases hfit : s.length ≤ g.cap - g.inBuf.length
    · simp only [hfit, if_true, actBytes_nil, List.append_nil]
      exact Gz.appendBuf_inv g inp out s h (by have := h.2.2.1; omega)
    · simp only [hfit, if_false]
      have hl := h.2.2.1
      have htl : (s.take (g.cap - g.inBuf.length)).length = g.cap - g.inBuf.length := by
        simp only [List.length_take]; omega
      have h1 := Gz.appendBuf_inv g inp out (s.take (g.cap - g.inBuf.length)) h (by rw [htl]; omega)
      cases hd : s.drop (g.cap - g.inBuf.length) with
      | nil =>
        have := congrArg List.length hd
        simp only [List.length_drop, List.length_nil] at this; omega
      | cons c rest =>
        simp only
        have hsplit : s = s.take (g.cap - g.inBuf.length) ++ c :: rest := by rw [← hd, List.take_append_drop]
        have ho := Gz.overflowC_inv _ _ out c h1
        have hrl : rest.length < f := by
          have := congrArg List.length hd
          simp only [List.length_drop, List.length_cons] at this
          omega
        have := ih _ _ _ rest ho hrl
        rw [actBytes_append, ← List.append_assoc]
        have e : inp ++ s = inp ++ s.take (g.cap - g.inBuf.length) ++ [c] ++ rest := by
          conv => lhs; rw [hsplit]
          simp [List.append_assoc]
        rw [e]
        exact this

theorem Gz.xsputn_inv {D : Deflater} (g : Gz D) (inp out s : Bytes) (h : g.Inv inp out) :
    (g.xsputn s).1.Inv (inp ++ s) (out ++ actBytes (g.xsputn s).2) := by
  unfold Gz.xsputn
  simp only [h.1, Bool.not_true, Bool.false_eq_true, if_false]
  exact Gz.xsputnAux_inv (s.length + 1) g inp out s h (Nat.lt_succ_self _)

theorem Gz.sync_inv {D : Deflater} (g : Gz D) (inp out : Bytes) (h : g.Inv inp out) :
    (g.sync).1.Inv inp (out ++ actBytes (g.sync).2) ∧ (g.sync).1.inBuf = [] := by
  have ⟨s1, s2, s3, s4, s5⟩ := Gz.doWrite_spec g inp out .syncFlush h (by simp)
  obtain ⟨ho, hc, hl, hi, hf, hz⟩ := h
  unfold Gz.sync
  simp only [ho, if_true]
  refine ⟨⟨s2, by rw [s3]; exact hc, by simp, ?_, ?_, ?_⟩, trivial⟩
  · simp only [s1, List.map_append, List.map_cons, List.map_nil, List.flatten_append, List.flatten_cons, List.flatten_nil,
      List.append_nil]
    exact hi
  · intro x hx
    simp only [s1, List.mem_append, List.mem_singleton] at hx
    cases hx with
    | inl hx => exact hf x hx
    | inr hx => subst hx; simp
  · simp only [s1]; exact s5

/-- `close()`: the rest of the buffer is fed with `Z_FINISH`, exactly once, as the last call -/
theorem Gz.close_spec {D : Deflater} (g : Gz D) (inp out : Bytes) (h : g.Inv inp out) :
    ∃ calls last, (g.close).1.fed = calls ++ [(last, Flush.finish)] ∧ (∀ c ∈ calls, c.2 ≠ Flush.finish) ∧
      ((g.close).1.fed.map (·.1)).flatten = inp ∧
      (feedAll D D.init (g.close).1.fed).2 = out ++ actBytes (g.close).2 ∧
      (g.close).1.opened = false := by
  have ⟨s1, s2, s3, s4, s5⟩ := Gz.doWrite_spec g inp out .finish h (by simp)
  obtain ⟨ho, hc, hl, hi, hf, hz⟩ := h
  refine ⟨g.fed, g.inBuf, ?_, hf, ?_, ?_, ?_⟩
  · unfold Gz.close; simp only [ho, Bool.not_true, Bool.false_eq_true, if_false]; exact s1
  · unfold Gz.close; simp only [ho, Bool.not_true, Bool.false_eq_true, if_false, s1]
    simp only [List.map_append, List.map_cons, List.map_nil, List.flatten_append, List.flatten_cons, List.flatten_nil, List.append_nil]
    exact hi
  · unfold Gz.close; simp only [ho, Bool.not_true, Bool.false_eq_true, if_false, s1]
    rw [s5]
  · unfold Gz.close; simp only [ho, Bool.not_true, Bool.false_eq_true, if_false]

end Cppcms.C03

namespace Cppcms.C03
open Cppcms

/-! ### the devices, over a connection that accepts every write -/

abbrev Log := List (Bytes × Bool)

/-- a connection that records what it is given and never fails -/
def logIf : ConnIf Log := { send := fun k bs eof => (k ++ [(bs, eof)], true), setHeaders := fun k _ => k }

def Log.bytes (k : Log) : Bytes := (k.map (·.1)).flatten
def Log.eofs (k : Log) : Nat := (k.filter (·.2)).length

theorem Log.bytes_append (k : Log) (bs : Bytes) (e : Bool) : Log.bytes (k ++ [(bs, e)]) = Log.bytes k ++ bs := by
  simp [Log.bytes]

theorem Log.eofs_append (k : Log) (bs : Bytes) (e : Bool) : Log.eofs (k ++ [(bs, e)]) = Log.eofs k + (if e then 1 else 0) := by
  cases e <;> simp [Log.eofs, List.filter_append]

theorem nextSize_gt (n : Nat) : n < Gen.nextSize n := by
  unfold Gen.nextSize; split <;> omega

theorem growTo_ge_start : ∀ (fuel rs m : Nat), rs ≤ growTo fuel rs m := by
  intro fuel
  induction fuel with
  | zero => intro rs m; simp [growTo]
  | succ f ih =>
    intro rs m
    rw [growTo]
    split
    · have := ih (rs * 2) m; omega
    · exact Nat.le_refl _

theorem growTo_ge_min : ∀ (fuel rs m : Nat), 0 < rs → m ≤ rs + fuel → m ≤ growTo fuel rs m := by
  intro fuel
  induction fuel with
  | zero => intro rs m _ h; simpa [growTo] using h
  | succ f ih =>
    intro rs m hp h
    rw [growTo]
    split
    · exact ih (rs * 2) m (by omega) (by omega)
    · omega

/-- the part of the device state the conservation statement is about -/
def Dev.Inv (d : Dev) (k : Log) (inp : Bytes) : Prop :=
  d.dead = false ∧ d.rawMode = false ∧ d.pos ≤ d.vec.length ∧ Log.bytes k ++ d.vec.take d.pos = inp

/-- `write` on the logging connection, not in raw mode -/
theorem Dev.write_log (d : Dev) (k : Log) (out : List Bytes) (hd : d.dead = false) (hr : d.rawMode = false) :
    d.write logIf k out = ({ d with eofSend := d.final && !d.eofSend }, k ++ [(out.flatten, d.final && !d.eofSend)], true) := by
  unfold Dev.write
  simp [hd, hr, logIf]

theorem Dev.doSetp_inv (d : Dev) (k : Log) (hd : d.dead = false) (hr : d.rawMode = false) :
    d.doSetp.Inv k (Log.bytes k) := by
  refine ⟨hd, hr, Nat.zero_le _, ?_⟩
  show Log.bytes k ++ (resize d.vec d.bufferSize).take 0 = Log.bytes k
  simp

/-- eof bookkeeping of one `write` -/
def eofFlag (d : Dev) : Bool := d.final && !d.eofSend

theorem Dev.basicOverflow_inv (d : Dev) (k : Log) (inp : Bytes) (c : Option UInt8) (h : d.Inv k inp) :
    (d.basicOverflow logIf k c).1.Inv (d.basicOverflow logIf k c).2 (inp ++ c.toList) ∧
    (d.basicOverflow logIf k c).2 = k ++ [(d.content ++ c.toList, eofFlag d)] ∧
    (d.basicOverflow logIf k c).1.final = d.final ∧ (d.basicOverflow logIf k c).1.eofSend = eofFlag d := by
  obtain ⟨hd, hr, hp, hi⟩ := h
  unfold Dev.basicOverflow
  rw [Dev.write_log _ _ _ hd hr]
  simp only [if_true]
  have key : ∀ bs : Bytes, ({ d with eofSend := d.final && !d.eofSend } : Dev).doSetp.Inv
      (k ++ [(d.content ++ bs, d.final && !d.eofSend)]) (inp ++ bs) := by
    intro bs
    have := Dev.doSetp_inv { d with eofSend := d.final && !d.eofSend } (k ++ [(d.content ++ bs, d.final && !d.eofSend)]) hd hr
    rw [Log.bytes_append, ← List.append_assoc] at this
    unfold Dev.content at this
    rw [hi] at this
    exact this
  cases c with
  | none =>
    simp only [List.flatten_cons, List.flatten_nil, List.append_nil, Option.toList_none]
    have := key []
    simp only [List.append_nil] at this
    exact ⟨this, (by rt), (by rt), (by rt)⟩
  | some c =>
    simp only [List.flatten_cons, List.flatten_nil, List.append_nil, Option.toList_some]
    exact ⟨key [c], (by rt), (by rt), (by rt)⟩

theorem Dev.pokeBlock_inv (d : Dev) (k : Log) (inp s : Bytes) (h : d.Inv k inp) (hfit : d.pos + s.length ≤ d.vec.length) :
    ({ d with vec := poke d.vec d.pos s, pos := d.pos + s.length } : Dev).Inv k (inp ++ s) := by
  obtain ⟨hd, hr, hp, hi⟩ := h
  refine ⟨hd, hr, ?_, ?_⟩
  · show d.pos + s.length ≤ (poke d.vec d.pos s).length
    rw [poke_length _ _ _ hfit]; exact hfit
  · show Log.bytes k ++ (poke d.vec d.pos s).take (d.pos + s.length) = inp ++ s
    rw [poke_take _ _ _ hfit, ← List.append_assoc, hi]

theorem Dev.basicXsputn_inv (d : Dev) (k : Log) (inp s : Bytes) (h : d.Inv k inp) :
    (d.basicXsputn logIf k s).1.Inv (d.basicXsputn logIf k s).2 (inp ++ s) ∧
    (d.basicXsputn logIf k s).1.final = d.final ∧
    (((d.basicXsputn logIf k s).2 = k ∧ (d.basicXsputn logIf k s).1.eofSend = d.eofSend) ∨
     ((d.basicXsputn logIf k s).2 = k ++ [(d.content ++ s, eofFlag d)] ∧ (d.basicXsputn logIf k s).1.eofSend = eofFlag d)) := by
  have h' := h
  obtain ⟨hd, hr, hp, hi⟩ := h
  unfold Dev.basicXsputn
  by_cases hfit : s.length ≤ d.vec.length - d.pos
  · simp only [hfit, if_true]
    by_cases he : s.isEmpty = true
    · have : s = [] := by simpa [List.isEmpty_iff] using he
      subst this
      simp only [List.isEmpty_nil, if_true, List.append_nil]
      exact ⟨h', (by rt), Or.inl ⟨(by rt), (by rt)⟩⟩
    · simp only [he, Bool.false_eq_true, if_false]
      exact ⟨Dev.pokeBlock_inv d k inp s h' (by omega), (by rt), Or.inl ⟨(by rt), (by rt)⟩⟩
  · simp only [hfit, if_false]
    rw [Dev.write_log _ _ _ hd hr]
    simp only [if_true, List.flatten_cons, List.flatten_nil, List.append_nil]
    refine ⟨?_, (by rt), Or.inr ⟨(by rt), (by rt)⟩⟩
    have := Dev.doSetp_inv { d with eofSend := d.final && !d.eofSend } (k ++ [(d.content ++ s, d.final && !d.eofSend)]) hd hr
    rw [Log.bytes_append, ← List.append_assoc] at this
    unfold Dev.content at this
    rw [hi] at this
    exact this

theorem Dev.flush_inv (d : Dev) (k : Log) (inp : Bytes) (h : d.Inv k inp) :
    (d.flush logIf k).1.Inv (d.flush logIf k).2.1 inp ∧ (d.flush logIf k).1.pos = 0 ∧
    (d.flush logIf k).2.1 = k ++ [(d.content, eofFlag d)] ∧ (d.flush logIf k).2.2 = true ∧
    (d.flush logIf k).1.final = d.final ∧ (d.flush logIf k).1.eofSend = eofFlag d ∧
    (d.flush logIf k).1.vec = d.vec ∧ (d.flush logIf k).1.bufferSize = d.bufferSize ∧
    (d.flush logIf k).1.isAsync = d.isAsync ∧ (d.flush logIf k).1.fullBuffering = d.fullBuffering := by
  obtain ⟨hd, hr, hp, hi⟩ := h
  unfold Dev.flush
  rw [Dev.write_log _ _ _ hd hr]
  simp only [List.flatten_cons, List.flatten_nil, List.append_nil]
  refine ⟨⟨hd, hr, Nat.zero_le _, ?_⟩, (by rt), (by rt), (by rt), (by rt), (by rt), (by rt), (by rt), (by rt), (by rt)⟩
  show Log.bytes (k ++ [(d.content, d.final && !d.eofSend)]) ++ d.vec.take 0 = inp
  rw [Log.bytes_append]
  unfold Dev.content
  simp [hi]

/-- what an operation may do to the log: nothing, or one more entry carrying the current eof flag -/
def LogStep (d d' : Dev) (k k' : Log) : Prop :=
  d'.final = d.final ∧ ((k' = k ∧ d'.eofSend = d.eofSend) ∨ (∃ bs, k' = k ++ [(bs, eofFlag d)] ∧ d'.eofSend = eofFlag d))

theorem Dev.basicSetbuf_inv (d : Dev) (k : Log) (inp : Bytes) (size : Nat) (h : d.Inv k inp) :
    (d.basicSetbuf logIf k size).1.Inv (d.basicSetbuf logIf k size).2 inp ∧ LogStep d (d.basicSetbuf logIf k size).1 k (d.basicSetbuf logIf k size).2 := by
  have h' := h
  obtain ⟨hd, hr, hp, hi⟩ := h
  unfold Dev.basicSetbuf
  simp only
  by_cases hgt : d.pos > size
  · simp only [hgt, if_true]
    have hinv0 : ({ d with bufferSize := size } : Dev).Inv k inp := ⟨hd, hr, hp, hi⟩
    have ⟨f1, f2, f3, f4, f5, f6, _⟩ := Dev.flush_inv { d with bufferSize := size } k inp hinv0
    simp only [f4, if_true]
    refine ⟨?_, f5, Or.inr ⟨_, f3, f6⟩⟩
    obtain ⟨g1, g2, g3, g4⟩ := f1
    refine ⟨g1, g2, Nat.zero_le _, ?_⟩
    rw [f2] at g4
    show Log.bytes _ ++ (resize _ _).take 0 = inp
    simpa using g4
  · simp only [hgt, if_false]
    refine ⟨⟨hd, hr, ?_, ?_⟩, (by rt), Or.inl ⟨(by rt), (by rt)⟩⟩
    · show d.pos ≤ (resize d.vec size).length
      rw [resize_length]; omega
    · show Log.bytes k ++ (resize d.vec size).take d.pos = inp
      rw [resize_take _ _ _ hp (by omega)]; exact hi

theorem Dev.setbuf_inv (d : Dev) (k : Log) (inp : Bytes) (size : Nat) (h : d.Inv k inp) :
    (d.setbuf logIf k size).1.Inv (d.setbuf logIf k size).2 inp ∧ LogStep d (d.setbuf logIf k size).1 k (d.setbuf logIf k size).2 := by
  unfold Dev.setbuf
  by_cases hm : (d.isAsync && d.fullBuffering) = true
  · simp only [hm, if_true]
    obtain ⟨hd, hr, hp, hi⟩ := h
    refine ⟨⟨hd, hr, ?_, ?_⟩, (by rt), Or.inl ⟨(by rt), (by rt)⟩⟩
    · show d.pos ≤ (resize d.vec (if d.pos > size then d.pos else size)).length
      rw [resize_length]; split <;> omega
    · show Log.bytes k ++ (resize d.vec (if d.pos > size then d.pos else size)).take d.pos = inp
      rw [resize_take _ _ _ hp (by split <;> omega)]; exact hi
  · simp only [hm, Bool.false_eq_true, if_false]
    exact Dev.basicSetbuf_inv d k inp size h

theorem Dev.overflow_inv (d : Dev) (k : Log) (inp : Bytes) (c : Option UInt8) (h : d.Inv k inp) :
    (d.overflow logIf k c).1.Inv (d.overflow logIf k c).2 (inp ++ c.toList) ∧ LogStep d (d.overflow logIf k c).1 k (d.overflow logIf k c).2 := by
  unfold Dev.overflow
  by_cases hm : (d.isAsync && d.fullBuffering) = true
  · simp only [hm, if_true]
    have h' := h
    obtain ⟨hd, hr, hp, hi⟩ := h
    -- after the optional growth there is room for one byte
    have hg : ∃ d1 : Dev, (if d.pos = d.vec.length then { d with vec := resize d.vec (Gen.nextSize d.vec.length) } else d) = d1 ∧
        d1.Inv k inp ∧ d1.pos < d1.vec.length ∧ d1.final = d.final ∧ d1.eofSend = d.eofSend := by
      by_cases hf : d.pos = d.vec.length
      · refine ⟨_, (by rt), ?_⟩
        rw [if_pos hf]
        have hn := nextSize_gt d.vec.length
        refine ⟨⟨hd, hr, ?_, ?_⟩, ?_, (by rt), (by rt)⟩
        · show d.pos ≤ (resize d.vec (Gen.nextSize d.vec.length)).length
          rw [resize_length]; omega
        · show Log.bytes k ++ (resize d.vec (Gen.nextSize d.vec.length)).take d.pos = inp
          rw [resize_take _ _ _ hp (by omega)]; exact hi
        · show d.pos < (resize d.vec (Gen.nextSize d.vec.length)).length
          rw [resize_length]; omega
      · refine ⟨d, by simp [hf], h', by omega, (by rt), (by rt)⟩
    obtain ⟨d1, hd1, hinv1, hroom, hf1, he1⟩ := hg
    rw [hd1]
    cases c with
    | none =>
      simp only [Option.toList_none, List.append_nil]
      exact ⟨hinv1, hf1, Or.inl ⟨(by rt), he1⟩⟩
    | some c =>
      simp only [Option.toList_some]
      have := Dev.pokeBlock_inv d1 k inp [c] hinv1 (by simp only [List.length_cons, List.length_nil]; omega)
      exact ⟨this, hf1, Or.inl ⟨(by rt), he1⟩⟩
  · simp only [hm, Bool.false_eq_true, if_false]
    have ⟨a, bq, c1, c2⟩ := Dev.basicOverflow_inv d k inp c h
    exact ⟨a, c1, Or.inr ⟨_, bq, c2⟩⟩

theorem Dev.xsputn_inv (d : Dev) (k : Log) (inp s : Bytes) (h : d.Inv k inp) :
    (d.xsputn logIf k s).1.Inv (d.xsputn logIf k s).2 (inp ++ s) ∧ LogStep d (d.xsputn logIf k s).1 k (d.xsputn logIf k s).2 := by
  unfold Dev.xsputn
  by_cases hm : (d.isAsync && d.fullBuffering) = true
  · simp only [hm, if_true]
    have h' := h
    obtain ⟨hd, hr, hp, hi⟩ := h
    have hg : ∃ d1 : Dev, (if d.vec.length - d.pos < s.length then
          { d with vec := resize d.vec (growTo (d.pos + s.length + 1) (Gen.nextSize d.vec.length) (d.pos + s.length)) } else d) = d1 ∧
        d1.Inv k inp ∧ d1.pos + s.length ≤ d1.vec.length ∧ d1.final = d.final ∧ d1.eofSend = d.eofSend := by
      by_cases hf : d.vec.length - d.pos < s.length
      · refine ⟨_, (by rt), ?_⟩
        simp only [hf, if_true]
        have hn := nextSize_gt d.vec.length
        have g1 := growTo_ge_start (d.pos + s.length + 1) (Gen.nextSize d.vec.length) (d.pos + s.length)
        have g2 := growTo_ge_min (d.pos + s.length + 1) (Gen.nextSize d.vec.length) (d.pos + s.length) (by omega) (by omega)
        refine ⟨⟨hd, hr, ?_, ?_⟩, ?_, (by rt), (by rt)⟩
        · show d.pos ≤ (resize d.vec _).length
          rw [resize_length]; omega
        · show Log.bytes k ++ (resize d.vec _).take d.pos = inp
          rw [resize_take _ _ _ hp (by omega)]; exact hi
        · show d.pos + s.length ≤ (resize d.vec _).length
          rw [resize_length]; exact g2
      · refine ⟨d, by simp [hf], h', by omega, (by rt), (by rt)⟩
    obtain ⟨d1, hd1, hinv1, hroom, hf1, he1⟩ := hg
    rw [hd1]
    by_cases he : s.isEmpty = true
    · have : s = [] := by simpa [List.isEmpty_iff] using he
      subst this
      simp only [List.isEmpty_nil, if_true, List.append_nil]
      exact ⟨hinv1, hf1, Or.inl ⟨(by rt), he1⟩⟩
    · simp only [he, Bool.false_eq_true, if_false]
      exact ⟨Dev.pokeBlock_inv d1 k inp s hinv1 hroom, hf1, Or.inl ⟨(by rt), he1⟩⟩
  · simp only [hm, Bool.false_eq_true, if_false]
    have ⟨a, bq, c⟩ := Dev.basicXsputn_inv d k inp s h
    refine ⟨a, bq, ?_⟩
    cases c with
    | inl c => exact Or.inl c
    | inr c => exact Or.inr ⟨_, c.1, c.2⟩

theorem Dev.sputc_inv (d : Dev) (k : Log) (inp : Bytes) (c : UInt8) (h : d.Inv k inp) :
    (d.sputc logIf k c).1.Inv (d.sputc logIf k c).2 (inp ++ [c]) ∧ LogStep d (d.sputc logIf k c).1 k (d.sputc logIf k c).2 := by
  unfold Dev.sputc
  by_cases hr : d.pos < d.vec.length
  · simp only [hr, if_true]
    have := Dev.pokeBlock_inv d k inp [c] h (by simp only [List.length_cons, List.length_nil]; omega)
    exact ⟨this, (by rt), Or.inl ⟨(by rt), (by rt)⟩⟩
  · simp only [hr, if_false]
    have := Dev.overflow_inv d k inp (some c) h
    simpa using this

theorem Dev.sync_inv (d : Dev) (k : Log) (inp : Bytes) (h : d.Inv k inp) :
    (d.sync logIf k).1.Inv (d.sync logIf k).2 inp ∧ LogStep d (d.sync logIf k).1 k (d.sync logIf k).2 := by
  have := Dev.overflow_inv d k inp none h
  simpa [Dev.sync] using this

theorem Dev.setFullBuffering_inv (d : Dev) (k : Log) (inp : Bytes) (v : Bool) (h : d.Inv k inp) :
    (d.setFullBuffering logIf k v).1.Inv (d.setFullBuffering logIf k v).2 inp ∧
    LogStep d (d.setFullBuffering logIf k v).1 k (d.setFullBuffering logIf k v).2 := by
  unfold Dev.setFullBuffering
  by_cases he : d.fullBuffering = v
  · simp only [he, if_true]
    exact ⟨h, (by rt), Or.inl ⟨(by rt), (by rt)⟩⟩
  · simp only [he, if_false]
    have h1 : ({ d with fullBuffering := v } : Dev).Inv k inp := h
    cases v with
    | true => simp only [Bool.not_true, Bool.false_eq_true, if_false]; exact ⟨h1, (by rt), Or.inl ⟨(by rt), (by rt)⟩⟩
    | false =>
      simp only [Bool.not_false, if_true]
      exact Dev.setbuf_inv _ k inp _ h1

end Cppcms.C03

namespace Cppcms.C03
open Cppcms

/-! ### traces of device operations -/

/-- what the layers above (or the application, through `std::ostream` and `response`) can do to a device -/
inductive DevOp where
  | put (s : Bytes)        -- sputn
  | putc (c : UInt8)       -- sputc
  | sync                   -- pubsync (ostream::flush)
  | flush                  -- response::flush_async_chunk
  | setbuf (n : Nat)       -- response::setbuf
  | fullBuf (v : Bool)     -- response::full_asynchronous_buffering
  deriving Repr, DecidableEq, Inhabited

def DevOp.data : DevOp → Bytes
  | .put s => s
  | .putc c => [c]
  | _ => []

def Dev.step (x : Dev × Log) : DevOp → Dev × Log
  | .put s => x.1.xsputn logIf x.2 s
  | .putc c => x.1.sputc logIf x.2 c
  | .sync => x.1.sync logIf x.2
  | .flush => let r := x.1.flush logIf x.2; (r.1, r.2.1)
  | .setbuf n => x.1.setbuf logIf x.2 n
  | .fullBuf v => x.1.setFullBuffering logIf x.2 v

def Dev.run (x : Dev × Log) (ops : List DevOp) : Dev × Log := ops.foldl Dev.step x

/-- no eof has been announced yet -/
def Quiet (d : Dev) (k : Log) : Prop := d.final = false ∧ d.eofSend = false ∧ Log.eofs k = 0

theorem Quiet.step {d d' : Dev} {k k' : Log} (q : Quiet d k) (h : LogStep d d' k k') : Quiet d' k' := by
  obtain ⟨q1, q2, q3⟩ := q
  obtain ⟨h1, h2⟩ := h
  have hf : eofFlag d = false := by simp [eofFlag, q1]
  rcases h2 with ⟨hk, he⟩ | ⟨bs, hk, he⟩
  · exact ⟨by rw [h1, q1], by rw [he, q2], by rw [hk, q3]⟩
  · refine ⟨by rw [h1, q1], by rw [he, hf], ?_⟩
    rw [hk, Log.eofs_append, hf, q3]; rfl

theorem Dev.step_inv (d : Dev) (k : Log) (inp : Bytes) (op : DevOp) (h : d.Inv k inp) (q : Quiet d k) :
    (Dev.step (d, k) op).1.Inv (Dev.step (d, k) op).2 (inp ++ op.data) ∧ Quiet (Dev.step (d, k) op).1 (Dev.step (d, k) op).2 := by
  cases op with
  | put s => have := Dev.xsputn_inv d k inp s h; exact ⟨this.1, q.step this.2⟩
  | putc c => have := Dev.sputc_inv d k inp c h; exact ⟨this.1, q.step this.2⟩
  | sync =>
    have := Dev.sync_inv d k inp h
    simp only [DevOp.data, List.append_nil]
    exact ⟨this.1, q.step this.2⟩
  | flush =>
    have ⟨f1, f2, f3, f4, f5, f6, _⟩ := Dev.flush_inv d k inp h
    simp only [DevOp.data, List.append_nil, Dev.step]
    exact ⟨f1, q.step ⟨f5, Or.inr ⟨_, f3, f6⟩⟩⟩
  | setbuf n =>
    have := Dev.setbuf_inv d k inp n h
    simp only [DevOp.data, List.append_nil]
    exact ⟨this.1, q.step this.2⟩
  | fullBuf v =>
    have := Dev.setFullBuffering_inv d k inp v h
    simp only [DevOp.data, List.append_nil]
    exact ⟨this.1, q.step this.2⟩

theorem Dev.run_inv : ∀ (ops : List DevOp) (d : Dev) (k : Log) (inp : Bytes), d.Inv k inp → Quiet d k →
    (Dev.run (d, k) ops).1.Inv (Dev.run (d, k) ops).2 (inp ++ (ops.map DevOp.data).flatten) ∧
    Quiet (Dev.run (d, k) ops).1 (Dev.run (d, k) ops).2 := by
  intro ops
  induction ops with
  | nil => intro d k inp h q; simpa [Dev.run] using ⟨h, q⟩
  | cons op ops ih =>
    intro d k inp h q
    have ⟨h1, q1⟩ := Dev.step_inv d k inp op h q
    have := ih _ _ _ h1 q1
    simp only [Dev.run, List.foldl_cons, List.map_cons, List.flatten_cons] at *
    rw [← List.append_assoc]
    exact this

theorem Dev.open_inv (isAsync full : Bool) (n : Nat) :
    (({ isAsync := isAsync, fullBuffering := full } : Dev).open n).Inv [] [] ∧
    Quiet (({ isAsync := isAsync, fullBuffering := full } : Dev).open n) [] := by
  refine ⟨⟨rfl, rfl, Nat.zero_le _, ?_⟩, rfl, rfl, rfl⟩
  simp [Log.bytes, Dev.open, Dev.doSetp]

/-- `close()` in a quiet state: the buffer is flushed with the eof mark, exactly once -/
theorem Dev.close_spec (d : Dev) (k : Log) (inp : Bytes) (h : d.Inv k inp) (q : Quiet d k) :
    Log.bytes (d.close logIf k).2 = inp ∧ (d.close logIf k).1.content = [] ∧ Log.eofs (d.close logIf k).2 = 1 ∧
    (d.close logIf k).2.getLast? = some (d.content, true) ∧
    (d.close logIf k).1.Inv (d.close logIf k).2 inp ∧ (d.close logIf k).1.final = true ∧ (d.close logIf k).1.eofSend = true := by
  obtain ⟨q1, q2, q3⟩ := q
  unfold Dev.close
  rw [if_neg (by rw [q2]; exact Bool.false_ne_true)]
  show Log.bytes ({ d with final := true }.flush logIf k).2.1 = inp ∧ ({ d with final := true }.flush logIf k).1.content = [] ∧
    Log.eofs ({ d with final := true }.flush logIf k).2.1 = 1 ∧ ({ d with final := true }.flush logIf k).2.1.getLast? = some (d.content, true) ∧
    ({ d with final := true }.flush logIf k).1.Inv ({ d with final := true }.flush logIf k).2.1 inp ∧
    ({ d with final := true }.flush logIf k).1.final = true ∧ ({ d with final := true }.flush logIf k).1.eofSend = true
  have hinv : ({ d with final := true } : Dev).Inv k inp := h
  have ⟨f1, f2, f3, f4, f5, f6, _⟩ := Dev.flush_inv { d with final := true } k inp hinv
  have hflag : eofFlag { d with final := true } = true := by simp [eofFlag, q2]
  have hcont : ({ d with final := true } : Dev).content = d.content := rfl
  rw [hflag, hcont] at f3
  refine ⟨?_, ?_, ?_, ?_, f1, f5, by rw [f6, hflag]⟩
  · have := f1.2.2.2
    rw [f2] at this
    simpa using this
  · unfold Dev.content; rw [f2]; simp
  · rw [f3, Log.eofs_append, q3]; rfl
  · rw [f3]; simp

/-- the `flush_async_chunk` that `async_write_response` issues after `finalize()` adds no second eof -/
theorem Dev.flush_after_close (d : Dev) (k : Log) (inp : Bytes) (h : d.Inv k inp) (hf : d.final = true) (he : d.eofSend = true) :
    Log.bytes (d.flush logIf k).2.1 = Log.bytes k ++ d.content ∧ Log.eofs (d.flush logIf k).2.1 = Log.eofs k := by
  have ⟨f1, f2, f3, _⟩ := Dev.flush_inv d k inp h
  have hflag : eofFlag d = false := by simp [eofFlag, hf, he]
  rw [f3, hflag, Log.bytes_append, Log.eofs_append]
  simp

end Cppcms.C03

namespace Cppcms.C03
open Cppcms

/-! ### traces on the upper layers -/

/-- what reaches a filter layer from above: `sputn`, `sputc`, `pubsync` -/
inductive BufOp where
  | put (s : Bytes) | putc (c : UInt8) | sync
  deriving Repr, DecidableEq, Inhabited

def BufOp.data : BufOp → Bytes
  | .put s => s
  | .putc c => [c]
  | .sync => []

def Copy.step (x : Copy × List Act) : BufOp → Copy × List Act
  | .put s => let r := x.1.xsputn s; (r.1, x.2 ++ r.2)
  | .putc c => let r := x.1.sputc c; (r.1, x.2 ++ r.2)
  | .sync => let r := x.1.sync; (r.1, x.2 ++ r.2)

def Copy.run (x : Copy × List Act) (ops : List BufOp) : Copy × List Act := ops.foldl Copy.step x

theorem Copy.run_inv : ∀ (ops : List BufOp) (k : Copy) (acts : List Act) (inp : Bytes), k.Inv inp (actBytes acts) →
    (Copy.run (k, acts) ops).1.Inv (inp ++ (ops.map BufOp.data).flatten) (actBytes (Copy.run (k, acts) ops).2) := by
  intro ops
  induction ops with
  | nil => intro k acts inp h; simpa [Copy.run] using h
  | cons op ops ih =>
    intro k acts inp h
    have h1 : (Copy.step (k, acts) op).1.Inv (inp ++ op.data) (actBytes (Copy.step (k, acts) op).2) := by
      cases op with
      | put s => simp only [Copy.step, actBytes_append, BufOp.data]; exact Copy.xsputn_inv k inp _ s h
      | putc c => simp only [Copy.step, actBytes_append, BufOp.data]; exact Copy.sputc_inv k inp _ c h
      | sync => simp only [Copy.step, actBytes_append, BufOp.data, List.append_nil]; exact (Copy.sync_inv k inp _ h).1
    have := ih _ _ _ h1
    simp only [Copy.run, List.foldl_cons, List.map_cons, List.flatten_cons] at *
    rw [← List.append_assoc]
    exact this

def Gz.step {D : Deflater} (x : Gz D × List Act) : BufOp → Gz D × List Act
  | .put s => let r := x.1.xsputn s; (r.1, x.2 ++ r.2)
  | .putc c => let r := x.1.sputc c; (r.1, x.2 ++ r.2)
  | .sync => let r := x.1.sync; (r.1, x.2 ++ r.2)

def Gz.run {D : Deflater} (x : Gz D × List Act) (ops : List BufOp) : Gz D × List Act := ops.foldl Gz.step x

theorem Gz.run_inv {D : Deflater} : ∀ (ops : List BufOp) (g : Gz D) (acts : List Act) (inp : Bytes), g.Inv inp (actBytes acts) →
    (Gz.run (g, acts) ops).1.Inv (inp ++ (ops.map BufOp.data).flatten) (actBytes (Gz.run (g, acts) ops).2) := by
  intro ops
  induction ops with
  | nil => intro g acts inp h; simpa [Gz.run] using h
  | cons op ops ih =>
    intro g acts inp h
    have h1 : (Gz.step (g, acts) op).1.Inv (inp ++ op.data) (actBytes (Gz.step (g, acts) op).2) := by
      cases op with
      | put s => simp only [Gz.step, actBytes_append, BufOp.data]; exact Gz.xsputn_inv g inp _ s h
      | putc c => simp only [Gz.step, actBytes_append, BufOp.data]; exact Gz.sputc_inv g inp _ c h
      | sync => simp only [Gz.step, actBytes_append, BufOp.data, List.append_nil]; exact (Gz.sync_inv g inp _ h).1
    have := ih _ _ _ h1
    simp only [Gz.run, List.foldl_cons, List.map_cons, List.flatten_cons] at *
    rw [← List.append_assoc]
    exact this

end Cppcms.C03
