import Cppcms.C03.Buffers
/-! Lemmas about the stream-buffer models: vectors, `copy_buf`, `gzip_buf`, the devices. -/
namespace Cppcms.C03
open Cppcms

/-- closes goals that are `a = a` or have been simplified to `True` -/
macro "rt" : tactic => `(tactic| first | rfl | trivial)

/-! ### vectors -/

theorem resize_length (v : Bytes) (n : Nat) : (resize v n).length = n := by
  unfold resize
  simp only [List.length_append, List.length_take, List.length_replicate]
  omega

theorem resize_take (v : Bytes) (n k : Nat) (hk : k ≤ v.length) (hn : k ≤ n) : (resize v n).take k = v.take k := by
  unfold resize
  rw [List.take_append_of_le_length (by simp only [List.length_take]; omega)]
  rw [List.take_take]
  congr 1
  omega

theorem poke_length (v : Bytes) (pos : Nat) (s : Bytes) (h : pos + s.length ≤ v.length) : (poke v pos s).length = v.length := by
  unfold poke
  simp only [List.length_append, List.length_take, List.length_drop]
  omega

theorem poke_take (v : Bytes) (pos : Nat) (s : Bytes) (h : pos + s.length ≤ v.length) :
    (poke v pos s).take (pos + s.length) = v.take pos ++ s := by
  unfold poke
  have hl : (v.take pos ++ s).length = pos + s.length := by
    simp only [List.length_append, List.length_take]; omega
  exact List.take_left' hl

theorem poke_take_le (v : Bytes) (pos : Nat) (s : Bytes) (k : Nat) (hk : k ≤ pos) (h : pos ≤ v.length) :
    (poke v pos s).take k = v.take k := by
  unfold poke
  rw [List.append_assoc, List.take_append_of_le_length (by simp only [List.length_take]; omega), List.take_take]
  congr 1
  omega

theorem poke_nil (v : Bytes) (pos : Nat) : poke v pos [] = v := by
  unfold poke; simp

theorem take_drop_take (v : Bytes) (a c : Nat) (h : a ≤ c) : v.take a ++ (v.drop a).take (c - a) = v.take c := by
  have : v.take c = (v.take c).take a ++ (v.take c).drop a := (List.take_append_drop a _).symm
  rw [this, List.take_take, List.drop_take]
  congr 2
  omega

theorem actBytes_append (a c : List Act) : actBytes (a ++ c) = actBytes a ++ actBytes c := by
  simp [actBytes]

theorem actBytes_nil : actBytes [] = [] := rfl

/-! ### copy_buf -/

/-- invariant of `copy_buf` relative to everything written into it (`inp`) and everything it has
passed on to the next buffer (`teed`) -/
def Copy.Inv (k : Copy) (inp teed : Bytes) : Prop :=
  k.attached = true ∧
  ((k.started = true ∧ k.base ≤ k.pos ∧ k.pos ≤ k.vec.length ∧ 0 < k.vec.length ∧ k.vec.take k.pos = inp ∧ teed = k.vec.take k.base) ∨
   (k.started = false ∧ k.vec = [] ∧ inp = [] ∧ teed = []))

theorem Copy.inv_init : ({} : Copy).Inv [] [] := by
  simp [Copy.Inv]

/-- the put area is usable: started, room for at least one byte -/
def Copy.Ready (k : Copy) (inp teed : Bytes) : Prop :=
  k.attached = true ∧ k.started = true ∧ k.base ≤ k.pos ∧ k.pos < k.vec.length ∧ k.vec.take k.pos = inp ∧ teed = k.vec.take k.base

theorem Copy.Ready.inv {k : Copy} {inp teed : Bytes} (h : k.Ready inp teed) : k.Inv inp teed :=
  ⟨h.1, Or.inl ⟨h.2.1, h.2.2.1, Nat.le_of_lt h.2.2.2.1, by have := h.2.2.2.1; omega, h.2.2.2.2.1, h.2.2.2.2.2⟩⟩

theorem Copy.teeActs_bytes (k : Copy) (inp teed : Bytes) (h : k.Inv inp teed) : teed ++ actBytes k.teeActs = inp := by
  obtain ⟨hatt, h⟩ := h
  unfold Copy.teeActs
  rcases h with ⟨hs, hbp, hpl, hlen, hinp, hteed⟩ | ⟨hs, hv, hinp, hteed⟩
  · by_cases hb : k.base = k.pos
    · simp [hb, actBytes, hteed, ← hinp]
    · have : (k.base != k.pos) = true := by simpa using hb
      simp only [hatt, this, Bool.and_self, if_true, actBytes, List.map_cons, List.map_nil, Act.bytes, List.flatten_cons,
        List.flatten_nil, List.append_nil, hteed, ← hinp]
      exact take_drop_take _ _ _ hbp
  · subst hinp hteed
    simp only [hv, List.drop_nil, List.take_nil, List.nil_append]
    split <;> simp [actBytes, Act.bytes]

/-- after `reposition` everything written so far has been passed on and there is room for one more byte -/
theorem Copy.reposition_ready (k : Copy) (inp teed : Bytes) (h : k.Inv inp teed) :
    k.reposition.Ready inp inp ∧ k.reposition.base = k.reposition.pos := by
  obtain ⟨hatt, h⟩ := h
  unfold Copy.reposition
  rcases h with ⟨hs, hbp, hpl, hlen, hinp, hteed⟩ | ⟨hs, hv, hinp, hteed⟩
  · simp only [hs, Bool.not_true, Bool.false_eq_true, if_false]
    by_cases hfull : k.pos = k.vec.length
    · simp only [hfull, if_true]
      have hr : (resize k.vec (k.vec.length * 2)).length = k.vec.length * 2 := resize_length _ _
      have hrt : (resize k.vec (k.vec.length * 2)).take k.vec.length = k.vec := by
        rw [resize_take _ _ _ (Nat.le_refl _) (by omega), List.take_length]
      have hi : k.vec = inp := by rw [← hinp, hfull, List.take_length]
      refine ⟨⟨hatt, rfl, Nat.le_refl _, ?_, ?_, ?_⟩, trivial⟩
      · show k.vec.length < (resize k.vec (k.vec.length * 2)).length
        rw [hr]; omega
      · show (resize k.vec (k.vec.length * 2)).take k.vec.length = inp
        rw [hrt, hi]
      · show inp = (resize k.vec (k.vec.length * 2)).take k.vec.length
        rw [hrt, hi]
    · simp only [hfull, if_false]
      exact ⟨⟨hatt, rfl, Nat.le_refl _, by show k.pos < k.vec.length; omega, hinp, hinp.symm⟩, trivial⟩
  · subst hinp hteed
    simp only [hs, hv, Bool.not_false, if_true, List.isEmpty_nil]
    have hinit : (resize ([] : Bytes) Gen.copyBufInitial).length = Gen.copyBufInitial := resize_length _ _
    have hpos : 0 < Gen.copyBufInitial := by decide
    refine ⟨⟨hatt, rfl, Nat.le_refl _, ?_, ?_, ?_⟩, by simp⟩
    · show 0 < (resize ([] : Bytes) Gen.copyBufInitial).length
      rw [hinit]; exact hpos
    · simp
    · simp

theorem Copy.store_ready (k : Copy) (inp teed : Bytes) (c : UInt8) (h : k.Ready inp teed) :
    (k.store c).Inv (inp ++ [c]) teed := by
  obtain ⟨hatt, hs, hbp, hpl, hinp, hteed⟩ := h
  have hp : k.pos + [c].length ≤ k.vec.length := by simp only [List.length_cons, List.length_nil]; omega
  have hlen := poke_length k.vec k.pos [c] hp
  have htake := poke_take k.vec k.pos [c] hp
  simp only [List.length_cons, List.length_nil] at htake
  refine ⟨hatt, Or.inl ⟨hs, ?_, ?_, ?_, ?_, ?_⟩⟩
  · show k.base ≤ k.pos + 1; omega
  · show k.pos + 1 ≤ (poke k.vec k.pos [c]).length; rw [hlen]; omega
  · show 0 < (poke k.vec k.pos [c]).length; rw [hlen]; omega
  · show (poke k.vec k.pos [c]).take (k.pos + 1) = inp ++ [c]; rw [htake, hinp]
  · show teed = (poke k.vec k.pos [c]).take k.base
    rw [poke_take_le _ _ _ _ hbp (by omega)]; exact hteed

theorem Copy.overflow_inv (k : Copy) (inp teed : Bytes) (c : Option UInt8) (h : k.Inv inp teed) :
    (k.overflow c).1.Inv (inp ++ c.toList) (teed ++ actBytes (k.overflow c).2) ∧
    (c = none → (k.overflow c).1.base = (k.overflow c).1.pos) := by
  have ht := Copy.teeActs_bytes k inp teed h
  have ⟨hr, hbp⟩ := Copy.reposition_ready k inp teed h
  cases c with
  | none =>
    simp only [Copy.overflow, Option.toList_none, List.append_nil, ht]
    exact ⟨hr.inv, fun _ => hbp⟩
  | some c =>
    simp only [Copy.overflow, Option.toList_some, ht]
    exact ⟨Copy.store_ready _ _ _ c hr, fun h => by cases h⟩

theorem Copy.sputc_inv (k : Copy) (inp teed : Bytes) (c : UInt8) (h : k.Inv inp teed) :
    (k.sputc c).1.Inv (inp ++ [c]) (teed ++ actBytes (k.sputc c).2) := by
  unfold Copy.sputc
  by_cases hc : (k.started && decide (k.pos < k.vec.length)) = true
  · simp only [hc, if_true, actBytes_nil, List.append_nil]
    simp only [Bool.and_eq_true, decide_eq_true_eq] at hc
    obtain ⟨hatt, h⟩ := h
    rcases h with ⟨hs, hbp, hpl, hlen, hinp, hteed⟩ | ⟨hs, _⟩
    · exact Copy.store_ready _ _ _ c ⟨hatt, hs, hbp, hc.2, hinp, hteed⟩
    · rw [hs] at hc; exact absurd hc.1 (by simp)
  · simp only [hc, Bool.false_eq_true, if_false]
    exact (Copy.overflow_inv k inp teed (some c) h).1

/-- storing a block that fits -/
theorem Copy.pokeBlock_inv (k : Copy) (inp teed : Bytes) (s : Bytes) (h : k.Inv inp teed)
    (hfit : s.length ≤ (if k.started then k.vec.length - k.pos else 0)) :
    ({ k with vec := poke k.vec k.pos s, pos := k.pos + s.length } : Copy).Inv (inp ++ s) teed := by
  obtain ⟨hatt, h⟩ := h
  rcases h with ⟨hs, hbp, hpl, hlen, hinp, hteed⟩ | ⟨hs, hv, hinp, hteed⟩
  · simp only [hs, if_true] at hfit
    have hp : k.pos + s.length ≤ k.vec.length := by omega
    refine ⟨hatt, Or.inl ⟨hs, ?_, ?_, ?_, ?_, ?_⟩⟩
    · show k.base ≤ k.pos + s.length; omega
    · show k.pos + s.length ≤ (poke k.vec k.pos s).length; rw [poke_length _ _ _ hp]; omega
    · show 0 < (poke k.vec k.pos s).length; rw [poke_length _ _ _ hp]; omega
    · show (poke k.vec k.pos s).take (k.pos + s.length) = inp ++ s; rw [poke_take _ _ _ hp, hinp]
    · show teed = (poke k.vec k.pos s).take k.base
      rw [poke_take_le _ _ _ _ hbp hpl]; exact hteed
  · simp only [hs, Bool.false_eq_true, if_false, Nat.le_zero, List.length_eq_zero_iff] at hfit
    subst hfit
    refine ⟨hatt, Or.inr ⟨hs, ?_, by simp [hinp], hteed⟩⟩
    show poke k.vec k.pos [] = []
    rw [poke_nil, hv]

theorem Copy.xsputnAux_inv : ∀ (fuel : Nat) (k : Copy) (inp teed s : Bytes), k.Inv inp teed → s.length < fuel →
    (Copy.xsputnAux fuel k s).1.Inv (inp ++ s) (teed ++ actBytes (Copy.xsputnAux fuel k s).2) := by
  intro fuel
  induction fuel with
  | zero => intro k inp teed s _ hf; omega
  | succ f ih =>
    intro k inp teed s h hf
    rw [Copy.xsputnAux]
    simp only
    by_cases hfit : s.length ≤ (if k.started then k.vec.length - k.pos else 0)
    · simp only [hfit, if_true, actBytes_nil, List.append_nil]
      exact Copy.pokeBlock_inv k inp teed s h hfit
    · simp only [hfit, if_false]
      -- fill what fits
      have hk1 : (if (if k.started then k.vec.length - k.pos else 0) = 0 then k
            else { k with vec := poke k.vec k.pos (s.take (if k.started then k.vec.length - k.pos else 0)),
                          pos := k.pos + (if k.started then k.vec.length - k.pos else 0) } : Copy).Inv
          (inp ++ s.take (if k.started then k.vec.length - k.pos else 0)) teed := by
        by_cases hz : (if k.started then k.vec.length - k.pos else 0) = 0
        · simp only [hz, if_true, List.take_zero, List.append_nil]; exact h
        · simp only [hz, if_false]
          have hl : (s.take (if k.started then k.vec.length - k.pos else 0)).length = (if k.started then k.vec.length - k.pos else 0) := by
            simp only [List.length_take]; omega
          have := Copy.pokeBlock_inv k inp teed (s.take (if k.started then k.vec.length - k.pos else 0)) h (by rw [hl]; exact Nat.le_refl _)
          rw [hl] at this
          exact this
      generalize hroom : (if k.started then k.vec.length - k.pos else 0) = room at *
      generalize hk1def : (if room = 0 then k else { k with vec := poke k.vec k.pos (s.take room), pos := k.pos + room } : Copy) = k1 at *
      cases hd : s.drop room with
      | nil =>
        have : s.length ≤ room := by
          have := congrArg List.length hd
          simp only [List.length_drop, List.length_nil] at this; omega
        omega
      | cons c rest =>
        simp only
        have hsplit : s = s.take room ++ c :: rest := by rw [← hd, List.take_append_drop]
        have ho := (Copy.overflow_inv k1 _ teed (some c) hk1).1
        simp only [Option.toList_some] at ho
        have hrl : rest.length < f := by
          have := congrArg List.length hd
          simp only [List.length_drop, List.length_cons] at this
          omega
        have := ih _ _ _ rest ho hrl
        rw [actBytes_append, ← List.append_assoc]
        have e : inp ++ s = inp ++ s.take room ++ [c] ++ rest := by
          conv => lhs; rw [hsplit]
          simp [List.append_assoc]
        rw [e]
        exact this

theorem Copy.xsputn_inv (k : Copy) (inp teed s : Bytes) (h : k.Inv inp teed) :
    (k.xsputn s).1.Inv (inp ++ s) (teed ++ actBytes (k.xsputn s).2) :=
  Copy.xsputnAux_inv (s.length + 1) k inp teed s h (Nat.lt_succ_self _)

theorem Copy.sync_inv (k : Copy) (inp teed : Bytes) (h : k.Inv inp teed) :
    (k.sync).1.Inv inp (teed ++ actBytes (k.sync).2) ∧ teed ++ actBytes (k.sync).2 = inp := by
  have ho := Copy.overflow_inv k inp teed none h
  have ht := Copy.teeActs_bytes k inp teed h
  simp only [Option.toList_none, List.append_nil] at ho
  unfold Copy.sync
  simp only [h.1, if_true, actBytes_append]
  have : actBytes [Act.sync] = [] := rfl
  simp only [this, List.append_nil]
  refine ⟨ho.1, ?_⟩
  simp only [Copy.overflow, ht]

/-- after `close()` the whole input has been passed on, and `getstr` returns exactly it -/
theorem Copy.close_spec (k : Copy) (inp teed : Bytes) (h : k.Inv inp teed) :
    teed ++ actBytes (k.close).2 = inp ∧ (k.close).1.getstr.1 = inp := by
  have ht := Copy.teeActs_bytes k inp teed h
  have ⟨hr, _⟩ := Copy.reposition_ready k inp teed h
  unfold Copy.close
  simp only [Copy.overflow]
  refine ⟨ht, ?_⟩
  unfold Copy.getstr
  simp only [hr.2.1, if_true]
  exact hr.2.2.2.2.1

end Cppcms.C03

namespace Cppcms.C03
open Cppcms

/-! ### gzip_buf -/

theorem piecesAux_flatten (chunk : Nat) : ∀ (fuel : Nat) (t : Bytes), (piecesAux chunk fuel t).flatten = t := by
  intro fuel
  induction fuel with
  | zero => intro t; simp [piecesAux]
  | succ f ih =>
    intro t
    rw [piecesAux]
    split
    · simp
    · simp [ih]

theorem pieces_flatten (chunk : Nat) (t : Bytes) : (pieces chunk t).flatten = t := piecesAux_flatten chunk _ t

theorem actBytes_put_pieces (chunk : Nat) (t : Bytes) : actBytes ((pieces chunk t).map Act.put) = t := by
  unfold actBytes
  rw [List.map_map]
  have : (Act.bytes ∘ Act.put) = id := by funext x; rfl
  rw [this, List.map_id, pieces_flatten]

/-- run the deflater over a list of `do_write` calls: final state and concatenated output -/
def feedAll (D : Deflater) : D.σ → List (Bytes × Flush) → D.σ × Bytes
  | s, [] => (s, [])
  | s, (i, f) :: rest =>
    let r := D.feed s i f
    let r2 := feedAll D r.1 rest
    (r2.1, r.2 ++ r2.2)

theorem feedAll_append (D : Deflater) : ∀ (xs : List (Bytes × Flush)) (s : D.σ) (i : Bytes) (f : Flush),
    feedAll D s (xs ++ [(i, f)]) =
      ((D.feed (feedAll D s xs).1 i f).1, (feedAll D s xs).2 ++ (D.feed (feedAll D s xs).1 i f).2) := by
  intro xs
  induction xs with
  | nil => intro s i f; simp [feedAll]
  | cons x xs ih =>
    intro s i f
    obtain ⟨xi, xf⟩ := x
    simp only [List.cons_append, feedAll, ih, List.append_assoc]

/-- invariant of `gzip_buf` relative to the application bytes written into it (`inp`) and the bytes
it has passed down (`out`) -/
def Gz.Inv {D : Deflater} (g : Gz D) (inp out : Bytes) : Prop :=
  g.opened = true ∧ 0 < g.cap ∧ g.inBuf.length ≤ g.cap ∧
  (g.fed.map (·.1)).flatten ++ g.inBuf = inp ∧
  (∀ c ∈ g.fed, c.2 ≠ Flush.finish) ∧
  feedAll D D.init g.fed = (g.z, out)

theorem Gz.open_inv (D : Deflater) (n : Int) : (Gz.open D n).Inv [] [] := by
  unfold Gz.open Gz.Inv
  have : 0 < Gen.gzipMinBuffer := by decide
  refine ⟨rfl, ?_, by simp, by simp, by simp, by simp [feedAll]⟩
  simp only
  split
  · exact this
  · rename_i h; simp only [Int.not_lt] at h; omega

/-- the effect of one `do_write(pbase(), have, flush)` that is not skipped -/
theorem Gz.doWrite_spec {D : Deflater} (g : Gz D) (inp out : Bytes) (fl : Flush) (h : g.Inv inp out)
    (hns : ¬ (g.inBuf.isEmpty = true ∧ fl = .noFlush)) :
    (g.doWrite g.inBuf fl).1.fed = g.fed ++ [(g.inBuf, fl)] ∧
    (g.doWrite g.inBuf fl).1.opened = true ∧ (g.doWrite g.inBuf fl).1.cap = g.cap ∧ (g.doWrite g.inBuf fl).1.inBuf = g.inBuf ∧
    feedAll D D.init (g.fed ++ [(g.inBuf, fl)]) = ((g.doWrite g.inBuf fl).1.z, out ++ actBytes (g.doWrite g.inBuf fl).2) := by
  obtain ⟨ho, hc, hl, hi, hf, hz⟩ := h
  have hskip : (g.inBuf.isEmpty && fl == .noFlush) = false := by
    cases hh : (g.inBuf.isEmpty && fl == .noFlush) with
    | false => rfl
    | true =>
      simp only [Bool.and_eq_true, beq_iff_eq] at hh
      exact absurd hh hns
  unfold Gz.doWrite
  simp only [ho, Bool.not_true, Bool.false_eq_true, if_false, hskip]
  refine ⟨trivial, trivial, trivial, trivial, ?_⟩
  rw [feedAll_append, hz]
  simp only [actBytes_append, actBytes_put_pieces]
  congr 2
  split <;> simp [actBytes, Act.bytes]

theorem Gz.overflowC_inv {D : Deflater} (g : Gz D) (inp out : Bytes) (c : UInt8) (h : g.Inv inp out) :
    (g.overflowC c).1.Inv (inp ++ [c]) (out ++ actBytes (g.overflowC c).2) := by
  have h' := h
  obtain ⟨ho, hc, hl, hi, hf, hz⟩ := h
  unfold Gz.overflowC
  simp only [ho, Bool.not_true, Bool.false_eq_true, if_false]
  by_cases he : g.inBuf.isEmpty = true
  · simp only [he, if_true, actBytes_nil, List.append_nil]
    have he' : g.inBuf = [] := by simpa [List.isEmpty_iff] using he
    refine ⟨ho, hc, by simp; omega, ?_, hf, hz⟩
    simp only [← hi, he', List.append_nil]
  · simp only [he, Bool.false_eq_true, if_false]
    have ⟨s1, s2, s3, s4, s5⟩ := Gz.doWrite_spec g inp out .noFlush h' (by simp [he])
    refine ⟨s2, by rw [s3]; exact hc, by simp; rw [s3]; omega, ?_, ?_, ?_⟩
    · simp only [s1, List.map_append, List.map_cons, List.map_nil, List.flatten_append, List.flatten_cons, List.flatten_nil,
        List.append_nil]
      rw [hi]
    · intro x hx
      simp only [s1, List.mem_append, List.mem_singleton] at hx
      cases hx with
      | inl hx => exact hf x hx
      | inr hx => subst hx; simp
    · simp only [s1]; exact s5

theorem Gz.sputc_inv {D : Deflater} (g : Gz D) (inp out : Bytes) (c : UInt8) (h : g.Inv inp out) :
    (g.sputc c).1.Inv (inp ++ [c]) (out ++ actBytes (g.sputc c).2) := by
  unfold Gz.sputc
  by_cases hr : g.inBuf.length < g.cap
  · simp only [hr, if_true, actBytes_nil, List.append_nil]
    obtain ⟨ho, hc, hl, hi, hf, hz⟩ := h
    refine ⟨ho, hc, by simp; omega, ?_, hf, hz⟩
    simp only [← hi, List.append_assoc]
  · simp only [hr, if_false]
    exact Gz.overflowC_inv g inp out c h

theorem Gz.appendBuf_inv {D : Deflater} (g : Gz D) (inp out s : Bytes) (h : g.Inv inp out) (hfit : g.inBuf.length + s.length ≤ g.cap) :
    ({ g with inBuf := g.inBuf ++ s } : Gz D).Inv (inp ++ s) out := by
  obtain ⟨ho, hc, hl, hi, hf, hz⟩ := h
  refine ⟨ho, hc, by simp; omega, ?_, hf, hz⟩
  simp only [← hi, List.append_assoc]

theorem Gz.xsputnAux_inv {D : Deflater} : ∀ (fuel : Nat) (g : Gz D) (inp out s : Bytes), g.Inv inp out → s.length < fuel →
    (Gz.xsputnAux fuel g s).1.Inv (inp ++ s) (out ++ actBytes (Gz.xsputnAux fuel g s).2) := by
  intro fuel
  induction fuel with
  | zero => intro g inp out s _ hf; omega
  | succ f ih =>
    intro g inp out s h hf
    rw [Gz.xsputnAux]
    simp only
    by_cases hfit : s.length ≤ g.cap - g.inBuf.length
    · simp only [hfit, if_true, actBytes_nil, List.append_nil]
      exact Gz.appendBuf_inv g inp out s h (by have := h.2.2.1; omega)
    · simp only [hfit, if_false]
      have hl := h.2.2.1
      have htl : (s.take (g.cap - g.inBuf.length)).length = g.cap - g.inBuf.length := by
        simp only [List.length_take]; omega
      have h1 := Gz.appendBuf_inv g inp out (s.take (g.cap - g.inBuf.length)) h (by rw [htl]; omega)
      cases hd : s.drop (g.cap - g.inBuf.length) with
      | nil =>
        have := congrArg List.length hd
        simp only [List.length_drop, List.length_nil] at this; omega
      | cons c rest =>
        simp only
        have hsplit : s = s.take (g.cap - g.inBuf.length) ++ c :: rest := by rw [← hd, List.take_append_drop]
        have ho := Gz.overflowC_inv _ _ out c h1
        have hrl : rest.length < f := by
          have := congrArg List.length hd
          simp only [List.length_drop, List.length_cons] at this
          omega
        have := ih _ _ _ rest ho hrl
        rw [actBytes_append, ← List.append_assoc]
        have e : inp ++ s = inp ++ s.take (g.cap - g.inBuf.length) ++ [c] ++ rest := by
          conv => lhs; rw [hsplit]
          simp [List.append_assoc]
        rw [e]
        exact this

theorem Gz.xsputn_inv {D : Deflater} (g : Gz D) (inp out s : Bytes) (h : g.Inv inp out) :
    (g.xsputn s).1.Inv (inp ++ s) (out ++ actBytes (g.xsputn s).2) := by
  unfold Gz.xsputn
  simp only [h.1, Bool.not_true, Bool.false_eq_true, if_false]
  exact Gz.xsputnAux_inv (s.length + 1) g inp out s h (Nat.lt_succ_self _)

theorem Gz.sync_inv {D : Deflater} (g : Gz D) (inp out : Bytes) (h : g.Inv inp out) :
    (g.sync).1.Inv inp (out ++ actBytes (g.sync).2) ∧ (g.sync).1.inBuf = [] := by
  have ⟨s1, s2, s3, s4, s5⟩ := Gz.doWrite_spec g inp out .syncFlush h (by simp)
  obtain ⟨ho, hc, hl, hi, hf, hz⟩ := h
  unfold Gz.sync
  simp only [ho, if_true]
  refine ⟨⟨s2, by rw [s3]; exact hc, by simp, ?_, ?_, ?_⟩, trivial⟩
  · simp only [s1, List.map_append, List.map_cons, List.map_nil, List.flatten_append, List.flatten_cons, List.flatten_nil,
      List.append_nil]
    exact hi
  · intro x hx
    simp only [s1, List.mem_append, List.mem_singleton] at hx
    cases hx with
    | inl hx => exact hf x hx
    | inr hx => subst hx; simp
  · simp only [s1]; exact s5

/-- `close()`: the rest of the buffer is fed with `Z_FINISH`, exactly once, as the last call -/
theorem Gz.close_spec {D : Deflater} (g : Gz D) (inp out : Bytes) (h : g.Inv inp out) :
    ∃ calls last, (g.close).1.fed = calls ++ [(last, Flush.finish)] ∧ (∀ c ∈ calls, c.2 ≠ Flush.finish) ∧
      ((g.close).1.fed.map (·.1)).flatten = inp ∧
      (feedAll D D.init (g.close).1.fed).2 = out ++ actBytes (g.close).2 ∧
      (g.close).1.opened = false := by
  have ⟨s1, s2, s3, s4, s5⟩ := Gz.doWrite_spec g inp out .finish h (by simp)
  obtain ⟨ho, hc, hl, hi, hf, hz⟩ := h
  refine ⟨g.fed, g.inBuf, ?_, hf, ?_, ?_, ?_⟩
  · unfold Gz.close; simp only [ho, Bool.not_true, Bool.false_eq_true, if_false]; exact s1
  · unfold Gz.close; simp only [ho, Bool.not_true, Bool.false_eq_true, if_false, s1]
    simp only [List.map_append, List.map_cons, List.map_nil, List.flatten_append, List.flatten_cons, List.flatten_nil, List.append_nil]
    exact hi
  · unfold Gz.close; simp only [ho, Bool.not_true, Bool.false_eq_true, if_false, s1]
    rw [s5]
  · unfold Gz.close; simp only [ho, Bool.not_true, Bool.false_eq_true, if_false]

end Cppcms.C03

namespace Cppcms.C03
open Cppcms

/-! ### traces on the upper layers -/

/-- what reaches a filter layer from above: `sputn`, `sputc`, `pubsync` -/
inductive BufOp where
  | put (s : Bytes) | putc (c : UInt8) | sync
  deriving Repr, DecidableEq, Inhabited

def BufOp.data : BufOp → Bytes
  | .put s => s
  | .putc c => [c]
  | .sync => []

def Copy.step (x : Copy × List Act) : BufOp → Copy × List Act
  | .put s => let r := x.1.xsputn s; (r.1, x.2 ++ r.2)
  | .putc c => let r := x.1.sputc c; (r.1, x.2 ++ r.2)
  | .sync => let r := x.1.sync; (r.1, x.2 ++ r.2)

def Copy.run (x : Copy × List Act) (ops : List BufOp) : Copy × List Act := ops.foldl Copy.step x

theorem Copy.run_inv : ∀ (ops : List BufOp) (k : Copy) (acts : List Act) (inp : Bytes), k.Inv inp (actBytes acts) →
    (Copy.run (k, acts) ops).1.Inv (inp ++ (ops.map BufOp.data).flatten) (actBytes (Copy.run (k, acts) ops).2) := by
  intro ops
  induction ops with
  | nil => intro k acts inp h; simpa [Copy.run] using h
  | cons op ops ih =>
    intro k acts inp h
    have h1 : (Copy.step (k, acts) op).1.Inv (inp ++ op.data) (actBytes (Copy.step (k, acts) op).2) := by
      cases op with
      | put s => simp only [Copy.step, actBytes_append, BufOp.data]; exact Copy.xsputn_inv k inp _ s h
      | putc c => simp only [Copy.step, actBytes_append, BufOp.data]; exact Copy.sputc_inv k inp _ c h
      | sync => simp only [Copy.step, actBytes_append, BufOp.data, List.append_nil]; exact (Copy.sync_inv k inp _ h).1
    have := ih _ _ _ h1
    simp only [Copy.run, List.foldl_cons, List.map_cons, List.flatten_cons] at *
    rw [← List.append_assoc]
    exact this

def Gz.step {D : Deflater} (x : Gz D × List Act) : BufOp → Gz D × List Act
  | .put s => let r := x.1.xsputn s; (r.1, x.2 ++ r.2)
  | .putc c => let r := x.1.sputc c; (r.1, x.2 ++ r.2)
  | .sync => let r := x.1.sync; (r.1, x.2 ++ r.2)

def Gz.run {D : Deflater} (x : Gz D × List Act) (ops : List BufOp) : Gz D × List Act := ops.foldl Gz.step x

theorem Gz.run_inv {D : Deflater} : ∀ (ops : List BufOp) (g : Gz D) (acts : List Act) (inp : Bytes), g.Inv inp (actBytes acts) →
    (Gz.run (g, acts) ops).1.Inv (inp ++ (ops.map BufOp.data).flatten) (actBytes (Gz.run (g, acts) ops).2) := by
  intro ops
  induction ops with
  | nil => intro g acts inp h; simpa [Gz.run] using h
  | cons op ops ih =>
    intro g acts inp h
    have h1 : (Gz.step (g, acts) op).1.Inv (inp ++ op.data) (actBytes (Gz.step (g, acts) op).2) := by
      cases op with
      | put s => simp only [Gz.step, actBytes_append, BufOp.data]; exact Gz.xsputn_inv g inp _ s h
      | putc c => simp only [Gz.step, actBytes_append, BufOp.data]; exact Gz.sputc_inv g inp _ c h
      | sync => simp only [Gz.step, actBytes_append, BufOp.data, List.append_nil]; exact (Gz.sync_inv g inp _ h).1
    have := ih _ _ _ h1
    simp only [Gz.run, List.foldl_cons, List.map_cons, List.flatten_cons] at *
    rw [← List.append_assoc]
    exact this

end Cppcms.C03
