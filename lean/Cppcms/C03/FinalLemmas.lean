import Cppcms.C03.Model
import Cppcms.C03.ScriptLemmas
import Cppcms.C03.WireLemmas
import Cppcms.C03.ChainLemmas
/-! Stage 1 ∘ stage 2: the predicted wire image of `runCase`. -/
namespace Cppcms.C03
open Cppcms

variable {D : Deflater}

/-! ### `Framer.run` is the protocol's run function -/

theorem Framer.run_http : ∀ (cs : List (Bytes × Bool)) (f : Framer) (a c : Bool), f.proto = .http a c →
    (f.run cs).2 = httpRun f.http cs := by
  intro cs
  induction cs with
  | nil => intro f a c _; rfl
  | cons x cs ih =>
    intro f a c hp
    obtain ⟨bs, e⟩ := x
    have hfmt : f.format bs e = ({ f with http := (httpFormat f.http bs e).1 }, (httpFormat f.http bs e).2.1, (httpFormat f.http bs e).2.2) := by
      unfold Framer.format; simp only [hp]
    simp only [Framer.run, httpRun, hfmt]
    have := ih { f with http := (httpFormat f.http bs e).1 } a c hp
    rw [Prod.ext_iff] at this
    simp only at this
    rw [this.1, this.2]

theorem Framer.run_fcgi : ∀ (cs : List (Bytes × Bool)) (f : Framer), f.proto = .fcgi →
    (f.run cs).2 = (fcgiRun f.fcgi cs, false) := by
  intro cs
  induction cs with
  | nil => intro f _; rfl
  | cons x cs ih =>
    intro f hp
    obtain ⟨bs, e⟩ := x
    have hfmt : f.format bs e = ({ f with fcgi := (fcgiFormat f.fcgi bs e).1 }, (fcgiFormat f.fcgi bs e).2, false) := by
      unfold Framer.format; simp only [hp]
    simp only [Framer.run, fcgiRun, hfmt]
    have := ih { f with fcgi := (fcgiFormat f.fcgi bs e).1 } hp
    rw [Prod.ext_iff] at this
    simp only at this
    rw [this.1, this.2]; rfl

theorem Framer.run_scgi : ∀ (cs : List (Bytes × Bool)) (f : Framer), f.proto = .scgi →
    (f.run cs).2 = (scgiRun f.scgi (cs.map (·.1)), false) := by
  intro cs
  induction cs with
  | nil => intro f _; rfl
  | cons x cs ih =>
    intro f hp
    obtain ⟨bs, e⟩ := x
    have hfmt : f.format bs e = ({ f with scgi := (scgiFormat f.scgi bs).1 }, (scgiFormat f.scgi bs).2, false) := by
      unfold Framer.format; simp only [hp]
    simp only [Framer.run, scgiRun, hfmt, List.map_cons]
    have := ih { f with scgi := (scgiFormat f.scgi bs).1 } hp
    rw [Prod.ext_iff] at this
    simp only at this
    rw [this.1, this.2]; rfl

/-! ### empty calls after the response has started change nothing -/

theorem Framer.run_state : ∀ (cs : List (Bytes × Bool)) (f : Framer), cs ≠ [] → (f.run cs).2.2 = false →
    (f.run cs).1.started = true ∧ (f.run cs).1.lenOk := by
  intro cs
  induction cs with
  | nil => intro f h; exact absurd rfl h
  | cons x cs ih =>
    intro f _ hv
    obtain ⟨bs, e⟩ := x
    simp only [Framer.run, Bool.or_eq_false_iff] at hv ⊢
    cases cs with
    | nil => simp only [Framer.run]; exact ⟨Framer.format_started f bs e, Framer.format_lenOk f bs e hv.1⟩
    | cons y ys => exact ih _ (by simp) hv.2

theorem Framer.run_empties : ∀ (m : Nat) (f : Framer), f.started = true → f.lenOk →
    f.run (List.replicate m ([], false)) = (f, [], false) := by
  intro m
  induction m with
  | zero => intro f _ _; rfl
  | succ m ih =>
    intro f hs hl
    rw [List.replicate_succ]
    simp only [Framer.run, Framer.format_empty f hs hl, ih f hs hl]
    rfl

theorem Framer.run_trailing (f : Framer) (cs : List (Bytes × Bool)) (m : Nat) (hne : cs ≠ []) (hv : (f.run cs).2.2 = false) :
    (f.run (cs ++ List.replicate m ([], false))).2 = (f.run cs).2 := by
  have ⟨hs, hl⟩ := Framer.run_state cs f hne hv
  rw [Framer.run_append, Framer.run_empties m _ hs hl]
  simp only [List.append_nil, Bool.or_false]

/-! ### the shape of the calls -/

theorem callsOf_ne_nil (ws : List Bytes) (last : Bytes) : callsOf ws last ≠ [] := by
  unfold callsOf; simp

/-- the header set that reaches the connection: what `out()` handed over, or — in the raw modes — what the
device parsed out of the application's own header block -/
def Resp.wireHeaders (r : Resp D) : Headers :=
  match r.sentHeaders with
  | some H => H
  | none => r.dev.raw.h

theorem Done.hdrShape {r : Resp D} {W Z : Bytes} (dn : Done r W Z) (hraw : r.mode.isRaw = true → (rawNext {} W).done = true) :
    HdrShape r.trace r.wireHeaders := by
  by_cases hm : r.mode.isRaw = true
  · obtain ⟨_, h2, h3, h4⟩ := dn.rawHdr hm
    have hok := h4 (hraw hm)
    have hdm : r.dev.rawMode = true := by rw [dn.mode]; exact hm
    have hdone : r.dev.raw.done = true := by
      obtain ⟨fed, _, _, i3, i4, i5⟩ := dn.inv
      -- everything has been fed: bytes = filter Z and filter fed, so the parser state is that of Z = W
      have hfed := i5 hdm
      -- fed ++ content = Z; all bytes of Z have been handed to `write` at close, so fed determines the parser
      -- use: parser after `fed` followed by the rest is the parser after Z, and it is done
      have hZ : (rawNext {} Z).done = true := by rw [h3]; exact hraw hm
      have happ := (consume_append fed {} (r.dev.vec.take r.dev.pos)).1
      rw [i3] at happ
      -- if the parser were not done after `fed`, nothing would have been passed on, but then the eof call…
      by_cases hd : r.dev.raw.done = true
      · exact hd
      · exfalso
        simp only [Bool.not_eq_true] at hd
        have hk := (hok hdm).1 hd
        -- no sends at all contradicts the eof call
        have := dn.eofs
        simp [Trace.eofs, hk.1] at this
    obtain ⟨a, c, hk, ha1, ha2, hc⟩ := (hok hdm).2 hdone
    unfold Resp.wireHeaders
    rw [h2]
    exact ⟨a, c, hk, ha1, ha2, hc⟩
  · simp only [Bool.not_eq_true] at hm
    obtain ⟨H, h1, h2⟩ := dn.hdr hm
    unfold Resp.wireHeaders
    rw [h1]
    exact h2

/-- in the asynchronous modes the context's last act is `async_write_response` -/
theorem complete_trace_async (r : Resp D) (h : r.finalize.mode.isAsync = true) :
    ∃ t' : Trace, r.complete.trace = t' ++ [WEv.asyncFlush] := by
  unfold Resp.complete
  simp only [h, if_true]
  exact ⟨_, rfl⟩

theorem runScript_async (cfg : Config) (cache : PageCache) (mode : Mode) (acceptGzip : Bool) (script : List Op)
    (hwf : wellFormed mode script = true) (ha : mode.isAsync = true) :
    ∃ t' : Trace, (runScript D cfg cache mode acceptGzip script).resp.trace = t' ++ [WEv.asyncFlush] := by
  unfold runScript
  simp only
  have p0 : Phase (Resp.new D cfg mode acceptGzip) := Or.inl (Resp.new_fresh cfg mode acceptGzip)
  have ⟨p1, m1⟩ := fold_spec script ({ resp := Resp.new D cfg mode acceptGzip, cache := cache } : Run D) p0 (fun _ => hwf)
  have ⟨_, _, hm, _⟩ := p1.finalize
  apply complete_trace_async
  rw [hm, m1]; exact ha

theorem FinalCalls.callsOf {l : List (Bytes × Bool)} {body : Bytes} (h : FinalCalls l body) :
    ∃ ws last m, l = callsOf ws last ++ List.replicate m ([], false) ∧ ws.flatten ++ last = body := by
  obtain ⟨ws, last, m, h1, h2⟩ := h
  exact ⟨ws, last, m, h1, h2⟩

/-- **stage 1 ∘ stage 2.**  For every case (protocol, io mode, script within the usage contract, schedule),
configuration and cache content: the response ends `Done` (stage 1), and for any presentation `F` of the
protocol's `format_output` from the state `set_response_headers` left, as long as the announced length (if
any) is respected: the connection is never violated / given up / broken, nothing stays pending, and the bytes
on the wire are `F.run` of the device's calls — which the independent de-framer decodes to one head and exactly
the bytes the device was given. -/
theorem response_wire_generic (cfg : Config) (cache : PageCache) (cs : Case) (hwf : wellFormed cs.mode cs.script = true) :
    ∃ Z, Done (runCaseWith D cfg cache cs).run.resp (runCaseWith D cfg cache cs).run.resp.written Z ∧
      (runCaseWith D cfg cache cs).run.resp.mode = cs.mode ∧
      ∀ (F : Framing),
        (∀ calls, F.run calls = (((Wire.init cs.proto cs.sched).fr.setHeaders (runCaseWith D cfg cache cs).run.resp.wireHeaders).run calls).2) →
        (cs.mode.isRaw = true → (rawNext {} (runCaseWith D cfg cache cs).run.resp.written).done = true) →
        F.lengthOk (filterOf cs.mode.isRaw Z).length →
        (runCaseWith D cfg cache cs).wire.violated = false ∧ (runCaseWith D cfg cache cs).wire.gaveUp = false ∧
        (runCaseWith D cfg cache cs).wire.conn.broken = false ∧ (runCaseWith D cfg cache cs).wire.conn.backlog = [] ∧
        ∃ ws last head, ws.flatten ++ last = filterOf cs.mode.isRaw Z ∧
          (runCaseWith D cfg cache cs).wire.conn.wire = (F.run (callsOf ws last)).1 ∧
          F.deframe (runCaseWith D cfg cache cs).wire.conn.wire = some (head, filterOf cs.mode.isRaw Z) := by
  obtain ⟨Z, dn, hmode⟩ := response_trace_spec (D := D) cfg cache cs.mode cs.gz cs.script hwf
  refine ⟨Z, dn, hmode, ?_⟩
  intro F hF hraw hlen
  generalize hr : (runCaseWith D cfg cache cs).run.resp = r at *
  have hr' : (runScript D cfg cache cs.mode cs.gz cs.script).resp = r := hr
  rw [hr'] at dn hmode
  -- shape of the trace
  have hsh := dn.hdrShape (by rw [hmode]; exact hraw)
  obtain ⟨a, c, ht, ha1, ha2, hc⟩ := hsh
  obtain ⟨ws, last, m, hcalls, hbody⟩ := dn.calls.callsOf
  rw [hmode] at hbody
  -- no overrun
  obtain ⟨head, hnv, hde⟩ := F.roundtrip ws last (by rw [hbody]; exact hlen)
  rw [hF] at hnv
  have htr := Framer.run_trailing ((Wire.init cs.proto cs.sched).fr.setHeaders r.wireHeaders) (callsOf ws last) m (callsOf_ne_nil ws last) hnv
  rw [← hcalls] at htr
  have hnv' : (((Wire.init cs.proto cs.sched).fr.setHeaders r.wireHeaders).run r.trace.sends).2.2 = false := by rw [htr]; exact hnv
  -- replay
  have hwire : (runCaseWith D cfg cache cs).wire = (Wire.init cs.proto cs.sched).replay (!cs.mode.isAsync) r.trace := by
    unfold runCaseWith; simp only; rw [hr']
  rw [hwire]
  have ⟨wi, wc, wp, wf⟩ := replay_spec cs.proto cs.sched (!cs.mode.isAsync) r.trace r.wireHeaders a c ht ha1 ha2 hc hnv'
  -- nothing pending at the end
  have hpend : ((Wire.init cs.proto cs.sched).replay (!cs.mode.isAsync) r.trace).conn.pending = [] := by
    by_cases hasync : cs.mode.isAsync = true
    · obtain ⟨t', ht'⟩ := runScript_async (D := D) cfg cache cs.mode cs.gz cs.script hwf hasync
      rw [hr'] at ht'
      exact wf t' ht'
    · exact wp (by simpa using hasync)
  have hback : ((Wire.init cs.proto cs.sched).replay (!cs.mode.isAsync) r.trace).conn.backlog = [] := by
    unfold Conn.backlog; rw [wi.nofl, hpend]; rfl
  refine ⟨wi.nov, wi.ngu, wi.nb, hback, ws, last, head, hbody, ?_, ?_⟩
  · have hinv := wi.conn
    unfold Conn.Inv at hinv
    rw [hback, List.append_nil, wi.handed, wi.outs, wc, htr, ← hF] at hinv
    exact hinv
  · have hinv := wi.conn
    unfold Conn.Inv at hinv
    rw [hback, List.append_nil, wi.handed, wi.outs, wc, htr, ← hF] at hinv
    rw [hinv, hde, hbody]

end Cppcms.C03
