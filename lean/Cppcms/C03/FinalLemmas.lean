import Cppcms.C03.Model
import Cppcms.C03.ScriptLemmas
import Cppcms.C03.WireLemmas
import Cppcms.C03.ChainLemmas
/-! Stage 1 ∘ stage 2: the predicted wire image of `runCase`. -/
namespace Cppcms.C03
open Cppcms

variable {D : Deflater}

/-! ### `Framer.run` is the protocol's run function -/

theorem Framer.run_http : ∀ (cs : List (Bytes × Bool)) (f : Framer) (a c : Bool), f.proto = .http a c →
    (f.run cs).2 = httpRun f.http cs := by
  intro cs
  induction cs with
  | nil => intro f a c _; rfl
  | cons x cs ih =>
    intro f a c hp
    obtain ⟨bs, e⟩ := x
    have hfmt : f.format bs e = ({ f with http := (httpFormat f.http bs e).1 }, (httpFormat f.http bs e).2.1, (httpFormat f.http bs e).2.2) := by
      unfold Framer.format; simp only [hp]
    simp only [Framer.run, httpRun, hfmt]
    have := ih { f with http := (httpFormat f.http bs e).1 } a c hp
    rw [Prod.ext_iff] at this
    simp only at this
    rw [this.1, this.2]

theorem Framer.run_fcgi : ∀ (cs : List (Bytes × Bool)) (f : Framer), f.proto = .fcgi →
    (f.run cs).2 = (fcgiRun f.fcgi cs, false) := by
  intro cs
  induction cs with
  | nil => intro f _; rfl
  | cons x cs ih =>
    intro f hp
    obtain ⟨bs, e⟩ := x
    have hfmt : f.format bs e = ({ f with fcgi := (fcgiFormat f.fcgi bs e).1 }, (fcgiFormat f.fcgi bs e).2, false) := by
      unfold Framer.format; simp only [hp]
    simp only [Framer.run, fcgiRun, hfmt]
    have := ih { f with fcgi := (fcgiFormat f.fcgi bs e).1 } hp
    rw [Prod.ext_iff] at this
    simp only at this
    rw [this.1, this.2]; rfl

theorem Framer.run_scgi : ∀ (cs : List (Bytes × Bool)) (f : Framer), f.proto = .scgi →
    (f.run cs).2 = (scgiRun f.scgi (cs.map (·.1)), false) := by
  intro cs
  induction cs with
  | nil => intro f _; rfl
  | cons x cs ih =>
    intro f hp
    obtain ⟨bs, e⟩ := x
    have hfmt : f.format bs e = ({ f with scgi := (scgiFormat f.scgi bs).1 }, (scgiFormat f.scgi bs).2, false) := by
      unfold Framer.format; simp only [hp]
    simp only [Framer.run, scgiRun, hfmt, List.map_cons]
    have := ih { f with scgi := (scgiFormat f.scgi bs).1 } hp
    rw [Prod.ext_iff] at this
    simp only at this
    rw [this.1, this.2]; rfl

/-! ### empty calls after the response has started change nothing -/

theorem Framer.run_state : ∀ (cs : List (Bytes × Bool)) (f : Framer), cs ≠ [] → (f.run cs).2.2 = false →
    (f.run cs).1.started = true ∧ (f.run cs).1.lenOk := by
  intro cs
  induction cs with
  | nil => intro f h; exact absurd rfl h
  | cons x cs ih =>
    intro f _ hv
    obtain ⟨bs, e⟩ := x
    simp only [Framer.run, Bool.or_eq_false_iff] at hv ⊢
    cases cs with
    | nil => simp only [Framer.run]; exact ⟨Framer.format_started f bs e, Framer.format_lenOk f bs e hv.1⟩
    | cons y ys => exact ih _ (by simp) hv.2

theorem Framer.run_empties : ∀ (m : Nat) (f : Framer), f.started = true → f.lenOk →
    f.run (List.replicate m ([], false)) = (f, [], false) := by
  intro m
  induction m with
  | zero => intro f _ _; rfl
  | succ m ih =>
    intro f hs hl
    rw [List.replicate_succ]
    simp only [Framer.run, Framer.format_empty f hs hl, ih f hs hl]
    rfl

theorem Framer.run_trailing (f : Framer) (cs : List (Bytes × Bool)) (m : Nat) (hne : cs ≠ []) (hv : (f.run cs).2.2 = false) :
    (f.run (cs ++ List.replicate m ([], false))).2 = (f.run cs).2 := by
  have ⟨hs, hl⟩ := Framer.run_state cs f hne hv
  rw [Framer.run_append, Framer.run_empties m _ hs hl]
  simp only [List.append_nil, Bool.or_false]

/-! ### the shape of the calls -/

theorem callsOf_ne_nil (ws : List Bytes) (last : Bytes) : callsOf ws last ≠ [] := by
  unfold callsOf; simp

/-- the header set that reaches the connection: what `out()` handed over, or — in the raw modes — what the
device parsed out of the application's own header block -/
def Resp.wireHeaders (r : Resp D) : Headers :=
  match r.sentHeaders with
  | some H => H
  | none => r.dev.raw.h

theorem Done.hdrShape {r : Resp D} {W Z : Bytes} (dn : Done r W Z) (hraw : r.mode.isRaw = true → (rawNext {} W).done = true) :
    HdrShape r.trace r.wireHeaders := by
  by_cases hm : r.mode.isRaw = true
  · obtain ⟨_, h2, h3, h4⟩ := dn.rawHdr hm
    have hok := h4 (hraw hm)
    have hdm : r.dev.rawMode = true := by rw [dn.mode]; exact hm
    have hdone : r.dev.raw.done = true := by
      obtain ⟨fed, _, _, i3, i4, i5⟩ := dn.inv
      -- everything has been fed: bytes = filter Z and filter fed, so the parser state is that of Z = W
      have hfed := i5 hdm
      -- fed ++ content = Z; all bytes of Z have been handed to `write` at close, so fed determines the parser
      -- use: parser after `fed` followed by the rest is the parser after Z, and it is done
      have hZ : (rawNext {} Z).done = true := by rw [h3]; exact hraw hm
      have happ := (consume_append fed {} (r.dev.vec.take r.dev.pos)).1
      rw [i3] at happ
      -- if the parser were not done after `fed`, nothing would have been passed on, but then the eof call…
      by_cases hd : r.dev.raw.done = true
      · exact hd
      · exfalso
        simp only [Bool.not_eq_true] at hd
        have hk := (hok hdm).1 hd
        -- no sends at all contradicts the eof call
        have := dn.eofs
        simp [Trace.eofs, hk.1] at this
    obtain ⟨a, c, hk, ha1, ha2, hc⟩ := (hok hdm).2 hdone
    unfold Resp.wireHeaders
    rw [h2]
    exact ⟨a, c, hk, ha1, ha2, hc⟩
  · simp only [Bool.not_eq_true] at hm
    obtain ⟨H, h1, h2⟩ := dn.hdr hm
    unfold Resp.wireHeaders
    rw [h1]
    exact h2

/-- in the asynchronous modes the context's last act is `async_write_response` -/
theorem complete_trace_async (r : Resp D) (h : r.finalize.mode.isAsync = true) :
    ∃ t' : Trace, r.complete.trace = t' ++ [WEv.asyncFlush] := by
  unfold Resp.complete
  simp only [h, if_true]
  exact ⟨_, rfl⟩

theorem runScript_async (cfg : Config) (cache : PageCache) (mode : Mode) (acceptGzip : Bool) (script : List Op)
    (hwf : wellFormed mode script = true) (ha : mode.isAsync = true) :
    ∃ t' : Trace, (runScript D cfg cache mode acceptGzip script).resp.trace = t' ++ [WEv.asyncFlush] := by
  unfold runScript
  simp only
  have p0 : Phase (Resp.new D cfg mode acceptGzip) := Or.inl (Resp.new_fresh cfg mode acceptGzip)
  have ⟨p1, m1⟩ := fold_spec script ({ resp := Resp.new D cfg mode acceptGzip, cache := cache } : Run D) p0 (fun _ => hwf)
  have ⟨_, _, hm, _⟩ := p1.finalize
  apply complete_trace_async
  rw [hm, m1]; exact ha

theorem FinalCalls.callsOf {l : List (Bytes × Bool)} {body : Bytes} (h : FinalCalls l body) :
    ∃ ws last m, l = callsOf ws last ++ List.replicate m ([], false) ∧ ws.flatten ++ last = body := by
  obtain ⟨ws, last, m, h1, h2⟩ := h
  exact ⟨ws, last, m, h1, h2⟩

/-- the framing state `set_response_headers` leaves for header set `H` -/
def Case.framer (cs : Case) (H : Headers) : Framer := (Wire.init cs.proto cs.sched).fr.setHeaders H

/-- **stage 1 ∘ stage 2, at the level of `format_output` calls.**  For every case (protocol, io mode, script
within the usage contract, schedule), configuration and cache content: the response ends `Done` (stage 1); the
device's calls are `callsOf ws last` with `ws.flatten ++ last` = what left the buffer chain; and unless
`format_output` raises `protocol_violation` on them, the connection is never violated / given up / broken,
nothing stays pending, and the bytes on the wire are exactly the concatenated `format_output` results. -/
theorem response_wire_calls (cfg : Config) (cache : PageCache) (cs : Case) (hwf : wellFormed cs.mode cs.script = true) :
    ∃ Z, Done (runCaseWith D cfg cache cs).run.resp (runCaseWith D cfg cache cs).run.resp.written Z ∧
      (runCaseWith D cfg cache cs).run.resp.mode = cs.mode ∧
      ((cs.mode.isRaw = true → (rawNext {} (runCaseWith D cfg cache cs).run.resp.written).done = true) →
        ∃ ws last, ws.flatten ++ last = filterOf cs.mode.isRaw Z ∧
          (((cs.framer (runCaseWith D cfg cache cs).run.resp.wireHeaders).run (callsOf ws last)).2.2 = false →
            (runCaseWith D cfg cache cs).wire.violated = false ∧ (runCaseWith D cfg cache cs).wire.gaveUp = false ∧
            (runCaseWith D cfg cache cs).wire.conn.broken = false ∧ (runCaseWith D cfg cache cs).wire.conn.backlog = [] ∧
            (runCaseWith D cfg cache cs).wire.conn.wire =
              ((cs.framer (runCaseWith D cfg cache cs).run.resp.wireHeaders).run (callsOf ws last)).2.1)) := by
  obtain ⟨Z, dn, hmode⟩ := response_trace_spec (D := D) cfg cache cs.mode cs.gz cs.script hwf
  refine ⟨Z, dn, hmode, ?_⟩
  intro hraw
  generalize hr : (runCaseWith D cfg cache cs).run.resp = r at *
  have hr' : (runScript D cfg cache cs.mode cs.gz cs.script).resp = r := hr
  rw [hr'] at dn hmode
  -- shape of the trace
  have hsh := dn.hdrShape (by rw [hmode]; exact hraw)
  obtain ⟨a, c, ht, ha1, ha2, hc⟩ := hsh
  obtain ⟨ws, last, m, hcalls, hbody⟩ := dn.calls.callsOf
  rw [hmode] at hbody
  refine ⟨ws, last, hbody, ?_⟩
  intro hnv
  unfold Case.framer at hnv ⊢
  have htr := Framer.run_trailing ((Wire.init cs.proto cs.sched).fr.setHeaders r.wireHeaders) (callsOf ws last) m (callsOf_ne_nil ws last) hnv
  rw [← hcalls] at htr
  have hnv' : (((Wire.init cs.proto cs.sched).fr.setHeaders r.wireHeaders).run r.trace.sends).2.2 = false := by rw [htr]; exact hnv
  -- replay
  have hwire : (runCaseWith D cfg cache cs).wire = (Wire.init cs.proto cs.sched).replay (!cs.mode.isAsync) r.trace := by
    unfold runCaseWith; simp only; rw [hr']
  rw [hwire]
  have ⟨wi, wc, wp, wf⟩ := replay_spec cs.proto cs.sched (!cs.mode.isAsync) r.trace r.wireHeaders a c ht ha1 ha2 hc hnv'
  -- nothing pending at the end
  have hpend : ((Wire.init cs.proto cs.sched).replay (!cs.mode.isAsync) r.trace).conn.pending = [] := by
    by_cases hasync : cs.mode.isAsync = true
    · obtain ⟨t', ht'⟩ := runScript_async (D := D) cfg cache cs.mode cs.gz cs.script hwf hasync
      rw [hr'] at ht'
      exact wf t' ht'
    · exact wp (by simpa using hasync)
  have hback : ((Wire.init cs.proto cs.sched).replay (!cs.mode.isAsync) r.trace).conn.backlog = [] := by
    unfold Conn.backlog; rw [wi.nofl, hpend]; rfl
  refine ⟨wi.nov, wi.ngu, wi.nb, hback, ?_⟩
  have hinv := wi.conn
  unfold Conn.Inv at hinv
  rw [hback, List.append_nil, wi.handed, wi.outs, wc, htr] at hinv
  exact hinv

/-- **stage 1 ∘ stage 2, with the client's view.**  As `response_wire_calls`, for any presentation `F` of the
protocol's `format_output` that comes with a round-trip theorem against the independent de-framer: the client
decodes the wire to one head and exactly the bytes that left the buffer chain. -/
theorem response_wire_generic (cfg : Config) (cache : PageCache) (cs : Case) (hwf : wellFormed cs.mode cs.script = true) :
    ∃ Z, Done (runCaseWith D cfg cache cs).run.resp (runCaseWith D cfg cache cs).run.resp.written Z ∧
      (runCaseWith D cfg cache cs).run.resp.mode = cs.mode ∧
      ∀ (F : Framing),
        (∀ calls, F.run calls = ((cs.framer (runCaseWith D cfg cache cs).run.resp.wireHeaders).run calls).2) →
        (cs.mode.isRaw = true → (rawNext {} (runCaseWith D cfg cache cs).run.resp.written).done = true) →
        F.lengthOk (filterOf cs.mode.isRaw Z).length →
        (runCaseWith D cfg cache cs).wire.violated = false ∧ (runCaseWith D cfg cache cs).wire.gaveUp = false ∧
        (runCaseWith D cfg cache cs).wire.conn.broken = false ∧ (runCaseWith D cfg cache cs).wire.conn.backlog = [] ∧
        ∃ ws last head, ws.flatten ++ last = filterOf cs.mode.isRaw Z ∧
          (runCaseWith D cfg cache cs).wire.conn.wire = (F.run (callsOf ws last)).1 ∧
          F.deframe (runCaseWith D cfg cache cs).wire.conn.wire = some (head, filterOf cs.mode.isRaw Z) := by
  obtain ⟨Z, dn, hmode, rest⟩ := response_wire_calls (D := D) cfg cache cs hwf
  refine ⟨Z, dn, hmode, ?_⟩
  intro F hF hraw hlen
  obtain ⟨ws, last, hbody, hw⟩ := rest hraw
  obtain ⟨head, hnv, hde⟩ := F.roundtrip ws last (by rw [hbody]; exact hlen)
  rw [hF] at hnv
  obtain ⟨w1, w2, w3, w4, w5⟩ := hw hnv
  refine ⟨w1, w2, w3, w4, ws, last, head, hbody, by rw [w5, hF], ?_⟩
  rw [w5, ← hbody, ← hde, hF]

/-! ### the three protocols -/

/-- the properties of a run that do not depend on the protocol -/
structure WireOk (w : Wire) : Prop where
  noViolation : w.violated = false
  notGivenUp : w.gaveUp = false
  notBroken : w.conn.broken = false
  allSent : w.conn.backlog = []

theorem Case.framer_scgi (cs : Case) (H : Headers) (hp : cs.proto = .scgi) :
    (cs.framer H).proto = .scgi ∧ (cs.framer H).scgi = { headers := xcgiHeaders false H, headersWritten := false } := by
  unfold Case.framer Wire.init Framer.setHeaders
  rw [hp]
  exact ⟨rfl, rfl⟩

theorem Case.framer_fcgi (cs : Case) (H : Headers) (hp : cs.proto = .fcgi) :
    (cs.framer H).proto = .fcgi ∧ (cs.framer H).fcgi = { reqId := 1, responseHeaders := xcgiHeaders false H, headersWritten := false } := by
  unfold Case.framer Wire.init Framer.setHeaders
  rw [hp]
  exact ⟨rfl, rfl⟩

theorem Case.framer_http (cs : Case) (H : Headers) (a c : Bool) (hp : cs.proto = .http a c) :
    (cs.framer H).proto = .http a c ∧
    (cs.framer H).http = ({ isHttp11 := a, clientKeepAlive := c } : HttpSt).setHeaders H := by
  unfold Case.framer Wire.init Framer.setHeaders
  rw [hp]
  exact ⟨rfl, rfl⟩

theorem callsOf_fst (ws : List Bytes) (last : Bytes) : (callsOf ws last).map (·.1) = ws ++ [last] := by
  simp only [callsOf, List.map_append, List.map_map, List.map_cons, List.map_nil]
  congr 1
  induction ws with
  | nil => rfl
  | cons w ws ih => simp only [List.map_cons, Function.comp]; rw [ih]

/-- **SCGI (and CGI).**  The wire is the header block followed by the bytes that left the buffer chain —
nothing else, for every script, mode, buffer configuration and socket schedule, whatever the headers are. -/
theorem response_wire_eq_scgi (cfg : Config) (cache : PageCache) (cs : Case) (hwf : wellFormed cs.mode cs.script = true)
    (hp : cs.proto = .scgi) :
    ∃ Z, Done (runCaseWith D cfg cache cs).run.resp (runCaseWith D cfg cache cs).run.resp.written Z ∧
      ((cs.mode.isRaw = true → (rawNext {} (runCaseWith D cfg cache cs).run.resp.written).done = true) →
        WireOk (runCaseWith D cfg cache cs).wire ∧
        (runCaseWith D cfg cache cs).wire.conn.wire =
          xcgiHeaders false (runCaseWith D cfg cache cs).run.resp.wireHeaders ++ filterOf cs.mode.isRaw Z) := by
  obtain ⟨Z, dn, _, rest⟩ := response_wire_calls (D := D) cfg cache cs hwf
  refine ⟨Z, dn, fun hraw => ?_⟩
  obtain ⟨ws, last, hbody, hw⟩ := rest hraw
  have ⟨fp, fs⟩ := cs.framer_scgi (runCaseWith D cfg cache cs).run.resp.wireHeaders hp
  have hrun := Framer.run_scgi (callsOf ws last) _ fp
  rw [fs, callsOf_fst] at hrun
  obtain ⟨w1, w2, w3, w4, w5⟩ := hw (by rw [hrun])
  refine ⟨⟨w1, w2, w3, w4⟩, ?_⟩
  rw [w5, hrun, ← hbody]
  cases ws with
  | nil => rw [List.nil_append, scgiRun_fresh]; simp
  | cons w ws' => rw [List.cons_append, scgiRun_fresh]; simp [List.append_assoc]

/-- **FastCGI.**  The wire is a sequence of well-formed records for request 1 — STDOUT records, one empty
STDOUT record, END_REQUEST — whose STDOUT stream is the header block followed by the bytes that left the
buffer chain. -/
theorem response_wire_eq_fcgi (cfg : Config) (cache : PageCache) (cs : Case) (hwf : wellFormed cs.mode cs.script = true)
    (hp : cs.proto = .fcgi) :
    ∃ Z, Done (runCaseWith D cfg cache cs).run.resp (runCaseWith D cfg cache cs).run.resp.written Z ∧
      ((cs.mode.isRaw = true → (rawNext {} (runCaseWith D cfg cache cs).run.resp.written).done = true) →
        WireOk (runCaseWith D cfg cache cs).wire ∧
        ∃ ds, ds.flatten = xcgiHeaders false (runCaseWith D cfg cache cs).run.resp.wireHeaders ++ filterOf cs.mode.isRaw Z ∧
          (runCaseWith D cfg cache cs).wire.conn.wire = fcgiWire 1 ds ∧
          Spec.deRecords (runCaseWith D cfg cache cs).wire.conn.wire = some (fcgiAllRecs 1 ds) ∧
          Spec.fcgiStdoutStream 1 (fcgiAllRecs 1 ds) = some ds.flatten) := by
  obtain ⟨Z, dn, _, rest⟩ := response_wire_calls (D := D) cfg cache cs hwf
  refine ⟨Z, dn, fun hraw => ?_⟩
  obtain ⟨ws, last, hbody, hw⟩ := rest hraw
  have ⟨fp, fs⟩ := cs.framer_fcgi (runCaseWith D cfg cache cs).run.resp.wireHeaders hp
  have hrun := Framer.run_fcgi (callsOf ws last) _ fp
  rw [fs] at hrun
  obtain ⟨w1, w2, w3, w4, w5⟩ := hw (by rw [hrun])
  refine ⟨⟨w1, w2, w3, w4⟩, ?_⟩
  rw [w5, hrun, ← hbody]
  have hfr := fcgiRun_fresh 1 (xcgiHeaders false (runCaseWith D cfg cache cs).run.resp.wireHeaders) ws last
  unfold callsOf
  simp only
  rw [hfr]
  cases ws with
  | nil =>
    exact ⟨[_ ++ last], by simp, rfl, deRecords_fcgiWire 1 (by decide) _, fcgiStdoutStream_wire 1 (by decide) _⟩
  | cons w ws' =>
    exact ⟨(_ ++ w) :: ws' ++ [last], by simp [List.append_assoc], rfl, deRecords_fcgiWire 1 (by decide) _, fcgiStdoutStream_wire 1 (by decide) _⟩

/-- **HTTP.**  If the header set `out()` handed over is presentable (`HttpReady`: status line and header lines
without CR, no Transfer-Encoding of the application's own, at most one well-formed Content-Length) and the body
respects the Content-Length the application announced (if any), the wire is one head — the application's status
line and headers first, then the lines `format_output` adds — followed by the body in the framing
`format_output` chose, and an RFC 7230 client decodes it to exactly the bytes that left the buffer chain. -/
theorem response_wire_eq_http (cfg : Config) (cache : PageCache) (cs : Case) (hwf : wellFormed cs.mode cs.script = true)
    (a c : Bool) (hp : cs.proto = .http a c) (l0 : Bytes) (rest0 : List Bytes)
    (hready : HttpReady (({ isHttp11 := a, clientKeepAlive := c } : HttpSt).setHeaders (runCaseWith D cfg cache cs).run.resp.wireHeaders) l0 rest0) :
    ∃ Z, Done (runCaseWith D cfg cache cs).run.resp (runCaseWith D cfg cache cs).run.resp.written Z ∧
      ((cs.mode.isRaw = true → (rawNext {} (runCaseWith D cfg cache cs).run.resp.written).done = true) →
       (∀ n, (({ isHttp11 := a, clientKeepAlive := c } : HttpSt).setHeaders (runCaseWith D cfg cache cs).run.resp.wireHeaders).contentLength = some n →
          (filterOf cs.mode.isRaw Z).length = n) →
        WireOk (runCaseWith D cfg cache cs).wire ∧
        ∃ extras enc,
          (runCaseWith D cfg cache cs).wire.conn.wire = joinLines (l0 :: (rest0 ++ extras)) ++ [13, 10] ++ enc ∧
          Spec.deHttp (runCaseWith D cfg cache cs).wire.conn.wire =
            some (joinLines (l0 :: (rest0 ++ extras)) ++ [13, 10], filterOf cs.mode.isRaw Z)) := by
  obtain ⟨Z, dn, _, rest⟩ := response_wire_calls (D := D) cfg cache cs hwf
  refine ⟨Z, dn, fun hraw hlen => ?_⟩
  obtain ⟨ws, last, hbody, hw⟩ := rest hraw
  have ⟨fp, fs⟩ := cs.framer_http (runCaseWith D cfg cache cs).run.resp.wireHeaders a c hp
  have hrun := Framer.run_http (callsOf ws last) _ a c fp
  rw [fs] at hrun
  obtain ⟨extras, enc, h1, h2⟩ := http_roundtrip_lemma _ l0 rest0 hready ws last (by rw [hbody]; exact hlen)
  rw [h1] at hrun
  obtain ⟨w1, w2, w3, w4, w5⟩ := hw (by rw [hrun])
  refine ⟨⟨w1, w2, w3, w4⟩, extras, enc, by rw [w5, hrun], ?_⟩
  rw [w5, hrun, h2, hbody]

/-! ### after the end has been announced -/

/-- whatever is done to a device that has announced the end and handed everything over — flushes, `setbuf`,
buffering mode, in any number and order — sends no byte and announces nothing again -/
theorem Dev.run_sealed : ∀ (ops : List DevOp) (d : Dev) (k : Trace) (inp : Bytes), d.Inv k inp → Sealed d →
    k.bytes = filterOf d.rawMode inp → (∀ op ∈ ops, op.data = []) →
    (Dev.run (d, k) ops).1.Inv (Dev.run (d, k) ops).2 inp ∧ Sealed (Dev.run (d, k) ops).1 ∧
    (Dev.run (d, k) ops).2.eofs = k.eofs ∧ (Dev.run (d, k) ops).2.bytes = filterOf d.rawMode inp ∧
    (Dev.run (d, k) ops).1.rawMode = d.rawMode := by
  intro ops
  induction ops with
  | nil => intro d k inp hi hs hb _; exact ⟨hi, hs, rfl, hb, rfl⟩
  | cons op ops ih =>
    intro d k inp hi hs hb h
    have ⟨h1, s1⟩ := Dev.step_spec d k inp op hi
    rw [h op (by simp), List.append_nil] at h1
    have ⟨hs1, he1⟩ := hs.step s1
    have hb1 : (Dev.step (d, k) op).2.bytes = filterOf (Dev.step (d, k) op).1.rawMode inp := by
      obtain ⟨e, he⟩ := s1.extends
      obtain ⟨fed1, _, _, f3, f4, _⟩ := h1
      obtain ⟨Y, hY⟩ := filterOf_append (Dev.step (d, k) op).1.rawMode fed1 ((Dev.step (d, k) op).1.vec.take (Dev.step (d, k) op).1.pos)
      rw [f3] at hY
      rw [s1.mode] at hY f4 ⊢
      have hk : (Dev.step (d, k) op).2.bytes = filterOf d.rawMode inp ++ e.bytes := by rw [he, Trace.bytes_append, hb]
      have hlen := congrArg List.length hY
      rw [← f4, hk] at hlen
      simp only [List.length_append] at hlen
      have he0 : e.bytes = [] := List.eq_nil_of_length_eq_zero (by omega)
      rw [hk, he0, List.append_nil]
    have ⟨i1, i2, i3, i4, i5⟩ := ih _ _ inp h1 hs1 hb1 (fun o ho => h o (by simp [ho]))
    simp only [Dev.run, List.foldl_cons] at i1 i2 i3 i4 i5 ⊢
    exact ⟨i1, i2, i3.trans he1, by rw [i4, s1.mode], i5.trans s1.mode⟩

/-! ### `HttpReady` from the header set -/

/-- the `Status` entry, or the default `200 Ok` -/
def Headers.statusValue (H : Headers) : Bytes :=
  match mapFind (b Gen.statusName) H.map with
  | some (_, v) => v
  | none => b Gen.defaultStatus

/-- the status line `format_http_headers` writes -/
def httpStatusLine (http11 : Bool) (H : Headers) : Bytes :=
  b Gen.httpPrefix ++ b (if http11 then Gen.httpVersion11 else Gen.httpVersion10) ++ b Gen.httpVersionSep ++ H.statusValue

/-- what the application's header set must look like for an HTTP response to be well formed: no CR in the
status or in any `Name: value` line / added header / cookie, no Transfer-Encoding of its own, and a
Content-Length — if it sets one — that is the only one and a plain decimal number.  (cppcms does not
validate header values; injecting CR or a second Content-Length is the application's responsibility.) -/
structure HttpHeadersOk (H : Headers) : Prop where
  status : ∀ c ∈ H.statusValue, c ≠ 13
  lines : ∀ l ∈ H.lines (some (b Gen.statusName)), LineOk l
  noTE : Spec.fieldValues Spec.sTransferEncoding (H.lines (some (b Gen.statusName))) = []
  cl : (H.get sContentLengthName = [] ∧ Spec.fieldValues Spec.sContentLength (H.lines (some (b Gen.statusName))) = []) ∨
       (H.get sContentLengthName ≠ [] ∧
        Spec.fieldValues Spec.sContentLength (H.lines (some (b Gen.statusName))) = [H.get sContentLengthName] ∧
        Spec.parseDecNum (H.get sContentLengthName) = some (atoll (H.get sContentLengthName)))

theorem httpReady_of_headers (a c : Bool) (H : Headers) (ok : HttpHeadersOk H) :
    HttpReady (({ isHttp11 := a, clientKeepAlive := c } : HttpSt).setHeaders H) (httpStatusLine a H)
      (H.lines (some (b Gen.statusName))) where
  fresh := rfl
  hdr := by
    show H.fmtHttp (b (if a then Gen.httpVersion11 else Gen.httpVersion10)) false = _
    unfold Headers.fmtHttp httpStatusLine Headers.statusValue
    rw [joinLines_cons, fmtLines_eq, lit_headerSep_lineEnd.1]
    cases mapFind (b Gen.statusName) H.map <;> simp [List.append_assoc]
  status := by
    unfold httpStatusLine
    have : b Gen.httpPrefix = [72, 84, 84, 80, 47] := by decide
    rw [this]; rfl
  ok := by
    intro l hl
    rcases List.mem_cons.1 hl with h | h
    · subst h
      refine ⟨by unfold httpStatusLine; have : b Gen.httpPrefix = [72, 84, 84, 80, 47] := by decide
                 rw [this]; simp, ?_⟩
      intro x hx
      unfold httpStatusLine at hx
      simp only [List.mem_append] at hx
      rcases hx with ((hx | hx) | hx) | hx
      · have : ∀ y ∈ b Gen.httpPrefix, y ≠ 13 := by decide
        exact this x hx
      · have : ∀ y ∈ b (if a then Gen.httpVersion11 else Gen.httpVersion10), y ≠ 13 := by cases a <;> decide
        exact this x hx
      · have : ∀ y ∈ b Gen.httpVersionSep, y ≠ 13 := by decide
        exact this x hx
      · exact ok.status x hx
    · exact ok.lines l h
  noTE := ok.noTE
  cl := by
    rcases ok.cl with ⟨h1, h2⟩ | ⟨h1, h2, h3⟩
    · left
      refine ⟨?_, h2⟩
      show (if (H.get sContentLengthName).isEmpty then none else some (atoll (H.get sContentLengthName))) = none
      rw [h1]; rfl
    · right
      refine ⟨atoll (H.get sContentLengthName), H.get sContentLengthName, ?_, h2, h3⟩
      show (if (H.get sContentLengthName).isEmpty then none else some (atoll (H.get sContentLengthName))) = _
      have : (H.get sContentLengthName).isEmpty = false := by
        cases hx : H.get sContentLengthName with
        | nil => exact absurd hx h1
        | cons _ _ => rfl
      rw [this]; rfl
  written0 := rfl
  version := by
    intro ha
    have ha' : a = true := ha
    subst ha'
    unfold httpStatusLine
    have : b Gen.httpPrefix = [72, 84, 84, 80, 47] := by decide
    rw [this]
    have : b (if true = true then Gen.httpVersion11 else Gen.httpVersion10) = [49, 46, 49] := by decide
    rw [this]; rfl

end Cppcms.C03
