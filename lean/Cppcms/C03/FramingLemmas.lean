import Cppcms.C03.Framing
import Cppcms.C03.Spec
/-! Round-trip lemmas between the framing model and the independent de-framers of `Spec.lean`. -/
namespace Cppcms.C03
open Cppcms

/-! ### generated literals, read back against the grammars (fail to type-check if the source changes them) -/

theorem lit_chunkSizeEnd : b Gen.chunkSizeEnd = [13, 10] := by decide
theorem lit_chunkEnd : b Gen.chunkEnd = [13, 10] := by decide
theorem lit_chunkedLast : b Gen.chunkedLast = [48, 13, 10, 13, 10] := by decide
theorem lit_chunkEndLast : b Gen.chunkEndLast = [13, 10, 48, 13, 10, 13, 10] := by decide

/-! ### digits -/

theorem digitChar_hex (d : Nat) (h : d < 16) : Spec.hexVal (digitChar d) = some d := by
  have : ∀ d : Fin 16, Spec.hexVal (digitChar d.val) = some d.val := by decide
  exact this ⟨d, h⟩

theorem digitChar_ne_cr (d : Nat) (h : d < 16) : digitChar d ≠ 13 := by
  have : ∀ d : Fin 16, digitChar d.val ≠ 13 := by decide
  exact this ⟨d, h⟩

theorem digitChar_dec (d : Nat) (h : d < 10) : 48 ≤ digitChar d ∧ digitChar d ≤ 57 ∧ (digitChar d).toNat - 48 = d := by
  have : ∀ d : Fin 10, 48 ≤ digitChar d.val ∧ digitChar d.val ≤ 57 ∧ (digitChar d.val).toNat - 48 = d.val := by decide
  exact this ⟨d, h⟩

theorem parseHexAcc_append (xs ys : Bytes) (acc : Nat) :
    Spec.parseHexAcc (xs ++ ys) acc = (Spec.parseHexAcc xs acc).bind (Spec.parseHexAcc ys) := by
  induction xs generalizing acc with
  | nil => simp [Spec.parseHexAcc]
  | cons x xs ih =>
    simp only [List.cons_append, Spec.parseHexAcc]
    cases Spec.hexVal x with
    | none => simp
    | some v => simp [ih]

theorem hexDigits_ne_nil (n : Nat) : hexDigits n ≠ [] := by
  unfold hexDigits digits
  split <;> simp

theorem parseHexAcc_hexDigits (n : Nat) : ∀ acc, ∃ k, Spec.parseHexAcc (hexDigits n) acc = some (acc * 16 ^ k + n) := by
  induction n using Nat.strongRecOn with
  | _ n ih =>
    intro acc
    unfold hexDigits digits
    split
    · rename_i h
      refine ⟨1, ?_⟩
      simp [Spec.parseHexAcc, digitChar_hex n h]
    · rename_i h
      have hlt : n / 16 < n := Nat.div_lt_self (by omega) (by omega)
      obtain ⟨k, hk⟩ := ih (n / 16) hlt acc
      refine ⟨k + 1, ?_⟩
      have hk' : Spec.parseHexAcc (digits 16 (by decide) (n / 16)) acc = some (acc * 16 ^ k + n / 16) := hk
      rw [parseHexAcc_append, hk']
      simp only [Option.bind_some, Spec.parseHexAcc, digitChar_hex (n % 16) (Nat.mod_lt _ (by decide))]
      congr 1
      rw [Nat.pow_succ]
      have := Nat.div_add_mod n 16
      rw [Nat.add_mul, Nat.mul_assoc]
      omega

theorem parseHexNum_hexDigits (n : Nat) : Spec.parseHexNum (hexDigits n) = some n := by
  unfold Spec.parseHexNum
  have hne := hexDigits_ne_nil n
  have : (hexDigits n).isEmpty = false := by simpa [List.isEmpty_iff] using hne
  rw [this]
  obtain ⟨k, hk⟩ := parseHexAcc_hexDigits n 0
  simpa using hk

theorem hexDigits_no_cr (n : Nat) : ∀ c ∈ hexDigits n, c ≠ 13 := by
  induction n using Nat.strongRecOn with
  | _ n ih =>
    unfold hexDigits digits
    split
    · rename_i h
      intro c hc
      simp only [List.mem_singleton] at hc
      rw [hc]; exact digitChar_ne_cr n h
    · rename_i h
      have hlt : n / 16 < n := Nat.div_lt_self (by omega) (by omega)
      intro c hc
      simp only [List.mem_append, List.mem_singleton] at hc
      cases hc with
      | inl h1 => exact ih (n / 16) hlt c h1
      | inr h1 => rw [h1]; exact digitChar_ne_cr _ (Nat.mod_lt _ (by decide))

theorem parseDecAcc_append (xs ys : Bytes) (acc : Nat) :
    Spec.parseDecAcc (xs ++ ys) acc = (Spec.parseDecAcc xs acc).bind (Spec.parseDecAcc ys) := by
  induction xs generalizing acc with
  | nil => simp [Spec.parseDecAcc]
  | cons x xs ih =>
    simp only [List.cons_append, Spec.parseDecAcc]
    split <;> simp [ih]

theorem decDigits_ne_nil (n : Nat) : decDigits n ≠ [] := by
  unfold decDigits digits
  split <;> simp

theorem parseDecAcc_decDigits (n : Nat) : ∀ acc, ∃ k, Spec.parseDecAcc (decDigits n) acc = some (acc * 10 ^ k + n) := by
  induction n using Nat.strongRecOn with
  | _ n ih =>
    intro acc
    unfold decDigits digits
    split
    · rename_i h
      refine ⟨1, ?_⟩
      have ⟨h1, h2, h3⟩ := digitChar_dec n h
      simp [Spec.parseDecAcc, h1, h2, h3]
    · rename_i h
      have hlt : n / 10 < n := Nat.div_lt_self (by omega) (by omega)
      obtain ⟨k, hk⟩ := ih (n / 10) hlt acc
      refine ⟨k + 1, ?_⟩
      have hk' : Spec.parseDecAcc (digits 10 (by decide) (n / 10)) acc = some (acc * 10 ^ k + n / 10) := hk
      rw [parseDecAcc_append, hk']
      have ⟨h1, h2, h3⟩ := digitChar_dec (n % 10) (Nat.mod_lt _ (by decide))
      simp only [Option.bind_some, Spec.parseDecAcc, h1, h2, h3, and_self, if_true]
      congr 1
      rw [Nat.pow_succ]
      have := Nat.div_add_mod n 10
      rw [Nat.add_mul, Nat.mul_assoc]
      omega

theorem parseDecNum_decDigits (n : Nat) : Spec.parseDecNum (decDigits n) = some n := by
  unfold Spec.parseDecNum
  have hne := decDigits_ne_nil n
  have : (decDigits n).isEmpty = false := by simpa [List.isEmpty_iff] using hne
  rw [this]
  obtain ⟨k, hk⟩ := parseDecAcc_decDigits n 0
  simpa using hk

/-! ### lines -/

theorem splitLineAux_append (xs : Bytes) (hx : ∀ c ∈ xs, c ≠ 13) (rest : Bytes) (acc : List UInt8) :
    Spec.splitLineAux (xs ++ 13 :: 10 :: rest) acc = some (acc.reverse ++ xs, rest) := by
  induction xs generalizing acc with
  | nil => simp [Spec.splitLineAux]
  | cons x xs ih =>
    have hx0 : x ≠ 13 := hx x (by simp)
    have hxs : ∀ c ∈ xs, c ≠ 13 := fun c hc => hx c (by simp [hc])
    cases xs with
    | nil =>
      simp only [List.cons_append, List.nil_append, Spec.splitLineAux, hx0, false_and, if_false]
      simp [Spec.splitLineAux]
    | cons y ys =>
      simp only [List.cons_append, Spec.splitLineAux, hx0, false_and, if_false]
      have := ih hxs (x :: acc)
      simp only [List.cons_append] at this
      rw [this]
      simp

theorem splitLine_append (xs : Bytes) (hx : ∀ c ∈ xs, c ≠ 13) (rest : Bytes) :
    Spec.splitLine (xs ++ 13 :: 10 :: rest) = some (xs, rest) := by
  unfold Spec.splitLine
  rw [splitLineAux_append xs hx rest []]
  simp

/-! ### chunked coding -/

/-- one data chunk as `make_chunked_wrapper` writes it -/
def chunkOf (w : Bytes) : Bytes := hexDigits w.length ++ [13, 10] ++ w ++ [13, 10]

theorem chunkWrap_false (w : Bytes) : chunkWrap w false = if w = [] then [] else chunkOf w := by
  unfold chunkWrap chunkOf
  by_cases h : w = []
  · simp [h]
  · have : w.isEmpty = false := by simpa [List.isEmpty_iff] using h
    simp [this, h, lit_chunkSizeEnd, lit_chunkEnd]

theorem chunkWrap_true (w : Bytes) : chunkWrap w true = (if w = [] then [] else chunkOf w) ++ [48, 13, 10, 13, 10] := by
  unfold chunkWrap chunkOf
  by_cases h : w = []
  · simp [h, lit_chunkedLast]
  · have : w.isEmpty = false := by simpa [List.isEmpty_iff] using h
    simp [this, h, lit_chunkSizeEnd, lit_chunkEndLast]

/-- decoding one data chunk -/
theorem deChunkedAux_chunk (fuel : Nat) (w : Bytes) (hw : w ≠ []) (tail : Bytes) (acc : List Bytes) :
    Spec.deChunkedAux (fuel + 1) (chunkOf w ++ tail) acc = Spec.deChunkedAux fuel tail (w :: acc) := by
  obtain ⟨n, hn⟩ : ∃ n, w.length = n + 1 := ⟨w.length - 1, by have := List.length_pos_iff.2 hw; omega⟩
  rw [Spec.deChunkedAux]
  unfold chunkOf
  have h1 : hexDigits w.length ++ [13, 10] ++ w ++ [13, 10] ++ tail
      = hexDigits w.length ++ 13 :: 10 :: (w ++ 13 :: 10 :: tail) := by simp
  rw [h1, splitLine_append _ (hexDigits_no_cr _)]
  simp only [parseHexNum_hexDigits, hn]
  have ht : (w ++ 13 :: 10 :: tail).take (n + 1) = w := List.take_left' hn
  have hd : (w ++ 13 :: 10 :: tail).drop (n + 1) = 13 :: 10 :: tail := List.drop_left' hn
  simp [ht, hd, hn]

theorem deChunkedAux_last (fuel : Nat) (rest : Bytes) (acc : List Bytes) :
    Spec.deChunkedAux (fuel + 1) ([48, 13, 10, 13, 10] ++ rest) acc = some (acc.reverse.flatten, rest) := by
  rw [Spec.deChunkedAux]
  have : Spec.splitLine ([48, 13, 10, 13, 10] ++ rest) = some ([48], 13 :: 10 :: rest) := by
    have := splitLine_append [48] (by simp) (13 :: 10 :: rest)
    simpa using this
  rw [this]
  simp [Spec.parseHexNum, Spec.parseHexAcc, Spec.hexVal]

/-- body of a chunked response: every `format_output(w, false)` then the final `format_output(last, true)` -/
def chunkedBody (ws : List Bytes) (last : Bytes) : Bytes :=
  (ws.map fun w => chunkWrap w false).flatten ++ chunkWrap last true

theorem chunkOf_length_pos (w : Bytes) : 0 < (chunkOf w).length := by
  unfold chunkOf; simp; omega

theorem deChunkedAux_body : ∀ (ws : List Bytes) (last rest : Bytes) (acc : List Bytes) (fuel : Nat),
    (chunkedBody ws last).length < fuel →
    Spec.deChunkedAux fuel (chunkedBody ws last ++ rest) acc = some (acc.reverse.flatten ++ ws.flatten ++ last, rest) := by
  intro ws
  induction ws with
  | nil =>
    intro last rest acc fuel hf
    simp only [chunkedBody, List.map_nil, List.flatten_nil, List.nil_append, List.append_nil] at *
    rw [chunkWrap_true] at *
    by_cases hl : last = []
    · simp only [hl, if_true, List.nil_append, List.append_nil] at *
      obtain ⟨f, rfl⟩ : ∃ f, fuel = f + 1 := ⟨fuel - 1, by omega⟩
      exact deChunkedAux_last f rest acc
    · rw [if_neg hl] at hf ⊢
      have hp := chunkOf_length_pos last
      obtain ⟨f, rfl⟩ : ∃ f, fuel = f + 2 := ⟨fuel - 2, by simp at hf; omega⟩
      rw [List.append_assoc, deChunkedAux_chunk (f + 1) last hl, deChunkedAux_last]
      simp
  | cons w ws ih =>
    intro last rest acc fuel hf
    have hcb : chunkedBody (w :: ws) last = chunkWrap w false ++ chunkedBody ws last := by
      simp [chunkedBody, List.append_assoc]
    rw [hcb] at hf ⊢
    rw [chunkWrap_false] at hf ⊢
    by_cases hw : w = []
    · simp only [hw, if_true, List.nil_append, List.flatten_cons] at *
      exact ih last rest acc fuel hf
    · rw [if_neg hw] at hf ⊢
      have hp := chunkOf_length_pos w
      obtain ⟨f, rfl⟩ : ∃ f, fuel = f + 1 := ⟨fuel - 1, by simp at hf; omega⟩
      rw [List.append_assoc, deChunkedAux_chunk f w hw]
      rw [ih last rest (w :: acc) f (by simp at hf ⊢; omega)]
      simp [List.append_assoc]

theorem deChunked_body (ws : List Bytes) (last rest : Bytes) :
    Spec.deChunked (chunkedBody ws last ++ rest) = some (ws.flatten ++ last, rest) := by
  unfold Spec.deChunked
  rw [deChunkedAux_body ws last rest [] _ (by simp; omega)]
  simp

end Cppcms.C03

namespace Cppcms.C03
open Cppcms

/-! ### FastCGI records -/

theorem lit_fcgiVersion : UInt8.ofNat Gen.fcgiVersion = 1 := by decide
theorem lit_fcgiStdout : Gen.fcgiStdout = Spec.FCGI_STDOUT := by decide
theorem lit_eof : Gen.eofFirstType = Spec.FCGI_STDOUT ∧ Gen.eofSecondType = Spec.FCGI_END_REQUEST ∧ Gen.eofSecondLen = 8 ∧ Gen.eofProtocolStatus = 0 := by decide
theorem lit_maxPacketLen : Gen.maxPacketLen = 65535 := by decide
theorem lit_fullPad : Gen.fullPad = 1 := by decide

/-- wire form of a record (what `format_output` gathers for it) -/
def encRecord (r : Spec.Record) : Bytes :=
  fcgiHeader r.type r.requestId r.content.length r.padding ++ r.content ++ List.replicate r.padding 0

def Spec.Record.Valid (r : Spec.Record) : Prop :=
  r.type < 256 ∧ r.requestId < 65536 ∧ r.content.length < 65536 ∧ r.padding < 256

theorem be16_roundtrip (n : Nat) (h : n < 65536) :
    (UInt8.ofNat (n / 256)).toNat * 256 + (UInt8.ofNat (n % 256)).toNat = n := by
  simp; omega

theorem u8_roundtrip (n : Nat) (h : n < 256) : (UInt8.ofNat n).toNat = n := by
  simp; omega

theorem deRecordsAux_step (fuel : Nat) (r : Spec.Record) (hv : r.Valid) (tail : Bytes) (acc : List Spec.Record) :
    Spec.deRecordsAux (fuel + 1) (encRecord r ++ tail) acc = Spec.deRecordsAux fuel tail (r :: acc) := by
  obtain ⟨ht, hr, hc, hp⟩ := hv
  unfold encRecord fcgiHeader be16
  simp only [List.cons_append, List.nil_append, List.append_assoc]
  rw [Spec.deRecordsAux.eq_3]
  have e1 := be16_roundtrip r.content.length hc
  have e2 := be16_roundtrip r.requestId hr
  have e3 := u8_roundtrip r.padding hp
  have e4 := u8_roundtrip r.type ht
  simp only [e1, e2, e3, e4, lit_fcgiVersion]
  have t1 : (r.content ++ (List.replicate r.padding (0 : UInt8) ++ tail)).take r.content.length = r.content := List.take_left' rfl
  have d1 : (r.content ++ (List.replicate r.padding (0 : UInt8) ++ tail)).drop r.content.length = List.replicate r.padding 0 ++ tail := List.drop_left' rfl
  have t2 : (List.replicate r.padding (0 : UInt8) ++ tail).take r.padding = List.replicate r.padding 0 := List.take_left' (by simp)
  have d2 : (List.replicate r.padding (0 : UInt8) ++ tail).drop r.padding = tail := List.drop_left' (by simp)
  simp [t1, d1, t2, d2]

theorem deRecordsAux_list : ∀ (recs : List Spec.Record) (hv : ∀ r ∈ recs, r.Valid) (fuel : Nat) (tail : Bytes) (acc : List Spec.Record),
    Spec.deRecordsAux (fuel + recs.length) ((recs.map encRecord).flatten ++ tail) acc = Spec.deRecordsAux fuel tail (recs.reverse ++ acc) := by
  intro recs
  induction recs with
  | nil => intro _ fuel tail acc; simp
  | cons r rs ih =>
    intro hv fuel tail acc
    have hr : r.Valid := hv r (by simp)
    have hrs : ∀ x ∈ rs, x.Valid := fun x hx => hv x (by simp [hx])
    simp only [List.map_cons, List.flatten_cons, List.length_cons, List.append_assoc, List.reverse_cons]
    rw [← Nat.add_assoc, deRecordsAux_step _ r hr, ih hrs]
    simp

/-- the STDOUT records `fastcgi::format_output` cuts `data` into -/
def stdoutRecs (reqId : Nat) (data : Bytes) : List Spec.Record :=
  if h : data.length = 0 then []
  else if Gen.isFullRecord data.length then
    { type := Gen.fcgiStdout, requestId := reqId, content := data.take Gen.maxPacketLen, padding := Gen.fullPad } ::
      stdoutRecs reqId (data.drop Gen.maxPacketLen)
  else [{ type := Gen.fcgiStdout, requestId := reqId, content := data, padding := Gen.lastPad data.length }]
termination_by data.length
decreasing_by
  simp only [List.length_drop]
  have : 0 < Gen.maxPacketLen := by decide
  omega

theorem fcgiRecords_eq (reqId : Nat) (data : Bytes) :
    fcgiRecords reqId data = ((stdoutRecs reqId data).map encRecord).flatten := by
  induction data using fcgiRecords.induct with
  | case1 data h => unfold fcgiRecords stdoutRecs; simp [h]
  | case2 data h hfull ih =>
    rw [fcgiRecords, stdoutRecs]
    simp only [h, hfull, dite_false, if_true, List.map_cons, List.flatten_cons, ← ih]
    unfold encRecord
    have hl : (data.take Gen.maxPacketLen).length = Gen.maxPacketLen := by
      simp only [List.length_take, Gen.isFullRecord, decide_eq_true_eq] at *
      omega
    simp [hl, List.append_assoc]
  | case3 data h hfull =>
    rw [fcgiRecords, stdoutRecs]
    simp only [h, hfull, dite_false, Bool.false_eq_true, if_false, List.map_cons, List.map_nil, List.flatten_cons, List.flatten_nil, List.append_nil]
    unfold encRecord
    simp [List.append_assoc]

theorem stdoutRecs_spec (reqId : Nat) (hr : reqId < 65536) (data : Bytes) :
    ((stdoutRecs reqId data).map (·.content)).flatten = data ∧
    (∀ r ∈ stdoutRecs reqId data, r.Valid ∧ r.type = Spec.FCGI_STDOUT ∧ r.requestId = reqId ∧ r.content ≠ [] ∧ r.content.length ≤ 65535) ∧
    (stdoutRecs reqId data).length ≤ data.length := by
  induction data using stdoutRecs.induct with
  | case1 data h =>
    have : data = [] := List.eq_nil_of_length_eq_zero h
    unfold stdoutRecs; simp [this]
  | case2 data h hfull ih =>
    rw [stdoutRecs]
    simp only [h, hfull, dite_false, if_true]
    obtain ⟨i1, i2, i3⟩ := ih
    have hgt : 65535 < data.length := by simpa [Gen.isFullRecord, lit_maxPacketLen] using hfull
    have hl : (data.take Gen.maxPacketLen).length = 65535 := by
      simp only [List.length_take, lit_maxPacketLen]; omega
    refine ⟨?_, ?_, ?_⟩
    · simp only [List.map_cons, List.flatten_cons, i1, List.take_append_drop]
    · intro r hr'
      simp only [List.mem_cons] at hr'
      cases hr' with
      | inl h1 =>
        subst h1
        refine ⟨⟨(by decide : Gen.fcgiStdout < 256), hr, by simp only [hl]; omega, (by decide : Gen.fullPad < 256)⟩,
          (by decide : Gen.fcgiStdout = Spec.FCGI_STDOUT), rfl, ?_, by simp only [hl]; omega⟩
        intro hnil
        have := congrArg List.length hnil
        simp only [hl] at this
        cases this
      | inr h1 => exact i2 r h1
    · simp only [List.length_cons, List.length_drop, lit_maxPacketLen] at *
      omega
  | case3 data h hfull =>
    rw [stdoutRecs]
    simp only [h, hfull, dite_false, Bool.false_eq_true, if_false]
    have hle : data.length ≤ 65535 := by
      have : ¬ (data.length > Gen.maxPacketLen) := by simpa [Gen.isFullRecord] using hfull
      simp only [lit_maxPacketLen] at this; omega
    have hne : data ≠ [] := by intro hn; simp [hn] at h
    refine ⟨by simp, ?_, ?_⟩
    · intro r hr'
      simp only [List.mem_singleton] at hr'
      subst hr'
      refine ⟨⟨(by decide : Gen.fcgiStdout < 256), hr, by simp only; omega, ?_⟩, (by decide : Gen.fcgiStdout = Spec.FCGI_STDOUT), rfl, hne, hle⟩
      show (8 - data.length % 8) % 8 < 256
      omega
    · simp only [List.length_cons, List.length_nil]
      omega

/-- the two closing records of `prepare_eof` -/
def eofRecs (reqId : Nat) : List Spec.Record :=
  [{ type := Spec.FCGI_STDOUT, requestId := reqId, content := [], padding := 0 },
   { type := Spec.FCGI_END_REQUEST, requestId := reqId, content := [0,0,0,0,0,0,0,0], padding := 0 }]

theorem fcgiEof_eq (reqId : Nat) : fcgiEof reqId = ((eofRecs reqId).map encRecord).flatten := by
  unfold fcgiEof eofRecs encRecord
  have ⟨h1, h2, h3, h4⟩ := lit_eof
  simp [h1, h2, h3, h4, List.append_assoc]

theorem eofRecs_valid (reqId : Nat) (hr : reqId < 65536) : ∀ r ∈ eofRecs reqId, r.Valid := by
  intro r h
  simp only [eofRecs, List.mem_cons, List.mem_singleton, List.not_mem_nil, or_false] at h
  cases h with
  | inl h => subst h; exact ⟨by simp [Spec.FCGI_STDOUT], hr, by simp, by simp⟩
  | inr h => subst h; exact ⟨by simp [Spec.FCGI_END_REQUEST], hr, by simp, by simp⟩

/-- everything a FastCGI connection sends for one response: the gathered inputs of the successive
`format_output` calls (`ds`, the first one starting with the header block), the last call with `completed` -/
def fcgiWire (reqId : Nat) (ds : List Bytes) : Bytes :=
  (ds.map (fcgiRecords reqId)).flatten ++ fcgiEof reqId

def fcgiAllRecs (reqId : Nat) (ds : List Bytes) : List Spec.Record :=
  ds.flatMap (stdoutRecs reqId) ++ eofRecs reqId

theorem fcgiWire_eq (reqId : Nat) (ds : List Bytes) :
    fcgiWire reqId ds = ((fcgiAllRecs reqId ds).map encRecord).flatten := by
  unfold fcgiWire fcgiAllRecs
  rw [fcgiEof_eq, List.map_append, List.flatten_append]
  congr 1
  induction ds with
  | nil => simp
  | cons d ds ih =>
    simp only [List.map_cons, List.flatten_cons, List.flatMap_cons, List.map_append, List.flatten_append, fcgiRecords_eq, ih]

theorem encRecord_length (r : Spec.Record) : 8 ≤ (encRecord r).length := by
  unfold encRecord fcgiHeader be16; simp

theorem flatten_enc_length : ∀ (recs : List Spec.Record), recs.length ≤ ((recs.map encRecord).flatten).length := by
  intro recs
  induction recs with
  | nil => simp
  | cons r rs ih =>
    have := encRecord_length r
    simp only [List.map_cons, List.flatten_cons, List.length_append, List.length_cons]
    omega

theorem deRecords_fcgiWire (reqId : Nat) (hr : reqId < 65536) (ds : List Bytes) :
    Spec.deRecords (fcgiWire reqId ds) = some (fcgiAllRecs reqId ds) := by
  have hv : ∀ r ∈ fcgiAllRecs reqId ds, r.Valid := by
    intro r h
    simp only [fcgiAllRecs, List.mem_append, List.mem_flatMap] at h
    cases h with
    | inl h => obtain ⟨d, _, hd⟩ := h; exact ((stdoutRecs_spec reqId hr d).2.1 r hd).1
    | inr h => exact eofRecs_valid reqId hr r h
  unfold Spec.deRecords
  rw [fcgiWire_eq]
  have hlen := flatten_enc_length (fcgiAllRecs reqId ds)
  obtain ⟨f, hf⟩ : ∃ f, ((fcgiAllRecs reqId ds).map encRecord).flatten.length + 1 = (f + 1) + (fcgiAllRecs reqId ds).length :=
    ⟨((fcgiAllRecs reqId ds).map encRecord).flatten.length - (fcgiAllRecs reqId ds).length, by omega⟩
  rw [hf]
  have := deRecordsAux_list (fcgiAllRecs reqId ds) hv (f + 1) [] []
  simp only [List.append_nil] at this
  rw [this]
  simp [Spec.deRecordsAux]

theorem fcgiStdoutStream_append : ∀ (recs : List Spec.Record) (rid : Nat),
    (∀ r ∈ recs, r.type = Spec.FCGI_STDOUT ∧ r.requestId = rid ∧ r.content ≠ []) →
    Spec.fcgiStdoutStream rid (recs ++ eofRecs rid) = some (recs.map (·.content)).flatten := by
  intro recs
  induction recs with
  | nil => intro rid _; simp [eofRecs, Spec.fcgiStdoutStream]
  | cons r rs ih =>
    intro rid h
    have ⟨h1, h2, h3⟩ := h r (by simp)
    have hrs := ih rid (fun x hx => h x (by simp [hx]))
    -- rs ++ eofRecs has at least two elements, so the generic branch applies
    have : ∃ a b t, rs ++ eofRecs rid = a :: b :: t := by
      cases rs with
      | nil => exact ⟨_, _, [], rfl⟩
      | cons a t =>
        cases t with
        | nil => exact ⟨a, _, _, rfl⟩
        | cons b t' => exact ⟨a, b, t' ++ eofRecs rid, rfl⟩
    obtain ⟨a, b', t, ht⟩ := this
    simp only [List.cons_append, ht] at hrs ⊢
    rw [Spec.fcgiStdoutStream.eq_4 rid r (a :: b' :: t) (by simp) (by simp)]
    simp [h1, h2, h3, hrs]

theorem fcgiStdoutStream_wire (reqId : Nat) (hr : reqId < 65536) (ds : List Bytes) :
    Spec.fcgiStdoutStream reqId (fcgiAllRecs reqId ds) = some ds.flatten := by
  unfold fcgiAllRecs
  rw [fcgiStdoutStream_append]
  · congr 1
    induction ds with
    | nil => simp
    | cons d ds ih =>
      simp only [List.flatMap_cons, List.map_append, List.flatten_append, List.flatten_cons, ih,
        (stdoutRecs_spec reqId hr d).1]
  · intro r h
    simp only [List.mem_flatMap] at h
    obtain ⟨d, _, hd⟩ := h
    have := (stdoutRecs_spec reqId hr d).2.1 r hd
    exact ⟨this.2.1, this.2.2.1, this.2.2.2.1⟩

end Cppcms.C03

namespace Cppcms.C03
open Cppcms

/-! ### header blocks -/

theorem startsCRLFCRLF_append (s rest : Bytes) (h : 4 ≤ s.length) :
    Spec.startsCRLFCRLF (s ++ rest) = Spec.startsCRLFCRLF s := by
  unfold Spec.startsCRLFCRLF
  rw [List.take_append_of_le_length h]

theorem startsCRLFCRLF_length (s : Bytes) (h : Spec.startsCRLFCRLF s = true) : 4 ≤ s.length := by
  unfold Spec.startsCRLFCRLF at h
  have := congrArg List.length (eq_of_beq h)
  simp only [List.length_take, List.length_cons, List.length_nil] at this
  omega

theorem splitHeadAux_some_length : ∀ (s : Bytes) (acc : List UInt8) (r : Bytes × Bytes),
    Spec.splitHeadAux s acc = some r → 4 ≤ s.length := by
  intro s
  induction s with
  | nil => intro acc r h; simp [Spec.splitHeadAux] at h
  | cons c s ih =>
    intro acc r h
    rw [Spec.splitHeadAux] at h
    by_cases hs : Spec.startsCRLFCRLF (c :: s) = true
    · exact startsCRLFCRLF_length _ hs
    · simp only [hs, Bool.false_eq_true, if_false] at h
      have := ih _ _ h
      simp only [List.length_cons]; omega

/-- a header block found in `s` is found unchanged when more bytes follow -/
theorem splitHeadAux_append : ∀ (s : Bytes) (acc : List UInt8) (hd r rest : Bytes),
    Spec.splitHeadAux s acc = some (hd, r) → Spec.splitHeadAux (s ++ rest) acc = some (hd, r ++ rest) := by
  intro s
  induction s with
  | nil => intro acc hd r rest h; simp [Spec.splitHeadAux] at h
  | cons c s ih =>
    intro acc hd r rest h
    rw [Spec.splitHeadAux] at h
    rw [List.cons_append, Spec.splitHeadAux]
    by_cases hs : Spec.startsCRLFCRLF (c :: s) = true
    · have h4 := startsCRLFCRLF_length _ hs
      have : Spec.startsCRLFCRLF (c :: (s ++ rest)) = true := by
        rw [← List.cons_append, startsCRLFCRLF_append _ _ h4]; exact hs
      simp only [hs, if_true, Option.some.injEq, Prod.mk.injEq] at h
      simp only [this, if_true, Option.some.injEq, Prod.mk.injEq]
      refine ⟨h.1, ?_⟩
      rw [← h.2]
      simp only [List.length_cons] at h4
      rw [List.drop_append_of_le_length (by omega)]
    · simp only [hs, Bool.false_eq_true, if_false] at h
      have h4 := splitHeadAux_some_length _ _ _ h
      have : Spec.startsCRLFCRLF (c :: (s ++ rest)) = false := by
        rw [← List.cons_append, startsCRLFCRLF_append _ _ (by simp only [List.length_cons]; omega)]
        simpa using hs
      simp only [this, Bool.false_eq_true, if_false]
      exact ih _ _ _ _ h

/-- `H` is exactly one header block: its first CRLFCRLF is its end -/
def HeadOk (H : Bytes) : Prop := Spec.splitHead H = some (H, [])

theorem splitHead_append (H rest : Bytes) (h : HeadOk H) : Spec.splitHead (H ++ rest) = some (H, rest) := by
  unfold HeadOk Spec.splitHead at *
  have := splitHeadAux_append H [] H [] rest h
  simpa using this

/-! ### SCGI / CGI -/

/-- all output of a sequence of `format_output` calls -/
def scgiRun : ScgiSt → List Bytes → Bytes
  | _, [] => []
  | st, w :: ws => (scgiFormat st w).2 ++ scgiRun (scgiFormat st w).1 ws

theorem scgiRun_written : ∀ (ws : List Bytes) (st : ScgiSt), st.headersWritten = true → scgiRun st ws = ws.flatten := by
  intro ws
  induction ws with
  | nil => intro st _; rfl
  | cons w ws ih =>
    intro st h
    simp only [scgiRun, scgiFormat, h, if_true, List.flatten_cons]
    rw [ih st h]

theorem scgiRun_fresh (H : Bytes) (w : Bytes) (ws : List Bytes) :
    scgiRun { headers := H, headersWritten := false } (w :: ws) = H ++ (w :: ws).flatten := by
  simp only [scgiRun, scgiFormat, Bool.false_eq_true, if_false, List.flatten_cons]
  rw [scgiRun_written ws _ rfl, List.append_assoc]

/-! ### FastCGI state machine -/

/-- all output of a sequence of `format_output(input, completed)` calls -/
def fcgiRun : FcgiSt → List (Bytes × Bool) → Bytes
  | _, [] => []
  | st, (w, e) :: cs => (fcgiFormat st w e).2 ++ fcgiRun (fcgiFormat st w e).1 cs

theorem fcgiRun_written : ∀ (ws : List Bytes) (last : Bytes) (st : FcgiSt), st.headersWritten = true →
    fcgiRun st (ws.map (·, false) ++ [(last, true)]) = fcgiWire st.reqId (ws ++ [last]) := by
  intro ws
  induction ws with
  | nil =>
    intro last st h
    simp [fcgiRun, fcgiFormat, h, fcgiWire]
  | cons w ws ih =>
    intro last st h
    have hst : (fcgiFormat st w false).1.headersWritten = true := rfl
    have hid : (fcgiFormat st w false).1.reqId = st.reqId := rfl
    simp only [List.map_cons, List.cons_append, fcgiRun]
    rw [ih last _ hst, hid]
    simp [fcgiFormat, h, fcgiWire, List.append_assoc]

/-- the first call carries the header block in front of its input -/
theorem fcgiRun_fresh (reqId : Nat) (H : Bytes) (ws : List Bytes) (last : Bytes) :
    fcgiRun { reqId := reqId, responseHeaders := H, headersWritten := false } (ws.map (·, false) ++ [(last, true)]) =
      match ws with
      | [] => fcgiWire reqId [H ++ last]
      | w :: ws' => fcgiWire reqId ((H ++ w) :: ws' ++ [last]) := by
  cases ws with
  | nil => simp [fcgiRun, fcgiFormat, fcgiWire]
  | cons w ws' =>
    simp only [List.map_cons, List.cons_append, fcgiRun]
    have hst : (fcgiFormat { reqId := reqId, responseHeaders := H, headersWritten := false } w false).1.headersWritten = true := rfl
    rw [fcgiRun_written ws' last _ hst]
    simp [fcgiFormat, fcgiWire, List.append_assoc]

end Cppcms.C03
