import Cppcms.C03.HttpLemmas
/-! The three protocols behind one interface (`Framing`), each with its round-trip theorem. -/
namespace Cppcms.C03
open Cppcms

/-! ### a framing protocol, abstractly -/

/-- what the composition needs from a protocol: running `format_output` over the calls of a finalized
response gives a wire image that the independent de-framer decodes to one head and the concatenated inputs -/
structure Framing where
  run : List (Bytes × Bool) → Bytes × Bool
  deframe : Bytes → Option (Bytes × Bytes)
  /-- side condition on the total body length (HTTP with an announced Content-Length) -/
  lengthOk : Nat → Prop
  roundtrip : ∀ (ws : List Bytes) (last : Bytes), lengthOk (ws.flatten ++ last).length →
    ∃ head, (run (callsOf ws last)).2 = false ∧ deframe (run (callsOf ws last)).1 = some (head, ws.flatten ++ last)

/-- HTTP, from the state `set_response_headers` prepared -/
def httpFraming (st : HttpSt) (l0 : Bytes) (rest0 : List Bytes) (h : HttpReady st l0 rest0) : Framing where
  run := httpRun st
  deframe := Spec.deHttp
  lengthOk := fun total => ∀ n, st.contentLength = some n → total = n
  roundtrip := by
    intro ws last hl
    obtain ⟨extras, enc, h1, h2⟩ := http_roundtrip_lemma st l0 rest0 h ws last hl
    exact ⟨_, by rw [h1], by rw [h1]; exact h2⟩

/-- FastCGI with a CGI header block `H` -/
def fcgiFraming (reqId : Nat) (hr : reqId < 65536) (H : Bytes) (hH : HeadOk H) : Framing where
  run := fun cs => (fcgiRun { reqId := reqId, responseHeaders := H, headersWritten := false } cs, false)
  deframe := Spec.deFcgi reqId
  lengthOk := fun _ => True
  roundtrip := by
    intro ws last _
    refine ⟨H, rfl, ?_⟩
    have hrun := fcgiRun_fresh reqId H ws last
    show Spec.deFcgi reqId (fcgiRun { reqId := reqId, responseHeaders := H, headersWritten := false } (ws.map (·, false) ++ [(last, true)])) = _
    rw [hrun]
    unfold Spec.deFcgi
    cases ws with
    | nil =>
      simp only [deRecords_fcgiWire reqId hr, fcgiStdoutStream_wire reqId hr]
      simp only [List.flatten_cons, List.flatten_nil, List.append_nil, List.nil_append]
      exact splitHead_append H last hH
    | cons w ws' =>
      simp only [deRecords_fcgiWire reqId hr, fcgiStdoutStream_wire reqId hr]
      have : ((H ++ w) :: ws' ++ [last]).flatten = H ++ ((w :: ws').flatten ++ last) := by simp [List.append_assoc]
      rw [this]
      exact splitHead_append H _ hH

/-- SCGI / CGI with a header block `H` -/
def scgiFraming (H : Bytes) (hH : HeadOk H) : Framing where
  run := fun cs => (scgiRun { headers := H, headersWritten := false } (cs.map (·.1)), false)
  deframe := Spec.deScgi
  lengthOk := fun _ => True
  roundtrip := by
    intro ws last _
    refine ⟨H, rfl, ?_⟩
    simp only
    have : (callsOf ws last).map (·.1) = ws ++ [last] := by
      simp only [callsOf, List.map_append, List.map_map, List.map_cons, List.map_nil]
      congr 1
      induction ws with
      | nil => rfl
      | cons w ws ih => simp only [List.map_cons, Function.comp]; rw [ih]
    rw [this]
    unfold Spec.deScgi
    cases ws with
    | nil =>
      rw [List.nil_append, scgiRun_fresh]
      simp only [List.flatten_cons, List.flatten_nil, List.append_nil, List.nil_append]
      exact splitHead_append H last hH
    | cons w ws' =>
      rw [List.cons_append, scgiRun_fresh]
      have : (w :: (ws' ++ [last])).flatten = (w :: ws').flatten ++ last := by simp [List.append_assoc]
      rw [this]
      exact splitHead_append H _ hH

end Cppcms.C03

namespace Cppcms.C03
open Cppcms

end Cppcms.C03
