import Cppcms.C03.ConnWriteLemmas
import Cppcms.C03.DeviceLemmas
import Cppcms.C03.HttpLemmas
/-! Composition of the layers: filter buffers → device → framing → connection write path. -/
namespace Cppcms.C03
open Cppcms

/-! ### actions of one layer as operations on the next -/

def Act.toBufOp : Act → BufOp
  | .put bs => .put bs
  | .sync => .sync

def Act.toDevOp : Act → DevOp
  | .put bs => .put bs
  | .sync => .sync

theorem bufOps_data (acts : List Act) : ((acts.map Act.toBufOp).map BufOp.data).flatten = actBytes acts := by
  induction acts with
  | nil => rfl
  | cons a as ih =>
    cases a <;> simp [Act.toBufOp, BufOp.data, actBytes, Act.bytes] at * <;> rw [ih]

theorem devOps_data (acts : List Act) : ((acts.map Act.toDevOp).map DevOp.data).flatten = actBytes acts := by
  induction acts with
  | nil => rfl
  | cons a as ih =>
    cases a <;> simp [Act.toDevOp, DevOp.data, actBytes, Act.bytes] at * <;> rw [ih]

/-- `Dev.apply` (used by `Model.lean` to push a layer's actions into the device) is a run of device operations -/
theorem Dev.apply_eq_run : ∀ (acts : List Act) (d : Dev) (k : Log), Dev.apply logIf d k acts = Dev.run (d, k) (acts.map Act.toDevOp) := by
  intro acts
  induction acts with
  | nil => intro d k; rfl
  | cons a as ih =>
    intro d k
    cases a with
    | put bs => simp only [Dev.apply, List.map_cons, Act.toDevOp, Dev.run, List.foldl_cons, Dev.step]; exact ih _ _
    | sync => simp only [Dev.apply, List.map_cons, Act.toDevOp, Dev.run, List.foldl_cons, Dev.step]; exact ih _ _

/-! ### the calls a finalized device has made -/

theorem log_no_eof : ∀ (k : Log), Log.eofs k = 0 → k = (k.map (·.1)).map (·, false) := by
  intro k
  induction k with
  | nil => intro _; rfl
  | cons x xs ih =>
    intro h
    obtain ⟨bs, e⟩ := x
    cases e with
    | true => simp [Log.eofs] at h
    | false =>
      have : Log.eofs xs = 0 := by simpa [Log.eofs] using h
      rw [List.map_cons, List.map_cons]
      congr 1
      exact ih this

/-- eof exactly once, with the last call: the log is `callsOf ws last` -/
theorem log_callsOf (k : Log) (h1 : Log.eofs k = 1) (h2 : k.getLast?.map (fun (x : Bytes × Bool) => x.2) = some true) :
    ∃ ws last, k = callsOf ws last ∧ Log.bytes k = ws.flatten ++ last := by
  have hne : k ≠ [] := by intro h; subst h; simp at h2
  obtain ⟨init, x, hk⟩ : ∃ init x, k = init ++ [x] := ⟨k.dropLast, k.getLast hne, (List.dropLast_concat_getLast hne).symm⟩
  obtain ⟨last, e⟩ := x
  subst hk
  have he : e = true := by simpa using h2
  subst he
  have h0 : Log.eofs init = 0 := by
    have := Log.eofs_append init last true
    rw [h1] at this
    simp at this
    omega
  refine ⟨init.map (·.1), last, ?_, ?_⟩
  · unfold callsOf
    rw [← log_no_eof init h0]
  · rw [Log.bytes_append]; rfl

/-! ### a framing protocol, abstractly -/

/-- what the composition needs from a protocol: running `format_output` over the calls of a finalized
response gives a wire image that the independent de-framer decodes to one head and the concatenated inputs -/
structure Framing where
  run : List (Bytes × Bool) → Bytes × Bool
  deframe : Bytes → Option (Bytes × Bytes)
  /-- side condition on the total body length (HTTP with an announced Content-Length) -/
  lengthOk : Nat → Prop
  roundtrip : ∀ (ws : List Bytes) (last : Bytes), lengthOk (ws.flatten ++ last).length →
    ∃ head, (run (callsOf ws last)).2 = false ∧ deframe (run (callsOf ws last)).1 = some (head, ws.flatten ++ last)

/-- HTTP, from the state `set_response_headers` prepared -/
def httpFraming (st : HttpSt) (l0 : Bytes) (rest0 : List Bytes) (h : HttpReady st l0 rest0) : Framing where
  run := httpRun st
  deframe := Spec.deHttp
  lengthOk := fun total => ∀ n, st.contentLength = some n → total = n
  roundtrip := by
    intro ws last hl
    obtain ⟨extras, enc, h1, h2⟩ := http_roundtrip_lemma st l0 rest0 h ws last hl
    exact ⟨_, by rw [h1], by rw [h1]; exact h2⟩

/-- FastCGI with a CGI header block `H` -/
def fcgiFraming (reqId : Nat) (hr : reqId < 65536) (H : Bytes) (hH : HeadOk H) : Framing where
  run := fun cs => (fcgiRun { reqId := reqId, responseHeaders := H, headersWritten := false } cs, false)
  deframe := Spec.deFcgi reqId
  lengthOk := fun _ => True
  roundtrip := by
    intro ws last _
    refine ⟨H, rfl, ?_⟩
    have hrun := fcgiRun_fresh reqId H ws last
    show Spec.deFcgi reqId (fcgiRun { reqId := reqId, responseHeaders := H, headersWritten := false } (ws.map (·, false) ++ [(last, true)])) = _
    rw [hrun]
    unfold Spec.deFcgi
    cases ws with
    | nil =>
      simp only [deRecords_fcgiWire reqId hr, fcgiStdoutStream_wire reqId hr]
      simp only [List.flatten_cons, List.flatten_nil, List.append_nil, List.nil_append]
      exact splitHead_append H last hH
    | cons w ws' =>
      simp only [deRecords_fcgiWire reqId hr, fcgiStdoutStream_wire reqId hr]
      have : ((H ++ w) :: ws' ++ [last]).flatten = H ++ ((w :: ws').flatten ++ last) := by simp [List.append_assoc]
      rw [this]
      exact splitHead_append H _ hH

/-- SCGI / CGI with a header block `H` -/
def scgiFraming (H : Bytes) (hH : HeadOk H) : Framing where
  run := fun cs => (scgiRun { headers := H, headersWritten := false } (cs.map (·.1)), false)
  deframe := Spec.deScgi
  lengthOk := fun _ => True
  roundtrip := by
    intro ws last _
    refine ⟨H, rfl, ?_⟩
    simp only
    have : (callsOf ws last).map (·.1) = ws ++ [last] := by
      simp only [callsOf, List.map_append, List.map_map, List.map_cons, List.map_nil]
      congr 1
      induction ws with
      | nil => rfl
      | cons w ws ih => simp only [List.map_cons, Function.comp]; rw [ih]
    rw [this]
    unfold Spec.deScgi
    cases ws with
    | nil =>
      rw [List.nil_append, scgiRun_fresh]
      simp only [List.flatten_cons, List.flatten_nil, List.append_nil, List.nil_append]
      exact splitHead_append H last hH
    | cons w ws' =>
      rw [List.cons_append, scgiRun_fresh]
      have : (w :: (ws' ++ [last])).flatten = (w :: ws').flatten ++ last := by simp [List.append_assoc]
      rw [this]
      exact splitHead_append H _ hH

end Cppcms.C03

namespace Cppcms.C03
open Cppcms

/-- device + framing + connection: whatever the device was given arrives, framed once, at the peer
(in the raw modes: what follows the application's own header block) -/
theorem chain_device (F : Framing) (isAsync full raw : Bool) (n : Nat) (ops : List DevOp)
    (hlen : F.lengthOk (filterOf raw (ops.map DevOp.data).flatten).length)
    (evs : List Ev) (hd : disciplined {} evs = true) (hb : (runEvs {} evs).broken = false) (hdr : (runEvs {} evs).backlog = [])
    (hh : (evs.map Ev.data).flatten =
      (F.run ((Dev.run (Dev.fresh isAsync full raw n, []) ops).1.close logIf (Dev.run (Dev.fresh isAsync full raw n, []) ops).2).2).1) :
    ∃ head, F.deframe (runEvs {} evs).wire = some (head, filterOf raw (ops.map DevOp.data).flatten) := by
  have ⟨hi0, hq0, hm0⟩ := Dev.fresh_inv isAsync full raw n
  have ⟨hi, hq⟩ := Dev.run_inv ops _ [] [] hi0 hq0
  have hm := Dev.run_rawMode ops _ [] [] hi0
  simp only [List.nil_append] at hi
  have ⟨c1, _, c3, c4, _⟩ := Dev.close_spec _ _ _ hi hq
  rw [hm, hm0] at c1
  obtain ⟨ws, last, hk, hbytes⟩ := log_callsOf _ c3 c4
  rw [hk] at hh
  rw [c1] at hbytes
  obtain ⟨head, _, hde⟩ := F.roundtrip ws last (by rw [← hbytes]; exact hlen)
  refine ⟨head, ?_⟩
  have hw : (runEvs {} evs).wire = (evs.map Ev.data).flatten := by
    have h := runEvs_inv evs {} (by simp [Conn.Inv, Conn.backlog]) hd hb
    have hh2 := runEvs_handed evs {}
    simp only [List.nil_append] at hh2
    unfold Conn.Inv at h
    rw [hdr, List.append_nil, hh2] at h
    exact h
  rw [hw, hh, hde, hbytes]

/-- the whole chain of a compressed, cached page: application → gzip_buf → copy_buf → device → framing → connection
(compression only happens in io mode `normal`, so the device is not in raw mode) -/
theorem chain_gzip_cached (F : Framing) (D : Deflater) (gzBuf : Int) (isAsync full : Bool) (n : Nat) (appOps : List BufOp)
    (inflate : Bytes → Option Bytes)
    (hinf : ∀ cs l, (∀ x ∈ cs, x.2 ≠ Flush.finish) →
        inflate (feedAll D D.init (cs ++ [(l, Flush.finish)])).2 = some ((cs ++ [(l, Flush.finish)]).map (·.1)).flatten) :
    let g := Gz.run (Gz.open D gzBuf, []) appOps
    let acts1 := g.2 ++ g.1.close.2
    let k := Copy.run ({}, []) (acts1.map Act.toBufOp)
    let acts2 := k.2 ++ k.1.close.2
    let devOps := acts2.map Act.toDevOp
    let d := Dev.run (Dev.fresh isAsync full false n, []) devOps
    F.lengthOk (actBytes acts1).length →
    ∀ evs, disciplined {} evs = true → (runEvs {} evs).broken = false → (runEvs {} evs).backlog = [] →
      (evs.map Ev.data).flatten = (F.run (d.1.close logIf d.2).2).1 →
      ∃ head body, F.deframe (runEvs {} evs).wire = some (head, body) ∧
        inflate body = some (appOps.map BufOp.data).flatten ∧ k.1.close.1.getstr.1 = body := by
  intro g acts1 k acts2 devOps d hlen evs hd hb hdr hh
  have hg := Gz.run_inv appOps (Gz.open D gzBuf) [] [] (by simpa [actBytes] using Gz.open_inv D gzBuf)
  simp only [List.nil_append] at hg
  obtain ⟨calls, lastc, g1, g2, g3, g4, _⟩ := Gz.close_spec g.1 _ _ hg
  have hz : inflate (actBytes acts1) = some (appOps.map BufOp.data).flatten := by
    show inflate (actBytes (g.2 ++ g.1.close.2)) = _
    rw [actBytes_append, ← g4, g1, hinf calls lastc g2, ← g1, g3]
  have hk := Copy.run_inv (acts1.map Act.toBufOp) {} [] [] (by simpa [actBytes] using Copy.inv_init)
  simp only [List.nil_append] at hk
  have ⟨k1, k2⟩ := Copy.close_spec k.1 _ _ hk
  rw [bufOps_data] at k1 k2
  have hacts2 : actBytes acts2 = actBytes acts1 := by
    show actBytes (k.2 ++ k.1.close.2) = _
    rw [actBytes_append]; exact k1
  have hdev := chain_device F isAsync full false n devOps (by simp only [filterOf]; rw [devOps_data, hacts2]; exact hlen) evs hd hb hdr hh
  simp only [filterOf, Bool.false_eq_true, if_false] at hdev
  rw [devOps_data, hacts2] at hdev
  obtain ⟨head, hde⟩ := hdev
  exact ⟨head, actBytes acts1, hde, hz, k2⟩

end Cppcms.C03
