import Cppcms.Common
import Cppcms.C03.Model
import Cppcms.C03.Spec
/-!
Line-protocol driver for C03.

* case line `<proto> <mode> <opts> <script> <sched>` → the model's prediction
  `<wire> <cache copy> <deflater trace>` (for cases compressed by the real zlib the first two are `*`:
  the compressed bytes are zlib's, the model predicts the calls made to it);
* `J <case> <wire> <cache> <gunzip>` → the property predicate on bytes captured from the real server
  (`1`, or `0:<reason>`), using only `Spec` definitions for the framing;
* `D <proto> <wire>` → `<head> <body>` as the `Spec` de-framer sees them (cross-check of the harness' own decoder).

Arguments: gzip.buffer, service.output_buffer_size, service.async_output_buffer_size (as given to the harness).
-/
open Cppcms Cppcms.C03

def flushLetter : Flush → String
  | .noFlush => "n" | .syncFlush => "s" | .finish => "e"

def ztrace (r : Resp stubDeflater) : String :=
  match r.gz with
  | none => "-"
  | some g => if g.fed.isEmpty then "-" else String.join (g.fed.map fun (i, f) => s!"{flushLetter f}{i.length}.")

def deframe (p : Proto) (wire : Bytes) : Option (Bytes × Bytes) :=
  match p with
  | .scgi => Spec.deScgi wire
  | .fcgi => Spec.deFcgi 1 wire
  | .http _ _ => Spec.deHttp wire

/-- ops that make the response request its stream (headers are fixed from then on) -/
def Cppcms.C03.Op.startsOutput : Op → Bool
  | .write _ _ | .putc _ _ | .lit _ | .out | .flush | .fetchPage _ | .storePage _ => true
  | _ => false

def headerOps (script : List Op) : List Op := script.takeWhile (!·.startsOutput)

def countLine (ls : List Bytes) (l : Bytes) : Nat := (ls.filter (· == l)).length

/-- expected header lines (name, value) set through the API before the stream was requested, as the
response must carry them; `Status` goes to the status line on HTTP -/
def expectedHeaders (ops : List Op) : Headers :=
  ops.foldl (fun h op => match op with
    | .setHeader n v => h.set n v
    | .addHeader n v => h.add n v
    | .cookie n v => h.addRaw (b Gen.cookiePrefix ++ n ++ [61] ++ v ++ b Gen.cookieSuffix)
    | .contentLength n => h.set sContentLengthName (decDigits n)
    | .status n => h.set sStatus (decDigits n ++ [32] ++ statusText n)
    | _ => h) (({} : Headers).set sContentType sTextHtml)

def judge (cs : Case) (wire : Bytes) (cache : Option Bytes) (gun : Option Bytes) (cacheHit : Bool) : String :=
  match deframe cs.proto wire with
  | none => "0:not-framed"
  | some (head, body) =>
    let payload := (cs.script.map Op.payload).flatten
    let ls := Spec.lines head
    -- expected application bytes and header lines
    let exp : Option (Bytes × List Bytes × Option Bytes) :=
      if cs.mode.isRaw then
        match Spec.splitHead payload with
        | none => none
        | some (rawHead, rest) =>
          let h := ((Spec.lines rawHead).filter (!·.isEmpty)).foldl rawAddHeader ({} : Headers)
          some (rest, (h.map.filter (fun kv => !ieq kv.1 sStatus)).map (fun kv => kv.1 ++ [58, 32] ++ kv.2) ++ h.added,
                (mapFind sStatus h.map).map (·.2))
      else
        let h := expectedHeaders (headerOps cs.script)
        some (payload, (h.map.filter (fun kv => !ieq kv.1 sStatus)).map (fun kv => kv.1 ++ [58, 32] ++ kv.2) ++ h.added,
              (mapFind sStatus h.map).map (·.2))
    match exp with
    | none => "0:script-has-no-raw-header-block"
    | some (app, hlines, status) =>
      let encoded := (Spec.fieldValues Spec.sContentEncoding ls).any (Spec.lower · == Spec.sChunked.take 0 ++ [103,122,105,112])
      let bodyOk : Bool :=
        if cacheHit then true      -- a page served from the cache is judged against the stored page by the check script
        else if encoded then
          if cs.zstub then Spec.deStub body == some app
          else gun == some app
        else body == app
      if !bodyOk then "0:body-differs-from-application-bytes"
      else
        let isHttp := match cs.proto with | .http _ _ => true | _ => false
        -- every header/cookie exactly once; on HTTP the status is in the status line, elsewhere a Status header
        let missing := hlines.filter fun l => countLine ls l != countLine hlines l
        let statusOk : Bool := match status with
          | none => true
          | some v => if isHttp then (ls.headD []).drop 9 == v else countLine ls (sStatus ++ [58, 32] ++ v) == 1
        if !missing.isEmpty then "0:header-missing-or-repeated"
        else if !statusOk then "0:status"
        else if (ls.filter (·.isEmpty)).length != 1 then "0:header-block-not-terminated-once"
        else match cache with
          | some c => if c == body then "1" else "0:cache-copy-differs-from-sent-page"
          | none => "1"

def parseOptHex (s : String) : Option (Option Bytes) :=
  if s == "none" then some none else (parseHex s).map some

def step (cfg : Config) (cache : PageCache) (line : String) : PageCache × String :=
  match words line with
  | "J" :: p :: m :: o :: sc :: sd :: wire :: cch :: gun :: hit :: [] =>
    match parseCase [p, m, o, sc, sd], parseHex wire, parseOptHex cch, parseOptHex gun with
    | some cs, some wire, some cch, some gun => (cache, judge cs wire cch gun (hit == "1"))
    | _, _, _, _ => (cache, "bad-op")
  | ["D", p, wire] =>
    match parseCase [p, "normal", "-", "-", "-"], parseHex wire with
    | some cs, some wire =>
      (cache, match deframe cs.proto wire with
        | some (h, bd) => s!"{toHex h} {toHex bd}"
        | none => "none")
    | _, _ => (cache, "bad-op")
  | w =>
    match parseCase w with
    | none => (cache, "bad-op")
    | some cs =>
      let res := runCase cfg cache cs
      let x := res.run
      let w := res.wire
      let real := cs.gz && !cs.zstub && x.resp.gz.isSome
      let wire := if real then "*" else toHex w.conn.wire
      let cch := match x.cacheCopy with
        | none => "none"
        | some c => if real then "*" else toHex c
      -- model-internal anomalies (none is expected with the schedules the harness can inject): they show up as a diff
      let note := (if w.violated then "violated" else "") ++
        (if !w.conn.backlog.isEmpty then "undrained" else "") ++
        (if w.conn.broken then "broken" else "") ++
        (if !w.violated && w.conn.wire != w.outs then "invariant" else "")
      (x.cache, s!"{wire} {cch} {ztrace x.resp} {if note.isEmpty then "-" else note}")

def main (args : List String) : IO Unit := do
  let num (i : Nat) (d : Int) : Int := match args[i]? with
    | some s => s.toInt?.getD d
    | none => d
  let cfg : Config := { gzipBuffer := num 0 (-1), outputBuffer := (num 1 16384).toNat, asyncOutputBuffer := (num 2 1024).toNat }
  lineLoop ([] : PageCache) (step cfg)
