import Cppcms.Common
import Cppcms.C03.Model
import Cppcms.C03.Spec
import Cppcms.C03.HeadersLemmas
/-!
Line-protocol driver for C03.

* case line `<proto> <mode> <opts> <script> <sched>` → the model's prediction
  `<wire> <cache copy> <deflater trace>` (for cases compressed by the real zlib the first two are `*`:
  the compressed bytes are zlib's, the model predicts the calls made to it);
* `J <case> <wire> <cache> <gunzip>` → the property predicate on bytes captured from the real server
  (`1`, or `0:<reason>`), using only `Spec` definitions for the framing;
* `D <proto> <wire>` → `<head> <body>` as the `Spec` de-framer sees them (cross-check of the harness' own decoder).

Arguments: gzip.buffer, service.output_buffer_size, service.async_output_buffer_size (as given to the harness).
-/
open Cppcms Cppcms.C03

def flushLetter : Flush → String
  | .noFlush => "n" | .syncFlush => "s" | .finish => "e"

def ztrace (r : Resp stubDeflater) : String :=
  match r.gz with
  | none => "-"
  | some g => if g.fed.isEmpty then "-" else String.join (g.fed.map fun (i, f) => s!"{flushLetter f}{i.length}.")

def deframe (p : Proto) (wire : Bytes) : Option (Bytes × Bytes) :=
  match p with
  | .scgi => Spec.deScgi wire
  | .fcgi => Spec.deFcgi 1 wire
  | .http _ _ => Spec.deHttp wire

/-- ops that make the response request its stream (headers are fixed from then on) -/
def Cppcms.C03.Op.startsOutput : Op → Bool
  | .write _ _ | .putc _ _ | .lit _ | .out | .finalize | .flush | .fetchPage _ | .storePage _ => true
  | _ => false

def headerOps (script : List Op) : List Op := script.takeWhile (!·.startsOutput)

def countLine (ls : List Bytes) (l : Bytes) : Nat := (ls.filter (· == l)).length

/-- the header-container operation an action amounts to -/
def Cppcms.C03.Op.toHOp : Op → Option HOp
  | .setHeader n v => some (.set n v)
  | .addHeader n v => some (.add n v)
  | .cookie n v => some (.addRaw (b Gen.cookiePrefix ++ n ++ [61] ++ v ++ b Gen.cookieSuffix))
  | .contentLength n => some (.set sContentLengthName (decDigits n))
  | .status n => some (.set sStatus (decDigits n ++ [32] ++ statusText n))
  | _ => none

/-- what the application did to its headers before the stream was requested (`response::response` sets Content-Type) -/
def appHeaderOps (script : List Op) : List HOp :=
  HOp.set sContentType sTextHtml :: (headerOps script).filterMap Op.toHOp

/-- the property's expectation for the header block, stated with the *specification* of the container
(`lastValue`: the last assignment under any spelling wins, an empty one erases; added lines all, in order) and the
RFC field parser of `Spec`, not with the container's implementation: for every name the application touched, the
field values the client sees under that name are exactly the surviving assigned value (if any) followed by the
added ones in order.  `Status` is returned separately (status line on HTTP). -/
def headerExpectation (hops : List HOp) (ls : List Bytes) : Bool × Option Bytes :=
  let strip (v : Bytes) : Bytes := v.dropWhile Spec.isWs
  let addedFields := (hops.filterMap HOp.adds).filterMap Spec.parseField
  let setNames := (hops.filterMap HOp.sets).map (·.1)
  let names := setNames.map Spec.lower ++ addedFields.map (·.1)
  let lstatus := Spec.lower sStatus
  let ok := names.all fun ln =>
    if ln == lstatus then true else
    -- any spelling of the name serves for `lastValue`
    let v := match setNames.find? (fun n => Spec.lower n == ln) with
      | some n => lastValue n [] hops
      | none => []
    let expected := (if v.isEmpty then [] else [strip v]) ++ (addedFields.filter (·.1 == ln)).map (·.2)
    Spec.fieldValues ln ls == expected
  let st := lastValue sStatus [] hops
  (ok, if st.isEmpty then none else some st)

/-- raw modes: the property's expectation for the application's *own* header block, stated with the RFC field parser of
`Spec` only (not with the model of `cgi_headers_parser`).  What the code guarantees: every line the application wrote is
carried — for each field name (compared without regard to case) the client sees exactly the values the application wrote
under that name, all of them, in the order written (repeated `Set-Cookie`/`Link`/`Vary` lines, empty values included);
lines that are not `name: value` are passed on verbatim.  `Status` and `Content-Length` are assignments: the last one
counts.  The *position* of a line in the block is not guaranteed (`Status`/`Content-Length` move to the front, the
connection adds its own lines). -/
def rawHeaderExpectation (rawHead : Bytes) (ls : List Bytes) : Bool × Option Bytes :=
  let appLines := (Spec.lines rawHead).filter (!·.isEmpty)
  let fields := appLines.filterMap Spec.parseField
  let lstatus := Spec.lower sStatus
  let lastNonEmpty (vs : List Bytes) : Option Bytes := match vs.getLast? with
    | some v => if v.isEmpty then none else some v
    | none => none
  let names := (fields.map (·.1)).eraseDups
  let okFields := names.all fun ln =>
    if ln == lstatus then true
    else if ln == Spec.sContentLength then
      match lastNonEmpty (Spec.fieldValues ln appLines) with
      | some v => Spec.fieldValues ln ls == [v]
      | none => true
    else Spec.fieldValues ln ls == Spec.fieldValues ln appLines
  let plain := appLines.filter fun l => (Spec.parseField l).isNone
  let okPlain := plain.all fun l => countLine ls l == countLine plain l
  (okFields && okPlain, lastNonEmpty (Spec.fieldValues lstatus appLines))

def judge (cs : Case) (wire : Bytes) (cache : Option Bytes) (gun : Option Bytes) (cacheHit : Bool) : String :=
  match deframe cs.proto wire with
  | none => "0:not-framed"
  | some (head, body) =>
    let payload := (cs.script.map Op.payload).flatten
    let ls := Spec.lines head
    -- expected application bytes and header lines
    let exp : Option (Bytes × Bool × Option Bytes) :=
      if cs.mode.isRaw then
        match Spec.splitHead payload with
        | none => none
        | some (rawHead, rest) =>
          let e := rawHeaderExpectation rawHead ls
          some (rest, e.1, e.2)
      else
        let e := headerExpectation (appHeaderOps cs.script) ls
        some (payload, e.1, e.2)
    match exp with
    | none => "0:script-has-no-raw-header-block"
    | some (app, headersOk, status) =>
      let encoded := (Spec.fieldValues Spec.sContentEncoding ls).any (Spec.lower · == Spec.sChunked.take 0 ++ [103,122,105,112])
      let bodyOk : Bool :=
        if cacheHit then true      -- a page served from the cache is judged against the stored page by the check script
        else if encoded then
          if cs.zstub then Spec.deStub body == some app
          else gun == some app
        else body == app
      if !bodyOk then "0:body-differs-from-application-bytes"
      else
        let isHttp := match cs.proto with | .http _ _ => true | _ => false
        -- on HTTP the status is in the status line (default 200 Ok) and not a header; elsewhere a Status header, once, or none
        let statusFields := Spec.fieldValues (Spec.lower sStatus) ls
        let statusOk : Bool :=
          if isHttp then (ls.headD []).drop 9 == status.getD (b Gen.defaultStatus) && statusFields.isEmpty
          else match status with
            | none => statusFields.isEmpty
            | some v => statusFields == [v.dropWhile Spec.isWs]
        if !headersOk then "0:header-missing-repeated-or-stale"
        else if !statusOk then "0:status"
        else if (ls.filter (·.isEmpty)).length != 1 then "0:header-block-not-terminated-once"
        else match cache with
          | some c => if c == body then "1" else "0:cache-copy-differs-from-sent-page"
          | none => "1"

def parseOptHex (s : String) : Option (Option Bytes) :=
  if s == "none" then some none else (parseHex s).map some

def step (cfg : Config) (cache : PageCache) (line : String) : PageCache × String :=
  match words line with
  | "J" :: p :: m :: o :: sc :: sd :: wire :: cch :: gun :: hit :: [] =>
    match parseCase [p, m, o, sc, sd], parseHex wire, parseOptHex cch, parseOptHex gun with
    | some cs, some wire, some cch, some gun => (cache, judge cs wire cch gun (hit == "1"))
    | _, _, _, _ => (cache, "bad-op")
  | ["D", p, wire] =>
    match parseCase [p, "normal", "-", "-", "-"], parseHex wire with
    | some cs, some wire =>
      (cache, match deframe cs.proto wire with
        | some (h, bd) => s!"{toHex h} {toHex bd}"
        | none => "none")
    | _, _ => (cache, "bad-op")
  | w =>
    match parseCase w with
    | none => (cache, "bad-op")
    | some cs =>
      let res := runCase cfg cache cs
      let x := res.run
      let w := res.wire
      let real := cs.gz && !cs.zstub && x.resp.gz.isSome
      let wire := if real then "*" else toHex w.conn.wire
      let cch := match x.cacheCopy with
        | none => "none"
        | some c => if real then "*" else toHex c
      -- model-internal anomalies (none is expected with the schedules the harness can inject): they show up as a diff
      let note := (if w.violated then "violated" else "") ++
        (if !w.conn.backlog.isEmpty then "undrained" else "") ++
        (if w.conn.broken then "broken" else "") ++
        (if !w.violated && w.conn.wire != w.outs then "invariant" else "")
      (x.cache, s!"{wire} {cch} {ztrace x.resp} {if note.isEmpty then "-" else note}")

def main (args : List String) : IO Unit := do
  let num (i : Nat) (d : Int) : Int := match args[i]? with
    | some s => s.toInt?.getD d
    | none => d
  let cfg : Config := { gzipBuffer := num 0 (-1), outputBuffer := (num 1 16384).toNat, asyncOutputBuffer := (num 2 1024).toNat }
  lineLoop ([] : PageCache) (step cfg)
