import Cppcms.C03.Response
import Cppcms.C03.DeviceLemmas
/-! Stage 1: the response object as a composition of its buffers (`response_trace_spec`). -/
namespace Cppcms.C03
open Cppcms

variable {D : Deflater}

/-- closes side goals that `simp` may already have reduced -/
macro "cl" : tactic => `(tactic| first | rfl | trivial | assumption | (intros; first | rfl | trivial | assumption))

/-! ### actions of one layer as operations on the next -/

def Act.toDevOp : Act → DevOp
  | .put bs => .put bs
  | .sync => .sync

theorem devOps_data (acts : List Act) : ((acts.map Act.toDevOp).map DevOp.data).flatten = actBytes acts := by
  induction acts with
  | nil => rfl
  | cons a as ih =>
    cases a <;> simp [Act.toDevOp, DevOp.data, actBytes, Act.bytes] at * <;> rw [ih]

/-- `Dev.apply` (pushing a layer's actions into the device) is a run of device operations -/
theorem Dev.apply_eq_run : ∀ (acts : List Act) (d : Dev) (k : Trace), Dev.apply traceIf d k acts = Dev.run (d, k) (acts.map Act.toDevOp) := by
  intro acts
  induction acts with
  | nil => intro d k; rfl
  | cons a as ih =>
    intro d k
    cases a with
    | put bs => simp only [Dev.apply, List.map_cons, Act.toDevOp, Dev.run, List.foldl_cons, Dev.step]; exact ih _ _
    | sync => simp only [Dev.apply, List.map_cons, Act.toDevOp, Dev.run, List.foldl_cons, Dev.step]; exact ih _ _

/-- the device part of a response that is still open -/
structure DevPart (r : Resp D) (T : Bytes) : Prop where
  good : DevGood r.dev r.trace T
  mode : r.dev.rawMode = r.mode.isRaw

theorem Resp.intoDev_spec (r : Resp D) (T : Bytes) (acts : List Act) (h : DevPart r T) :
    DevPart (r.intoDev acts) (T ++ actBytes acts) ∧
    (r.mode.isRaw = false → (r.intoDev acts).trace.hdrs = r.trace.hdrs) ∧ (∃ e : Trace, (r.intoDev acts).trace = r.trace ++ e) := by
  have ⟨g, m, hh, hext⟩ := Dev.run_good (acts.map Act.toDevOp) r.dev r.trace T h.good
  rw [devOps_data] at g
  have e : r.intoDev acts = { r with dev := (Dev.run (r.dev, r.trace) (acts.map Act.toDevOp)).1,
                                     trace := (Dev.run (r.dev, r.trace) (acts.map Act.toDevOp)).2 } := by
    unfold Resp.intoDev; simp only; rw [Dev.apply_eq_run]
  rw [e]
  exact ⟨⟨g, by show (Dev.run _ _).1.rawMode = r.mode.isRaw; rw [m]; exact h.mode⟩, fun hm => hh (by rw [h.mode]; exact hm), hext⟩

/-- the fields of a response that the buffer chain does not touch -/
structure Frame (r r' : Resp D) : Prop where
  mode : r'.mode = r.mode
  written : r'.written = r.written
  finalized : r'.finalized = r.finalized
  requested : r'.ostreamRequested = r.ostreamRequested
  headers : r'.headers = r.headers
  copyToCache : r'.copyToCache = r.copyToCache
  pcu : r'.pageCompressionUsed = r.pageCompressionUsed
  cfg : r'.cfg = r.cfg
  accept : r'.acceptGzip = r.acceptGzip
  sent : r'.sentHeaders = r.sentHeaders

theorem Frame.refl (r : Resp D) : Frame r r := ⟨rfl, rfl, rfl, rfl, rfl, rfl, rfl, rfl, rfl, rfl⟩

theorem Frame.trans {a c e : Resp D} (h1 : Frame a c) (h2 : Frame c e) : Frame a e :=
  ⟨h2.mode.trans h1.mode, h2.written.trans h1.written, h2.finalized.trans h1.finalized, h2.requested.trans h1.requested,
   h2.headers.trans h1.headers, h2.copyToCache.trans h1.copyToCache, h2.pcu.trans h1.pcu, h2.cfg.trans h1.cfg,
   h2.accept.trans h1.accept, h2.sent.trans h1.sent⟩

theorem Resp.intoDev_frame (r : Resp D) (acts : List Act) :
    Frame r (r.intoDev acts) ∧ (r.intoDev acts).gz = r.gz ∧ (r.intoDev acts).copy = r.copy := by
  unfold Resp.intoDev
  exact ⟨⟨rfl, rfl, rfl, rfl, rfl, rfl, rfl, rfl, rfl, rfl⟩, rfl, rfl⟩

/-- the `copy_buf` part: present (then it has seen `Z` and passed `T` on) or absent (`T = Z`) -/
def CopyPart (r : Resp D) (Z T : Bytes) : Prop :=
  match r.copy with
  | some k => k.Inv Z T
  | none => T = Z

/-- what `gzip_buf` hands down reaches `copy_buf` (if any) and the device -/
theorem Resp.belowGz_spec : ∀ (acts : List Act) (r : Resp D) (Z T : Bytes), CopyPart r Z T → DevPart r T →
    ∃ T', CopyPart (r.belowGz acts) (Z ++ actBytes acts) T' ∧ DevPart (r.belowGz acts) T' ∧
      Frame r (r.belowGz acts) ∧ (r.belowGz acts).gz = r.gz ∧ (r.belowGz acts).copy.isSome = r.copy.isSome ∧
      (r.mode.isRaw = false → (r.belowGz acts).trace.hdrs = r.trace.hdrs) ∧ (∃ e : Trace, (r.belowGz acts).trace = r.trace ++ e) := by
  intro acts
  induction acts with
  | nil =>
    intro r Z T hc hd
    exact ⟨T, by simpa [Resp.belowGz, actBytes] using hc, by simpa [Resp.belowGz] using hd, Frame.refl r, rfl, rfl, fun _ => rfl, [], by simp [Resp.belowGz]⟩
  | cons a rest ih =>
    intro r Z T hc hd
    rw [Resp.belowGz]
    cases hk : r.copy with
    | none =>
      simp only
      have hT : T = Z := by simpa [CopyPart, hk] using hc
      have ⟨d1, hh1, e1, he1⟩ := Resp.intoDev_spec r T [a] hd
      have ⟨f1, g1, c1⟩ := Resp.intoDev_frame r [a]
      have hc1 : CopyPart (r.intoDev [a]) (Z ++ actBytes [a]) (T ++ actBytes [a]) := by
        simp only [CopyPart, c1, hk, hT]
      obtain ⟨T', i1, i2, i3, i4, i5, i6, e2, he2⟩ := ih (r.intoDev [a]) _ _ hc1 d1
      refine ⟨T', ?_, i2, f1.trans i3, by rw [i4, g1], by rw [i5, c1, hk], fun hm => ?_, e1 ++ e2, by rw [he2, he1, List.append_assoc]⟩
      · have : actBytes (a :: rest) = actBytes [a] ++ actBytes rest := by
          rw [← actBytes_append]; rfl
        rw [this, ← List.append_assoc]; exact i1
      · rw [i6 (by rw [f1.mode]; exact hm), hh1 hm]
    | some k =>
      simp only
      have hkI : k.Inv Z T := by simpa [CopyPart, hk] using hc
      -- the copy buffer takes the action, its own actions go to the device
      have hx2 : (k.applyAct a).1.Inv (Z ++ actBytes [a]) (T ++ actBytes (k.applyAct a).2) := by
        cases a with
        | put bs =>
          have e1 : actBytes [Act.put bs] = bs := by simp [actBytes, Act.bytes]
          rw [e1]
          exact Copy.xsputn_inv k Z T bs hkI
        | sync =>
          have e1 : actBytes [Act.sync] = [] := rfl
          rw [e1, List.append_nil]
          exact (Copy.sync_inv k Z T hkI).1
      generalize (k.applyAct a).1 = k' at *
      generalize (k.applyAct a).2 = acts2 at *
      have hd0 : DevPart ({ r with copy := some k' } : Resp D) T := ⟨hd.good, hd.mode⟩
      have ⟨d1, hh1, e1, he1⟩ := Resp.intoDev_spec { r with copy := some k' } T acts2 hd0
      have ⟨f1, g1, c1⟩ := Resp.intoDev_frame { r with copy := some k' } acts2
      have hc1 : CopyPart (({ r with copy := some k' } : Resp D).intoDev acts2) (Z ++ actBytes [a]) (T ++ actBytes acts2) := by
        simp only [CopyPart, c1]; exact hx2
      obtain ⟨T', i1, i2, i3, i4, i5, i6, e2, he2⟩ := ih _ _ _ hc1 d1
      have f0 : Frame r ({ r with copy := some k' } : Resp D) := ⟨rfl, rfl, rfl, rfl, rfl, rfl, rfl, rfl, rfl, rfl⟩
      refine ⟨T', ?_, i2, (f0.trans f1).trans i3, by rw [i4, g1], by rw [i5, c1]; rfl, fun hm => ?_, e1 ++ e2, by rw [he2, he1, List.append_assoc]⟩
      · have : actBytes (a :: rest) = actBytes [a] ++ actBytes rest := by
          rw [← actBytes_append]; rfl
        rw [this, ← List.append_assoc]; exact i1
      · rw [i6 (by rw [f1.mode]; exact hm), hh1 hm]

/-- the header set `H` is handed over exactly once, and before anything is sent -/
def HdrShape (t : Trace) (H : Headers) : Prop :=
  ∃ a c : Trace, t = a ++ WEv.hdr H :: c ∧ a.sends = [] ∧ a.hdrs = [] ∧ c.hdrs = []

theorem HdrShape.extend {t e : Trace} {H : Headers} (h : HdrShape t H) (he : e.hdrs = []) : HdrShape (t ++ e) H := by
  obtain ⟨a, c, h1, h2, h3, h4⟩ := h
  exact ⟨a, c ++ e, by rw [h1]; simp, h2, h3, by rw [Trace.hdrs_append, h4, he]; rfl⟩

theorem hdrs_ext {t e : Trace} (h : (t ++ e).hdrs = t.hdrs) : e.hdrs = [] := by
  rw [Trace.hdrs_append] at h
  have := congrArg List.length h
  simp only [List.length_append] at this
  exact List.eq_nil_of_length_eq_zero (by omega)

/-- the `gzip_buf` part: present (then it has seen `W` and passed `Z` on) or absent (`Z = W`) -/
def GzPart (r : Resp D) (W Z : Bytes) : Prop :=
  match r.gz with
  | some g => g.Inv W Z
  | none => Z = W

/-- the stream has been requested and not finalized; `W` = bytes written to it so far -/
structure Open (r : Resp D) (W : Bytes) : Prop where
  req : r.ostreamRequested = true
  notFin : r.finalized = false
  chain : ∃ Z T, GzPart r W Z ∧ CopyPart r Z T ∧ DevPart r T
  hdr : r.mode.isRaw = false → ∃ H, r.sentHeaders = some H ∧ HdrShape r.trace H
  rawSent : r.mode.isRaw = true → r.sentHeaders = none
  rawNoGz : r.mode.isRaw = true → r.gz = none

/-- a buffer operation relative to the response before it: the frame is kept, the trace only grows, and
(outside the raw modes) no further header set is handed over -/
structure Grows (r r' : Resp D) : Prop where
  frame : Frame r r'
  ext : ∃ e : Trace, r'.trace = r.trace ++ e
  hdrs : r.mode.isRaw = false → r'.trace.hdrs = r.trace.hdrs

theorem Grows.hdr {r r' : Resp D} (g : Grows r r')
    (h : r.mode.isRaw = false → ∃ H, r.sentHeaders = some H ∧ HdrShape r.trace H) :
    r'.mode.isRaw = false → ∃ H, r'.sentHeaders = some H ∧ HdrShape r'.trace H := by
  intro hm
  rw [g.frame.mode] at hm
  obtain ⟨H, h1, h2⟩ := h hm
  obtain ⟨e, he⟩ := g.ext
  have := g.hdrs hm
  rw [he] at this
  exact ⟨H, by rw [g.frame.sent]; exact h1, by rw [he]; exact h2.extend (hdrs_ext this)⟩

theorem frame_dev (r : Resp D) (d' : Dev) (k' : Trace) : Frame r ({ r with dev := d', trace := k' } : Resp D) :=
  ⟨rfl, rfl, rfl, rfl, rfl, rfl, rfl, rfl, rfl, rfl⟩

/-- an operation on the device alone (`setbuf`, `full_asynchronous_buffering`, `flush_async_chunk`, or any
stream operation when there is no filter buffer above the device) that takes `data` -/
theorem Open.devOp {r : Resp D} {W : Bytes} (o : Open r W) (d' : Dev) (k' : Trace) (data : Bytes)
    (hstep : ∀ T, r.dev.Inv r.trace T → d'.Inv k' (T ++ data) ∧ Step r.dev d' r.trace k')
    (hdata : data = [] ∨ (r.gz = none ∧ r.copy = none)) :
    Open ({ r with dev := d', trace := k' } : Resp D) (W ++ data) ∧ Grows r ({ r with dev := d', trace := k' } : Resp D) := by
  obtain ⟨Z, T, hg, hc, hd⟩ := o.chain
  have ⟨hi, hs⟩ := hstep T hd.good.inv
  have hgrow : Grows r ({ r with dev := d', trace := k' } : Resp D) :=
    ⟨frame_dev r d' k', hs.extends, fun hm => hs.hdrs_nonraw (by rw [hd.mode]; exact hm)⟩
  have hdp : DevPart ({ r with dev := d', trace := k' } : Resp D) (T ++ data) :=
    ⟨hd.good.step hi hs, by show d'.rawMode = _; rw [hs.mode]; exact hd.mode⟩
  refine ⟨⟨o.req, o.notFin, ?_, hgrow.hdr o.hdr, o.rawSent, o.rawNoGz⟩, hgrow⟩
  rcases hdata with hdata | ⟨hgz, hcp⟩
  · subst hdata
    simp only [List.append_nil] at *
    exact ⟨Z, T, hg, hc, hdp⟩
  · have hZ : Z = W := by simpa [GzPart, hgz] using hg
    have hT : T = Z := by simpa [CopyPart, hcp] using hc
    refine ⟨W ++ data, W ++ data, ?_, ?_, ?_⟩
    · simp [GzPart, hgz]
    · simp [CopyPart, hcp]
    · rw [hT, hZ] at hdp; exact hdp

/-- `copy_buf` on top (no `gzip_buf`): it took `data` and handed `acts` down -/
theorem Open.viaCopy {r : Resp D} {W : Bytes} (o : Open r W) (hgz : r.gz = none) (k k' : Copy) (hk : r.copy = some k)
    (data : Bytes) (acts : List Act) (hinv : ∀ T, k.Inv W T → k'.Inv (W ++ data) (T ++ actBytes acts)) :
    Open (({ r with copy := some k' } : Resp D).intoDev acts) (W ++ data) ∧ Grows r (({ r with copy := some k' } : Resp D).intoDev acts) := by
  obtain ⟨Z, T, hg, hc, hd⟩ := o.chain
  have hZ : Z = W := by simpa [GzPart, hgz] using hg
  have hkI : k.Inv W T := by rw [← hZ]; simpa [CopyPart, hk] using hc
  have hd0 : DevPart ({ r with copy := some k' } : Resp D) T := ⟨hd.good, hd.mode⟩
  have ⟨d1, hh1, hext⟩ := Resp.intoDev_spec { r with copy := some k' } T acts hd0
  have ⟨f1, g1, c1⟩ := Resp.intoDev_frame { r with copy := some k' } acts
  have f0 : Frame r ({ r with copy := some k' } : Resp D) := ⟨rfl, rfl, rfl, rfl, rfl, rfl, rfl, rfl, rfl, rfl⟩
  have hgrow : Grows r (({ r with copy := some k' } : Resp D).intoDev acts) := ⟨f0.trans f1, hext, hh1⟩
  refine ⟨⟨by rw [hgrow.frame.requested]; exact o.req, by rw [hgrow.frame.finalized]; exact o.notFin,
    ⟨W ++ data, T ++ actBytes acts, ?_, ?_, d1⟩, hgrow.hdr o.hdr, fun hm => by rw [hgrow.frame.sent]; exact o.rawSent (by rw [← hgrow.frame.mode]; exact hm),
    fun _ => by rw [g1]; exact hgz⟩, hgrow⟩
  · have hgn : (({ r with copy := some k' } : Resp D).intoDev acts).gz = none := by rw [g1]; exact hgz
    simp only [GzPart, hgn]
  · simp only [CopyPart, c1]; exact hinv T hkI

/-- `gzip_buf` on top: it took the step from `W` to `W'` and handed `acts` down -/
theorem Open.viaGz {r : Resp D} {W : Bytes} (o : Open r W) (g g' : Gz D) (hg0 : r.gz = some g)
    (W' : Bytes) (acts : List Act) (hinv : ∀ Z, g.Inv W Z → g'.Inv W' (Z ++ actBytes acts)) :
    Open (({ r with gz := some g' } : Resp D).belowGz acts) W' ∧ Grows r (({ r with gz := some g' } : Resp D).belowGz acts) := by
  obtain ⟨Z, T, hg, hc, hd⟩ := o.chain
  have hgI : g.Inv W Z := by simpa [GzPart, hg0] using hg
  have hc0 : CopyPart ({ r with gz := some g' } : Resp D) Z T := hc
  have hd0 : DevPart ({ r with gz := some g' } : Resp D) T := ⟨hd.good, hd.mode⟩
  obtain ⟨T', i1, i2, i3, i4, i5, i6, i7⟩ := Resp.belowGz_spec acts { r with gz := some g' } Z T hc0 hd0
  have f0 : Frame r ({ r with gz := some g' } : Resp D) := ⟨rfl, rfl, rfl, rfl, rfl, rfl, rfl, rfl, rfl, rfl⟩
  have hgrow : Grows r (({ r with gz := some g' } : Resp D).belowGz acts) := ⟨f0.trans i3, i7, i6⟩
  refine ⟨⟨by rw [hgrow.frame.requested]; exact o.req, by rw [hgrow.frame.finalized]; exact o.notFin,
    ⟨Z ++ actBytes acts, T', ?_, i1, i2⟩, hgrow.hdr o.hdr, fun hm => by rw [hgrow.frame.sent]; exact o.rawSent (by rw [← hgrow.frame.mode]; exact hm),
    fun hm => by have := o.rawNoGz (by rw [← hgrow.frame.mode]; exact hm); rw [hg0] at this; cases this⟩, hgrow⟩
  simp only [GzPart, i4]; exact hinv Z hgI

/-- `std::ostream::write` after `out()` -/
theorem Open.push {r : Resp D} {W : Bytes} (o : Open r W) (s : Bytes) : Open (r.push s) (W ++ s) ∧ Grows r (r.push s) := by
  unfold Resp.push
  rcases Option.eq_none_or_eq_some r.gz with hg | ⟨g, hg⟩
  · rcases Option.eq_none_or_eq_some r.copy with hk | ⟨k, hk⟩
    · have h := o.devOp _ _ s (fun T ht => Dev.xsputn_inv r.dev r.trace T s ht) (Or.inr ⟨hg, hk⟩)
      simp only [hg, hk] at h ⊢
      exact h
    · have h := o.viaCopy hg k _ hk s _ (fun T ht => Copy.xsputn_inv k W T s ht)
      simp only [hg, hk] at h ⊢
      exact h
  · have h := o.viaGz g _ hg (W ++ s) _ (fun Z hz => Gz.xsputn_inv g W Z s hz)
    simp only [hg] at h ⊢
    exact h

/-- `std::ostream::put` after `out()` -/
theorem Open.pushc {r : Resp D} {W : Bytes} (o : Open r W) (c : UInt8) : Open (r.pushc c) (W ++ [c]) ∧ Grows r (r.pushc c) := by
  unfold Resp.pushc
  rcases Option.eq_none_or_eq_some r.gz with hg | ⟨g, hg⟩
  · rcases Option.eq_none_or_eq_some r.copy with hk | ⟨k, hk⟩
    · have h := o.devOp _ _ [c] (fun T ht => Dev.sputc_inv r.dev r.trace T c ht) (Or.inr ⟨hg, hk⟩)
      simp only [hg, hk] at h ⊢
      exact h
    · have h := o.viaCopy hg k _ hk [c] _ (fun T ht => Copy.sputc_inv k W T c ht)
      simp only [hg, hk] at h ⊢
      exact h
  · have h := o.viaGz g _ hg (W ++ [c]) _ (fun Z hz => Gz.sputc_inv g W Z c hz)
    simp only [hg] at h ⊢
    exact h

/-- nothing has been requested from the response yet -/
structure Fresh (r : Resp D) : Prop where
  req : r.ostreamRequested = false
  notFin : r.finalized = false
  trace : r.trace = []
  written : r.written = []
  gz : r.gz = none
  copy : r.copy = none
  sent : r.sentHeaders = none

/-- the headers `out()` hands to the connection -/
def Resp.outHeaders (r : Resp D) : Headers :=
  if r.needGzip then r.headers.set sContentEncoding sGzip else r.headers

/-- `out()` on a fresh response: the chain is set up as decided, empty, and (outside the raw modes) the
header set — with `Content-Encoding: gzip` exactly when `need_gzip()` said so — is the first thing the
connection is given -/
theorem Fresh.request {r : Resp D} (f : Fresh r) :
    Open r.requestStream [] ∧ r.requestStream.written = [] ∧
    r.requestStream.gz.isSome = r.needGzip ∧ r.requestStream.copy.isSome = r.copyToCache ∧
    r.requestStream.headers = r.outHeaders ∧ r.requestStream.mode = r.mode ∧
    (r.mode.isRaw = false → r.requestStream.sentHeaders = some r.outHeaders) ∧
    r.requestStream.copyToCache = r.copyToCache ∧ r.requestStream.pageCompressionUsed = r.pageCompressionUsed ∧
    r.requestStream.finalized = false ∧ r.requestStream.cfg = r.cfg ∧ r.requestStream.acceptGzip = r.acceptGzip := by
  -- the device `out()` opens
  generalize hdev : Dev.fresh r.mode.isAsync (if r.mode.isAsync then r.asyncFullBuffering else true) r.mode.isRaw
      (if r.requiredBufferSize = -1 then (if r.mode.isAsync then r.cfg.asyncOutputBuffer else r.cfg.outputBuffer) else r.requiredBufferSize.toNat) = dev
  have hreq : r.requestStream = { r with
      dev := dev, ostreamRequested := true, headers := r.outHeaders,
      trace := if r.mode.isRaw then r.trace else traceIf.setHeaders r.trace r.outHeaders,
      sentHeaders := if r.mode.isRaw then r.sentHeaders else some r.outHeaders,
      copy := if r.copyToCache then some {} else r.copy,
      gz := if r.needGzip then some (Gz.open D r.cfg.gzipBuffer) else r.gz } := by
    unfold Resp.requestStream Resp.outHeaders
    simp only [f.req, Bool.false_eq_true, if_false, hdev]
  rw [hreq]
  have hs : (if r.mode.isRaw = true then r.trace else traceIf.setHeaders r.trace r.outHeaders).sends = [] := by
    rw [f.trace]; split <;> simp [traceIf]
  have ⟨di, dq, dm⟩ := Dev.fresh_inv r.mode.isAsync (if r.mode.isAsync then r.asyncFullBuffering else true) r.mode.isRaw
    (if r.requiredBufferSize = -1 then (if r.mode.isAsync then r.cfg.asyncOutputBuffer else r.cfg.outputBuffer) else r.requiredBufferSize.toNat)
    _ hs
  have hdone : dev.raw.done = false := by rw [← hdev]; rfl
  rw [hdev] at di dq dm
  refine ⟨⟨rfl, f.notFin, ⟨[], [], ?_, ?_, ⟨⟨di, dq, ?_⟩, dm⟩⟩, ?_, ?_, ?_⟩, f.written, ?_, ?_, rfl, rfl, ?_, rfl, rfl, f.notFin, rfl, rfl⟩
  · show GzPart _ [] []
    unfold GzPart
    by_cases hz : r.needGzip = true
    · simp only [hz, if_true]; exact Gz.open_inv D _
    · simp only [hz, Bool.false_eq_true, if_false, f.gz]
  · show CopyPart _ [] []
    unfold CopyPart
    by_cases hcc : r.copyToCache = true
    · simp only [hcc, if_true]; exact Copy.inv_init
    · simp only [hcc, Bool.false_eq_true, if_false, f.copy]
  · -- raw modes: nothing handed over yet
    unfold RawOk
    intro hm
    rw [dm] at hm
    refine ⟨fun _ => ?_, fun hd => by rw [hdone] at hd; cases hd⟩
    show (if r.mode.isRaw = true then r.trace else traceIf.setHeaders r.trace r.outHeaders).sends = [] ∧
         (if r.mode.isRaw = true then r.trace else traceIf.setHeaders r.trace r.outHeaders).hdrs = []
    simp only [hm, if_true, f.trace]; exact ⟨rfl, rfl⟩
  · intro hm
    have hm' : r.mode.isRaw = false := hm
    refine ⟨r.outHeaders, ?_, [], [], ?_, rfl, rfl, rfl⟩
    · show (if r.mode.isRaw = true then r.sentHeaders else some r.outHeaders) = some r.outHeaders
      simp only [hm', Bool.false_eq_true, if_false]
    · show (if r.mode.isRaw = true then r.trace else traceIf.setHeaders r.trace r.outHeaders) = [] ++ WEv.hdr r.outHeaders :: []
      simp only [hm', Bool.false_eq_true, if_false, f.trace, traceIf, List.nil_append]
  · intro hm
    have hm' : r.mode.isRaw = true := hm
    show (if r.mode.isRaw = true then r.sentHeaders else some r.outHeaders) = none
    simp only [hm', if_true]; exact f.sent
  · intro hm
    have hm' : r.mode.isRaw = true := hm
    show (if r.needGzip = true then some (Gz.open D r.cfg.gzipBuffer) else r.gz) = none
    have : r.needGzip = false := by
      unfold Resp.needGzip
      cases hmode : r.mode <;> simp_all [Mode.isRaw]
    simp only [this, Bool.false_eq_true, if_false]; exact f.gz
  · show (if r.needGzip = true then some (Gz.open D r.cfg.gzipBuffer) else r.gz).isSome = r.needGzip
    by_cases hz : r.needGzip = true
    · simp [hz]
    · simp only [Bool.not_eq_true] at hz; simp [hz, f.gz]
  · show (if r.copyToCache = true then some ({} : Copy) else r.copy).isSome = r.copyToCache
    by_cases hcc : r.copyToCache = true
    · simp [hcc]
    · simp only [Bool.not_eq_true] at hcc; simp [hcc, f.copy]
  · intro hm
    show (if r.mode.isRaw = true then r.sentHeaders else some r.outHeaders) = some r.outHeaders
    simp only [hm, Bool.false_eq_true, if_false]

/-- `Open` only looks at these fields -/
theorem Open.congr {r r' : Resp D} {W : Bytes} (o : Open r W) (h1 : r'.ostreamRequested = r.ostreamRequested)
    (h2 : r'.finalized = r.finalized) (h3 : r'.gz = r.gz) (h4 : r'.copy = r.copy) (h5 : r'.dev = r.dev) (h6 : r'.trace = r.trace)
    (h7 : r'.mode = r.mode) (h8 : r'.sentHeaders = r.sentHeaders) : Open r' W := by
  obtain ⟨Z, T, hg, hc, hd⟩ := o.chain
  refine ⟨by rw [h1]; exact o.req, by rw [h2]; exact o.notFin, ⟨Z, T, ?_, ?_, ⟨?_, ?_⟩⟩, ?_, ?_, ?_⟩
  · unfold GzPart at *; rw [h3]; exact hg
  · unfold CopyPart at *; rw [h4]; exact hc
  · rw [h5, h6]; exact hd.good
  · rw [h5, h7]; exact hd.mode
  · rw [h7, h8, h6]; exact o.hdr
  · rw [h7, h8]; exact o.rawSent
  · rw [h7, h3]; exact o.rawNoGz

theorem Resp.requestStream_of_requested (r : Resp D) (h : r.ostreamRequested = true) : r.requestStream = r := by
  unfold Resp.requestStream; simp [h]

/-- `out().write(s)` on an open response -/
theorem Open.write {r : Resp D} (o : Open r r.written) (s : Bytes) :
    Open (r.write s) (r.write s).written ∧ (r.write s).written = r.written ++ s ∧ Grows r { r.write s with written := r.written } := by
  unfold Resp.write
  simp only [Resp.requestStream_of_requested r o.req]
  have ⟨o1, g1⟩ := o.push s
  refine ⟨o1.congr rfl rfl rfl rfl rfl rfl rfl rfl, (by rt), ?_⟩
  exact ⟨⟨g1.frame.mode, (by rt), g1.frame.finalized, g1.frame.requested, g1.frame.headers, g1.frame.copyToCache, g1.frame.pcu,
    g1.frame.cfg, g1.frame.accept, g1.frame.sent⟩, g1.ext, g1.hdrs⟩

/-- `out().put(c)` on an open response -/
theorem Open.putc {r : Resp D} (o : Open r r.written) (c : UInt8) :
    Open (r.putc c) (r.putc c).written ∧ (r.putc c).written = r.written ++ [c] ∧ Grows r { r.putc c with written := r.written } := by
  unfold Resp.putc
  simp only [Resp.requestStream_of_requested r o.req]
  have ⟨o1, g1⟩ := o.pushc c
  refine ⟨o1.congr rfl rfl rfl rfl rfl rfl rfl rfl, (by rt), ?_⟩
  exact ⟨⟨g1.frame.mode, (by rt), g1.frame.finalized, g1.frame.requested, g1.frame.headers, g1.frame.copyToCache, g1.frame.pcu,
    g1.frame.cfg, g1.frame.accept, g1.frame.sent⟩, g1.ext, g1.hdrs⟩

/-- `out().flush()` on an open response -/
theorem Open.sync {r : Resp D} {W : Bytes} (o : Open r W) : Open r.sync W ∧ Grows r r.sync := by
  unfold Resp.sync
  simp only [Resp.requestStream_of_requested r o.req]
  rcases Option.eq_none_or_eq_some r.gz with hg | ⟨g, hg⟩
  · rcases Option.eq_none_or_eq_some r.copy with hk | ⟨k, hk⟩
    · have h := o.devOp _ _ [] (fun T ht => by simpa using Dev.sync_inv r.dev r.trace T ht) (Or.inl rfl)
      simp only [hg, hk, List.append_nil] at h ⊢
      exact h
    · have h := o.viaCopy hg k _ hk [] _ (fun T ht => by simpa using (Copy.sync_inv k W T ht).1)
      simp only [hg, hk, List.append_nil] at h ⊢
      exact h
  · have h := o.viaGz g _ hg W _ (fun Z hz => (Gz.sync_inv g W Z hz).1)
    simp only [hg] at h ⊢
    exact h

/-- `response::setbuf(n)` on an open response -/
theorem Open.setbuf {r : Resp D} {W : Bytes} (o : Open r W) (n : Int) : Open (r.setbuf n) W ∧ Grows r (r.setbuf n) := by
  unfold Resp.setbuf
  simp only
  rw [if_pos (show ({ r with requiredBufferSize := if n < 0 then -1 else n } : Resp D).ostreamRequested = true from o.req)]
  have o0 : Open ({ r with requiredBufferSize := if n < 0 then -1 else n } : Resp D) W := o.congr rfl rfl rfl rfl rfl rfl rfl rfl
  generalize (if (if n < 0 then (-1 : Int) else n) < 0 then (if r.mode.isAsync then r.cfg.asyncOutputBuffer else r.cfg.outputBuffer)
      else (if n < 0 then (-1 : Int) else n).toNat) = size
  have hstep : ∀ T, r.dev.Inv r.trace T →
      (r.dev.setbuf traceIf r.trace size).1.Inv (r.dev.setbuf traceIf r.trace size).2 (T ++ []) ∧
      Step r.dev (r.dev.setbuf traceIf r.trace size).1 r.trace (r.dev.setbuf traceIf r.trace size).2 := by
    intro T ht
    rw [List.append_nil]
    exact Dev.setbuf_inv r.dev r.trace T size ht
  have h := o0.devOp _ _ [] hstep (Or.inl rfl)
  simp only [List.append_nil] at h
  refine ⟨h.1, ?_⟩
  obtain ⟨hf, he, hh⟩ := h.2
  exact ⟨⟨hf.mode, hf.written, hf.finalized, hf.requested, hf.headers, hf.copyToCache, hf.pcu, hf.cfg, hf.accept, hf.sent⟩, he, hh⟩

/-- `response::full_asynchronous_buffering(v)` on an open response -/
theorem Open.setFullBuffering {r : Resp D} {W : Bytes} (o : Open r W) (v : Bool) :
    Open (r.setFullBuffering v) W ∧ Grows r (r.setFullBuffering v) := by
  unfold Resp.setFullBuffering
  by_cases hc : (r.mode.isAsync && r.ostreamRequested) = true
  · rw [if_pos hc]
    have h := o.devOp _ _ [] (fun T ht => by simpa using Dev.setFullBuffering_inv r.dev r.trace T v ht) (Or.inl rfl)
    simp only [List.append_nil] at h
    refine ⟨h.1.congr rfl rfl rfl rfl rfl rfl rfl rfl, ?_⟩
    obtain ⟨hf, he, hh⟩ := h.2
    exact ⟨⟨hf.mode, hf.written, hf.finalized, hf.requested, hf.headers, hf.copyToCache, hf.pcu, hf.cfg, hf.accept, hf.sent⟩, he, hh⟩
  · rw [if_neg hc]
    exact ⟨o.congr rfl rfl rfl rfl rfl rfl rfl rfl, ⟨⟨rfl, rfl, rfl, rfl, rfl, rfl, rfl, rfl, rfl, rfl⟩, ⟨[], by simp⟩, fun _ => rfl⟩⟩

/-- `connection::async_write_response` on an open response: `flush_async_chunk`, then the connection is asked to drain -/
theorem Open.asyncWriteResponse {r : Resp D} {W : Bytes} (o : Open r W) :
    Open r.asyncWriteResponse W ∧ Grows r r.asyncWriteResponse := by
  unfold Resp.asyncWriteResponse
  have h := o.devOp _ _ [] (fun T ht => by
    have f := Dev.flush_inv r.dev r.trace T ht
    simpa using (⟨f.1, f.2.2.2.1⟩ : _ ∧ _)) (Or.inl rfl)
  simp only [List.append_nil] at h
  obtain ⟨o1, hf, ⟨e, he⟩, hh⟩ := h
  obtain ⟨Z, T, hg, hc, hd⟩ := o1.chain
  have hflush : ∀ t : Trace, (t ++ [WEv.asyncFlush]).hdrs = t.hdrs := by intro t; rw [Trace.hdrs_append]; simp
  refine ⟨⟨o1.req, o1.notFin, ⟨Z, T, hg, hc, ⟨⟨?_, ?_, ?_⟩, hd.mode⟩⟩, ?_, o1.rawSent, o1.rawNoGz⟩,
    ⟨⟨hf.mode, hf.written, hf.finalized, hf.requested, hf.headers, hf.copyToCache, hf.pcu, hf.cfg, hf.accept, hf.sent⟩, ⟨e ++ [WEv.asyncFlush], ?_⟩, ?_⟩⟩
  · -- the marker is no write
    obtain ⟨fed, i1, i2, i3, i4, i5⟩ := hd.good.inv
    exact ⟨fed, i1, i2, i3, by show (Trace.bytes (_ ++ [WEv.asyncFlush])) = _; rw [Trace.bytes_append]; simpa [Trace.bytes] using i4, i5⟩
  · obtain ⟨q1, q2, q3⟩ := hd.good.quiet
    exact ⟨q1, q2, by show Trace.eofs (_ ++ [WEv.asyncFlush]) = 0; rw [Trace.eofs_append, q3]; rfl⟩
  · exact hd.good.raw.append_flush
  · intro hm
    obtain ⟨H, h1, h2⟩ := o1.hdr hm
    exact ⟨H, h1, h2.extend rfl⟩
  · show (r.dev.flush traceIf r.trace).2.1 ++ [WEv.asyncFlush] = r.trace ++ (e ++ [WEv.asyncFlush])
    have : (r.dev.flush traceIf r.trace).2.1 = r.trace ++ e := he
    rw [this, List.append_assoc]
  · intro hm
    show ((r.dev.flush traceIf r.trace).2.1 ++ [WEv.asyncFlush]).hdrs = r.trace.hdrs
    rw [hflush]; exact hh hm

/-! ### finalize -/

/-- the calls of a finalized response: data calls without eof, exactly one call with eof, then only empty calls -/
def FinalCalls (l : List (Bytes × Bool)) (body : Bytes) : Prop :=
  ∃ (ws : List Bytes) (last : Bytes) (m : Nat), l = ws.map (·, false) ++ [(last, true)] ++ List.replicate m ([], false) ∧
    ws.flatten ++ last = body

theorem sends_no_eof : ∀ (l : List (Bytes × Bool)), (l.filter (·.2)).length = 0 → l = (l.map (·.1)).map (·, false) := by
  intro l
  induction l with
  | nil => intro _; rfl
  | cons x xs ih =>
    intro h
    obtain ⟨bs, e⟩ := x
    cases e with
    | true => simp at h
    | false =>
      have : (xs.filter (·.2)).length = 0 := by simpa using h
      rw [List.map_cons, List.map_cons]
      congr 1
      exact ih this

theorem filterOf_append (raw : Bool) (a c : Bytes) : ∃ Y, filterOf raw (a ++ c) = filterOf raw a ++ Y := by
  cases raw with
  | false => exact ⟨c, rfl⟩
  | true => exact ⟨rawPassed (rawNext {} a) c, by simp only [filterOf, if_true]; exact (consume_append a {} c).2⟩

/-- how the compressed stream relates to what was written (no `gzip_buf`: they are the same) -/
def GzDone (r : Resp D) (W Z : Bytes) : Prop :=
  match r.gz with
  | some g => g.opened = false ∧ ∃ calls last, g.fed = calls ++ [(last, Flush.finish)] ∧ (∀ c ∈ calls, c.2 ≠ Flush.finish) ∧
      (g.fed.map (·.1)).flatten = W ∧ (feedAll D D.init g.fed).2 = Z
  | none => Z = W

/-- the cache copy after `close()` -/
def CopyDone (r : Resp D) (Z : Bytes) : Prop :=
  match r.copy with
  | some k => k.getstr.1 = Z ∧ k.attached = false
  | none => True

/-- the response has been finalized: everything written (`W`) went through the chain; `Z` is what left
`gzip_buf` (or `W`), it is what `copy_buf` kept, and — minus the application's header block in the raw modes — what
the connection was given, with eof announced exactly once -/
structure Done (r : Resp D) (W Z : Bytes) : Prop where
  req : r.ostreamRequested = true
  fin : r.finalized = true
  gz : GzDone r W Z
  calls : FinalCalls r.trace.sends (filterOf r.mode.isRaw Z)
  bytesAll : r.trace.bytes = filterOf r.mode.isRaw Z
  inv : r.dev.Inv r.trace Z
  sealed : Sealed r.dev
  mode : r.dev.rawMode = r.mode.isRaw
  eofs : r.trace.eofs = 1
  hdr : r.mode.isRaw = false → ∃ H, r.sentHeaders = some H ∧ HdrShape r.trace H
  rawHdr : r.mode.isRaw = true → r.gz = none ∧ r.sentHeaders = none ∧ Z = W ∧ ((rawNext {} W).done = true → RawOk r.dev r.trace)

theorem FinalCalls.of_close (k : List (Bytes × Bool)) (x : Bytes) (h : (k.filter (·.2)).length = 0) :
    FinalCalls (k ++ [(x, true)]) ((k.map (·.1)).flatten ++ x) :=
  ⟨k.map (·.1), x, 0, by rw [← sends_no_eof k h]; simp, rfl⟩

theorem FinalCalls.snoc {l : List (Bytes × Bool)} {body : Bytes} (h : FinalCalls l body) : FinalCalls (l ++ [([], false)]) body := by
  obtain ⟨ws, last, m, h1, h2⟩ := h
  refine ⟨ws, last, m + 1, ?_, h2⟩
  rw [h1, List.replicate_succ']; simp [List.append_assoc]

theorem Open.closeGz {r : Resp D} {W : Bytes} (o : Open r W) :
    ∃ Z1 T1, GzDone r.closeGz W Z1 ∧ CopyPart r.closeGz Z1 T1 ∧ DevPart r.closeGz T1 ∧ Frame r r.closeGz ∧
      (∃ e : Trace, r.closeGz.trace = r.trace ++ e) ∧
      (r.mode.isRaw = false → r.closeGz.trace.hdrs = r.trace.hdrs) ∧ r.closeGz.gz.isSome = r.gz.isSome ∧
      r.closeGz.copy.isSome = r.copy.isSome ∧ (r.gz = none → r.closeGz.gz = none) := by
  obtain ⟨Z, T, hg, hc, hd⟩ := o.chain
  unfold Resp.closeGz
  rcases Option.eq_none_or_eq_some r.gz with hgz | ⟨g, hgz⟩
  · simp only [hgz]
    have hZ : Z = W := by simpa [GzPart, hgz] using hg
    refine ⟨Z, T, ?_, hc, hd, Frame.refl r, ⟨[], by simp⟩, (by cl), (by cl), (by cl), (by cl)⟩
    simp only [GzDone, hgz, hZ]
  · simp only [hgz]
    have hgI : g.Inv W Z := by simpa [GzPart, hgz] using hg
    obtain ⟨calls, last, c1, c2, c3, c4, c5⟩ := Gz.close_spec g W Z hgI
    have hc0 : CopyPart ({ r with gz := some g.close.1 } : Resp D) Z T := hc
    have hd0 : DevPart ({ r with gz := some g.close.1 } : Resp D) T := ⟨hd.good, hd.mode⟩
    obtain ⟨T', i1, i2, i3, i4, i5, i6, i7⟩ := Resp.belowGz_spec g.close.2 { r with gz := some g.close.1 } Z T hc0 hd0
    have f0 : Frame r ({ r with gz := some g.close.1 } : Resp D) := ⟨rfl, rfl, rfl, rfl, rfl, rfl, rfl, rfl, rfl, rfl⟩
    refine ⟨Z ++ actBytes g.close.2, T', ?_, i1, i2, f0.trans i3, i7, i6, by rw [i4]; rfl, i5, fun h => by cases h⟩
    simp only [GzDone, i4]
    exact ⟨c5, calls, last, c1, c2, c3, c4⟩

theorem closeCopy_spec (r1 : Resp D) (W Z1 T1 : Bytes) (g1 : GzDone r1 W Z1) (c1 : CopyPart r1 Z1 T1) (d1 : DevPart r1 T1) :
    GzDone r1.closeCopy W Z1 ∧ CopyDone r1.closeCopy Z1 ∧ DevPart r1.closeCopy Z1 ∧ Frame r1 r1.closeCopy ∧
      (∃ e : Trace, r1.closeCopy.trace = r1.trace ++ e) ∧
      (r1.mode.isRaw = false → r1.closeCopy.trace.hdrs = r1.trace.hdrs) ∧ r1.closeCopy.gz = r1.gz ∧
      r1.closeCopy.copy.isSome = r1.copy.isSome := by
  unfold Resp.closeCopy
  rcases Option.eq_none_or_eq_some r1.copy with hk | ⟨k, hk⟩
  · simp only [hk]
    have hT : T1 = Z1 := by simpa [CopyPart, hk] using c1
    exact ⟨g1, by simp only [CopyDone, hk], by rw [← hT]; exact d1, Frame.refl r1, ⟨[], by simp⟩, (by cl), (by cl), (by cl)⟩
  · simp only [hk]
    have hkI : k.Inv Z1 T1 := by simpa [CopyPart, hk] using c1
    have ⟨k1, k2⟩ := Copy.close_spec k Z1 T1 hkI
    have hd0 : DevPart ({ r1 with copy := some k.close.1 } : Resp D) T1 := ⟨d1.good, d1.mode⟩
    have ⟨dd, hh, hext⟩ := Resp.intoDev_spec { r1 with copy := some k.close.1 } T1 k.close.2 hd0
    have ⟨ff, gg, cc⟩ := Resp.intoDev_frame { r1 with copy := some k.close.1 } k.close.2
    have f0 : Frame r1 ({ r1 with copy := some k.close.1 } : Resp D) := ⟨rfl, rfl, rfl, rfl, rfl, rfl, rfl, rfl, rfl, rfl⟩
    rw [k1] at dd
    refine ⟨?_, ?_, dd, f0.trans ff, hext, hh, gg, by rw [cc]; rfl⟩
    · simp only [GzDone, gg]; exact g1
    · simp only [CopyDone, cc]; exact ⟨k2, rfl⟩

/-- `response::finalize()` on an open response -/
theorem Open.finalize {r : Resp D} {W : Bytes} (o : Open r W) :
    ∃ Z, Done r.finalize W Z ∧ CopyDone r.finalize Z ∧ Frame r { r.finalize with finalized := r.finalized } ∧ (∃ e : Trace, r.finalize.trace = r.trace ++ e) ∧
      r.finalize.gz.isSome = r.gz.isSome ∧ r.finalize.copy.isSome = r.copy.isSome := by
  unfold Resp.finalize
  rw [if_neg (by rw [o.notFin]; exact Bool.false_ne_true), Resp.requestStream_of_requested r o.req]
  obtain ⟨Z1, T1, g1, c1, d1, f1, e1, hh1, gs1, cs1, gn1⟩ := o.closeGz
  obtain ⟨g2, c2, d2, f2, e2, hh2, gs2, cs2⟩ := closeCopy_spec r.closeGz W Z1 T1 g1 c1 d1
  generalize r.closeGz.closeCopy = r2 at *
  generalize r.closeGz = r1 at *
  -- device close
  have hrawm : r2.mode.isRaw = r.mode.isRaw := by rw [f2.mode, f1.mode]
  have hZ1 : r.mode.isRaw = true → Z1 = W := by
    intro hm
    have hn := gn1 (o.rawNoGz hm)
    have : r2.gz = none := by rw [gs2]; exact hn
    simpa [GzDone, this] using g2
  have hcl := Dev.close_spec r2.dev r2.trace Z1 d2.good
  obtain ⟨l1, l2, l3, l4, l5, l6, l7, l8, l9, l10⟩ := hcl
  have hdm : r2.dev.rawMode = r.mode.isRaw := by rw [d2.mode, hrawm]
  unfold Resp.closeDev
  refine ⟨Z1, ⟨by show r2.ostreamRequested = true; rw [f2.requested, f1.requested]; exact o.req, rfl, g2, ?_, ?_, l5, l6, ?_, l3, ?_, ?_⟩, c2,
    ⟨by show r2.mode = r.mode; rw [f2.mode, f1.mode], by show r2.written = r.written; rw [f2.written, f1.written], rfl,
     by show r2.ostreamRequested = _; rw [f2.requested, f1.requested], by show r2.headers = _; rw [f2.headers, f1.headers],
     by show r2.copyToCache = _; rw [f2.copyToCache, f1.copyToCache], by show r2.pageCompressionUsed = _; rw [f2.pcu, f1.pcu],
     by show r2.cfg = _; rw [f2.cfg, f1.cfg], by show r2.acceptGzip = _; rw [f2.accept, f1.accept],
     by show r2.sentHeaders = _; rw [f2.sent, f1.sent]⟩, ?_, by show r2.gz.isSome = _; rw [gs2, gs1], by show r2.copy.isSome = _; rw [cs2, cs1]⟩
  · -- the calls
    show FinalCalls (r2.dev.close traceIf r2.trace).2.sends (filterOf r2.mode.isRaw Z1)
    rw [l4]
    have hq : (r2.trace.sends.filter (·.2)).length = 0 := d2.good.quiet.2.2
    have := FinalCalls.of_close r2.trace.sends ((filterOf r2.dev.rawMode Z1).drop r2.trace.bytes.length) hq
    have hb : (r2.trace.sends.map (·.1)).flatten = r2.trace.bytes := rfl
    rw [hb] at this
    -- bytes before ++ dropped rest = everything
    obtain ⟨fed, _, _, i3, i4, _⟩ := d2.good.inv
    obtain ⟨Y, hY⟩ := filterOf_append r2.dev.rawMode fed (r2.dev.vec.take r2.dev.pos)
    rw [i3] at hY
    have hpre : r2.trace.bytes ++ (filterOf r2.dev.rawMode Z1).drop r2.trace.bytes.length = filterOf r2.dev.rawMode Z1 := by
      rw [hY, i4, List.drop_left' rfl]
    rw [hpre] at this
    rw [d2.mode] at this ⊢
    exact this
  · show (r2.dev.close traceIf r2.trace).2.bytes = filterOf r2.mode.isRaw Z1
    rw [l1, d2.mode]
  · show (r2.dev.close traceIf r2.trace).1.rawMode = r2.mode.isRaw
    rw [l8, d2.mode]
  · intro hm
    have hm' : r.mode.isRaw = false := by rw [← hrawm]; exact hm
    obtain ⟨H, h1, h2⟩ := o.hdr hm'
    refine ⟨H, by show r2.sentHeaders = some H; rw [f2.sent, f1.sent]; exact h1, ?_⟩
    obtain ⟨x1, hx1⟩ := e1
    obtain ⟨x2, hx2⟩ := e2
    obtain ⟨x3, hx3⟩ := l10
    show HdrShape (r2.dev.close traceIf r2.trace).2 H
    have hh1' := hh1 hm'
    have hh2' := hh2 (by rw [f1.mode]; exact hm')
    have hh3' := l9 (by rw [hdm]; exact hm')
    rw [hx3, hx2, hx1]
    rw [hx1] at hh1'
    rw [hx2, hx1] at hh2'
    rw [hx3, hx2, hx1] at hh3'
    exact ((h2.extend (hdrs_ext hh1')).extend (hdrs_ext hh2')).extend (hdrs_ext hh3')
  · intro hm
    have hm' : r.mode.isRaw = true := by rw [← hrawm]; exact hm
    refine ⟨by show r2.gz = none; rw [gs2]; exact gn1 (o.rawNoGz hm'), by show r2.sentHeaders = none; rw [f2.sent, f1.sent]; exact o.rawSent hm', hZ1 hm',
      fun hd => l7 (fun _ => by rw [hZ1 hm']; exact hd)⟩
  · obtain ⟨x1, hx1⟩ := e1
    obtain ⟨x2, hx2⟩ := e2
    obtain ⟨x3, hx3⟩ := l10
    exact ⟨x1 ++ x2 ++ x3, by show (r2.dev.close traceIf r2.trace).2 = _; rw [hx3, hx2, hx1]; simp [List.append_assoc]⟩

/-! ### after finalize -/

/-- an operation on the device alone after the response was finalized (`setbuf`, `full_asynchronous_buffering`,
`flush_async_chunk`): at most one more call, with no bytes and no eof -/
theorem Done.devOp {r : Resp D} {W Z : Bytes} (dn : Done r W Z) (d' : Dev) (k' : Trace)
    (hstep : ∀ T, r.dev.Inv r.trace T → d'.Inv k' T ∧ Step r.dev d' r.trace k') :
    Done ({ r with dev := d', trace := k' } : Resp D) W Z ∧ (∃ e : Trace, k' = r.trace ++ e) := by
  have ⟨hi, hs⟩ := hstep Z dn.inv
  have ⟨hseal, heofs⟩ := dn.sealed.step hs
  have hflag := dn.sealed.flag
  -- the bytes do not change
  have hbytes : k'.bytes = filterOf r.mode.isRaw Z ∧ (k'.sends = r.trace.sends ∨ k'.sends = r.trace.sends ++ [([], false)]) := by
    obtain ⟨fed', _, _, i3, i4, _⟩ := hi
    obtain ⟨Y, hY⟩ := filterOf_append d'.rawMode fed' (d'.vec.take d'.pos)
    rw [i3, hs.mode, dn.mode] at hY
    rw [hs.mode, dn.mode] at i4
    rcases hs.sends with h1 | ⟨bs, h1⟩
    · refine ⟨?_, Or.inl h1⟩
      have : k'.bytes = r.trace.bytes := by simp [Trace.bytes, h1]
      rw [this, dn.bytesAll]
    · have hb : k'.bytes = r.trace.bytes ++ bs := by simp [Trace.bytes, h1]
      rw [dn.bytesAll] at hb
      -- filter Z = k'.bytes ++ Y = filter Z ++ bs ++ Y
      have : filterOf r.mode.isRaw Z = filterOf r.mode.isRaw Z ++ bs ++ Y := by
        conv => lhs; rw [hY, ← i4, hb]
      have hl := congrArg List.length this
      simp only [List.length_append] at hl
      have hbs : bs = [] := List.eq_nil_of_length_eq_zero (by omega)
      subst hbs
      refine ⟨by rw [hb, List.append_nil], Or.inr ?_⟩
      rw [h1, hflag]
  refine ⟨⟨dn.req, dn.fin, dn.gz, ?_, hbytes.1, hi, hseal, by show d'.rawMode = _; rw [hs.mode]; exact dn.mode,
    by show k'.eofs = 1; rw [heofs]; exact dn.eofs, ?_, ?_⟩, hs.extends⟩
  · show FinalCalls k'.sends _
    rcases hbytes.2 with h | h
    · rw [h]; exact dn.calls
    · rw [h]; exact dn.calls.snoc
  · intro hm
    obtain ⟨H, h1, h2⟩ := dn.hdr hm
    obtain ⟨e, he⟩ := hs.extends
    have := hs.hdrs_nonraw (by rw [dn.mode]; exact hm)
    rw [he] at this
    exact ⟨H, h1, by show HdrShape k' H; rw [he]; exact h2.extend (hdrs_ext this)⟩
  · intro hm
    obtain ⟨h1, h2, h3, h4⟩ := dn.rawHdr hm
    exact ⟨h1, h2, h3, fun hd => (h4 hd).step hs (Or.inl hflag)⟩

theorem Done.congr {r r' : Resp D} {W Z : Bytes} (dn : Done r W Z) (h1 : r'.ostreamRequested = r.ostreamRequested)
    (h2 : r'.finalized = r.finalized) (h3 : r'.gz = r.gz) (h5 : r'.dev = r.dev) (h6 : r'.trace = r.trace)
    (h7 : r'.mode = r.mode) (h8 : r'.sentHeaders = r.sentHeaders) : Done r' W Z := by
  refine ⟨by rw [h1]; exact dn.req, by rw [h2]; exact dn.fin, ?_, by rw [h6, h7]; exact dn.calls, by rw [h6, h7]; exact dn.bytesAll,
    by rw [h5, h6]; exact dn.inv, by rw [h5]; exact dn.sealed, by rw [h5, h7]; exact dn.mode, by rw [h6]; exact dn.eofs,
    by rw [h7, h8, h6]; exact dn.hdr, by rw [h7, h3, h8, h5, h6]; exact dn.rawHdr⟩
  · unfold GzDone at *; rw [h3]; exact dn.gz

theorem Done.setbuf {r : Resp D} {W Z : Bytes} (dn : Done r W Z) (n : Int) :
    Done (r.setbuf n) W Z ∧ (∃ e : Trace, (r.setbuf n).trace = r.trace ++ e) := by
  unfold Resp.setbuf
  simp only
  rw [if_pos (show ({ r with requiredBufferSize := if n < 0 then -1 else n } : Resp D).ostreamRequested = true from dn.req)]
  have d0 : Done ({ r with requiredBufferSize := if n < 0 then -1 else n } : Resp D) W Z := dn.congr rfl rfl rfl rfl rfl rfl rfl
  generalize (if (if n < 0 then (-1 : Int) else n) < 0 then (if r.mode.isAsync then r.cfg.asyncOutputBuffer else r.cfg.outputBuffer)
      else (if n < 0 then (-1 : Int) else n).toNat) = size
  exact d0.devOp _ _ (fun T ht => Dev.setbuf_inv r.dev r.trace T size ht)

theorem Done.setFullBuffering {r : Resp D} {W Z : Bytes} (dn : Done r W Z) (v : Bool) :
    Done (r.setFullBuffering v) W Z ∧ (∃ e : Trace, (r.setFullBuffering v).trace = r.trace ++ e) := by
  unfold Resp.setFullBuffering
  by_cases hc : (r.mode.isAsync && r.ostreamRequested) = true
  · rw [if_pos hc]
    have h := dn.devOp _ _ (fun T ht => Dev.setFullBuffering_inv r.dev r.trace T v ht)
    exact ⟨h.1.congr rfl rfl rfl rfl rfl rfl rfl, h.2⟩
  · rw [if_neg hc]
    exact ⟨dn.congr rfl rfl rfl rfl rfl rfl rfl, ⟨[], by simp⟩⟩

theorem Done.asyncWriteResponse {r : Resp D} {W Z : Bytes} (dn : Done r W Z) :
    Done r.asyncWriteResponse W Z ∧ (∃ e : Trace, r.asyncWriteResponse.trace = r.trace ++ e) := by
  unfold Resp.asyncWriteResponse
  have h := dn.devOp _ _ (fun T ht => by
    have f := Dev.flush_inv r.dev r.trace T ht
    exact ⟨f.1, f.2.2.2.1⟩)
  obtain ⟨d1, e, he⟩ := h
  have hf : ∀ t : Trace, (t ++ [WEv.asyncFlush]).sends = t.sends := by intro t; rw [Trace.sends_append]; simp
  have hh : ∀ t : Trace, (t ++ [WEv.asyncFlush]).hdrs = t.hdrs := by intro t; rw [Trace.hdrs_append]; simp
  refine ⟨⟨d1.req, d1.fin, d1.gz, ?_, ?_, ?_, d1.sealed, d1.mode, ?_, ?_, ?_⟩, ⟨e ++ [WEv.asyncFlush], ?_⟩⟩
  · show FinalCalls ((r.dev.flush traceIf r.trace).2.1 ++ [WEv.asyncFlush]).sends _
    rw [hf]; exact d1.calls
  · show ((r.dev.flush traceIf r.trace).2.1 ++ [WEv.asyncFlush]).bytes = _
    simp only [Trace.bytes, hf]; exact d1.bytesAll
  · obtain ⟨fed, i1, i2, i3, i4, i5⟩ := d1.inv
    exact ⟨fed, i1, i2, i3, by show ((r.dev.flush traceIf r.trace).2.1 ++ [WEv.asyncFlush]).bytes = _; simp only [Trace.bytes, hf]; exact i4, i5⟩
  · show ((r.dev.flush traceIf r.trace).2.1 ++ [WEv.asyncFlush]).eofs = 1
    simp only [Trace.eofs, hf]; exact d1.eofs
  · intro hm
    obtain ⟨H, h1, h2⟩ := d1.hdr hm
    exact ⟨H, h1, h2.extend rfl⟩
  · intro hm
    obtain ⟨h1, h2, h3, h4⟩ := d1.rawHdr hm
    exact ⟨h1, h2, h3, fun hd => (h4 hd).append_flush⟩
  · show (r.dev.flush traceIf r.trace).2.1 ++ [WEv.asyncFlush] = r.trace ++ (e ++ [WEv.asyncFlush])
    have : (r.dev.flush traceIf r.trace).2.1 = r.trace ++ e := he
    rw [this, List.append_assoc]

end Cppcms.C03
