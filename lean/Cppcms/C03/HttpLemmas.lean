import Cppcms.C03.FramingLemmas
/-! HTTP: the response head as a list of lines, what an RFC 7230 client reads from it, and the
state machine `http::format_output` over a whole response. -/
namespace Cppcms.C03
open Cppcms

/-- header lines joined the way `format_http_headers` / `format_output` write them -/
def joinLines (ls : List Bytes) : Bytes := (ls.map (· ++ [13, 10])).flatten

/-- a header line as the server may write it: not empty, no CR inside -/
def LineOk (l : Bytes) : Prop := l ≠ [] ∧ ∀ c ∈ l, c ≠ 13

theorem joinLines_cons (l : Bytes) (ls : List Bytes) : joinLines (l :: ls) = l ++ [13, 10] ++ joinLines ls := by
  simp [joinLines]

theorem joinLines_append (a c : List Bytes) : joinLines (a ++ c) = joinLines a ++ joinLines c := by
  simp [joinLines]

/-! ### `Spec.lines` on joined lines -/

theorem linesAux_join : ∀ (ls : List Bytes), (∀ l ∈ ls, ∀ c ∈ l, c ≠ 13) → ∀ (fuel : Nat) (tail : Bytes) (acc : List Bytes),
    Spec.linesAux (fuel + ls.length) (joinLines ls ++ tail) acc = Spec.linesAux fuel tail (ls.reverse ++ acc) := by
  intro ls
  induction ls with
  | nil => intro _ fuel tail acc; simp [joinLines]
  | cons l ls ih =>
    intro h fuel tail acc
    have hl : ∀ c ∈ l, c ≠ 13 := h l (by simp)
    have hls : ∀ x ∈ ls, ∀ c ∈ x, c ≠ 13 := fun x hx => h x (by simp [hx])
    rw [joinLines_cons, List.length_cons, ← Nat.add_assoc, Spec.linesAux]
    have : l ++ [13, 10] ++ joinLines ls ++ tail = l ++ 13 :: 10 :: (joinLines ls ++ tail) := by simp
    rw [this, splitLine_append l hl]
    simp only
    rw [ih hls]
    simp

theorem lines_head (ls : List Bytes) (h : ∀ l ∈ ls, ∀ c ∈ l, c ≠ 13) :
    Spec.lines (joinLines ls ++ [13, 10]) = ls ++ [[]] := by
  unfold Spec.lines
  have hlen : ls.length ≤ (joinLines ls).length := by
    induction ls with
    | nil => simp
    | cons l ls ih =>
      have := ih (fun x hx => h x (by simp [hx]))
      rw [joinLines_cons]
      simp only [List.length_cons, List.length_append, List.length_nil]
      omega
  obtain ⟨f, hf⟩ : ∃ f, (joinLines ls ++ [13, 10]).length + 1 = (f + 2) + ls.length :=
    ⟨(joinLines ls).length - ls.length + 1, by simp only [List.length_append, List.length_cons, List.length_nil]; omega⟩
  rw [hf, linesAux_join ls h]
  have s1 : Spec.splitLine [13, 10] = some ([], []) := by decide
  have s2 : Spec.splitLine [] = none := by decide
  rw [Spec.linesAux, s1]
  simp only
  rw [Spec.linesAux, s2]
  simp

/-! ### `Spec.splitHead` on joined lines -/

theorem splitHeadAux_skip (xs : Bytes) (hx : ∀ c ∈ xs, c ≠ 13) (rest : Bytes) (acc : List UInt8) :
    Spec.splitHeadAux (xs ++ rest) acc = Spec.splitHeadAux rest (xs.reverse ++ acc) := by
  induction xs generalizing acc with
  | nil => simp
  | cons x xs ih =>
    have hx0 : x ≠ 13 := hx x (by simp)
    have hxs : ∀ c ∈ xs, c ≠ 13 := fun c hc => hx c (by simp [hc])
    rw [List.cons_append, Spec.splitHeadAux]
    have : Spec.startsCRLFCRLF (x :: (xs ++ rest)) = false := by
      unfold Spec.startsCRLFCRLF
      cases hr : (xs ++ rest) with
      | nil => simp
      | cons a t =>
        cases t with
        | nil => simp
        | cons b t2 =>
          cases t2 with
          | nil => simp
          | cons c t3 => simp [hx0]
    simp only [this, Bool.false_eq_true, if_false]
    rw [ih hxs]
    simp

theorem splitHeadAux_crlf_then (y : UInt8) (hy : y ≠ 13) (rest : Bytes) (acc : List UInt8) :
    Spec.splitHeadAux (13 :: 10 :: y :: rest) acc = Spec.splitHeadAux (y :: rest) (10 :: 13 :: acc) := by
  rw [Spec.splitHeadAux]
  have h1 : Spec.startsCRLFCRLF (13 :: 10 :: y :: rest) = false := by
    unfold Spec.startsCRLFCRLF
    cases rest with
    | nil => simp
    | cons a t => simp [hy]
  simp only [h1, Bool.false_eq_true, if_false]
  rw [Spec.splitHeadAux]
  have h2 : Spec.startsCRLFCRLF (10 :: y :: rest) = false := by
    unfold Spec.startsCRLFCRLF
    cases rest with
    | nil => simp
    | cons a t => cases t <;> simp
  simp only [h2, Bool.false_eq_true, if_false]

theorem splitHeadAux_lines : ∀ (ls : List Bytes), ls ≠ [] → (∀ l ∈ ls, LineOk l) → ∀ (acc : List UInt8),
    Spec.splitHeadAux (joinLines ls ++ [13, 10]) acc = some (acc.reverse ++ (joinLines ls ++ [13, 10]), []) := by
  intro ls
  induction ls with
  | nil => intro h; exact absurd rfl h
  | cons l ls ih =>
    intro _ hok acc
    have hl := hok l (by simp)
    cases ls with
    | nil =>
      have e : joinLines [l] ++ [13, 10] = l ++ [13, 10, 13, 10] := by simp [joinLines]
      rw [e, splitHeadAux_skip l hl.2]
      rw [Spec.splitHeadAux]
      have : Spec.startsCRLFCRLF [13, 10, 13, 10] = true := by decide
      simp [this]
    | cons l2 t =>
      have hl2 := hok l2 (by simp)
      obtain ⟨y, l2', hy⟩ : ∃ y l2', l2 = y :: l2' := by
        cases l2 with
        | nil => exact absurd rfl hl2.1
        | cons y t => exact ⟨y, t, rfl⟩
      have hy13 : y ≠ 13 := hl2.2 y (by rw [hy]; simp)
      have e : joinLines (l :: l2 :: t) ++ [13, 10] = l ++ (13 :: 10 :: y :: (l2' ++ [13, 10] ++ joinLines t ++ [13, 10])) := by
        rw [joinLines_cons, joinLines_cons, hy]; simp
      have e2 : y :: (l2' ++ [13, 10] ++ joinLines t ++ [13, 10]) = joinLines (l2 :: t) ++ [13, 10] := by
        rw [joinLines_cons, hy]; simp
      rw [e, splitHeadAux_skip l hl.2, splitHeadAux_crlf_then y hy13, e2]
      rw [ih (by simp) (fun x hx => hok x (by simp [hx]))]
      rw [← e2, ← e]
      simp [joinLines_cons, List.append_assoc, hy]

theorem headOk_lines (ls : List Bytes) (hne : ls ≠ []) (hok : ∀ l ∈ ls, LineOk l) : HeadOk (joinLines ls ++ [13, 10]) := by
  unfold HeadOk Spec.splitHead
  rw [splitHeadAux_lines ls hne hok []]
  simp

/-! ### the lines `format_output` adds -/

def serverLine : Bytes := (b Gen.serverHeader).take ((b Gen.serverHeader).length - 2)
def keepAliveLine : Bytes := (b Gen.connKeepAlive).take ((b Gen.connKeepAlive).length - 2)
def closeLine : Bytes := (b Gen.connClose).take ((b Gen.connClose).length - 2)
def teLine : Bytes := (b Gen.teChunked).take ((b Gen.teChunked).length - 2)
def clLine (n : Nat) : Bytes := b Gen.contentLengthName ++ decDigits n

theorem lit_server : b Gen.serverHeader = serverLine ++ [13, 10] := by decide
theorem lit_keepAlive : b Gen.connKeepAlive = keepAliveLine ++ [13, 10] := by decide
theorem lit_close : b Gen.connClose = closeLine ++ [13, 10] := by decide
theorem lit_te : b Gen.teChunked = teLine ++ [13, 10] := by decide
theorem lit_crlf : b Gen.crlf = [13, 10] := by decide
theorem lit_headersEnd : b Gen.headersEnd = [13, 10] := by decide

theorem serverLine_ok : LineOk serverLine := by
  refine ⟨by decide, ?_⟩
  have : serverLine.all (· != 13) = true := by decide
  intro c hc; simpa using List.all_eq_true.1 this c hc
theorem keepAliveLine_ok : LineOk keepAliveLine := by
  refine ⟨by decide, ?_⟩
  have : keepAliveLine.all (· != 13) = true := by decide
  intro c hc; simpa using List.all_eq_true.1 this c hc
theorem closeLine_ok : LineOk closeLine := by
  refine ⟨by decide, ?_⟩
  have : closeLine.all (· != 13) = true := by decide
  intro c hc; simpa using List.all_eq_true.1 this c hc
theorem teLine_ok : LineOk teLine := by
  refine ⟨by decide, ?_⟩
  have : teLine.all (· != 13) = true := by decide
  intro c hc; simpa using List.all_eq_true.1 this c hc

theorem digitChar_dec_range (d : Nat) (h : d < 10) : 48 ≤ digitChar d ∧ digitChar d ≤ 57 := by
  have := digitChar_dec d h; exact ⟨this.1, this.2.1⟩

theorem decDigits_all (n : Nat) : ∀ c ∈ decDigits n, 48 ≤ c ∧ c ≤ 57 := by
  induction n using Nat.strongRecOn with
  | _ n ih =>
    unfold decDigits digits
    split
    · rename_i h
      intro c hc
      simp only [List.mem_singleton] at hc
      rw [hc]; exact digitChar_dec_range n h
    · rename_i h
      have hlt : n / 10 < n := Nat.div_lt_self (by omega) (by omega)
      intro c hc
      simp only [List.mem_append, List.mem_singleton] at hc
      cases hc with
      | inl h1 => exact ih (n / 10) hlt c h1
      | inr h1 => rw [h1]; exact digitChar_dec_range _ (Nat.mod_lt _ (by decide))

theorem clLine_ok (n : Nat) : LineOk (clLine n) := by
  refine ⟨by unfold clLine; simp [b, Gen.contentLengthName], ?_⟩
  intro c hc
  unfold clLine at hc
  simp only [List.mem_append] at hc
  cases hc with
  | inl h =>
    have : (b Gen.contentLengthName).all (· != 13) = true := by decide
    simpa using List.all_eq_true.1 this c h
  | inr h =>
    have := decDigits_all n c h
    intro h13; subst h13
    exact absurd this.1 (by decide)

/-! ### what the client's framing rule sees in those lines -/

theorem fv_server : Spec.fieldValues Spec.sTransferEncoding [serverLine] = [] ∧ Spec.fieldValues Spec.sContentLength [serverLine] = [] := by decide
theorem fv_keepAlive : Spec.fieldValues Spec.sTransferEncoding [keepAliveLine] = [] ∧ Spec.fieldValues Spec.sContentLength [keepAliveLine] = [] := by decide
theorem fv_close : Spec.fieldValues Spec.sTransferEncoding [closeLine] = [] ∧ Spec.fieldValues Spec.sContentLength [closeLine] = [] := by decide
theorem fv_te : Spec.fieldValues Spec.sTransferEncoding [teLine] = [Spec.sChunked] ∧ Spec.fieldValues Spec.sContentLength [teLine] = [] := by decide
theorem fv_blank : Spec.fieldValues Spec.sTransferEncoding [[]] = [] ∧ Spec.fieldValues Spec.sContentLength [[]] = [] := by decide

theorem lit_clName : b Gen.contentLengthName = [67,111,110,116,101,110,116,45,76,101,110,103,116,104,58,32] := by decide

theorem parseField_cl (n : Nat) : Spec.parseField (clLine n) = some (Spec.sContentLength, decDigits n) := by
  unfold clLine
  rw [lit_clName]
  obtain ⟨d, ds, hd⟩ : ∃ d ds, decDigits n = d :: ds := by
    cases h : decDigits n with
    | nil => exact absurd h (decDigits_ne_nil n)
    | cons d ds => exact ⟨d, ds, rfl⟩
  have hr := decDigits_all n d (by rw [hd]; simp)
  have hws : Spec.isWs d = false := by
    unfold Spec.isWs
    have h1 : d ≠ 32 := by intro h; subst h; exact absurd hr.1 (by decide)
    have h2 : d ≠ 9 := by intro h; subst h; exact absurd hr.1 (by decide)
    simp [h1, h2]
  rw [hd]
  have h1 : d ≠ 32 := by intro h; subst h; exact absurd hr.1 (by decide)
  have h2 : d ≠ 9 := by intro h; subst h; exact absurd hr.1 (by decide)
  simp [Spec.parseField, List.takeWhile, List.dropWhile, Spec.lower, Spec.lowerByte, Spec.sContentLength, Spec.isWs, h1, h2]

theorem fv_cl (n : Nat) : Spec.fieldValues Spec.sTransferEncoding [clLine n] = [] ∧ Spec.fieldValues Spec.sContentLength [clLine n] = [decDigits n] := by
  unfold Spec.fieldValues
  simp only [List.filterMap_cons, List.filterMap_nil, parseField_cl]
  constructor
  · have : (Spec.sContentLength = Spec.sTransferEncoding) = False := by simp [Spec.sContentLength, Spec.sTransferEncoding]
    simp [this]
  · simp

theorem fieldValues_append (name : Bytes) (a c : List Bytes) :
    Spec.fieldValues name (a ++ c) = Spec.fieldValues name a ++ Spec.fieldValues name c := by
  simp [Spec.fieldValues, List.filterMap_append]

end Cppcms.C03

namespace Cppcms.C03
open Cppcms

/-! ### the whole response through `http::format_output` -/

/-- output and `protocol_violation` flag of a sequence of `format_output(input, completed)` calls -/
def httpRun : HttpSt → List (Bytes × Bool) → Bytes × Bool
  | _, [] => ([], false)
  | st, (w, e) :: cs =>
    let r := httpFormat st w e
    let r2 := httpRun r.1 cs
    (r.2.1 ++ r2.1, r.2.2 || r2.2)

/-- calls as the device issues them for a finalized response: eof exactly once, with the last write -/
def callsOf (ws : List Bytes) (last : Bytes) : List (Bytes × Bool) := ws.map (·, false) ++ [(last, true)]

theorem httpRun_chunked : ∀ (ws : List Bytes) (last : Bytes) (st : HttpSt), st.headersDone = true → st.chunked = true →
    httpRun st (callsOf ws last) = (chunkedBody ws last, false) := by
  intro ws
  induction ws with
  | nil =>
    intro last st h1 h2
    simp [callsOf, httpRun, httpFormat, h1, h2, chunkedBody]
  | cons w ws ih =>
    intro last st h1 h2
    have e : callsOf (w :: ws) last = (w, false) :: callsOf ws last := by simp [callsOf]
    rw [e, httpRun]
    have hf : httpFormat st w false = (st, chunkWrap w false, false) := by simp [httpFormat, h1, h2]
    simp only [hf, ih last st h1 h2, Bool.or_false]
    simp [chunkedBody, List.append_assoc]

theorem httpRun_plain : ∀ (ws : List Bytes) (last : Bytes) (st : HttpSt), st.headersDone = true → st.chunked = false →
    (st.contentLength = none ∨ ∃ n, st.contentLength = some n ∧ st.written + (ws.flatten ++ last).length ≤ n) →
    httpRun st (callsOf ws last) = (ws.flatten ++ last, false) := by
  intro ws
  induction ws with
  | nil =>
    intro last st h1 h2 h3
    simp only [callsOf, List.map_nil, List.nil_append, httpRun, httpFormat, h1, h2, if_true, Bool.false_eq_true, if_false,
      List.flatten_nil, List.append_nil, Bool.or_false]
    congr 1
    rcases h3 with h3 | ⟨n, h3, h4⟩
    · simp [Gen.overrun, h3]
    · simp only [List.flatten_nil, List.nil_append] at h4
      simp [Gen.overrun, h3]; omega
  | cons w ws ih =>
    intro last st h1 h2 h3
    have e : callsOf (w :: ws) last = (w, false) :: callsOf ws last := by simp [callsOf]
    rw [e, httpRun]
    have hv : Gen.overrun st.contentLength.isSome (st.written + w.length) (st.contentLength.getD 0) = false := by
      rcases h3 with h3 | ⟨n, h3, h4⟩
      · simp [Gen.overrun, h3]
      · simp only [List.flatten_cons, List.length_append] at h4
        simp [Gen.overrun, h3]; omega
    have hf : httpFormat st w false = ({ st with written := st.written + w.length }, w, false) := by
      simp [httpFormat, h1, h2, hv]
    simp only [hf]
    rw [ih last { st with written := st.written + w.length } h1 h2 ?_]
    · simp [List.append_assoc]
    · rcases h3 with h3 | ⟨n, h3, h4⟩
      · exact Or.inl h3
      · refine Or.inr ⟨n, h3, ?_⟩
        simp only [List.flatten_cons, List.length_append] at h4 ⊢
        omega

/-- what an RFC 7230 client makes of a head built from CR-free lines (`l0` is the status line) -/
theorem deHttp_lines (l0 : Bytes) (rest0 extras : List Bytes)
    (hhttp : l0.take 5 = Spec.sHttpSlash) (hok : ∀ l ∈ l0 :: (rest0 ++ extras), LineOk l) (enc : Bytes)
    (hver : Spec.framingOf (Spec.fieldValues Spec.sTransferEncoding (rest0 ++ extras))
                           (Spec.fieldValues Spec.sContentLength (rest0 ++ extras)) = some .chunked → l0.take 8 = Spec.sHttp11) :
    Spec.deHttp (joinLines (l0 :: (rest0 ++ extras)) ++ [13, 10] ++ enc) =
      Spec.deBody (Spec.framingOf (Spec.fieldValues Spec.sTransferEncoding (rest0 ++ extras))
                                  (Spec.fieldValues Spec.sContentLength (rest0 ++ extras)))
        (joinLines (l0 :: (rest0 ++ extras)) ++ [13, 10]) enc := by
  have hne : l0 :: (rest0 ++ extras) ≠ [] := by simp
  have hhead : HeadOk (joinLines (l0 :: (rest0 ++ extras)) ++ [13, 10]) := headOk_lines _ hne hok
  have hcr : ∀ l ∈ l0 :: (rest0 ++ extras), ∀ c ∈ l, c ≠ 13 := fun l hl => (hok l hl).2
  have hlines : Spec.lines (joinLines (l0 :: (rest0 ++ extras)) ++ [13, 10]) = l0 :: (rest0 ++ extras) ++ [[]] := lines_head _ hcr
  have h5 : (joinLines (l0 :: (rest0 ++ extras)) ++ [13, 10]).take 5 = Spec.sHttpSlash := by
    have hl0 : 5 ≤ l0.length := by
      have := congrArg List.length hhttp
      simp only [List.length_take, Spec.sHttpSlash, List.length_cons, List.length_nil] at this
      omega
    rw [joinLines_cons, List.append_assoc, List.append_assoc, List.take_append_of_le_length hl0]
    exact hhttp
  have hfr : Spec.httpFraming (joinLines (l0 :: (rest0 ++ extras)) ++ [13, 10]) =
      Spec.framingOf (Spec.fieldValues Spec.sTransferEncoding (rest0 ++ extras)) (Spec.fieldValues Spec.sContentLength (rest0 ++ extras)) := by
    unfold Spec.httpFraming
    rw [hlines]
    simp only [List.cons_append, List.drop_succ_cons, List.drop_zero]
    rw [fieldValues_append _ (rest0 ++ extras), fv_blank.1, List.append_nil,
        fieldValues_append _ (rest0 ++ extras), fv_blank.2, List.append_nil]
  unfold Spec.deHttp
  rw [splitHead_append _ enc hhead]
  simp only [h5, ne_eq, not_true_eq_false, if_false, hfr]
  by_cases hch : Spec.framingOf (Spec.fieldValues Spec.sTransferEncoding (rest0 ++ extras))
      (Spec.fieldValues Spec.sContentLength (rest0 ++ extras)) = some .chunked
  · have h8 := hver hch
    have hl8 : 8 ≤ l0.length := by
      have := congrArg List.length h8
      simp only [List.length_take, Spec.sHttp11, List.length_cons, List.length_nil] at this
      omega
    have : (joinLines (l0 :: (rest0 ++ extras)) ++ [13, 10]).take 8 = Spec.sHttp11 := by
      rw [joinLines_cons, List.append_assoc, List.append_assoc, List.take_append_of_le_length hl8]
      exact h8
    simp [this]
  · simp [hch]

end Cppcms.C03

namespace Cppcms.C03
open Cppcms

/-- the connection line `format_output` chooses -/
def connLine (ka : Bool) : Bytes := if ka then keepAliveLine else closeLine

theorem connLine_ok (ka : Bool) : LineOk (connLine ka) := by
  cases ka
  · exact closeLine_ok
  · exact keepAliveLine_ok

theorem fv_conn (ka : Bool) : Spec.fieldValues Spec.sTransferEncoding [connLine ka] = [] ∧ Spec.fieldValues Spec.sContentLength [connLine ka] = [] := by
  cases ka
  · exact fv_close
  · exact fv_keepAlive

/-- what `set_response_headers` left in the connection before the first `format_output`:
the application's status line and header lines, and the Content-Length it announced (if any) -/
structure HttpReady (st : HttpSt) (l0 : Bytes) (rest0 : List Bytes) : Prop where
  fresh : st.headersDone = false
  hdr : st.responseHeaders = joinLines (l0 :: rest0)
  status : l0.take 5 = Spec.sHttpSlash
  ok : ∀ l ∈ l0 :: rest0, LineOk l
  noTE : Spec.fieldValues Spec.sTransferEncoding rest0 = []
  cl : (st.contentLength = none ∧ Spec.fieldValues Spec.sContentLength rest0 = []) ∨
       (∃ n v, st.contentLength = some n ∧ Spec.fieldValues Spec.sContentLength rest0 = [v] ∧ Spec.parseDecNum v = some n)
  written0 : st.written = 0
  /-- the status line carries the version `set_response_headers` chose from `is_http_11_` -/
  version : st.isHttp11 = true → l0.take 8 = Spec.sHttp11

theorem joinLines_ne_nil (l0 : Bytes) (rest0 : List Bytes) : (joinLines (l0 :: rest0)).isEmpty = false := by
  rw [joinLines_cons]; simp

theorem head_eq (l0 : Bytes) (rest0 extras : List Bytes) :
    joinLines (l0 :: rest0) ++ joinLines extras ++ [13, 10] = joinLines (l0 :: (rest0 ++ extras)) ++ [13, 10] := by
  rw [← joinLines_append]; rfl

/-- first call, `completed`: the whole body is known, `Content-Length` is announced (by the application
or by `format_output`), never chunked -/
theorem httpFormat_first_completed (st : HttpSt) (l0 : Bytes) (rest0 : List Bytes) (h : HttpReady st l0 rest0) (last : Bytes) :
    ∃ ka, (httpFormat st last true).2.1 =
        joinLines (l0 :: rest0) ++
          joinLines ([serverLine] ++ (if st.contentLength.isSome then [] else [clLine last.length]) ++ [connLine ka]) ++ [13, 10] ++ last ∧
      (httpFormat st last true).2.2 = Gen.overrun true last.length ((st.contentLength).getD last.length) := by
  have hne := joinLines_ne_nil l0 rest0
  refine ⟨Gen.keepAliveCond st.clientKeepAlive st.errorState true st.isHttp11, ?_⟩
  rcases h.cl with ⟨hc, _⟩ | ⟨n, v, hc, _, _⟩
  · simp only [httpFormat, h.fresh, Bool.false_eq_true, if_false, h.hdr, hne, hc, Option.isSome_none, Gen.autoContentLength,
      Bool.not_false, Bool.true_and, if_true, Option.isSome_some, Gen.chunkedCond, Bool.not_true, Bool.and_false, h.written0,
      Nat.zero_add, Option.getD_none]
    constructor
    · cases Gen.keepAliveCond st.clientKeepAlive st.errorState true st.isHttp11 <;>
        simp [lit_server, lit_keepAlive, lit_close, lit_crlf, lit_headersEnd, joinLines, clLine, connLine, List.append_assoc]
    · cases Gen.keepAliveCond st.clientKeepAlive st.errorState true st.isHttp11 <;> simp
  · simp only [httpFormat, h.fresh, Bool.false_eq_true, if_false, h.hdr, hne, hc, Option.isSome_some, Gen.autoContentLength,
      Bool.not_true, Bool.false_and, Gen.chunkedCond, Bool.and_false, h.written0, Nat.zero_add, Option.getD_some, if_true]
    constructor
    · cases Gen.keepAliveCond st.clientKeepAlive st.errorState true st.isHttp11 <;>
        simp [lit_server, lit_keepAlive, lit_close, lit_headersEnd, joinLines, connLine, List.append_assoc]
    · cases Gen.keepAliveCond st.clientKeepAlive st.errorState true st.isHttp11 <;> simp

end Cppcms.C03

namespace Cppcms.C03
open Cppcms

/-- first call, more to come: chunked iff keep-alive is possible and no length was announced -/
theorem httpFormat_first_more (st : HttpSt) (l0 : Bytes) (rest0 : List Bytes) (h : HttpReady st l0 rest0) (w : Bytes) :
    let ka := Gen.keepAliveCond st.clientKeepAlive st.errorState st.contentLength.isSome st.isHttp11
    let chunked := ka && !st.contentLength.isSome
    (httpFormat st w false).2.1 =
        joinLines (l0 :: rest0) ++ joinLines ([serverLine, connLine ka] ++ (if chunked then [teLine] else [])) ++ [13, 10] ++
          (if chunked then chunkWrap w false else w) ∧
      (httpFormat st w false).2.2 = (if chunked then false else Gen.overrun st.contentLength.isSome w.length (st.contentLength.getD 0)) ∧
      (httpFormat st w false).1.headersDone = true ∧ (httpFormat st w false).1.chunked = chunked ∧
      (httpFormat st w false).1.contentLength = st.contentLength ∧
      (httpFormat st w false).1.written = (if chunked then 0 else w.length) := by
  have hne := joinLines_ne_nil l0 rest0
  intro ka chunked
  rcases h.cl with ⟨hc, _⟩ | ⟨n, v, hc, _, _⟩
  · have hka : ka = Gen.keepAliveCond st.clientKeepAlive st.errorState false st.isHttp11 := by simp [ka, hc]
    have hch : chunked = ka := by simp [chunked, hc]
    rw [hch]
    simp only [httpFormat, h.fresh, Bool.false_eq_true, if_false, h.hdr, hne, hc, Option.isSome_none, Gen.autoContentLength,
      Bool.not_false, Bool.and_false, Gen.chunkedCond, Bool.and_true, h.written0, Nat.zero_add, ← hka]
    cases ka <;>
      simp [lit_server, lit_keepAlive, lit_close, lit_te, lit_headersEnd, joinLines, connLine, List.append_assoc, Gen.overrun]
  · have hka : ka = Gen.keepAliveCond st.clientKeepAlive st.errorState true st.isHttp11 := by simp [ka, hc]
    have hch : chunked = false := by simp [chunked, hc]
    rw [hch]
    simp only [httpFormat, h.fresh, Bool.false_eq_true, if_false, h.hdr, hne, hc, Option.isSome_some, Gen.autoContentLength,
      Bool.not_true, Bool.false_and, Gen.chunkedCond, Bool.and_false, h.written0, Nat.zero_add, ← hka, Option.getD_some]
    cases ka <;>
      simp [lit_server, lit_keepAlive, lit_close, lit_headersEnd, joinLines, connLine, List.append_assoc]

end Cppcms.C03

namespace Cppcms.C03
open Cppcms

theorem lineOk_ext (l0 : Bytes) (rest0 extras : List Bytes) (h0 : ∀ l ∈ l0 :: rest0, LineOk l) (hex : ∀ l ∈ extras, LineOk l) :
    ∀ l ∈ l0 :: (rest0 ++ extras), LineOk l := by
  intro l hl
  simp only [List.mem_cons, List.mem_append] at hl
  rcases hl with hl | hl | hl
  · exact h0 l (by simp [hl])
  · exact h0 l (by simp [hl])
  · exact hex l hl

theorem lower_sChunked : Spec.lower Spec.sChunked = Spec.sChunked := by decide

theorem overrun_self (n : Nat) : Gen.overrun true n n = false := by simp [Gen.overrun]

/-- **HTTP round trip.**  Starting from what `set_response_headers` prepared, for every sequence of
`format_output` calls of a finalized response (the last one `completed`) that respects the
Content-Length the application announced (if it announced one): no `protocol_violation` is raised, and an
RFC 7230 client reads exactly one head — beginning with the application's status line and headers —
and a body equal to the concatenation of the inputs, whichever of Content-Length / chunked / until-close
the server chose. -/
theorem http_roundtrip_lemma (st : HttpSt) (l0 : Bytes) (rest0 : List Bytes) (h : HttpReady st l0 rest0)
    (ws : List Bytes) (last : Bytes)
    (hlen : ∀ n, st.contentLength = some n → (ws.flatten ++ last).length = n) :
    ∃ extras enc, httpRun st (callsOf ws last) = (joinLines (l0 :: (rest0 ++ extras)) ++ [13, 10] ++ enc, false) ∧
      Spec.deHttp (joinLines (l0 :: (rest0 ++ extras)) ++ [13, 10] ++ enc) =
        some (joinLines (l0 :: (rest0 ++ extras)) ++ [13, 10], ws.flatten ++ last) := by
  have hok0 := h.ok
  cases ws with
  | nil =>
    obtain ⟨ka, ho, hv⟩ := httpFormat_first_completed st l0 rest0 h last
    rcases h.cl with ⟨hc, hcl⟩ | ⟨n, v, hc, hcl, hpv⟩
    · simp only [hc, Option.isSome_none, Bool.false_eq_true, if_false, Option.getD_none] at ho hv
      refine ⟨[serverLine, clLine last.length, connLine ka], last, ?_, ?_⟩
      · simp only [callsOf, List.map_nil, List.nil_append, httpRun, List.append_nil, Bool.or_false]
        rw [ho, hv, ← head_eq, overrun_self]
        rfl
      · have hok := lineOk_ext l0 rest0 [serverLine, clLine last.length, connLine ka] hok0 (by
          intro l hl
          simp only [List.mem_cons, List.not_mem_nil, or_false] at hl
          rcases hl with hl | hl | hl
          · subst hl; exact serverLine_ok
          · subst hl; exact clLine_ok _
          · subst hl; exact connLine_ok ka)
        have f1 : Spec.fieldValues Spec.sTransferEncoding (rest0 ++ [serverLine, clLine last.length, connLine ka]) = [] := by
          have : [serverLine, clLine last.length, connLine ka] = [serverLine] ++ [clLine last.length] ++ [connLine ka] := rfl
          rw [this]
          simp only [fieldValues_append, h.noTE, fv_server.1, (fv_cl last.length).1, (fv_conn ka).1, List.nil_append]
        have f2 : Spec.fieldValues Spec.sContentLength (rest0 ++ [serverLine, clLine last.length, connLine ka]) = [decDigits last.length] := by
          have : [serverLine, clLine last.length, connLine ka] = [serverLine] ++ [clLine last.length] ++ [connLine ka] := rfl
          rw [this]
          simp only [fieldValues_append, hcl, fv_server.2, (fv_cl last.length).2, (fv_conn ka).2, List.nil_append, List.append_nil]
        have hverX : Spec.framingOf (Spec.fieldValues Spec.sTransferEncoding (rest0 ++ [serverLine, clLine last.length, connLine ka])) (Spec.fieldValues Spec.sContentLength (rest0 ++ [serverLine, clLine last.length, connLine ka])) = some .chunked → l0.take 8 = Spec.sHttp11 := by
          rw [f1, f2]; simp [Spec.framingOf]
        rw [deHttp_lines l0 rest0 _ h.status hok last hverX]
        rw [f1, f2]
        simp [Spec.framingOf, parseDecNum_decDigits, Spec.deBody]
    · have htot := hlen n hc
      simp only [List.flatten_nil, List.nil_append] at htot
      simp only [hc, Option.isSome_some, if_true, Option.getD_some, List.append_nil] at ho hv
      refine ⟨[serverLine, connLine ka], last, ?_, ?_⟩
      · simp only [callsOf, List.map_nil, List.nil_append, httpRun, List.append_nil, Bool.or_false]
        rw [ho, hv, ← head_eq, htot, overrun_self]
        rfl
      · have hok := lineOk_ext l0 rest0 [serverLine, connLine ka] hok0 (by
          intro l hl
          simp only [List.mem_cons, List.not_mem_nil, or_false] at hl
          rcases hl with hl | hl
          · subst hl; exact serverLine_ok
          · subst hl; exact connLine_ok ka)
        have f1 : Spec.fieldValues Spec.sTransferEncoding (rest0 ++ [serverLine, connLine ka]) = [] := by
          have : [serverLine, connLine ka] = [serverLine] ++ [connLine ka] := rfl
          rw [this]
          simp only [fieldValues_append, h.noTE, fv_server.1, (fv_conn ka).1, List.nil_append]
        have f2 : Spec.fieldValues Spec.sContentLength (rest0 ++ [serverLine, connLine ka]) = [v] := by
          have : [serverLine, connLine ka] = [serverLine] ++ [connLine ka] := rfl
          rw [this]
          simp only [fieldValues_append, hcl, fv_server.2, (fv_conn ka).2, List.append_nil]
        have hverX : Spec.framingOf (Spec.fieldValues Spec.sTransferEncoding (rest0 ++ [serverLine, connLine ka])) (Spec.fieldValues Spec.sContentLength (rest0 ++ [serverLine, connLine ka])) = some .chunked → l0.take 8 = Spec.sHttp11 := by
          rw [f1, f2]; simp [Spec.framingOf]
        rw [deHttp_lines l0 rest0 _ h.status hok last hverX]
        rw [f1, f2]
        simp [Spec.framingOf, hpv, Spec.deBody, htot]
  | cons w ws' =>
    have hm := httpFormat_first_more st l0 rest0 h w
    simp only at hm
    obtain ⟨ho, hv, hd, hch, hcl', hwr⟩ := hm
    have e : callsOf (w :: ws') last = (w, false) :: callsOf ws' last := by simp [callsOf]
    rcases h.cl with ⟨hc, hcl⟩ | ⟨n, v, hc, hcl, hpv⟩
    · -- no length announced: chunked if keep-alive is possible, else until close
      simp only [hc, Option.isSome_none, Bool.not_false, Bool.and_true, Option.getD_none] at ho hv hd hch hcl' hwr
      generalize hka : Gen.keepAliveCond st.clientKeepAlive st.errorState false st.isHttp11 = ka at *
      cases ka with
      | true =>
        simp only [if_true] at ho hv hch hwr
        refine ⟨[serverLine, connLine true, teLine], chunkedBody (w :: ws') last, ?_, ?_⟩
        · rw [e, httpRun]
          simp only [ho, hv, httpRun_chunked ws' last _ hd hch, Bool.or_false]
          rw [head_eq]
          simp [chunkedBody, List.append_assoc]
        · have hok : ∀ l ∈ l0 :: (rest0 ++ [serverLine, connLine true, teLine]), LineOk l := by
            intro l hl
            simp only [List.mem_cons, List.mem_append, List.not_mem_nil, or_false] at hl
            rcases hl with hl | hl | hl | hl | hl
            · exact hok0 l (by simp [hl])
            · exact hok0 l (by simp [hl])
            · subst hl; exact serverLine_ok
            · subst hl; exact connLine_ok true
            · subst hl; exact teLine_ok
          have f1 : Spec.fieldValues Spec.sTransferEncoding (rest0 ++ [serverLine, connLine true, teLine]) = [Spec.sChunked] := by
            have : [serverLine, connLine true, teLine] = [serverLine] ++ [connLine true] ++ [teLine] := rfl
            rw [this]
            simp only [fieldValues_append, h.noTE, fv_server.1, (fv_conn true).1, fv_te.1, List.nil_append]
          have f2 : Spec.fieldValues Spec.sContentLength (rest0 ++ [serverLine, connLine true, teLine]) = [] := by
            have : [serverLine, connLine true, teLine] = [serverLine] ++ [connLine true] ++ [teLine] := rfl
            rw [this]
            simp only [fieldValues_append, hcl, fv_server.2, (fv_conn true).2, fv_te.2, List.nil_append]
          have hverX : Spec.framingOf (Spec.fieldValues Spec.sTransferEncoding (rest0 ++ [serverLine, connLine true, teLine])) (Spec.fieldValues Spec.sContentLength (rest0 ++ [serverLine, connLine true, teLine])) = some .chunked → l0.take 8 = Spec.sHttp11 := by
            rw [f1, f2]; intro _; exact h.version (by have := hka; simp [Gen.keepAliveCond] at this; exact this.2)
          rw [deHttp_lines l0 rest0 _ h.status hok _ hverX]
          rw [f1, f2]
          have := deChunked_body (w :: ws') last []
          simp only [List.append_nil] at this
          simp only [Spec.framingOf, lower_sChunked, if_true, Spec.deBody, this]
      | false =>
        simp only [Bool.false_eq_true, if_false] at ho hv hch hwr
        refine ⟨[serverLine, connLine false], w ++ (ws'.flatten ++ last), ?_, ?_⟩
        · rw [e, httpRun]
          have hp := httpRun_plain ws' last _ hd hch (Or.inl (by rw [hcl']))
          simp only [ho, hv, hp, Bool.or_false]
          rw [head_eq]
          simp [Gen.overrun, List.append_assoc]
        · have hok : ∀ l ∈ l0 :: (rest0 ++ [serverLine, connLine false]), LineOk l := by
            intro l hl
            simp only [List.mem_cons, List.mem_append, List.not_mem_nil, or_false] at hl
            rcases hl with hl | hl | hl | hl
            · exact hok0 l (by simp [hl])
            · exact hok0 l (by simp [hl])
            · subst hl; exact serverLine_ok
            · subst hl; exact connLine_ok false
          have f1 : Spec.fieldValues Spec.sTransferEncoding (rest0 ++ [serverLine, connLine false]) = [] := by
            have : [serverLine, connLine false] = [serverLine] ++ [connLine false] := rfl
            rw [this]
            simp only [fieldValues_append, h.noTE, fv_server.1, (fv_conn false).1, List.nil_append]
          have f2 : Spec.fieldValues Spec.sContentLength (rest0 ++ [serverLine, connLine false]) = [] := by
            have : [serverLine, connLine false] = [serverLine] ++ [connLine false] := rfl
            rw [this]
            simp only [fieldValues_append, hcl, fv_server.2, (fv_conn false).2, List.nil_append]
          have hverX : Spec.framingOf (Spec.fieldValues Spec.sTransferEncoding (rest0 ++ [serverLine, connLine false])) (Spec.fieldValues Spec.sContentLength (rest0 ++ [serverLine, connLine false])) = some .chunked → l0.take 8 = Spec.sHttp11 := by
            rw [f1, f2]; simp [Spec.framingOf]
          rw [deHttp_lines l0 rest0 _ h.status hok _ hverX]
          rw [f1, f2]
          simp [Spec.framingOf, Spec.deBody, List.append_assoc]
    · -- the application announced n: never chunked, body passed through
      have htot := hlen n hc
      simp only [List.flatten_cons, List.length_append] at htot
      simp only [hc, Option.isSome_some, Bool.not_true, Bool.and_false, Bool.false_eq_true, if_false, Option.getD_some] at ho hv hd hch hcl' hwr
      refine ⟨[serverLine, connLine (Gen.keepAliveCond st.clientKeepAlive st.errorState true st.isHttp11)], w ++ (ws'.flatten ++ last), ?_, ?_⟩
      · rw [e, httpRun]
        have hp := httpRun_plain ws' last _ hd hch (Or.inr ⟨n, by rw [hcl'], by rw [hwr]; simp only [List.length_append]; omega⟩)
        simp only [ho, hv, hp, Bool.or_false]
        rw [head_eq]
        have : Gen.overrun true w.length n = false := by simp [Gen.overrun]; omega
        simp [this, List.append_assoc]
      · generalize Gen.keepAliveCond st.clientKeepAlive st.errorState true st.isHttp11 = ka
        have hok : ∀ l ∈ l0 :: (rest0 ++ [serverLine, connLine ka]), LineOk l := by
          intro l hl
          simp only [List.mem_cons, List.mem_append, List.not_mem_nil, or_false] at hl
          rcases hl with hl | hl | hl | hl
          · exact hok0 l (by simp [hl])
          · exact hok0 l (by simp [hl])
          · subst hl; exact serverLine_ok
          · subst hl; exact connLine_ok ka
        have f1 : Spec.fieldValues Spec.sTransferEncoding (rest0 ++ [serverLine, connLine ka]) = [] := by
          have : [serverLine, connLine ka] = [serverLine] ++ [connLine ka] := rfl
          rw [this]
          simp only [fieldValues_append, h.noTE, fv_server.1, (fv_conn ka).1, List.nil_append]
        have f2 : Spec.fieldValues Spec.sContentLength (rest0 ++ [serverLine, connLine ka]) = [v] := by
          have : [serverLine, connLine ka] = [serverLine] ++ [connLine ka] := rfl
          rw [this]
          simp only [fieldValues_append, hcl, fv_server.2, (fv_conn ka).2, List.append_nil]
        have hverX : Spec.framingOf (Spec.fieldValues Spec.sTransferEncoding (rest0 ++ [serverLine, connLine ka])) (Spec.fieldValues Spec.sContentLength (rest0 ++ [serverLine, connLine ka])) = some .chunked → l0.take 8 = Spec.sHttp11 := by
          rw [f1, f2]; simp [Spec.framingOf]
        rw [deHttp_lines l0 rest0 _ h.status hok _ hverX]
        rw [f1, f2]
        have hl2 : (w ++ (ws'.flatten ++ last)).length = n := by simp only [List.length_append]; omega
        simp [Spec.framingOf, hpv, Spec.deBody, hl2, List.append_assoc]

end Cppcms.C03

namespace Cppcms.C03
open Cppcms

/-! ### `response_headers` formatting as lines -/

theorem lit_headerSep_lineEnd : b Gen.lineEnd = [13, 10] ∧ b Gen.headerSep = [58, 32] := by decide

/-- the header lines `format_cgi_headers` / `format_http_headers` write (`skip`: leave out the `Status` entry) -/
def Headers.lines (h : Headers) (skip : Option Bytes) : List Bytes :=
  (h.map.flatMap fun kv =>
      match skip with
      | some s => if ieq kv.1 s then [] else [kv.1 ++ [58, 32] ++ kv.2]
      | none => [kv.1 ++ [58, 32] ++ kv.2]) ++ h.added

theorem flatMap_lines (a : List Bytes) : (a.flatMap (· ++ [13, 10])) = joinLines a := by
  induction a with
  | nil => simp [joinLines]
  | cons x a ih => rw [List.flatMap_cons, joinLines_cons, ih]

theorem fmtLines_eq (h : Headers) (skip : Option Bytes) : fmtLines h skip = joinLines (h.lines skip) := by
  have ⟨e1, e2⟩ := lit_headerSep_lineEnd
  cases skip with
  | none =>
    simp only [fmtLines, Headers.lines, joinLines_append, e1, e2, flatMap_lines]
    congr 1
    generalize h.map = m
    induction m with
    | nil => simp [joinLines]
    | cons kv m ih => simp only [List.flatMap_cons, joinLines_append, ih]; simp [joinLines, List.append_assoc]
  | some s =>
    simp only [fmtLines, Headers.lines, joinLines_append, e1, e2, flatMap_lines]
    congr 1
    generalize h.map = m
    induction m with
    | nil => simp [joinLines]
    | cons kv m ih =>
      simp only [List.flatMap_cons, joinLines_append, ih]
      split <;> simp [joinLines, List.append_assoc]

/-- SCGI/FastCGI: the block `format_xcgi_response_headers` builds from clean header lines is exactly one header block -/
theorem xcgi_headOk (h : Headers) (hne : h.lines none ≠ []) (hok : ∀ l ∈ h.lines none, LineOk l) :
    HeadOk (xcgiHeaders false h) ∧ xcgiHeaders false h = joinLines (h.lines none) ++ [13, 10] := by
  have e : xcgiHeaders false h = joinLines (h.lines none) ++ [13, 10] := by
    simp [xcgiHeaders, Headers.fmtCgi, fmtLines_eq, lit_headerSep_lineEnd.1]
  rw [e]
  exact ⟨headOk_lines _ hne hok, rfl⟩

end Cppcms.C03
