import Cppcms.Common
import Cppcms.C03.Gen
import Cppcms.C03.Framing
import Cppcms.C03.Buffers
import Cppcms.C03.Script
/-!
# C03 model, part 4a: the response object (stage 1)

`http::response` (`out()`, `setbuf`, `full_asynchronous_buffering`, `finalize`, header setters,
`copy_to_cache`), the two ways a context completes a response, and
`cache_interface::fetch_page/store_page`, composed from the stream buffers of `Buffers.lean`.

The response talks to its connection only through `do_write` (whose result it uses only as a
success flag — after a failure the device drops the connection for good), `set_response_headers`
and `async_write_response`.  The model therefore runs the response against the recording
connection `traceIf` and produces a `Trace`; `WireModel.lean` replays the trace on the
connection model (framing, write path, socket schedule), dropping everything after the first
failed write.
-/
namespace Cppcms.C03
open Cppcms

/-- the stand-in deflater of the harness (`zstub` cases): 'D' len(4) bytes for each feed with input,
'S' for Z_SYNC_FLUSH, 'E' for Z_FINISH -/
def stubDeflater : Deflater where
  σ := Unit
  init := ()
  feed := fun _ input fl =>
    let n := input.length
    let d : Bytes := if n = 0 then [] else
      [68, UInt8.ofNat (n / 16777216), UInt8.ofNat (n / 65536 % 256), UInt8.ofNat (n / 256 % 256), UInt8.ofNat (n % 256)] ++ input
    ((), d ++ (match fl with | .noFlush => [] | .syncFlush => [83] | .finish => [69]))

structure Config where
  outputBuffer : Nat := Gen.defaultOutputBuffer
  asyncOutputBuffer : Nat := Gen.defaultAsyncOutputBuffer
  gzipBuffer : Int := -1
  gzipEnable : Bool := true
  deriving Repr, Inhabited

/-- `http::response` + the parts of `http::context`/`cache_interface` that drive it; `D` is zlib -/
structure Resp (D : Deflater) where
  cfg : Config
  mode : Mode
  /-- request carried `Accept-Encoding: gzip` -/
  acceptGzip : Bool
  headers : Headers
  requiredBufferSize : Int := -1
  ostreamRequested : Bool := false
  copyToCache : Bool := false
  finalized : Bool := false
  /-- `cache_interface::page_compression_used_` -/
  pageCompressionUsed : Bool := false
  gz : Option (Gz D) := none
  copy : Option Copy := none
  dev : Dev := {}
  /-- `d->buffered.full_buffering_` before the stream exists -/
  asyncFullBuffering : Bool := true
  /-- everything done to the connection so far -/
  trace : Trace := []
  /-- ghost: every byte written to `out()`, in order -/
  written : Bytes := []
  /-- ghost: the header set handed to the connection by `out()` (not in the raw modes) -/
  sentHeaders : Option Headers := none

def sContentType : Bytes := b [67,111,110,116,101,110,116,45,84,121,112,101]
def sContentEncoding : Bytes := b [67,111,110,116,101,110,116,45,69,110,99,111,100,105,110,103]
def sContentLengthName : Bytes := b [67,111,110,116,101,110,116,45,76,101,110,103,116,104]
def sStatus : Bytes := b [83,116,97,116,117,115]
def sTextHtml : Bytes := b [116,101,120,116,47,104,116,109,108]
def sTextSlash : Bytes := b [116,101,120,116,47]
def sGzip : Bytes := b [103,122,105,112]

/-- `response::response`: Content-Type set (charset suppressed, X-Powered-By disabled in the harness configuration) -/
def Resp.new (D : Deflater) (cfg : Config) (mode : Mode) (acceptGzip : Bool) : Resp D :=
  { cfg, mode, acceptGzip, headers := ({} : Headers).set sContentType sTextHtml }

variable {D : Deflater}

/-- `response::need_gzip` -/
def Resp.needGzip (r : Resp D) : Bool :=
  r.mode == .normal && r.cfg.gzipEnable && r.acceptGzip && (r.headers.get sContentEncoding).isEmpty &&
    (r.headers.get sContentType).take 5 == sTextSlash

/-- push actions of `copy_buf` (or of `gzip_buf` when there is no `copy_buf`) into the device -/
def Resp.intoDev (r : Resp D) (acts : List Act) : Resp D :=
  let x := r.dev.apply traceIf r.trace acts
  { r with dev := x.1, trace := x.2 }

/-- one `sputn` / `pubsync` arriving at `copy_buf` -/
def Copy.applyAct (k : Copy) : Act → Copy × List Act
  | .put bs => k.xsputn bs
  | .sync => k.sync

/-- push actions of `gzip_buf` into whatever is below it -/
def Resp.belowGz (r : Resp D) : List Act → Resp D
  | [] => r
  | a :: rest =>
    match r.copy with
    | none => (r.intoDev [a]).belowGz rest
    | some k => ({ r with copy := some (k.applyAct a).1 }.intoDev (k.applyAct a).2).belowGz rest

/-- `response::out()` on first use: device by io mode and requested size; `need_gzip()` decides and
`content_encoding("gzip")` is set *before* the headers are handed to the connection (not in the raw
modes); then `copy_buf` is put on the device, then `gzip_buf` on top -/
def Resp.requestStream (r : Resp D) : Resp D :=
  if r.ostreamRequested then r
  else
    let async := r.mode.isAsync
    let dflt := if async then r.cfg.asyncOutputBuffer else r.cfg.outputBuffer
    let bsize := if r.requiredBufferSize = -1 then dflt else r.requiredBufferSize.toNat
    let gzip := r.needGzip
    let hdrs := if gzip then r.headers.set sContentEncoding sGzip else r.headers
    { r with
      dev := Dev.fresh async (if async then r.asyncFullBuffering else true) r.mode.isRaw bsize
      ostreamRequested := true
      headers := hdrs
      trace := if r.mode.isRaw then r.trace else traceIf.setHeaders r.trace hdrs
      sentHeaders := if r.mode.isRaw then r.sentHeaders else some hdrs
      copy := if r.copyToCache then some {} else r.copy
      gz := if gzip then some (Gz.open D r.cfg.gzipBuffer) else r.gz }

/-- the top-most buffer takes `s` (`std::ostream::write` after `out()`) -/
def Resp.push (r : Resp D) (s : Bytes) : Resp D :=
  match r.gz with
  | some g => let x := g.xsputn s; { r with gz := some x.1 }.belowGz x.2
  | none =>
    match r.copy with
    | some k => let x := k.xsputn s; { r with copy := some x.1 }.intoDev x.2
    | none => let x := r.dev.xsputn traceIf r.trace s; { r with dev := x.1, trace := x.2 }

/-- `std::ostream::write` on `out()` -/
def Resp.write (r : Resp D) (s : Bytes) : Resp D :=
  let r := r.requestStream
  { r.push s with written := r.written ++ s }

/-- the top-most buffer takes one character (`std::ostream::put` after `out()`) -/
def Resp.pushc (r : Resp D) (c : UInt8) : Resp D :=
  match r.gz with
  | some g => let x := g.sputc c; { r with gz := some x.1 }.belowGz x.2
  | none =>
    match r.copy with
    | some k => let x := k.sputc c; { r with copy := some x.1 }.intoDev x.2
    | none => let x := r.dev.sputc traceIf r.trace c; { r with dev := x.1, trace := x.2 }

/-- `std::ostream::put` on `out()` -/
def Resp.putc (r : Resp D) (c : UInt8) : Resp D :=
  let r := r.requestStream
  { r.pushc c with written := r.written ++ [c] }

/-- `std::ostream::flush` on `out()` (`pubsync`) -/
def Resp.sync (r : Resp D) : Resp D :=
  let r := r.requestStream
  match r.gz with
  | some g => let x := g.sync; { r with gz := some x.1 }.belowGz x.2
  | none =>
    match r.copy with
    | some k => let x := k.sync; { r with copy := some x.1 }.intoDev x.2
    | none => let x := r.dev.sync traceIf r.trace; { r with dev := x.1, trace := x.2 }

/-- `response::setbuf` -/
def Resp.setbuf (r : Resp D) (n : Int) : Resp D :=
  let n := if n < 0 then -1 else n
  let r := { r with requiredBufferSize := n }
  if r.ostreamRequested then
    let size := if n < 0 then (if r.mode.isAsync then r.cfg.asyncOutputBuffer else r.cfg.outputBuffer) else n.toNat
    let x := r.dev.setbuf traceIf r.trace size
    { r with dev := x.1, trace := x.2 }
  else r

/-- `response::full_asynchronous_buffering(v)`: acts on `d->buffered`, which is the device in use only in the asynchronous modes -/
def Resp.setFullBuffering (r : Resp D) (v : Bool) : Resp D :=
  if r.mode.isAsync && r.ostreamRequested then
    let x := r.dev.setFullBuffering traceIf r.trace v
    { r with dev := x.1, trace := x.2, asyncFullBuffering := v }
  else { r with asyncFullBuffering := v }

/-- `gzip_buf::close()` (if there is one): `Z_FINISH`, what comes out goes down the chain -/
def Resp.closeGz (r : Resp D) : Resp D :=
  match r.gz with
  | some g => ({ r with gz := some g.close.1 } : Resp D).belowGz g.close.2
  | none => r

/-- `copy_buf::close()` (if there is one): the rest of its buffer is passed on, then it is detached -/
def Resp.closeCopy (r : Resp D) : Resp D :=
  match r.copy with
  | some k => ({ r with copy := some k.close.1 } : Resp D).intoDev k.close.2
  | none => r

/-- `basic_device::close()`: final flush with the eof mark -/
def Resp.closeDev (r : Resp D) : Resp D :=
  { r with dev := (r.dev.close traceIf r.trace).1, trace := (r.dev.close traceIf r.trace).2, finalized := true }

/-- `response::finalize`: `out()`, then `close()` on every buffer from the top down -/
def Resp.finalize (r : Resp D) : Resp D :=
  if r.finalized then r else r.requestStream.closeGz.closeCopy.closeDev

/-- `connection::async_write_response`: `flush_async_chunk`, then (if that did not fail) the connection
decides — by `has_pending()` — whether an `async_write` is needed (`WEv.asyncFlush`) -/
def Resp.asyncWriteResponse (r : Resp D) : Resp D :=
  let x := r.dev.flush traceIf r.trace
  { r with dev := x.1, trace := x.2.1 ++ [WEv.asyncFlush] }

/-- `context::async_flush_output`.  Before `out()` was ever called the device has no connection yet
(`conn_.lock()` fails, `flush_async_chunk` returns -1) and the handler is posted at once: nothing is sent. -/
def Resp.asyncFlush (r : Resp D) : Resp D := if r.ostreamRequested then r.asyncWriteResponse else r

/-- what `http::context` does when the application is done -/
def Resp.complete (r : Resp D) : Resp D :=
  let r := r.finalize
  if r.mode.isAsync then r.asyncWriteResponse else r

def statusText (code : Nat) : Bytes :=
  match Gen.statusTable.find? (·.1 = code) with
  | some (_, t) => b t
  | none => b Gen.statusUnknown

/-- page cache as seen through `cache_interface` (keys are never evicted in the harness configuration) -/
abbrev PageCache := List (String × Bytes)

def PageCache.fetch (c : PageCache) (key : String) : Option Bytes := (c.find? (·.1 == key)).map (·.2)
def PageCache.store (c : PageCache) (key : String) (v : Bytes) : PageCache := (key, v) :: c.filter (·.1 != key)

/-- `(gzip ? "_Z:" : "_U:") + key` -/
def pageKey (gzip : Bool) (key : String) : String := (if gzip then "_Z:" else "_U:") ++ key

/-- `response::copied_data` -/
def Resp.copiedData (r : Resp D) : Bytes :=
  if !r.copyToCache || !r.ostreamRequested then [] else
    match r.copy with
    | some k => k.getstr.1
    | none => []

structure Run (D : Deflater) where
  resp : Resp D
  cache : PageCache
  /-- page read back through `cache_interface` right after `store_page` -/
  cacheCopy : Option Bytes := none
  /-- `fetch_page` hit: the application returns -/
  stopped : Bool := false

def putAll (r : Resp D) : Bytes → Resp D
  | [] => r
  | c :: cs => putAll (r.putc c) cs

/-- `cache_interface::fetch_page(key)` -/
def Run.fetchPage (x : Run D) (key : String) : Run D :=
  let r := x.resp
  let gzip := r.needGzip
  let r := { r with pageCompressionUsed := gzip }
  match x.cache.fetch (pageKey gzip key) with
  | some page =>
    let r := if gzip then { r with headers := r.headers.set sContentEncoding sGzip } else r
    { x with resp := r.write page, stopped := true }
  | none => { x with resp := { r with copyToCache := true } }

/-- `cache_interface::store_page(key)` followed by the harness' read-back -/
def Run.storePage (x : Run D) (key : String) : Run D :=
  let r := x.resp.finalize
  let rkey := pageKey r.pageCompressionUsed key
  let data := r.copiedData
  let r := match r.copy with
    | some k => if !r.copyToCache || !r.ostreamRequested then r else { r with copy := some k.getstr.2 }
    | none => r
  let cache := x.cache.store rkey data
  { x with resp := r, cache, cacheCopy := cache.fetch rkey }

def Run.step (x : Run D) (op : Op) : Run D :=
  if x.stopped then x else
  let r := x.resp
  match op with
  | .write n seed => { x with resp := r.write (genBytes seed n) }
  | .lit bs => { x with resp := r.write bs }
  | .putc n seed => { x with resp := putAll r.requestStream (genBytes seed n) }
  | .out => { x with resp := r.requestStream }
  | .finalize => { x with resp := r.finalize }
  | .flush => { x with resp := if r.mode.isAsync then r.asyncFlush else r.sync }
  | .setbuf n => { x with resp := r.setbuf n }
  | .fullBuf v => { x with resp := r.setFullBuffering v }
  | .setHeader n v => { x with resp := { r with headers := r.headers.set n v } }
  | .addHeader n v => { x with resp := { r with headers := r.headers.add n v } }
  | .cookie n v => { x with resp := { r with headers := r.headers.addRaw (b Gen.cookiePrefix ++ n ++ [61] ++ v ++ b Gen.cookieSuffix) } }
  | .contentLength n => { x with resp := { r with headers := r.headers.set sContentLengthName (decDigits n) } }
  | .status n => { x with resp := { r with headers := r.headers.set sStatus (decDigits n ++ [32] ++ statusText n) } }
  | .fetchPage key => x.fetchPage key
  | .storePage key => x.storePage key

/-- the application's script, then the context completes the response -/
def runScript (D : Deflater) (cfg : Config) (cache : PageCache) (mode : Mode) (acceptGzip : Bool) (script : List Op) : Run D :=
  let x := script.foldl Run.step { resp := Resp.new D cfg mode acceptGzip, cache }
  { x with resp := x.resp.complete }

end Cppcms.C03
