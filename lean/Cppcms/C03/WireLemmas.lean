import Cppcms.C03.WireModel
import Cppcms.C03.ConnWriteLemmas
import Cppcms.C03.HttpLemmas
import Cppcms.C03.DeviceLemmas
/-! Stage 2: replaying a response's trace on the connection, for every socket schedule. -/
namespace Cppcms.C03
open Cppcms

/-! ### `format_output` over a list of calls -/

/-- all `format_output` calls in order: final framing state, concatenated output, any `protocol_violation` -/
def Framer.run (f : Framer) : List (Bytes × Bool) → Framer × Bytes × Bool
  | [] => (f, [], false)
  | (bs, e) :: cs =>
    ((Framer.run (f.format bs e).1 cs).1, (f.format bs e).2.1 ++ (Framer.run (f.format bs e).1 cs).2.1,
      (f.format bs e).2.2 || (Framer.run (f.format bs e).1 cs).2.2)

theorem Framer.run_append : ∀ (cs ds : List (Bytes × Bool)) (f : Framer),
    f.run (cs ++ ds) = (((f.run cs).1.run ds).1, (f.run cs).2.1 ++ ((f.run cs).1.run ds).2.1, (f.run cs).2.2 || ((f.run cs).1.run ds).2.2) := by
  intro cs
  induction cs with
  | nil => intro ds f; simp [Framer.run]
  | cons c cs ih =>
    intro ds f
    obtain ⟨bs, e⟩ := c
    simp only [List.cons_append, Framer.run, ih, List.append_assoc, Bool.or_assoc]

theorem Framer.format_proto (f : Framer) (bs : Bytes) (e : Bool) : (f.format bs e).1.proto = f.proto := by
  unfold Framer.format; split <;> rfl

/-- at least one `format_output` call has been made since `set_response_headers` -/
def Framer.started (f : Framer) : Bool :=
  match f.proto with
  | .scgi => f.scgi.headersWritten
  | .fcgi => f.fcgi.headersWritten
  | .http _ _ => f.http.headersDone

/-- HTTP with a fixed length: the body written so far does not exceed it -/
def Framer.lenOk (f : Framer) : Prop :=
  match f.proto with
  | .http _ _ => f.http.headersDone = true → f.http.chunked = false →
      Gen.overrun f.http.contentLength.isSome f.http.written (f.http.contentLength.getD 0) = false
  | _ => True

theorem httpFormat_done (st : HttpSt) (bs : Bytes) (e : Bool) : (httpFormat st bs e).1.headersDone = true := by
  unfold httpFormat
  by_cases hd : st.headersDone = true
  · rw [if_pos hd]; split <;> simp [hd]
  · rw [if_neg hd]
    dsimp only
    generalize (if st.responseHeaders.isEmpty = true then st.setHeaders {} else st) = st0
    generalize hch : (Gen.keepAliveCond st0.clientKeepAlive st0.errorState
        (if Gen.autoContentLength st0.contentLength.isSome e = true then some bs.length else st0.contentLength).isSome st0.isHttp11 &&
        Gen.chunkedCond (if Gen.autoContentLength st0.contentLength.isSome e = true then some bs.length else st0.contentLength).isSome) = ch
    cases ch <;> simp

theorem httpFormat_lenOk (st : HttpSt) (bs : Bytes) (e : Bool) (h : (httpFormat st bs e).2.2 = false) :
    (httpFormat st bs e).1.chunked = false →
      Gen.overrun (httpFormat st bs e).1.contentLength.isSome (httpFormat st bs e).1.written ((httpFormat st bs e).1.contentLength.getD 0) = false := by
  unfold httpFormat at *
  by_cases hd : st.headersDone = true
  · rw [if_pos hd] at h ⊢
    by_cases hc : st.chunked = true
    · rw [if_pos hc]; intro hx; rw [hc] at hx; cases hx
    · rw [if_neg hc] at h ⊢
      intro _; exact h
  · rw [if_neg hd] at h ⊢
    dsimp only at h ⊢
    generalize (if st.responseHeaders.isEmpty = true then st.setHeaders {} else st) = st0 at h ⊢
    generalize hch : (Gen.keepAliveCond st0.clientKeepAlive st0.errorState
        (if Gen.autoContentLength st0.contentLength.isSome e = true then some bs.length else st0.contentLength).isSome st0.isHttp11 &&
        Gen.chunkedCond (if Gen.autoContentLength st0.contentLength.isSome e = true then some bs.length else st0.contentLength).isSome) = ch at h ⊢
    cases ch
    · simp only [Bool.false_eq_true, if_false] at h ⊢
      intro _; exact h
    · simp

theorem Framer.format_started (f : Framer) (bs : Bytes) (e : Bool) : (f.format bs e).1.started = true := by
  unfold Framer.format Framer.started
  cases hp : f.proto with
  | scgi => simp only; unfold scgiFormat; split <;> simp_all
  | fcgi => simp only; rfl
  | http a c => simp only; exact httpFormat_done _ _ _

theorem Framer.format_lenOk (f : Framer) (bs : Bytes) (e : Bool) (h : (f.format bs e).2.2 = false) : (f.format bs e).1.lenOk := by
  unfold Framer.lenOk
  rw [Framer.format_proto]
  split
  · rename_i a c hp
    intro _
    unfold Framer.format at h ⊢
    simp only [hp] at h ⊢
    exact httpFormat_lenOk f.http bs e h
  · trivial

/-- once the response has started, an empty `format_output(…, false)` changes nothing and produces nothing -/
theorem Framer.format_empty (f : Framer) (hs : f.started = true) (hl : f.lenOk) : f.format [] false = (f, [], false) := by
  unfold Framer.format Framer.started Framer.lenOk at *
  split
  · rename_i hp
    simp only [hp] at hs
    simp [scgiFormat, hs]
  · rename_i hp
    simp only [hp] at hs
    have : fcgiRecords f.fcgi.reqId [] = [] := by unfold fcgiRecords; simp
    simp only [fcgiFormat, hs, if_true, this, Bool.false_eq_true, if_false, List.append_nil]
    cases f with
    | mk p h fc sc => cases fc; simp_all
  · rename_i a c hp
    simp only [hp] at hs hl
    unfold httpFormat
    simp only [hs, if_true]
    by_cases hc : f.http.chunked = true
    · simp [hc, chunkWrap]
    · simp only [Bool.not_eq_true] at hc
      have := hl hs hc
      simp only [hc, Bool.false_eq_true, if_false, List.length_nil, Nat.add_zero, this]
      cases f with
      | mk p h fc sc => cases h; simp_all

/-! ### the socket answers the model can give never make a write fail -/

/-- answers produced by `nextAns` / `blockingAnswers`: accept at least one byte, or would-block -/
def Ans.benign : Ans → Prop
  | .accept k => 1 ≤ k
  | .wouldBlock => True
  | .error => False

theorem Ans.benign_hardErr {a : Ans} (h : a.benign) : a.hardErr = false := by
  cases a with
  | accept k => simp only [Ans.benign] at h; simp [Ans.hardErr]; omega
  | wouldBlock => rfl
  | error => exact absurd h (by simp [Ans.benign])

theorem nextAns_benign (sched : List SchedItem) (total : Nat) (blocking : Bool) (ht : 1 ≤ total) :
    (nextAns sched total blocking).1.benign := by
  unfold nextAns
  split
  · exact ht
  · simp only [Ans.benign]; split <;> omega
  · split <;> simp [Ans.benign]
  · exact ht

theorem nextAns_sched_le (sched : List SchedItem) (total : Nat) (blocking : Bool) :
    (nextAns sched total blocking).2.length ≤ sched.length := by
  unfold nextAns; split <;> simp

theorem writeAll_accepts : ∀ (fuel : Nat) (out : Bytes) (s : List Ans), out.length < fuel →
    (∀ a ∈ s, ∃ k, a = Ans.accept k ∧ 1 ≤ k) → (writeAll fuel out s).2.1 = true := by
  intro fuel
  induction fuel with
  | zero => intro out s h _; omega
  | succ f ih =>
    intro out s hlen hs
    rw [writeAll]
    by_cases he : out.isEmpty = true
    · simp [he]
    · simp only [he, Bool.false_eq_true, if_false]
      have hne : out ≠ [] := by simpa [List.isEmpty_iff] using he
      have hpos : 0 < out.length := List.length_pos_iff.2 hne
      have hacc : ∃ k, s.headD (Ans.accept out.length) = Ans.accept k ∧ 1 ≤ k := by
        cases s with
        | nil => exact ⟨out.length, rfl, hpos⟩
        | cons a t => exact hs a (by simp)
      obtain ⟨k, hk, hk1⟩ := hacc
      have herr : (s.headD (Ans.accept out.length)).err = false := by rw [hk]; simp [Ans.err]; omega
      simp only [herr, Bool.false_eq_true, if_false]
      have htk : 1 ≤ (s.headD (Ans.accept out.length)).taken out := by rw [hk]; simp only [Ans.taken]; omega
      apply ih
      · simp only [List.length_drop]; omega
      · intro a ha
        exact hs a (List.mem_of_mem_tail ha)

theorem blockingAnswers_accepts (sched : List SchedItem) (total : Nat) (ht : 1 ≤ total) :
    ∀ a ∈ blockingAnswers sched total, ∃ k, a = Ans.accept k ∧ 1 ≤ k := by
  intro a ha
  unfold blockingAnswers at ha
  simp only [List.mem_map] at ha
  obtain ⟨it, _, hit⟩ := ha
  cases it with
  | accept k => exact ⟨_, hit.symm, by split <;> omega⟩
  | wouldBlock => exact ⟨1, hit.symm, Nat.le_refl _⟩
  | full => exact ⟨total, hit.symm, ht⟩

/-- the event loop finishes an in-flight asynchronous write -/
theorem Wire.drain_spec : ∀ (fuel : Nat) (w : Wire), w.conn.Inv → w.conn.broken = false →
    w.sched.length + (w.conn.inflight.getD []).length < fuel →
    (Wire.drain fuel w).conn.Inv ∧ (Wire.drain fuel w).conn.broken = false ∧ (Wire.drain fuel w).conn.inflight = none ∧
    (Wire.drain fuel w).conn.pending = w.conn.pending ∧ (Wire.drain fuel w).conn.handed = w.conn.handed ∧
    (Wire.drain fuel w).fr = w.fr ∧ (Wire.drain fuel w).calls = w.calls ∧ (Wire.drain fuel w).outs = w.outs ∧
    (Wire.drain fuel w).violated = w.violated ∧ (Wire.drain fuel w).gaveUp = w.gaveUp := by
  intro fuel
  induction fuel with
  | zero => intro w _ _ h; omega
  | succ f ih =>
    intro w hinv hb hf
    rw [Wire.drain]
    cases hi : w.conn.inflight with
    | none => simp only; exact ⟨hinv, hb, hi, by rt, by rt, by rt, by rt, by rt, by rt, by rt⟩
    | some out =>
      simp only
      -- one handler invocation
      by_cases hoe : out = []
      · -- cannot happen (the handler is created with data), but harmless: it completes at once
        have hstep : asyncStep w.conn (nextAns w.sched out.length false).1 = ({ w.conn with inflight := none }, NbRes.done) := by
          unfold asyncStep; simp [hi, hoe]
        rw [hstep]
        have hinv' : ({ w.conn with inflight := none } : Conn).Inv := by
          unfold Conn.Inv Conn.backlog at *
          simpa [hi, hoe] using hinv
        have hdn : ∀ (g : Nat) (w' : Wire), w'.conn.inflight = none → Wire.drain g w' = w' := by
          intro g w' h'
          cases g with
          | zero => rfl
          | succ g => rw [Wire.drain]; simp [h']
        rw [hdn f _ rfl]
        exact ⟨hinv', hb, rfl, rfl, rfl, rfl, rfl, rfl, rfl, rfl⟩
      · have hpos : 1 ≤ out.length := List.length_pos_iff.2 hoe
        have hben := nextAns_benign w.sched out.length false hpos
        have hhard := Ans.benign_hardErr hben
        have hinv1 := asyncStep_inv w.conn (nextAns w.sched out.length false).1 hinv
        have hh1 := asyncStep_handed w.conn (nextAns w.sched out.length false).1
        -- what the step does to the fields we track
        have hfacts : (asyncStep w.conn (nextAns w.sched out.length false).1).1.broken = false ∧
            (asyncStep w.conn (nextAns w.sched out.length false).1).1.pending = w.conn.pending ∧
            ((asyncStep w.conn (nextAns w.sched out.length false).1).1.inflight.getD []).length + (nextAns w.sched out.length false).2.length
              < w.sched.length + out.length := by
          unfold asyncStep
          have hoe' : out.isEmpty = false := by simpa [List.isEmpty_iff] using hoe
          simp only [hi, hoe', Bool.false_eq_true, if_false, hhard]
          have hsl := nextAns_sched_le w.sched out.length false
          split
          · refine ⟨hb, rfl, ?_⟩
            simp only [Option.getD_none, List.length_nil]
            -- either an item was consumed or the schedule was empty and everything was taken; in both cases the measure drops
            omega
          · rename_i hrest
            refine ⟨hb, rfl, ?_⟩
            simp only [Option.getD_some, List.length_drop]
            -- progress: would-block consumes a schedule item, an accept takes at least one byte
            unfold nextAns at *
            cases hs : w.sched with
            | nil =>
              simp only [hs, Ans.taken] at hrest ⊢
              simp at hrest
            | cons it rest =>
              cases it with
              | accept k => simp only [hs, Ans.taken, List.length_cons]; split <;> omega
              | wouldBlock => simp only [hs, Ans.taken, List.length_cons, Bool.false_eq_true, if_false]; omega
              | full => simp only [hs, Ans.taken, List.length_cons]; omega
        obtain ⟨hb1, hp1, hmeas⟩ := hfacts
        have := ih { w with conn := (asyncStep w.conn (nextAns w.sched out.length false).1).1, sched := (nextAns w.sched out.length false).2 }
          (hinv1 hb1) hb1 (by simp only; rw [hi] at hf; simp only [Option.getD_some] at hf; omega)
        obtain ⟨i1, i2, i3, i4, i5, i6, i7, i8, i9, i10⟩ := this
        exact ⟨i1, i2, i3, by rw [i4, hp1], by rw [i5, hh1], i6, i7, i8, i9, i10⟩

/-! ### replay -/

/-- the connection between two events of the trace; `f0` is the framing state `set_response_headers` left -/
structure WInv (w : Wire) (f0 : Framer) : Prop where
  conn : w.conn.Inv
  nb : w.conn.broken = false
  nofl : w.conn.inflight = none
  handed : w.conn.handed = w.outs
  fr : w.fr = (f0.run w.calls).1
  outs : w.outs = (f0.run w.calls).2.1
  nov : w.violated = false
  ngu : w.gaveUp = false
  lenOk : w.fr.lenOk
  started : w.calls ≠ [] → w.fr.started = true

theorem WInv.pending_calls {w : Wire} {f0 : Framer} (i : WInv w f0) (h : w.conn.pending ≠ []) : w.calls ≠ [] := by
  intro hc
  have : w.outs = [] := by rw [i.outs, hc]; rfl
  have hh := i.conn
  unfold Conn.Inv Conn.backlog at hh
  rw [i.handed, this, i.nofl] at hh
  simp only [Option.getD_none, List.nil_append, List.append_eq_nil_iff] at hh
  exact h hh.2

/-- one device call, given that it does not overrun an announced length -/
theorem WInv.send {w : Wire} {f0 : Framer} (i : WInv w f0) (blocking : Bool) (bs : Bytes) (e : Bool)
    (hnv : (f0.run (w.calls ++ [(bs, e)])).2.2 = false) :
    WInv (w.step blocking (.send bs e)) f0 ∧ (w.step blocking (.send bs e)).calls = w.calls ++ [(bs, e)] ∧
    (blocking = true → (w.step blocking (.send bs e)).conn.pending = []) := by
  have hrun := Framer.run_append w.calls [(bs, e)] f0
  simp only [Framer.run, List.append_nil, Bool.or_false] at hrun
  rw [hrun, ← i.fr] at hnv
  simp only [Bool.or_eq_false_iff] at hnv
  have hfmt : (w.fr.format bs e).2.2 = false := hnv.2
  have hfr' : (w.fr.format bs e).1 = (f0.run (w.calls ++ [(bs, e)])).1 := by rw [hrun, ← i.fr]
  have houts' : w.outs ++ (w.fr.format bs e).2.1 = (f0.run (w.calls ++ [(bs, e)])).2.1 := by rw [hrun, ← i.fr, ← i.outs]
  have hstart := Framer.format_started w.fr bs e
  have hlen := Framer.format_lenOk w.fr bs e hfmt
  unfold Wire.step
  simp only [i.ngu, Bool.false_eq_true, if_false]
  cases blocking with
  | true =>
    simp only [if_true]
    unfold Wire.sendBlocking Wire.formatLogged
    simp only [hfmt, Bool.false_eq_true, if_false]
    by_cases hempty : (w.conn.pending ++ (w.fr.format bs e).2.1).isEmpty = true
    · -- nothing to write
      have hbw : blockingWrite w.conn (w.fr.format bs e).2.1 (blockingAnswers w.sched (w.conn.pending ++ (w.fr.format bs e).2.1).length) =
          ({ w.conn with handed := w.conn.handed ++ (w.fr.format bs e).2.1 }, true, blockingAnswers w.sched (w.conn.pending ++ (w.fr.format bs e).2.1).length) := by
        unfold blockingWrite; simp [hempty]
      rw [hbw]
      simp only [if_true]
      have hp := (isEmpty_append_iff _ _).1 hempty
      refine ⟨⟨?_, i.nb, i.nofl, ?_, hfr', houts', i.nov, i.ngu, hlen, fun _ => hstart⟩, (by rt), fun _ => hp.1⟩
      · have := i.conn
        unfold Conn.Inv Conn.backlog at *
        simp only [hp.2, List.append_nil]; exact this
      · show w.conn.handed ++ (w.fr.format bs e).2.1 = w.outs ++ (w.fr.format bs e).2.1
        rw [i.handed]
    · have hpos : 1 ≤ (w.conn.pending ++ (w.fr.format bs e).2.1).length := by
        have : (w.conn.pending ++ (w.fr.format bs e).2.1) ≠ [] := by simpa [List.isEmpty_iff] using hempty
        exact List.length_pos_iff.2 this
      have hok := writeAll_accepts ((w.conn.pending ++ (w.fr.format bs e).2.1).length + 1) (w.conn.pending ++ (w.fr.format bs e).2.1)
        (blockingAnswers w.sched (w.conn.pending ++ (w.fr.format bs e).2.1).length) (Nat.lt_succ_self _)
        (blockingAnswers_accepts _ _ hpos)
      have hbi := blockingWrite_inv w.conn (w.fr.format bs e).2.1 (blockingAnswers w.sched (w.conn.pending ++ (w.fr.format bs e).2.1).length) i.nofl i.conn
      have hbh := blockingWrite_handed w.conn (w.fr.format bs e).2.1 (blockingAnswers w.sched (w.conn.pending ++ (w.fr.format bs e).2.1).length)
      have hres : (blockingWrite w.conn (w.fr.format bs e).2.1 (blockingAnswers w.sched (w.conn.pending ++ (w.fr.format bs e).2.1).length)).2.1 = true ∧
          (blockingWrite w.conn (w.fr.format bs e).2.1 (blockingAnswers w.sched (w.conn.pending ++ (w.fr.format bs e).2.1).length)).1.broken = false ∧
          (blockingWrite w.conn (w.fr.format bs e).2.1 (blockingAnswers w.sched (w.conn.pending ++ (w.fr.format bs e).2.1).length)).1.pending = [] := by
        unfold blockingWrite
        simp only [hempty, Bool.false_eq_true, if_false, hok, Bool.not_true, Bool.or_false, i.nb]
        exact ⟨trivial, trivial, trivial⟩
      simp only [hres.1, if_true]
      exact ⟨⟨hbi.2 hres.2.1, hres.2.1, hbi.1, by rw [hbh, i.handed], hfr', houts', i.nov, i.ngu, hlen, fun _ => hstart⟩, (by rt), fun _ => hres.2.2⟩
  | false =>
    simp only [Bool.false_eq_true, if_false]
    unfold Wire.sendNonblocking Wire.formatLogged
    simp only [hfmt, Bool.false_eq_true, if_false]
    by_cases hasks : nbWriteAsks w.conn (w.fr.format bs e).2.1 = true
    · simp only [hasks, if_true]
      have hpos : 1 ≤ (w.conn.pending ++ (w.fr.format bs e).2.1).length := by
        unfold nbWriteAsks at hasks
        have : (w.conn.pending ++ (w.fr.format bs e).2.1) ≠ [] := by simpa [List.isEmpty_iff] using hasks
        exact List.length_pos_iff.2 this
      have hben := nextAns_benign w.sched (w.conn.pending ++ (w.fr.format bs e).2.1).length false hpos
      have hhard := Ans.benign_hardErr hben
      have ⟨n1, n2, n3⟩ := nbWrite_inv w.conn (w.fr.format bs e).2.1 (nextAns w.sched (w.conn.pending ++ (w.fr.format bs e).2.1).length false).1 i.nofl i.conn
      have nh := nbWrite_handed w.conn (w.fr.format bs e).2.1 (nextAns w.sched (w.conn.pending ++ (w.fr.format bs e).2.1).length false).1
      have hnf : ((nbWrite w.conn (w.fr.format bs e).2.1 (nextAns w.sched (w.conn.pending ++ (w.fr.format bs e).2.1).length false).1).2 != NbRes.failed) = true := by
        unfold nbWrite
        simp only
        split
        · rfl
        · split
          · rfl
          · split <;> simp only [hhard, Bool.false_eq_true, if_false] <;> rfl
      simp only [hnf, if_true]
      exact ⟨⟨n1, by rw [n3]; exact i.nb, n2, by rw [nh, i.handed], hfr', houts', i.nov, i.ngu, hlen, fun _ => hstart⟩, (by rt), fun h => by cases h⟩
    · simp only [hasks, Bool.false_eq_true, if_false, if_true]
      have ⟨n1, n2, n3⟩ := nbWrite_inv w.conn (w.fr.format bs e).2.1 (.accept 0) i.nofl i.conn
      have nh := nbWrite_handed w.conn (w.fr.format bs e).2.1 (.accept 0)
      exact ⟨⟨n1, by rw [n3]; exact i.nb, n2, by rw [nh, i.handed], hfr', houts', i.nov, i.ngu, hlen, fun _ => hstart⟩, (by rt), fun h => by cases h⟩

/-- `async_write_response` reached the connection: afterwards nothing is pending -/
theorem WInv.asyncFlush {w : Wire} {f0 : Framer} (i : WInv w f0) (blocking : Bool) :
    WInv (w.step blocking .asyncFlush) f0 ∧ (w.step blocking .asyncFlush).calls = w.calls ∧
    (w.step blocking .asyncFlush).conn.pending = [] := by
  unfold Wire.step
  simp only [i.ngu, Bool.false_or]
  by_cases hp : w.conn.pending.isEmpty = true
  · simp only [hp, if_true]
    exact ⟨i, (by rt), by simpa [List.isEmpty_iff] using hp⟩
  · simp only [hp, Bool.false_eq_true, if_false]
    have hpne : w.conn.pending ≠ [] := by simpa [List.isEmpty_iff] using hp
    have hst := i.started (i.pending_calls hpne)
    have hfe := Framer.format_empty w.fr hst i.lenOk
    unfold Wire.asyncWriteEmpty
    simp only [hfe, Bool.false_eq_true, if_false, List.append_nil]
    have hasks : nbWriteAsks w.conn [] = true := by
      unfold nbWriteAsks; simp [List.isEmpty_iff, hpne]
    simp only [hasks, if_true]
    have hpos : 1 ≤ w.conn.pending.length := List.length_pos_iff.2 hpne
    have hben := nextAns_benign w.sched w.conn.pending.length false hpos
    have hhard := Ans.benign_hardErr hben
    have ⟨a1, a2⟩ := asyncWrite_inv w.conn [] (nextAns w.sched w.conn.pending.length false).1 i.nofl i.conn
    have ah := asyncWrite_handed w.conn [] (nextAns w.sched w.conn.pending.length false).1
    -- after `async_write` nothing is left in `pending_output_`: it went out or the handler owns it
    have hpend : (asyncWrite w.conn [] (nextAns w.sched w.conn.pending.length false).1).1.pending = [] := by
      unfold asyncWrite
      simp only
      split
      · rename_i hr; exact nbWrite_done w.conn [] _ hr
      · rename_i hr
        -- cannot fail: the answer is benign
        unfold nbWrite at hr
        simp only [List.append_nil, hp, Bool.false_eq_true, if_false] at hr
        split at hr
        · cases hr
        · split at hr <;> simp [hhard] at hr
      · rfl
    generalize hx : asyncWrite w.conn [] (nextAns w.sched w.conn.pending.length false).1 = x at *
    have hd := Wire.drain_spec ((nextAns w.sched w.conn.pending.length false).2.length + (x.1.inflight.getD []).length + 2)
      { w with fr := w.fr, outs := w.outs, conn := x.1, sched := (nextAns w.sched w.conn.pending.length false).2 }
      a1 (by rw [a2]; exact i.nb) (by simp only; omega)
    obtain ⟨d1, d2, d3, d4, d5, d6, d7, d8, d9, d10⟩ := hd
    refine ⟨⟨d1, d2, d3, ?_, ?_, ?_, by rw [d9]; exact i.nov, by rw [d10]; exact i.ngu, by rw [d6]; exact i.lenOk,
      fun h => by rw [d6]; exact i.started (by rw [d7] at h; exact h)⟩, d7, by rw [d4]; exact hpend⟩
    · rw [d5, d8, ah, List.append_nil]; exact i.handed
    · rw [d6, d7]; exact i.fr
    · rw [d8, d7]; exact i.outs

theorem Wire.replay_append (blocking : Bool) (w : Wire) (t u : Trace) : w.replay blocking (t ++ u) = (w.replay blocking t).replay blocking u := by
  unfold Wire.replay; rw [List.foldl_append]

/-- the part of a trace after the header hand-over -/
theorem WInv.replay : ∀ (c : Trace) (w : Wire) (f0 : Framer) (blocking : Bool), WInv w f0 → Trace.hdrs c = [] →
    (f0.run (w.calls ++ Trace.sends c)).2.2 = false →
    WInv (w.replay blocking c) f0 ∧ (w.replay blocking c).calls = w.calls ++ Trace.sends c ∧
    (blocking = true → w.conn.pending = [] → (w.replay blocking c).conn.pending = []) ∧
    (∀ c' : Trace, c = c' ++ [WEv.asyncFlush] → (w.replay blocking c).conn.pending = []) := by
  intro c
  induction c with
  | nil => intro w f0 blocking i _ _; simp [Wire.replay]; exact i
  | cons ev c ih =>
    intro w f0 blocking i hh hnv
    have hcons : w.replay blocking (ev :: c) = (w.step blocking ev).replay blocking c := by simp [Wire.replay]
    rw [hcons]
    cases ev with
    | send bs e =>
      have hs : Trace.sends (WEv.send bs e :: c) = (bs, e) :: Trace.sends c := rfl
      have hh' : Trace.hdrs c = [] := hh
      rw [hs] at hnv
      have hnv1 : (f0.run (w.calls ++ [(bs, e)])).2.2 = false := by
        have := Framer.run_append (w.calls ++ [(bs, e)]) (Trace.sends c) f0
        rw [List.append_assoc] at this
        simp only [List.singleton_append] at this
        rw [this] at hnv
        simp only [Bool.or_eq_false_iff] at hnv
        exact hnv.1
      have ⟨i1, c1, p1⟩ := i.send blocking bs e hnv1
      have := ih _ f0 blocking i1 hh' (by rw [c1, List.append_assoc]; exact hnv)
      refine ⟨this.1, by rw [this.2.1, c1, hs, List.append_assoc]; rfl, fun hb _ => this.2.2.1 hb (p1 hb), fun c' hc' => ?_⟩
      cases c' with
      | nil => simp at hc'
      | cons x c'' =>
        simp only [List.cons_append, List.cons.injEq] at hc'
        exact this.2.2.2 c'' hc'.2
    | hdr h => simp [Trace.hdrs, WEv.asHdr] at hh
    | asyncFlush =>
      have hs : Trace.sends (WEv.asyncFlush :: c) = Trace.sends c := rfl
      have hh' : Trace.hdrs c = [] := hh
      rw [hs] at hnv
      have ⟨i1, c1, p1⟩ := i.asyncFlush blocking
      have := ih _ f0 blocking i1 hh' (by rw [c1]; exact hnv)
      refine ⟨this.1, by rw [this.2.1, c1, hs], fun hb _ => this.2.2.1 hb p1, fun c' hc' => ?_⟩
      cases c' with
      | nil =>
        simp only [List.nil_append, List.cons.injEq, true_and] at hc'
        subst hc'
        simpa [Wire.replay] using p1
      | cons x c'' =>
        simp only [List.cons_append, List.cons.injEq] at hc'
        exact this.2.2.2 c'' hc'.2

theorem replay_flush_only : ∀ (a : Trace) (w : Wire) (blocking : Bool), Trace.sends a = [] → Trace.hdrs a = [] →
    w.conn.pending = [] → w.replay blocking a = w := by
  intro a
  induction a with
  | nil => intro w _ _ _ _; rfl
  | cons ev a ih =>
    intro w blocking hs hh hp
    cases ev with
    | send bs e => exact absurd hs (by simp [Trace.sends, WEv.asSend])
    | hdr h => exact absurd hh (by simp [Trace.hdrs, WEv.asHdr])
    | asyncFlush =>
      have hstep : w.step blocking .asyncFlush = w := by unfold Wire.step; simp [hp]
      have : w.replay blocking (WEv.asyncFlush :: a) = (w.step blocking .asyncFlush).replay blocking a := by simp [Wire.replay]
      rw [this, hstep]
      exact ih w blocking hs hh hp

theorem Framer.setHeaders_lenOk (f : Framer) (h : Headers) (hd : f.http.headersDone = false) : (f.setHeaders h).lenOk := by
  unfold Framer.setHeaders Framer.lenOk
  cases hp : f.proto with
  | scgi => simp only
  | fcgi => simp only
  | http a c =>
    simp only
    intro hx
    have : (f.http.setHeaders h).headersDone = f.http.headersDone := rfl
    rw [this, hd] at hx; cases hx

/-- **stage 2.**  A trace in which the header set `H` is handed over before anything is sent, replayed on a fresh
connection of any protocol under any socket schedule, provided the calls do not overrun an announced
Content-Length: the write path never breaks, the device never gives up, every `format_output` result is handed
to the socket in order, and `format_output` was applied to exactly the calls of the trace, starting from the state
`set_response_headers(H)` left. -/
theorem replay_spec (proto : Proto) (sched : List SchedItem) (blocking : Bool) (t : Trace) (H : Headers)
    (a c : Trace) (ht : t = a ++ WEv.hdr H :: c) (ha1 : a.sends = []) (ha2 : a.hdrs = []) (hc : c.hdrs = [])
    (hnv : (((Wire.init proto sched).fr.setHeaders H).run t.sends).2.2 = false) :
    WInv ((Wire.init proto sched).replay blocking t) ((Wire.init proto sched).fr.setHeaders H) ∧
    ((Wire.init proto sched).replay blocking t).calls = t.sends ∧
    (blocking = true → ((Wire.init proto sched).replay blocking t).conn.pending = []) ∧
    (∀ t' : Trace, t = t' ++ [WEv.asyncFlush] → ((Wire.init proto sched).replay blocking t).conn.pending = []) := by
  have hts : t.sends = c.sends := by rw [ht, Trace.sends_append, ha1]; rfl
  rw [ht, Wire.replay_append, replay_flush_only a _ blocking ha1 ha2 rfl]
  have hstep : (Wire.init proto sched).replay blocking (WEv.hdr H :: c) = ((Wire.init proto sched).setHeaders H).replay blocking c := by
    simp [Wire.replay, Wire.step, Wire.init]
  rw [hstep]
  have hi : WInv ((Wire.init proto sched).setHeaders H) ((Wire.init proto sched).fr.setHeaders H) := by
    refine ⟨by simp [Conn.Inv, Conn.backlog, Wire.setHeaders, Wire.init], rfl, rfl, rfl, rfl, rfl, rfl, rfl, ?_, fun h => absurd rfl h⟩
    exact Framer.setHeaders_lenOk _ H rfl
  have hcalls : ((Wire.init proto sched).setHeaders H).calls = [] := rfl
  have := WInv.replay c _ _ blocking hi hc (by rw [hcalls, List.nil_append, ← hts]; exact hnv)
  rw [hcalls, List.nil_append] at this
  refine ⟨this.1, by rw [this.2.1, ← hts, ht], fun hb => this.2.2.1 hb rfl, fun t' ht' => ?_⟩
  -- the last event of `t` is the last event of `c` (the header hand-over is not a flush)
  have hc' : ∃ c' : Trace, c = c' ++ [WEv.asyncFlush] := by
    rcases List.eq_nil_or_concat c with hcn | ⟨c', x, hcx⟩
    · rw [hcn] at ht'
      have := congrArg List.getLast? ht'
      simp at this
    · rw [List.concat_eq_append] at hcx
      rw [hcx] at ht'
      have e : a ++ WEv.hdr H :: (c' ++ [x]) = (a ++ WEv.hdr H :: c') ++ [x] := by simp
      rw [e] at ht'
      have := (List.append_inj' ht' rfl).2
      simp only [List.cons.injEq, and_true] at this
      exact ⟨c', by rw [hcx, this]⟩
  obtain ⟨c', hc'⟩ := hc'
  exact this.2.2.2 c' hc'

end Cppcms.C03
