import Cppcms.C01.Scgi
import Cppcms.C01.Fcgi
import Cppcms.C01.Http
/-!
# C02 — a connection is not used any more after a request that failed

Connection level counterpart of `error_is_answered_or_closed`: in the list of outcomes of one connection (all
three front-ends, all byte streams, all segmentations) only the *last* one can be anything else than a request
the application answered or a FastCGI management reply: after an error status, the embedded server's own 400,
or a dropped request nothing further is read from the connection.
-/
namespace Cppcms.C02
open Cppcms Cppcms.C01

def goesOn : Outcome → Bool
  | .app .. => true
  | .mgmt .. => true
  | _ => false

def ClosesAfterError (l : List Outcome) : Prop := ∀ o ∈ l.dropLast, goesOn o = true

theorem closes_single (o : Outcome) : ClosesAfterError [o] := by
  intro x hx; simp at hx

theorem closes_cons {o : Outcome} {l : List Outcome} (ho : goesOn o = true) (hl : ClosesAfterError l) (hne : l ≠ []) :
    ClosesAfterError (o :: l) := by
  intro x hx
  cases l with
  | nil => exact absurd rfl hne
  | cons a r =>
    simp only [List.dropLast_cons_cons, List.mem_cons] at hx
    rcases hx with rfl | hx
    · exact ho
    · exact hl x hx

theorem closes_append {l1 l2 : List Outcome} (h1 : ∀ o ∈ l1, goesOn o = true) (h2 : ClosesAfterError l2) (hne : l2 ≠ []) :
    ClosesAfterError (l1 ++ l2) := by
  induction l1 with
  | nil => simpa using h2
  | cons a r ih =>
    have : r ++ l2 ≠ [] := by simp [hne]
    exact closes_cons (h1 a (by simp)) (ih (fun o ho => h1 o (by simp [ho]))) this

theorem scgi_closes (lim : Limits) (segs : Segs) : ClosesAfterError (scgiConn lim segs) := by
  unfold scgiConn
  simp only
  repeat' split
  all_goals exact closes_single _

theorem httpConn_ne (lim : Limits) (cfg : HttpCfg) (fuel : Nat) (hints : List Bool) (t0 : Nat) (st : HttpSt) :
    httpConn lim cfg fuel hints t0 st ≠ [] := by
  cases fuel with
  | zero => simp [httpConn]
  | succ f =>
    unfold httpConn
    split
    · simp
    · simp only
      split <;> simp

theorem http_closes (lim : Limits) (cfg : HttpCfg) : ∀ (fuel : Nat) (hints : List Bool) (t0 : Nat) (st : HttpSt),
    ClosesAfterError (httpConn lim cfg fuel hints t0 st) := by
  intro fuel
  induction fuel with
  | zero => intro hints t0 st; simp [httpConn]; exact closes_single _
  | succ f ih =>
    intro hints t0 st
    unfold httpConn
    split
    · exact closes_single _
    · simp only
      split
      · rename_i hk
        simp only [Bool.and_eq_true] at hk
        refine closes_cons ?_ (ih _ _ _) (httpConn_ne _ _ _ _ _ _)
        cases ho : (runRequest lim httpReadSome _ _).1 <;> simp_all [isApp, goesOn]
      · exact closes_single _

/-! ## FastCGI -/

/-- a header phase step either appends exactly one final outcome and reports no request, or appends nothing -/
def StepPost {σ : Type} (out0 : List Outcome) (r : List Outcome × Option FcgiReq × σ) : Prop :=
  (r.2.1 = none ∧ ∃ o, r.1 = out0 ++ [o]) ∨ (r.2.1.isSome = true ∧ r.1 = out0)

theorem fcgiStdinEof_post {σ : Type} (R : RecReader σ) (r : FcgiReq) (st : σ) (out : List Outcome) :
    StepPost out (fcgiStdinEof R r st out) := by
  unfold fcgiStdinEof
  split
  · exact Or.inl ⟨rfl, _, rfl⟩
  · exact Or.inl ⟨rfl, _, rfl⟩
  · split
    · exact Or.inl ⟨rfl, _, rfl⟩
    · exact Or.inr ⟨rfl, rfl⟩

theorem fcgiAfterParams_post {σ : Type} (R : RecReader σ) (reqId : Nat) (keep : Bool) (pbody : Bytes) (st : σ)
    (out : List Outcome) : StepPost out (fcgiAfterParams R reqId keep pbody st out) := by
  unfold fcgiAfterParams
  simp only
  split
  · exact fcgiStdinEof_post R _ st out
  · exact Or.inr ⟨rfl, rfl⟩

theorem fcgiAfterBegin_post {σ : Type} (R : RecReader σ) (fuel reqId : Nat) (keep : Bool) (st : σ)
    (out : List Outcome) : StepPost out (fcgiAfterBegin R fuel reqId keep st out) := by
  unfold fcgiAfterBegin
  split
  · exact Or.inl ⟨rfl, _, rfl⟩
  · exact Or.inl ⟨rfl, _, rfl⟩
  · split
    · exact Or.inl ⟨rfl, _, rfl⟩
    · exact fcgiAfterParams_post R _ _ _ _ out

/-- the header phase appends management replies and then at most one final outcome -/
def HdrPost {σ : Type} (out0 : List Outcome) (r : List Outcome × Option FcgiReq × σ) : Prop :=
  ∃ ms, (∀ o ∈ ms, goesOn o = true) ∧
    ((r.2.1 = none ∧ ∃ o, r.1 = out0 ++ ms ++ [o]) ∨ (r.2.1.isSome = true ∧ r.1 = out0 ++ ms))

theorem fcgiOnStart_again {concurrency : Bytes} {alloc : Bool} {h : FcgiHdr} {body : Bytes} {o : Outcome}
    (hs : fcgiOnStart concurrency alloc h body = .again (some o)) : goesOn o = true := by
  unfold fcgiOnStart at hs
  simp only at hs
  repeat' split at hs
  all_goals first
    | (cases hs; done)
    | (simp only [StartRes.again.injEq, Option.some.injEq] at hs; subst hs; rfl)

theorem fcgiHeaders_post {σ : Type} (R : RecReader σ) (concurrency : Bytes) :
    ∀ (fuel : Nat) (st : σ) (out : List Outcome), HdrPost out (fcgiHeaders R concurrency fuel st out) := by
  intro fuel
  induction fuel with
  | zero => intro st out; exact ⟨[], by simp, Or.inl ⟨rfl, _, by rw [List.append_nil]; rfl⟩⟩
  | succ f ih =>
    intro st out
    unfold fcgiHeaders
    split
    · exact ⟨[], by simp, Or.inl ⟨rfl, _, by rw [List.append_nil]⟩⟩
    · exact ⟨[], by simp, Or.inl ⟨rfl, _, by rw [List.append_nil]⟩⟩
    · split
      · exact ⟨[], by simp, Or.inl ⟨rfl, _, by rw [List.append_nil]⟩⟩
      · exact ih _ _
      · rename_i o hs
        obtain ⟨ms, hm, hr⟩ := ih ‹_› (out ++ [o])
        refine ⟨o :: ms, ?_, ?_⟩
        · intro x hx
          simp only [List.mem_cons] at hx
          rcases hx with rfl | hx
          · exact fcgiOnStart_again hs
          · exact hm x hx
        · rcases hr with ⟨h1, o', h2⟩ | ⟨h1, h2⟩
          · exact Or.inl ⟨h1, o', by rw [h2]; simp⟩
          · exact Or.inr ⟨h1, by rw [h2]; simp⟩
      · rcases fcgiAfterBegin_post R (f + 1) ‹_› ‹_› ‹_› out with ⟨h1, o, h2⟩ | ⟨h1, h2⟩
        · exact ⟨[], by simp, Or.inl ⟨h1, o, by rw [h2]; simp⟩⟩
        · exact ⟨[], by simp, Or.inr ⟨h1, by rw [h2]; simp⟩⟩

theorem fcgiConn_ne {σ : Type} (R : RecReader σ) (lim : Limits) (concurrency : Bytes) (fuel : Nat) (st : σ) :
    fcgiConn R lim concurrency fuel st ≠ [] := by
  cases fuel with
  | zero => simp [fcgiConn]
  | succ f =>
    unfold fcgiConn
    have hp := fcgiHeaders_post R concurrency (f + 1) st []
    split
    · rename_i hq
      rw [hq] at hp
      obtain ⟨ms, _, hr⟩ := hp
      rcases hr with ⟨_, o, h2⟩ | ⟨h1, _⟩
      · simp only at h2; rw [h2]; simp
      · simp at h1
    · simp only
      split <;> simp

theorem fcgi_closes {σ : Type} (R : RecReader σ) (lim : Limits) (concurrency : Bytes) :
    ∀ (fuel : Nat) (st : σ), ClosesAfterError (fcgiConn R lim concurrency fuel st) := by
  intro fuel
  induction fuel with
  | zero => intro st; simp [fcgiConn]; exact closes_single _
  | succ f ih =>
    intro st
    unfold fcgiConn
    have hp := fcgiHeaders_post R concurrency (f + 1) st []
    split
    · rename_i hq
      rw [hq] at hp
      obtain ⟨ms, hm, hr⟩ := hp
      rcases hr with ⟨_, o, h2⟩ | ⟨h1, _⟩
      · simp only [List.nil_append] at h2
        rw [h2]
        exact closes_append hm (closes_single o) (by simp)
      · simp at h1
    · rename_i hq
      rw [hq] at hp
      obtain ⟨ms, hm, hr⟩ := hp
      rcases hr with ⟨h1, _⟩ | ⟨_, h2⟩
      · simp at h1
      · simp only [List.nil_append] at h2
        subst h2
        simp only
        split
        · rename_i hk
          simp only [Bool.and_eq_true] at hk
          refine closes_append hm (closes_cons ?_ (ih _) (fcgiConn_ne _ _ _ _ _)) (by simp)
          cases ho : (runRequest lim (fcgiReadSome R) _ _).1 <;> simp_all [isApp, goesOn]
        · exact closes_append hm (closes_single _) (by simp)

end Cppcms.C02
