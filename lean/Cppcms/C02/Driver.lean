import Cppcms.C01.DriverLib
/-! `c02_model`: same models and judges as C01 (the three front-end decoders viewed as checked
interpreters); see `Cppcms/C01/DriverLib.lean` for the line protocol. -/
def main : IO Unit := Cppcms.lineLoop () step
