import Cppcms.C02.Safety
/-! C02: HTTP — no undefined operation (parser underflow, out-of-range access), budgets suffice. -/
namespace Cppcms.C01
open Cppcms

theorem stepSwitch_end_unget {s s' : Gen.PState} {c : Nat} (hu : s.unget = false)
    (h : Gen.stepSwitch s c = .ret Gen.pr_end_of_headers s') : s'.unget = false := by
  step_cases h
  all_goals first
    | (simp [Gen.pr_end_of_headers, Gen.pr_got_header, Gen.pr_error_observerd] at h; done)
    | (simp only [Gen.PStep.ret.injEq] at h; obtain ⟨_, rfl⟩ := h; simp_all)

theorem parserRun_end_progress (ps : Gen.PState) (s : Bytes) (hi : PInv ps)
    (h : (parserRun ps s).1 = Gen.pr_end_of_headers) : (parserRun ps s).2.2.length < s.length := by
  induction s generalizing ps with
  | nil => simp [parserRun] at h; exact absurd h (by decide)
  | cons c t ih =>
    cases hs : Gen.stepSwitch ps c.toNat with
    | cont s1 =>
      rw [parserRun_cons_cont _ hs] at h ⊢
      have := ih _ (pinv_cont hi hs) h
      simp only [List.length_cons]; omega
    | ret code s1 =>
      rw [parserRun_cons_ret _ hs] at h ⊢
      simp only at h
      subst h
      have := stepSwitch_end_unget hi.unget hs
      simp [this]

variable (cfg : HttpCfg)

theorem hdrLoopC_safe : ∀ (n : Nat) (r : HttpReq) (s : Bytes), mu r.ps s = n → PInv r.ps →
    match hdrLoopC cfg r s with
    | .more _ => True
    | .fin (.done o) _ => isCrash o = false
    | .fin (.head _ _) rest => rest.length < s.length := by
  intro n
  induction n using Nat.strongRecOn with
  | _ n ih =>
    intro r s hn hi
    rw [hdrLoopC_unfold cfg r s]
    obtain ⟨hu, hinv⟩ := parserRun_pinv r.ps s hi
    simp only [hu, Bool.false_eq_true, if_false]
    cases hm : ((parserRun r.ps s).1 == Gen.pr_more_data) with
    | true => simp only [if_true]
    | false =>
      simp only [Bool.false_eq_true, if_false]
      cases hg : ((parserRun r.ps s).1 == Gen.pr_got_header) with
      | true =>
        simp only [if_true]
        have hg' : (parserRun r.ps s).1 = Gen.pr_got_header := by simpa using hg
        cases hh : httpGotHeader { r with ps := (parserRun r.ps s).2.1 } with
        | none => rfl
        | some r2 =>
          simp only
          have hps := httpGotHeader_ps hh
          simp only at hps
          have hp := parserRun_progress r.ps s hg'
          have hle := parserRun_rest_le r.ps s
          have := ih (mu r2.ps (parserRun r.ps s).2.2) (by rw [hps]; omega) r2 (parserRun r.ps s).2.2 rfl
            (by rw [hps]; exact hinv (Or.inr hg'))
          cases hl : hdrLoopC cfg r2 (parserRun r.ps s).2.2 with
          | more r' => trivial
          | fin res rest =>
            rw [hl] at this
            cases res with
            | done o => exact this
            | head h b => exact Nat.lt_of_lt_of_le this hle
      | false =>
        simp only [Bool.false_eq_true, if_false]
        cases he : ((parserRun r.ps s).1 == Gen.pr_end_of_headers) with
        | true =>
          simp only [if_true]
          have he' : (parserRun r.ps s).1 = Gen.pr_end_of_headers := by simpa using he
          cases httpProcess cfg { r with ps := (parserRun r.ps s).2.1 } with
          | none => rfl
          | some h => exact parserRun_end_progress r.ps s hi he'
        | false =>
          simp only [Bool.false_eq_true, if_false]
          rfl

theorem hdrFlat_safe (r : HttpReq) (s : Bytes) (hi : PInv r.ps) :
    (∀ o, (hdrFlat cfg r s).1 = .done o → isCrash o = false) ∧
    (∀ h b, (hdrFlat cfg r s).1 = .head h b → (hdrFlat cfg r s).2.length < s.length) := by
  have := hdrLoopC_safe cfg (mu r.ps s) r s rfl hi
  unfold hdrFlat
  cases hl : hdrLoopC cfg r s with
  | more r' =>
    simp only
    exact ⟨by intro o ho; simp at ho; subst ho; rfl, by intro h b hh; simp at hh⟩
  | fin res rest =>
    rw [hl] at this
    simp only
    cases res with
    | done o => exact ⟨by intro o' ho'; simp at ho'; subst ho'; exact this, by intro h b hh; simp at hh⟩
    | head h b => exact ⟨by intro o ho; simp at ho, by intro _ _ _; exact this⟩

/-- header phase without the cap hypothesis: either what the stream-level loop says, or the 16 KiB
protocol violation -/
theorem httpHeaders_gen : ∀ (fuel total : Nat) (r : HttpReq) (st : HttpSt), PInv r.ps →
    st.segs.flatten.length + 2 + (if st.rest.isEmpty then 0 else 1) ≤ fuel →
    ((httpHeaders cfg fuel total r st).1 = (hdrFlat cfg r st.view).1 ∧
      (httpHeaders cfg fuel total r st).2.view = (hdrFlat cfg r st.view).2) ∨
    (httpHeaders cfg fuel total r st).1 = .done (.aborted .violation false false) := by
  intro fuel
  induction fuel with
  | zero => intro total r st _ hf; omega
  | succ fuel ih =>
    intro total r st hi hf
    unfold httpHeaders
    have hfill := httpFill_spec st
    cases hfl : httpFill st with
    | none =>
      rw [hfl] at hfill
      simp only at hfill ⊢
      left
      rw [hfill]
      have : hdrFlat cfg r [] = (.done (.aborted .eof false false), []) := by
        unfold hdrFlat
        rw [hdrLoopC_unfold]
        simp [parserRun, hi.under]
      rw [this]
      exact ⟨rfl, rfl⟩
    | some p =>
      obtain ⟨n, st1⟩ := p
      rw [hfl] at hfill
      simp only at hfill ⊢
      obtain ⟨hview, hn, hne, hlen⟩ := hfill
      rw [hdrLoop_eq_C cfg _ r st1.rest (by unfold mu; split <;> omega)]
      have happ := hdrLoopC_append cfg st1.segs.flatten (mu r.ps st1.rest) r st1.rest rfl hi
      have hv1 : st1.view = st1.rest ++ st1.segs.flatten := rfl
      cases hl : hdrLoopC cfg r st1.rest with
      | fin res rest =>
        rw [hl] at happ
        simp only at happ ⊢
        obtain ⟨ha, _⟩ := happ
        left
        rw [← hview, hv1]
        unfold hdrFlat
        rw [ha]
        exact ⟨rfl, rfl⟩
      | more r' =>
        rw [hl] at happ
        simp only at happ ⊢
        obtain ⟨ha, hi'⟩ := happ
        have hflat : hdrFlat cfg r st.view = hdrFlat cfg r' st1.segs.flatten := by
          rw [← hview, hv1]; unfold hdrFlat; rw [ha]
        split
        · right; rfl
        · have hv2 : ({ st1 with rest := [] } : HttpSt).view = st1.segs.flatten := by simp [HttpSt.view]
          have := ih (total + n) r' { st1 with rest := [] } hi'
            (by
              simp only [List.isEmpty_nil, if_true]
              by_cases hre : st.rest.isEmpty
              · rw [if_pos hre] at hlen hf; omega
              · rw [if_neg hre] at hlen hf; omega)
          rw [hv2] at this
          rw [hflat]
          exact this

/-- HTTP: no byte stream and no segmentation makes the connection model reach an undefined
operation; the recursion budgets of the model suffice -/
theorem httpConn_safe (lim : Limits) (hl : LimitsOk lim) :
    ∀ (fuel : Nat) (hints : List Bool) (t0 : Nat) (st : HttpSt), st.view.length < fuel →
      ∀ o ∈ httpConn lim cfg fuel hints t0 st, isCrash o = false := by
  intro fuel
  induction fuel with
  | zero => intro hints t0 st hf; omega
  | succ fuel ih =>
    intro hints t0 st hf
    unfold httpConn
    have hgen := httpHeaders_gen cfg (httpStreamFuel st) t0 { env := httpEnv0 cfg } st pinv_init (httpStreamFuel_ok st)
    obtain ⟨hs1, hs2⟩ := hdrFlat_safe cfg { env := httpEnv0 cfg } st.view pinv_init
    cases hh : httpHeaders cfg (httpStreamFuel st) t0 { env := httpEnv0 cfg } st with
    | mk res st1 =>
      rw [hh] at hgen
      simp only at hgen
      cases res with
      | done o =>
        intro o' ho'
        simp at ho'
        subst ho'
        rcases hgen with ⟨h1, _⟩ | h1
        · exact hs1 o' h1.symm
        · simp at h1; subst h1; rfl
      | head hd is11 =>
        simp only
        rcases hgen with ⟨h1, h2⟩ | h1
        · have hlt := hs2 hd is11 h1.symm
          rw [← h2] at hlt
          obtain ⟨r1, r2⟩ := runRequest_stream httpReadSome_stream lim hl.buf hd st1
          have hsafe := reqOutcome_no_crash lim hl hd st1.view
          cases hr : runRequest lim httpReadSome hd st1 with
          | mk o st2 =>
            rw [hr] at r1 r2
            simp only at r1 r2 ⊢
            rw [← r1] at hsafe
            split
            · rename_i hk
              have happ : isApp o = true := by
                simp only [Bool.and_eq_true] at hk; exact hk.1
              have hv := r2 happ
              have hle : st2.view.length ≤ st1.view.length := by
                rw [hv]
                unfold reqOutcome
                cases requestPlan lim hd with
                | done o' => simp
                | read n c p f =>
                  simp only
                  cases contentFlat n st1.view with
                  | error e => simp
                  | ok b => simp
              intro o' ho'
              simp only [List.mem_cons] at ho'
              rcases ho' with rfl | ho'
              · exact hsafe
              · exact ih hints.tail _ st2 (by omega) o' ho'
            · intro o' ho'
              simp at ho'
              subst ho'
              exact hsafe
        · simp at h1

theorem httpRun_no_crash (lim : Limits) (hl : LimitsOk lim) (hints : List Bool) (segs : Segs) :
    ∀ o ∈ httpRun lim cfg hints segs, isCrash o = false := by
  unfold httpRun
  apply httpConn_safe cfg lim hl
  simp [HttpSt.view, List.length_flatten]

end Cppcms.C01
