import Cppcms.C01.Cgi
import Cppcms.C01.LemmasSock
import Cppcms.C01.HttpProofs3
import Cppcms.C01.Fcgi
/-!
# C02 — the protocol independent layer action by action: lemmas

Closed forms of the translated callbacks (`Gen.cgi_*`, `Gen.ctx_on_request_ready`, `Gen.req_on_error`) under the
interpreter of `Cgi.lean`, then the event loop against `contentLoop`/`runRequest`.
-/
set_option linter.unusedSimpArgs false
set_option linter.unusedVariables false
namespace Cppcms.C02
open Cppcms Cppcms.C01

/-- `context::on_request_ready(err)` as a function of the world -/
def ready {σ : Type} (err : Bool) (w : World σ) : World σ :=
  if err then
    { w with appAttached := false,
             acts := w.acts ++ (if w.appAttached && !w.noOnError && w.filterSet then [.onError] else []) }
  else { w with appAttached := false, acts := w.acts ++ [.dispatch] }

theorem exec_ready {σ : Type} (lim : Limits) (h : Head) (d : Nat) (err : Bool) (w : World σ) (hh : w.halt = none) :
    (execD lim h (d + 2) Gen.ctx_on_request_ready { v := { error := err } } w).2 = ready err w := by
  cases err <;> cases ha : w.appAttached <;> cases hn : w.noOnError <;> cases hf : w.filterSet <;>
    simp [execD, execWith, primSem, Gen.ctx_on_request_ready, Gen.req_on_error, callPlain, live, World.emit, ready,
      hh, ha, hn, hf]

theorem ready_halt {σ : Type} (err : Bool) (w : World σ) : (ready err w).halt = w.halt := by
  unfold ready; split <;> rfl

/-- `handle_http_error_eof(e,code,h)` from the event loop -/
theorem run_eof {σ : Type} (lim : Limits) (h : Head) (wfail : Bool) (w : World σ) (hh : w.halt = none) :
    runCallback lim h "handle_http_error_eof" Gen.cgi_handle_http_error_eof { e := wfail } w =
      ready true ((if wfail then w else w.emit .eof).emit (.done true)) := by
  cases wfail <;> cases ha : w.appAttached <;> cases hn : w.noOnError <;> cases hf : w.filterSet <;>
    simp [runCallback, callDepth, execD, execWith, primSem, Gen.cgi_handle_http_error_eof, Gen.cgi_set_error,
      Gen.ctx_on_request_ready, Gen.req_on_error, callPlain, callHandOver, live, World.emit, World.crash, ready,
      hh, ha, hn, hf]

/-- `on_some_content_read(e,n,context,h)` with an error -/
theorem run_read_err {σ : Type} (lim : Limits) (h : Head) (w : World σ) (hh : w.halt = none) :
    runCallback lim h "on_some_content_read" Gen.cgi_on_some_content_read { e := true } w =
      ready true (w.emit (.done true)) := by
  cases ha : w.appAttached <;> cases hn : w.noOnError <;> cases hf : w.filterSet <;>
    simp [runCallback, callDepth, execD, execWith, primSem, Gen.cgi_on_some_content_read, Gen.cgi_set_error,
      Gen.ctx_on_request_ready, Gen.req_on_error, callPlain, callHandOver, live, World.emit, World.crash, ready,
      hh, ha, hn, hf]

/-- the error page: `handle_http_error(status,context,h)` with nothing written so far -/
def errorPage {σ : Type} (status : Int) (w : World σ) : World σ :=
  { w with pageStatus := status, acts := w.acts ++ [.write status true], pending := some .write }

/-- `on_some_content_read(e,n,context,h)` without an error, in terms of `on_content_progress` -/
theorem run_read_ok {σ : Type} (lim : Limits) (h : Head) (w : World σ) (hh : w.halt = none) (hp : w.pending = none)
    (hprog : (semContentProgress w).2.halt = none) (hprogp : (semContentProgress w).2.pending = none) :
    runCallback lim h "on_some_content_read" Gen.cgi_on_some_content_read { e := false } w =
      (let r := semContentProgress w
       if r.1 ≠ 0 then errorPage r.1 r.2
       else if wantOf r.2.chunkMode r.2.remaining = 0 then ready false ((r.2.emit .readComplete).emit (.done false))
       else { r.2 with pending := some (.read (wantOf r.2.chunkMode r.2.remaining)) }) := by
  cases hs : semContentProgress w with
  | mk status w1 =>
    rw [hs] at hprog hprogp
    simp only at hprog hprogp
    by_cases h0 : status = 0
    · by_cases hw : wantOf w1.chunkMode w1.remaining = 0
      · cases ha : w1.appAttached <;>
          simp [runCallback, callDepth, execD, execWith, primSem, Gen.cgi_on_some_content_read,
            Gen.ctx_on_request_ready, callPlain, callHandOver, live, World.emit, World.crash, ready,
            hh, hs, h0, hw, hprog, ha]
      · simp [runCallback, callDepth, execD, execWith, primSem, Gen.cgi_on_some_content_read,
            callPlain, callHandOver, live, World.emit, World.crash,
            hh, hs, h0, hw, hprog, hprogp]
    · simp [runCallback, callDepth, execD, execWith, primSem, Gen.cgi_on_some_content_read, Gen.cgi_handle_http_error,
            callPlain, callHandOver, live, World.emit, World.crash, errorPage,
            hh, hs, h0, hprog, hprogp]

/-! ## the first callback -/

theorem start_err {σ : Type} (lim : Limits) (h : Head) (e : Err) (st : σ) :
    cgiStart lim (some e) h st = ready true (({ st := st, lastErr := e } : World σ).emit (.done true)) := by
  simp [cgiStart, runCallback, callDepth, execD, execWith, primSem, Gen.cgi_on_headers_read, Gen.cgi_set_error,
      Gen.ctx_on_request_ready, Gen.req_on_error, callPlain, callHandOver, live, World.emit, World.crash, ready]

theorem start_app {σ : Type} (lim : Limits) (h : Head) (st : σ) (k : Kind) (pre : Bool) (vw : View)
    (hp : requestPlan lim h = .done (.app k pre vw)) (hcl : ¬ h.contentLength > 0) :
    cgiStart lim none h st =
      ready false ((({ st := st, acts := earlyActs pre, appAttached := pre, filterSet := pre,
                       result := some (.app k pre vw) } : World σ).emit .readComplete).emit (.done false)) := by
  cases pre <;>
  simp [cgiStart, runCallback, callDepth, execD, execWith, primSem, Gen.cgi_on_headers_read, Gen.cgi_load_content,
      Gen.ctx_on_request_ready, semHeadersReady, hp, hcl, callPlain, callHandOver, live, World.emit, World.crash, ready]

theorem start_status {σ : Type} (lim : Limits) (h : Head) (st : σ) (code : Nat) (pre oe : Bool)
    (hp : requestPlan lim h = .done (.status code pre oe)) (hc : code ≠ 0) :
    cgiStart lim none h st =
      errorPage (code : Int) ({ st := st, acts := earlyActs pre, appAttached := oe, filterSet := oe } : World σ) := by
  have hc' : ¬ ((code : Int) = 0) := by omega
  simp [cgiStart, runCallback, callDepth, execD, execWith, primSem, Gen.cgi_on_headers_read, Gen.cgi_load_content,
      Gen.cgi_handle_http_error, semHeadersReady, hp, hc, hc', callPlain, callHandOver, live, World.emit, World.crash, errorPage]

theorem start_read {σ : Type} (lim : Limits) (h : Head) (st : σ) (n : Nat) (chunk : Option Nat) (pre : Bool)
    (fin : Bytes → Outcome) (hp : requestPlan lim h = .read n chunk pre fin) (hcl : h.contentLength > 0) :
    cgiStart lim none h st =
      ({ st := st, acts := earlyActs pre, appAttached := pre, filterSet := pre, remaining := n, chunkMode := chunk,
         fin := fin, pending := some (.read (wantOf chunk n)) } : World σ) := by
  simp [cgiStart, runCallback, callDepth, execD, execWith, primSem, Gen.cgi_on_headers_read, Gen.cgi_load_content,
      semHeadersReady, hp, hcl, callPlain, callHandOver, live, World.emit, World.crash]

theorem start_other {σ : Type} (lim : Limits) (h : Head) (st : σ) (o : Outcome)
    (hp : requestPlan lim h = .done o) (hno : isApp o = false) (hns : (match o with | .status .. => true | _ => false) = false) :
    cgiStart lim none h st = ({ st := st, halt := some o } : World σ) := by
  cases o <;> first
  | (simp [isApp] at hno; done)
  | (simp at hns; done)
  | simp [cgiStart, runCallback, callDepth, execD, execWith, primSem, Gen.cgi_on_headers_read, Gen.cgi_load_content,
      semHeadersReady, hp, callPlain, callHandOver, live, World.emit, World.crash]

/-! ## facts about `requestPlan` -/

theorem contentStartEarly_some {cl : Int} {code : Nat} (h : Gen.contentStartEarly cl = some code) :
    code = 0 ∨ (400 ≤ code ∧ code ≤ 599) := by
  unfold Gen.contentStartEarly at h
  split at h
  · simp at h; omega
  · split at h
    · simp at h; omega
    · simp at h

theorem requestPlan_done_status {lim : Limits} {h : Head} {c : Nat} {p o : Bool}
    (hp : requestPlan lim h = .done (.status c p o)) : 400 ≤ c ∧ c ≤ 599 ∧ (o = true → p = true) := by
  unfold requestPlan at hp
  simp only at hp
  repeat' split at hp
  all_goals first
    | (simp at hp; done)
    | (simp only [Plan.done.injEq, Outcome.status.injEq] at hp
       obtain ⟨rfl, rfl, rfl⟩ := hp
       first
       | (refine ⟨?_, ?_, ?_⟩ <;> first | omega | simp)
       | (refine ⟨by decide, by decide, fun x => x⟩)
       | (rename_i hx
          simp only [Bool.or_eq_true, decide_eq_true_eq, not_or, Int.not_lt, gt_iff_lt] at hx
          refine ⟨?_, ?_, ?_⟩ <;> first | omega | simp)
       | (have hc := contentStartEarly_some ‹_›
          rcases hc with h0 | ⟨h1, h2⟩
          · exact ((by assumption : _ = 0 → False) h0).elim
          · exact ⟨h1, h2, fun x => x⟩))

theorem requestPlan_read_fin {lim : Limits} {h : Head} {n : Nat} {chunk : Option Nat} {pre : Bool}
    {fin : Bytes → Outcome} (hp : requestPlan lim h = .read n chunk pre fin) (body : Bytes) {c : Nat} {p o : Bool}
    (hf : fin body = .status c p o) : pre = false ∧ p = false ∧ o = false ∧ 400 ≤ c ∧ c ≤ 599 := by
  unfold requestPlan at hp
  simp only at hp
  repeat' split at hp
  all_goals first
    | (simp at hp; done)
    | (simp only [Plan.read.injEq] at hp
       obtain ⟨_, _, rfl, rfl⟩ := hp
       simp only at hf
       first
       | (simp at hf; done)
       | (have hpre : (kindOf h.scriptName == Kind.filter && h.contentLength != 0) = false := by
            cases hk : (kindOf h.scriptName == Kind.filter && h.contentLength != 0) <;> simp_all
          split at hf
          · simp only [Outcome.status.injEq] at hf
            obtain ⟨rfl, rfl, rfl⟩ := hf
            rename_i hq
            have hb : ∀ code, Gen.postParseFailure = some code → 400 ≤ code ∧ code ≤ 599 := by
              intro code hc; simp [Gen.postParseFailure] at hc; omega
            exact ⟨hpre, rfl, rfl, (hb _ hq).1, (hb _ hq).2⟩
          · simp at hf))

/-! ## the event loop against `contentLoop` -/

/-- a successful read of `want > 0` bytes delivers between 1 and `want` bytes (`read_some` semantics) -/
def Progress {σ : Type} (rd : Nat → σ → Except Err (Bytes × σ)) : Prop :=
  ∀ want st got st', 0 < want → rd want st = .ok (got, st') → got ≠ [] ∧ got.length ≤ want

theorem cgiLoop_idle {σ : Type} (lim : Limits) (h : Head) (rd : Nat → σ → Except Err (Bytes × σ)) (wfail : Bool)
    (fuel : Nat) (w : World σ) (hp : w.pending = none) : cgiLoop lim h rd wfail fuel w = w := by
  cases fuel with
  | zero => simp [cgiLoop, hp]
  | succ f =>
    unfold cgiLoop
    split
    · rfl
    · simp [hp]

theorem wantOf_zero (chunk : Option Nat) (hc : ∀ b, chunk = some b → 0 < b) (rem : Nat) :
    wantOf chunk rem = 0 ↔ rem = 0 := by
  cases chunk with
  | none => simp [wantOf]
  | some b =>
    have := hc b rfl
    simp only [wantOf]
    omega

theorem wantOf_le (chunk : Option Nat) (rem : Nat) : wantOf chunk rem ≤ rem := by
  cases chunk with
  | none => simp [wantOf]
  | some b => simp only [wantOf]; omega

def isStatus : Outcome → Bool
  | .status .. => true
  | _ => false

def onErrActs (pre : Bool) : List Act := if pre then [.onError] else []

/-- the complete action list of a request whose content is read, from the result of the content loop -/
def finalActs (pre wfail : Bool) (fin : Bytes → Outcome) : Except Err Bytes → List Act
  | .error _ => earlyActs pre ++ [.done true] ++ onErrActs pre
  | .ok body =>
    match fin body with
    | .status c _ _ =>
      earlyActs pre ++ [.write c true] ++ (if wfail then [] else [.eof]) ++ [.done true] ++ onErrActs pre
    | _ => earlyActs pre ++ (if pre then [.endOfContent] else []) ++ [.readComplete, .done false, .dispatch]

structure ReadInv {σ : Type} (w : World σ) (pre : Bool) (chunk : Option Nat) (fin : Bytes → Outcome) (rem : Nat)
    (acc : Bytes) : Prop where
  halt : w.halt = none
  pending : w.pending = some (.read (wantOf chunk rem))
  acts : w.acts = earlyActs pre
  app : w.appAttached = pre
  filter : w.filterSet = pre
  noerr : w.noOnError = false
  remaining : w.remaining = rem
  chunkMode : w.chunkMode = chunk
  body : w.body = acc
  fin : w.fin = fin

structure LoopPost {σ : Type} (wf : World σ) (pre wfail : Bool) (fin : Bytes → Outcome) (r : Except Err Bytes × σ) :
    Prop where
  halt : wf.halt = none
  pending : wf.pending = none
  acts : wf.acts = finalActs pre wfail fin r.1
  st : wf.st = r.2
  err : ∀ e, r.1 = .error e → wf.lastErr = e
  result : ∀ body, r.1 = .ok body → isStatus (fin body) = false → wf.result = some (fin body)

/-- facts about the world in which `on_some_content_read` runs after a successful read -/
structure StepPre {σ : Type} (w1 : World σ) (pre : Bool) (chunk : Option Nat) (fin : Bytes → Outcome) (rem : Nat)
    (acc got : Bytes) : Prop where
  halt : w1.halt = none
  pending : w1.pending = none
  last : w1.chunk = got
  acts : w1.acts = earlyActs pre
  app : w1.appAttached = pre
  filter : w1.filterSet = pre
  noerr : w1.noOnError = false
  remaining : w1.remaining = rem
  chunkMode : w1.chunkMode = chunk
  body : w1.body = acc
  fin : w1.fin = fin

theorem step_status {σ : Type} (lim : Limits) (h : Head) (w1 : World σ) {pre : Bool} {chunk : Option Nat}
    {fin : Bytes → Outcome} {rem : Nat} {acc got : Bytes} (hs : StepPre w1 pre chunk fin rem acc got)
    (hemp : got.isEmpty = false) (hz : rem - got.length = 0) {c : Nat} {p o : Bool}
    (hf : fin (acc ++ got) = .status c p o) (hc0 : c ≠ 0) :
    runCallback lim h "on_some_content_read" Gen.cgi_on_some_content_read { e := false } w1 =
      errorPage (c : Int) { w1 with body := acc ++ got, remaining := 0 } := by
  have hc0' : ¬ ((c : Int) = 0) := by omega
  have hprog : semContentProgress w1 = ((c : Int), { w1 with body := acc ++ got, remaining := 0 }) := by
    simp [semContentProgress, hs.last, hemp, hs.body, hs.remaining, hs.fin, hz, hf]
  rw [run_read_ok _ _ _ hs.halt hs.pending (by rw [hprog]; exact hs.halt) (by rw [hprog]; exact hs.pending)]
  rw [hprog]
  simp only [ne_eq, hc0', not_false_eq_true, if_true]

theorem step_app {σ : Type} (lim : Limits) (h : Head) (w1 : World σ) {pre : Bool} {chunk : Option Nat}
    {fin : Bytes → Outcome} {rem : Nat} {acc got : Bytes} (hs : StepPre w1 pre chunk fin rem acc got)
    (hemp : got.isEmpty = false) (hz : rem - got.length = 0) (hf : isStatus (fin (acc ++ got)) = false) :
    runCallback lim h "on_some_content_read" Gen.cgi_on_some_content_read { e := false } w1 =
      ready false ((({ w1 with body := acc ++ got, remaining := 0,
                               acts := w1.acts ++ (if pre then [.endOfContent] else []),
                               result := some (fin (acc ++ got)) } : World σ).emit .readComplete).emit (.done false)) := by
  have hprog : semContentProgress w1 = ((0 : Int), ({ w1 with body := acc ++ got, remaining := 0, acts := w1.acts ++ (if pre then [.endOfContent] else []), result := some (fin (acc ++ got)) } : World σ)) := by
    cases hq : fin (acc ++ got) <;>
      simp_all [semContentProgress, hs.last, hemp, hs.body, hs.remaining, hs.fin, hs.filter, hz, isStatus]
  rw [run_read_ok _ _ _ hs.halt hs.pending (by rw [hprog]; exact hs.halt) (by rw [hprog]; exact hs.pending)]
  rw [hprog]
  have hw : wantOf w1.chunkMode 0 = 0 := by cases w1.chunkMode <;> simp [wantOf]
  simp [hw]

theorem step_more {σ : Type} (lim : Limits) (h : Head) (w1 : World σ) {pre : Bool} {chunk : Option Nat}
    {fin : Bytes → Outcome} {rem : Nat} {acc got : Bytes} (hs : StepPre w1 pre chunk fin rem acc got)
    (hemp : got.isEmpty = false) (hz : ¬ rem - got.length = 0) (hchunk : ∀ b, chunk = some b → 0 < b) :
    runCallback lim h "on_some_content_read" Gen.cgi_on_some_content_read { e := false } w1 =
      { w1 with body := acc ++ got, remaining := rem - got.length,
                pending := some (.read (wantOf chunk (rem - got.length))) } := by
  have hprog : semContentProgress w1 = (0, { w1 with body := acc ++ got, remaining := rem - got.length }) := by
    simp [semContentProgress, hs.last, hemp, hs.body, hs.remaining, hz]
  rw [run_read_ok _ _ _ hs.halt hs.pending (by rw [hprog]; exact hs.halt) (by rw [hprog]; exact hs.pending)]
  rw [hprog]
  have hw : ¬ wantOf chunk (rem - got.length) = 0 := by
    rw [wantOf_zero chunk hchunk]; exact hz
  simp [hs.chunkMode, hw]

theorem loop_read {σ : Type} (lim : Limits) (h : Head) (rd : Nat → σ → Except Err (Bytes × σ)) (wfail : Bool)
    (hrd : Progress rd) (pre : Bool) (chunk : Option Nat) (fin : Bytes → Outcome)
    (hchunk : ∀ b, chunk = some b → 0 < b)
    (hfin : ∀ body c p o, fin body = .status c p o → pre = false ∧ c ≠ 0) :
    ∀ (fuelC fuelM rem : Nat) (acc : Bytes) (w : World σ), 0 < rem → rem < fuelC → rem + 1 ≤ fuelM →
      ReadInv w pre chunk fin rem acc →
      LoopPost (cgiLoop lim h rd wfail fuelM w) pre wfail fin (contentLoop rd chunk fuelC rem acc w.st) := by
  intro fuelC
  induction fuelC with
  | zero => intro fuelM rem acc w _ h1; omega
  | succ fc ih =>
    intro fuelM rem acc w hrem hfc hfm hi
    have hwant : 0 < wantOf chunk rem := by
      have := wantOf_zero chunk hchunk rem
      omega
    obtain ⟨fm, rfl⟩ : ∃ fm, fuelM = fm + 1 := ⟨fuelM - 1, by omega⟩
    unfold contentLoop cgiLoop
    have hr0 : (rem == 0) = false := by simp; omega
    have hh0 : w.halt.isSome = false := by rw [hi.halt]; rfl
    rw [hi.pending]
    simp only [hr0, hh0, Bool.false_eq_true, if_false]
    cases hread : rd (wantOf chunk rem) w.st with
    | error e =>
      simp only
      rw [run_read_err _ _ _ (by simp [hi.halt])]
      rw [cgiLoop_idle _ _ _ _ _ _ (by simp [ready, World.emit])]
      refine ⟨by simp [ready, World.emit, hi.halt], by simp [ready, World.emit], ?_, by simp [ready, World.emit],
        ?_, by intro b hb; cases hb⟩
      · cases pre <;>
          simp [ready, World.emit, hi.acts, hi.app, hi.filter, hi.noerr, finalActs, onErrActs]
      · intro e' he'; cases he'; simp [ready, World.emit]
    | ok p =>
      obtain ⟨got, st'⟩ := p
      obtain ⟨hne, hle⟩ := hrd _ _ _ _ hwant hread
      have hgl : 0 < got.length := by cases got with | nil => exact absurd rfl hne | cons a b => simp
      have hwle := wantOf_le chunk rem
      have hemp : got.isEmpty = false := by cases got with | nil => exact absurd rfl hne | cons a b => rfl
      simp only
      generalize hw1 : ({ w with pending := none, st := st', chunk := got } : World σ) = w1
      have hs : StepPre w1 pre chunk fin rem acc got := by
        subst hw1
        exact ⟨hi.halt, rfl, rfl, hi.acts, hi.app, hi.filter, hi.noerr, hi.remaining, hi.chunkMode, hi.body, hi.fin⟩
      have hst : w1.st = st' := by subst hw1; rfl
      by_cases hz : rem - got.length = 0
      · -- the content is complete
        have hcl : contentLoop rd chunk fc (rem - got.length) (acc ++ got) st' = (.ok (acc ++ got), st') := by
          rw [hz]; cases fc <;> simp [contentLoop]
        rw [hcl]
        cases hq : isStatus (fin (acc ++ got)) with
        | true =>
          cases hf : fin (acc ++ got) with
          | status c p o =>
            obtain ⟨hpre, hc0⟩ := hfin _ _ _ _ hf
            subst hpre
            rw [step_status lim h w1 hs hemp hz hf hc0]
            obtain ⟨fm', rfl⟩ : ∃ fm', fm = fm' + 1 := ⟨fm - 1, by omega⟩
            unfold cgiLoop
            simp only [errorPage, hs.halt, Option.isSome_none, Bool.false_eq_true, if_false]
            rw [run_eof _ _ _ _ (by simp [hs.halt])]
            rw [cgiLoop_idle _ _ _ _ _ _ (by cases wfail <;> simp [ready, World.emit])]
            refine ⟨by cases wfail <;> simp [ready, World.emit, hs.halt], by cases wfail <;> simp [ready, World.emit], ?_,
              by cases wfail <;> simp [ready, World.emit, hst], (by intro e he; cases he), ?_⟩
            · cases wfail <;>
                simp [ready, World.emit, hs.acts, hs.app, hs.filter, hs.noerr, finalActs, onErrActs, hf, earlyActs]
            · intro b hb hs'
              cases hb
              simp [hf, isStatus] at hs'
          | _ => simp [hf, isStatus] at hq
        | false =>
          rw [step_app lim h w1 hs hemp hz hq]
          rw [cgiLoop_idle _ _ _ _ _ _ (by simp [ready, World.emit, hs.pending])]
          refine ⟨by simp [ready, World.emit, hs.halt], by simp [ready, World.emit, hs.pending], ?_,
              by simp [ready, World.emit, hst], (by intro e he; cases he), ?_⟩
          · have : finalActs pre wfail fin (Except.ok (acc ++ got)) =
                earlyActs pre ++ (if pre then [.endOfContent] else []) ++ [.readComplete, .done false, .dispatch] := by
              cases hf : fin (acc ++ got) <;> simp_all [finalActs, isStatus]
            rw [this]
            simp [ready, World.emit, hs.acts]
          · intro b hb _
            cases hb
            simp [ready, World.emit]
      · rw [step_more lim h w1 hs hemp hz hchunk]
        have := ih fm (rem - got.length) (acc ++ got)
          { w1 with body := acc ++ got, remaining := rem - got.length, pending := some (.read (wantOf chunk (rem - got.length))) }
          (by omega) (by omega) (by omega)
          ⟨hs.halt, rfl, hs.acts, hs.app, hs.filter, hs.noerr, rfl, hs.chunkMode, rfl, hs.fin⟩
        simpa [hst] using this

/-! ## one request, from the first callback to the end -/

/-- what `cgiRun` does in each case of the plan -/
inductive RunPost {σ : Type} (lim : Limits) (rd : Nat → σ → Except Err (Bytes × σ)) (wfail : Bool) (h : Head) (st : σ)
    (wf : World σ) : Prop
  | app (k : Kind) (pre : Bool) (vw : View) (hp : requestPlan lim h = .done (.app k pre vw))
      (halt : wf.halt = none) (pending : wf.pending = none) (hst : wf.st = st)
      (acts : wf.acts = earlyActs pre ++ [.readComplete, .done false, .dispatch])
      (result : wf.result = some (.app k pre vw))
  | status (c : Nat) (p o : Bool) (hp : requestPlan lim h = .done (.status c p o))
      (halt : wf.halt = none) (pending : wf.pending = none) (hst : wf.st = st)
      (acts : wf.acts = earlyActs p ++ [.write (c : Int) true] ++ (if wfail then [] else [.eof]) ++ [.done true] ++ onErrActs o)
  | other (o : Outcome) (hp : requestPlan lim h = .done o) (hno : isApp o = false) (hns : isStatus o = false)
      (halt : wf.halt = some o) (hst : wf.st = st)
  | read (n : Nat) (chunk : Option Nat) (pre : Bool) (fin : Bytes → Outcome)
      (hp : requestPlan lim h = .read n chunk pre fin)
      (post : LoopPost wf pre wfail fin (contentLoop rd chunk (n + 1) n [] st))

theorem cgi_run_post {σ : Type} (lim : Limits) (hb : 0 < lim.bufSize) (rd : Nat → σ → Except Err (Bytes × σ))
    (hrd : Progress rd) (wfail : Bool) (h : Head) (st : σ) :
    RunPost lim rd wfail h st (cgiRun lim rd wfail none h st) := by
  unfold cgiRun
  cases hp : requestPlan lim h with
  | done o =>
    cases o with
    | app k pre vw =>
      have hcl : h.contentLength = 0 := requestPlan_done_app hp rfl
      rw [start_app lim h st k pre vw hp (by omega)]
      rw [cgiLoop_idle _ _ _ _ _ _ (by simp [ready, World.emit])]
      exact .app k pre vw hp (by simp [ready, World.emit]) (by simp [ready, World.emit]) (by simp [ready, World.emit])
        (by simp [ready, World.emit]) (by simp [ready, World.emit])
    | status c p o =>
      obtain ⟨h1, h2, h3⟩ := requestPlan_done_status hp
      rw [start_status lim h st c p o hp (by omega)]
      simp only [errorPage]
      unfold cgiLoop
      simp only [Option.isSome_none, Bool.false_eq_true, if_false]
      rw [run_eof _ _ _ _ (by simp)]
      rw [cgiLoop_idle _ _ _ _ _ _ (by cases wfail <;> simp [ready, World.emit])]
      refine .status c p o hp (by cases wfail <;> simp [ready, World.emit]) (by cases wfail <;> simp [ready, World.emit])
        (by cases wfail <;> simp [ready, World.emit]) ?_
      cases wfail <;> cases o <;> simp [ready, World.emit, onErrActs]
    | raw400 =>
      rw [start_other lim h st _ hp rfl rfl]
      unfold cgiLoop
      exact .other _ hp rfl rfl rfl rfl
    | aborted e p o =>
      rw [start_other lim h st _ hp rfl rfl]
      unfold cgiLoop
      exact .other _ hp rfl rfl rfl rfl
    | mgmt a b c =>
      rw [start_other lim h st _ hp rfl rfl]
      unfold cgiLoop
      exact .other _ hp rfl rfl rfl rfl
    | multipart =>
      rw [start_other lim h st _ hp rfl rfl]
      unfold cgiLoop
      exact .other _ hp rfl rfl rfl rfl
    | crash w =>
      rw [start_other lim h st _ hp rfl rfl]
      unfold cgiLoop
      exact .other _ hp rfl rfl rfl rfl
  | read n chunk pre fin =>
    obtain ⟨hc, hn⟩ := requestPlan_read hb hp
    have hcl : h.contentLength > 0 := by
      have := requestPlan_read_n hp
      omega
    rw [start_read lim h st n chunk pre fin hp hcl]
    refine .read n chunk pre fin hp ?_
    have hfin : ∀ body c p o, fin body = .status c p o → pre = false ∧ c ≠ 0 := by
      intro body c p o hf
      obtain ⟨a, _, _, b, _⟩ := requestPlan_read_fin hp body hf
      exact ⟨a, by omega⟩
    exact loop_read lim h rd wfail hrd pre chunk fin hc hfin (n + 1) (n + 2) n [] _ hn (by omega) (by simp)
      ⟨rfl, rfl, rfl, rfl, rfl, rfl, rfl, rfl, rfl, rfl⟩

/-- the completion of `async_read_headers` with an error: the handler is told, nothing else happens -/
theorem cgi_run_hdr_err {σ : Type} (lim : Limits) (rd : Nat → σ → Except Err (Bytes × σ)) (wfail : Bool) (e : Err)
    (h : Head) (st : σ) :
    (cgiRun lim rd wfail (some e) h st).halt = none ∧ (cgiRun lim rd wfail (some e) h st).acts = [.done true] ∧
    (cgiRun lim rd wfail (some e) h st).st = st ∧ (cgiRun lim rd wfail (some e) h st).lastErr = e := by
  unfold cgiRun
  rw [start_err]
  rw [cgiLoop_idle _ _ _ _ _ _ (by simp [ready, World.emit])]
  simp [ready, World.emit]

/-! ## the possible action lists -/

inductive Shape : List Act → Prop
  /-- the application gets the request -/
  | app (pre eoc : Bool) (h : eoc = true → pre = true) :
      Shape (earlyActs pre ++ (if eoc then [.endOfContent] else []) ++ [.readComplete, .done false, .dispatch])
  /-- an error page is written (`eof` set), then the handler is told about the error -/
  | status (pre oe weof : Bool) (c : Int) (hc : 400 ≤ c ∧ c ≤ 599) (hoe : oe = true → pre = true) :
      Shape (earlyActs pre ++ [.write c true] ++ (if weof then [.eof] else []) ++ [.done true] ++ onErrActs oe)
  /-- the request is dropped: the handler is told about the error -/
  | dropped (pre : Bool) : Shape (earlyActs pre ++ [.done true] ++ onErrActs pre)

theorem cgi_shape {σ : Type} (lim : Limits) (hb : 0 < lim.bufSize) (rd : Nat → σ → Except Err (Bytes × σ))
    (hrd : Progress rd) (wfail : Bool) (hdrErr : Option Err) (h : Head) (st : σ)
    (hh : (cgiRun lim rd wfail hdrErr h st).halt = none) : Shape (cgiRun lim rd wfail hdrErr h st).acts := by
  cases hdrErr with
  | some e =>
    rw [(cgi_run_hdr_err lim rd wfail e h st).2.1]
    exact Shape.dropped false
  | none =>
    cases cgi_run_post lim hb rd hrd wfail h st with
    | app k pre vw hp halt pending hst acts result =>
      rw [acts]
      have := Shape.app pre false (by simp)
      simpa using this
    | status c p o hp halt pending hst acts =>
      obtain ⟨h1, h2, h3⟩ := requestPlan_done_status hp
      rw [acts]
      have := Shape.status p o (!wfail) (c : Int) ⟨by omega, by omega⟩ h3
      cases wfail <;> simpa using this
    | other o hp hno hns halt hst => rw [halt] at hh; cases hh
    | read n chunk pre fin hp post =>
      rw [post.acts]
      cases hr : (contentLoop rd chunk (n + 1) n [] st).1 with
      | error e => exact Shape.dropped pre
      | ok body =>
        cases hf : fin body with
        | status c p o =>
          obtain ⟨a, _, _, b1, b2⟩ := requestPlan_read_fin hp body hf
          have := Shape.status pre pre (!wfail) (c : Int) ⟨by omega, by omega⟩ (fun x => x)
          cases wfail <;> simpa [finalActs, hf] using this
        | _ =>
          have := Shape.app pre pre (fun x => x)
          simpa [finalActs, hf] using this

/-! ## consequences of the shapes -/

def isDone : Act → Bool
  | .done _ => true
  | _ => false

def isWrite : Act → Bool
  | .write .. => true
  | _ => false

/-- everything the property asks of one request's actions -/
structure ActsOk (acts : List Act) : Prop where
  /-- the completion handler is called exactly once -/
  handler_once : (acts.filter isDone).length = 1
  /-- the application sees the ready request at most once, and exactly when completion was reported without error -/
  dispatch_once : acts.count .dispatch ≤ 1
  dispatch_iff : .dispatch ∈ acts ↔ .done false ∈ acts
  /-- the early call of a content filter application happens at most once and first -/
  early_once : acts.count .mainEarly ≤ 1
  early_first : .mainEarly ∈ acts → acts.head? = some .mainEarly
  /-- the filter is told about an error at most once, only after its early call, only when the request
  failed, and never after it was told that the content is complete -/
  on_error_once : acts.count .onError ≤ 1
  on_error_when : .onError ∈ acts → .mainEarly ∈ acts ∧ .done true ∈ acts ∧ .dispatch ∉ acts ∧ .endOfContent ∉ acts
  eoc_once : acts.count .endOfContent ≤ 1
  eoc_when : .endOfContent ∈ acts → .mainEarly ∈ acts ∧ .dispatch ∈ acts
  /-- a failed request is answered at most once, with an error status and `eof`, before the handler is
  told — or not at all; the application does not see it -/
  error_closed : .done true ∈ acts → .dispatch ∉ acts ∧ (acts.filter isWrite).length ≤ 1
  write_is_error : ∀ c e, .write c e ∈ acts → 400 ≤ c ∧ c ≤ 599 ∧ e = true ∧ .done true ∈ acts ∧ .dispatch ∉ acts

theorem shape_ok {acts : List Act} (hs : Shape acts) : ActsOk acts := by
  cases hs with
  | app pre eoc h =>
    cases pre <;> cases eoc <;> first
      | (exfalso; simp at h; done)
      | (constructor <;> simp [earlyActs, isDone, isWrite, List.filter])
  | status pre oe weof c hc hoe =>
    cases pre <;> cases oe <;> cases weof <;> first
      | (exfalso; simp at hoe; done)
      | (constructor <;> simp [earlyActs, onErrActs, isDone, isWrite, List.filter] <;> omega)
  | dropped pre =>
    cases pre <;> constructor <;> simp [earlyActs, onErrActs, isDone, isWrite, List.filter]

/-! ## the summary is `runRequest` -/

theorem summary_of {σ : Type} (w : World σ) (hh : w.halt = none) :
    w.summary = summaryOf w.acts w.result w.lastErr := by
  unfold World.summary
  rw [hh]

theorem cgi_refines {σ : Type} (lim : Limits) (hb : 0 < lim.bufSize) (rd : Nat → σ → Except Err (Bytes × σ))
    (hrd : Progress rd) (wfail : Bool) (h : Head) (st : σ) :
    (cgiRun lim rd wfail none h st).summary = (runRequest lim rd h st).1 ∧
    (cgiRun lim rd wfail none h st).st = (runRequest lim rd h st).2 := by
  unfold runRequest
  cases cgi_run_post lim hb rd hrd wfail h st with
  | app k pre vw hp halt pending hst acts result =>
    rw [hp, summary_of _ halt, acts, result, hst]
    cases pre <;> simp [summaryOf, earlyActs]
  | status c p o hp halt pending hst acts =>
    rw [hp, summary_of _ halt, acts, hst]
    cases p <;> cases o <;> cases wfail <;> simp [summaryOf, earlyActs, onErrActs]
  | other o hp hno hns halt hst =>
    rw [hp]
    simp [World.summary, halt, hst]
  | read n chunk pre fin hp post =>
    rw [hp, summary_of _ post.halt, post.acts, post.st]
    simp only
    cases hr : contentLoop rd chunk (n + 1) n [] st with
    | mk res st' =>
      rw [hr] at post
      cases res with
      | error e =>
        have := post.err e rfl
        cases pre <;> simp [summaryOf, finalActs, earlyActs, onErrActs, this]
      | ok body =>
        cases hf : fin body with
        | status c p o =>
          obtain ⟨a, b, d, _, _⟩ := requestPlan_read_fin hp body hf
          subst a b d
          cases wfail <;> simp [summaryOf, finalActs, hf, earlyActs, onErrActs]
        | _ =>
          have := post.result body rfl (by simp [hf, isStatus])
          cases pre <;> simp [summaryOf, finalActs, hf, earlyActs, this]

/-- the layer's own discipline is never violated (no callback goes on after handing the request on, none ends
without handing it on, no two operations pending, call depth and fuel suffice): the machine halts only where
`requestPlan` itself stops -/
theorem cgi_halt {σ : Type} (lim : Limits) (hb : 0 < lim.bufSize) (rd : Nat → σ → Except Err (Bytes × σ))
    (hrd : Progress rd) (wfail : Bool) (hdrErr : Option Err) (h : Head) (st : σ) (o : Outcome)
    (hh : (cgiRun lim rd wfail hdrErr h st).halt = some o) : hdrErr = none ∧ requestPlan lim h = .done o := by
  cases hdrErr with
  | some e => rw [(cgi_run_hdr_err lim rd wfail e h st).1] at hh; cases hh
  | none =>
    refine ⟨rfl, ?_⟩
    cases cgi_run_post lim hb rd hrd wfail h st with
    | app k pre vw hp halt pending hst acts result => rw [halt] at hh; cases hh
    | status c p o hp halt pending hst acts => rw [halt] at hh; cases hh
    | other o' hp hno hns halt hst => rw [halt] at hh; cases hh; exact hp
    | read n chunk pre fin hp post => rw [post.halt] at hh; cases hh

theorem requestPlan_done_kinds {lim : Limits} {h : Head} {o : Outcome} (hp : requestPlan lim h = .done o) :
    isApp o = true ∨ isStatus o = true ∨ o = .multipart ∨ (∃ w, o = .crash w) := by
  unfold requestPlan at hp
  simp only at hp
  repeat' split at hp
  all_goals first
    | (simp at hp; done)
    | (simp only [Plan.done.injEq] at hp; subst hp; simp [isApp, isStatus])

theorem requestPlan_done_app_pre {lim : Limits} {h : Head} {k : Kind} {pre : Bool} {vw : View}
    (hp : requestPlan lim h = .done (.app k pre vw)) : pre = false := by
  have hcl : h.contentLength = 0 := requestPlan_done_app hp rfl
  unfold requestPlan at hp
  simp only at hp
  repeat' split at hp
  all_goals first
    | (simp at hp; done)
    | (simp only [Plan.done.injEq, Outcome.app.injEq] at hp
       obtain ⟨_, rfl, _⟩ := hp
       simp [hcl])

theorem requestPlan_read_fin_app {lim : Limits} {h : Head} {n : Nat} {chunk : Option Nat} {pre : Bool}
    {fin : Bytes → Outcome} (hp : requestPlan lim h = .read n chunk pre fin) (body : Bytes) :
    (∃ k v, fin body = .app k pre v) ∨ (∃ c p o, fin body = .status c p o) := by
  unfold requestPlan at hp
  simp only at hp
  repeat' split at hp
  all_goals first
    | (simp at hp; done)
    | (simp only [Plan.read.injEq] at hp
       obtain ⟨_, _, rfl, rfl⟩ := hp
       simp only
       first
       | (exact Or.inl ⟨_, _, rfl⟩)
       | (split
          · exact Or.inr ⟨_, _, _, rfl⟩
          · exact Or.inl ⟨_, _, rfl⟩))

/-- what the harness counts (early `main()`, `main()` on the ready request, `on_error`, `on_end_of_content`), read
off an `Outcome` -/
def countersOf : Outcome → Nat × Nat × Nat × Nat
  | .app _ pre _ => (if pre then 1 else 0, 1, 0, if pre then 1 else 0)
  | .status _ pre oe => (if pre then 1 else 0, 0, if oe then 1 else 0, 0)
  | .aborted _ pre oe => (if pre then 1 else 0, 0, if oe then 1 else 0, 0)
  | _ => (0, 0, 0, 0)

/-- the counters the correspondence compares are the numbers of the corresponding actions -/
theorem cgi_counters {σ : Type} (lim : Limits) (hb : 0 < lim.bufSize) (rd : Nat → σ → Except Err (Bytes × σ))
    (hrd : Progress rd) (wfail : Bool) (h : Head) (st : σ)
    (hh : (cgiRun lim rd wfail none h st).halt = none) :
    let acts := (cgiRun lim rd wfail none h st).acts
    (acts.count .mainEarly, acts.count .dispatch, acts.count .onError, acts.count .endOfContent) =
      countersOf (runRequest lim rd h st).1 := by
  unfold runRequest
  cases cgi_run_post lim hb rd hrd wfail h st with
  | app k pre vw hp halt pending hst acts result =>
    have := requestPlan_done_app_pre hp
    subst this
    rw [hp, acts]
    simp [earlyActs, countersOf]
  | status c p o hp halt pending hst acts =>
    rw [hp, acts]
    cases p <;> cases o <;> cases wfail <;> simp [earlyActs, onErrActs, countersOf]
  | other o hp hno hns halt hst => rw [halt] at hh; cases hh
  | read n chunk pre fin hp post =>
    rw [hp, post.acts]
    simp only
    cases hr : contentLoop rd chunk (n + 1) n [] st with
    | mk res st' =>
      cases res with
      | error e => cases pre <;> simp [finalActs, earlyActs, onErrActs, countersOf]
      | ok body =>
        cases hf : fin body with
        | status c p o =>
          obtain ⟨a, b, d, _, _⟩ := requestPlan_read_fin hp body hf
          subst a b d
          cases wfail <;> simp [finalActs, hf, earlyActs, onErrActs, countersOf]
        | app k p v =>
          rcases requestPlan_read_fin_app hp body with ⟨k', v', h1⟩ | ⟨c, p', o, h1⟩
          · rw [hf] at h1
            simp only [Outcome.app.injEq] at h1
            obtain ⟨_, rfl, _⟩ := h1
            cases p <;> simp [finalActs, hf, earlyActs, countersOf]
          · rw [hf] at h1; cases h1
        | _ =>
          exfalso
          rcases requestPlan_read_fin_app hp body with ⟨k', v', h1⟩ | ⟨c, p', o, h1⟩ <;> (rw [hf] at h1; cases h1)

/-! ## the three front-ends' content readers make progress -/

theorem progress_of_stream {σ : Type} {rd : Nat → σ → Except Err (Bytes × σ)} {view : σ → Bytes}
    (hrd : StreamReader rd view) : Progress rd := by
  intro want st got st' hw hr
  by_cases hv : view st = []
  · rw [hrd.eof want st hv] at hr; cases hr
  · obtain ⟨g, s', h1, h2, h3, _⟩ := hrd.some want st hw hv
    rw [h1] at hr
    cases hr
    exact ⟨h2, h3⟩

theorem progress_scgi : Progress sockRead := progress_of_stream sockRead_stream

theorem progress_http : Progress httpReadSome := progress_of_stream httpReadSome_stream

theorem fcgiTake_progress {σ : Type} (R : RecReader σ) (want : Nat) (b : FcgiBody σ) (hw : 0 < want)
    (hp : b.ptr < b.body.length) (got : Bytes) (b' : FcgiBody σ) (hr : fcgiTake R want b = .ok (got, b')) :
    got ≠ [] ∧ got.length ≤ want := by
  have hlen : (fcgiAdvance want b).1.length = min want (b.body.length - b.ptr) := by
    unfold fcgiAdvance
    simp only
    split <;> simp <;> omega
  have hgot : got = (fcgiAdvance want b).1 := by
    unfold fcgiTake at hr
    simp only at hr
    split at hr
    · split at hr
      · cases hr
      · cases hr
      · split at hr
        · cases hr
        · simp only [Except.ok.injEq, Prod.mk.injEq] at hr; exact hr.1.symm
    · simp only [Except.ok.injEq] at hr
      exact (congrArg Prod.fst hr).symm
  subst hgot
  refine ⟨?_, by rw [hlen]; omega⟩
  intro h0
  rw [h0] at hlen
  simp at hlen
  omega

theorem progress_fcgi {σ : Type} (R : RecReader σ) : Progress (fcgiReadSome R) := by
  intro want b got b' hw hr
  unfold fcgiReadSome at hr
  split at hr
  · cases hr
  · split at hr
    · rename_i hp
      exact fcgiTake_progress R want b hw hp got b' hr
    · split at hr
      · cases hr
      · cases hr
      · split at hr
        · cases hr
        · simp only at hr
          split at hr
          · rename_i hp
            exact fcgiTake_progress R want _ hw hp got b' hr
          · cases hr

end Cppcms.C02
