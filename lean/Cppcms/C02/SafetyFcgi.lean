import Cppcms.C02.Safety
/-! C02: FastCGI — no undefined operation, and the recursion budgets of the model suffice. -/
namespace Cppcms.C01
open Cppcms

theorem fcgiReadRecordF_facts (s : Bytes × Bool) (body : Bytes) :
    (fcgiReadRecordF s body).2.1.length ≤ s.1.length ∧
    (∀ w, (fcgiReadRecordF s body).1 ≠ .crash w) ∧
    (∀ h b, (fcgiReadRecordF s body).1 = .got h b → (fcgiReadRecordF s body).2.1.length + Gen.hdrSize ≤ s.1.length) := by
  unfold fcgiReadRecordF
  split
  · exact ⟨by simp, by intro w h; simp at h, by intro h b hh; simp at hh⟩
  · rename_i hlen
    simp only
    split
    · refine ⟨by simp, by intro w h; simp at h, ?_⟩
      intro h b _
      simp only [List.length_drop]
      omega
    · split
      · exact ⟨by simp, by intro w h; simp at h, by intro h b hh; simp at hh⟩
      · refine ⟨by simp, by intro w h; simp at h, ?_⟩
        intro h b _
        simp only [List.length_drop]
        omega

def allSafe (l : List Outcome) : Prop := ∀ o ∈ l, isCrash o = false

theorem allSafe_append {a b : List Outcome} (ha : allSafe a) (hb : allSafe b) : allSafe (a ++ b) := by
  intro o ho
  rcases List.mem_append.mp ho with h | h
  · exact ha o h
  · exact hb o h

theorem allSafe_single {o : Outcome} (h : isCrash o = false) : allSafe [o] := by
  intro o' ho'; simp at ho'; subst ho'; exact h

theorem fcgiParams_safe : ∀ (fuel : Nat) (h : FcgiHdr) (body : Bytes) (reqId : Nat) (s : Bytes × Bool),
    s.1.length < fuel →
    (fcgiParams flatReader fuel h body reqId s).2.1.length ≤ s.1.length ∧
    (∀ o, (fcgiParams flatReader fuel h body reqId s).1 = .error o → isCrash o = false) := by
  intro fuel
  induction fuel with
  | zero => intro h body reqId s hf; omega
  | succ fuel ih =>
    intro h body reqId s hf
    unfold fcgiParams
    split
    · exact ⟨by simp, by intro o ho; simp at ho; subst ho; rfl⟩
    · split
      · split
        · obtain ⟨f1, f2, f3⟩ := fcgiReadRecordF_facts s body
          have hread : flatReader.read s body = fcgiReadRecordF s body := rfl
          rw [hread]
          cases hr : fcgiReadRecordF s body with
          | mk res s' =>
            rw [hr] at f1 f2 f3
            simp only at f1 f2 f3 ⊢
            cases res with
            | err e => exact ⟨f1, by intro o ho; simp at ho; subst ho; rfl⟩
            | crash w => exact absurd rfl (f2 w)
            | got h' body' =>
              have := f3 h' body' rfl
              have hpos : 0 < Gen.hdrSize := by decide
              obtain ⟨i1, i2⟩ := ih h' body' reqId s' (by omega)
              dsimp only
              exact ⟨by omega, i2⟩
        · exact ⟨by simp, by intro o ho; simp at ho; subst ho; rfl⟩
      · exact ⟨by simp, by intro o ho; simp at ho⟩

/-- facts about a header-phase result relative to the state it started from -/
structure HSafe (s : Bytes × Bool) (res : List Outcome × Option FcgiReq × (Bytes × Bool)) : Prop where
  safe : allSafe res.1
  len : res.2.2.1.length ≤ s.1.length

theorem fcgiStdinEof_safe (r : FcgiReq) (s : Bytes × Bool) (out : List Outcome) (ho : allSafe out) :
    HSafe s (fcgiStdinEof flatReader r s out) := by
  unfold fcgiStdinEof
  obtain ⟨f1, f2, _⟩ := fcgiReadRecordF_facts s []
  have hread : flatReader.read s [] = fcgiReadRecordF s [] := rfl
  rw [hread]
  cases hr : fcgiReadRecordF s [] with
  | mk res s' =>
    rw [hr] at f1 f2
    simp only at f1 f2
    cases res with
    | err e => exact ⟨allSafe_append ho (allSafe_single rfl), f1⟩
    | crash w => exact absurd rfl (f2 w)
    | got h2 b =>
      dsimp only
      split
      · exact ⟨allSafe_append ho (allSafe_single rfl), f1⟩
      · exact ⟨ho, f1⟩

theorem fcgiAfterBegin_safe (fuel reqId : Nat) (keep : Bool) (s : Bytes × Bool) (out : List Outcome)
    (ho : allSafe out) (hf : s.1.length < fuel) : HSafe s (fcgiAfterBegin flatReader fuel reqId keep s out) := by
  unfold fcgiAfterBegin
  obtain ⟨f1, f2, _⟩ := fcgiReadRecordF_facts s []
  have hread : flatReader.read s [] = fcgiReadRecordF s [] := rfl
  rw [hread]
  cases hr : fcgiReadRecordF s [] with
  | mk res s' =>
    rw [hr] at f1 f2
    simp only at f1 f2
    cases res with
    | err e => exact ⟨allSafe_append ho (allSafe_single rfl), f1⟩
    | crash w => exact absurd rfl (f2 w)
    | got h1 b1 =>
      dsimp only
      obtain ⟨p1, p2⟩ := fcgiParams_safe fuel h1 b1 reqId s' (by omega)
      cases hp : fcgiParams flatReader fuel h1 b1 reqId s' with
      | mk pr t =>
        rw [hp] at p1 p2
        simp only at p1 p2
        cases pr with
        | error o => exact ⟨allSafe_append ho (allSafe_single (p2 o rfl)), by dsimp only; omega⟩
        | ok pbody =>
          dsimp only
          unfold fcgiAfterParams
          dsimp only
          split
          · have key : ∀ r, HSafe t (fcgiStdinEof flatReader r t out) := fun r => fcgiStdinEof_safe r t out ho
            refine ⟨(key _).safe, Nat.le_trans (key _).len ?_⟩
            omega
          · exact ⟨ho, by dsimp only; omega⟩

theorem fcgiOnStart_safe (conc : Bytes) (alloc : Bool) (h : FcgiHdr) (body : Bytes) :
    (∀ o, fcgiOnStart conc alloc h body = .stop o → isCrash o = false) ∧
    (∀ o, fcgiOnStart conc alloc h body = .again (some o) → isCrash o = false) := by
  have g1 : Gen.pairsEmptyGuard = true := by decide
  have g2 : Gen.replyEmptyBodyGuard = true := by decide
  have g3 : ¬ ((List.replicate Gen.unknownRoleAssign.1 (UInt8.ofNat Gen.unknownRoleAssign.2)).length < Gen.endBodySize) := by decide
  constructor
  all_goals (
    intro o ho
    unfold fcgiOnStart at ho
    simp only [g1, g2, g3, Bool.not_true, Bool.false_and, Bool.false_eq_true, if_false] at ho
    repeat' split at ho
    all_goals first
      | (simp at ho; done)
      | (simp only [StartRes.stop.injEq] at ho; subst ho; rfl)
      | (simp only [StartRes.again.injEq, Option.some.injEq] at ho; subst ho; rfl))

theorem fcgiHeaders_safe (conc : Bytes) : ∀ (fuel : Nat) (s : Bytes × Bool) (out : List Outcome),
    allSafe out → s.1.length < fuel →
    allSafe (fcgiHeaders flatReader conc fuel s out).1 ∧
    (fcgiHeaders flatReader conc fuel s out).2.2.1.length ≤ s.1.length ∧
    ((fcgiHeaders flatReader conc fuel s out).2.1.isSome →
      (fcgiHeaders flatReader conc fuel s out).2.2.1.length + Gen.hdrSize ≤ s.1.length) := by
  intro fuel
  induction fuel with
  | zero => intro s out _ hf; omega
  | succ fuel ih =>
    intro s out ho hf
    unfold fcgiHeaders
    obtain ⟨f1, f2, f3⟩ := fcgiReadRecordF_facts s []
    have hread : flatReader.read s [] = fcgiReadRecordF s [] := rfl
    rw [hread]
    cases hr : fcgiReadRecordF s [] with
    | mk res s' =>
      rw [hr] at f1 f2 f3
      simp only at f1 f2 f3
      cases res with
      | err e => exact ⟨allSafe_append ho (allSafe_single rfl), f1, by intro h; simp at h⟩
      | crash w => exact absurd rfl (f2 w)
      | got h body =>
        dsimp only
        have hdec := f3 h body rfl
        have hpos : 0 < Gen.hdrSize := by decide
        obtain ⟨s1, s2⟩ := fcgiOnStart_safe conc (flatReader.alloc s') h body
        cases hst : fcgiOnStart conc (flatReader.alloc s') h body with
        | stop o => exact ⟨allSafe_append ho (allSafe_single (s1 o hst)), f1, by intro h; simp at h⟩
        | again reply =>
          cases reply with
          | none =>
            dsimp only
            obtain ⟨i1, i2, i3⟩ := ih s' out ho (by omega)
            exact ⟨i1, by omega, fun hh => by have := i3 hh; omega⟩
          | some o =>
            dsimp only
            obtain ⟨i1, i2, i3⟩ := ih s' (out ++ [o]) (allSafe_append ho (allSafe_single (s2 o hst))) (by omega)
            exact ⟨i1, by omega, fun hh => by have := i3 hh; omega⟩
        | begin reqId keep =>
          dsimp only
          have := fcgiAfterBegin_safe (fuel + 1) reqId keep s' out ho (by omega)
          exact ⟨this.safe, by have := this.len; omega, fun _ => by have := this.len; omega⟩

/-! ## STDIN reader and the connection -/

theorem fcgiAdvance_st {σ : Type} (want : Nat) (b : FcgiBody σ) : (fcgiAdvance want b).2.st = b.st := by
  unfold fcgiAdvance
  simp only
  split <;> rfl

theorem fcgiTake_len (want : Nat) (b : FcgiBody (Bytes × Bool)) (g : Bytes) (b' : FcgiBody (Bytes × Bool))
    (h : fcgiTake flatReader want b = .ok (g, b')) : b'.st.1.length ≤ b.st.1.length := by
  unfold fcgiTake at h
  simp only at h
  split at h
  · have hread : flatReader.read (fcgiAdvance want b).2.st (fcgiAdvance want b).2.body
        = fcgiReadRecordF (fcgiAdvance want b).2.st (fcgiAdvance want b).2.body := rfl
    rw [hread] at h
    have hf := (fcgiReadRecordF_facts (fcgiAdvance want b).2.st (fcgiAdvance want b).2.body).1
    cases hr : fcgiReadRecordF (fcgiAdvance want b).2.st (fcgiAdvance want b).2.body with
    | mk res st' =>
      rw [hr] at h hf
      simp only at hf
      cases res with
      | err e => simp at h
      | crash w => simp at h
      | got hd body' =>
        simp only at h
        split at h
        · simp at h
        · simp only [Except.ok.injEq, Prod.mk.injEq] at h
          obtain ⟨_, rfl⟩ := h
          rw [fcgiAdvance_st] at hf
          exact hf
  · simp only [Except.ok.injEq] at h
    have : b' = (fcgiAdvance want b).2 := by rw [h]
    rw [this, fcgiAdvance_st]
    exact Nat.le_refl _

theorem fcgiReadSome_len (want : Nat) (b : FcgiBody (Bytes × Bool)) (g : Bytes) (b' : FcgiBody (Bytes × Bool))
    (h : fcgiReadSome flatReader want b = .ok (g, b')) : b'.st.1.length ≤ b.st.1.length := by
  unfold fcgiReadSome at h
  split at h
  · simp at h
  · split at h
    · exact fcgiTake_len want b g b' h
    · have hread : flatReader.read b.st b.body = fcgiReadRecordF b.st b.body := rfl
      rw [hread] at h
      have hf := (fcgiReadRecordF_facts b.st b.body).1
      cases hr : fcgiReadRecordF b.st b.body with
      | mk res st' =>
        rw [hr] at h hf
        simp only at hf
        cases res with
        | err e => simp at h
        | crash w => simp at h
        | got hd body' =>
          simp only at h
          split at h
          · simp at h
          · split at h
            · have := fcgiTake_len want _ g b' h
              simp only at this
              omega
            · simp at h

/-- the content loop never lets the stream grow -/
theorem contentLoop_len (chunk : Option Nat) : ∀ (fuel n : Nat) (acc : Bytes) (b : FcgiBody (Bytes × Bool)),
    (contentLoop (fcgiReadSome flatReader) chunk fuel n acc b).2.st.1.length ≤ b.st.1.length := by
  intro fuel
  induction fuel with
  | zero => intro n acc b; simp [contentLoop]
  | succ fuel ih =>
    intro n acc b
    unfold contentLoop
    split
    · exact Nat.le_refl _
    · cases hr : fcgiReadSome flatReader (wantOf chunk n) b with
      | error e => exact Nat.le_refl _
      | ok p =>
        obtain ⟨g, b'⟩ := p
        simp only
        have h1 := fcgiReadSome_len _ b g b' hr
        have h2 := ih (n - g.length) (acc ++ g) b'
        omega

theorem runRequest_fcgi_facts (lim : Limits) (hl : LimitsOk lim) (h : Head) (b : FcgiBody (Bytes × Bool)) :
    isCrash (runRequest lim (fcgiReadSome flatReader) h b).1 = false ∧
    (runRequest lim (fcgiReadSome flatReader) h b).2.st.1.length ≤ b.st.1.length := by
  unfold runRequest
  cases hp : requestPlan lim h with
  | done o => exact ⟨requestPlan_done_no_crash lim hl h o hp, Nat.le_refl _⟩
  | read n chunk pre fin =>
    simp only
    have hlen := contentLoop_len chunk (n + 1) n [] b
    cases hc : contentLoop (fcgiReadSome flatReader) chunk (n + 1) n [] b with
    | mk res b' =>
      rw [hc] at hlen
      cases res with
      | error e => exact ⟨rfl, hlen⟩
      | ok body => exact ⟨requestPlan_read_no_crash lim h n chunk pre fin hp body, hlen⟩

/-- FastCGI over a byte stream: no undefined operation, and the recursion budget suffices -/
theorem fcgiConn_safe (lim : Limits) (hl : LimitsOk lim) (conc : Bytes) :
    ∀ (fuel : Nat) (s : Bytes × Bool), s.1.length < fuel → allSafe (fcgiConn flatReader lim conc fuel s) := by
  intro fuel
  induction fuel with
  | zero => intro s hf; omega
  | succ fuel ih =>
    intro s hf
    unfold fcgiConn
    obtain ⟨h1, h2, h3⟩ := fcgiHeaders_safe conc (fuel + 1) s [] (by intro o ho; simp at ho) hf
    cases hh : fcgiHeaders flatReader conc (fuel + 1) s [] with
    | mk out rest =>
      obtain ⟨req, t⟩ := rest
      rw [hh] at h1 h2 h3
      simp only at h1 h2 h3
      cases req with
      | none => exact h1
      | some r =>
        simp only
        have hdec := h3 rfl
        have hpos : 0 < Gen.hdrSize := by decide
        obtain ⟨r1, r2⟩ := runRequest_fcgi_facts lim hl (Head.ofEnv r.env) { st := t, cl := r.cl, reqId := r.requestId }
        cases hr : runRequest lim (fcgiReadSome flatReader) (Head.ofEnv r.env) { st := t, cl := r.cl, reqId := r.requestId } with
        | mk o b =>
          rw [hr] at r1 r2
          simp only at r1 r2 ⊢
          split
          · apply allSafe_append h1
            intro o' ho'
            simp only [List.mem_cons] at ho'
            rcases ho' with rfl | ho'
            · exact r1
            · exact ih b.st (by omega) o' ho'
          · exact allSafe_append h1 (allSafe_single r1)

theorem fcgiFlat_no_crash (lim : Limits) (hl : LimitsOk lim) (conc : Bytes) (s : Bytes) :
    ∀ o ∈ fcgiFlat lim conc s, isCrash o = false :=
  fcgiConn_safe lim hl conc (s.length + 2) (s, false) (by simp)

end Cppcms.C01
