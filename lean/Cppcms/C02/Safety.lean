import Cppcms.C01.ScgiProofs
import Cppcms.C01.FcgiProofs
import Cppcms.C01.HttpProofs3
/-! C02 lemmas: the checked interpreters never reach an undefined operation (`.crash`). -/
namespace Cppcms.C01
open Cppcms

def isCrash : Outcome → Bool
  | .crash _ => true
  | _ => false

/-- configuration sanity: the limits are far below `size_t`/`long long` wrap-around and the input
buffer is not empty -/
structure LimitsOk (lim : Limits) : Prop where
  buf : 0 < lim.bufSize
  content : (lim.contentLimit : Int) < 2 ^ 62

/-! ## request layer -/

theorem contentStartEarly_none {cl : Int} (h : Gen.contentStartEarly cl = none) : 0 < cl := by
  unfold Gen.contentStartEarly at h
  split at h
  · simp at h
  · split at h
    · simp at h
    · rename_i h0 h1
      simp at h0 h1
      omega

theorem requestPlan_done_no_crash (lim : Limits) (hl : LimitsOk lim) (h : Head) (o : Outcome)
    (hp : requestPlan lim h = .done o) : isCrash o = false := by
  have hc := hl.content
  unfold requestPlan at hp
  simp only at hp
  repeat' split at hp
  all_goals first
    | (simp at hp; done)
    | (simp only [Plan.done.injEq] at hp; subst hp; rfl)
    | (exfalso
       have hpos := contentStartEarly_none ‹_›
       cases hm : (mediaType h.contentType == mtMultipart) <;>
         cases hpre : (kindOf h.scriptName == Kind.filter && h.contentLength != 0) <;>
         simp_all [vecResizeOk] <;> omega)

theorem requestPlan_read_no_crash (lim : Limits) (h : Head) (n : Nat) (chunk : Option Nat) (pre : Bool)
    (fin : Bytes → Outcome) (hp : requestPlan lim h = .read n chunk pre fin) (body : Bytes) :
    isCrash (fin body) = false := by
  unfold requestPlan at hp
  simp only at hp
  repeat' split at hp
  all_goals first
    | (simp at hp; done)
    | (simp only [Plan.read.injEq] at hp
       obtain ⟨_, _, _, rfl⟩ := hp
       simp only
       first
       | rfl
       | (split <;> first | rfl | (split <;> rfl)))

theorem reqOutcome_no_crash (lim : Limits) (hl : LimitsOk lim) (h : Head) (s : Bytes) :
    isCrash (reqOutcome lim h s).1 = false := by
  unfold reqOutcome
  cases hp : requestPlan lim h with
  | done o => exact requestPlan_done_no_crash lim hl h o hp
  | read n chunk pre fin =>
    simp only
    cases contentFlat n s with
    | error e => rfl
    | ok body => exact requestPlan_read_no_crash lim h n chunk pre fin hp body

/-! ## SCGI -/

theorem scgiOnFirstRead_safe (buf : Bytes) (hl : buf.length = Gen.scgiFirstRead) :
    (∀ w, scgiOnFirstRead buf ≠ .crash w) ∧
    (∀ sep size, scgiOnFirstRead buf = .more sep size → sep < Gen.scgiFirstRead ∧ Gen.scgiFirstRead < size) := by
  unfold scgiOnFirstRead
  simp only
  split
  · exact ⟨by intro w h; simp at h, by intro a b h; simp at h⟩
  · rename_i hsep
    have hs : (buf.takeWhile (· != UInt8.ofNat Gen.scgiSepChar)).length < Gen.scgiFirstRead := by
      simp [Gen.scgiSepBad, Gen.scgiFirstRead] at hsep ⊢
      exact hsep
    split
    · rename_i hge; rw [hl] at hge; exfalso; omega
    · split
      · exact ⟨by intro w h; simp at h, by intro a b h; simp at h⟩
      · rename_i hlen
        split
        · rename_i hres
          exfalso
          simp [Gen.scgiLenBad] at hlen
          have hok : vecResizeOk (Gen.scgiNewSize ((buf.takeWhile (· != UInt8.ofNat Gen.scgiSepChar)).length : Nat)
              (atoi (cstr (buf.take (buf.takeWhile (· != UInt8.ofNat Gen.scgiSepChar)).length)))) = true := by
            have := hs; simp only [Gen.scgiFirstRead] at this
            simp only [vecResizeOk, Gen.scgiNewSize, Bool.and_eq_true]
            constructor <;> (apply decide_eq_true; omega)
          rw [hok] at hres
          simp at hres
        · split
          · exact ⟨by intro w h; simp at h, by intro a b h; simp at h⟩
          · rename_i hts
            refine ⟨by intro w h; simp at h, ?_⟩
            intro a b h
            simp only [ScgiFirst.more.injEq] at h
            obtain ⟨rfl, rfl⟩ := h
            refine ⟨hs, ?_⟩
            simp [Gen.scgiTooShort] at hts
            omega

theorem scgiWalk_some (fuel : Nat) (p : Bytes) (env : Env) (h : p.length ≤ 1 ∨ p.getLast? = some 0) :
    (scgiWalk fuel p env).isSome := by
  induction fuel generalizing p env with
  | zero => simp [scgiWalk]
  | succ fuel ih =>
    unfold scgiWalk
    split
    · rfl
    · rename_i hlen
      have h : p.getLast? = some 0 := by rcases h with h | h; exact absurd h hlen; exact h
      have hc : p.contains 0 = true := by
        have := List.mem_of_getLast? h
        simpa using this
      simp only [hc, Bool.not_true, Bool.false_eq_true, if_false]
      split
      · rfl
      · rename_i hlen1
        have hlast : (p.drop ((cstr p).length + 1)).getLast? = some 0 := by
          rw [List.getLast?_drop]
          split
          · rename_i hle
            simp only [List.length_drop] at hlen1
            omega
          · exact h
        have hc1 : (p.drop ((cstr p).length + 1)).contains 0 = true := by
          have := List.mem_of_getLast? hlast
          simpa using this
        simp only [hc1, Bool.not_true, Bool.false_eq_true, if_false]
        apply ih
        rw [List.getLast?_drop]
        split
        · rename_i hle
          left
          simp only [List.length_drop] at hle ⊢
          omega
        · right; exact hlast

theorem nulTerminated : Gen.scgiNulTerminated = true := by decide

theorem scgiOnHeaders_safe (buf : Bytes) (sep : Nat) (hs : sep + 1 < buf.length) :
    ∀ o, scgiOnHeaders buf sep = .error o → isCrash o = false := by
  intro o h
  unfold scgiOnHeaders at h
  split at h
  · rename_i hnone
    have : buf = [] := List.getLast?_eq_none_iff.mp hnone
    rw [this] at hs; simp at hs
  · rename_i last hlast
    split at h
    · simp only [Except.error.injEq] at h; subst h; rfl
    · simp only [nulTerminated, if_true] at h
      have hlen : (buf.dropLast ++ [0]).length = buf.length := by
        simp; omega
      split at h
      · rename_i hge; rw [hlen] at hge; exfalso; omega
      · have hw := scgiWalk_some (buf.dropLast ++ [0]).length ((buf.dropLast ++ [0]).drop (sep + 1)) Env.empty
          (Or.inr (by
            rw [List.getLast?_drop]
            split
            · rename_i hle; rw [hlen] at hle; exfalso; omega
            · simp))
        cases hwk : scgiWalk (buf.dropLast ++ [0]).length ((buf.dropLast ++ [0]).drop (sep + 1)) Env.empty with
        | none => rw [hwk] at hw; simp at hw
        | some env => rw [hwk] at h; simp at h

/-- SCGI: no byte stream makes the connection model reach an undefined operation -/
theorem scgiFlat_no_crash (lim : Limits) (hl : LimitsOk lim) (s : Bytes) :
    ∀ o ∈ scgiFlat lim s, isCrash o = false := by
  intro o ho
  unfold scgiFlat at ho
  split at ho
  · simp at ho; subst ho; rfl
  · rename_i hlen
    have hl16 : (s.take Gen.scgiFirstRead).length = Gen.scgiFirstRead := by
      rw [List.length_take]; omega
    obtain ⟨hnc, hmore⟩ := scgiOnFirstRead_safe (s.take Gen.scgiFirstRead) hl16
    split at ho
    · simp at ho; subst ho; rfl
    · rename_i w hw; exact absurd hw (hnc w)
    · rename_i sep size hm
      obtain ⟨hsep, hsize⟩ := hmore sep size hm
      split at ho
      · simp at ho; subst ho; rfl
      · rename_i hsz
        cases hh : scgiOnHeaders (s.take size) sep with
        | error o' =>
          rw [hh] at ho
          simp at ho; rw [ho]
          apply scgiOnHeaders_safe (s.take size) sep _ o' hh
          rw [List.length_take]; omega
        | ok env =>
          rw [hh] at ho
          simp at ho; subst ho
          exact reqOutcome_no_crash lim hl _ _

end Cppcms.C01
