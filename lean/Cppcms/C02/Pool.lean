import Cppcms.C01.Gen
/-!
# C02 — `string_pool` page bookkeeping (`private/string_map.h`)

The pool that stores every CGI variable of a request is a singly linked list of `malloc` blocks.  The head
block is the current page (`data_`, `free_space_` describe its unused tail); allocations of more than half a
page get a block of their own, linked in *behind* the head; `clear()` (between two requests of a kept-alive
connection) frees all blocks but one and declares `page_size_` bytes free in it.

The model keeps the byte capacity of every block and is a checked interpreter: an allocation that would be
handed memory beyond its block's capacity yields `none`.  The page size, the two conditions of
`allocate_space` and the shape of `clear()` (which block is kept) are regenerated from the source
(`Gen.poolPageSize`, `Gen.poolOversized`, `Gen.poolNeedsPage`, `Gen.poolClearKeepsHead`).
-/
namespace Cppcms.C02
open Cppcms.C01

structure Pool where
  /-- capacity (bytes of `data`) of every block, head (`pages_`) first -/
  pages : List Nat
  /-- `data_ - pages_->data` -/
  off : Nat
  /-- `free_space_` -/
  free : Nat
deriving Repr

inductive PoolOp where
  | alloc (n : Nat)
  | clear
deriving Repr

/-- constructor: `add_page()` on the empty list -/
def Pool.init : Pool := { pages := [Gen.poolPageSize], off := 0, free := Gen.poolPageSize }

/-- `allocate_space(size)`; `none` = the bytes handed out do not lie inside their block -/
def Pool.alloc (p : Pool) (n : Nat) : Option Pool :=
  if Gen.poolOversized n Gen.poolPageSize then
    match p.pages with
    | [] => none
    | hd :: rest => some { p with pages := hd :: n :: rest }
  else
    let p : Pool := if Gen.poolNeedsPage n p.free then
        { pages := Gen.poolPageSize :: p.pages, off := 0, free := Gen.poolPageSize } else p
    match p.pages with
    | [] => none
    | hd :: _ => if p.off + n ≤ hd then some { p with off := p.off + n, free := p.free - n } else none

/-- `clear()`: one block is kept — the head, or the last of the list (the code before the fix of D18) — and
declared to have `page_size_` free bytes -/
def Pool.clear (keepsHead : Bool) (p : Pool) : Option Pool :=
  match p.pages with
  | [] => none
  | hd :: rest =>
    some { pages := [if keepsHead then hd else rest.getLastD hd], off := 0, free := Gen.poolPageSize }

def Pool.step (kh : Bool) (p : Pool) : PoolOp → Option Pool
  | .alloc n => p.alloc n
  | .clear => p.clear kh

def Pool.run (kh : Bool) (p : Pool) : List PoolOp → Option Pool
  | [] => some p
  | op :: ops => match p.step kh op with
    | none => none
    | some p' => p'.run kh ops

/-- the head block is a full page and `data_`/`free_space_` describe a range inside it -/
structure PoolInv (p : Pool) : Prop where
  head : ∃ rest, p.pages = Gen.poolPageSize :: rest
  fits : p.off + p.free ≤ Gen.poolPageSize

theorem poolInv_init : PoolInv Pool.init := ⟨⟨[], rfl⟩, by simp [Pool.init]⟩

theorem poolInv_step (p : Pool) (op : PoolOp) (hi : PoolInv p) : ∃ p', p.step true op = some p' ∧ PoolInv p' := by
  obtain ⟨⟨rest, hp⟩, hf⟩ := hi
  cases op with
  | clear =>
    refine ⟨_, by simp only [Pool.step, Pool.clear, hp]; rfl, ?_⟩
    exact ⟨⟨[], by simp⟩, by simp⟩
  | alloc n =>
    simp only [Pool.step, Pool.alloc]
    by_cases ho : Gen.poolOversized n Gen.poolPageSize = true
    · simp only [ho, if_true, hp]
      exact ⟨_, rfl, ⟨⟨_, rfl⟩, hf⟩⟩
    · have ho' : n * 2 ≤ Gen.poolPageSize := by
        simp only [Gen.poolOversized, decide_eq_true_eq] at ho; omega
      have ho0 : Gen.poolOversized n Gen.poolPageSize = false := by simpa using ho
      simp only [ho0, Bool.false_eq_true, if_false]
      by_cases hn : Gen.poolNeedsPage n p.free = true
      · simp only [hn, if_true]
        have : 0 + n ≤ Gen.poolPageSize := by omega
        simp only [this, if_true]
        exact ⟨_, rfl, ⟨⟨_, rfl⟩, by simp only; omega⟩⟩
      · have hn' : n ≤ p.free := by
          simp only [Gen.poolNeedsPage, decide_eq_true_eq] at hn; omega
        have hn0 : Gen.poolNeedsPage n p.free = false := by simpa using hn
        simp only [hn0, Bool.false_eq_true, if_false, hp]
        have : p.off + n ≤ Gen.poolPageSize := by omega
        simp only [this, if_true]
        exact ⟨_, rfl, ⟨⟨_, rfl⟩, by simp only; omega⟩⟩

/-- **no allocation is ever handed bytes outside its block**, for every sequence of allocations (any sizes)
and `clear()`s — in particular across the requests of a kept-alive connection, whatever the first request
made the pool allocate.  False (and the proof breaks) when `clear()` keeps a block other than the head. -/
theorem pool_no_overflow (ops : List PoolOp) : (Pool.init.run Gen.poolClearKeepsHead ops).isSome = true := by
  have hk : Gen.poolClearKeepsHead = true := rfl
  rw [hk]
  have : ∀ (ops : List PoolOp) (p : Pool), PoolInv p → (p.run true ops).isSome = true := by
    intro ops
    induction ops with
    | nil => intro p _; rfl
    | cons op r ih =>
      intro p hi
      obtain ⟨p', h1, h2⟩ := poolInv_step p op hi
      simp only [Pool.run, h1]
      exact ih p' h2
  exact this ops _ poolInv_init

/-- the finding D18, as a fact about the model: when `clear()` keeps the *last* block, a first request with
one value of just over half a page followed, after `clear()`, by two values of half a page is handed bytes
beyond a block -/
theorem pool_overflows_when_last_kept :
    Pool.init.run false [.alloc (Gen.poolPageSize / 2 + 1), .clear, .alloc (Gen.poolPageSize / 2),
      .alloc (Gen.poolPageSize / 2)] = none := by decide

end Cppcms.C02
