import Cppcms.C02.SafetyFcgi
import Cppcms.C02.SafetyHttp
import Cppcms.C02.Pool
/-!
# C02 — property theorems

"No request, however malformed, crashes the service or disturbs other requests."

The front-end models of C01 are *checked interpreters*: wherever the C++ would index out of range,
resize to a negative size, call `front()` on an empty vector or run `strlen` off a buffer, the model
yields the outcome `.crash`.  The theorems say that no byte stream reaches such an operation.
-/
namespace Cppcms.C02.Props
open Cppcms Cppcms.C01

/-- Exit discipline of the protocol callbacks (regenerated from the source): after the completion
handler `h(...)` is called, or the next asynchronous operation is started, or control is handed to
another callback, every callback returns without doing anything else.  Hence every
`async_read_headers` / `async_read_some` completes its handler exactly once per started operation. -/
theorem handler_exactly_once : Gen.exitViolations.all (fun p => p.2.isEmpty) = true := by decide

/-- SCGI: for every byte stream and every segmentation the connection model never reaches an
undefined operation (index out of range, resize to a negative/huge size, `strlen` past the buffer).
`no_throw` and `bounds_ok` of DESIGN.md in one statement. -/
theorem no_crash_scgi (lim : Limits) (hl : LimitsOk lim) (segs : Segs) :
    ∀ o ∈ scgiConn lim segs, isCrash o = false := by
  rw [scgiConn_eq_flat lim hl.buf]
  exact scgiFlat_no_crash lim hl _

/-- FastCGI: likewise (reads never start into a full cache, `front()` only on non-empty vectors, the
unknown-role body is large enough for the END_REQUEST written through it, negative `CONTENT_LENGTH`
never reaches `resize`), and every recursion budget of the model suffices. -/
theorem no_crash_fcgi (lim : Limits) (hl : LimitsOk lim) (conc : Bytes) (segs : Segs) :
    ∀ o ∈ fcgiRun lim conc segs, isCrash o = false := by
  rw [fcgiRun_eq_flat]
  exact fcgiFlat_no_crash lim hl conc _

/-- HTTP: likewise; includes "`header_.resize(size()-2)` and `bracket_counter_--` never wrap" (parser
invariant `PInv`) for every input, with or without the 16 KiB cap firing. -/
theorem no_crash_http (lim : Limits) (hl : LimitsOk lim) (cfg : HttpCfg) (hints : List Bool) (segs : Segs) :
    ∀ o ∈ httpRun lim cfg hints segs, isCrash o = false :=
  httpRun_no_crash cfg lim hl hints segs

/-- the parser invariant holds initially and is kept by every non-returning step -/
theorem parser_invariant (ps s : Gen.PState) (c : Nat) (hi : PInv ps) (h : Gen.stepSwitch ps c = .cont s) :
    PInv { s with rhdr := c :: s.rhdr } := pinv_cont hi h

/-- non-vacuity of `LimitsOk`: the harness' configuration -/
example : LimitsOk {} := ⟨by decide, by decide⟩

/-- `string_pool` (the storage behind every request's variables): for every sequence of allocations of any
sizes and `clear()`s — the requests of a kept-alive connection — no allocation is handed bytes outside its
`malloc` block.  The page size, the conditions of `allocate_space` and which block `clear()` keeps are
regenerated from `private/string_map.h`; the statement is false when `clear()` keeps another block than the
head (`pool_overflows_when_last_kept`, finding D18). -/
theorem pool_no_overflow (ops : List PoolOp) : (Pool.init.run Gen.poolClearKeepsHead ops).isSome = true :=
  Cppcms.C02.pool_no_overflow ops

end Cppcms.C02.Props
