import Cppcms.C01.ScgiProofs
import Cppcms.C01.FcgiProofs
/-!
# C02 — property theorems

"No request, however malformed, crashes the service or disturbs other requests."

The front-end models of C01 are *checked interpreters*: wherever the C++ would index out of range,
resize to a negative size, call `front()` on an empty vector or run `strlen` off a buffer, the model
yields the outcome `.crash`.  The theorems say that no byte stream reaches such an operation.
-/
namespace Cppcms.C02.Props
open Cppcms Cppcms.C01

/-- Exit discipline of the protocol callbacks (regenerated from the source): after the completion
handler `h(...)` is called, or the next asynchronous operation is started, or control is handed to
another callback, every callback returns without doing anything else.  Hence every
`async_read_headers` / `async_read_some` completes its handler exactly once per started operation. -/
theorem handler_exactly_once : Gen.exitViolations.all (fun p => p.2.isEmpty) = true := by decide

end Cppcms.C02.Props
