import Cppcms.C02.SafetyFcgi
import Cppcms.C02.SafetyHttp
import Cppcms.C02.Pool
import Cppcms.C02.Actions
import Cppcms.C02.Closing
import Cppcms.C02.Forwarder
/-!
# C02 — property theorems

"No request, however malformed, crashes the service or disturbs other requests."

The front-end models of C01 are *checked interpreters*: wherever the C++ would index out of range,
resize to a negative size, call `front()` on an empty vector or run `strlen` off a buffer, the model
yields the outcome `.crash`.  The theorems say that no byte stream reaches such an operation.
-/
namespace Cppcms.C02.Props
open Cppcms Cppcms.C01

/-- Exit discipline of the protocol callbacks (regenerated from the source): after the completion
handler `h(...)` is called, or the next asynchronous operation is started, or control is handed to
another callback, every callback returns without doing anything else.  Hence every
`async_read_headers` / `async_read_some` completes its handler exactly once per started operation. -/
theorem handler_exactly_once : Gen.exitViolations.all (fun p => p.2.isEmpty) = true := by decide

/-- operations whose *result* must not be used after a failure (an endpoint that was never filled in, a byte count) -/
def resultNeedsCheck (m : String) : Bool := m == "remote_endpoint" || m == "local_endpoint" || m == "bytes_readable"

/-- the accept path (`socket_acceptor::on_accept` / `accept`) sets `TCP_NODELAY` / buffer sizes with the throwing overload on
the descriptor `accept()` has just returned; on Linux `setsockopt` of these options cannot fail for an open TCP descriptor
whatever the peer does (listed, not proved; on systems where it fails after a peer reset this is the same defect as D17) -/
def acceptPathOption (c : String × String × String × Bool × Bool × Bool) : Bool :=
  c.1 == "private/cgi_acceptor.h" && (c.2.1 == "on_accept" || c.2.1 == "accept") && c.2.2.1 == "set_option"

/-- **nothing may be allowed to throw from a protocol callback**, the system-error part: every `booster::aio` socket
operation that can fail with a system error (`remote_endpoint`, `local_endpoint`, `set_option`, `shutdown`, `close`,
`read_some`, `write_some`, `bytes_readable`, `set_non_blocking…`, `open`, `bind`, `listen`, …) in `http_api.cpp`,
`scgi_api.cpp`, `fastcgi_api.cpp` and `cgi_acceptor.h` (table regenerated from the source: `Gen.sysCallSites`) that is
not in a constructor/destructor uses the overload taking `booster::system::error_code &`, and where the result is
meaningless after a failure the statement that follows tests the error code.  Replacing one by the throwing overload
(seeded C02-7: `socket_.remote_endpoint()` — a peer that resets right after sending its request makes `getpeername` fail)
or dropping the test (D17) breaks this. -/
theorem protocol_callbacks_use_nothrow_overloads :
    Gen.sysCallSites.all (fun c =>
      c.2.2.2.2.2 || acceptPathOption c || (c.2.2.2.1 && (!resultNeedsCheck c.2.2.1 || c.2.2.2.2.1))) = true ∧
    Gen.sysCallSites.any (fun c => c.2.2.1 == "remote_endpoint" && c.2.1 == "process_request") = true := by
  constructor <;> decide

/-- SCGI: for every byte stream and every segmentation the connection model never reaches an
undefined operation (index out of range, resize to a negative/huge size, `strlen` past the buffer).
`no_throw` and `bounds_ok` of DESIGN.md in one statement. -/
theorem no_crash_scgi (lim : Limits) (hl : LimitsOk lim) (segs : Segs) :
    ∀ o ∈ scgiConn lim segs, isCrash o = false := by
  rw [scgiConn_eq_flat lim hl.buf]
  exact scgiFlat_no_crash lim hl _

/-- FastCGI: likewise (reads never start into a full cache, `front()` only on non-empty vectors, the
unknown-role body is large enough for the END_REQUEST written through it, negative `CONTENT_LENGTH`
never reaches `resize`), and every recursion budget of the model suffices. -/
theorem no_crash_fcgi (lim : Limits) (hl : LimitsOk lim) (conc : Bytes) (segs : Segs) :
    ∀ o ∈ fcgiRun lim conc segs, isCrash o = false := by
  rw [fcgiRun_eq_flat]
  exact fcgiFlat_no_crash lim hl conc _

/-- HTTP: likewise; includes "`header_.resize(size()-2)` and `bracket_counter_--` never wrap" (parser
invariant `PInv`) for every input, with or without the 16 KiB cap firing. -/
theorem no_crash_http (lim : Limits) (hl : LimitsOk lim) (cfg : HttpCfg) (hints : List Bool) (segs : Segs) :
    ∀ o ∈ httpRun lim cfg hints segs, isCrash o = false :=
  httpRun_no_crash cfg lim hl hints segs

/-- the parser invariant holds initially and is kept by every non-returning step -/
theorem parser_invariant (ps s : Gen.PState) (c : Nat) (hi : PInv ps) (h : Gen.stepSwitch ps c = .cont s) :
    PInv { s with rhdr := c :: s.rhdr } := pinv_cont hi h

/-- non-vacuity of `LimitsOk`: the harness' configuration -/
example : LimitsOk {} := ⟨by decide, by decide⟩

/-- the FastCGI record reader computes `rec_size = content_length + padding_length` in the declared type of the
variable (regenerated for both paths, `on_header_read` and `non_blocking_read_record`): for every header the wire can
carry (content ≤ 65535, padding ≤ 255) the sum does not wrap, so `body_.resize(cur_size + rec_size)`,
the read of `rec_size` bytes and `body_.resize(body_.size() - padding_length)` stay within bounds (the buffer-level
model is a checked interpreter there, `no_crash_fcgi`).  Breaks when `rec_size` is narrowed below 17 bits. -/
theorem record_sizes_exact (hb : Bytes) :
    Gen.fcgiRecSizeAsync (parseFcgiHdr hb).contentLength (parseFcgiHdr hb).paddingLength =
      (parseFcgiHdr hb).contentLength + (parseFcgiHdr hb).paddingLength ∧
    Gen.fcgiRecSizeCached (parseFcgiHdr hb).contentLength (parseFcgiHdr hb).paddingLength =
      (parseFcgiHdr hb).contentLength + (parseFcgiHdr hb).paddingLength :=
  recSize_parse hb

/-- `connection::cgi_forwarder` (requests matching `forwarding.rules`): the buffer the request body is relayed through is
sized from `CONTENT_LENGTH` by the regenerated expression `Gen.fwdPostBuffer`; for every positive `CONTENT_LENGTH`
(however absurd) it is between 1 and 8192 bytes and not larger than what is left, so `post_.resize` cannot throw inside
the completion handler.  Breaks when the `min` becomes a `max`. -/
theorem forwarder_buffer_bounded (cl : Int) (h : 0 < cl) :
    ∃ s, fwdStart cl = some s ∧ 1 ≤ s.buf ∧ s.buf ≤ 8192 ∧ (s.buf : Int) ≤ s.remaining :=
  Cppcms.C02.forwarder_buffer_bounded cl h

/-- the relay loop (`write_post` / `on_post_data_written`) never resizes beyond 8 KiB and never takes `front()` of an
empty vector, for any lengths the reads deliver -/
theorem forwarder_relay_safe (cl : Int) (h : 0 < cl) (lens : List Nat) :
    ∃ s s', fwdStart cl = some s ∧ fwdRelay s lens = some s' ∧ s'.buf ≤ 8192 := by
  obtain ⟨s, h1, h2, h3, _⟩ := Cppcms.C02.forwarder_buffer_bounded cl h
  obtain ⟨s', h4, h5⟩ := Cppcms.C02.forwarder_relay_safe lens s ⟨h2, h3⟩
  exact ⟨s, s', h1, h4, h5⟩

/-- `string_pool` (the storage behind every request's variables): for every sequence of allocations of any
sizes and `clear()`s — the requests of a kept-alive connection — no allocation is handed bytes outside its
`malloc` block.  The page size, the conditions of `allocate_space` and which block `clear()` keeps are
regenerated from `private/string_map.h`; the statement is false when `clear()` keeps another block than the
head (`pool_overflows_when_last_kept`, finding D18). -/
theorem pool_no_overflow (ops : List PoolOp) : (Pool.init.run Gen.poolClearKeepsHead ops).isSome = true :=
  Cppcms.C02.pool_no_overflow ops

/-! ## the protocol independent layer, action by action

`cgiRun` (C01/Cgi.lean) runs one request through `connection::on_headers_read`, `load_content`,
`on_some_content_read`, `handle_http_error`, `handle_http_error_eof`, `set_error`, `context::on_request_ready`
and `request::on_error` — the `CStmt` programs regenerated from `src/cgi_api.cpp`, `src/http_context.cpp`,
`src/http_request.cpp` — and records the actions (application calls, filter notifications, error page,
completion handler).  The theorems hold for every request head, every content reader that makes progress
(a successful read of `want > 0` bytes delivers 1..`want` bytes; the three front-ends' readers do:
`readers_progress`), every behaviour of the peer (read errors anywhere, the write of the error page failing
or not) and both ways the header phase can end (`hdrErr`). -/

/-- the only way the machine stops early is a multipart upload (property C12); in particular the layer's exit
discipline holds semantically: no callback does anything after it has handed the request on (completion handler,
next asynchronous operation, next callback of the chain), none ends without handing it on, two operations are
never pending at once, and call depth and fuel of the model suffice. -/
theorem cgi_layer_no_crash {σ : Type} (lim : Limits) (hl : LimitsOk lim) (rd : Nat → σ → Except Err (Bytes × σ))
    (hrd : Progress rd) (wfail : Bool) (hdrErr : Option Err) (h : Head) (st : σ) :
    (cgiRun lim rd wfail hdrErr h st).halt = none ∨ (cgiRun lim rd wfail hdrErr h st).halt = some .multipart := by
  cases hh : (cgiRun lim rd wfail hdrErr h st).halt with
  | none => exact Or.inl rfl
  | some o =>
    obtain ⟨_, hp⟩ := cgi_halt lim hl.buf rd hrd wfail hdrErr h st o hh
    have hnc := requestPlan_done_no_crash lim hl h o hp
    have := cgi_run_post lim hl.buf rd hrd wfail h st
    rcases requestPlan_done_kinds hp with h1 | h1 | h1 | ⟨w, h1⟩
    · -- an application outcome is never a halt
      exfalso
      subst_vars
      cases this with
      | app k pre vw hp' halt _ _ _ _ => rw [halt] at hh; cases hh
      | status c p o' hp' halt _ _ _ => rw [halt] at hh; cases hh
      | other o' hp' hno hns halt hst => rw [hp] at hp'; cases hp'; rw [hno] at h1; cases h1
      | read n chunk pre fin hp' post => rw [post.halt] at hh; cases hh
    · exfalso
      subst_vars
      cases this with
      | app k pre vw hp' halt _ _ _ _ => rw [halt] at hh; cases hh
      | status c p o' hp' halt _ _ _ => rw [halt] at hh; cases hh
      | other o' hp' hno hns halt hst => rw [hp] at hp'; cases hp'; rw [hns] at h1; cases h1
      | read n chunk pre fin hp' post => rw [post.halt] at hh; cases hh
    · subst h1; exact Or.inr rfl
    · subst h1; simp [isCrash] at hnc

/-- every request's action list has one of three shapes (application / error page / dropped), hence `ActsOk` -/
theorem request_actions_ok {σ : Type} (lim : Limits) (hl : LimitsOk lim) (rd : Nat → σ → Except Err (Bytes × σ))
    (hrd : Progress rd) (wfail : Bool) (hdrErr : Option Err) (h : Head) (st : σ)
    (hh : (cgiRun lim rd wfail hdrErr h st).halt = none) : ActsOk (cgiRun lim rd wfail hdrErr h st).acts :=
  shape_ok (cgi_shape lim hl.buf rd hrd wfail hdrErr h st hh)

/-- `app_at_most_once`: the application's `main()` runs on the ready request at most once — exactly when the
completion handler was called without error, which happens exactly once per request, on every path — and the
early `main()` of a content filter application runs at most once, first. -/
theorem app_at_most_once {σ : Type} (lim : Limits) (hl : LimitsOk lim) (rd : Nat → σ → Except Err (Bytes × σ))
    (hrd : Progress rd) (wfail : Bool) (hdrErr : Option Err) (h : Head) (st : σ)
    (hh : (cgiRun lim rd wfail hdrErr h st).halt = none) :
    let acts := (cgiRun lim rd wfail hdrErr h st).acts
    acts.count .dispatch ≤ 1 ∧ acts.count .mainEarly ≤ 1 ∧ (acts.filter isDone).length = 1 ∧
    (.dispatch ∈ acts ↔ .done false ∈ acts) ∧ (.done true ∈ acts → .dispatch ∉ acts) := by
  have a := request_actions_ok lim hl rd hrd wfail hdrErr h st hh
  exact ⟨a.dispatch_once, a.early_once, a.handler_once, a.dispatch_iff, fun x => (a.error_closed x).1⟩

/-- `on_error_at_most_once`: the content filter's upload-error notification is delivered at most once, only to a
filter whose application was called early, only for a request that failed, never together with
`on_end_of_content` and never when the application gets the request. -/
theorem on_error_at_most_once {σ : Type} (lim : Limits) (hl : LimitsOk lim) (rd : Nat → σ → Except Err (Bytes × σ))
    (hrd : Progress rd) (wfail : Bool) (hdrErr : Option Err) (h : Head) (st : σ)
    (hh : (cgiRun lim rd wfail hdrErr h st).halt = none) :
    let acts := (cgiRun lim rd wfail hdrErr h st).acts
    acts.count .onError ≤ 1 ∧ acts.count .endOfContent ≤ 1 ∧
    (.onError ∈ acts → .mainEarly ∈ acts ∧ .done true ∈ acts ∧ .dispatch ∉ acts ∧ .endOfContent ∉ acts) ∧
    (.endOfContent ∈ acts → .mainEarly ∈ acts ∧ .dispatch ∈ acts) := by
  have a := request_actions_ok lim hl rd hrd wfail hdrErr h st hh
  exact ⟨a.on_error_once, a.eoc_once, a.on_error_when, a.eoc_when⟩

/-- `error_is_answered_or_closed`: a request that fails is either dropped without an answer or answered by exactly
one error page — status 400..599, written with `eof` set, before the completion handler is told about the error —
and in both cases the handler is told about the error (so the connection is not reused: `error_` is set before
`h`, see `connection_closes_after_error_*`), and the application never sees the request. -/
theorem error_is_answered_or_closed {σ : Type} (lim : Limits) (hl : LimitsOk lim)
    (rd : Nat → σ → Except Err (Bytes × σ)) (hrd : Progress rd) (wfail : Bool) (hdrErr : Option Err) (h : Head) (st : σ)
    (hh : (cgiRun lim rd wfail hdrErr h st).halt = none) :
    let acts := (cgiRun lim rd wfail hdrErr h st).acts
    (.done true ∈ acts → .dispatch ∉ acts ∧ (acts.filter isWrite).length ≤ 1) ∧
    (∀ c e, .write c e ∈ acts → 400 ≤ c ∧ c ≤ 599 ∧ e = true ∧ .done true ∈ acts ∧ .dispatch ∉ acts) := by
  have a := request_actions_ok lim hl rd hrd wfail hdrErr h st hh
  exact ⟨a.error_closed, a.write_is_error⟩

/-- the `Outcome` the front-end models work with (`runRequest`) is what the actions amount to: `.app` iff the
application was dispatched (on `fin body`), `.status c pre onError` iff the page with status `c` was written, with
`pre`/`onError` telling whether the early `main()` / the filter's `on_error` ran, `.aborted` iff nothing was
written; the content reader is left in the same state. -/
theorem actions_refine_outcome {σ : Type} (lim : Limits) (hl : LimitsOk lim) (rd : Nat → σ → Except Err (Bytes × σ))
    (hrd : Progress rd) (wfail : Bool) (h : Head) (st : σ) :
    (cgiRun lim rd wfail none h st).summary = (runRequest lim rd h st).1 ∧
    (cgiRun lim rd wfail none h st).st = (runRequest lim rd h st).2 :=
  cgi_refines lim hl.buf rd hrd wfail h st

/-- the counters the correspondence compares with the real application's (early `main()`, `main()` on the ready
request, filter `on_error`, filter `on_end_of_content`) and that the check reads off the model's `Outcome`
(`countersOf`) are the numbers of the corresponding actions of the machine -/
theorem counters_are_actions {σ : Type} (lim : Limits) (hl : LimitsOk lim) (rd : Nat → σ → Except Err (Bytes × σ))
    (hrd : Progress rd) (wfail : Bool) (h : Head) (st : σ) (hh : (cgiRun lim rd wfail none h st).halt = none) :
    let acts := (cgiRun lim rd wfail none h st).acts
    (acts.count .mainEarly, acts.count .dispatch, acts.count .onError, acts.count .endOfContent) =
      countersOf (runRequest lim rd h st).1 :=
  cgi_counters lim hl.buf rd hrd wfail h st hh

/-- the content readers of the three front-ends make progress (SCGI: the socket; FastCGI: STDIN records over any
record reader; HTTP: read-ahead buffer, then the socket) -/
theorem readers_progress : Progress sockRead ∧ (∀ {σ : Type} (R : RecReader σ), Progress (fcgiReadSome R)) ∧
    Progress httpReadSome :=
  ⟨progress_scgi, fun R => progress_fcgi R, progress_http⟩

/-- connection level: on every connection of every front-end, for every byte stream and segmentation, only the
*last* outcome can be anything else than an answered request or a FastCGI management reply — after an error
status, the embedded server's own 400 or a dropped request the connection is not read any more (no further
request is decoded from it; `keep_alive` only continues after the application answered). -/
theorem connection_closes_after_error (lim : Limits) :
    (∀ segs, ClosesAfterError (scgiConn lim segs)) ∧
    (∀ conc segs, ClosesAfterError (fcgiRun lim conc segs)) ∧
    (∀ cfg hints segs, ClosesAfterError (httpRun lim cfg hints segs)) :=
  ⟨scgi_closes lim, fun conc segs => fcgi_closes bufReader lim conc _ _, fun cfg hints segs => http_closes lim cfg _ _ _ _⟩

/-- non-vacuity of `ClosesAfterError`: it does reject a connection that goes on after an error -/
example : ¬ ClosesAfterError [.raw400, .raw400] := by
  intro h; have := h .raw400 (by simp); simp [goesOn] at this

/-- non-vacuity of the hypotheses: the default limits, the socket reader, a run that does not halt -/
example : LimitsOk {} ∧ Progress sockRead ∧
    ∀ (h : Head) (st : Segs), (cgiRun {} sockRead false (some .eof) h st).halt = none ∧
      (cgiRun {} sockRead false (some .eof) h st).acts = [.done true] :=
  ⟨⟨by decide, by decide⟩, progress_scgi, fun h st => ⟨(cgi_run_hdr_err {} sockRead false .eof h st).1,
    (cgi_run_hdr_err {} sockRead false .eof h st).2.1⟩⟩

end Cppcms.C02.Props
