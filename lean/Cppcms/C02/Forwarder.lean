import Cppcms.C01.Request
/-!
# C02 — `connection::cgi_forwarder` (`forwarding.rules`): the buffer a request body is relayed through

`on_header_sent` sizes `post_` from `CONTENT_LENGTH` (`Gen.fwdPostBuffer`, regenerated), `write_post` shrinks it to
what is left and reads into `&post_.front()`, `on_post_data_written` subtracts what was relayed.  The model is a checked
interpreter of that bookkeeping: `none` = a `resize` with a negative / absurd size (`std::length_error`, `bad_alloc`
inside a completion handler) or `front()` of an empty vector.
-/
namespace Cppcms.C02
open Cppcms Cppcms.C01

structure FwdSt where
  /-- `content_length_`: bytes still to relay -/
  remaining : Int
  /-- `post_.size()` -/
  buf : Nat
deriving Repr

/-- sizes a `std::vector<char>` can be resized to without throwing on this platform (the model's bound) -/
def resizeOk (n : Int) : Bool := 0 ≤ n && n ≤ 2 ^ 31

/-- `on_header_sent` for `content_length_ > 0` -/
def fwdStart (cl : Int) : Option FwdSt :=
  if resizeOk (Gen.fwdPostBuffer cl) then some { remaining := cl, buf := (Gen.fwdPostBuffer cl).toNat } else none

/-- `write_post` for `content_length_ > 0`: the size of the read it starts (`none`: `&post_.front()` of an empty vector) -/
def fwdWritePost (s : FwdSt) : Option FwdSt :=
  let s := if s.remaining < (s.buf : Int) then { s with buf := s.remaining.toNat } else s
  if s.buf == 0 then none else some s

/-- a relay: the lengths the reads deliver, each between 1 and the buffer offered; `none` = undefined operation -/
def fwdRelay : FwdSt → List Nat → Option FwdSt
  | s, [] => some s
  | s, len :: rest =>
    if s.remaining ≤ 0 then some s
    else match fwdWritePost s with
      | none => none
      | some s' => fwdRelay { s' with remaining := s'.remaining - (min len s'.buf : Nat) } rest

/-- **the relay buffer is bounded by 8 KiB whatever `CONTENT_LENGTH` says** (and never empty while something is left) -/
theorem forwarder_buffer_bounded (cl : Int) (h : 0 < cl) :
    ∃ s, fwdStart cl = some s ∧ 1 ≤ s.buf ∧ s.buf ≤ 8192 ∧ (s.buf : Int) ≤ s.remaining := by
  have hb : Gen.fwdPostBuffer cl = if cl > 8192 then 8192 else cl := by simp [Gen.fwdPostBuffer]
  unfold fwdStart resizeOk
  rw [hb]
  by_cases hc : cl > 8192
  · simp only [hc, if_true]
    refine ⟨{ remaining := cl, buf := 8192 }, ?_, by simp, by simp, ?_⟩
    · simp
    · show ((8192 : Nat) : Int) ≤ cl
      omega
  · simp only [hc, if_false]
    have : (decide (0 ≤ cl) && decide (cl ≤ 2 ^ 31)) = true := by simp; omega
    simp only [this, if_true]
    exact ⟨_, rfl, by simp; omega, by simp; omega, by simp; omega⟩

structure FwdInv (s : FwdSt) : Prop where
  pos : 1 ≤ s.buf
  cap : s.buf ≤ 8192

/-- no sequence of reads (any lengths) makes the relay resize beyond 8 KiB or touch an empty buffer -/
theorem forwarder_relay_safe : ∀ (lens : List Nat) (s : FwdSt), FwdInv s →
    ∃ s', fwdRelay s lens = some s' ∧ s'.buf ≤ 8192 := by
  intro lens
  induction lens with
  | nil => intro s hi; exact ⟨s, rfl, hi.cap⟩
  | cons len rest ih =>
    intro s hi
    unfold fwdRelay
    by_cases hr : s.remaining ≤ 0
    · simp only [hr, if_true]; exact ⟨s, rfl, hi.cap⟩
    · simp only [hr, if_false]
      unfold fwdWritePost
      by_cases hlt : s.remaining < (s.buf : Int)
      · simp only [hlt, if_true]
        have hpos : s.remaining.toNat ≠ 0 := by omega
        have : (s.remaining.toNat == 0) = false := by simpa using hpos
        simp only [this, Bool.false_eq_true, if_false]
        apply ih
        have := hi.cap
        exact ⟨by simp; omega, by simp; omega⟩
      · simp only [hlt, if_false]
        have hb := hi.pos
        have : (s.buf == 0) = false := by simp; omega
        simp only [this, Bool.false_eq_true, if_false]
        apply ih
        exact ⟨hi.pos, hi.cap⟩

end Cppcms.C02
