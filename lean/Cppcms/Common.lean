/-!
Shared helpers for all models: byte strings as `List UInt8`, the hex line
protocol used by the drivers, and a generic stdin → stdout line loop.
No Mathlib imports anywhere under `Cppcms/*/Model.lean` or `Driver.lean`, so the
drivers link as plain `lean_exe`s.
-/
namespace Cppcms

abbrev Bytes := List UInt8

def hexDigit (c : Char) : Option Nat :=
  if '0' ≤ c ∧ c ≤ '9' then some (c.toNat - '0'.toNat)
  else if 'a' ≤ c ∧ c ≤ 'f' then some (c.toNat - 'a'.toNat + 10)
  else if 'A' ≤ c ∧ c ≤ 'F' then some (c.toNat - 'A'.toNat + 10)
  else none

def parseHexAux : List Char → List UInt8 → Option Bytes
  | [], acc => some acc.reverse
  | [_], _ => none
  | a :: b :: rest, acc =>
    match hexDigit a, hexDigit b with
    | some x, some y => parseHexAux rest (UInt8.ofNat (x * 16 + y) :: acc)
    | _, _ => none

/-- `-` is the empty string; otherwise an even number of hex digits. -/
def parseHex (s : String) : Option Bytes :=
  if s == "-" then some [] else parseHexAux s.toList []

def hexChar (n : Nat) : Char :=
  if n < 10 then Char.ofNat (48 + n) else Char.ofNat (87 + n)

def toHex (bs : Bytes) : String :=
  if bs.isEmpty then "-"
  else String.ofList (bs.flatMap fun b => [hexChar (b.toNat / 16), hexChar (b.toNat % 16)])

/-- split a protocol line into blank-separated words (empty words dropped). -/
def words (line : String) : List String :=
  (line.trimAscii.toString.splitOn " ").filter (· ≠ "")

/-- Generic driver loop: one output line per input line. -/
partial def lineLoopAux {σ : Type} (h : IO.FS.Stream) (out : IO.FS.Stream) (s : σ)
    (step : σ → String → σ × String) : IO Unit := do
  let line ← h.getLine
  if line.isEmpty then
    out.flush
    return ()
  let (s', o) := step s line
  out.putStrLn o
  lineLoopAux h out s' step

def lineLoop {σ : Type} (s : σ) (step : σ → String → σ × String) : IO Unit := do
  lineLoopAux (← IO.getStdin) (← IO.getStdout) s step

def boolStr (b : Bool) : String := if b then "1" else "0"

end Cppcms

namespace Cppcms

/-- Finite case analysis over a byte: to prove `P c` for every `c : UInt8` it is
enough to check the 256 values (closed by `decide +kernel` at the use site). -/
theorem forall_uint8 {P : UInt8 → Prop} (h : ∀ n : Fin 256, P (UInt8.ofNat n.val)) : ∀ c, P c := by
  intro c
  have := h ⟨c.toNat, c.toNat_lt⟩
  simpa using this

end Cppcms
