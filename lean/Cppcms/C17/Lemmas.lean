import Cppcms.C17.Model
/-! Helper lemmas for C17: token counting through every atomic step. -/
namespace Cppcms.C17

/-- number of references to handler id `h` in a list of tokens -/
def cnt (h : Nat) (l : List Tok) : Nat := l.countP (fun t => t.id == h)

/-- 1 if token `t` is a reference to handler id `h` -/
def one (h : Nat) (t : Tok) : Nat := if t.id = h then 1 else 0

@[simp] theorem cnt_nil (h : Nat) : cnt h [] = 0 := rfl
@[simp] theorem cnt_append (h : Nat) (a b : List Tok) : cnt h (a ++ b) = cnt h a + cnt h b := by
  simp [cnt, List.countP_append]
@[simp] theorem cnt_cons (h : Nat) (t : Tok) (l : List Tok) : cnt h (t :: l) = one h t + cnt h l := by
  simp [cnt, one, List.countP_cons]; omega
@[simp] theorem cnt_optList (h : Nat) (t : Tok) : cnt h (some t).toList = one h t := by
  simp [Option.toList]

def runToks : Option QItem → List Tok
  | some q => queueToks [q]
  | none => []

/-- total number of references to handler id `h` anywhere in the state:
    queued, being executed, armed (descriptor table, timers), executed, dropped by reset, lost by overwrite -/
def tc (h : Nat) (s : St) : Nat :=
  cnt h (queueToks s.queue) + cnt h (runToks s.running) + cnt h (mapToks s.map)
    + cnt h (s.timers.map (·.tok)) + cnt h (s.log.map (·.tok)) + cnt h s.dropped + cnt h s.lost

@[simp] theorem queueToks_append (a b : List QItem) : queueToks (a ++ b) = queueToks a ++ queueToks b := by
  induction a with
  | nil => rfl
  | cons x xs ih => cases x <;> simp [queueToks, ih]

@[simp] theorem queueToks_optItem (o : Option Tok) (c : Code) : queueToks (optItem o c) = o.toList := by
  cases o <;> simp [optItem, queueToks]

theorem cnt_ioSet (h : Nat) (m : List IoData) (fd : Nat) (v : IoData) :
    cnt h (mapToks (ioSet m fd v)) + cnt h (ioToks (ioGet m fd)) = cnt h (mapToks m) + cnt h (ioToks v) := by
  induction m generalizing fd with
  | nil =>
    induction fd with
    | zero => simp [ioSet, ioGet, mapToks, ioToks]
    | succ n ih =>
      simp [ioSet, ioGet, mapToks, ioToks] at ih ⊢
      omega
  | cons d ds ih =>
    cases fd with
    | zero => simp [ioSet, ioGet, mapToks]; omega
    | succ n =>
      have := ih n
      simp [ioSet, ioGet, mapToks] at this ⊢
      omega

theorem cnt_insertTimer (h : Nat) (t : Timer) (ts : List Timer) :
    cnt h ((insertTimer t ts).map (·.tok)) = cnt h [t.tok] + cnt h (ts.map (·.tok)) := by
  induction ts with
  | nil => simp [insertTimer]
  | cons x xs ih =>
    simp only [insertTimer]
    split
    · simp [ih]; omega
    · simp

theorem cnt_removeSlot (h : Nat) (slot : Nat) (ts : List Timer) (t : Timer)
    (hf : ts.find? (·.slot == slot) = some t) :
    cnt h (ts.map (·.tok)) = cnt h [t.tok] + cnt h ((removeSlot slot ts).map (·.tok)) := by
  induction ts with
  | nil => simp at hf
  | cons x xs ih =>
    simp only [List.find?_cons] at hf
    by_cases hx : (x.slot == slot) = true
    · simp [hx] at hf
      subst hf
      simp [removeSlot, hx]
    · simp [hx] at hf
      have hx' : (x.slot == slot) = false := by simpa using hx
      simp [removeSlot, hx', ih hf]
      omega

theorem cnt_due_rest (h now : Nat) (ts : List Timer) :
    cnt h ((dueTimers now ts).map (·.tok)) + cnt h ((restTimers now ts).map (·.tok)) = cnt h (ts.map (·.tok)) := by
  have : ts = dueTimers now ts ++ restTimers now ts := by
    simp [dueTimers, restTimers, List.takeWhile_append_dropWhile]
  conv => rhs; rw [this]
  simp

@[simp] theorem queueToks_due (l : List Timer) :
    queueToks (l.map (fun t => QItem.ev t.tok .ok 0)) = l.map (·.tok) := by
  induction l with
  | nil => rfl
  | cons x xs ih => simp [queueToks, ih]

theorem cnt_ioToks (h : Nat) (d : IoData) : cnt h (ioToks d) = cnt h d.rd.toList + cnt h d.wr.toList := by
  simp [ioToks]

/-! ### bodies of the two functors -/

theorem tc_setterBody (h : Nat) (s : St) (fd : Option Nat) (e : Ev) (t : Tok) (ok : Bool) (er : Code) :
    tc h (setterBody s fd e t ok er) = tc h s + cnt h [t] ∧ (setterBody s fd e t ok er).next = s.next := by
  unfold setterBody
  cases fd with
  | none => simp [push, tc, queueToks]; omega
  | some fd =>
    cases ok with
    | false => simp [push, tc, queueToks]; omega
    | true =>
      have hg := cnt_ioToks h (ioGet s.map fd)
      cases e with
      | rd =>
        have := cnt_ioSet h s.map fd { ioGet s.map fd with curIn := true, rd := some t }
        simp [tc, Gen.setterAssignsDirectly, ioToks] at this hg ⊢
        omega
      | wr =>
        have := cnt_ioSet h s.map fd { ioGet s.map fd with curOut := true, wr := some t }
        simp [tc, Gen.setterAssignsDirectly, ioToks] at this hg ⊢
        omega

theorem tc_cancelerBody (h : Nat) (s : St) (fd : Nat) :
    tc h (cancelerBody s fd) = tc h s ∧ (cancelerBody s fd).next = s.next := by
  unfold cancelerBody
  have hg := cnt_ioToks h (ioGet s.map fd)
  have := cnt_ioSet h s.map fd (IoData.mk false false
      (afterTake Gen.cancelerReadableMoves (ioGet s.map fd).rd)
      (afterTake Gen.cancelerWriteableMoves (ioGet s.map fd).wr))
  simp [tc, afterTake, Gen.cancelerReadableMoves, Gen.cancelerWriteableMoves, ioToks] at this hg ⊢
  omega

theorem tc_dispatchFd (h : Nat) (s : St) (e : Event) :
    tc h (dispatchFd s e) = tc h s ∧ (dispatchFd s e).next = s.next := by
  unfold dispatchFd
  have hg := cnt_ioToks h (ioGet s.map e.fd)
  generalize hd : ioGet s.map e.fd = d at hg
  refine ⟨?_, rfl⟩
  simp only []
  generalize hnin : (if e.selOk = true then (if e.err = true then false else if e.rd = true then false else d.curIn) else false) = nin
  generalize hnout : (if e.selOk = true then (if e.err = true then false else if e.wr = true then false else d.curOut) else false) = nout
  generalize hfr : (d.rd.isSome && !nin) = fr
  generalize hfw : (d.wr.isSome && !nout) = fw
  have := cnt_ioSet h s.map e.fd (IoData.mk nin nout
      (if fr = true then afterTake Gen.dispatchReadableMoves d.rd else d.rd)
      (if fw = true then afterTake Gen.dispatchWriteableMoves d.wr else d.wr))
  rw [hd] at this
  cases fr <;> cases fw <;>
    simp [tc, afterTake, Gen.dispatchReadableMoves, Gen.dispatchWriteableMoves, ioToks] at this hg ⊢ <;> omega

theorem tc_dispatchAll (h : Nat) (evs : List Event) (s : St) :
    tc h (evs.foldl dispatchFd s) = tc h s ∧ (evs.foldl dispatchFd s).next = s.next := by
  induction evs generalizing s with
  | nil => simp
  | cons e es ih =>
    simp only [List.foldl_cons]
    have h1 := tc_dispatchFd h s e
    have h2 := ih (dispatchFd s e)
    exact ⟨by rw [h2.1, h1.1], by rw [h2.2, h1.2]⟩


/-! ### every atomic step moves tokens, never duplicates or destroys them -/

theorem setterBody_frame (s : St) (fd : Option Nat) (e : Ev) (t : Tok) (ok : Bool) (er : Code) :
    (setterBody s fd e t ok er).running = s.running ∧ (setterBody s fd e t ok er).phase = s.phase
    ∧ (setterBody s fd e t ok er).log = s.log := by
  unfold setterBody
  cases fd <;> cases ok <;> cases e <;> simp [push]

theorem cancelerBody_frame (s : St) (fd : Nat) :
    (cancelerBody s fd).running = s.running ∧ (cancelerBody s fd).phase = s.phase
    ∧ (cancelerBody s fd).log = s.log := by
  simp [cancelerBody]

theorem tc_clearRunning (h : Nat) (s : St) (c : Nat) (p : Phase) :
    tc h { s with running := none, counter := c, phase := p } + cnt h (runToks s.running) = tc h s := by
  simp [tc, runToks]; omega

/-- the result of one step: either no token was issued and every count is unchanged, or exactly the
    token with id `s.next` was issued and only its count went up by one -/
def StepOK (h : Nat) (s s' : St) : Prop :=
  (s'.next = s.next ∧ tc h s' = tc h s) ∨ (s'.next = s.next + 1 ∧ tc h s' = tc h s + (if s.next = h then 1 else 0))

theorem queueToks_cons (q : QItem) (rest : List QItem) : queueToks (q :: rest) = queueToks [q] ++ queueToks rest := by
  have := queueToks_append [q] rest
  simpa using this

theorem tc_opStep (h : Nat) (s : St) (o : Op) : StepOK h s (opStep s o) := by
  cases o with
  | post => right; simp [opStep, push, tc, queueToks, one]; omega
  | postEv c n => right; simp [opStep, push, tc, queueToks, one]; omega
  | setTimer d slot =>
    simp only [opStep]
    split
    · left; exact ⟨rfl, rfl⟩
    · right
      have := cnt_insertTimer h ⟨d, slot, ⟨s.next, .timer d⟩⟩ s.timers
      simp [tc, one] at this ⊢
      omega
  | cancelTimer slot =>
    simp only [opStep]
    split
    · left; exact ⟨rfl, rfl⟩
    · rename_i t hf
      left
      have := cnt_removeSlot h slot s.timers t hf
      simp [tc, queueToks] at this ⊢
      omega
  | setIo fd e ok er =>
    simp only [opStep]
    split
    · right; simp [push, tc, queueToks, one]; omega
    · right
      have := tc_setterBody h { s with next := s.next + 1 } fd e ⟨s.next, .io⟩ ok er
      refine ⟨this.2, ?_⟩
      rw [this.1]
      simp [tc, one]
  | cancelIo fd =>
    cases fd with
    | none => left; exact ⟨rfl, rfl⟩
    | some fd =>
      simp only [opStep]
      split
      · left; exact ⟨rfl, rfl⟩
      · split
        · left; simp [push, tc, queueToks]
        · left; have := tc_cancelerBody h s fd; exact ⟨this.2, this.1⟩
  | stop => left; exact ⟨rfl, rfl⟩
  | reset =>
    simp only [opStep]
    split
    · left; simp [tc, queueToks, mapToks]; omega
    · left; exact ⟨rfl, rfl⟩

theorem tc_afterDrain (h : Nat) (s : St) (i : LoopInp) : StepOK h s (loopStep.afterDrain s i) := by
  unfold loopStep.afterDrain
  simp only []
  split
  · left; exact ⟨rfl, rfl⟩
  · left
    have := cnt_due_rest h i.now s.timers
    simp [tc] at this ⊢
    omega

theorem tc_loopStep (h : Nat) (s : St) (i : LoopInp) (hrun : s.phase ≠ .executing → s.running = none) :
    StepOK h s (loopStep s i) := by
  unfold loopStep
  split
  · left; exact ⟨rfl, rfl⟩
  · rename_i hp
    have hr : s.running = none := hrun (by rw [hp]; decide)
    split
    · rename_i q rest hq
      split
      · left
        have := queueToks_cons q rest
        simp [tc, hq, hr, runToks, this]
        omega
      · exact tc_afterDrain h s i
    · exact tc_afterDrain h s i
  · split
    · rename_i q hq
      left
      cases q with
      | fn t => simp [execItem, tc, hq, runToks, queueToks]; omega
      | ev t c n => simp [execItem, tc, hq, runToks, queueToks]; omega
      | setter fd e t =>
        have h1 := tc_setterBody h s fd e t i.selOk i.selErr
        have h2 := setterBody_frame s fd e t i.selOk i.selErr
        have h3 := tc_clearRunning h (setterBody s fd e t i.selOk i.selErr) (s.counter - 1) .draining
        simp only [execItem]
        refine ⟨h1.2, ?_⟩
        rw [h2.1, hq] at h3
        simp [runToks, queueToks] at h3 h1
        omega
      | canceler fd =>
        have h1 := tc_cancelerBody h s fd
        have h2 := cancelerBody_frame s fd
        have h3 := tc_clearRunning h (cancelerBody s fd) (s.counter - 1) .draining
        simp only [execItem]
        refine ⟨h1.2, ?_⟩
        rw [h2.1, hq] at h3
        simp [runToks, queueToks] at h3
        omega
    · left; simp [tc]
  · dsimp only
    split
    · left; simp [tc]
    · left
      have := tc_dispatchAll h (if i.pollErr = true then [] else i.events) { s with polling := false }
      exact ⟨this.2, by simpa [tc] using this.1⟩
  · left; exact ⟨rfl, rfl⟩
  · left; exact ⟨rfl, rfl⟩

/-- `running` is only occupied while the loop thread is in `executing` -/
def RunOK (s : St) : Prop := s.phase ≠ .executing → s.running = none

theorem dispatchAll_frame (evs : List Event) (s : St) :
    (evs.foldl dispatchFd s).running = s.running ∧ (evs.foldl dispatchFd s).log = s.log := by
  induction evs generalizing s with
  | nil => simp
  | cons e es ih => simp only [List.foldl_cons]; have := ih (dispatchFd s e); simpa [dispatchFd] using this

theorem runOK_step (s : St) (a : Act) (hr : RunOK s) : RunOK (step s a) := by
  unfold RunOK at *
  cases a with
  | op o =>
    cases o with
    | setIo fd e ok er =>
      simp only [step, opStep]
      split
      · simpa [push] using hr
      · have := setterBody_frame { s with next := s.next + 1 } fd e ⟨s.next, .io⟩ ok er
        rw [this.1, this.2.1]; exact hr
    | cancelIo fd =>
      cases fd with
      | none => exact hr
      | some fd =>
        simp only [step, opStep]
        split
        · exact hr
        · split
          · simpa [push] using hr
          · have := cancelerBody_frame s fd
            rw [this.1, this.2.1]; exact hr
    | reset =>
      simp only [step, opStep]
      split
      · rename_i hc
        intro _
        apply hr
        rcases hc with hc | hc | hc <;> rw [hc] <;> decide
      · exact hr
    | setTimer d slot => simp only [step, opStep]; split <;> simpa using hr
    | cancelTimer slot => simp only [step, opStep]; split <;> simpa using hr
    | post => simpa [step, opStep, push] using hr
    | postEv c n => simpa [step, opStep, push] using hr
    | stop => simpa [step, opStep] using hr
  | loop i =>
    simp only [step]
    unfold loopStep
    split
    · rename_i hp; intro _; exact hr (by rw [hp]; decide)
    · rename_i hp
      have hn : s.running = none := hr (by rw [hp]; decide)
      split
      · split
        · simp
        · unfold loopStep.afterDrain; simp only []; split <;> simp [hn]
      · unfold loopStep.afterDrain; simp only []; split <;> simp [hn]
    · split <;> simp_all
    · rename_i hp
      have hn : s.running = none := hr (by rw [hp]; decide)
      dsimp only
      split
      · simp [hn]
      · have := (dispatchAll_frame (if i.pollErr = true then [] else i.events) { s with polling := false }).1
        intro _
        rw [this]; exact hn
    · exact hr
    · exact hr

/-- the invariant: every issued id is referenced exactly once, ids not yet issued not at all -/
def Conserved (s : St) : Prop := ∀ h, tc h s = if h < s.next then 1 else 0

theorem conserved_step (s : St) (a : Act) (hc : Conserved s) (hr : RunOK s) : Conserved (step s a) := by
  intro h
  have hs : StepOK h s (step s a) := by
    cases a with
    | op o => exact tc_opStep h s o
    | loop i => exact tc_loopStep h s i hr
  have := hc h
  rcases hs with ⟨hn, ht⟩ | ⟨hn, ht⟩
  · rw [hn, ht]; exact this
  · rw [hn, ht, this]
    split <;> split <;> split <;> omega

theorem conserved_run (as : List Act) (s : St) (hc : Conserved s) (hr : RunOK s) :
    Conserved (run s as) ∧ RunOK (run s as) := by
  induction as generalizing s with
  | nil => exact ⟨hc, hr⟩
  | cons a as ih =>
    simp only [run, List.foldl_cons]
    exact ih (step s a) (conserved_step s a hc hr) (runOK_step s a hr)

theorem conserved_init : Conserved init ∧ RunOK init := by
  constructor
  · intro h; simp [init, tc, queueToks, runToks, mapToks]
  · intro _; rfl

end Cppcms.C17
