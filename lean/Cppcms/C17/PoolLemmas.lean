import Cppcms.C17.Model
/-! Helper lemmas for the thread-pool part of C17: job conservation. -/
namespace Cppcms.C17

def jcnt (id : Int) (l : List Job) : Nat := l.countP (fun j => j.id == id)
def ocnt (id : Int) (l : List (Option Job)) : Nat := l.countP (fun o => match o with | some j => j.id == id | none => false)
def icnt (id : Int) (l : List Int) : Nat := l.countP (· == id)

@[simp] theorem jcnt_nil (id : Int) : jcnt id [] = 0 := rfl
@[simp] theorem jcnt_append (id : Int) (a b : List Job) : jcnt id (a ++ b) = jcnt id a + jcnt id b := by
  simp [jcnt, List.countP_append]
theorem jcnt_cons (id : Int) (j : Job) (l : List Job) : jcnt id (j :: l) = (if j.id = id then 1 else 0) + jcnt id l := by
  simp [jcnt, List.countP_cons]; omega
@[simp] theorem icnt_append (id : Int) (a b : List Int) : icnt id (a ++ b) = icnt id a + icnt id b := by
  simp [icnt, List.countP_append]

/-- number of references to job id `id`: queued, held by a worker, started, or cancelled -/
def pc (id : Int) (p : Pool) : Nat := jcnt id p.queue + ocnt id p.workers + jcnt id p.ran + icnt id p.cancelled

theorem jcnt_eraseFirst (id k : Int) (l : List Job) :
    jcnt id (eraseFirst k l) + (if k = id ∧ l.any (·.id == k) = true then 1 else 0) = jcnt id l := by
  induction l with
  | nil => simp [eraseFirst]
  | cons j js ih =>
    simp only [eraseFirst]
    by_cases hj : j.id = k
    · simp only [hj, if_true]
      rw [jcnt_cons]
      simp [hj]
      omega
    · simp only [hj, if_false]
      rw [jcnt_cons, jcnt_cons]
      have : (List.any (j :: js) fun x => x.id == k) = List.any js fun x => x.id == k := by
        simp [hj]
      rw [this]
      omega

theorem ocnt_set (id : Int) (l : List (Option Job)) (w : Nat) (v : Option Job) (hw : w < l.length) :
    ocnt id (l.set w v) + ocnt id [l.getD w none] = ocnt id l + ocnt id [v] := by
  induction l generalizing w with
  | nil => simp at hw
  | cons x xs ih =>
    cases w with
    | zero => simp [ocnt, List.countP_cons]; omega
    | succ n =>
      have := ih n (by simpa using hw)
      simp [ocnt, List.countP_cons] at this ⊢
      omega

def PoolStepOK (id : Int) (p p' : Pool) : Prop :=
  (p'.jobId = p.jobId ∧ pc id p' = pc id p) ∨
  (p'.jobId = p.jobId + 1 ∧ pc id p' = pc id p + (if (p.jobId : Int) = id then 1 else 0))

theorem pc_step (id : Int) (p : Pool) (o : PoolOp) : PoolStepOK id p (poolStep p o) := by
  cases o with
  | post th =>
    right
    simp [poolStep, pc, jcnt_cons]
    omega
  | cancel k =>
    left
    simp only [poolStep]
    split
    · rename_i hk
      have := jcnt_eraseFirst id k p.queue
      simp [pc, hk, icnt, List.countP_cons] at this ⊢
      by_cases h : k = id <;> simp [h] at this ⊢ <;> omega
    · exact ⟨rfl, rfl⟩
  | stop => left; exact ⟨rfl, rfl⟩
  | workerTake w =>
    left
    simp only [poolStep]
    split
    · rename_i hc
      split
      · simp [pc]
      · split
        · rename_i j rest hq
          have := ocnt_set id p.workers w (some j) hc.1
          rw [hc.2.2] at this
          simp [pc, hq, Gen.workerRemovesJobUnderLock, jcnt_cons, ocnt, List.countP_cons] at this ⊢
          omega
        · exact ⟨rfl, rfl⟩
    · exact ⟨rfl, rfl⟩
  | workerRun w =>
    left
    simp only [poolStep]
    split
    · rename_i j hj
      have hw : w < p.workers.length := by
        refine Classical.byContradiction fun hc => ?_
        have : p.workers.getD w none = none := by
          simp [List.getD, List.getElem?_eq_none (Nat.le_of_not_lt hc)]
        rw [this] at hj
        cases hj
      have := ocnt_set id p.workers w none hw
      rw [hj] at this
      split <;> simp [pc, jcnt_cons, ocnt, List.countP_cons] at this ⊢ <;> omega
    · exact ⟨rfl, rfl⟩

def PoolConserved (p : Pool) : Prop := ∀ id : Int, pc id p = if 0 ≤ id ∧ id < (p.jobId : Int) then 1 else 0

theorem poolConserved_step (p : Pool) (o : PoolOp) (h : PoolConserved p) : PoolConserved (poolStep p o) := by
  intro id
  have := h id
  rcases pc_step id p o with ⟨hn, ht⟩ | ⟨hn, ht⟩
  · rw [hn, ht]; exact this
  · rw [hn, ht, this]
    split <;> split <;> split <;> omega

theorem poolConserved_run (ops : List PoolOp) (p : Pool) (h : PoolConserved p) : PoolConserved (poolRun p ops) := by
  induction ops generalizing p with
  | nil => exact h
  | cons o os ih => simp only [poolRun, List.foldl_cons]; exact ih _ (poolConserved_step p o h)

theorem ocnt_replicate_none (id : Int) (n : Nat) : ocnt id (List.replicate n none) = 0 := by
  induction n with
  | zero => rfl
  | succ k ih => simp [List.replicate_succ, ocnt] at ih ⊢

theorem poolConserved_init (n : Nat) : PoolConserved (poolInit n) := by
  intro id
  have hn : ¬ (0 ≤ id ∧ id < ((poolInit n).jobId : Int)) := by
    show ¬ (0 ≤ id ∧ id < ((0 : Nat) : Int))
    omega
  rw [if_neg hn]
  simp [poolInit, pc, ocnt_replicate_none, icnt]

end Cppcms.C17
