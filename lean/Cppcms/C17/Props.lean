import Cppcms.C17.Lemmas
import Cppcms.C17.TimerLemmas
import Cppcms.C17.Progress
import Cppcms.C17.PoolFair
import Cppcms.C17.Spec
/-!
# C17 — property theorems

"Each handler given to the event loop is invoked exactly once, on the thread that runs the
loop … Each job posted to the worker pool runs at most once, exactly once if the pool keeps
running and the job was not successfully cancelled, and an exception escaping a job does not
stop the pool."

All statements quantify over **every** history `as : List Act` (any number of threads issuing
any operations in any order, interleaved with the loop thread's own critical sections), from
the initial state.  `Gen.lean` (regenerated from the C++ on every run) supplies which
`completion_handler` overload each site selects, the lock tables and the shape flags.
-/
namespace Cppcms.C17.Props
open Cppcms Cppcms.C17

/-! ## tie obligations on the generated tables -/

/-- Every method of `event_loop_impl` (and of its functors) either constructs the lock guard on
`data_mutex_` as its first statement, or does not mention any member the mutex protects, or is
`reset()` (documented: not to be called while `run()` executes — `Op.reset` is only enabled
then), or is one of the private helpers that are only called with the lock held. -/
theorem lock_discipline :
    (∀ m ∈ Gen.loopLockTable, m.2.1 = true ∨ m.2.2 = false ∨ m.1 = "reset()" ∨
        Gen.unlockedHelpers.any (fun h => m.1.startsWith (h ++ "(") || m.1.endsWith ("::" ++ h ++ "()")) = true)
    ∧ (∀ e ∈ Gen.helperCallEdges,
        (Gen.loopLockTable.any fun m => m.1 == e.1 && m.2.1) = true ∨
        Gen.unlockedHelpers.any (fun h => e.1.startsWith (h ++ "(")) = true)
    ∧ (∀ m ∈ Gen.poolLockTable, m.2.1 = true ∨ m.2.2 = false ∨ m.1 = "worker()") := by
  decide +kernel

/-- The sites that take a stored callback out of the descriptor table select the moving overload,
posts copy the caller's callback, and the source shapes the hand-written control flow relies on
were found by the extractor. -/
theorem generated_shapes :
    Gen.cancelerReadableMoves = true ∧ Gen.cancelerWriteableMoves = true ∧
    Gen.dispatchReadableMoves = true ∧ Gen.dispatchWriteableMoves = true ∧
    Gen.cancelTimerMoves = true ∧ Gen.expireTimerMoves = true ∧ Gen.setterErrorMoves = true ∧
    Gen.postCopies = true ∧ Gen.loopShapesChecked = true ∧ Gen.poolShapesChecked = true ∧
    Gen.workerRemovesJobUnderLock = true ∧ Gen.workerCatchesAll = true := by
  decide

/-! ## token conservation ⇒ at most once -/

/-- **Token conservation.** After any history, every handler id issued so far is referenced
exactly once in the whole state — queued (possibly inside a queued setter functor), being
executed, armed in the descriptor table, armed as a timer, executed (in the log), destroyed by
`reset()`, or destroyed by a slot overwrite (`lost`, see `no_loss_partial`) — and ids not yet
issued are referenced nowhere. -/
theorem token_conservation (as : List Act) (h : Nat) :
    tc h (run init as) = if h < (run init as).next then 1 else 0 :=
  (conserved_run as init conserved_init.1 conserved_init.2).1 h

/-- number of invocations of handler id `h` recorded in the log -/
def calls (h : Nat) (s : St) : Nat := cnt h (s.log.map (·.tok))

/-- **At most once**: no history makes the loop invoke a handler twice. -/
theorem at_most_once (as : List Act) (h : Nat) : calls h (run init as) ≤ 1 := by
  have := token_conservation as h
  unfold tc at this
  unfold calls
  split at this <;> omega

/-- An executed handler is referenced nowhere else any more: not queued, not armed, so it can
never run again (and an armed or queued one has not run yet). -/
theorem executed_is_gone (as : List Act) (h : Nat) (hx : calls h (run init as) = 1) :
    cnt h (queueToks (run init as).queue) = 0 ∧ cnt h (mapToks (run init as).map) = 0 ∧
    cnt h ((run init as).timers.map (·.tok)) = 0 ∧ cnt h (runToks (run init as).running) = 0 := by
  have := token_conservation as h
  unfold tc at this
  unfold calls at hx
  split at this <;> omega

/-! ## on the loop thread -/

/-- **Handlers run only on the loop thread**: no operation issued through the public API by any
thread (post, timers, set/cancel I/O events — even when `set_event` runs the functor directly on
the caller's thread —, stop, reset) ever invokes a handler; … -/
theorem ops_never_invoke (s : St) (o : Op) : (opStep s o).log = s.log := by
  cases o with
  | setIo fd e ok er =>
    simp only [opStep]
    split
    · rfl
    · exact (setterBody_frame _ fd e _ ok er).2.2
  | cancelIo fd =>
    cases fd with
    | none => rfl
    | some fd =>
      simp only [opStep]
      split
      · rfl
      · split
        · rfl
        · exact (cancelerBody_frame s fd).2.2
  | setTimer d slot => simp only [opStep]; split <;> rfl
  | cancelTimer slot => simp only [opStep]; split <;> rfl
  | reset => simp only [opStep]; split <;> rfl
  | post => rfl
  | postEv c n => rfl
  | stop => rfl

/-- … and the loop thread invokes one only in the `executing` step of `run_one`'s drain loop, i.e.
with the mutex released, the popped `completion_handler` in its local variable. -/
theorem runs_on_loop_thread (s : St) (i : LoopInp) (hne : (loopStep s i).log ≠ s.log) :
    s.phase = .executing ∧ ∃ t c n, (s.running = some (.ev t c n) ∨ (s.running = some (.fn t) ∧ c = .ok ∧ n = 0)) ∧
      (loopStep s i).log = s.log ++ [⟨t, c, n, s.clock⟩] := by
  unfold loopStep at hne ⊢
  split at hne
  · exact absurd rfl hne
  · split at hne
    · split at hne
      · exact absurd rfl hne
      · exfalso; apply hne; unfold loopStep.afterDrain; dsimp only; split <;> rfl
    · exfalso; apply hne; unfold loopStep.afterDrain; dsimp only; split <;> rfl
  · rename_i hp
    refine ⟨hp, ?_⟩
    split at hne
    · rename_i q hq
      cases q with
      | fn t => exact ⟨t, .ok, 0, Or.inr ⟨hq, rfl, rfl⟩, by simp [hp, hq, execItem]⟩
      | ev t c n => exact ⟨t, c, n, Or.inl hq, by simp [hp, hq, execItem]⟩
      | setter fd e t =>
        exfalso; apply hne
        simp only [execItem]
        exact (setterBody_frame s fd e t i.selOk i.selErr).2.2
      | canceler fd =>
        exfalso; apply hne
        simp only [execItem]
        exact (cancelerBody_frame s fd).2.2
    · exact absurd rfl hne
  · exfalso; apply hne
    dsimp only
    split
    · rfl
    · exact (dispatchAll_frame (if i.pollErr = true then [] else i.events) _).2
  · exact absurd rfl hne
  · exact absurd rfl hne

/-! ## D12: a second handler armed on an occupied slot silently destroys the first -/

/-- the history of the witness: run() parks in poll; two `on_readable` on descriptor 0 from another
thread; the peer writes; three more `run_one` iterations with descriptor 0 reported readable -/
def d12Witness : List Act :=
  let l : Act := .loop {}
  let lr : Act := .loop { events := [{ fd := 0, rd := true, wr := false, err := false }] }
  [l, l,                                   -- run_one: lock … unlock before poll
   .op (.setIo (some 0) .rd true .sysErr),  -- handler 0
   .op (.setIo (some 0) .rd true .sysErr),  -- handler 1, same slot
   l, l, l, l, l, l, l,                     -- next run_one: both queued setters executed, parked again
   lr, l, l, l, l]                          -- readable reported: dispatched, executed, parked again

/-- **Counter-example to the unrestricted "exactly once"** (known finding
`aio-double-arm-drops-handler`): after the witness history handler 0 has never been invoked, is
neither armed nor queued any more — it was destroyed by `map_[fd].readable = h` — while handler 1
ran once.  Replayed on the real loop on every run. -/
theorem double_arm_drops_first_counterexample :
    let s := run init d12Witness
    calls 0 s = 0 ∧ calls 1 s = 1 ∧ s.queue = [] ∧ s.running = none ∧ mapToks s.map = [] ∧ s.timers = []
      ∧ s.lost.map (·.id) = [0] ∧ s.stop = false ∧ s.phase = .polling := by
  decide +kernel

/-- history of the second witness: run() parks in poll; another thread posts handler 0 and arms handler 1 on
descriptor 0 (queued functor, the loop is polling); the loop wakes, pops handler 0, which — running on the loop
thread, `polling_ = false` — calls `cancel_io_events(0)` (and then closes the descriptor) -/
def overtakeWitness : List Act :=
  let l : Act := .loop {}
  [l, l,
   .op .post,                                -- handler 0
   .op (.setIo (some 0) .rd true .sysErr),   -- handler 1: queued `io_event_setter`
   l, l, l,                                  -- poll returns, next run_one, handler 0 popped
   .op (.cancelIo (some 0)),                 -- issued by handler 0: the canceler body runs directly
   l, l, l, l]                               -- handler 0 logged; setter popped and run; parked again

/-- **Counter-example to "cancelled or closed first ⇒ completed with the cancel code"** for an arm that is
still a queued functor (known finding `aio-queued-arm-overtaken-by-cancel-close`): the cancel issued *after*
the arm is executed *before* it, finds nothing, and handler 1 ends up armed, never queued, never invoked.
If the descriptor is then closed no event will ever complete it.  Replayed on the real loop on every run. -/
theorem cancel_overtakes_queued_arm_counterexample :
    let s := run init overtakeWitness
    (ioGet s.map 0).rd = some ⟨1, .io⟩ ∧ calls 1 s = 0 ∧ calls 0 s = 1 ∧ s.queue = [] ∧ s.running = none
      ∧ s.lost = [] ∧ s.phase = .polling := by
  decide +kernel

/-- third witness: timer 0 (slot 5, deadline 0) is expired by `run_one` and queued; before it runs a second
timer is armed and the slot search returns the now free slot 5; the owner of the first timer calls cancel with
its (stale) event id -/
def staleIdWitness : List Act :=
  let l : Act := .loop {}
  [l, l, .op (.setTimer 0 5), l, l, l, .op (.setTimer 200 5), .op (.cancelTimer 5), l, l, l, l, l, l, l, l]

/-- **Counter-example to "with a cancellation code only if it was cancelled"** (known finding
`aio-stale-timer-id-cancels-other-timer`): timer handler 1 (deadline 200, never cancelled by anybody, clock
still 0) is invoked with `canceled`, because `cancel_timer_event` was given the id of timer 0, which had
already fired; handler 0 still runs once, with success. -/
theorem stale_timer_id_cancels_other_counterexample :
    let s := run init staleIdWitness
    s.log.map (fun e => (e.tok.id, e.code)) = [(0, .ok), (1, .canceled)] ∧ s.clock = 0 ∧ s.timers = [] := by
  decide +kernel

/-- a step arms a slot that already holds a handler -/
def DoubleArmAt (s : St) (a : Act) : Prop :=
  (∃ fd e ok er, a = .op (.setIo (some fd) e ok er) ∧ ¬ (s.polling || !s.reactorUp) = true ∧ ok = true ∧
      (match e with | .rd => (ioGet s.map fd).rd | .wr => (ioGet s.map fd).wr) ≠ none)
  ∨ (∃ i fd e t, a = .loop i ∧ s.phase = .executing ∧ s.running = some (.setter (some fd) e t) ∧ i.selOk = true ∧
      (match e with | .rd => (ioGet s.map fd).rd | .wr => (ioGet s.map fd).wr) ≠ none)

/-- `NoDoubleArm s as`: along the history `as` from `s` no step arms an occupied slot -/
def NoDoubleArm : St → List Act → Prop
  | _, [] => True
  | s, a :: as => ¬ DoubleArmAt s a ∧ NoDoubleArm (step s a) as

theorem lost_step (s : St) (a : Act) (hn : ¬ DoubleArmAt s a) : (step s a).lost = s.lost := by
  have setter_lost : ∀ (s : St) fd e t ok er,
      (∀ f, fd = some f → ok = true → (match e with | .rd => (ioGet s.map f).rd | .wr => (ioGet s.map f).wr) = none) →
      (setterBody s fd e t ok er).lost = s.lost := by
    intro s fd e t ok er h
    unfold setterBody
    cases fd with
    | none => rfl
    | some f =>
      cases ok with
      | false => rfl
      | true =>
        have := h f rfl rfl
        cases e <;> simp_all
  cases a with
  | op o =>
    cases o with
    | setIo fd e ok er =>
      simp only [step, opStep]
      split
      · rfl
      · rename_i hq
        apply setter_lost
        intro f hf hok
        refine Classical.byContradiction fun hc => ?_
        apply hn
        left
        exact ⟨f, e, ok, er, by rw [hf], hq, hok, by simpa using hc⟩
    | cancelIo fd =>
      cases fd with
      | none => rfl
      | some fd => simp only [step, opStep]; split; rfl; split <;> rfl
    | setTimer d slot => simp only [step, opStep]; split <;> rfl
    | cancelTimer slot => simp only [step, opStep]; split <;> rfl
    | reset => simp only [step, opStep]; split <;> rfl
    | post => rfl
    | postEv c n => rfl
    | stop => rfl
  | loop i =>
    simp only [step]
    unfold loopStep
    split
    · rfl
    · split
      · split
        · rfl
        · unfold loopStep.afterDrain; dsimp only; split <;> rfl
      · unfold loopStep.afterDrain; dsimp only; split <;> rfl
    · rename_i hp
      split
      · rename_i q hq
        cases q with
        | fn t => rfl
        | ev t c n => rfl
        | canceler fd => rfl
        | setter fd e t =>
          simp only [execItem]
          apply setter_lost
          intro f hf hok
          refine Classical.byContradiction fun hc => ?_
          apply hn
          right
          exact ⟨i, f, e, t, rfl, hp, by rw [hq, hf], hok, by simpa using hc⟩
      · rfl
    · dsimp only
      split
      · rfl
      · have : ∀ (evs : List Event) (s : St), (evs.foldl dispatchFd s).lost = s.lost := by
          intro evs
          induction evs with
          | nil => intro s; rfl
          | cons e es ih => intro s; simp only [List.foldl_cons]; rw [ih]; rfl
        exact this _ _
    · rfl
    · rfl

/-- **No handler is silently destroyed** — *partial*: needs the explicit hypothesis `NoDoubleArm`
(the caller never arms a readable/writeable slot that still holds a handler).  The full statement
`∀ as, (run init as).lost = []` is false of the code: `double_arm_drops_first_counterexample`. -/
theorem no_loss_partial (as : List Act) (s : St) (hs : s.lost = []) (hn : NoDoubleArm s as) :
    (run s as).lost = [] := by
  induction as generalizing s with
  | nil => exact hs
  | cons a as ih =>
    simp only [run, List.foldl_cons]
    exact ih (step s a) (by rw [lost_step s a hn.1]; exact hs) hn.2

/-- the full statement that `no_loss_partial` cannot reach (refuted by the counter-example) -/
def FullNoLoss : Prop := ∀ as : List Act, (run init as).lost = []
theorem fullNoLoss_false : ¬ FullNoLoss := by
  intro h
  have := h d12Witness
  revert this
  decide +kernel

/-- **Exactly once or still pending** — *partial* (`NoDoubleArm`): after a history without double
arming and without `reset()`, every issued handler has either been invoked exactly once, or is
still held by the loop exactly once (queued / armed / timer / being executed).  Whether the pending
ones do run is `exactly_once_if_running`. -/
theorem invoked_or_pending_partial (as : List Act) (h : Nat) (hn : NoDoubleArm init as)
    (hd : (run init as).dropped = []) (hi : h < (run init as).next) :
    calls h (run init as) + (cnt h (queueToks (run init as).queue) + cnt h (runToks (run init as).running)
      + cnt h (mapToks (run init as).map) + cnt h ((run init as).timers.map (·.tok))) = 1 := by
  have hc := token_conservation as h
  have hl := no_loss_partial as init rfl hn
  unfold tc at hc
  unfold calls
  rw [hl, hd, if_pos hi] at hc
  simp at hc
  omega

example : NoDoubleArm init [.op (.setIo (some 3) .rd true .sysErr), .loop {}, .loop {}, .loop {}, .op (.setIo (some 3) .wr true .sysErr)] := by
  simp [NoDoubleArm, DoubleArmAt, step, opStep, loopStep, init, push, execItem, setterBody, ioGet, ioSet]


/-! ## with which code: success only when the event happened, `canceled` when cancelled first -/

/-- **A timer never fires early.** After any history, every log entry that records a timer handler
(deadline `d`) invoked with success carries a clock value ≥ `d`; `clock` is the largest `ptime::now()`
that `run_one` had read before the invocation (with a monotone clock: the invocation is not before the
deadline).  Posted handlers and I/O handlers are of a different kind and cannot be confused with it. -/
theorem timer_not_early (as : List Act) (e : LogEntry) (d : Nat)
    (he : e ∈ (run init as).log) (hk : e.tok.kind = .timer d) (hc : e.code = .ok) : d ≤ e.clock :=
  (TInv_run as init TInv_init).l e he d hk hc

/-- … and in every reachable state `run_one`'s expiry step queues **every** due timer (the table is sorted,
so the prefix it takes is all of them), each with success. -/
theorem due_timer_queued (as : List Act) (i : LoopInp) (t : Timer)
    (ht : t ∈ (run init as).timers) (hd : t.deadline ≤ i.now) (hs : (run init as).stop = false) :
    QItem.ev t.tok .ok 0 ∈ (loopStep.afterDrain (run init as) i).queue := by
  have hsorted := (TInv_run as init TInv_init).sorted
  have hdue := due_complete i.now _ hsorted t ht hd
  unfold loopStep.afterDrain
  simp only [hs, Bool.false_eq_true, if_false, List.mem_append, List.mem_map]
  exact Or.inr ⟨t, hdue, rfl⟩

/-- **Cancelling an armed timer** (one critical section): exactly that handler is queued with `canceled`,
behind everything already queued, and the timer is disarmed (so `run_one` cannot also expire it). -/
theorem cancel_timer_completes_canceled (s : St) (slot : Nat) (t : Timer)
    (h : s.timers.find? (·.slot == slot) = some t) :
    (opStep s (.cancelTimer slot)).queue = s.queue ++ [.ev t.tok .canceled 0] ∧
    (opStep s (.cancelTimer slot)).timers = removeSlot slot s.timers := by
  simp [opStep, h]

/-- **Cancelling / closing a descriptor**: the canceler body (run directly when the loop is not polling,
else queued as a functor and run by the drain loop) queues both armed handlers with `canceled` and leaves
both slots empty and the registration cleared; and `cancel_io_events` skips it only when nothing is armed
and nothing is queued. -/
theorem cancel_io_completes_canceled (s : St) (fd : Nat) :
    (cancelerBody s fd).queue = s.queue ++ optItem (ioGet s.map fd).rd .canceled ++ optItem (ioGet s.map fd).wr .canceled
    ∧ ioGet (cancelerBody s fd).map fd = {}
    ∧ (cancelNeeded s fd = false → (ioGet s.map fd).rd = none ∧ (ioGet s.map fd).wr = none)
    ∧ (cancelNeeded s fd = true → (s.polling || !s.reactorUp) = false → opStep s (.cancelIo (some fd)) = cancelerBody s fd)
    ∧ (cancelNeeded s fd = true → (s.polling || !s.reactorUp) = true → opStep s (.cancelIo (some fd)) = push s (.canceler fd)) := by
  refine ⟨rfl, ?_, ?_, ?_, ?_⟩
  · unfold cancelerBody
    simp [ioGet_ioSet, afterTake, Gen.cancelerReadableMoves, Gen.cancelerWriteableMoves]
  · intro h
    unfold cancelNeeded at h
    split at h
    · cases h
    · simp at h
      exact ⟨h.1.2, h.2⟩
  · intro h1 h2; simp [opStep, h1, h2]
  · intro h1 h2; simp [opStep, h1, h2]

/-- **The code a completion was queued with is the code it is invoked with**: popping moves the head of the
queue unchanged into the loop thread's local, and the next step of the loop thread logs exactly it. -/
theorem queued_code_is_final (s : St) (i i' : LoopInp) (q : QItem) (rest : List QItem)
    (hq : s.queue = q :: rest) (hp : s.phase = .draining) (hs : s.stop = false) (hc : s.counter > 0) :
    (loopStep s i).running = some q ∧ (loopStep s i).queue = rest ∧
    (match q with
     | .ev t c n => (loopStep (loopStep s i) i').log = s.log ++ [⟨t, c, n, s.clock⟩]
     | .fn t => (loopStep (loopStep s i) i').log = s.log ++ [⟨t, .ok, 0, s.clock⟩]
     | _ => True) := by
  have h1 : loopStep s i = { s with queue := rest, running := some q, phase := .executing } := by
    simp [loopStep, hp, hq, hs, hc]
  refine ⟨by rw [h1], by rw [h1], ?_⟩
  cases q with
  | fn t => rw [h1]; simp [loopStep, execItem]
  | ev t c n => rw [h1]; simp [loopStep, execItem]
  | setter fd e t => trivial
  | canceler fd => trivial

/-- **A reported event dispatches the armed handler**: if poll reports descriptor `fd` readable (or in error)
and a readable handler is armed, it is queued — with success, or `select_failed` for an error event — and the
slot is emptied; same for writeable. -/
theorem ready_dispatches (s : St) (e : Event) (t : Tok) (hsel : e.selOk = true) :
    ((ioGet s.map e.fd).rd = some t → (e.rd = true ∨ e.err = true) →
        QItem.ev t (if e.err then .selectFailed else .ok) 0 ∈ (dispatchFd s e).queue ∧
        (ioGet (dispatchFd s e).map e.fd).rd = none) ∧
    ((ioGet s.map e.fd).wr = some t → (e.wr = true ∨ e.err = true) →
        QItem.ev t (if e.err then .selectFailed else .ok) 0 ∈ (dispatchFd s e).queue ∧
        (ioGet (dispatchFd s e).map e.fd).wr = none) := by
  constructor
  · intro hrd hev
    unfold dispatchFd
    simp only [ioGet_ioSet, hsel, hrd]
    rcases hev with hev | hev <;> simp [hev, optItem, afterTake, Gen.dispatchReadableMoves]
  · intro hwr hev
    unfold dispatchFd
    simp only [ioGet_ioSet, hsel, hwr]
    rcases hev with hev | hev <;> simp [hev, optItem, afterTake, Gen.dispatchWriteableMoves]

/-! ## the reactor answer is not a free parameter: kernel report → reactor event → dispatch -/

/-- Table obligation (regenerated from reactor.cpp for epoll, poll and select): every kernel report over the bits
IN, PRI, OUT, ERR, HUP (for select: read/write/except set membership) that ends a wait for readability
(`readDone`: IN, ERR or HUP) is translated to a reactor event carrying `in` or `err`, and every report that ends a
wait for writability to one carrying `out` or `err`; in particular a bare hang-up is never translated to the
empty event. -/
theorem kernel_report_not_lost (b : Backend) (k : Fin 32) :
    (k.val &&& readDone b ≠ 0 → (kernelToEvent b 0 k.val).rd = true ∨ (kernelToEvent b 0 k.val).err = true) ∧
    (k.val &&& writeDone b ≠ 0 → (kernelToEvent b 0 k.val).wr = true ∨ (kernelToEvent b 0 k.val).err = true) := by
  cases b <;> (revert k; decide +kernel)

/-- … and a registration for `in` / `out` requests exactly the kernel's readable / writable bit. -/
theorem registration_requests_armed_bits (b : Backend) :
    applyTable (fromUserTable b) Gen.userIn = kernelIn b ∧ applyTable (fromUserTable b) Gen.userOut = kernelOut b ∧
    applyTable (fromUserTable b) (Gen.userIn ||| Gen.userOut) = kernelIn b ||| kernelOut b := by
  cases b <;> decide

/-- **Every kernel ready / hang-up / error report on an armed descriptor dispatches the armed handler**, on each
back-end: composing the generated translation table with run_one's dispatch loop, the readable handler is queued
(with success, or `select_failed` when the translated event carries `err`) and its slot emptied; same for the
writeable handler. -/
theorem kernel_report_dispatches (b : Backend) (s : St) (fd k : Nat) (t : Tok) (hk : k < 32) :
    ((ioGet s.map fd).rd = some t → k &&& readDone b ≠ 0 →
        (∃ c, QItem.ev t c 0 ∈ (dispatchFd s (kernelToEvent b fd k)).queue) ∧
        (ioGet (dispatchFd s (kernelToEvent b fd k)).map fd).rd = none) ∧
    ((ioGet s.map fd).wr = some t → k &&& writeDone b ≠ 0 →
        (∃ c, QItem.ev t c 0 ∈ (dispatchFd s (kernelToEvent b fd k)).queue) ∧
        (ioGet (dispatchFd s (kernelToEvent b fd k)).map fd).wr = none) := by
  have hnl := kernel_report_not_lost b ⟨k, hk⟩
  have hrd := ready_dispatches s (kernelToEvent b fd k) t rfl
  constructor
  · intro harm hdone
    have := hrd.1 harm (hnl.1 hdone)
    exact ⟨⟨_, this.1⟩, this.2⟩
  · intro harm hdone
    have := hrd.2 harm (hnl.2 hdone)
    exact ⟨⟨_, this.1⟩, this.2⟩

/-! ## epoll: the cache is what the kernel has registered -/

/-- cache = kernel's interest set for every open descriptor; closed numbers are not registered; a registered set is
never empty -/
def EpInv (e : Epoll) : Prop :=
  ∀ fd, (e.isOpen fd = true → e.cache fd = kflags e fd) ∧ (e.isOpen fd = false → e.kreg fd = none) ∧
        (∀ f, e.kreg fd = some f → f ≠ 0)

/-- `select` always records the requested interest set, also when `epoll_ctl` failed (DEL on a descriptor the
application closed already) — so a number whose cancel has been processed is clean again. -/
theorem epoll_select_records (e : Epoll) (fd flags : Nat) : (epSelect e fd flags).1.cache fd = flags := by
  simp [epSelect, Gen.epollRecordsOnError, upd]

theorem ctl_frame (e : Epoll) (fd flags g : Nat) (hg : g ≠ fd) :
    (ctlDel e fd).1 g = e.kreg g ∧ (ctlAdd e fd flags).1 g = e.kreg g ∧ (ctlMod e fd flags).1 g = e.kreg g := by
  refine ⟨?_, ?_, ?_⟩
  · simp only [ctlDel]; split <;> simp [upd, hg]
  · simp only [ctlAdd]; split <;> simp [upd, hg]
  · simp only [ctlMod]; split <;> simp [upd, hg]

/-- the kernel's table after `select`, as a function of the decision taken -/
def kregAfter (e : Epoll) (fd flags : Nat) : (Nat → Option Nat) × Bool :=
  if e.cache fd ≠ 0 ∧ flags = 0 then ctlDel e fd
  else if e.cache fd = 0 ∧ flags ≠ 0 then ctlAdd e fd flags
  else if e.cache fd ≠ flags then ctlMod e fd flags
  else (e.kreg, true)

theorem epSelect_eq (e : Epoll) (fd flags : Nat) :
    epSelect e fd flags = ({ e with kreg := (kregAfter e fd flags).1, cache := upd e.cache fd flags }, (kregAfter e fd flags).2) := by
  simp [epSelect, kregAfter, Gen.epollRecordsOnError]

theorem kregAfter_frame (e : Epoll) (fd flags g : Nat) (hg : g ≠ fd) : (kregAfter e fd flags).1 g = e.kreg g := by
  obtain ⟨h1, h2, h3⟩ := ctl_frame e fd flags g hg
  unfold kregAfter
  split
  · exact h1
  · split
    · exact h2
    · split
      · exact h3
      · rfl

/-- On an open descriptor, under the invariant, the decision DEL/ADD/MOD is the right one: the call succeeds and the
kernel ends up with exactly the requested interest set (so an armed wait really is registered). -/
theorem epoll_select_on_open_fd (e : Epoll) (hi : EpInv e) (fd flags : Nat) (ho : e.isOpen fd = true) :
    (epSelect e fd flags).2 = true ∧ kflags (epSelect e fd flags).1 fd = flags := by
  obtain ⟨h1, _, h3⟩ := hi fd
  have hc := h1 ho
  rw [epSelect_eq]
  simp only [kflags, kregAfter] at *
  cases hk : e.kreg fd with
  | none =>
    simp [hk] at hc
    by_cases hf : flags = 0
    · simp [hc, hf, hk]
    · simp [hc, hf, ctlAdd, ho, hk, upd]
  | some f =>
    have hf0 := h3 f hk
    simp [hk] at hc
    by_cases hf : flags = 0
    · simp [hc, hf, hf0, ctlDel, ho, hk, upd]
    · by_cases hfe : f = flags
      · simp [hc, hf, hfe, hk]
      · simp [hc, hf, hf0, hfe, ctlMod, ho, hk, upd]

/-- a registered interest set is never empty, also after `select` -/
theorem kregAfter_nonzero (e : Epoll) (hi : EpInv e) (fd flags g f : Nat)
    (hf : (kregAfter e fd flags).1 g = some f) : f ≠ 0 := by
  by_cases hg : g = fd
  · subst hg
    obtain ⟨_, _, h3⟩ := hi g
    unfold kregAfter at hf
    split at hf
    · simp only [ctlDel] at hf
      split at hf
      · simp [upd] at hf
      · exact h3 f hf
    · split at hf
      · rename_i hc
        simp only [ctlAdd] at hf
        split at hf
        · simp [upd] at hf; rw [← hf]; exact hc.2
        · exact h3 f hf
      · split at hf
        · rename_i hn1 hn2 hc
          simp only [ctlMod] at hf
          split at hf
          · simp [upd] at hf
            intro h0
            rw [← hf] at h0
            -- flags = 0: then either the DEL branch or cache = 0 = flags
            by_cases hc0 : e.cache g = 0
            · exact hc (by rw [hc0, h0])
            · exact hn1 ⟨hc0, h0⟩
          · exact h3 f hf
        · exact h3 f hf
  · rw [kregAfter_frame e fd flags g hg] at hf
    exact (hi g).2.2 f hf

theorem epInv_step (e : Epoll) (o : EpOp) (hi : EpInv e) : EpInv (epStep e o) := by
  cases o with
  | sel fd fl =>
    show EpInv (epSelect e fd fl).1
    intro g
    refine ⟨?_, ?_, ?_⟩
    · intro ho
      by_cases hg : g = fd
      · subst hg
        have ho' : e.isOpen g = true := by rw [epSelect_eq] at ho; exact ho
        rw [epoll_select_records, (epoll_select_on_open_fd e hi g fl ho').2]
      · rw [epSelect_eq] at ho ⊢
        simp only [kflags, upd, hg, if_false]
        rw [kregAfter_frame e fd fl g hg]
        exact (hi g).1 ho
    · intro hc
      rw [epSelect_eq] at hc ⊢
      have hk := (hi g).2.1 hc
      by_cases hg : g = fd
      · subst hg
        have hc' : e.isOpen g = false := hc
        simp only [kregAfter, ctlDel, ctlAdd, ctlMod, hc', hk]
        split <;> (try split) <;> (try split) <;> simp_all [upd]
      · simp only []
        rw [kregAfter_frame e fd fl g hg]; exact hk
    · intro f hf
      rw [epSelect_eq] at hf
      exact kregAfter_nonzero e hi fd fl g f hf
  | closeFd fd =>
    intro g
    obtain ⟨h1, h2, h3⟩ := hi g
    by_cases hg : g = fd
    · subst hg; simp [epStep, upd, kflags]
    · simp [epStep, upd, hg, kflags]; exact ⟨h1, h2, h3⟩
  | reuse fd =>
    simp only [epStep]
    split
    · rename_i hc
      intro g
      obtain ⟨h1, h2, h3⟩ := hi g
      by_cases hg : g = fd
      · subst hg
        have := h2 hc.1
        simp [upd, kflags, this, hc.2]
      · simp [upd, hg, kflags]; exact ⟨h1, h2, h3⟩
    · exact hi

/-- **Invariant**: along every history of reactor requests, application closes and number re-use (after the cancel
was processed), the epoll cache equals the kernel's interest set on every open descriptor. -/
theorem epoll_cache_invariant (opened : Nat → Bool) (ops : List EpOp) : EpInv (epRun (epInit opened) ops) := by
  have h0 : EpInv (epInit opened) := by
    intro fd; simp [epInit, kflags]
  generalize epInit opened = e at h0
  induction ops generalizing e with
  | nil => exact h0
  | cons o os ih => simp only [epRun, List.foldl_cons]; exact ih _ (epInv_step e o h0)

/-- **Consequence for re-used descriptor numbers**: a wait is registered on `fd`; the application closes the
descriptor before the loop's EPOLL_CTL_DEL (which then fails); the cancel is processed; a new descriptor gets the
same number and a wait (`g ≠ 0`) is armed on it: the kernel now holds exactly that interest set — the new wait is
really registered, with EPOLL_CTL_ADD, without error. -/
theorem epoll_reused_fd_is_registered (e : Epoll) (hi : EpInv e) (fd g : Nat) (hg : g ≠ 0) :
    let e' := epRun e [.closeFd fd, .sel fd 0, .reuse fd]
    e'.isOpen fd = true ∧ (epSelect e' fd g).2 = true ∧ kflags (epSelect e' fd g).1 fd = g := by
  intro e'
  have hinv : EpInv e' := by
    show EpInv (epStep (epStep (epStep e (.closeFd fd)) (.sel fd 0)) (.reuse fd))
    exact epInv_step _ _ (epInv_step _ _ (epInv_step _ _ hi))
  have hopen : e'.isOpen fd = true := by
    have hc : (epStep (epStep e (.closeFd fd)) (.sel fd 0)).cache fd = 0 := epoll_select_records _ fd 0
    have ho : (epStep (epStep e (.closeFd fd)) (.sel fd 0)).isOpen fd = false := by
      show (epSelect (epStep e (.closeFd fd)) fd 0).1.isOpen fd = false
      rw [epSelect_eq]
      simp [epStep, upd]
    show (epStep (epStep (epStep e (.closeFd fd)) (.sel fd 0)) (.reuse fd)).isOpen fd = true
    generalize epStep (epStep e (.closeFd fd)) (.sel fd 0) = e2 at hc ho
    simp only [epStep]
    rw [if_pos ⟨ho, hc⟩]
    simp [upd]
  exact ⟨hopen, epoll_select_on_open_fd e' hinv fd g hopen⟩

example : EpInv (epRun (epInit fun _ => true) [.sel 7 1, .closeFd 7, .sel 7 0, .reuse 7, .sel 7 1]) :=
  epoll_cache_invariant _ _

/-! ## the device wrappers above the loop (basic_io_device / stream_socket / acceptor) -/

/-- **On error: post the handler once and return without arming.**  Generated from the source: both `dont_block`
overloads post the handler exactly once on their error branch and return false; every asynchronous entry point
(`async_read_some`, `async_write_some`, `async_connect`, `async_read`, `async_write`, `acceptor::async_accept`) starts
with `if(!dont_block(h)) return;`; and every branch after that guard schedules the handler exactly once: either one
posted completion, or one armed wait / continuation object (never both, never none). -/
theorem device_error_path_completes_once :
    Gen.dontBlockEvPostsOnError = 1 ∧ Gen.dontBlockEvReturnsOnError = false ∧
    Gen.dontBlockIoPostsOnError = 1 ∧ Gen.dontBlockIoReturnsOnError = false ∧
    (∀ e ∈ Gen.deviceEntries, e.2.2.1 = true ∧ ∀ br ∈ e.2.2.2, br.1 + br.2 = 1) ∧
    Gen.deviceEntries.length = 6 := by
  decide

/-- completions scheduled for the handler when an entry point is called on an unusable descriptor, computed from the
generated shapes: the guard's posts, plus — if the guard does not stop the call — what the continuing branch schedules -/
def completionsOnBadDescriptor (posts : Nat) (returns : Bool) (guard : Bool) (branch : Nat × Nat) : Nat :=
  if guard then (if returns then posts + branch.1 + branch.2 else posts) else branch.1 + branch.2

theorem bad_descriptor_completes_exactly_once :
    ∀ e ∈ Gen.deviceEntries, ∀ br ∈ e.2.2.2,
      completionsOnBadDescriptor (if e.2.1 = "ev" then Gen.dontBlockEvPostsOnError else Gen.dontBlockIoPostsOnError)
        (if e.2.1 = "ev" then Gen.dontBlockEvReturnsOnError else Gen.dontBlockIoReturnsOnError) e.2.2.1 br = 1 := by
  decide

/-- **Every path through a completion functor completes once**: regenerated from `stream_socket.cpp` /
`acceptor.cpp` (`reader_some`, `writer_some`, `async_connector`, `reader_all`/`writer_all` incl. their `run()`,
`async_acceptor`): on every path through the if/else tree with its early returns, the user's handler is called (or
posted) exactly once and nothing is re-armed, or exactly one wait is re-armed / the continuation restarted once and
the handler is not called — never both, never twice, never neither. -/
theorem completion_functor_paths_complete_once :
    (∀ f ∈ Gen.functorPaths, f.2 ≠ [] ∧ ∀ p ∈ f.2, (p.1 = 1 ∧ p.2 = 0) ∨ (p.1 = 0 ∧ p.2 = 1)) ∧
    Gen.functorPaths.length = 8 ∧
    -- which branch is which: an error passed in completes; after the read/write, "nothing transferred and the error is
    -- would-block" re-arms, anything else (success, data, another error) completes; the "all" loops complete when the
    -- buffer is done or on an error other than would-block; a would-block accept restarts the accept
    Gen.functorConds =
      [("reader_some", ["e", "n==0&&err&&basic_io_device::would_block(err)"]),
       ("writer_some", ["e", "n==0&&err&&basic_io_device::would_block(err)"]),
       ("reader_all", ["e", "buf.empty()||(err&&!basic_io_device::would_block(err))"]),
       ("writer_all", ["e", "buf.empty()||(err&&!basic_io_device::would_block(err))"]),
       ("async_acceptor", ["e", "basic_io_device::would_block(reserr)"])] ∧
    Gen.closeCancelsBeforeOwnerTest = true := by
  decide

/-! ## exactly once, if the loop keeps running -/

/-- **Exactly once under fairness.**  Take any reachable state in which the loop has not been stopped and a
completion `q` (a posted handler, or an event handler with its code: success because its event happened,
`canceled` because it was cancelled, an error) sits in the dispatch queue with `k` items in front of it.
Let the history continue in any way such that nobody calls `stop()`/`reset()` and the loop thread gets to
take a step after every finite batch of other threads' operations (`fairActs`), at least `2k+6` times.
Then `q` has been invoked with exactly the arguments it was queued with — and, by `at_most_once`, exactly
once. -/
theorem exactly_once_if_running (as : List Act) (q : QItem) (k : Nat) (rounds : List (List Op × LoopInp))
    (hq : ∃ pre post, (run init as).queue = pre ++ q :: post ∧ pre.length = k)
    (hlive : (run init as).stop = false ∧ (run init as).phase ≠ .stopped ∧ (run init as).phase ≠ .failed)
    (hlen : 2 * k + 6 ≤ rounds.length)
    (ho : ∀ r ∈ rounds, ∀ o ∈ r.1, KeepsRunning o) :
    logged q (run init (as ++ fairActs rounds)) ∧
    (∀ t c n, q = .ev t c n → calls t.id (run init (as ++ fairActs rounds)) = 1) ∧
    (∀ t, q = .fn t → calls t.id (run init (as ++ fairActs rounds)) = 1) := by
  have hlog : logged q (run init (as ++ fairActs rounds)) := by
    rw [run_append]
    exact fair_progress_loop q (2 * k + 6) rounds _ (some k) hq hlive (need_le _ k) hlen ho
  have hone : ∀ (t : Tok) (e : LogEntry), e.tok = t → e ∈ (run init (as ++ fairActs rounds)).log →
      calls t.id (run init (as ++ fairActs rounds)) = 1 := by
    intro t e het he
    have hle := at_most_once (as ++ fairActs rounds) t.id
    have hpos : 1 ≤ calls t.id (run init (as ++ fairActs rounds)) := by
      unfold calls cnt
      apply List.countP_pos_iff.2
      exact ⟨e.tok, List.mem_map.2 ⟨e, he, rfl⟩, by simp [het]⟩
    omega
  refine ⟨hlog, ?_, ?_⟩
  · intro t c n hqe
    rw [hqe] at hlog
    obtain ⟨clk, hc⟩ := hlog
    exact hone t _ rfl hc
  · intro t hqe
    rw [hqe] at hlog
    obtain ⟨clk, hc⟩ := hlog
    exact hone t _ rfl hc

example : ∃ pre post, (run init [.op .post, .op .post]).queue = pre ++ QItem.fn ⟨1, .plain⟩ :: post ∧ pre.length = 1 :=
  ⟨[.fn ⟨0, .plain⟩], [], rfl, rfl⟩

/-! ## thread pool -/

/-- **Job conservation**: after any history of posts, cancels, stops and worker steps (any number of
workers, any interleaving), every job id issued so far is in exactly one place: queued, held by the worker
that popped it, started (`ran`), or cancelled-with-`true`. -/
theorem job_conservation (n : Nat) (ops : List PoolOp) (id : Int) :
    pc id (poolRun (poolInit n) ops) = if 0 ≤ id ∧ id < ((poolRun (poolInit n) ops).jobId : Int) then 1 else 0 :=
  poolConserved_run ops _ (poolConserved_init n) id

/-- **A job runs at most once.** -/
theorem job_at_most_once (n : Nat) (ops : List PoolOp) (id : Int) :
    jcnt id (poolRun (poolInit n) ops).ran ≤ 1 := by
  have := job_conservation n ops id
  unfold pc at this
  split at this <;> omega

/-- **A job for which `cancel` returned true never runs** — neither before the cancel (it was still queued)
nor in any continuation of the history. -/
theorem cancel_true_never_runs (n : Nat) (ops more : List PoolOp) (id : Int)
    (htrue : (poolRun (poolInit n) ops).queue.any (·.id == id) = true) :
    jcnt id (poolRun (poolInit n) (ops ++ [.cancel id] ++ more)).ran = 0 := by
  have hmono : ∀ (l : List PoolOp) (p : Pool), icnt id p.cancelled ≤ icnt id (poolRun p l).cancelled := by
    intro l
    induction l with
    | nil => intro p; exact Nat.le_refl _
    | cons o os ih =>
      intro p
      simp only [poolRun, List.foldl_cons]
      refine Nat.le_trans ?_ (ih _)
      cases o with
      | cancel k => simp only [poolStep]; split <;> simp
      | post th => exact Nat.le_refl _
      | stop => exact Nat.le_refl _
      | workerTake w =>
        simp only [poolStep]
        split
        · split
          · exact Nat.le_refl _
          · split <;> exact Nat.le_refl _
        · exact Nat.le_refl _
      | workerRun w =>
        simp only [poolStep]
        split
        · split <;> exact Nat.le_refl _
        · exact Nat.le_refl _
  have h1 : 1 ≤ icnt id (poolRun (poolInit n) (ops ++ [.cancel id])).cancelled := by
    simp only [poolRun, List.foldl_append, List.foldl_cons, List.foldl_nil]
    have : (List.foldl poolStep (poolInit n) ops).queue.any (·.id == id) = true := htrue
    simp [poolStep, this, icnt]
  have h2 : 1 ≤ icnt id (poolRun (poolInit n) (ops ++ [.cancel id] ++ more)).cancelled := by
    have := hmono more (poolRun (poolInit n) (ops ++ [.cancel id]))
    have e : poolRun (poolRun (poolInit n) (ops ++ [.cancel id])) more = poolRun (poolInit n) (ops ++ [.cancel id] ++ more) := by
      simp [poolRun, List.foldl_append]
    rw [e] at this
    omega
  have := job_conservation n (ops ++ [.cancel id] ++ more) id
  unfold pc at this
  split at this <;> omega

/-- **An exception escaping a job does not stop the pool**: whatever the job does, the worker that ran it
has not exited, is idle again (its next step is the normal shutdown-test/pop), and the shutdown flag is
untouched. -/
theorem exception_does_not_stop_pool (p : Pool) (w : Nat) (j : Job) (h : p.workers.getD w none = some j) :
    (poolStep p (.workerRun w)).exited = p.exited ∧ (poolStep p (.workerRun w)).workers = p.workers.set w none
    ∧ (poolStep p (.workerRun w)).shutDown = p.shutDown ∧ (poolStep p (.workerRun w)).ran = p.ran ++ [j]
    ∧ (poolStep p (.workerRun w)).queue = p.queue := by
  simp only [poolStep]
  rw [h]
  simp [Gen.workerCatchesAll]

/-- **Exactly once if the pool keeps running and the job is not cancelled** (fairness): a job queued with at
most `i` jobs in front of it has run exactly once after `i+1` take/run cycles of any live idle worker `w`,
whatever clients post and whichever *other* jobs they cancel in between (also when jobs in front of it
throw). -/
theorem exactly_once_if_running_and_not_cancelled (n : Nat) (ops : List PoolOp) (j : Job) (w i : Nat)
    (rounds : List (List PoolOp))
    (hr : Ready w (poolRun (poolInit n) ops)) (hq : QueuedWithin j i (poolRun (poolInit n) ops))
    (hlen : i + 1 ≤ rounds.length) (ho : ∀ ext ∈ rounds, ∀ o ∈ ext, ClientOp j.id o) :
    jcnt j.id (fairRun w (poolRun (poolInit n) ops) rounds).ran = 1 := by
  have h1 := fair_progress j w i rounds _ hr hq hlen ho
  -- the fair run is itself a history from the initial pool, so conservation bounds the count by one
  have hhist : ∀ (rs : List (List PoolOp)) (p : Pool), PoolConserved p → PoolConserved (fairRun w p rs) := by
    intro rs
    induction rs with
    | nil => intro p hp; exact hp
    | cons ext more ih =>
      intro p hp
      simp only [fairRun]
      exact ih _ (poolConserved_step _ _ (poolConserved_step _ _ (poolConserved_run ext p hp)))
  have h2 := hhist rounds _ (poolConserved_run ops _ (poolConserved_init n)) j.id
  unfold pc at h2
  split at h2 <;> omega

example : Ready 0 (poolRun (poolInit 1) [.post true, .post false]) ∧
    QueuedWithin ⟨1, false⟩ 1 (poolRun (poolInit 1) [.post true, .post false]) := by
  refine ⟨⟨rfl, by decide, rfl, rfl⟩, ⟨[⟨0, true⟩], [], rfl, by decide⟩⟩

end Cppcms.C17.Props
