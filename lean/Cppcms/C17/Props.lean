import Cppcms.C17.Lemmas
import Cppcms.C17.Spec
/-!
# C17 — property theorems

"Each handler given to the event loop is invoked exactly once, on the thread that runs the
loop … Each job posted to the worker pool runs at most once, exactly once if the pool keeps
running and the job was not successfully cancelled, and an exception escaping a job does not
stop the pool."

All statements quantify over **every** history `as : List Act` (any number of threads issuing
any operations in any order, interleaved with the loop thread's own critical sections), from
the initial state.  `Gen.lean` (regenerated from the C++ on every run) supplies which
`completion_handler` overload each site selects, the lock tables and the shape flags.
-/
namespace Cppcms.C17.Props
open Cppcms Cppcms.C17

/-! ## tie obligations on the generated tables -/

/-- Every method of `event_loop_impl` (and of its functors) either constructs the lock guard on
`data_mutex_` as its first statement, or does not mention any member the mutex protects, or is
`reset()` (documented: not to be called while `run()` executes — `Op.reset` is only enabled
then), or is one of the private helpers that are only called with the lock held. -/
theorem lock_discipline :
    (∀ m ∈ Gen.loopLockTable, m.2.1 = true ∨ m.2.2 = false ∨ m.1 = "reset()" ∨
        Gen.unlockedHelpers.any (fun h => m.1.startsWith (h ++ "(") || m.1.endsWith ("::" ++ h ++ "()")) = true)
    ∧ (∀ e ∈ Gen.helperCallEdges,
        (Gen.loopLockTable.any fun m => m.1 == e.1 && m.2.1) = true ∨
        Gen.unlockedHelpers.any (fun h => e.1.startsWith (h ++ "(")) = true)
    ∧ (∀ m ∈ Gen.poolLockTable, m.2.1 = true ∨ m.2.2 = false ∨ m.1 = "worker()") := by
  decide +kernel

/-- The sites that take a stored callback out of the descriptor table select the moving overload,
posts copy the caller's callback, and the source shapes the hand-written control flow relies on
were found by the extractor. -/
theorem generated_shapes :
    Gen.cancelerReadableMoves = true ∧ Gen.cancelerWriteableMoves = true ∧
    Gen.dispatchReadableMoves = true ∧ Gen.dispatchWriteableMoves = true ∧
    Gen.cancelTimerMoves = true ∧ Gen.expireTimerMoves = true ∧ Gen.setterErrorMoves = true ∧
    Gen.postCopies = true ∧ Gen.loopShapesChecked = true ∧ Gen.poolShapesChecked = true ∧
    Gen.workerRemovesJobUnderLock = true ∧ Gen.workerCatchesAll = true := by
  decide

/-! ## token conservation ⇒ at most once -/

/-- **Token conservation.** After any history, every handler id issued so far is referenced
exactly once in the whole state — queued (possibly inside a queued setter functor), being
executed, armed in the descriptor table, armed as a timer, executed (in the log), destroyed by
`reset()`, or destroyed by a slot overwrite (`lost`, see `no_loss_partial`) — and ids not yet
issued are referenced nowhere. -/
theorem token_conservation (as : List Act) (h : Nat) :
    tc h (run init as) = if h < (run init as).next then 1 else 0 :=
  (conserved_run as init conserved_init.1 conserved_init.2).1 h

/-- number of invocations of handler id `h` recorded in the log -/
def calls (h : Nat) (s : St) : Nat := cnt h (s.log.map (·.tok))

/-- **At most once**: no history makes the loop invoke a handler twice. -/
theorem at_most_once (as : List Act) (h : Nat) : calls h (run init as) ≤ 1 := by
  have := token_conservation as h
  unfold tc at this
  unfold calls
  split at this <;> omega

/-- An executed handler is referenced nowhere else any more: not queued, not armed, so it can
never run again (and an armed or queued one has not run yet). -/
theorem executed_is_gone (as : List Act) (h : Nat) (hx : calls h (run init as) = 1) :
    cnt h (queueToks (run init as).queue) = 0 ∧ cnt h (mapToks (run init as).map) = 0 ∧
    cnt h ((run init as).timers.map (·.tok)) = 0 ∧ cnt h (runToks (run init as).running) = 0 := by
  have := token_conservation as h
  unfold tc at this
  unfold calls at hx
  split at this <;> omega

/-! ## on the loop thread -/

/-- **Handlers run only on the loop thread**: no operation issued through the public API by any
thread (post, timers, set/cancel I/O events — even when `set_event` runs the functor directly on
the caller's thread —, stop, reset) ever invokes a handler; … -/
theorem ops_never_invoke (s : St) (o : Op) : (opStep s o).log = s.log := by
  cases o with
  | setIo fd e ok er =>
    simp only [opStep]
    split
    · rfl
    · exact (setterBody_frame _ fd e _ ok er).2.2
  | cancelIo fd =>
    cases fd with
    | none => rfl
    | some fd =>
      simp only [opStep]
      split
      · rfl
      · split
        · rfl
        · exact (cancelerBody_frame s fd).2.2
  | setTimer d slot => simp only [opStep]; split <;> rfl
  | cancelTimer slot => simp only [opStep]; split <;> rfl
  | reset => simp only [opStep]; split <;> rfl
  | post => rfl
  | postEv c n => rfl
  | stop => rfl

/-- … and the loop thread invokes one only in the `executing` step of `run_one`'s drain loop, i.e.
with the mutex released, the popped `completion_handler` in its local variable. -/
theorem runs_on_loop_thread (s : St) (i : LoopInp) (hne : (loopStep s i).log ≠ s.log) :
    s.phase = .executing ∧ ∃ t c n, (s.running = some (.ev t c n) ∨ (s.running = some (.fn t) ∧ c = .ok ∧ n = 0)) ∧
      (loopStep s i).log = s.log ++ [⟨t, c, n, s.clock⟩] := by
  unfold loopStep at hne ⊢
  split at hne
  · exact absurd rfl hne
  · split at hne
    · split at hne
      · exact absurd rfl hne
      · exfalso; apply hne; unfold loopStep.afterDrain; dsimp only; split <;> rfl
    · exfalso; apply hne; unfold loopStep.afterDrain; dsimp only; split <;> rfl
  · rename_i hp
    refine ⟨hp, ?_⟩
    split at hne
    · rename_i q hq
      cases q with
      | fn t => exact ⟨t, .ok, 0, Or.inr ⟨hq, rfl, rfl⟩, by simp [hp, hq, execItem]⟩
      | ev t c n => exact ⟨t, c, n, Or.inl hq, by simp [hp, hq, execItem]⟩
      | setter fd e t =>
        exfalso; apply hne
        simp only [execItem]
        exact (setterBody_frame s fd e t i.selOk i.selErr).2.2
      | canceler fd =>
        exfalso; apply hne
        simp only [execItem]
        exact (cancelerBody_frame s fd).2.2
    · exact absurd rfl hne
  · exfalso; apply hne
    dsimp only
    split
    · rfl
    · exact (dispatchAll_frame i.events _).2
  · exact absurd rfl hne
  · exact absurd rfl hne

/-! ## D12: a second handler armed on an occupied slot silently destroys the first -/

/-- the history of the witness: run() parks in poll; two `on_readable` on descriptor 0 from another
thread; the peer writes; three more `run_one` iterations with descriptor 0 reported readable -/
def d12Witness : List Act :=
  let l : Act := .loop {}
  let lr : Act := .loop { events := [{ fd := 0, rd := true, wr := false, err := false }] }
  [l, l,                                   -- run_one: lock … unlock before poll
   .op (.setIo (some 0) .rd true .sysErr),  -- handler 0
   .op (.setIo (some 0) .rd true .sysErr),  -- handler 1, same slot
   l, l, l, l, l, l, l,                     -- next run_one: both queued setters executed, parked again
   lr, l, l, l, l]                          -- readable reported: dispatched, executed, parked again

/-- **Counter-example to the unrestricted "exactly once"** (known finding
`aio-double-arm-drops-handler`): after the witness history handler 0 has never been invoked, is
neither armed nor queued any more — it was destroyed by `map_[fd].readable = h` — while handler 1
ran once.  Replayed on the real loop on every run. -/
theorem double_arm_drops_first_counterexample :
    let s := run init d12Witness
    calls 0 s = 0 ∧ calls 1 s = 1 ∧ s.queue = [] ∧ s.running = none ∧ mapToks s.map = [] ∧ s.timers = []
      ∧ s.lost.map (·.id) = [0] ∧ s.stop = false ∧ s.phase = .polling := by
  decide +kernel

/-- a step arms a slot that already holds a handler -/
def DoubleArmAt (s : St) (a : Act) : Prop :=
  (∃ fd e ok er, a = .op (.setIo (some fd) e ok er) ∧ ¬ (s.polling || !s.reactorUp) = true ∧ ok = true ∧
      (match e with | .rd => (ioGet s.map fd).rd | .wr => (ioGet s.map fd).wr) ≠ none)
  ∨ (∃ i fd e t, a = .loop i ∧ s.phase = .executing ∧ s.running = some (.setter (some fd) e t) ∧ i.selOk = true ∧
      (match e with | .rd => (ioGet s.map fd).rd | .wr => (ioGet s.map fd).wr) ≠ none)

/-- `NoDoubleArm s as`: along the history `as` from `s` no step arms an occupied slot -/
def NoDoubleArm : St → List Act → Prop
  | _, [] => True
  | s, a :: as => ¬ DoubleArmAt s a ∧ NoDoubleArm (step s a) as

theorem lost_step (s : St) (a : Act) (hn : ¬ DoubleArmAt s a) : (step s a).lost = s.lost := by
  have setter_lost : ∀ (s : St) fd e t ok er,
      (∀ f, fd = some f → ok = true → (match e with | .rd => (ioGet s.map f).rd | .wr => (ioGet s.map f).wr) = none) →
      (setterBody s fd e t ok er).lost = s.lost := by
    intro s fd e t ok er h
    unfold setterBody
    cases fd with
    | none => rfl
    | some f =>
      cases ok with
      | false => rfl
      | true =>
        have := h f rfl rfl
        cases e <;> simp_all
  cases a with
  | op o =>
    cases o with
    | setIo fd e ok er =>
      simp only [step, opStep]
      split
      · rfl
      · rename_i hq
        apply setter_lost
        intro f hf hok
        refine Classical.byContradiction fun hc => ?_
        apply hn
        left
        exact ⟨f, e, ok, er, by rw [hf], hq, hok, by simpa using hc⟩
    | cancelIo fd =>
      cases fd with
      | none => rfl
      | some fd => simp only [step, opStep]; split; rfl; split <;> rfl
    | setTimer d slot => simp only [step, opStep]; split <;> rfl
    | cancelTimer slot => simp only [step, opStep]; split <;> rfl
    | reset => simp only [step, opStep]; split <;> rfl
    | post => rfl
    | postEv c n => rfl
    | stop => rfl
  | loop i =>
    simp only [step]
    unfold loopStep
    split
    · rfl
    · split
      · split
        · rfl
        · unfold loopStep.afterDrain; dsimp only; split <;> rfl
      · unfold loopStep.afterDrain; dsimp only; split <;> rfl
    · rename_i hp
      split
      · rename_i q hq
        cases q with
        | fn t => rfl
        | ev t c n => rfl
        | canceler fd => rfl
        | setter fd e t =>
          simp only [execItem]
          apply setter_lost
          intro f hf hok
          refine Classical.byContradiction fun hc => ?_
          apply hn
          right
          exact ⟨i, f, e, t, rfl, hp, by rw [hq, hf], hok, by simpa using hc⟩
      · rfl
    · dsimp only
      split
      · rfl
      · have : ∀ (evs : List Event) (s : St), (evs.foldl dispatchFd s).lost = s.lost := by
          intro evs
          induction evs with
          | nil => intro s; rfl
          | cons e es ih => intro s; simp only [List.foldl_cons]; rw [ih]; rfl
        exact this _ _
    · rfl
    · rfl

/-- **No handler is silently destroyed** — *partial*: needs the explicit hypothesis `NoDoubleArm`
(the caller never arms a readable/writeable slot that still holds a handler).  The full statement
`∀ as, (run init as).lost = []` is false of the code: `double_arm_drops_first_counterexample`. -/
theorem no_loss_partial (as : List Act) (s : St) (hs : s.lost = []) (hn : NoDoubleArm s as) :
    (run s as).lost = [] := by
  induction as generalizing s with
  | nil => exact hs
  | cons a as ih =>
    simp only [run, List.foldl_cons]
    exact ih (step s a) (by rw [lost_step s a hn.1]; exact hs) hn.2

/-- the full statement that `no_loss_partial` cannot reach (refuted by the counter-example) -/
def FullNoLoss : Prop := ∀ as : List Act, (run init as).lost = []
theorem fullNoLoss_false : ¬ FullNoLoss := by
  intro h
  have := h d12Witness
  revert this
  decide +kernel

/-- **Exactly once or still pending** — *partial* (`NoDoubleArm`): after a history without double
arming and without `reset()`, every issued handler has either been invoked exactly once, or is
still held by the loop exactly once (queued / armed / timer / being executed).  Whether the pending
ones do run is `exactly_once_if_running`. -/
theorem invoked_or_pending_partial (as : List Act) (h : Nat) (hn : NoDoubleArm init as)
    (hd : (run init as).dropped = []) (hi : h < (run init as).next) :
    calls h (run init as) + (cnt h (queueToks (run init as).queue) + cnt h (runToks (run init as).running)
      + cnt h (mapToks (run init as).map) + cnt h ((run init as).timers.map (·.tok))) = 1 := by
  have hc := token_conservation as h
  have hl := no_loss_partial as init rfl hn
  unfold tc at hc
  unfold calls
  rw [hl, hd, if_pos hi] at hc
  simp at hc
  omega

example : NoDoubleArm init [.op (.setIo (some 3) .rd true .sysErr), .loop {}, .loop {}, .loop {}, .op (.setIo (some 3) .wr true .sysErr)] := by
  simp [NoDoubleArm, DoubleArmAt, step, opStep, loopStep, init, push, execItem, setterBody, ioGet, ioSet]

end Cppcms.C17.Props
