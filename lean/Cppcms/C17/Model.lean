import Cppcms.Common
import Cppcms.C17.Gen
/-!
# C17 model: booster::aio event loop (`event_loop_impl`) and `cppcms::impl::thread_pool`

State = what `data_mutex_` protects.  An *atomic step* = one critical section of the
code (one `lock_guard` scope, or one stretch of `run_one` between a lock and the
next unlock).  Steps may be issued by any thread in any order: a history is a list
of `Act`s; the loop thread's own program counter is the field `phase`, so that its
steps interleave freely with everybody else's `Op`s.

Handlers are opaque tokens (`Tok`, an id plus the kind of registration that issued
it).  A `booster::callback` is a reference-counted pointer: *moving* it out of a slot
(`completion_handler(event_handler &, …)`) leaves the slot empty, *copying*
(`completion_handler(event_handler const &, …)`) leaves a second reference behind.
Which of the two happens at each site is read from the compiler's overload
resolution by `translate/c17.py` (`Gen.*Moves`).

Ghost fields (never read by any step): `log` (executions, in order), `dropped`
(tokens destroyed by `reset()`), `lost` (tokens destroyed because a slot that held
them was overwritten), `clock` (largest `now` read by `run_one` so far).
-/
namespace Cppcms.C17

inductive Code | ok | canceled | selectFailed | badf | sysErr
  deriving DecidableEq, Repr, Inhabited

inductive Kind
  | plain                    -- io_service::post(...)
  | timer (deadline : Nat)   -- set_timer_event(deadline, h)
  | io                       -- set_io_event(fd, in|out, h)
  deriving DecidableEq, Repr, Inhabited

structure Tok where
  id : Nat
  kind : Kind
  deriving DecidableEq, Repr, Inhabited

inductive Ev | rd | wr
  deriving DecidableEq, Repr, Inhabited

/-- one element of `dispatch_queue_` (a `completion_handler`) -/
inductive QItem
  | fn (t : Tok)                                   -- user `handler` (void())
  | ev (t : Tok) (c : Code) (n : Nat)              -- event_handler / io_handler with its arguments
  | setter (fd : Option Nat) (e : Ev) (t : Tok)    -- queued `io_event_setter` functor (holds h)
  | canceler (fd : Nat)                            -- queued `io_event_canceler` functor
  deriving DecidableEq, Repr, Inhabited

/-- `io_data` -/
structure IoData where
  curIn : Bool := false
  curOut : Bool := false
  rd : Option Tok := none
  wr : Option Tok := none
  deriving DecidableEq, Repr, Inhabited

/-- one entry of `timer_events_` (kept sorted by deadline, insertion after equal keys) -/
structure Timer where
  deadline : Nat
  slot : Nat            -- `event_id`: index into `timer_events_index_`
  tok : Tok
  deriving DecidableEq, Repr, Inhabited

/-- program counter of the thread inside `io_service::run()` -/
inductive Phase
  | idle       -- outside run_one (before run(), or between two run_one calls): lock not held
  | draining   -- in the drain loop holding the lock, about to test the loop condition
  | executing  -- a popped completion_handler is being run with the lock released
  | polling    -- inside reactor_->poll, lock released, polling_ = true
  | stopped    -- run_one returned false, run() returned
  | failed     -- an exception left run() (poll error with an empty queue)
  deriving DecidableEq, Repr, Inhabited

structure LogEntry where
  tok : Tok
  code : Code
  n : Nat
  clock : Nat     -- ghost: `St.clock` when it ran
  deriving DecidableEq, Repr, Inhabited

structure St where
  queue : List QItem := []
  map : List IoData := []            -- `socket_map`: a vector indexed by fd
  timers : List Timer := []
  stop : Bool := false
  polling : Bool := false
  reactorUp : Bool := false          -- `reactor_.get() != 0`
  phase : Phase := .idle
  counter : Nat := 0                 -- local `counter` of run_one
  running : Option QItem := none     -- local `exec` of run_one
  next : Nat := 0                    -- ghost: number of tokens issued so far
  log : List LogEntry := []          -- ghost
  dropped : List Tok := []           -- ghost
  lost : List Tok := []              -- ghost
  clock : Nat := 0                   -- ghost
  deriving Repr, Inhabited

/-! ## the descriptor table -/

def ioGet : List IoData → Nat → IoData
  | [], _ => {}
  | d :: _, 0 => d
  | _ :: ds, n+1 => ioGet ds n

/-- `map_[fd] = v` (the vector is grown with default entries when needed) -/
def ioSet : List IoData → Nat → IoData → List IoData
  | [], 0, v => [v]
  | [], n+1, v => {} :: ioSet [] n v
  | _ :: ds, 0, v => v :: ds
  | d :: ds, n+1, v => d :: ioSet ds n v

/-- what is left in a slot after `completion_handler(slot, …)` was built from it -/
def afterTake (moves : Bool) (slot : Option Tok) : Option Tok := if moves then none else slot

/-! ## timers -/

/-- `std::multimap::insert`: after every element whose key is ≤ the new key -/
def insertTimer (t : Timer) : List Timer → List Timer
  | [] => [t]
  | x :: xs => if x.deadline ≤ t.deadline then x :: insertTimer t xs else t :: x :: xs

def slotBusy (ts : List Timer) (slot : Nat) : Bool := ts.any (·.slot == slot)

/-- `timer_events_.erase(evptr)` for the entry `timer_events_index_[slot]` points at -/
def removeSlot (slot : Nat) : List Timer → List Timer
  | [] => []
  | x :: xs => if x.slot == slot then xs else x :: removeSlot slot xs

/-! ## external operations (any thread, including handlers running on the loop thread) -/

inductive Op
  | post                                          -- post(handler const&)
  | postEv (c : Code) (n : Nat)                   -- post(event_handler,e) / post(io_handler,e,n)
  | setTimer (deadline slot : Nat)                -- set_timer_event; `slot` = the free index rand() found
  | cancelTimer (slot : Nat)                      -- cancel_timer_event(event_id)
  | setIo (fd : Option Nat) (e : Ev) (selOk : Bool) (selErr : Code) -- set_io_event; `none` = invalid_socket; selOk/selErr = answer of reactor::select
  | cancelIo (fd : Option Nat)                    -- cancel_io_events
  | stop
  | reset                                         -- only while run() is not executing
  deriving DecidableEq, Repr, Inhabited

def push (s : St) (q : QItem) : St := { s with queue := s.queue ++ [q] }

/-- body of `io_event_setter::operator()` (one critical section) -/
def setterBody (s : St) (fd : Option Nat) (e : Ev) (t : Tok) (selOk : Bool) (selErr : Code) : St :=
  match fd with
  | none => push s (.ev t .badf 0)
  | some fd =>
    if selOk then
      let d := ioGet s.map fd
      match e with
      | .rd => { s with map := ioSet s.map fd { d with curIn := true, rd := some t },
                        lost := s.lost ++ (if Gen.setterAssignsDirectly then d.rd.toList else []) }
      | .wr => { s with map := ioSet s.map fd { d with curOut := true, wr := some t },
                        lost := s.lost ++ (if Gen.setterAssignsDirectly then d.wr.toList else []) }
    else push s (.ev t selErr 0)

def optItem (o : Option Tok) (c : Code) : List QItem :=
  match o with
  | some t => [.ev t c 0]
  | none => []

/-- body of `io_event_canceler::operator()` (one critical section) -/
def cancelerBody (s : St) (fd : Nat) : St :=
  let d := ioGet s.map fd
  { s with queue := s.queue ++ optItem d.rd .canceled ++ optItem d.wr .canceled,
           map := ioSet s.map fd { curIn := false, curOut := false,
                                   rd := afterTake Gen.cancelerReadableMoves d.rd,
                                   wr := afterTake Gen.cancelerWriteableMoves d.wr } }

/-- `cancelation_is_needed_with_data_mutex_locked` -/
def cancelNeeded (s : St) (fd : Nat) : Bool :=
  if !s.queue.isEmpty then true
  else
    let d := ioGet s.map fd
    !(d.curIn == false && d.curOut == false && d.rd.isNone && d.wr.isNone)

def queueToks : List QItem → List Tok
  | [] => []
  | .fn t :: q => t :: queueToks q
  | .ev t _ _ :: q => t :: queueToks q
  | .setter _ _ t :: q => t :: queueToks q
  | .canceler _ :: q => queueToks q

def ioToks (d : IoData) : List Tok := d.rd.toList ++ d.wr.toList

def mapToks : List IoData → List Tok
  | [] => []
  | d :: ds => ioToks d ++ mapToks ds

def opStep (s : St) : Op → St
  | .post => { push s (.fn ⟨s.next, .plain⟩) with next := s.next + 1 }
  | .postEv c n => { push s (.ev ⟨s.next, .plain⟩ c n) with next := s.next + 1 }
  | .setTimer d slot =>
    if slotBusy s.timers slot then s      -- not a possible outcome of the slot search: no-op
    else { s with timers := insertTimer ⟨d, slot, ⟨s.next, .timer d⟩⟩ s.timers, next := s.next + 1 }
  | .cancelTimer slot =>
    match s.timers.find? (·.slot == slot) with
    | none => s
    | some t =>
      { s with queue := s.queue ++ [.ev t.tok .canceled 0],
               timers := removeSlot slot s.timers }
  | .setIo fd e selOk selErr =>
    let t : Tok := ⟨s.next, .io⟩
    let s := { s with next := s.next + 1 }
    if s.polling || !s.reactorUp then push s (.setter fd e t)
    else setterBody s fd e t selOk selErr
  | .cancelIo none => s
  | .cancelIo (some fd) =>
    if !cancelNeeded s fd then s
    else if s.polling || !s.reactorUp then push s (.canceler fd)
    else cancelerBody s fd
  | .stop => { s with stop := true }
  | .reset =>
    if s.phase = .idle ∨ s.phase = .stopped ∨ s.phase = .failed then
      { s with dropped := s.dropped ++ queueToks s.queue ++ mapToks s.map,
               queue := [], map := [], stop := false, reactorUp := false, phase := .idle }
    else s

/-! ## the loop thread -/

/-- one entry of the array filled by `reactor::poll` (the interrupter's own fd is not listed),
    plus the answer `reactor::select` gives when the remaining events are re-registered -/
structure Event where
  fd : Nat
  rd : Bool
  wr : Bool
  err : Bool
  selOk : Bool := true
  deriving DecidableEq, Repr, Inhabited

/-- inputs the environment supplies to one loop-thread step -/
structure LoopInp where
  now : Nat := 0               -- ptime::now()
  selOk : Bool := true         -- reactor::select answer, if the executed item is a setter functor
  selErr : Code := .sysErr     -- … and the error it reports when it fails
  events : List Event := []    -- result of reactor::poll
  pollErr : Bool := false      -- poll failed with something else than EINTR
  deriving Repr, Inhabited

/-- body of the `for` loop over the reported events in `run_one` -/
def dispatchFd (s : St) (e : Event) : St :=
  let d := ioGet s.map e.fd
  let derr : Code := if e.err then .selectFailed else .ok
  let nin := if e.err then false else if e.rd then false else d.curIn
  let nout := if e.err then false else if e.wr then false else d.curOut
  let derr : Code := if e.selOk then derr else (if derr = .ok then .sysErr else derr)
  let nin := if e.selOk then nin else false
  let nout := if e.selOk then nout else false
  let fireR := d.rd.isSome && !nin
  let fireW := d.wr.isSome && !nout
  { s with queue := s.queue ++ (if fireR then optItem d.rd derr else []) ++ (if fireW then optItem d.wr derr else []),
           map := ioSet s.map e.fd { curIn := nin, curOut := nout,
                                     rd := if fireR then afterTake Gen.dispatchReadableMoves d.rd else d.rd,
                                     wr := if fireW then afterTake Gen.dispatchWriteableMoves d.wr else d.wr } }

def dueTimers (now : Nat) (ts : List Timer) : List Timer := ts.takeWhile (·.deadline ≤ now)
def restTimers (now : Nat) (ts : List Timer) : List Timer := ts.dropWhile (·.deadline ≤ now)

/-- running a popped completion_handler (outside the lock; functors take it again themselves) -/
def execItem (s : St) (selOk : Bool) (selErr : Code) : QItem → St
  | .fn t => { s with log := s.log ++ [⟨t, .ok, 0, s.clock⟩] }
  | .ev t c n => { s with log := s.log ++ [⟨t, c, n, s.clock⟩] }
  | .setter fd e t => setterBody s fd e t selOk selErr
  | .canceler fd => cancelerBody s fd

def loopStep (s : St) (i : LoopInp) : St :=
  match s.phase with
  | .idle =>
    -- run_one entry: lock, create the reactor, `counter = dispatch_queue_.size()`
    { s with reactorUp := true, counter := s.queue.length, phase := .draining }
  | .draining =>
    match s.queue with
    | q :: rest =>
      if !s.stop && s.counter > 0 then
        -- exec.swap(front); pop_front(); unlock
        { s with queue := rest, running := some q, phase := .executing }
      else afterDrain s i
    | [] => afterDrain s i
  | .executing =>
    match s.running with
    | some q => { execItem s i.selOk i.selErr q with running := none, counter := s.counter - 1, phase := .draining }
    | none => { s with counter := s.counter - 1, phase := .draining }
  | .polling =>
    let s := { s with polling := false }
    if i.pollErr && s.queue.isEmpty then { s with phase := .failed }
    else
      -- a failed poll (n = -1, e.g. EINTR, or EBADF with handlers still queued) reports nothing
      { (if i.pollErr then [] else i.events).foldl dispatchFd s with phase := .idle }
  | .stopped => s
  | .failed => s
where
  /-- from the end of the drain loop to the unlock before `poll` (one critical section) -/
  afterDrain (s : St) (i : LoopInp) : St :=
    let s := { s with clock := max s.clock i.now }
    if s.stop then { s with phase := .stopped }
    else
      let due := dueTimers i.now s.timers
      { s with queue := s.queue ++ due.map (fun t => QItem.ev t.tok .ok 0),
               timers := restTimers i.now s.timers,
               polling := true, phase := .polling }

inductive Act
  | op (o : Op)
  | loop (i : LoopInp)
  deriving Repr, Inhabited

def step (s : St) : Act → St
  | .op o => opStep s o
  | .loop i => loopStep s i

def run (s : St) (as : List Act) : St := as.foldl step s

def init : St := {}

/-! ## the reactor's event translation (reactor.cpp), tables regenerated into `Gen` -/

inductive Backend | epoll | poll | select
  deriving DecidableEq, Repr, Inhabited

/-- `int x=0; if(event & mask) x|=bits; …; return x;` -/
def applyTable (tbl : List (Nat × Nat)) (k : Nat) : Nat :=
  tbl.foldl (fun acc r => if k &&& r.1 ≠ 0 then acc ||| r.2 else acc) 0

def toUserTable : Backend → List (Nat × Nat)
  | .epoll => Gen.epollToUser | .poll => Gen.pollToUser | .select => Gen.selectToUser
def fromUserTable : Backend → List (Nat × Nat)
  | .epoll => Gen.epollFromUser | .poll => Gen.pollFromUser | .select => Gen.selectFromUser

/-- the `reactor::event` handed to run_one for a kernel report `k` on descriptor `fd` -/
def kernelToEvent (b : Backend) (fd k : Nat) : Event :=
  let u := applyTable (toUserTable b) k
  { fd := fd, rd := decide (u &&& Gen.userIn ≠ 0), wr := decide (u &&& Gen.userOut ≠ 0), err := decide (u &&& Gen.userErr ≠ 0) }

/-- kernel report bits that end a wait for readability: POLLIN|POLLERR|POLLHUP (same values for EPOLL*);
    for select: in the read set or in the except set -/
def readDone : Backend → Nat
  | .epoll => 25 | .poll => 25 | .select => 5
/-- … for writability: POLLOUT|POLLERR|POLLHUP; select: write set or except set -/
def writeDone : Backend → Nat
  | .epoll => 28 | .poll => 28 | .select => 6
/-- the kernel bit that a registration for reactor::in / reactor::out must request -/
def kernelIn : Backend → Nat
  | .epoll => 1 | .poll => 1 | .select => 1
def kernelOut : Backend → Nat
  | .epoll => 4 | .poll => 4 | .select => 2

/-! ## epoll back-end: the per-descriptor cache `events_` and the kernel's interest list

`epoll_reactor::select(fd,flags)` decides between EPOLL_CTL_DEL / ADD / MOD by comparing `flags` with its own cache
`events_[fd]`, not with the kernel.  Here the kernel is modelled too (it is what the cache is about): `kreg fd` is the
interest set epoll holds for the open file behind number `fd`; closing the descriptor drops it; a number can be
handed out again. -/

structure Epoll where
  cache : Nat → Nat              -- events_[fd]
  kreg : Nat → Option Nat        -- kernel: registered interest set of the open descriptor `fd`
  isOpen : Nat → Bool

def upd {α : Type} (f : Nat → α) (i : Nat) (v : α) : Nat → α := fun j => if j = i then v else f j

/-- epoll_ctl(ADD): EBADF on a closed descriptor, EEXIST if already registered -/
def ctlAdd (e : Epoll) (fd flags : Nat) : (Nat → Option Nat) × Bool :=
  if e.isOpen fd && (e.kreg fd).isNone then (upd e.kreg fd (some flags), true) else (e.kreg, false)
/-- epoll_ctl(MOD): EBADF / ENOENT if not registered -/
def ctlMod (e : Epoll) (fd flags : Nat) : (Nat → Option Nat) × Bool :=
  if e.isOpen fd && (e.kreg fd).isSome then (upd e.kreg fd (some flags), true) else (e.kreg, false)
/-- epoll_ctl(DEL): EBADF / ENOENT if not registered -/
def ctlDel (e : Epoll) (fd : Nat) : (Nat → Option Nat) × Bool :=
  if e.isOpen fd && (e.kreg fd).isSome then (upd e.kreg fd none, true) else (e.kreg, false)

/-- `epoll_reactor::select`; second component: no error reported -/
def epSelect (e : Epoll) (fd flags : Nat) : Epoll × Bool :=
  let c := e.cache fd
  let r : (Nat → Option Nat) × Bool :=
    if c ≠ 0 ∧ flags = 0 then ctlDel e fd
    else if c = 0 ∧ flags ≠ 0 then ctlAdd e fd flags
    else if c ≠ flags then ctlMod e fd flags
    else (e.kreg, true)
  ({ e with kreg := r.1, cache := if r.2 || Gen.epollRecordsOnError then upd e.cache fd flags else e.cache }, r.2)

inductive EpOp
  | sel (fd flags : Nat)     -- the reactor is asked for a new interest set
  | closeFd (fd : Nat)       -- the application closes the descriptor: the kernel forgets it
  | reuse (fd : Nat)         -- a new descriptor gets the number; only after the loop has processed the cancel
                             -- (`select(fd,0)`, i.e. cache = 0): the FIFO dispatch queue guarantees that order

def epStep (e : Epoll) : EpOp → Epoll
  | .sel fd fl => (epSelect e fd fl).1
  | .closeFd fd => { e with isOpen := upd e.isOpen fd false, kreg := upd e.kreg fd none }
  | .reuse fd => if e.isOpen fd = false ∧ e.cache fd = 0 then { e with isOpen := upd e.isOpen fd true } else e

def epRun (e : Epoll) (ops : List EpOp) : Epoll := ops.foldl epStep e

def epInit (opened : Nat → Bool) : Epoll := { cache := fun _ => 0, kreg := fun _ => none, isOpen := opened }

def kflags (e : Epoll) (fd : Nat) : Nat := (e.kreg fd).getD 0

/-! ## thread pool (`cppcms::impl::thread_pool`) -/

structure Job where
  id : Int          -- `job_id_++` (an `int`)
  throws : Bool     -- the job ends by throwing
  deriving DecidableEq, Repr, Inhabited

structure Pool where
  queue : List Job := []
  shutDown : Bool := false
  jobId : Nat := 0
  /-- per worker: the job it popped and has not finished yet -/
  workers : List (Option Job) := []
  exited : List Bool := []            -- worker returned from `worker()`
  ran : List Job := []                -- ghost: jobs started, in order
  cancelled : List Int := []          -- ghost: ids for which cancel returned true
  deriving Repr, Inhabited

inductive PoolOp
  | post (throws : Bool)
  | cancel (id : Int)
  | stop
  | workerTake (w : Nat)      -- critical section of worker(): shutdown test, pop or wait
  | workerRun (w : Nat)       -- run the popped job outside the lock, swallow what it throws
  deriving DecidableEq, Repr, Inhabited

def eraseFirst (id : Int) : List Job → List Job
  | [] => []
  | j :: js => if j.id = id then js else j :: eraseFirst id js

def poolStep (p : Pool) : PoolOp → Pool
  | .post th => { p with queue := p.queue ++ [⟨(p.jobId : Int), th⟩], jobId := p.jobId + 1 }
  | .cancel id =>
    if p.queue.any (·.id == id) then { p with queue := eraseFirst id p.queue, cancelled := p.cancelled ++ [id] }
    else p
  | .stop => { p with shutDown := true }
  | .workerTake w =>
    if w < p.workers.length ∧ p.exited.getD w true = false ∧ p.workers.getD w none = none then
      if p.shutDown then { p with exited := p.exited.set w true }
      else match p.queue with
        | j :: rest => { p with queue := if Gen.workerRemovesJobUnderLock then rest else p.queue,
                                workers := p.workers.set w (some j) }
        | [] => p    -- cond_.wait
    else p
  | .workerRun w =>
    match p.workers.getD w none with
    | some j =>
      -- job(); an exception is caught (catch(std::exception const&) / catch(...)) and the loop continues
      if j.throws && !Gen.workerCatchesAll then
        { p with ran := p.ran ++ [j], workers := p.workers.set w none, exited := p.exited.set w true }
      else { p with ran := p.ran ++ [j], workers := p.workers.set w none }
    | none => p

def poolInit (threads : Nat) : Pool :=
  { workers := List.replicate threads none, exited := List.replicate threads false }

def poolRun (p : Pool) (ops : List PoolOp) : Pool := ops.foldl poolStep p

end Cppcms.C17
