import Cppcms.C17.Lemmas
/-! Invariant behind `timer_not_early` and `due_timer_queued`: kinds of the tokens in each container,
    the timer table sorted by deadline, and "a queued/executed success of a timer token is due". -/
namespace Cppcms.C17

def okItem (clock : Nat) : QItem → Prop
  | .fn t => t.kind = .plain
  | .ev t c _ => ∀ d, t.kind = .timer d → c = .ok → d ≤ clock
  | .setter _ _ t => t.kind = .io
  | .canceler _ => True

theorem okItem_mono {c c' : Nat} (h : c ≤ c') (x : QItem) (hx : okItem c x) : okItem c' x := by
  cases x with
  | fn t => exact hx
  | ev t k n => intro d hd hk; exact Nat.le_trans (hx d hd hk) h
  | setter fd e t => exact hx
  | canceler fd => trivial

structure TInv (s : St) : Prop where
  q : ∀ x ∈ s.queue, okItem s.clock x
  r : ∀ x, s.running = some x → okItem s.clock x
  t : ∀ x ∈ s.timers, x.tok.kind = .timer x.deadline
  m : ∀ x ∈ mapToks s.map, x.kind = .io
  l : ∀ e ∈ s.log, ∀ d, e.tok.kind = .timer d → e.code = .ok → d ≤ e.clock
  sorted : s.timers.Pairwise (fun a b => a.deadline ≤ b.deadline)

theorem mem_mapToks_ioSet (x : Tok) (m : List IoData) (fd : Nat) (v : IoData)
    (h : x ∈ mapToks (ioSet m fd v)) : x ∈ mapToks m ∨ x ∈ ioToks v := by
  induction m generalizing fd with
  | nil =>
    induction fd with
    | zero => simpa [ioSet, mapToks] using h
    | succ n ih => simp [ioSet, mapToks, ioToks] at h ih ⊢; exact ih h
  | cons d ds ih =>
    cases fd with
    | zero =>
      simp [ioSet, mapToks] at h ⊢
      rcases h with h | h
      · exact Or.inr h
      · exact Or.inl (Or.inr h)
    | succ n =>
      simp [ioSet, mapToks] at h ⊢
      rcases h with h | h
      · exact Or.inl (Or.inl h)
      · rcases ih n h with h' | h'
        · exact Or.inl (Or.inr h')
        · exact Or.inr h'

theorem mem_ioToks_get (x : Tok) (m : List IoData) (fd : Nat) (h : x ∈ ioToks (ioGet m fd)) : x ∈ mapToks m := by
  induction m generalizing fd with
  | nil => simp [ioGet, ioToks] at h
  | cons d ds ih =>
    cases fd with
    | zero => simp [ioGet, mapToks] at h ⊢; exact Or.inl h
    | succ n => simp [ioGet, mapToks] at h ⊢; exact Or.inr (ih n h)

theorem ioGet_ioSet (m : List IoData) (fd : Nat) (v : IoData) : ioGet (ioSet m fd v) fd = v := by
  induction m generalizing fd with
  | nil =>
    induction fd with
    | zero => rfl
    | succ n ih => simpa [ioSet, ioGet] using ih
  | cons d ds ih =>
    cases fd with
    | zero => rfl
    | succ n => simpa [ioSet, ioGet] using ih n

theorem mem_insertTimer (x t : Timer) (ts : List Timer) : x ∈ insertTimer t ts ↔ x = t ∨ x ∈ ts := by
  induction ts with
  | nil => simp [insertTimer]
  | cons y ys ih =>
    simp only [insertTimer]
    split
    · simp [ih]; constructor
      · rintro (h | h | h)
        · exact Or.inr (Or.inl h)
        · exact Or.inl h
        · exact Or.inr (Or.inr h)
      · rintro (h | h | h)
        · exact Or.inr (Or.inl h)
        · exact Or.inl h
        · exact Or.inr (Or.inr h)
    · simp

theorem sorted_insertTimer (t : Timer) (ts : List Timer)
    (h : ts.Pairwise (fun a b => a.deadline ≤ b.deadline)) :
    (insertTimer t ts).Pairwise (fun a b => a.deadline ≤ b.deadline) := by
  induction ts with
  | nil => simp [insertTimer]
  | cons y ys ih =>
    simp only [insertTimer]
    rw [List.pairwise_cons] at h
    split
    · rename_i hle
      rw [List.pairwise_cons]
      refine ⟨?_, ih h.2⟩
      intro z hz
      rcases (mem_insertTimer z t ys).1 hz with hz | hz
      · rw [hz]; exact hle
      · exact h.1 z hz
    · rename_i hgt
      rw [List.pairwise_cons]
      refine ⟨?_, List.pairwise_cons.2 h⟩
      intro z hz
      rcases List.mem_cons.1 hz with hz | hz
      · rw [hz]; omega
      · have := h.1 z hz; omega

theorem removeSlot_sublist (slot : Nat) (ts : List Timer) : (removeSlot slot ts).Sublist ts := by
  induction ts with
  | nil => exact List.Sublist.slnil
  | cons x xs ih =>
    simp only [removeSlot]
    split
    · exact List.sublist_cons_self x xs
    · exact List.Sublist.cons_cons x ih

theorem dueTimers_due (now : Nat) (ts : List Timer) (x : Timer) (h : x ∈ dueTimers now ts) : x.deadline ≤ now := by
  induction ts with
  | nil => simp [dueTimers] at h
  | cons y ys ih =>
    simp only [dueTimers, List.takeWhile_cons] at h
    split at h
    · rename_i hy
      rcases List.mem_cons.1 h with h | h
      · rw [h]; simpa using hy
      · exact ih h
    · simp at h

/-- in a sorted table, the prefix taken by the expiry loop is *all* timers that are due -/
theorem due_complete (now : Nat) (ts : List Timer) (hs : ts.Pairwise (fun a b => a.deadline ≤ b.deadline))
    (x : Timer) (hx : x ∈ ts) (hd : x.deadline ≤ now) : x ∈ dueTimers now ts := by
  induction ts with
  | nil => simp at hx
  | cons y ys ih =>
    rw [List.pairwise_cons] at hs
    simp only [dueTimers, List.takeWhile_cons]
    rcases List.mem_cons.1 hx with hx | hx
    · subst hx; simp [hd]
    · have hy : y.deadline ≤ now := Nat.le_trans (hs.1 x hx) hd
      simp [hy]
      exact Or.inr (ih hs.2 hx)

/-! ### preservation -/

theorem TInv_push (s : St) (x : QItem) (h : TInv s) (hx : okItem s.clock x) : TInv (push s x) := by
  refine ⟨?_, h.r, h.t, h.m, h.l, h.sorted⟩
  intro y hy
  simp [push] at hy
  rcases hy with hy | hy
  · exact h.q y hy
  · rw [hy]; exact hx

theorem TInv_setterBody (s : St) (fd : Option Nat) (e : Ev) (t : Tok) (ok : Bool) (er : Code)
    (ht : t.kind = .io) (h : TInv s) : TInv (setterBody s fd e t ok er) := by
  have hev : ∀ c, okItem s.clock (.ev t c 0) := by
    intro c d hd; rw [ht] at hd; cases hd
  unfold setterBody
  cases fd with
  | none => exact TInv_push s _ h (hev _)
  | some fd =>
    cases ok with
    | false => exact TInv_push s _ h (hev _)
    | true =>
      cases e with
      | rd =>
        refine ⟨h.q, h.r, h.t, ?_, h.l, h.sorted⟩
        intro x hx
        rcases mem_mapToks_ioSet x _ _ _ hx with hx | hx
        · exact h.m x hx
        · simp [ioToks] at hx
          rcases hx with hx | hx
          · rw [hx]; exact ht
          · exact h.m x (mem_ioToks_get x s.map fd (by simp [ioToks, hx]))
      | wr =>
        refine ⟨h.q, h.r, h.t, ?_, h.l, h.sorted⟩
        intro x hx
        rcases mem_mapToks_ioSet x _ _ _ hx with hx | hx
        · exact h.m x hx
        · simp [ioToks] at hx
          rcases hx with hx | hx
          · exact h.m x (mem_ioToks_get x s.map fd (by simp [ioToks, hx]))
          · rw [hx]; exact ht

theorem okItem_optItem (clock : Nat) (o : Option Tok) (c : Code) (ho : ∀ t, o = some t → t.kind = .io) :
    ∀ x ∈ optItem o c, okItem clock x := by
  intro x hx
  cases o with
  | none => simp [optItem] at hx
  | some t =>
    simp [optItem] at hx
    rw [hx]
    intro d hd
    rw [ho t rfl] at hd
    cases hd

theorem afterTake_sub (b : Bool) (o : Option Tok) (x : Tok) (h : x ∈ (afterTake b o).toList) : x ∈ o.toList := by
  unfold afterTake at h
  split at h
  · simp at h
  · exact h

theorem TInv_cancelerBody (s : St) (fd : Nat) (h : TInv s) : TInv (cancelerBody s fd) := by
  have hk : ∀ t, t ∈ ioToks (ioGet s.map fd) → t.kind = .io := fun t ht => h.m t (mem_ioToks_get t s.map fd ht)
  unfold cancelerBody
  refine ⟨?_, h.r, h.t, ?_, h.l, h.sorted⟩
  · intro x hx
    simp only [List.mem_append] at hx
    rcases hx with (hx | hx) | hx
    · exact h.q x hx
    · exact okItem_optItem _ _ _ (fun t ht => hk t (by simp [ioToks, ht])) x hx
    · exact okItem_optItem _ _ _ (fun t ht => hk t (by simp [ioToks, ht])) x hx
  · intro x hx
    rcases mem_mapToks_ioSet x _ _ _ hx with hx | hx
    · exact h.m x hx
    · simp only [ioToks, List.mem_append] at hx
      rcases hx with hx | hx
      · exact hk x (by simp only [ioToks, List.mem_append]; exact Or.inl (afterTake_sub _ _ _ hx))
      · exact hk x (by simp only [ioToks, List.mem_append]; exact Or.inr (afterTake_sub _ _ _ hx))

theorem mem_ite_nil {α : Type} (b : Bool) (l : List α) (x : α) (h : x ∈ (if b = true then l else [])) : x ∈ l := by
  split at h
  · exact h
  · simp at h

theorem mem_ite_afterTake (b c : Bool) (o : Option Tok) (x : Tok)
    (h : x ∈ (if b = true then afterTake c o else o).toList) : x ∈ o.toList := by
  cases b with
  | true => exact afterTake_sub c o x (by simpa using h)
  | false => simpa using h

theorem TInv_dispatchFd (s : St) (e : Event) (h : TInv s) : TInv (dispatchFd s e) := by
  have hk : ∀ t, t ∈ ioToks (ioGet s.map e.fd) → t.kind = .io := fun t ht => h.m t (mem_ioToks_get t s.map e.fd ht)
  unfold dispatchFd
  dsimp only
  refine ⟨?_, h.r, h.t, ?_, h.l, h.sorted⟩
  · intro x hx
    simp only [List.mem_append] at hx
    rcases hx with (hx | hx) | hx
    · exact h.q x hx
    · exact okItem_optItem _ _ _ (fun t ht => hk t (by simp [ioToks, ht])) x (mem_ite_nil _ _ _ hx)
    · exact okItem_optItem _ _ _ (fun t ht => hk t (by simp [ioToks, ht])) x (mem_ite_nil _ _ _ hx)
  · intro x hx
    rcases mem_mapToks_ioSet x _ _ _ hx with hx | hx
    · exact h.m x hx
    · simp only [ioToks, List.mem_append] at hx
      rcases hx with hx | hx
      · exact hk x (by simp only [ioToks, List.mem_append]; exact Or.inl (mem_ite_afterTake _ _ _ _ hx))
      · exact hk x (by simp only [ioToks, List.mem_append]; exact Or.inr (mem_ite_afterTake _ _ _ _ hx))

theorem TInv_dispatchAll (evs : List Event) (s : St) (h : TInv s) : TInv (evs.foldl dispatchFd s) := by
  induction evs generalizing s with
  | nil => exact h
  | cons e es ih => exact ih _ (TInv_dispatchFd s e h)

theorem TInv_opStep (s : St) (o : Op) (h : TInv s) : TInv (opStep s o) := by
  cases o with
  | post =>
    have := TInv_push s (.fn ⟨s.next, .plain⟩) h rfl
    exact ⟨this.q, this.r, this.t, this.m, this.l, this.sorted⟩
  | postEv c n =>
    have := TInv_push s (.ev ⟨s.next, .plain⟩ c n) h (by intro d hd; cases hd)
    exact ⟨this.q, this.r, this.t, this.m, this.l, this.sorted⟩
  | setTimer d slot =>
    simp only [opStep]
    split
    · exact h
    · refine ⟨h.q, h.r, ?_, h.m, h.l, sorted_insertTimer _ _ h.sorted⟩
      intro x hx
      rcases (mem_insertTimer x _ _).1 hx with hx | hx
      · rw [hx]
      · exact h.t x hx
  | cancelTimer slot =>
    simp only [opStep]
    split
    · exact h
    · refine ⟨?_, h.r, fun x hx => h.t x ((removeSlot_sublist slot s.timers).subset hx), h.m, h.l,
        h.sorted.sublist (removeSlot_sublist slot s.timers)⟩
      intro x hx
      simp only [List.mem_append, List.mem_singleton] at hx
      rcases hx with hx | hx
      · exact h.q x hx
      · rw [hx]; intro d _ hc; cases hc
  | setIo fd e ok er =>
    simp only [opStep]
    have h' : TInv { s with next := s.next + 1 } := ⟨h.q, h.r, h.t, h.m, h.l, h.sorted⟩
    split
    · exact TInv_push _ _ h' rfl
    · exact TInv_setterBody _ fd e _ ok er rfl h'
  | cancelIo fd =>
    cases fd with
    | none => exact h
    | some fd =>
      simp only [opStep]
      split
      · exact h
      · split
        · exact TInv_push s _ h trivial
        · exact TInv_cancelerBody s fd h
  | stop => exact ⟨h.q, h.r, h.t, h.m, h.l, h.sorted⟩
  | reset =>
    simp only [opStep]
    split
    · exact ⟨by simp, h.r, h.t, by simp [mapToks], h.l, h.sorted⟩
    · exact h

theorem TInv_afterDrain (s : St) (i : LoopInp) (h : TInv s) : TInv (loopStep.afterDrain s i) := by
  unfold loopStep.afterDrain
  dsimp only
  have hc : s.clock ≤ max s.clock i.now := Nat.le_max_left _ _
  split
  · exact ⟨fun x hx => okItem_mono hc x (h.q x hx), fun x hx => okItem_mono hc x (h.r x hx), h.t, h.m, h.l, h.sorted⟩
  · refine ⟨?_, fun x hx => okItem_mono hc x (h.r x hx), ?_, h.m, h.l, ?_⟩
    · intro x hx
      simp only [List.mem_append, List.mem_map] at hx
      rcases hx with hx | ⟨t, ht, hx⟩
      · exact okItem_mono hc x (h.q x hx)
      · rw [← hx]
        intro d hd _
        have h1 := h.t t ((List.takeWhile_sublist _).subset ht)
        rw [h1] at hd
        cases hd
        exact Nat.le_trans (dueTimers_due i.now s.timers t ht) (Nat.le_max_right _ _)
    · intro x hx
      exact h.t x ((List.dropWhile_sublist _).subset hx)
    · exact h.sorted.sublist (List.dropWhile_sublist _)

theorem TInv_loopStep (s : St) (i : LoopInp) (h : TInv s) : TInv (loopStep s i) := by
  unfold loopStep
  split
  · exact ⟨h.q, h.r, h.t, h.m, h.l, h.sorted⟩
  · split
    · rename_i q rest hq
      split
      · refine ⟨fun x hx => h.q x (by rw [hq]; exact List.mem_cons_of_mem _ hx), ?_, h.t, h.m, h.l, h.sorted⟩
        intro x hx
        simp at hx
        rw [← hx]
        exact h.q q (by rw [hq]; exact List.mem_cons_self)
      · exact TInv_afterDrain s i h
    · exact TInv_afterDrain s i h
  · split
    · rename_i q hq
      have hok := h.r q hq
      cases q with
      | fn t =>
        refine ⟨h.q, by simp, h.t, h.m, ?_, h.sorted⟩
        intro e he d hd hc
        simp [execItem] at he
        rcases he with he | he
        · exact h.l e he d hd hc
        · rw [he] at hd; simp at hd; rw [hok] at hd; cases hd
      | ev t c n =>
        refine ⟨h.q, by simp, h.t, h.m, ?_, h.sorted⟩
        intro e he d hd hc
        simp [execItem] at he
        rcases he with he | he
        · exact h.l e he d hd hc
        · rw [he] at hd hc ⊢; simp at hd hc ⊢; exact hok d hd hc
      | setter fd e t =>
        have := TInv_setterBody s fd e t i.selOk i.selErr hok h
        simp only [execItem]
        exact ⟨this.q, by simp, this.t, this.m, this.l, this.sorted⟩
      | canceler fd =>
        have := TInv_cancelerBody s fd h
        simp only [execItem]
        exact ⟨this.q, by simp, this.t, this.m, this.l, this.sorted⟩
    · exact ⟨h.q, h.r, h.t, h.m, h.l, h.sorted⟩
  · dsimp only
    split
    · exact ⟨h.q, h.r, h.t, h.m, h.l, h.sorted⟩
    · have := TInv_dispatchAll (if i.pollErr = true then [] else i.events) { s with polling := false } ⟨h.q, h.r, h.t, h.m, h.l, h.sorted⟩
      exact ⟨this.q, this.r, this.t, this.m, this.l, this.sorted⟩
  · exact h
  · exact h

theorem TInv_run (as : List Act) (s : St) (h : TInv s) : TInv (run s as) := by
  induction as generalizing s with
  | nil => exact h
  | cons a as ih =>
    simp only [run, List.foldl_cons]
    apply ih
    cases a with
    | op o => exact TInv_opStep s o h
    | loop i => exact TInv_loopStep s i h

theorem TInv_init : TInv init := by
  refine ⟨?_, ?_, ?_, ?_, ?_, ?_⟩ <;> simp [init, mapToks]

end Cppcms.C17
