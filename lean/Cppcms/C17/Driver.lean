import Cppcms.Common
import Cppcms.C17.Model
import Cppcms.C17.Spec
/-!
Line-protocol driver for C17.

`L <nsock> <ntimer> P0=<ops> P1=<ops> … S <script ops>` : one event-loop scenario.  The script is the
history: ops issued by the driving thread while the loop thread is parked at its poll point
(`polling_ = true`), `step[:f]` = let the loop thread run one full `run_one` iteration reporting only
socket `f`'s readiness; a handler with program `Pi` issues `Pi`'s ops from inside its invocation
(loop thread, `polling_ = false`).  Everything is executed with `Model.opStep` / `Model.loopStep`.

`K <threads> <ops>` : one thread-pool scenario.
`J …` / `JK …` : the property predicates of `Spec.lean` evaluated on observations of the real code.
-/
open Cppcms Cppcms.C17

inductive SOp
  | post (p : Nat)
  | pev (p : Nat) (c : Code)
  | tm (k dl p : Nat)
  | tc (k : Nat)
  | arm (f : Option Nat) (e : Ev) (p : Nat)
  | ca (f : Nat)
  | cl (f : Nat)
  | pw (f : Nat)
  | dr (f : Nat)
  | stop
  | setNow (n : Nat)
  | start
  | step (f : Option Nat)
  | reset
  | dev (f : Option Nat) (p : Nat)   -- async_connect / async_accept / async_read_some / async_write_some on a device
  | conn (f : Nat) (good : Bool) (p : Nat)   -- open() + async_connect: to a listener that drops SYNs (pending) / accepts
  | acc (f : Nat) (p : Nat)                  -- acceptor::async_accept
  | readAll (f n p : Nat)                    -- stream_socket::async_read of n bytes
  | writeBig (f p : Nat)                     -- stream_socket::async_write of far more than the socket buffer takes
  | readSome (f p : Nat)                     -- stream_socket::async_read_some (1 byte buffer) on an open socket
  | nonOwnerClose (f : Nat)                  -- release(); close(): cancels the waits, the descriptor stays open
  | rawClose (f : Nat)               -- ::close(fd) by the application, then cancel_io_events(fd)
  | reopen (f : Nat)                 -- a new socket pair whose descriptor gets the number device f had
  | bad
  deriving Inhabited

structure Sock where
  isOpen : Bool := true
  pending : Nat := 0
  reopenable : Bool := false  -- closed while run() was executing and no reset() since: its number is still free
  gen : Nat := 0         -- incremented whenever the descriptor behind the device changes (closed, re-opened)
  kind : Nat := 0        -- 0 socket of a socketpair, 1 read end of a pipe, 2 write end of a pipe, 3 TCP connector, 5 acceptor
  conn : Nat := 0        -- connector: 1 connect in progress (SYNs dropped), 2 connected
  nonowner : Bool := false  -- release()d: close() cancels but neither closes nor forgets the descriptor
  wfull : Bool := false  -- the peer never reads and the send buffer is full: not writable any more
  peer : Nat := 0        -- device index of the other end (pipes)
  deriving Inhabited

structure TObj where
  deadline : Nat := 0
  eventId : Option Nat := none
  deriving Inhabited

structure D where
  st : St := {}
  progs : List (List SOp) := []
  hprog : List Nat := []
  htimer : List (Option Nat) := []
  hgen : List Nat := []       -- handler id -> generation of the device at the time the wait was issued
  -- completion functors of stream_socket/acceptor re-arm themselves: every re-arm is a fresh model token that stands
  -- for the same user handler (`huid`); only the invocation that calls the user's handler is shown in the log
  huid : List Nat := []       -- model token id -> user handler id (what the harness counts)
  ukind : List String := []   -- user handler id -> kind as printed
  hcont : List Nat := []      -- model token id -> 0 plain, 1 async_connector, 2 async_acceptor, 3 reader_all
  hrem : List Nat := []       -- reader_all: bytes still missing
  hfd : List Nat := []        -- device of the continuation
  logVis : List Bool := []    -- per model log entry: did it call the user's handler
  socks : List Sock := []
  tobjs : List TObj := []
  now : Nat := 0
  nextSlot : Nat := 0
  execAt : List Nat := []
  started : Bool := false
  resetHappened : Bool := false
  bad : Bool := false
  backend : String := "poll"  -- epoll: reactor::select is a system call (EBADF on a closed descriptor); select: select() fails with EBADF while a closed descriptor is registered
  stale : Nat := 0            -- number of setter functors that ran after their descriptor had been closed
  staleTc : Nat := 0          -- deadline_timer::cancel() with an event id that has already fired, while other timers are armed
  due : List Nat := []        -- spec-level expectation: handlers whose awaited condition the kernel reported while armed
  mustCancel : List Nat := [] -- spec-level expectation: waits cancelled by their owner before their deadline was reached
  outstanding : List (Option Nat) := []  -- per timer object: the wait that has not been invoked yet
  tainted : List Bool := []              -- per timer object: async_wait was issued while another wait was outstanding

def codeOf : String → Option Code
  | "ok" => some .ok | "canceled" => some .canceled | "selfail" => some .selectFailed
  | "badf" => some .badf | "syserr" => some .sysErr | _ => none

def codeStr : Code → String
  | .ok => "ok" | .canceled => "canceled" | .selectFailed => "selfail" | .badf => "badf" | .sysErr => "syserr"

def parseSOp (w : String) : SOp :=
  match w.splitOn ":" with
  | ["post", p] => match p.toNat? with | some p => .post p | none => .bad
  | ["pev", p, c] => match p.toNat?, codeOf c with | some p, some c => .pev p c | _, _ => .bad
  | ["tm", k, dl, p] => match k.toNat?, dl.toNat?, p.toNat? with | some k, some dl, some p => .tm k dl p | _, _, _ => .bad
  | ["tc", k] => match k.toNat? with | some k => .tc k | none => .bad
  | ["ar", f, p] => match p.toNat? with
    | some p => if f == "x" then .arm none .rd p else (match f.toNat? with | some f => .arm (some f) .rd p | none => .bad)
    | none => .bad
  | ["aw", f, p] => match p.toNat? with
    | some p => if f == "x" then .arm none .wr p else (match f.toNat? with | some f => .arm (some f) .wr p | none => .bad)
    | none => .bad
  | ["ca", f] => match f.toNat? with | some f => .ca f | none => .bad
  | ["cl", f] => match f.toNat? with | some f => .cl f | none => .bad
  | ["pw", f] => match f.toNat? with | some f => .pw f | none => .bad
  | ["dr", f] => match f.toNat? with | some f => .dr f | none => .bad
  | ["st"] => .stop
  | ["T", n] => match n.toNat? with | some n => .setNow n | none => .bad
  | ["start"] => .start
  | ["step"] => .step none
  | ["step", f] => match f.toNat? with | some f => .step (some f) | none => .bad
  | ["rs"] => .reset
  | ["xp", f, p] => match f.toNat?, p.toNat? with | some f, some p => .conn f false p | _, _ => .bad
  | ["xg", f, p] => match f.toNat?, p.toNat? with | some f, some p => .conn f true p | _, _ => .bad
  | ["xs", f, p] => match f.toNat?, p.toNat? with | some f, some p => .readSome f p | _, _ => .bad
  | ["xq", f, p] => match f.toNat?, p.toNat? with | some f, some p => .acc f p | _, _ => .bad
  | ["xW", f, p] => match f.toNat?, p.toNat? with | some f, some p => .writeBig f p | _, _ => .bad
  | [op, f, p] =>
    if op == "xc" || op == "xa" || op == "xr" || op == "xw" then
      match p.toNat? with
      | some p => if f == "x" || f == "y" then .dev none p else (match f.toNat? with | some f => .dev (some f) p | none => .bad)
      | none => .bad
    else .bad
  | ["xR", f, n, p] => match f.toNat?, n.toNat?, p.toNat? with | some f, some n, some p => .readAll f n p | _, _, _ => .bad
  | ["nc", f] => match f.toNat? with | some f => .nonOwnerClose f | none => .bad
  | ["rx", f] => match f.toNat? with | some f => .rawClose f | none => .bad
  | ["ro", f] => match f.toNat? with | some f => .reopen f | none => .bad
  | _ => .bad

def sockFd (d : D) (f : Option Nat) : Option Nat :=
  match f with
  | none => none
  | some f => if (d.socks.getD f {}).isOpen && f < d.socks.length then some f else none

def closedSock (sk : Sock) (started : Bool) : Sock :=
  { sk with isOpen := false, pending := 0, gen := sk.gen + 1, reopenable := started }

/-- bookkeeping after an op that may have issued a token -/
def kindStr : Kind → String
  | .plain => "p" | .timer d => s!"t:{d}" | .io => "i"

def noteIssue (d : D) (before : Nat) (p : Nat) (k : Option Nat) (g : Nat := 0)
    (uid : Option Nat := none) (kind : Option String := none) (cont : Nat := 0) (rem : Nat := 0) (fd : Nat := 0) : D :=
  if d.st.next > before then
    let u := uid.getD d.ukind.length
    let tokKind : String :=
      match (queueToks d.st.queue ++ mapToks d.st.map ++ d.st.timers.map (·.tok)).find? (·.id == before) with
      | some t => kindStr t.kind
      | none => "?"
    { d with hprog := d.hprog ++ [p], htimer := d.htimer ++ [k], hgen := d.hgen ++ [g], huid := d.huid ++ [u],
             hcont := d.hcont ++ [cont], hrem := d.hrem ++ [rem], hfd := d.hfd ++ [fd],
             ukind := if uid.isSome then d.ukind else d.ukind ++ [kind.getD tokKind] }
  else d

def uidOf (d : D) (id : Nat) : Nat := d.huid.getD id id

/-- ops that may be issued from anywhere (driving thread or inside a handler) -/
def doOp (d : D) : SOp → D
  | .post p => noteIssue { d with st := opStep d.st .post } d.st.next p none
  | .pev p c => noteIssue { d with st := opStep d.st (.postEv c 0) } d.st.next p none
  | .tm k dl p =>
    -- deadline_timer::expires_at(dl); async_wait(h): event_id_ = set_timer_event(deadline_, waiter{h})
    let slot := d.nextSlot
    let d' := { d with st := opStep d.st (.setTimer dl slot), nextSlot := slot + 1,
                       tobjs := d.tobjs.set k { deadline := dl, eventId := some slot },
                       tainted := if (d.outstanding.getD k none).isSome then d.tainted.set k true else d.tainted,
                       outstanding := d.outstanding.set k (some d.st.next) }
    noteIssue d' d.st.next p (some k)
  | .tc k =>
    -- deadline_timer::cancel(): only if event_id_ != -1
    -- API-level expectation, independent of deadline_timer's bookkeeping: the only outstanding wait of this
    -- object, still armed (deadline not yet reached by run_one), must complete with `canceled`
    let d := match d.outstanding.getD k none with
      | some h => if !(d.tainted.getD k false) && d.st.timers.any (fun t => t.tok.id == h)
                  then { d with mustCancel := d.mustCancel ++ [uidOf d h] } else d
      | none => d
    match (d.tobjs.getD k {}).eventId with
    | some slot => { d with staleTc := d.staleTc + (if !slotBusy d.st.timers slot && !d.st.timers.isEmpty then 1 else 0),
                            st := opStep d.st (.cancelTimer slot),
                            tobjs := d.tobjs.set k { (d.tobjs.getD k {}) with eventId := none } }
    | none => d
  | .arm f e p =>
    let g := match f with | some f => (d.socks.getD f {}).gen | none => 0
    -- run directly (not polling) while the table still holds waits of the previous descriptor with this number, whose
    -- canceler is still queued: the arm overtakes the cancel (mirror image of the overtaking finding); not judged
    let d := match sockFd d f with
      | some fd =>
        let io := ioGet d.st.map fd
        if !(d.st.polling || !d.st.reactorUp) && (io.rd.toList ++ io.wr.toList).any (fun t => d.hgen.getD t.id 0 != g)
        then { d with stale := d.stale + 1 } else d
      | none => d
    noteIssue { d with st := opStep d.st (.setIo (sockFd d f) e true .sysErr) } d.st.next p none g
  | .dev f p =>
    -- device wrappers on an unusable descriptor (never opened / closed): dont_block fails with EBADF, posts the
    -- handler once and the entry point returns (Props.bad_descriptor_completes_exactly_once); on a usable
    -- descriptor these operations do real I/O, which the scenarios do not use
    match sockFd d f with
    | none => noteIssue { d with st := opStep d.st (.postEv .badf 0) } d.st.next p none
    | some _ => { d with bad := true }
  | .rawClose f =>
    match sockFd d (some f) with
    | some fd => { d with socks := d.socks.set f (closedSock (d.socks.getD f {}) d.started),
                          st := opStep d.st (.cancelIo (some fd)) }
    | none => d
  | .reopen f =>
    let sk := d.socks.getD f {}
    -- only a number that was freed while the reactor already existed (and has not been re-created since) is known to
    -- be still free: otherwise epoll_create / the interrupter pipe may have taken it
    if f < d.socks.length && !sk.isOpen && sk.kind == 0 && sk.reopenable then
      { d with socks := d.socks.set f { sk with isOpen := true, pending := 0, gen := sk.gen + 1, reopenable := false } }
    else d
  | .ca f => { d with st := opStep d.st (.cancelIo (sockFd d (some f))) }
  | .cl f =>
    -- basic_io_device::close(): cancel(), then (if it owns it) close the descriptor, fd_ = invalid_socket
    if (d.socks.getD f {}).nonowner then
      (match sockFd d (some f) with
       | some fd => { d with st := opStep d.st (.cancelIo (some fd)) }
       | none => d)
    else
    match sockFd d (some f) with
    | some fd => { d with st := opStep d.st (.cancelIo (some fd)),
                          socks := d.socks.set f (closedSock (d.socks.getD f {}) d.started) }
    | none => d
  | .pw f =>
    let sk := d.socks.getD f {}
    -- socket: the peer (never closed) writes a byte; pipe read end: a byte is written into the write end if it is
    -- still open; on a write end the op means nothing
    if sk.kind == 0 || (sk.kind == 1 && (d.socks.getD sk.peer {}).isOpen) || (sk.kind == 5 && sk.isOpen) then
      { d with socks := d.socks.set f { sk with pending := sk.pending + 1 } }
    else d
  | .dr f => if (d.socks.getD f {}).isOpen then { d with socks := d.socks.set f { (d.socks.getD f {}) with pending := 0 } } else d
  | .stop => { d with st := opStep d.st .stop }
  | .conn f good p =>
    -- stream_socket::open(pf_inet); async_connect: dont_block succeeds, connect() returns EINPROGRESS, the connector
    -- functor is armed for writability
    let sk := d.socks.getD f {}
    if f < d.socks.length && sk.kind == 3 && !sk.isOpen then
      let d := { d with socks := d.socks.set f { sk with isOpen := true, gen := sk.gen + 1, conn := (if good then 2 else 1), reopenable := false } }
      noteIssue { d with st := opStep d.st (.setIo (some f) .wr true .sysErr) } d.st.next p none (sk.gen + 1) none (some "i") 1 0 f
    else { d with bad := true }
  | .acc f p =>
    let sk := d.socks.getD f {}
    if f < d.socks.length && sk.kind == 5 then
      match sockFd d (some f) with
      | none => noteIssue { d with st := opStep d.st (.postEv .badf 0) } d.st.next p none 0 none (some "i")   -- dont_block fails: posted
      | some fd => noteIssue { d with st := opStep d.st (.setIo (some fd) .rd true .sysErr) } d.st.next p none sk.gen none (some "i") 2 0 f
    else { d with bad := true }
  | .readAll f n p =>
    let sk := d.socks.getD f {}
    if f < d.socks.length && sk.kind == 0 then
      match sockFd d (some f) with
      | none => noteIssue { d with st := opStep d.st (.postEv .badf 0) } d.st.next p none 0 none (some "i")
      | some fd =>
        -- reader_all::run(): read what is there; complete -> post, else wait for readability
        let take := min sk.pending n
        let d := { d with socks := d.socks.set f { sk with pending := sk.pending - take } }
        if take == n then noteIssue { d with st := opStep d.st (.postEv .ok n) } d.st.next p none 0 none (some "i")
        else noteIssue { d with st := opStep d.st (.setIo (some fd) .rd true .sysErr) } d.st.next p none sk.gen none (some "i") 3 (n - take) f
    else { d with bad := true }
  | .nonOwnerClose f =>
    -- basic_io_device::close() on a device that does not own its descriptor: `if(has_io_service()) cancel();` and
    -- then `if(!owner_) return;` - the waits are cancelled, nothing is closed, fd_ keeps its value
    match sockFd d (some f) with
    | some fd => { d with st := opStep d.st (.cancelIo (some fd)), socks := d.socks.set f { (d.socks.getD f {}) with nonowner := true } }
    | none => d
  | .readSome f p =>
    let sk := d.socks.getD f {}
    if f < d.socks.length && sk.kind == 0 then
      match sockFd d (some f) with
      | none => noteIssue { d with st := opStep d.st (.postEv .badf 0) } d.st.next p none 0 none (some "i")
      | some fd =>
        if sk.pending > 0 then
          noteIssue { d with socks := d.socks.set f { sk with pending := sk.pending - 1 }, st := opStep d.st (.postEv .ok 1) } d.st.next p none 0 none (some "i")
        else noteIssue { d with st := opStep d.st (.setIo (some fd) .rd true .sysErr) } d.st.next p none sk.gen none (some "i") 4 0 f
    else { d with bad := true }
  | .writeBig f p =>
    let sk := d.socks.getD f {}
    if f < d.socks.length && sk.kind == 0 then
      match sockFd d (some f) with
      | none => noteIssue { d with st := opStep d.st (.postEv .badf 0) } d.st.next p none 0 none (some "i")
      | some fd =>
        -- the first write_some fills the socket buffer, the second one would block: writer_all waits for writability,
        -- which never comes (nobody reads the other side)
        let d := { d with socks := d.socks.set f { sk with wfull := true } }
        noteIssue { d with st := opStep d.st (.setIo (some fd) .wr true .sysErr) } d.st.next p none sk.gen none (some "i")
    else { d with bad := true }
  | _ => d

/-- let the loop thread run until it parks in poll or leaves run() -/
def settle : Nat → D → D
  | 0, d => { d with bad := true }
  | fuel+1, d =>
    match d.st.phase with
    | .idle | .draining => settle fuel { d with st := loopStep d.st { now := d.now } }
    | .executing =>
      let item := d.st.running
      -- environment: a queued setter whose descriptor was closed meanwhile: epoll_ctl fails with EBADF,
      -- the poll/select reactors only update their tables
      -- stale: the setter runs although the descriptor it was issued for has been closed meanwhile (also when the
      -- number has been handed out again: then it arms the wrong descriptor)
      let staleNow := match item with
        | some (.setter (some fd) _ t) => !(d.socks.getD fd {}).isOpen || d.hgen.getD t.id 0 != (d.socks.getD fd {}).gen
        | _ => false
      let closedNow := match item with
        | some (.setter (some fd) _ _) => !(d.socks.getD fd {}).isOpen
        | _ => false
      let selOk := !(closedNow && d.backend == "epoll")
      let d := if staleNow then { d with stale := d.stale + 1 } else d
      let d := { d with st := loopStep d.st { now := d.now, selOk := selOk, selErr := .badf } }
      match item with
      | some (.fn t) | some (.ev t _ _) =>
        let code : Code := match item with | some (.ev _ c _) => c | _ => .ok
        let fd := d.hfd.getD t.id 0
        let sk := d.socks.getD fd {}
        -- completion functors: does this invocation call the user's handler, or consume and re-arm?
        let (vis, d) : Bool × D :=
          match d.hcont.getD t.id 0 with
          | 2 =>   -- async_acceptor: error -> h(e); accept() ok -> h(ok); would block -> async_accept again
            if code != .ok then (true, d)
            else if sk.pending > 0 then (true, { d with socks := d.socks.set fd { sk with pending := sk.pending - 1 } })
            else
              let before := d.st.next
              let d := { d with st := opStep d.st (.setIo (sockFd d (some fd)) .rd true .sysErr) }
              (false, noteIssue d before (d.hprog.getD t.id 0) none sk.gen (some (uidOf d t.id)) none 2 0 fd)
          | 3 =>   -- reader_all: error -> h(e,count); read; complete -> h(ok,count); else on_readable again
            if code != .ok then (true, d)
            else
              let rem := d.hrem.getD t.id 0
              let take := min sk.pending rem
              let d := { d with socks := d.socks.set fd { sk with pending := sk.pending - take } }
              if take == rem then (true, d)
              else
                let before := d.st.next
                let d := { d with st := opStep d.st (.setIo (sockFd d (some fd)) .rd true .sysErr) }
                (false, noteIssue d before (d.hprog.getD t.id 0) none sk.gen (some (uidOf d t.id)) none 3 (rem - take) fd)
          | 4 =>   -- reader_some: error -> h(e,0); read_some; nothing there and would-block (spurious readiness: somebody
                   -- else consumed the data) -> on_readable again; else h(err,n)
            if code != .ok then (true, d)
            else if sk.pending > 0 then (true, { d with socks := d.socks.set fd { sk with pending := sk.pending - 1 } })
            else
              let before := d.st.next
              let d := { d with st := opStep d.st (.setIo (sockFd d (some fd)) .rd true .sysErr) }
              (false, noteIssue d before (d.hprog.getD t.id 0) none sk.gen (some (uidOf d t.id)) none 4 0 fd)
          | _ => (true, d)     -- plain handlers; async_connector: every path calls h exactly once
        let d := { d with execAt := d.execAt ++ [d.now], logVis := d.logVis ++ [vis] }
        if !vis then settle fuel d else
        -- deadline_timer::waiter::operator(): self->event_id_ = -1, then the user's handler
        let d := match d.htimer.getD t.id none with
          | some k => { d with tobjs := d.tobjs.set k { (d.tobjs.getD k {}) with eventId := none },
                               outstanding := if d.outstanding.getD k none == some t.id then d.outstanding.set k none else d.outstanding }
          | none => d
        let d := (d.progs.getD (d.hprog.getD t.id 0) []).foldl doOp d
        settle fuel d
      | _ => settle fuel d
    | _ => d

def backendOf (d : D) : Backend :=
  if d.backend == "epoll" then .epoll else if d.backend == "select" then .select else .poll

/-- Environment: what the Linux kernel reports for a registered descriptor (measured: pipe read end whose writer
closed: POLLHUP alone, or POLLIN|POLLHUP with buffered data; write end whose reader closed: POLLOUT|POLLERR;
select(): EOF = readable, EPIPE = writable, never exceptional).  poll/epoll bits IN=1 OUT=4 ERR=8 HUP=16,
select bits r=1 w=2. -/
def kernelReport (d : D) (fd : Nat) : Nat :=
  let io := ioGet d.st.map fd
  let sk := d.socks.getD fd {}
  let peerOpen := (d.socks.getD sk.peer {}).isOpen
  -- a registration made for a descriptor that has been closed since (its canceler is still queued) while the number
  -- has been handed out again: epoll's interest list is per open file, the entry vanished with the close, nothing is
  -- reported; poll()/select() work on numbers and report the state of the new descriptor to the old wait
  let oldReg := (io.rd.toList ++ io.wr.toList).any fun t => d.hgen.getD t.id 0 != sk.gen
  if !(io.curIn || io.curOut) then 0 else
  if oldReg && d.backend == "epoll" then 0 else
  match backendOf d with
  | .select =>
    let r := io.curIn && (sk.pending > 0 || (sk.kind == 1 && !peerOpen))
    let w := io.curOut && ((sk.kind == 0 && !sk.wfull) || sk.kind == 2 || (sk.kind == 3 && sk.conn == 2))
    (if r then 1 else 0) ||| (if w then 2 else 0)
  | _ =>
    let i := if io.curIn && sk.pending > 0 then 1 else 0
    let o := if io.curOut && ((sk.kind == 0 && !sk.wfull) || sk.kind == 2 || (sk.kind == 3 && sk.conn == 2)) then 4 else 0
    let h := if sk.kind == 1 && !peerOpen then 16 else 0
    let e := if sk.kind == 2 && !peerOpen then 8 else 0
    i ||| o ||| h ||| e

def readyEvents (d : D) (f : Option Nat) : List Event :=
  match sockFd d f with
  | none => []
  | some fd =>
    let k := kernelReport d fd
    if k == 0 then [] else [kernelToEvent (backendOf d) fd k]

/-- spec-level expectation for this step: armed handlers whose awaited condition is in the kernel's report -/
def dueNow (d : D) (f : Option Nat) : List Nat :=
  match sockFd d f with
  | none => []
  | some fd =>
    let k := kernelReport d fd
    let io := ioGet d.st.map fd
    -- (continuations excepted: whether a report completes a multi-step read/accept depends on how much arrived)
    let plain := fun (t : Tok) => d.hcont.getD t.id 0 == 0 || d.hcont.getD t.id 0 == 1
    ((if k &&& readDone (backendOf d) ≠ 0 then (io.rd.toList.filter plain).map (·.id) else [])
      ++ (if k &&& writeDone (backendOf d) ≠ 0 then (io.wr.toList.filter plain).map (·.id) else [])).map (uidOf d)

/-- select(): a registered descriptor that has been closed makes the call fail with EBADF -/
def selectFails (d : D) : Bool :=
  d.backend == "select" &&
    (List.range d.socks.length).any fun fd =>
      !(d.socks.getD fd {}).isOpen && ((ioGet d.st.map fd).curIn || (ioGet d.st.map fd).curOut)

def topOp (d : D) : SOp → D
  | .setNow n => { d with now := n }
  | .start =>
    if d.started then d
    else settle 100000 { d with started := true }
  | .step f =>
    if d.started && d.st.phase == .polling then
      let perr := selectFails d
      settle 100000 { d with due := d.due ++ (if perr then [] else dueNow d f),
                             st := loopStep d.st { now := d.now, events := readyEvents d f, pollErr := perr } }
    else d
  | .reset =>
    if d.st.phase == .stopped || d.st.phase == .failed || !d.started then
      { d with st := opStep d.st .reset, started := false, resetHappened := true,
               socks := d.socks.map fun sk => { sk with reopenable := false } }
    else d
  | .bad => { d with bad := true }
  | o => doOp d o

instance : BEq Phase := ⟨fun a b => decide (a = b)⟩

def aliveToks (s : St) : List Nat :=
  (queueToks s.queue ++ (match s.running with | some q => queueToks [q] | none => []) ++ mapToks s.map
    ++ s.timers.map (·.tok)).map (·.id)

def insertSorted (x : Nat) : List Nat → List Nat
  | [] => [x]
  | y :: ys => if x ≤ y then x :: y :: ys else y :: insertSorted x ys
def sortNat (l : List Nat) : List Nat := l.foldr insertSorted []

def phaseStr : Phase → String
  | .idle => "idle" | .draining => "draining" | .executing => "executing" | .polling => "polling"
  | .stopped => "stopped" | .failed => "failed"

def allToks (s : St) : List Tok :=
  queueToks s.queue ++ (match s.running with | some q => queueToks [q] | none => []) ++ mapToks s.map
    ++ s.timers.map (·.tok) ++ s.log.map (·.tok) ++ s.dropped ++ s.lost

def dedup (l : List Nat) : List Nat :=
  l.foldl (fun acc x => if acc.contains x then acc else acc ++ [x]) []

def render (d : D) : String :=
  if d.bad then "bad-op" else
  let entries := (d.st.log.zip (d.execAt.zip d.logVis)).filter fun (_, _, v) => v
  let logs := entries.map fun (e, a, _) => s!"{uidOf d e.tok.id}:{codeStr e.code}:{a}:L"
  let kinds := (List.range d.ukind.length).map fun i => s!"{i}:{d.ukind.getD i "?"}"
  let alive := sortNat (dedup ((aliveToks d.st).map (uidOf d)))
  let ph := if !d.started then "notrunning" else phaseStr d.st.phase
  s!"log {" ".intercalate logs} | alive {" ".intercalate (alive.map toString)} | kinds {" ".intercalate kinds} | phase {ph} | lost {d.st.lost.length} | stale {d.stale + d.staleTc} | due {" ".intercalate (d.due.map toString)} | mc {" ".intercalate (d.mustCancel.map toString)}"

def runLoopCase (backend : String) (ws : List String) : String :=
  match ws with
  | nsp :: nt :: rest =>
    let parts := nsp.splitOn "+"
    let nsS := parts.getD 0 "0"
    let npS := parts.getD 1 "0"
    let ncS := parts.getD 2 "0"
    let naS := parts.getD 3 "0"
    match nsS.toNat?, nt.toNat?, npS.toNat?, ncS.toNat?, naS.toNat? with
    | some ns, some nt, some np, some nc, some na =>
      let progWords := rest.takeWhile (· ≠ "S")
      let script := (rest.dropWhile (· ≠ "S")).drop 1
      let progs := progWords.map fun w =>
        match w.splitOn "=" with
        | [_, body] => if body == "-" then [] else (body.splitOn ",").map parseSOp
        | _ => [SOp.bad]
      let pipes : List Sock := (List.range np).flatMap fun j =>
        [{ kind := 1, peer := ns + 2 * j + 1 }, { kind := 2, peer := ns + 2 * j }]
      let conns : List Sock := List.replicate nc { kind := 3, isOpen := false }
      let accs : List Sock := List.replicate na { kind := 5 }
      let d : D := { backend := backend, progs := progs, socks := List.replicate ns {} ++ pipes ++ conns ++ accs, tobjs := List.replicate nt {},
                     outstanding := List.replicate nt none, tainted := List.replicate nt false }
      render ((script.map parseSOp).foldl topOp d)
    | _, _, _, _, _ => "bad-op"
  | _ => "bad-op"

/-! ### thread pool -/

def poolDrain : Nat → Pool → Pool
  | 0, p => p
  | fuel+1, p =>
    if p.queue.isEmpty || p.shutDown then poolStep p (.workerTake 0)
    else poolDrain fuel (poolStep (poolStep p (.workerTake 0)) (.workerRun 0))

def runPoolCase (ws : List String) : String :=
  match ws with
  | n :: ops =>
    match n.toNat? with
    | some n =>
      if n == 0 then "bad-op" else
      let p0 := poolInit n
      -- the gate jobs: one per worker, each worker takes one and blocks in it
      let p1 := (List.range n).foldl (fun p _ => poolStep p (.post false)) p0
      let p2 := (List.range n).foldl (fun p w => poolStep p (.workerTake w)) p1
      let (p, cres, released) := ops.foldl (fun (acc : Pool × List String × Bool) w =>
        let (p, cres, released) := acc
        let settle (p : Pool) : Pool := if released then poolDrain (p.queue.length + 2) p else p
        match w.splitOn ":" with
        | ["p"] => (settle (poolStep p (.post false)), cres, released)
        | ["px"] => (settle (poolStep p (.post true)), cres, released)
        | ["c", id] =>
          match id.toInt? with
          | some id =>
            let p' := poolStep p (.cancel id)
            (p', cres ++ [s!"{id}:{if p'.cancelled.length > p.cancelled.length then 1 else 0}"], released)
          | none => (p, cres ++ ["bad"], released)
        | ["stop"] => (poolStep p .stop, cres, released)
        | ["rel"] =>
          if released then (p, cres, released) else
          -- gates return; every worker goes back to the top of its loop; the queue is drained
          let p := (List.range n).foldl (fun p w => poolStep p (.workerRun w)) p
          (poolDrain (p.queue.length + 2) p, cres, true)
        | _ => (p, cres ++ ["bad"], released)) (p2, [], false)
      let p := if released then p else
        poolDrain (p.queue.length + 2) ((List.range n).foldl (fun p w => poolStep p (.workerRun w)) p)
      let ran := (List.range p.jobId).map fun i => s!"{i}:{(p.ran.filter (fun j => j.id == Int.ofNat i)).length}"
      s!"ran {" ".intercalate ran} | cancel {" ".intercalate cres}"
    | none => "bad-op"
  | _ => "bad-op"

/-! ### stale timer id (known finding aio-stale-timer-id-cancels-other-timer) -/

/-- timer A (deadline now) expires and is queued; before its waiter runs, another timer B is armed and the
slot search returns A's old slot (it is free); `A.cancel()` then passes the stale id -/
def staleTimerCase : String :=
  let l : Act := .loop {}
  let s := run init [l, l, .op (.setTimer 0 5), l, l, l,        -- A armed, expired by the next run_one, queued
                     .op (.setTimer 200 5),                     -- B gets the same slot
                     .op (.cancelTimer 5),                      -- A.cancel(): stale id
                     l, l, l, l, l, l, l, l]
  let a := (s.log.filter (fun e => e.tok.id == 0)).map (fun e => codeStr e.code)
  let b := (s.log.filter (fun e => e.tok.id == 1 && e.code == .canceled)).length
  s!"A {a.length}:{" ".intercalate a} B-canceled {b}"

/-! ### judges -/

def parseObs (w : String) : Option Spec.Obs :=
  -- id:kind:dl:calls:code:at:onloop:alive:due:mustCancel
  match w.splitOn ":" with
  | [_, k, dl, calls, code, at_, onl, alive, due, mc] =>
    match dl.toNat?, calls.toNat?, code.toNat?, at_.toNat? with
    | some dl, some calls, some code, some at_ =>
      let kind := if k == "t" then Spec.HKind.timer dl else if k == "i" then .io else .plain
      some { kind := kind, calls := calls, code := code, clock := at_, onLoop := onl == "1", alive := alive == "1",
             due := due == "1", mustCancel := mc == "1" }
    | _, _, _, _ => none
  | _ => none

def judgeLoop (ws : List String) : String :=
  match ws with
  | rst :: fin :: obs =>
    let os := obs.map parseObs
    if os.any (·.isNone) then "bad-op" else
    let os := os.filterMap id
    let ok1 := os.all (Spec.handlerOK (rst == "1"))
    let ok2 := fin != "1" || os.all Spec.handlerDone
    boolStr (ok1 && ok2)
  | _ => "bad-op"

def judgePool (ws : List String) : String :=
  match ws with
  | kept :: obs =>
    let os := obs.map fun w =>
      match w.splitOn ":" with
      | [_, runs, ct] => match runs.toNat? with
        | some r => some ({ runs := r, cancelTrue := ct == "1" } : Spec.JobObs)
        | none => none
      | _ => none
    if os.any (·.isNone) then "bad-op" else
    boolStr ((os.filterMap id).all (Spec.jobOK (kept == "1")))
  | _ => "bad-op"

def stepLine (backend : String) (_ : Unit) (line : String) : Unit × String :=
  let r := match words line with
    | "L" :: rest => runLoopCase backend rest
    | "K" :: rest => runPoolCase rest
    | "J" :: rest => judgeLoop rest
    | "JK" :: rest => judgePool rest
    | "C" :: _ => "ok"   -- free-running concurrency case: judged on the implementation only
    | "X" :: _ => staleTimerCase
    | _ => "bad-op"
  ((), r)

def main (args : List String) : IO Unit := lineLoop () (stepLine (args.headD "poll"))
