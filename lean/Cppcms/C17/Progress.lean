import Cppcms.C17.Lemmas
/-! Progress of the loop thread (fairness argument behind `exactly_once_if_running`). -/
namespace Cppcms.C17

/-- operations other threads (or handlers) may issue while the loop "keeps running" -/
def KeepsRunning : Op → Prop
  | .stop => False
  | .reset => False
  | _ => True

/-- the completion has been invoked, with exactly the arguments it was queued with -/
def logged (q : QItem) (s : St) : Prop :=
  match q with
  | .fn t => ∃ clk, (⟨t, .ok, 0, clk⟩ : LogEntry) ∈ s.log
  | .ev t c n => ∃ clk, (⟨t, c, n, clk⟩ : LogEntry) ∈ s.log
  | _ => True

/-- where the completion is: `some k` = in the queue with `k` items in front, `none` = popped, being run -/
def Located (q : QItem) (s : St) : Option Nat → Prop
  | some k => ∃ pre post, s.queue = pre ++ q :: post ∧ pre.length = k
  | none => s.phase = .executing ∧ s.running = some q

/-- number of loop-thread steps after which the completion is certainly invoked -/
def need (s : St) : Option Nat → Nat
  | none => 1
  | some k =>
    match s.phase with
    | .idle => 2 * k + 3
    | .draining => if s.counter > k then 2 * k + 2 else 2 * k + 5
    | .executing => if s.counter - 1 > k then 2 * k + 3 else 2 * k + 6
    | .polling => 2 * k + 4
    | _ => 0

def Live (s : St) : Prop := s.stop = false ∧ s.phase ≠ .stopped ∧ s.phase ≠ .failed

theorem need_le (s : St) (k : Nat) : need s (some k) ≤ 2 * k + 6 := by
  simp only [need]
  cases s.phase <;> simp only [] <;> (try split) <;> omega

/-! ### other threads' operations only append to the queue -/

theorem setterBody_queue (s : St) (fd : Option Nat) (e : Ev) (t : Tok) (ok : Bool) (er : Code) :
    (∃ extra, (setterBody s fd e t ok er).queue = s.queue ++ extra) ∧ (setterBody s fd e t ok er).stop = s.stop
    ∧ (setterBody s fd e t ok er).counter = s.counter := by
  unfold setterBody
  cases fd with
  | none => exact ⟨⟨_, rfl⟩, rfl, rfl⟩
  | some fd =>
    cases ok with
    | false => exact ⟨⟨_, rfl⟩, rfl, rfl⟩
    | true => cases e <;> exact ⟨⟨[], by simp⟩, rfl, rfl⟩

theorem cancelerBody_queue (s : St) (fd : Nat) :
    (∃ extra, (cancelerBody s fd).queue = s.queue ++ extra) ∧ (cancelerBody s fd).stop = s.stop
    ∧ (cancelerBody s fd).counter = s.counter := by
  unfold cancelerBody
  dsimp only
  exact ⟨⟨optItem (ioGet s.map fd).rd .canceled ++ optItem (ioGet s.map fd).wr .canceled, by simp [List.append_assoc]⟩, rfl, rfl⟩

theorem op_frame (s : St) (o : Op) (ho : KeepsRunning o) :
    (∃ extra, (opStep s o).queue = s.queue ++ extra) ∧ (opStep s o).stop = s.stop ∧ (opStep s o).phase = s.phase
    ∧ (opStep s o).counter = s.counter ∧ (opStep s o).running = s.running ∧ (opStep s o).log = s.log := by
  cases o with
  | post => exact ⟨⟨_, rfl⟩, rfl, rfl, rfl, rfl, rfl⟩
  | postEv c n => exact ⟨⟨_, rfl⟩, rfl, rfl, rfl, rfl, rfl⟩
  | setTimer d slot => simp only [opStep]; split <;> exact ⟨⟨[], by simp⟩, rfl, rfl, rfl, rfl, rfl⟩
  | cancelTimer slot =>
    simp only [opStep]
    split
    · exact ⟨⟨[], by simp⟩, rfl, rfl, rfl, rfl, rfl⟩
    · exact ⟨⟨_, rfl⟩, rfl, rfl, rfl, rfl, rfl⟩
  | setIo fd e ok er =>
    simp only [opStep]
    split
    · exact ⟨⟨_, rfl⟩, rfl, rfl, rfl, rfl, rfl⟩
    · have h1 := setterBody_queue { s with next := s.next + 1 } fd e ⟨s.next, .io⟩ ok er
      have h2 := setterBody_frame { s with next := s.next + 1 } fd e ⟨s.next, .io⟩ ok er
      exact ⟨h1.1, h1.2.1, h2.2.1, h1.2.2, h2.1, h2.2.2⟩
  | cancelIo fd =>
    cases fd with
    | none => exact ⟨⟨[], by simp [opStep]⟩, rfl, rfl, rfl, rfl, rfl⟩
    | some fd =>
      simp only [opStep]
      split
      · exact ⟨⟨[], by simp⟩, rfl, rfl, rfl, rfl, rfl⟩
      · split
        · exact ⟨⟨_, rfl⟩, rfl, rfl, rfl, rfl, rfl⟩
        · have h1 := cancelerBody_queue s fd
          have h2 := cancelerBody_frame s fd
          exact ⟨h1.1, h1.2.1, h2.2.1, h1.2.2, h2.1, h2.2.2⟩
  | stop => exact absurd ho (by simp [KeepsRunning])
  | reset => exact absurd ho (by simp [KeepsRunning])

theorem op_keeps (q : QItem) (s : St) (o : Op) (ho : KeepsRunning o) (loc : Option Nat)
    (hl : Located q s loc) (hlive : Live s) :
    Located q (opStep s o) loc ∧ Live (opStep s o) ∧ need (opStep s o) loc = need s loc := by
  obtain ⟨⟨extra, hq⟩, hs, hp, hc, hr, _⟩ := op_frame s o ho
  refine ⟨?_, ⟨by rw [hs]; exact hlive.1, by rw [hp]; exact hlive.2.1, by rw [hp]; exact hlive.2.2⟩, ?_⟩
  · cases loc with
    | none => exact ⟨by rw [hp]; exact hl.1, by rw [hr]; exact hl.2⟩
    | some k =>
      obtain ⟨pre, post, h1, h2⟩ := hl
      exact ⟨pre, post ++ extra, by rw [hq, h1]; simp, h2⟩
  · cases loc with
    | none => rfl
    | some k => simp only [need, hp, hc]

theorem ops_keep (q : QItem) (ops : List Op) (s : St) (ho : ∀ o ∈ ops, KeepsRunning o) (loc : Option Nat)
    (hl : Located q s loc) (hlive : Live s) :
    Located q (ops.foldl opStep s) loc ∧ Live (ops.foldl opStep s) ∧ need (ops.foldl opStep s) loc = need s loc := by
  induction ops generalizing s with
  | nil => exact ⟨hl, hlive, rfl⟩
  | cons o os ih =>
    simp only [List.foldl_cons]
    obtain ⟨h1, h2, h3⟩ := op_keeps q s o (ho o (by simp)) loc hl hlive
    obtain ⟨h4, h5, h6⟩ := ih (opStep s o) (fun o' h' => ho o' (by simp [h'])) h1 h2
    exact ⟨h4, h5, by rw [h6, h3]⟩

/-! ### the log only grows -/

theorem log_mono_op (s : St) (o : Op) (e : LogEntry) (h : e ∈ s.log) : e ∈ (opStep s o).log := by
  have : (opStep s o).log = s.log := by
    cases o with
    | stop => rfl
    | reset => simp only [opStep]; split <;> rfl
    | post => exact (op_frame s .post trivial).2.2.2.2.2
    | postEv c n => exact (op_frame s (.postEv c n) trivial).2.2.2.2.2
    | setTimer d sl => exact (op_frame s (.setTimer d sl) trivial).2.2.2.2.2
    | cancelTimer sl => exact (op_frame s (.cancelTimer sl) trivial).2.2.2.2.2
    | setIo fd ev ok er => exact (op_frame s (.setIo fd ev ok er) trivial).2.2.2.2.2
    | cancelIo fd => exact (op_frame s (.cancelIo fd) trivial).2.2.2.2.2
  rw [this]; exact h

theorem log_mono_loop (s : St) (i : LoopInp) (e : LogEntry) (h : e ∈ s.log) : e ∈ (loopStep s i).log := by
  unfold loopStep
  split
  · exact h
  · split
    · split
      · exact h
      · unfold loopStep.afterDrain; dsimp only; split <;> exact h
    · unfold loopStep.afterDrain; dsimp only; split <;> exact h
  · split
    · rename_i q hq
      cases q with
      | fn t => simp [execItem]; exact Or.inl h
      | ev t c n => simp [execItem]; exact Or.inl h
      | setter fd ev t =>
        simp only [execItem]
        rw [(setterBody_frame s fd ev t i.selOk i.selErr).2.2]; exact h
      | canceler fd =>
        simp only [execItem]
        rw [(cancelerBody_frame s fd).2.2]; exact h
    · exact h
  · dsimp only
    split
    · exact h
    · rw [(dispatchAll_frame (if i.pollErr = true then [] else i.events) _).2]; exact h
  · exact h
  · exact h

theorem logged_mono (q : QItem) (s : St) (a : Act) (h : logged q s) : logged q (step s a) := by
  have hm : ∀ e, e ∈ s.log → e ∈ (step s a).log := by
    intro e he
    cases a with
    | op o => exact log_mono_op s o e he
    | loop i => exact log_mono_loop s i e he
  cases q with
  | fn t => obtain ⟨clk, hc⟩ := h; exact ⟨clk, hm _ hc⟩
  | ev t c n => obtain ⟨clk, hc⟩ := h; exact ⟨clk, hm _ hc⟩
  | setter fd e t => trivial
  | canceler fd => trivial

theorem logged_mono_run (q : QItem) (as : List Act) (s : St) (h : logged q s) : logged q (run s as) := by
  induction as generalizing s with
  | nil => exact h
  | cons a as ih => simp only [run, List.foldl_cons]; exact ih _ (logged_mono q s a h)

/-! ### one step of the loop thread brings the completion strictly closer -/

theorem dispatchAll_queue (evs : List Event) (s : St) :
    ∃ extra, (evs.foldl dispatchFd s).queue = s.queue ++ extra := by
  induction evs generalizing s with
  | nil => exact ⟨[], by simp⟩
  | cons e es ih =>
    simp only [List.foldl_cons]
    obtain ⟨x, hx⟩ := ih (dispatchFd s e)
    refine ⟨_, by rw [hx]; simp only [dispatchFd, List.append_assoc]; rfl⟩

theorem dispatchAll_stop (evs : List Event) (s : St) : (evs.foldl dispatchFd s).stop = s.stop := by
  induction evs generalizing s with
  | nil => rfl
  | cons e es ih => simp only [List.foldl_cons]; rw [ih]; rfl

theorem loop_progress (q : QItem) (s : St) (i : LoopInp) (loc : Option Nat)
    (hl : Located q s loc) (hlive : Live s) :
    logged q (loopStep s i) ∨
    ∃ loc', Located q (loopStep s i) loc' ∧ Live (loopStep s i) ∧ need (loopStep s i) loc' + 1 ≤ need s loc := by
  obtain ⟨hstop, hns, hnf⟩ := hlive
  cases loc with
  | none =>
    left
    obtain ⟨hp, hr⟩ := hl
    cases q with
    | fn t => exact ⟨s.clock, by simp [loopStep, hp, hr, execItem]⟩
    | ev t c n => exact ⟨s.clock, by simp [loopStep, hp, hr, execItem]⟩
    | setter fd e t => trivial
    | canceler fd => trivial
  | some k =>
    right
    obtain ⟨pre, post, hq, hk⟩ := hl
    cases hp : s.phase with
    | idle =>
      refine ⟨some k, ⟨pre, post, by simp [loopStep, hp, hq], hk⟩, ⟨by simp [loopStep, hp, hstop], by simp [loopStep, hp], by simp [loopStep, hp]⟩, ?_⟩
      simp [need, loopStep, hp, hq]
      split <;> omega
    | draining =>
      cases pre with
      | nil =>
        -- our item is at the head
        simp at hk
        subst hk
        by_cases hc : s.counter > 0
        · refine ⟨none, ?_, ?_, ?_⟩
          · simp [Located, loopStep, hp, hq, hstop, hc]
          · simp [Live, loopStep, hp, hq, hstop, hc]
          · simp [need, loopStep, hp, hq, hstop, hc]
        · have hc0 : s.counter = 0 := by omega
          refine ⟨some 0, ?_, ?_, ?_⟩
          · refine ⟨[], post ++ (dueTimers i.now s.timers).map (fun t => QItem.ev t.tok .ok 0), ?_, rfl⟩
            simp [loopStep, hp, hq, hstop, hc0, loopStep.afterDrain]
          · simp [Live, loopStep, hp, hq, hstop, hc0, loopStep.afterDrain]
          · simp [need, loopStep, hp, hq, hstop, hc0, loopStep.afterDrain]
      | cons x xs =>
        simp at hk
        by_cases hc : s.counter > 0
        · refine ⟨some xs.length, ⟨xs, post, ?_, rfl⟩, ?_, ?_⟩
          · simp [loopStep, hp, hq, hstop, hc]
          · simp [Live, loopStep, hp, hq, hstop, hc]
          · simp [need, loopStep, hp, hq, hstop, hc]
            split <;> split <;> omega
        · have hc0 : s.counter = 0 := by omega
          refine ⟨some k, ⟨x :: xs, post ++ (dueTimers i.now s.timers).map (fun t => QItem.ev t.tok .ok 0), ?_, by simpa using hk⟩, ?_, ?_⟩
          · simp [loopStep, hp, hq, hstop, hc0, loopStep.afterDrain]
          · simp [Live, loopStep, hp, hq, hstop, hc0, loopStep.afterDrain]
          · simp [need, loopStep, hp, hq, hstop, hc0, loopStep.afterDrain]
    | executing =>
      have hframe : ∃ extra, (loopStep s i).queue = s.queue ++ extra ∧ (loopStep s i).stop = s.stop
          ∧ (loopStep s i).phase = .draining ∧ (loopStep s i).counter = s.counter - 1 := by
        simp only [loopStep, hp]
        split
        · rename_i r hr
          cases r with
          | fn t => exact ⟨[], by simp [execItem], rfl, rfl, rfl⟩
          | ev t c n => exact ⟨[], by simp [execItem], rfl, rfl, rfl⟩
          | setter fd e t =>
            obtain ⟨⟨x, hx⟩, h2, _⟩ := setterBody_queue s fd e t i.selOk i.selErr
            exact ⟨x, by simp [execItem, hx], by simp [execItem, h2], rfl, rfl⟩
          | canceler fd =>
            obtain ⟨⟨x, hx⟩, h2, _⟩ := cancelerBody_queue s fd
            exact ⟨x, by simp [execItem, hx], by simp [execItem, h2], rfl, rfl⟩
        · exact ⟨[], by simp, rfl, rfl, rfl⟩
      obtain ⟨extra, h1, h2, h3, h4⟩ := hframe
      refine ⟨some k, ⟨pre, post ++ extra, by rw [h1, hq]; simp, hk⟩, ⟨by rw [h2]; exact hstop, by rw [h3]; decide, by rw [h3]; decide⟩, ?_⟩
      simp only [need, h3, h4, hp]
      split <;> omega
    | polling =>
      have hne : s.queue.isEmpty = false := by rw [hq]; cases pre <;> rfl
      obtain ⟨extra, hx⟩ := dispatchAll_queue (if i.pollErr = true then [] else i.events) { s with polling := false }
      have hst := dispatchAll_stop (if i.pollErr = true then [] else i.events) { s with polling := false }
      have hls : loopStep s i = { ((if i.pollErr = true then [] else i.events).foldl dispatchFd { s with polling := false }) with phase := .idle } := by
        simp [loopStep, hp, hne]
      refine ⟨some k, ⟨pre, post ++ extra, ?_, hk⟩, ⟨?_, ?_, ?_⟩, ?_⟩
      · rw [hls]
        show ((if i.pollErr = true then [] else i.events).foldl dispatchFd { s with polling := false }).queue = _
        rw [hx]
        show s.queue ++ extra = _
        rw [hq]; simp
      · rw [hls]
        show ((if i.pollErr = true then [] else i.events).foldl dispatchFd { s with polling := false }).stop = false
        rw [hst]; exact hstop
      · rw [hls]; simp
      · rw [hls]; simp
      · rw [hls]; simp [need, hp]
    | stopped => exact absurd hp hns
    | failed => exact absurd hp hnf

/-- a fair history: after every finite batch of other threads' operations the loop thread takes a step -/
def fairActs : List (List Op × LoopInp) → List Act
  | [] => []
  | (ops, i) :: more => ops.map Act.op ++ [Act.loop i] ++ fairActs more

theorem run_ops (ops : List Op) (s : St) : run s (ops.map Act.op) = ops.foldl opStep s := by
  induction ops generalizing s with
  | nil => rfl
  | cons o os ih => simp only [List.map_cons, run, List.foldl_cons, step]; exact ih _

theorem run_append (a b : List Act) (s : St) : run s (a ++ b) = run (run s a) b := by
  simp [run, List.foldl_append]

theorem fair_progress_loop (q : QItem) (n : Nat) (rounds : List (List Op × LoopInp)) (s : St) (loc : Option Nat)
    (hl : Located q s loc) (hlive : Live s) (hn : need s loc ≤ n) (hlen : n ≤ rounds.length)
    (ho : ∀ r ∈ rounds, ∀ o ∈ r.1, KeepsRunning o) :
    logged q (run s (fairActs rounds)) := by
  induction n generalizing s loc rounds with
  | zero =>
    -- need is never 0 for a live located completion
    exfalso
    cases loc with
    | none => simp [need] at hn
    | some k =>
      obtain ⟨_, h2, h3⟩ := hlive
      unfold need at hn
      cases hp : s.phase <;> simp [hp] at hn h2 h3 <;> (try split at hn) <;> omega
  | succ m ih =>
    cases rounds with
    | nil => simp at hlen
    | cons r more =>
      obtain ⟨ops, i⟩ := r
      simp only [fairActs]
      rw [run_append, run_append, run_ops]
      obtain ⟨h1, h2, h3⟩ := ops_keep q ops s (ho (ops, i) (by simp)) loc hl hlive
      have hstep : run (ops.foldl opStep s) [Act.loop i] = loopStep (ops.foldl opStep s) i := rfl
      rw [hstep]
      rcases loop_progress q (ops.foldl opStep s) i loc h1 h2 with hdone | ⟨loc', h4, h5, h6⟩
      · exact logged_mono_run q _ _ hdone
      · exact ih more _ loc' h4 h5 (by omega) (by simpa using hlen) (fun r hr => ho r (by simp [hr]))

end Cppcms.C17
