/-!
# C17 — specification-level predicates (independent of the model)

What the property demands of *observations* of one scenario: for every handler that was
given to the loop, how often it was invoked, on which thread, with which code, at which
(virtual) time, and whether the loop still holds it.  `checks/c17.py` evaluates these
predicates (through `Driver.lean`, `J …` lines) on what the real library did.
-/
namespace Cppcms.C17.Spec

inductive HKind
  | plain
  | timer (deadline : Nat)
  | io
  deriving DecidableEq, Repr

/-- codes as small numbers: 0 ok, 1 canceled, 2 select_failed, 3 EBADF, 4 other system error -/
abbrev CodeNo := Nat

structure Obs where
  kind : HKind
  calls : Nat              -- number of invocations
  code : CodeNo            -- code of the (first) invocation
  clock : Nat              -- clock when invoked
  onLoop : Bool            -- invoked on the thread inside run()
  alive : Bool             -- the loop still holds a reference (armed or queued)
  due : Bool := false        -- the kernel reported the awaited condition (ready / hang-up / error) while it was armed
  mustCancel : Bool := false -- its owner cancelled the (only outstanding) wait before the deadline had been reached
  deriving Repr

/-- at most once, on the loop thread, never silently destroyed while the loop was not reset,
    a timer not before its deadline, and only codes that the registration kind can produce -/
def handlerOK (resetHappened : Bool) (o : Obs) : Bool :=
  decide (o.calls ≤ 1)
  && (o.calls == 0 || o.onLoop)
  && (o.calls == 1 || o.alive || resetHappened)
  && (o.calls == 0 || !o.alive)
  && (match o.kind with
      | .timer d => o.calls == 0 || (o.code == 1) || (o.code == 0 && decide (d ≤ o.clock))
      | .io => o.calls == 0 || decide (o.code ≤ 4)
      | .plain => true)
  -- "with success when the event happened": a wait whose event was reported must have been completed by it
  -- (invoked, and not with `canceled` by some later cancel/close) …
  && (!o.due || (o.calls == 1 && o.code != 1))
  -- … "or with a cancellation code if the timer was cancelled first"
  && (!o.mustCancel || (o.calls == 1 && o.code == 1))

/-- exactly once: demanded at the end of a scenario in which the loop kept running and every
    timer was cancelled / every descriptor closed before the final settling steps -/
def handlerDone (o : Obs) : Bool := o.calls == 1 && !o.alive

/-- pool job: at most once; exactly once if the pool kept running and cancel did not return true;
    never if cancel returned true -/
structure JobObs where
  runs : Nat
  cancelTrue : Bool
  deriving Repr

def jobOK (poolKeptRunning : Bool) (j : JobObs) : Bool :=
  decide (j.runs ≤ 1) && (!j.cancelTrue || j.runs == 0) && (!poolKeptRunning || j.cancelTrue || j.runs == 1)

end Cppcms.C17.Spec
