import Cppcms.C17.PoolLemmas
/-! Fair schedule for the pool: one live worker keeps cycling while clients post and cancel other jobs. -/
namespace Cppcms.C17

/-- operations of client threads that neither stop the pool nor cancel job `id` -/
def ClientOp (id : Int) : PoolOp → Prop
  | .post _ => True
  | .cancel k => k ≠ id
  | _ => False

/-- worker `w` is alive, idle, and the pool is not shut down -/
def Ready (w : Nat) (p : Pool) : Prop :=
  p.shutDown = false ∧ w < p.workers.length ∧ p.exited.getD w true = false ∧ p.workers.getD w none = none

/-- job `j` is queued with at most `i` jobs in front of it -/
def QueuedWithin (j : Job) (i : Nat) (p : Pool) : Prop :=
  ∃ pre post, p.queue = pre ++ j :: post ∧ pre.length ≤ i

theorem eraseFirst_keeps (k : Int) (j : Job) (hk : k ≠ j.id) (pre post : List Job) :
    ∃ pre' post', eraseFirst k (pre ++ j :: post) = pre' ++ j :: post' ∧ pre'.length ≤ pre.length := by
  induction pre with
  | nil =>
    refine ⟨[], eraseFirst k post, ?_, Nat.le_refl _⟩
    simp [eraseFirst, Ne.symm hk]
  | cons x xs ih =>
    by_cases hx : x.id = k
    · exact ⟨xs, post, by simp [eraseFirst, hx], by simp⟩
    · obtain ⟨pre', post', h1, h2⟩ := ih
      exact ⟨x :: pre', post', by simp [eraseFirst, hx, h1], by simpa using h2⟩

theorem client_keeps (j : Job) (i w : Nat) (p : Pool) (o : PoolOp) (ho : ClientOp j.id o)
    (hr : Ready w p) (hq : QueuedWithin j i p) :
    Ready w (poolStep p o) ∧ QueuedWithin j i (poolStep p o) ∧ (poolStep p o).ran = p.ran := by
  cases o with
  | post th =>
    obtain ⟨pre, post, h1, h2⟩ := hq
    exact ⟨hr, ⟨pre, post ++ [⟨(p.jobId : Int), th⟩], by simp [poolStep, h1], h2⟩, rfl⟩
  | cancel k =>
    simp only [poolStep]
    split
    · obtain ⟨pre, post, h1, h2⟩ := hq
      obtain ⟨pre', post', h3, h4⟩ := eraseFirst_keeps k j ho pre post
      exact ⟨hr, ⟨pre', post', by simp [h1, h3], Nat.le_trans h4 h2⟩, rfl⟩
    · exact ⟨hr, hq, rfl⟩
  | stop => exact absurd ho (by simp [ClientOp])
  | workerTake w' => exact absurd ho (by simp [ClientOp])
  | workerRun w' => exact absurd ho (by simp [ClientOp])

theorem clients_keep (j : Job) (i w : Nat) (ops : List PoolOp) (p : Pool) (ho : ∀ o ∈ ops, ClientOp j.id o)
    (hr : Ready w p) (hq : QueuedWithin j i p) :
    Ready w (poolRun p ops) ∧ QueuedWithin j i (poolRun p ops) ∧ (poolRun p ops).ran = p.ran := by
  induction ops generalizing p with
  | nil => exact ⟨hr, hq, rfl⟩
  | cons o os ih =>
    simp only [poolRun, List.foldl_cons]
    obtain ⟨h1, h2, h3⟩ := client_keeps j i w p o (ho o (by simp)) hr hq
    obtain ⟨h4, h5, h6⟩ := ih (poolStep p o) (fun o' h' => ho o' (by simp [h'])) h1 h2
    exact ⟨h4, h5, by rw [← h3]; exact h6⟩

/-- one take/run cycle of the ready worker: the head of the queue is started, the worker is ready again -/
theorem cycle (w : Nat) (p : Pool) (x : Job) (rest : List Job) (hr : Ready w p) (hq : p.queue = x :: rest) :
    let p' := poolStep (poolStep p (.workerTake w)) (.workerRun w)
    Ready w p' ∧ p'.queue = rest ∧ p'.ran = p.ran ++ [x] := by
  obtain ⟨h1, h2, h3, h4⟩ := hr
  have hget : (p.workers.set w (some x)).getD w none = some x := by
    simp [List.getD, List.getElem?_set_self h2]
  have ht : poolStep p (.workerTake w) = { p with queue := rest, workers := p.workers.set w (some x) } := by
    simp only [poolStep]
    rw [if_pos ⟨h2, h3, h4⟩]
    simp [h1, hq, Gen.workerRemovesJobUnderLock]
  have hrun : ∀ q : Pool, q.workers.getD w none = some x →
      poolStep q (.workerRun w) = { q with ran := q.ran ++ [x], workers := q.workers.set w none } := by
    intro q hq'
    simp only [poolStep]
    rw [hq']
    simp [Gen.workerCatchesAll]
  intro p'
  have hp' : p' = { p with queue := rest, workers := (p.workers.set w (some x)).set w none, ran := p.ran ++ [x] } := by
    show poolStep (poolStep p (.workerTake w)) (.workerRun w) = _
    rw [ht, hrun _ hget]
  have hp'' := hp'
  clear_value p'
  subst hp''
  refine ⟨⟨h1, by simpa using h2, h3, ?_⟩, rfl, rfl⟩
  simp [List.getD, List.getElem?_set_self h2]

/-- the fair schedule: after each batch of client operations the worker does one take/run cycle -/
def fairRun (w : Nat) : Pool → List (List PoolOp) → Pool
  | p, [] => p
  | p, ext :: more => fairRun w (poolStep (poolStep (poolRun p ext) (.workerTake w)) (.workerRun w)) more

theorem ran_mono_step (id : Int) (p : Pool) (o : PoolOp) : jcnt id p.ran ≤ jcnt id (poolStep p o).ran := by
  cases o with
  | post th => exact Nat.le_refl _
  | cancel k => simp only [poolStep]; split <;> exact Nat.le_refl _
  | stop => exact Nat.le_refl _
  | workerTake w =>
    simp only [poolStep]
    split
    · split
      · exact Nat.le_refl _
      · split <;> exact Nat.le_refl _
    · exact Nat.le_refl _
  | workerRun w =>
    simp only [poolStep]
    split
    · split <;> simp
    · exact Nat.le_refl _

theorem ran_mono_run (id : Int) (ops : List PoolOp) (p : Pool) : jcnt id p.ran ≤ jcnt id (poolRun p ops).ran := by
  induction ops generalizing p with
  | nil => exact Nat.le_refl _
  | cons o os ih =>
    simp only [poolRun, List.foldl_cons]
    exact Nat.le_trans (ran_mono_step id p o) (ih _)

theorem ran_mono_fair (id : Int) (w : Nat) (rounds : List (List PoolOp)) (p : Pool) :
    jcnt id p.ran ≤ jcnt id (fairRun w p rounds).ran := by
  induction rounds generalizing p with
  | nil => exact Nat.le_refl _
  | cons ext more ih =>
    simp only [fairRun]
    refine Nat.le_trans ?_ (ih _)
    exact Nat.le_trans (ran_mono_run id ext p)
      (Nat.le_trans (ran_mono_step id _ (.workerTake w)) (ran_mono_step id _ (.workerRun w)))

theorem fair_progress (j : Job) (w : Nat) (i : Nat) (rounds : List (List PoolOp)) (p : Pool)
    (hr : Ready w p) (hq : QueuedWithin j i p) (hlen : i + 1 ≤ rounds.length)
    (ho : ∀ ext ∈ rounds, ∀ o ∈ ext, ClientOp j.id o) :
    1 ≤ jcnt j.id (fairRun w p rounds).ran := by
  induction i generalizing p rounds with
  | zero =>
    cases rounds with
    | nil => simp at hlen
    | cons ext more =>
      simp only [fairRun]
      obtain ⟨h1, ⟨pre, post, h2, h3⟩, h4⟩ := clients_keep j 0 w ext p (ho ext (by simp)) hr hq
      have hpre : pre = [] := by cases pre <;> simp_all
      subst hpre
      obtain ⟨_, _, h7⟩ := cycle w (poolRun p ext) j post h1 (by simpa using h2)
      refine Nat.le_trans ?_ (ran_mono_fair j.id w more _)
      rw [h7]
      simp [jcnt_cons]
  | succ n ih =>
    cases rounds with
    | nil => simp at hlen
    | cons ext more =>
      simp only [fairRun]
      obtain ⟨h1, ⟨pre, post, h2, h3⟩, h4⟩ := clients_keep j (n+1) w ext p (ho ext (by simp)) hr hq
      cases pre with
      | nil =>
        obtain ⟨_, _, h7⟩ := cycle w (poolRun p ext) j post h1 (by simpa using h2)
        refine Nat.le_trans ?_ (ran_mono_fair j.id w more _)
        rw [h7]
        simp [jcnt_cons]
      | cons x xs =>
        obtain ⟨h5, h6, _⟩ := cycle w (poolRun p ext) x (xs ++ j :: post) h1 (by simpa using h2)
        exact ih more _ h5 ⟨xs, post, h6, by simpa using h3⟩ (by simpa using hlen)
          (fun e he => ho e (by simp [he]))

end Cppcms.C17
