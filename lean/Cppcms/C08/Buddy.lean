import Cppcms.Common
import Cppcms.C08.Gen
import Cppcms.C07.Gen
/-!
# C08 — model of `cppcms::impl::buddy_allocator` (private/buddy_allocator.h)

The arena is the forest of the power-of-two chunks the constructor carves out of the usable
memory (one chunk per set bit, largest first).  Each chunk of order `n` is a binary tree:
a leaf is a whole block (free or in use), a node a block split into its two buddies of order
`n-1` (lower address left).  `get_buddy` (`offset xor 2^bits`) is the sibling; the test
`buddy->bits == bits` in `free_page` ("buddy is a free block of the same order") is "the sibling
is a free leaf".

*Which* free block `malloc` takes (smallest sufficient order, head of that free list, lowest
address when splitting) is **not** modelled: `allocAt` takes the address the real allocator
returned (an oracle in the correspondence run) and only requires it to lie in a free leaf.
The theorems hold for every choice.
-/
namespace Cppcms.C08.Buddy
open Cppcms

inductive T where
  | free
  | used
  | node (l r : T)
deriving DecidableEq, Repr

/-- coalescing: two free buddies make one free block (`free_page`'s loop, one level) -/
def mk (l r : T) : T := if l = .free ∧ r = .free then .free else .node l r

/-- mark the block of order `k` at offset `off` (relative to this tree of order `n`) as in use,
splitting free blocks on the way down (`page_alloc`'s recursion); `none` if that is not a free region -/
def allocAt : (n : Nat) → T → (k off : Nat) → Option T
  | 0, t, k, off => if k = 0 ∧ t = .free ∧ off = 0 then some .used else none
  | n' + 1, t, k, off =>
    if n' + 1 = k then (if t = .free ∧ off = 0 then some .used else none)
    else match t with
      | .used => none
      | .free =>
        if off < 2 ^ n' then (allocAt n' .free k off).map (fun l => .node l .free)
        else (allocAt n' .free k (off - 2 ^ n')).map (fun r => .node .free r)
      | .node l r =>
        if off < 2 ^ n' then (allocAt n' l k off).map (fun l' => .node l' r)
        else (allocAt n' r k (off - 2 ^ n')).map (fun r' => .node l r')

/-- free the in-use block starting at `off`, coalescing upwards; returns the order freed -/
def freeAt : (n : Nat) → T → (off : Nat) → Option (T × Nat)
  | n, .used, off => if off = 0 then some (.free, n) else none
  | _, .free, _ => none
  | n, .node l r, off =>
    if off < 2 ^ (n - 1) then (freeAt (n - 1) l off).map (fun p => (mk p.1 r, p.2))
    else (freeAt (n - 1) r (off - 2 ^ (n - 1))).map (fun p => (mk l p.1, p.2))

/-- normal form: no two free buddies side by side (everything that can be coalesced is) -/
def Normal : T → Prop
  | .free => True
  | .used => True
  | .node l r => Normal l ∧ Normal r ∧ ¬ (l = .free ∧ r = .free)

def hasUsed : T → Bool
  | .free => false
  | .used => true
  | .node l r => hasUsed l || hasUsed r

/-- in-use blocks as (offset, order), left to right -/
def usedBlocks : (n : Nat) → (base : Nat) → T → List (Nat × Nat)
  | n, base, .used => [(base, n)]
  | _, _, .free => []
  | n, base, .node l r => usedBlocks (n - 1) base l ++ usedBlocks (n - 1) (base + 2 ^ (n - 1)) r

/-- free blocks as (offset, order), left to right -/
def freeBlocks : (n : Nat) → (base : Nat) → T → List (Nat × Nat)
  | n, base, .free => [(base, n)]
  | _, _, .used => []
  | n, base, .node l r => freeBlocks (n - 1) base l ++ freeBlocks (n - 1) (base + 2 ^ (n - 1)) r

def freeBytes : (n : Nat) → T → Nat
  | n, .free => 2 ^ n
  | _, .used => 0
  | n, .node l r => freeBytes (n - 1) l + freeBytes (n - 1) r

def usedBytes : (n : Nat) → T → Nat
  | n, .used => 2 ^ n
  | _, .free => 0
  | n, .node l r => usedBytes (n - 1) l + usedBytes (n - 1) r

/-- well-shaped for its order: no split below order 0 -/
def Shaped : (n : Nat) → T → Prop
  | _, .free => True
  | _, .used => True
  | n, .node l r => 0 < n ∧ Shaped (n - 1) l ∧ Shaped (n - 1) r

/-! ### the arena: chunks of decreasing order -/

structure Chunk where
  order : Nat
  base : Nat
  tree : T
deriving Repr

abbrev Arena := List Chunk

/-- the constructor: one chunk per set bit of the usable size, largest first, down to the smallest
order the allocator uses (`containts_bits`, `alignment_bits + 1`) -/
def initChunks : (fuel : Nat) → (pos rem : Nat) → Arena
  | 0, _, _ => []
  | fuel + 1, pos, rem =>
    let bits := Nat.log2 rem
    if rem = 0 ∨ bits < Gen.minBits then []
    else ⟨bits, pos, .free⟩ :: initChunks fuel (pos + 2 ^ bits) (rem - 2 ^ bits)

def init (usable : Nat) : Arena := initChunks 64 0 usable

def Arena.allocAt : Arena → (k off : Nat) → Option Arena
  | [], _, _ => none
  | c :: cs, k, off =>
    if c.base ≤ off ∧ off < c.base + 2 ^ c.order then
      (Buddy.allocAt c.order c.tree k (off - c.base)).map (fun t => { c with tree := t } :: cs)
    else (Arena.allocAt cs k off).map (c :: ·)

def Arena.freeAt : Arena → (off : Nat) → Option (Arena × Nat)
  | [], _ => none
  | c :: cs, off =>
    if c.base ≤ off ∧ off < c.base + 2 ^ c.order then
      (Buddy.freeAt c.order c.tree (off - c.base)).map (fun p => ({ c with tree := p.1 } :: cs, p.2))
    else (Arena.freeAt cs off).map (fun p => (c :: p.1, p.2))

def Arena.freeBlocks (a : Arena) : List (Nat × Nat) := a.flatMap fun c => Buddy.freeBlocks c.order c.base c.tree
def Arena.usedBlocks (a : Arena) : List (Nat × Nat) := a.flatMap fun c => Buddy.usedBlocks c.order c.base c.tree
def Arena.Normal (a : Arena) : Prop := ∀ c ∈ a, Buddy.Normal c.tree

inductive BOp where
  | alloc (k off : Nat)
  | free (off : Nat)
deriving Repr

def Arena.step (a : Arena) : BOp → Option Arena
  | .alloc k off => a.allocAt k off
  | .free off => (a.freeAt off).map (·.1)

/-- run a sequence of operations; `none` as soon as one is not valid in the model -/
def Arena.run : Arena → List BOp → Option Arena
  | a, [] => some a
  | a, op :: ops => match a.step op with
    | some a' => Arena.run a' ops
    | none => none

def Arena.skeleton (a : Arena) : List (Nat × Nat) := a.map fun c => (c.order, c.base)
def Arena.AllFree (a : Arena) : Prop := ∀ c ∈ a, c.tree = .free

/-- `get_bits(n)`: the first `i` with `2^i ≥ n` (or `> n`, whichever comparison the source has) -/
def orderOfSize (n : Nat) : Nat :=
  if Gen.getBitsInclusive then (if n ≤ 1 then 0 else Nat.log2 (n - 1) + 1)
  else (if n = 0 then 0 else Nat.log2 n + 1)

/-- `malloc(required)`: block size incl. header, rounded to the alignment; its order (`get_bits`) -/
def orderOf (required : Nat) : Nat := orderOfSize (Gen.blockSize required)

/-- would `page_alloc(k)` succeed: some free block of order ≥ k exists -/
def Arena.canAlloc (a : Arena) (k : Nat) : Bool := a.freeBlocks.any fun b => k ≤ b.2

/-- `total_free_memory()` and `max_free_chunk()` as the code computes them (per block minus one alignment unit;
`max_free_chunk` multiplies by the number of free blocks of the largest free order) -/
def Arena.totalFree (a : Arena) : Nat := (a.freeBlocks.map fun b => 2 ^ b.2 - Gen.alignment).sum
def Arena.maxFreeChunk (a : Arena) : Nat :=
  match (a.freeBlocks.map (·.2)).foldl max 0 with
  | 0 => 0
  | m => (a.freeBlocks.filter (·.2 == m)).length * (2 ^ m - Gen.alignment)

/-- `process_settings::not_enough_memory()` over the allocator model: `shmem_control::max_available()` is the
allocator's `max_free_chunk()` (`Gen.maxAvailableIsMaxFreeChunk`, read by the translator), compared with the
generated fraction of the segment size -/
def Arena.notEnoughMemory (a : Arena) (segment : Nat) : Bool :=
  Cppcms.C07.Gen.processNotEnoughMemory a.maxFreeChunk segment

end Cppcms.C08.Buddy
