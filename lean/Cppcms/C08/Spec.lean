import Cppcms.C07.Spec
/-!
# C08 — reference cache with eviction, written from the property text

Independent of `Gen.lean` and of the concrete model: a cache is the list of the entries it holds,
in recency order (most recently stored or fetched first), each with the sequence number of its
store.  With a limit of `n > 0` entries, room is made before a store: as long as `n` or more
entries are held, an entry whose deadline has passed is dropped — the one with the earliest
deadline, the earliest stored among equals — and if there is none, the least recently used one.

For the process-shared variant the allocator's outcomes are inputs (`StoreEnv`): while it reports low
memory (`lowMem`) room is made by the same rule; a value that cannot be copied leaves the key absent;
an allocation failure while inserting empties the cache.

This is what "the reported key and trigger counts always equal those implied by the history under
this rule" refers to; the driver's `J8` judge runs it over the implementation's history (for the
process-shared cache with the low-memory answers computed by the harness from the allocator's own
state) and demands *identical* answers and counts.
-/
namespace Cppcms.C08
open Cppcms Cppcms.C07

structure REntry where
  key : Key
  val : Val
  trigs : List Key
  deadline : Time
  gen : Gen
  seq : Nat
deriving Repr

structure Ref where
  entries : List REntry := []
  limit : Nat := 0
  nextSeq : Nat := 0
  generation : Gen := 0
deriving Repr

namespace Ref

def find (r : Ref) (k : Key) : Option REntry := r.entries.find? (·.key == k)

def drop (r : Ref) (k : Key) : Ref := { r with entries := r.entries.filter (·.key != k) }

/-- earlier deadline first, earlier store first among equal deadlines -/
def before (a b : REntry) : Bool := a.deadline < b.deadline || (a.deadline == b.deadline && a.seq < b.seq)

def minBy : List REntry → Option REntry
  | [] => none
  | a :: l => match minBy l with
    | none => some a
    | some b => if before a b then some a else some b

/-- the entry to drop next -/
def victim (r : Ref) (now : Time) : Option Key :=
  match minBy (r.entries.filter (·.deadline < now)) with
  | some e => some e.key
  | none => r.entries.getLast?.map (·.key)

/-- Room is made before a store: as long as entries are held and either the allocator reports low
memory (`mem`: its successive answers, `false` once exhausted) or `limit` (> 0) or more entries are
held, the `victim` is dropped. -/
def makeRoom : Nat → Ref → Time → List Bool → Ref
  | 0, r, _, _ => r
  | fuel + 1, r, now, mem =>
    if r.entries.length > 0 ∧ (mem.headD false = true ∨ (r.limit > 0 ∧ r.entries.length ≥ r.limit)) then
      match victim r now with
      | some k => makeRoom fuel (r.drop k) now mem.tail
      | none => r
    else r

/-- put a freshly stored entry in front (most recently used), stamped with the next sequence number -/
def insertEntry (r : Ref) (k : Key) (v : Val) (trigs : List Key) (d : Time) (gen : Option Gen) : Ref :=
  { r with entries := ⟨k, v, ownTrigs k trigs, d, gen.getD r.generation, r.nextSeq⟩ :: r.entries,
           nextSeq := r.nextSeq + 1,
           generation := if gen.isNone then r.generation + 1 else r.generation }

def step (r : Ref) : Op → Ref × Out
  | .fetch now k =>
    match r.find k with
    | none => (r, .miss)
    | some e =>
      if e.deadline < now then (r, .miss)
      else
        let r1 := r.drop k
        ({ r1 with entries := e :: r1.entries }, .hit e.val e.trigs e.deadline e.gen)
  | .store now k v trigs d gen env =>
    if env.copyFails then (r.drop k, .done)          -- the value cannot be stored: the key is simply absent afterwards
    else match env.lateFails with
      | some bumped =>                                  -- allocation failure while inserting: the cache empties itself
        ({ r with entries := [], generation := if bumped && gen.isNone then r.generation + 1 else r.generation }, .done)
      | none =>
        let r1 := r.drop k
        let r2 := makeRoom r1.entries.length r1 now env.lowMem
        (r2.insertEntry k v trigs d gen, .done)
  | .rise t => ({ r with entries := r.entries.filter (fun e => !e.trigs.contains t) }, .done)
  | .remove k => (r.drop k, .done)
  | .clear => ({ r with entries := [] }, .done)
  | .stats => (r, .stats r.entries.length (r.entries.map (·.trigs.length)).sum)

def keys (r : Ref) : Nat := r.entries.length
def links (r : Ref) : Nat := (r.entries.map (·.trigs.length)).sum

end Ref
end Cppcms.C08
