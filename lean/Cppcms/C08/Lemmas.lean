import Cppcms.C07.Lemmas
/-!
# C08 — helper lemmas about `check_limits`, the victim choice and the LRU order
(over the concrete model of C07).
-/
namespace Cppcms.C08
open Cppcms Cppcms.C07

/-! ### sizes -/

theorem size_deleteNode_le (s : State) (k : Key) : (deleteNode s k).size ≤ s.size := by
  unfold deleteNode
  cases alookup k s.primary with
  | none => exact Nat.le_refl _
  | some c => exact Nat.sub_le _ _

theorem size_deleteNode_of_mem {s : State} {k : Key} {c : Container} (h : alookup k s.primary = some c) :
    (deleteNode s k).size = s.size - 1 := by
  unfold deleteNode; rw [h]

theorem size_foldl_deleteNode_le (s : State) (ks : List Key) : (ks.foldl deleteNode s).size ≤ s.size := by
  induction ks generalizing s with
  | nil => exact Nat.le_refl _
  | cons k ks ih => exact Nat.le_trans (ih _) (size_deleteNode_le s k)

/-- under `Inv` a non-empty cache always offers a victim, and the victim is an entry -/
theorem victim_isSome {s : State} (h : Inv s) (now : Time) (hpos : 0 < s.size) :
    ∃ k c, victim s now = some k ∧ alookup k s.primary = some c := by
  have hne : s.primary ≠ [] := by
    intro e; have := h.sizeEq; rw [e] at this; simp at this; omega
  have hl : ∃ k, s.lru.getLast? = some k := by
    cases hp : s.primary with
    | nil => exact absurd hp hne
    | cons p r =>
      have hm : p.1 ∈ s.lru := (h.lruMem p.1).mpr (by simp [hp])
      cases hg : s.lru.getLast? with
      | none =>
        rw [List.getLast?_eq_none_iff.mp hg] at hm; cases hm
      | some k => exact ⟨k, rfl⟩
  obtain ⟨kl, hkl⟩ := hl
  have hklm : kl ∈ s.lru := List.mem_of_getLast? hkl
  have hklp : ∃ c, alookup kl s.primary = some c := by
    have := alookup_isSome_iff.mpr ((h.lruMem kl).mp hklm)
    exact Option.isSome_iff_exists.mp this
  unfold victim
  cases hto : s.timeout with
  | nil =>
    simp only [Gen.evictExpired, Bool.false_and, Bool.false_eq_true, if_false]
    obtain ⟨c, hc⟩ := hklp
    exact ⟨kl, c, hkl, hc⟩
  | cons p r =>
    obtain ⟨d, k⟩ := p
    simp only
    split
    · have : (d, k) ∈ s.timeout := by rw [hto]; simp
      obtain ⟨c, hc, _⟩ := (h.toMem d k).mp this
      exact ⟨k, c, rfl, hc⟩
    · obtain ⟨c, hc⟩ := hklp
      exact ⟨kl, c, hkl, hc⟩

/-- `check_limits` post-condition: with a limit, fewer than `limit` entries remain
(room for the one about to be inserted) -/
theorem checkLimitsLoop_size {s : State} (h : Inv s) (fuel : Nat) (now : Time) (mem : List Bool)
    (hf : s.size ≤ fuel) (hl : 0 < s.limit) : (checkLimitsLoop fuel s now mem).size < s.limit := by
  induction fuel generalizing s mem with
  | zero =>
    simp only [checkLimitsLoop]; omega
  | succ n ih =>
    unfold checkLimitsLoop
    by_cases hc : Gen.limitsLoopCond s.size s.limit (mem.headD false) = true
    · simp only [hc, if_true]
      have hpos : 0 < s.size := by
        simp [Gen.limitsLoopCond] at hc; exact hc.1
      obtain ⟨k, c, hv, hk⟩ := victim_isSome h now hpos
      rw [hv]
      simp only
      have hsz := size_deleteNode_of_mem hk
      have hcfg := (config_deleteNode s k).1
      have := ih (inv_deleteNode h k) mem.tail (by omega) (by omega)
      rw [hcfg] at this
      exact this
    · simp only [hc, Bool.false_eq_true, if_false]
      simp [Gen.limitsLoopCond] at hc
      by_cases hp : 0 < s.size
      · have := hc hp
        omega
      · omega

theorem size_checkLimitsLoop_le (fuel : Nat) (s : State) (now : Time) (mem : List Bool) :
    (checkLimitsLoop fuel s now mem).size ≤ s.size := by
  induction fuel generalizing s mem with
  | zero => exact Nat.le_refl _
  | succ n ih =>
    unfold checkLimitsLoop
    split
    · split
      · exact Nat.le_trans (ih _ _) (size_deleteNode_le s _)
      · exact Nat.le_refl _
    · exact Nat.le_refl _

theorem checkLimitsLoop_zero_size (fuel : Nat) (s : State) (now : Time) (mem : List Bool) (h0 : s.size = 0) :
    checkLimitsLoop fuel s now mem = s := by
  cases fuel with
  | zero => rfl
  | succ n =>
    unfold checkLimitsLoop
    have : Gen.limitsLoopCond s.size s.limit (mem.headD false) = false := by simp [Gen.limitsLoopCond, h0]
    rw [this]; rfl

/-- any fuel ≥ `size` gives the same result (so `checkLimits`' choice `fuel = size` loses nothing) -/
theorem checkLimitsLoop_fuel {s : State} (h : Inv s) (f1 f2 : Nat) (now : Time) (mem : List Bool)
    (h1 : s.size ≤ f1) (h2 : s.size ≤ f2) : checkLimitsLoop f1 s now mem = checkLimitsLoop f2 s now mem := by
  induction f1 generalizing s mem f2 with
  | zero =>
    have h0 : s.size = 0 := by omega
    rw [checkLimitsLoop_zero_size _ _ _ _ h0, checkLimitsLoop_zero_size _ _ _ _ h0]
  | succ n ih =>
    cases f2 with
    | zero =>
      have h0 : s.size = 0 := by omega
      rw [checkLimitsLoop_zero_size _ _ _ _ h0, checkLimitsLoop_zero_size _ _ _ _ h0]
    | succ m =>
      unfold checkLimitsLoop
      by_cases hc : Gen.limitsLoopCond s.size s.limit (mem.headD false) = true
      · rw [if_pos hc, if_pos hc]
        have hpos : 0 < s.size := by
          simp [Gen.limitsLoopCond] at hc; exact hc.1
        obtain ⟨k, c, hv, hk⟩ := victim_isSome h now hpos
        have hsz := size_deleteNode_of_mem hk
        rw [hv]
        exact ih (inv_deleteNode h k) m mem.tail (by omega) (by omega)
      · rw [if_neg hc, if_neg hc]

/-- the limit clause as an invariant of single steps -/
theorem sizeOk_step {s : State} (h : Inv s) (hs : 0 < s.limit → s.size ≤ s.limit) (op : Op) :
    0 < (step s op).1.limit → (step s op).1.size ≤ (step s op).1.limit := by
  rw [(config_step s op).1]
  intro hl
  have hs := hs hl
  cases op with
  | fetch now k =>
    simp only [step, fetch]
    cases alookup k s.primary with
    | none => exact hs
    | some c => simp only; split <;> exact hs
  | store now k v trigs d gen env =>
    simp only [step, store, storeG]
    have h1 := size_deleteNode_le s k
    split
    · split
      · omega
      · exact hs
    · split
      · omega
      · split
        · simp [nlClear]
        · have := checkLimitsLoop_size (inv_deleteNode h k) (deleteNode s k).size now env.lowMem (Nat.le_refl _)
            (by rw [(config_deleteNode s k).1]; exact hl)
          rw [(config_deleteNode s k).1] at this
          simp only [insertEntry, checkLimits]
          omega
  | rise t =>
    have := size_foldl_deleteNode_le s (trigList t s.triggers)
    simp only [step, rise]; omega
  | remove k =>
    have := size_deleteNode_le s k
    simp only [step]; omega
  | clear => simp [step, nlClear]
  | stats => exact hs

/-! ### victim choice -/

/-- the head of a sorted timeout index has the smallest deadline -/
theorem timeout_head_min {s : State} (h : Inv s) {d : Time} {k : Key} {r : List (Time × Key)}
    (hto : s.timeout = (d, k) :: r) {k' : Key} {c' : Container} (hc : alookup k' s.primary = some c') :
    d ≤ c'.deadline := by
  have hm : (c'.deadline, k') ∈ s.timeout := (h.toMem _ _).mpr ⟨c', hc, rfl⟩
  rw [hto] at hm
  have hs := h.toSorted
  rw [hto, List.pairwise_cons] at hs
  rcases List.mem_cons.mp hm with e | e
  · cases e; exact Int.le_refl _
  · exact hs.1 _ e

/-- multimap insertion: the new node goes after every node whose deadline is ≤ the new one
(so among equal deadlines the earlier stored entry comes first) -/
theorem tinsert_eq (d : Time) (k : Key) (l : List (Time × Key)) :
    tinsert d k l = l.takeWhile (fun p => decide (p.1 ≤ d)) ++ (d, k) :: l.dropWhile (fun p => decide (p.1 ≤ d)) := by
  induction l with
  | nil => rfl
  | cons p r ih =>
    obtain ⟨d', k'⟩ := p
    by_cases e : d < d'
    · have : ¬ d' ≤ d := Int.not_le.mpr e
      simp [tinsert, e, List.takeWhile, List.dropWhile, this]
    · have : d' ≤ d := Int.not_lt.mp e
      simp [tinsert, e, List.takeWhile, List.dropWhile, this, ih]

/-! ### LRU order -/

theorem lru_deleteNode_sublist (s : State) (k : Key) : (deleteNode s k).lru.Sublist s.lru := by
  unfold deleteNode
  cases alookup k s.primary with
  | none => exact List.Sublist.refl _
  | some c => exact List.erase_sublist

theorem lru_foldl_deleteNode_sublist (s : State) (ks : List Key) : (ks.foldl deleteNode s).lru.Sublist s.lru := by
  induction ks generalizing s with
  | nil => exact List.Sublist.refl _
  | cons k ks ih => exact (ih _).trans (lru_deleteNode_sublist s k)

theorem lru_checkLimitsLoop_sublist (fuel : Nat) (s : State) (now : Time) (mem : List Bool) :
    (checkLimitsLoop fuel s now mem).lru.Sublist s.lru := by
  induction fuel generalizing s mem with
  | zero => exact List.Sublist.refl _
  | succ n ih =>
    unfold checkLimitsLoop
    split
    · split
      · exact (ih _ _).trans (lru_deleteNode_sublist s _)
      · exact List.Sublist.refl _
    · exact List.Sublist.refl _

/-- the key an operation *uses* (moves to the LRU front): a fetch that hits, a store that is performed -/
def touched (s : State) : Op → List Key
  | .fetch now k => match (fetch s now k).2 with | .hit _ _ _ _ => [k] | _ => []
  | .store now k v trigs d gen env => if (stamp s (.store now k v trigs d gen env)).isSome then [k] else []
  | _ => []

/-- Every operation leaves the relative order of the entries it does not use unchanged and puts the
entry it uses at the front: `lru` is the recency order. -/
theorem lru_step (s : State) (op : Op) :
    ∃ rest, (step s op).1.lru = touched s op ++ rest ∧ rest.Sublist s.lru := by
  cases op with
  | fetch now k =>
    simp only [step, touched, fetch]
    cases alookup k s.primary with
    | none => exact ⟨s.lru, rfl, List.Sublist.refl _⟩
    | some c =>
      simp only
      split
      · exact ⟨s.lru, rfl, List.Sublist.refl _⟩
      · exact ⟨s.lru.erase k, rfl, List.erase_sublist⟩
  | store now k v trigs d gen env =>
    simp only [step, touched, stamp, store, storeG]
    by_cases e1 : env.copyFails
    · simp only [e1, if_true, Option.isSome_none, Bool.false_eq_true, if_false, List.nil_append]
      split
      · exact ⟨_, rfl, lru_deleteNode_sublist s k⟩
      · exact ⟨_, rfl, List.Sublist.refl _⟩
    · simp only [e1, Bool.false_eq_true, if_false]
      by_cases e2 : refused (deleteNode s k)
      · simp only [e2, if_true, Option.isSome_none, Bool.false_eq_true, if_false, List.nil_append]
        exact ⟨_, rfl, lru_deleteNode_sublist s k⟩
      · simp only [e2, Bool.false_eq_true, if_false]
        cases e3 : env.lateFails with
        | some b =>
          simp only [Option.isSome_some, if_true, Option.isSome_none, Bool.false_eq_true, if_false, List.nil_append]
          exact ⟨[], rfl, List.nil_sublist _⟩
        | none =>
          simp only [Option.isSome_none, Bool.false_eq_true, if_false, Option.isSome_some, if_true]
          exact ⟨(checkLimits (deleteNode s k) now env.lowMem).lru, rfl,
            (lru_checkLimitsLoop_sublist _ _ _ _).trans (lru_deleteNode_sublist s k)⟩
  | rise t => exact ⟨_, rfl, lru_foldl_deleteNode_sublist s _⟩
  | remove k => exact ⟨_, rfl, lru_deleteNode_sublist s k⟩
  | clear => exact ⟨[], rfl, List.nil_sublist _⟩
  | stats => exact ⟨s.lru, rfl, List.Sublist.refl _⟩

/-! ### `lru` is the recency order -/

/-- `op` stores or fetches key `k` -/
def uses (k : Key) : Op → Bool
  | .fetch _ k' => k' == k
  | .store _ k' _ _ _ _ _ => k' == k
  | _ => false

theorem touched_cases (s : State) (op : Op) :
    touched s op = [] ∨ ∃ x, touched s op = [x] ∧ uses x op = true := by
  cases op with
  | fetch now k =>
    simp only [touched]
    split
    · exact Or.inr ⟨k, rfl, by simp [uses]⟩
    · exact Or.inl rfl
  | store now k v trigs d gen env =>
    simp only [touched]
    split
    · exact Or.inr ⟨k, rfl, by simp [uses]⟩
    · exact Or.inl rfl
  | rise t => exact Or.inl rfl
  | remove k => exact Or.inl rfl
  | clear => exact Or.inl rfl
  | stats => exact Or.inl rfl

theorem pair_sublist_or {a b : Key} {l : List Key} (ha : a ∈ l) (hb : b ∈ l) (hab : a ≠ b) :
    [a, b].Sublist l ∨ [b, a].Sublist l := by
  induction l with
  | nil => cases ha
  | cons x r ih =>
    by_cases e1 : x = a
    · subst e1
      have : b ∈ r := by
        rcases List.mem_cons.mp hb with e | e
        · exact absurd e.symm hab
        · exact e
      exact Or.inl (List.Sublist.cons_cons _ (List.singleton_sublist.mpr this))
    · by_cases e2 : x = b
      · subst e2
        have : a ∈ r := by
          rcases List.mem_cons.mp ha with e | e
          · exact absurd e.symm e1
          · exact e
        exact Or.inr (List.Sublist.cons_cons _ (List.singleton_sublist.mpr this))
      · have ha' : a ∈ r := by
          rcases List.mem_cons.mp ha with e | e
          · exact absurd e.symm e1
          · exact e
        have hb' : b ∈ r := by
          rcases List.mem_cons.mp hb with e | e
          · exact absurd e.symm e2
          · exact e
        rcases ih ha' hb' with h | h
        · exact Or.inl (h.cons _)
        · exact Or.inr (h.cons _)

theorem pair_sublist_antisymm {a b : Key} {l : List Key} (hn : l.Nodup)
    (h1 : [a, b].Sublist l) (h2 : [b, a].Sublist l) : False := by
  induction l with
  | nil => cases h1
  | cons x r ih =>
    rw [List.nodup_cons] at hn
    rw [List.sublist_cons_iff] at h1 h2
    rcases h1 with h1 | ⟨r1, e1, h1⟩
    · rcases h2 with h2 | ⟨r2, e2, h2⟩
      · exact ih hn.2 h1 h2
      · cases e2
        exact hn.1 (h1.subset (by simp))
    · cases e1
      rcases h2 with h2 | ⟨r2, e2, h2⟩
      · exact hn.1 (h2.subset (by simp))
      · cases e2
        exact hn.1 (h1.subset (by simp))

theorem pair_sublist_reflect {a b : Key} {rest l : List Key} (hs : rest.Sublist l) (hn : l.Nodup)
    (ha : a ∈ rest) (hb : b ∈ rest) (hab : a ≠ b) (h : [a, b].Sublist l) : [a, b].Sublist rest := by
  rcases pair_sublist_or ha hb hab with h' | h'
  · exact h'
  · exact (pair_sublist_antisymm hn h (h'.trans hs)).elim

theorem lru_pair_step {s : State} (h : Inv s) (op : Op) {a b : Key} (hab : a ≠ b) (hb : uses b op = false)
    (J : a ∈ s.lru → b ∈ s.lru → [a, b].Sublist s.lru) :
    a ∈ (step s op).1.lru → b ∈ (step s op).1.lru → [a, b].Sublist (step s op).1.lru := by
  obtain ⟨rest, e, hsub⟩ := lru_step s op
  intro ha' hb'
  rw [e] at ha' hb' ⊢
  have inRest : a ∈ rest → b ∈ rest → [a, b].Sublist rest := fun ha hb =>
    pair_sublist_reflect hsub h.lruNodup ha hb hab (J (hsub.subset ha) (hsub.subset hb))
  rcases touched_cases s op with ht | ⟨x, ht, hx⟩
  · rw [ht] at ha' hb' ⊢
    exact inRest ha' hb'
  · rw [ht] at ha' hb' ⊢
    have hxb : x ≠ b := by intro e'; subst e'; rw [hx] at hb; cases hb
    have hbr : b ∈ rest := by
      rcases List.mem_cons.mp hb' with e' | e'
      · exact absurd e'.symm hxb
      · exact e'
    rcases List.mem_cons.mp ha' with e' | e'
    · subst e'
      exact List.Sublist.cons_cons _ (List.singleton_sublist.mpr hbr)
    · exact (inRest e' hbr).cons _

/-- **`lru` is the recency order.**  If an operation used `a` (a fetch that hit, a store that
was performed) and afterwards `b` was neither stored nor fetched, then whenever both are still in
the cache `a` stands before `b` in `lru` — so `b` is evicted (LRU tail first) before `a`. -/
theorem lru_recency {s : State} (h : Inv s) {a b : Key} (hab : a ≠ b) (opA : Op) (hA : touched s opA = [a])
    (post : List Op) (hpost : ∀ o ∈ post, uses b o = false) :
    a ∈ (run (step s opA).1 post).lru → b ∈ (run (step s opA).1 post).lru →
      [a, b].Sublist (run (step s opA).1 post).lru := by
  have h1 := inv_step h opA
  have J1 : a ∈ (step s opA).1.lru → b ∈ (step s opA).1.lru → [a, b].Sublist (step s opA).1.lru := by
    obtain ⟨rest, e, _⟩ := lru_step s opA
    rw [e, hA]
    intro _ hb
    have : b ∈ rest := by
      rcases List.mem_cons.mp hb with e' | e'
      · exact absurd e'.symm hab
      · exact e'
    exact List.Sublist.cons_cons _ (List.singleton_sublist.mpr this)
  generalize (step s opA).1 = s1 at h1 J1
  induction post generalizing s1 with
  | nil => exact J1
  | cons o post ih =>
    rw [run_cons]
    exact ih (fun o' ho' => hpost o' (by simp [ho'])) (step s1 o).1 (inv_step h1 o)
      (lru_pair_step h1 o hab (hpost o (by simp)) J1)

end Cppcms.C08
