import Cppcms.C07.Proto
/-! `c08_model`: same protocol as `c07_model` (one model of `mem_cache` serves C07 and C08). -/
def main : IO Unit := Cppcms.lineLoop ({} : Cppcms.C07.Proto.DState) Cppcms.C07.Proto.stepLine
