import Cppcms.C07.Proto
import Cppcms.C08.Spec
/-!
`c08_model`: the protocol of `c07_model` (one model of `mem_cache` serves C07 and C08) plus the
C08 judge:

`J8 <impl answer …> ; <case line …>` runs the reference cache of `C08/Spec.lean` (eviction rule
written from the property text, independent of `Gen`/`Model`) over the history and demands that
the implementation's answer (hit/miss, value, trigger set, deadline) and its `stats` after the
operation are identical, and that the key count respects the limit.  Only for histories without
memory pressure.  Answer `1` or `0 <reason>`.
-/
open Cppcms Cppcms.C07 Cppcms.C07.Proto Cppcms.C08

structure D8 where
  d : DState := {}
  r : Ref := {}

def judge8 (r : Ref) (w : List String) : Ref × String :=
  let (implw, casew) := splitAt ";" w
  let (res, tailw) := splitAt "|" implw
  match casew with
  | "new" :: _ :: limit :: _ =>
    match limit.toNat? with
    | some l => ({ limit := l }, if res == ["ok"] && tailw.take 2 == ["0", "0"] then "1" else "0 new")
    | none => (r, "0 bad-new")
  | _ =>
    match parseOp casew with
    | none => (r, "0 bad-case")
    | some (op, _) =>
      let (r', o) := r.step op
      let countsOk : Bool := match tailw with
        | k :: t :: _ => k.toNat? == some r'.keys && t.toNat? == some r'.links
        | _ => false
      let limitOk : Bool := r'.limit == 0 || (match tailw with | k :: _ => (k.toNat?.getD (r'.limit + 1)) ≤ r'.limit | [] => false)
      let ansOk : Bool :=
        match o, res with
        | .miss, ["miss"] => true
        | .hit v ts d _, ["hit", v', ts', d', _] =>
          (match parseHex v', parseTrigs ts', d'.toInt? with
           | some v', some ts', some d' => v == v' && sameSet ts ts' && nodupB ts' && d == d'
           | _, _, _ => false)
        | .done, ["ok"] => true
        | .stats _ _, ["ok"] => true
        | _, _ => false
      (r', if !limitOk then "0 size-exceeds-limit"
           else if !ansOk then s!"0 answer-differs-from-eviction-rule expected={outStr o}"
           else if !countsOk then s!"0 stats-differ-from-eviction-rule expected={r'.keys},{r'.links}"
           else "1")

def step8 (st : D8) (line : String) : D8 × String :=
  match words line with
  | "J8" :: rest => let (r, o) := judge8 st.r rest; ({ st with r := r }, o)
  | _ => let (d, o) := stepLine st.d line; ({ st with d := d }, o)

def main : IO Unit := lineLoop ({} : D8) step8
