import Cppcms.C07.Proto
import Cppcms.C08.Spec
import Cppcms.C08.Buddy
/-!
`c08_model`: the protocol of `c07_model` (one model of `mem_cache` serves C07 and C08) plus the
C08 judge:

`J8 <impl answer …> ; <case line …>` runs the reference cache of `C08/Spec.lean` (eviction rule
written from the property text, independent of `Gen`/`Model`) over the history and demands that
the implementation's answer (hit/miss, value, trigger set, deadline) and its `stats` after the
operation are identical, and that the key count respects the limit.  Under memory pressure the
reference is given the low-memory answers (`nem=` annotation) the harness computed from the allocator.  Answer `1` or `0 <reason>`.

`binit <total>`, `bmalloc <size> at=<offset>|null`, `bfree <offset>` run the buddy allocator model
(`Buddy.lean`); the address the real allocator chose is an oracle annotation (`at=`), the model
checks that it is a free region of the right order, and answers with the free blocks and the two
free-memory figures computed from its own state.
-/
open Cppcms Cppcms.C07 Cppcms.C07.Proto Cppcms.C08

structure D8 where
  d : DState := {}
  r : Ref := {}
  a : Option Buddy.Arena := none

def bdump (a : Buddy.Arena) : String :=
  let fb := a.freeBlocks
  let l := if fb.isEmpty then "-" else ",".intercalate (fb.map fun b => s!"{b.1}:{b.2}")
  s!" | {l} | {a.totalFree} {a.maxFreeChunk}"

def buddyLine (a : Option Buddy.Arena) (w : List String) : Option Buddy.Arena × String :=
  match w, a with
  | ["binit", total], _ =>
    match total.toNat? with
    | some t =>
      if t < Gen.headerSize then (a, "bad-op") else
      let ar := Buddy.init (t - Gen.headerSize)
      (some ar, s!"ok usable={t - Gen.headerSize}" ++ bdump ar)
    | none => (a, "bad-op")
  | ["bmalloc", size, ann], some ar =>
    match size.toNat? with
    | some sz =>
      let k := Buddy.orderOf sz
      if ann == "null" then
        (a, if ar.canAlloc k then "model-can-allocate" ++ bdump ar else "null" ++ bdump ar)
      else if ann.startsWith "at=" then
        match (ann.drop 3).toString.toNat? with
        | some off =>
          (match ar.allocAt k off with
           | some ar' => (some ar', s!"at {off} {k}" ++ bdump ar')
           | none => (a, "model-rejects-address" ++ bdump ar))
        | none => (a, "bad-op")
      else (a, "bad-op")
    | none => (a, "bad-op")
  | ["bfree", off], some ar =>
    match off.toNat? with
    | some o =>
      (match ar.freeAt o with
       | some (ar', _) => (some ar', "ok" ++ bdump ar')
       | none => (a, "model-rejects-free" ++ bdump ar))
    | none => (a, "bad-op")
  | _, _ => (a, "bad-op")

def judge8 (r : Ref) (w : List String) : Ref × String :=
  let (implw, casew) := splitAt ";" w
  let (res, tailw) := splitAt "|" implw
  match casew with
  | "new" :: _ :: limit :: _ =>
    match limit.toNat? with
    | some l => ({ limit := l }, if res == ["ok"] && tailw.take 2 == ["0", "0"] then "1" else "0 new")
    | none => (r, "0 bad-new")
  | _ =>
    match parseOp casew with
    | none => (r, "0 bad-case")
    | some (op, _) =>
      let (r', o) := r.step op
      let countsOk : Bool := match tailw with
        | k :: t :: _ => k.toNat? == some r'.keys && t.toNat? == some r'.links
        | _ => false
      let limitOk : Bool := r'.limit == 0 || (match tailw with | k :: _ => (k.toNat?.getD (r'.limit + 1)) ≤ r'.limit | [] => false)
      let ansOk : Bool :=
        match o, res with
        | .miss, ["miss"] => true
        | .hit v ts d _, ["hit", v', ts', d', _] =>
          (match parseHex v', parseTrigs ts', d'.toInt? with
           | some v', some ts', some d' => v == v' && sameSet ts ts' && nodupB ts' && d == d'
           | _, _, _ => false)
        | .done, "ok" :: _ => true
        | .stats _ _, ["ok"] => true
        | _, _ => false
      (r', if !limitOk then "0 size-exceeds-limit"
           else if !ansOk then s!"0 answer-differs-from-eviction-rule expected={outStr o}"
           else if !countsOk then s!"0 stats-differ-from-eviction-rule expected={r'.keys},{r'.links}"
           else "1")

def step8 (st : D8) (line : String) : D8 × String :=
  match words line with
  | "J8" :: rest => let (r, o) := judge8 st.r rest; ({ st with r := r }, o)
  | "binit" :: rest => let (a, o) := buddyLine st.a ("binit" :: rest); ({ st with a := a }, o)
  | "bmalloc" :: rest => let (a, o) := buddyLine st.a ("bmalloc" :: rest); ({ st with a := a }, o)
  | "bfree" :: rest => let (a, o) := buddyLine st.a ("bfree" :: rest); ({ st with a := a }, o)
  | _ => let (d, o) := stepLine st.d line; ({ st with d := d }, o)

def main : IO Unit := lineLoop ({} : D8) step8
