import Cppcms.C08.Lemmas
import Cppcms.C08.Spec
/-!
# C08 — the concrete model of `mem_cache` simulates the reference cache of `Spec.lean`

`Sim s r`: the reference `r` (entries in recency order with store sequence numbers) and the concrete
state `s` (four indexes) describe the same cache.  Every operation without memory pressure preserves
`Sim` and gives the same answer on both sides (`sim_step`), so the two agree on every history
(`Props.matches_reference`).
-/
namespace Cppcms.C08
open Cppcms Cppcms.C07

def seqOf (r : Ref) (k : Key) : Nat := ((r.find k).map (·.seq)).getD 0

def contOf (e : REntry) : Container := ⟨e.val, e.trigs, e.deadline, e.gen⟩

/-- order of the timeout index in terms of the reference: earlier deadline first, earlier store first among equals -/
def TOrd (r : Ref) (a b : Time × Key) : Prop := a.1 < b.1 ∨ (a.1 = b.1 ∧ seqOf r a.2 < seqOf r b.2)

structure Sim (s : State) (r : Ref) : Prop where
  inv : Inv s
  order : r.entries.map (·.key) = s.lru
  data : ∀ e ∈ r.entries, alookup e.key s.primary = some (contOf e)
  tord : s.timeout.Pairwise (TOrd r)
  fresh : ∀ e ∈ r.entries, e.seq < r.nextSeq
  lim : r.limit = s.limit
  gen : r.generation = s.generation

theorem Sim.keysNodup {s : State} {r : Ref} (h : Sim s r) : (r.entries.map (·.key)).Nodup := by
  rw [h.order]; exact h.inv.lruNodup

theorem find_of_mem {l : List REntry} (hn : (l.map (·.key)).Nodup) {e : REntry} (he : e ∈ l) :
    l.find? (·.key == e.key) = some e := by
  induction l with
  | nil => cases he
  | cons a l ih =>
    simp only [List.map_cons, List.nodup_cons] at hn
    rcases List.mem_cons.mp he with h | h
    · subst h; simp [List.find?]
    · have : ¬ a.key = e.key := fun e' => hn.1 (e' ▸ List.mem_map.mpr ⟨e, h, rfl⟩)
      rw [List.find?_cons_of_neg (by simpa using this)]
      exact ih hn.2 h

theorem find_none_of_not_mem {l : List REntry} {k : Key} (h : k ∉ l.map (·.key)) : l.find? (·.key == k) = none := by
  rw [List.find?_eq_none]
  intro x hx hk
  exact h (List.mem_map.mpr ⟨x, hx, by simpa using hk⟩)

theorem Sim.find_iff {s : State} {r : Ref} (h : Sim s r) (k : Key) :
    (∀ e, r.find k = some e → alookup k s.primary = some (contOf e) ∧ e.key = k ∧ e ∈ r.entries) ∧
    (r.find k = none → alookup k s.primary = none) := by
  constructor
  · intro e he
    have hm := List.mem_of_find?_eq_some he
    have hk : e.key = k := by simpa using List.find?_some he
    exact ⟨hk ▸ h.data e hm, hk, hm⟩
  · intro hn
    rw [alookup_none_iff, ← h.inv.lruMem, ← h.order]
    intro hm
    obtain ⟨e, he, hk⟩ := List.mem_map.mp hm
    have := find_of_mem h.keysNodup he
    simp only [Ref.find] at hn
    rw [hk] at this
    rw [this] at hn; cases hn

theorem seqOf_of_mem {r : Ref} (hn : (r.entries.map (·.key)).Nodup) {e : REntry} (he : e ∈ r.entries) :
    seqOf r e.key = e.seq := by
  simp [seqOf, Ref.find, find_of_mem hn he]

/-- entries sorted into the timeout index are entries -/
theorem Sim.timeout_entry {s : State} {r : Ref} (h : Sim s r) {d : Time} {k : Key} (hm : (d, k) ∈ s.timeout) :
    ∃ e ∈ r.entries, e.key = k ∧ e.deadline = d := by
  obtain ⟨c, hc, hd⟩ := (h.inv.toMem d k).mp hm
  have hk : k ∈ r.entries.map (·.key) := by
    rw [h.order, h.inv.lruMem, ← alookup_isSome_iff, hc]; rfl
  obtain ⟨e, he, hek⟩ := List.mem_map.mp hk
  refine ⟨e, he, hek, ?_⟩
  have := h.data e he
  rw [hek, hc] at this
  cases this
  exact hd

/-! ### `drop` / `delete_node` -/

theorem find_drop (r : Ref) (k k' : Key) (hne : k' ≠ k) : (r.drop k).find k' = r.find k' := by
  simp only [Ref.find, Ref.drop]
  induction r.entries with
  | nil => rfl
  | cons a l ih =>
    by_cases h1 : a.key = k
    · have h2 : ¬ a.key = k' := fun e => hne (e.symm.trans h1)
      rw [List.filter_cons_of_neg (by simp [h1]), List.find?_cons_of_neg (by simpa using h2)]
      exact ih
    · rw [List.filter_cons_of_pos (by simpa using h1)]
      by_cases h2 : a.key = k'
      · rw [List.find?_cons_of_pos (by simpa using h2), List.find?_cons_of_pos (by simpa using h2)]
      · rw [List.find?_cons_of_neg (by simpa using h2), List.find?_cons_of_neg (by simpa using h2)]
        exact ih

theorem seqOf_drop (r : Ref) (k k' : Key) (hne : k' ≠ k) : seqOf (r.drop k) k' = seqOf r k' := by
  simp [seqOf, find_drop r k k' hne]

theorem sim_drop {s : State} {r : Ref} (h : Sim s r) (k : Key) : Sim (deleteNode s k) (r.drop k) := by
  have hinv := inv_deleteNode h.inv k
  have hlru : (deleteNode s k).lru = s.lru.erase k := by
    unfold deleteNode
    cases hc : alookup k s.primary with
    | none =>
      simp only
      have : k ∉ s.lru := by rw [h.inv.lruMem]; exact alookup_none_iff.mp hc
      rw [List.erase_of_not_mem this]
    | some c => rfl
  have hto : (deleteNode s k).timeout.Sublist s.timeout := by
    unfold deleteNode
    cases alookup k s.primary with
    | none => exact List.Sublist.refl _
    | some c => exact List.erase_sublist
  refine ⟨hinv, ?_, ?_, ?_, ?_, ?_, ?_⟩
  · rw [hlru, h.inv.lruNodup.erase_eq_filter, ← h.order]
    simp only [Ref.drop, List.filter_map]
    rfl
  · intro e he
    simp only [Ref.drop, List.mem_filter, bne_iff_ne, ne_eq] at he
    rw [alookup_deleteNode h.inv]
    simp [he.2, h.data e he.1]
  · refine List.Pairwise.imp_of_mem ?_ (h.tord.sublist hto)
    intro a b ha hb hab
    -- keys in the new timeout index are entries of the new state, hence ≠ k
    have hka : a.2 ≠ k := by
      intro e
      obtain ⟨c, hc, _⟩ := (hinv.toMem a.1 a.2).mp ha
      rw [alookup_deleteNode h.inv, e] at hc
      simp at hc
    have hkb : b.2 ≠ k := by
      intro e
      obtain ⟨c, hc, _⟩ := (hinv.toMem b.1 b.2).mp hb
      rw [alookup_deleteNode h.inv, e] at hc
      simp at hc
    simpa [TOrd, seqOf_drop r k _ hka, seqOf_drop r k _ hkb] using hab
  · intro e he
    simp only [Ref.drop, List.mem_filter] at he
    exact h.fresh e he.1
  · exact h.lim.trans (config_deleteNode s k).1.symm
  · exact h.gen.trans (generation_deleteNode s k).symm

/-! ### the victim -/

theorem before_asymm {a b : REntry} (h : Ref.before a b = true) : Ref.before b a = false := by
  simp only [Ref.before, Bool.or_eq_true, decide_eq_true_eq, Bool.and_eq_true, beq_iff_eq] at h
  simp only [Ref.before, Bool.or_eq_false_iff, decide_eq_false_iff_not, Bool.and_eq_false_iff, beq_eq_false_iff_ne, ne_eq]
  rcases h with h | ⟨h1, h2⟩
  · exact ⟨Int.lt_asymm h, Or.inl (Int.ne_of_lt h).symm⟩
  · exact ⟨by rw [h1]; exact Int.lt_irrefl _, Or.inr (Nat.lt_asymm h2)⟩

theorem minBy_mem {l : List REntry} {e : REntry} (h : Ref.minBy l = some e) : e ∈ l := by
  induction l generalizing e with
  | nil => simp [Ref.minBy] at h
  | cons a l ih =>
    simp only [Ref.minBy] at h
    cases hm : Ref.minBy l with
    | none => rw [hm] at h; cases h; simp
    | some b =>
      rw [hm] at h
      simp only at h
      split at h
      · cases h; simp
      · cases h; exact List.mem_cons_of_mem _ (ih hm)

theorem minBy_least {l : List REntry} {e0 : REntry} (hm : e0 ∈ l)
    (hl : ∀ x ∈ l, x ≠ e0 → Ref.before e0 x = true) : Ref.minBy l = some e0 := by
  induction l with
  | nil => cases hm
  | cons a l ih =>
    simp only [Ref.minBy]
    by_cases ha : a = e0
    · subst ha
      cases hb : Ref.minBy l with
      | none => rfl
      | some b =>
        simp only
        by_cases hba : b = a
        · subst hba; split <;> rfl
        · have := hl b (List.mem_cons_of_mem _ (minBy_mem hb)) hba
          simp [this]
    · have hm' : e0 ∈ l := by
        rcases List.mem_cons.mp hm with h | h
        · exact absurd h.symm ha
        · exact h
      rw [ih hm' (fun x hx => hl x (List.mem_cons_of_mem _ hx))]
      simp only
      have := before_asymm (hl a (by simp) ha)
      simp [this]

theorem sim_victim {s : State} {r : Ref} (h : Sim s r) (now : Time) : victim s now = r.victim now := by
  unfold victim Ref.victim
  have hlast : s.lru.getLast? = r.entries.getLast?.map (·.key) := by
    rw [← h.order, List.getLast?_map]
  cases hto : s.timeout with
  | nil =>
    have hl : r.entries = [] := by
      cases he : r.entries with
      | nil => rfl
      | cons e es =>
        have := h.data e (by rw [he]; simp)
        have hm := (h.inv.toMem e.deadline e.key).mpr ⟨_, this, rfl⟩
        rw [hto] at hm; cases hm
    simp [Gen.evictExpired, hlast, hl, Ref.minBy]
  | cons p rest =>
    obtain ⟨d, k⟩ := p
    obtain ⟨e0, he0, hk0, hd0⟩ := h.timeout_entry (show (d, k) ∈ s.timeout by rw [hto]; simp)
    have hpw := h.tord
    rw [hto, List.pairwise_cons] at hpw
    -- the head is strictly before every other entry
    have hmin : ∀ x ∈ r.entries, x ≠ e0 → Ref.before e0 x = true := by
      intro x hx hne
      have hxk : x.key ≠ k := by
        intro e
        have h1 := find_of_mem h.keysNodup hx
        have h2 := find_of_mem h.keysNodup he0
        rw [e, ← hk0] at h1
        rw [h1] at h2
        cases h2; exact hne rfl
      have hxm : (x.deadline, x.key) ∈ s.timeout := (h.inv.toMem _ _).mpr ⟨_, h.data x hx, rfl⟩
      rw [hto] at hxm
      have hxr : (x.deadline, x.key) ∈ rest := by
        rcases List.mem_cons.mp hxm with e | e
        · cases e; exact absurd rfl hxk
        · exact e
      have := hpw.1 _ hxr
      simp only [TOrd, ← hk0, seqOf_of_mem h.keysNodup he0, seqOf_of_mem h.keysNodup hx, ← hd0] at this
      simp only [Ref.before, Bool.or_eq_true, decide_eq_true_eq, Bool.and_eq_true, beq_iff_eq]
      exact this
    by_cases hd : d < now
    · have hf : e0 ∈ r.entries.filter (fun e => decide (e.deadline < now)) := by
        simp [List.mem_filter, he0, hd0, hd]
      have := minBy_least hf (fun x hx hne => hmin x (List.mem_filter.mp hx).1 hne)
      simp [Gen.evictExpired, hd, this, hk0]
    · have hf : r.entries.filter (fun e => decide (e.deadline < now)) = [] := by
        rw [List.filter_eq_nil_iff]
        intro x hx
        simp only [decide_eq_true_eq]
        by_cases hxe : x = e0
        · subst hxe; rw [hd0]; exact hd
        · have := hmin x hx hxe
          simp only [Ref.before, Bool.or_eq_true, decide_eq_true_eq, Bool.and_eq_true, beq_iff_eq, hd0] at this
          have hge : now ≤ d := Int.not_lt.mp hd
          rcases this with h1 | ⟨h1, _⟩
          · exact Int.not_lt.mpr (Int.le_trans hge (Int.le_of_lt h1))
          · rw [← h1]; exact hd
      simp [Gen.evictExpired, hd, hf, Ref.minBy, hlast]

/-! ### counters -/

theorem Sim.keys_perm {s : State} {r : Ref} (h : Sim s r) : (s.primary.map Prod.fst).Perm s.lru :=
  (List.perm_ext_iff_of_nodup h.inv.keys h.inv.lruNodup).mpr (fun k => (h.inv.lruMem k).symm)

theorem Sim.size_eq {s : State} {r : Ref} (h : Sim s r) : s.size = r.entries.length := by
  have := h.keys_perm.length_eq
  rw [← h.order] at this
  simp only [List.length_map] at this
  rw [h.inv.sizeEq, this]

theorem Sim.count_eq {s : State} {r : Ref} (h : Sim s r) : s.trigCount = (r.entries.map (·.trigs.length)).sum := by
  let g : Key → Nat := fun k => ((alookup k s.primary).map (·.trigs.length)).getD 0
  have e1 : s.primary.map (fun p => p.2.trigs.length) = (s.primary.map Prod.fst).map g := by
    rw [List.map_map]
    apply List.map_congr_left
    intro p hp
    obtain ⟨k, c⟩ := p
    simp [g, mem_alookup h.inv.keys hp]
  have e2 : r.entries.map (·.trigs.length) = s.lru.map g := by
    rw [← h.order, List.map_map]
    apply List.map_congr_left
    intro e he
    simp [g, h.data e he, contOf]
  rw [h.inv.countEq, e1, e2]
  exact (h.keys_perm.map g).sum_nat

/-! ### `make room` / `check_limits` without memory pressure -/

theorem checkLimitsLoop_allFalse (fuel : Nat) (s : State) (now : Time) (mem : List Bool) (hm : ∀ b ∈ mem, b = false) :
    checkLimitsLoop fuel s now mem = checkLimitsLoop fuel s now [] := by
  induction fuel generalizing s mem with
  | zero => rfl
  | succ n ih =>
    unfold checkLimitsLoop
    have h0 : mem.headD false = false := by
      cases mem with
      | nil => rfl
      | cons b t => exact hm b (by simp)
    have h1 : ([] : List Bool).headD false = false := rfl
    rw [h0, h1]
    split
    · split
      · have : ∀ b ∈ mem.tail, b = false := fun b hb => hm b (List.mem_of_mem_tail hb)
        rw [ih _ _ this]; rfl
      · rfl
    · rfl

theorem sim_makeRoom {s : State} {r : Ref} (h : Sim s r) (fuel : Nat) (now : Time) (mem : List Bool) :
    Sim (checkLimitsLoop fuel s now mem) (Ref.makeRoom fuel r now mem) := by
  induction fuel generalizing s r mem with
  | zero => exact h
  | succ n ih =>
    unfold checkLimitsLoop Ref.makeRoom
    have hc : (Gen.limitsLoopCond s.size s.limit (mem.headD false) = true) ↔
        (r.entries.length > 0 ∧ (mem.headD false = true ∨ (r.limit > 0 ∧ r.entries.length ≥ r.limit))) := by
      simp only [Gen.limitsLoopCond, Bool.and_eq_true, Bool.or_eq_true, decide_eq_true_eq, h.size_eq, h.lim]
      constructor
      · rintro ⟨h1, h2 | ⟨h2, h3⟩⟩
        · exact ⟨h1, Or.inl h2⟩
        · exact ⟨h1, Or.inr ⟨h3, h2⟩⟩
      · rintro ⟨h1, h2 | ⟨h2, h3⟩⟩
        · exact ⟨h1, Or.inl h2⟩
        · exact ⟨h1, Or.inr ⟨h3, h2⟩⟩
    by_cases hcond : r.entries.length > 0 ∧ (mem.headD false = true ∨ (r.limit > 0 ∧ r.entries.length ≥ r.limit))
    · rw [if_pos (hc.mpr hcond), if_pos hcond, sim_victim h now]
      cases hv : r.victim now with
      | none => exact h
      | some k => exact ih (sim_drop h k) mem.tail
    · rw [if_neg (fun x => hcond (hc.mp x)), if_neg hcond]
      exact h

/-! ### insertion -/

theorem tinsert_pairwise {R : Time × Key → Time × Key → Prop} {l : List (Time × Key)} {d : Time} {k : Key}
    (hs : l.Pairwise (fun a b => a.1 ≤ b.1)) (hl : l.Pairwise R)
    (hbefore : ∀ x ∈ l, x.1 ≤ d → R x (d, k)) (hafter : ∀ x ∈ l, d < x.1 → R (d, k) x) :
    (tinsert d k l).Pairwise R := by
  induction l with
  | nil => simp [tinsert]
  | cons p rest ih =>
    obtain ⟨d', k'⟩ := p
    rw [List.pairwise_cons] at hs hl
    by_cases e : d < d'
    · simp only [tinsert, e, if_true]
      refine List.pairwise_cons.mpr ⟨?_, List.pairwise_cons.mpr hl⟩
      intro x hx
      rcases List.mem_cons.mp hx with hx | hx
      · subst hx; exact hafter _ (by simp) e
      · exact hafter x (by simp [hx]) (Int.lt_of_lt_of_le e (hs.1 x hx))
    · simp only [tinsert, e, if_false]
      refine List.pairwise_cons.mpr ⟨?_, ih hs.2 hl.2 (fun x hx => hbefore x (by simp [hx])) (fun x hx => hafter x (by simp [hx]))⟩
      intro x hx
      rcases mem_tinsert.mp hx with hx | hx
      · subst hx; exact hbefore _ (by simp) (Int.not_lt.mp e)
      · exact hl.1 x hx

theorem sim_insert {s : State} {r : Ref} (h : Sim s r) {k : Key} (hk : alookup k s.primary = none)
    (v : Val) (trigs : List Key) (d : Time) (gen : Option Gen) :
    Sim (insertEntry s k v trigs d gen)
      (r.insertEntry k v trigs d gen) := by
  have hkn : ∀ e ∈ r.entries, e.key ≠ k := by
    intro e he hek
    have := h.data e he
    rw [hek, hk] at this; cases this
  have hseq : ∀ k', k' ≠ k →
      seqOf (r.insertEntry k v trigs d gen) k' = seqOf r k' := by
    intro k' hne
    simp only [seqOf, Ref.find, Ref.insertEntry]
    rw [List.find?_cons_of_neg (by simpa using fun e : k = k' => hne e.symm)]
  have hseqk : seqOf (r.insertEntry k v trigs d gen) k = r.nextSeq := by
    simp [seqOf, Ref.find, Ref.insertEntry]
  have hkeys : ∀ x ∈ s.timeout, x.2 ≠ k := by
    intro x hx
    obtain ⟨e, he, hek, _⟩ := h.timeout_entry (show (x.1, x.2) ∈ s.timeout from hx)
    exact hek ▸ hkn e he
  refine ⟨inv_insertEntry h.inv hk v trigs d gen, ?_, ?_, ?_, ?_, h.lim, ?_⟩
  · show k :: r.entries.map (·.key) = k :: s.lru
    rw [h.order]
  · intro e he
    rcases List.mem_cons.mp he with e1 | e1
    · subst e1
      simp [insertEntry, alookup, contOf, containerTrigs_eq, h.gen]
    · have hne : ¬ k = e.key := fun x => hkn e e1 x.symm
      simp only [insertEntry, alookup_cons, hne, if_false]
      exact h.data e e1
  · show (tinsert d k s.timeout).Pairwise _
    apply tinsert_pairwise h.inv.toSorted
    · refine List.Pairwise.imp_of_mem ?_ h.tord
      intro a b ha hb hab
      simpa [TOrd, hseq _ (hkeys a ha), hseq _ (hkeys b hb)] using hab
    · intro x hx hle
      obtain ⟨e, he, hek, _⟩ := h.timeout_entry (show (x.1, x.2) ∈ s.timeout from hx)
      have hfr := h.fresh e he
      have hsx : seqOf r x.2 = e.seq := hek ▸ seqOf_of_mem h.keysNodup he
      simp only [TOrd, hseq _ (hkeys x hx), hseqk, hsx]
      rcases Int.lt_or_eq_of_le hle with h1 | h1
      · exact Or.inl h1
      · exact Or.inr ⟨h1, hfr⟩
    · intro x hx hlt
      exact Or.inl hlt
  · intro e he
    rcases List.mem_cons.mp he with e1 | e1
    · subst e1; exact Nat.lt_succ_self _
    · exact Nat.lt_succ_of_lt (h.fresh e e1)
  · show (if gen.isNone then r.generation + 1 else r.generation) = (if gen.isNone then s.generation + 1 else s.generation)
    rw [h.gen]

/-! ### fetch (move to front) -/

theorem sim_touch {s : State} {r : Ref} (h : Sim s r) {k : Key} {e : REntry} (he : r.find k = some e) :
    Sim { s with lru := k :: s.lru.erase k } { (r.drop k) with entries := e :: (r.drop k).entries } := by
  obtain ⟨hc, hek, hem⟩ := (h.find_iff k).1 e he
  have hkm : k ∈ s.primary.map Prod.fst := alookup_isSome_iff.mp (by rw [hc]; rfl)
  have hseq : ∀ k', seqOf { (r.drop k) with entries := e :: (r.drop k).entries } k' = seqOf r k' := by
    intro k'
    simp only [seqOf, Ref.find]
    by_cases hk' : k' = k
    · subst hk'
      rw [List.find?_cons_of_pos (by simpa using hek)]
      simp only [Ref.find] at he
      rw [he]
    · rw [List.find?_cons_of_neg (by simpa [hek] using fun x : k = k' => hk' x.symm)]
      have := find_drop r k k' hk'
      simp only [Ref.find] at this
      rw [this]
  refine ⟨?_, ?_, ?_, ?_, ?_, h.lim, h.gen⟩
  · -- the invariant: as in `inv_fetch`
    refine ⟨h.inv.keys, ?_, ?_, h.inv.toNodup, h.inv.toMem, h.inv.toSorted, h.inv.trs, h.inv.trMem, h.inv.cTrigs,
      h.inv.sizeEq, h.inv.countEq⟩
    · show (k :: s.lru.erase k).Nodup
      refine List.nodup_cons.mpr ⟨?_, h.inv.lruNodup.erase k⟩
      intro hm
      exact ((h.inv.lruNodup.mem_erase_iff).mp hm).1 rfl
    · intro k'
      show k' ∈ k :: s.lru.erase k ↔ _
      rw [List.mem_cons, h.inv.lruNodup.mem_erase_iff, h.inv.lruMem]
      by_cases e' : k' = k
      · subst e'; simp [hkm]
      · simp [e']
  · show e.key :: (r.drop k).entries.map (·.key) = k :: s.lru.erase k
    rw [hek, h.inv.lruNodup.erase_eq_filter, ← h.order]
    simp only [Ref.drop, List.filter_map]
    rfl
  · intro e' he'
    rcases List.mem_cons.mp he' with e1 | e1
    · subst e1; exact hek ▸ hc
    · simp only [Ref.drop, List.mem_filter] at e1
      exact h.data e' e1.1
  · refine List.Pairwise.imp ?_ h.tord
    intro a b hab
    simpa [TOrd, hseq] using hab
  · intro e' he'
    rcases List.mem_cons.mp he' with e1 | e1
    · subst e1; exact h.fresh _ hem
    · simp only [Ref.drop, List.mem_filter] at e1
      exact h.fresh e' e1.1

/-! ### rise -/

theorem foldl_drop_eq (r : Ref) (K : List Key) :
    K.foldl Ref.drop r = { r with entries := r.entries.filter (fun e => !K.contains e.key) } := by
  induction K generalizing r with
  | nil =>
    have : r.entries.filter (fun _ => true) = r.entries := List.filter_eq_self.mpr (by simp)
    simp [this]
  | cons k K ih =>
    simp only [List.foldl_cons]
    rw [ih]
    simp only [Ref.drop, List.filter_filter]
    congr 1
    apply List.filter_congr
    intro e _
    by_cases h1 : e.key = k
    · simp [h1]
    · simp [h1]

theorem sim_foldl_drop {s : State} {r : Ref} (h : Sim s r) (K : List Key) :
    Sim (K.foldl deleteNode s) (K.foldl Ref.drop r) := by
  induction K generalizing s r with
  | nil => exact h
  | cons k K ih => exact ih (sim_drop h k)

theorem sim_rise {s : State} {r : Ref} (h : Sim s r) (t : Key) :
    Sim (rise s t) { r with entries := r.entries.filter (fun e => !e.trigs.contains t) } := by
  have := sim_foldl_drop h (trigList t s.triggers)
  rw [foldl_drop_eq] at this
  have e : r.entries.filter (fun e => !(trigList t s.triggers).contains e.key) =
      r.entries.filter (fun e => !e.trigs.contains t) := by
    apply List.filter_congr
    intro e he
    have h1 := h.inv.trMem t e.key
    rw [h.data e he] at h1
    simp only [Option.some.injEq, exists_eq_left', contOf] at h1
    by_cases h2 : t ∈ e.trigs
    · simp [h2, h1.mpr h2]
    · have : e.key ∉ trigList t s.triggers := fun x => h2 (h1.mp x)
      simp [h2, this]
  rw [e] at this
  exact this

theorem refused_of_none' {s : State} (h : s.sizeLimit = none) : refused s = false := by
  simp [refused, h]

/-! ### one step, histories -/

/-- the size cap (`size > size_limit()`, process-shared back-end) would refuse this store -/
def refusedIn (s : State) : Op → Bool
  | .store _ k _ _ _ _ _ => refused (deleteNode s k)
  | _ => false

/-- The concrete cache and the reference cache do the same thing, for every allocation outcome
(`StoreEnv`): the relation is preserved and the answers — fetch results and `stats` — are identical. -/
theorem sim_step {s : State} {r : Ref} (h : Sim s r) (op : Op) (hnr : refusedIn s op = false) :
    Sim (step s op).1 (r.step op).1 ∧ (step s op).2 = (r.step op).2 := by
  cases op with
  | fetch now k =>
    simp only [step, fetch, Ref.step]
    cases hf : r.find k with
    | none => simp only [(h.find_iff k).2 hf]; exact ⟨h, trivial⟩
    | some e =>
      obtain ⟨hc, hek, hem⟩ := (h.find_iff k).1 e hf
      simp only [hc, Gen.fetchExpired, contOf]
      by_cases hd : e.deadline < now
      · simp only [hd, decide_true, if_true]; exact ⟨h, trivial⟩
      · simp only [hd, decide_false, Bool.false_eq_true, if_false]
        exact ⟨sim_touch h hf, trivial⟩
  | store now k v trigs d gen env =>
    have hr : refused (deleteNode s k) = false := hnr
    have h1 := sim_drop h k
    simp only [step, store, storeG, Ref.step]
    by_cases q1 : env.copyFails = true
    · have : Gen.copyFailRemovesOld = true := rfl
      simp only [q1, if_true, this]
      exact ⟨h1, trivial⟩
    · simp only [q1, Bool.false_eq_true, if_false, hr]
      cases q2 : env.lateFails with
      | some b =>
        simp only
        refine ⟨⟨inv_nlClear _, rfl, (by intro e he; cases he), List.Pairwise.nil, (by intro e he; cases he),
          h.lim.trans (config_deleteNode s k).1.symm, ?_⟩, trivial⟩
        show (if (b && gen.isNone) = true then r.generation + 1 else r.generation) =
          (if (b && gen.isNone) = true then (deleteNode s k).generation + 1 else (deleteNode s k).generation)
        rw [generation_deleteNode, h.gen]
      | none =>
        simp only
        have hfuel : (deleteNode s k).size = (r.drop k).entries.length := h1.size_eq
        have h2 := sim_makeRoom h1 (deleteNode s k).size now env.lowMem
        have hk : alookup k (checkLimitsLoop (deleteNode s k).size (deleteNode s k) now env.lowMem).primary = none :=
          alookup_checkLimits_none (inv_deleteNode h.inv k) now env.lowMem (k := k)
            (by rw [alookup_deleteNode h.inv]; simp)
        have h3 := sim_insert h2 hk v trigs d gen
        simp only [checkLimits]
        rw [← hfuel]
        exact ⟨h3, trivial⟩
  | rise t => exact ⟨sim_rise h t, rfl⟩
  | remove k => exact ⟨sim_drop h k, rfl⟩
  | clear =>
    refine ⟨⟨inv_nlClear s, rfl, (by intro e he; cases he), List.Pairwise.nil, (by intro e he; cases he), h.lim, h.gen⟩, rfl⟩
  | stats =>
    refine ⟨h, ?_⟩
    simp only [step, Ref.step]
    rw [h.size_eq, h.count_eq]

def refRun (r : Ref) (ops : List Op) : Ref := ops.foldl (fun r op => (r.step op).1) r

theorem sim_init (limit : Nat) (sl : Option Nat) : Sim (State.init limit sl) { limit := limit } :=
  ⟨C07.inv_init limit sl, rfl, (by intro e he; cases he), List.Pairwise.nil, (by intro e he; cases he), rfl, rfl⟩

theorem sim_run {s : State} {r : Ref} (h : Sim s r) (ops : List Op)
    (hnr : ∀ a op b, ops = a ++ op :: b → refusedIn (run s a) op = false) : Sim (run s ops) (refRun r ops) := by
  induction ops generalizing s r with
  | nil => exact h
  | cons op ops ih =>
    have h1 := (sim_step h op (hnr [] op ops rfl)).1
    exact ih h1 (fun a o b e => by
      have := hnr (op :: a) o b (by rw [e]; rfl)
      simpa [run_cons] using this)

theorem refusedIn_of_none {s : State} (h : s.sizeLimit = none) (op : Op) : refusedIn s op = false := by
  cases op <;> simp [refusedIn, refused, (config_deleteNode s _).2.trans h]

end Cppcms.C08
