import Cppcms.C08.Lemmas
import Cppcms.C08.BuddyLemmas
import Cppcms.C08.Sim
/-!
# C08 — property theorems

"The cache stays within its limit; evicts expired, then least-recently-used."

Same concrete model as C07 (`Cppcms.C07.Model`, conditions regenerated from
`src/cache_storage.cpp`).  Statements hold for every history, every limit, both back-ends and
every allocation outcome (`StoreEnv`), also under memory pressure (`lowMem`).

The last section is about the buddy allocator behind the process-shared variant (model
`Buddy.lean`: forest of binary trees over the constructor's chunks; the allocator's *choice* of
block is an oracle, see there).
-/
namespace Cppcms.C08.Props
open Cppcms Cppcms.C07 Cppcms.C08

abbrev reach (limit : Nat) (sl : Option Nat) (ops : List Op) : State := run (State.init limit sl) ops

/-! ## the limit -/

/-- with a limit of `n > 0` entries the cache never holds more than `n`, after any history -/
theorem size_le_limit (limit : Nat) (hl : 0 < limit) (sl : Option Nat) (ops : List Op) :
    (reach limit sl ops).primary.length ≤ limit ∧ (reach limit sl ops).size ≤ limit := by
  have key : ∀ (s : State), Inv s → (0 < s.limit → s.size ≤ s.limit) →
      (0 < (run s ops).limit → (run s ops).size ≤ (run s ops).limit) := by
    induction ops with
    | nil => intro s _ hs; exact hs
    | cons op ops ih =>
      intro s h hs
      rw [run_cons]
      exact ih _ (inv_step h op) (sizeOk_step h hs op)
  have h0 := C07.inv_init limit sl
  have := key (State.init limit sl) h0 (by intro _; simp [State.init])
  have hcfg := (config_run (State.init limit sl) ops).1
  have hle : (reach limit sl ops).size ≤ limit := by
    have := this (by rw [hcfg]; exact hl)
    rw [hcfg] at this
    exact this
  exact ⟨(inv_run h0 ops).sizeEq ▸ hle, hle⟩

/-- what `stats` reports as key count respects the limit -/
theorem stats_keys_le_limit (limit : Nat) (hl : 0 < limit) (sl : Option Nat) (ops : List Op) (n m : Nat)
    (h : (step (reach limit sl ops) .stats).2 = .stats n m) : n ≤ limit := by
  simp only [step] at h
  cases h
  exact (size_le_limit limit hl sl ops).2

/-- `check_limits` leaves room for the entry about to be inserted (also under memory pressure) -/
theorem check_limits_makes_room {s : State} (h : Inv s) (now : Time) (mem : List Bool) (hl : 0 < s.limit) :
    (checkLimits s now mem).size < s.limit :=
  checkLimitsLoop_size h _ now mem (Nat.le_refl _) hl

/-! ## victim order -/

/-- One iteration of `check_limits`: while the guard holds (entries at/over the limit, or the
allocator reports low memory) the entry deleted is `victim`, then the loop continues. -/
theorem check_limits_evicts_victim {s : State} (h : Inv s) (now : Time) (mem : List Bool)
    (hc : Gen.limitsLoopCond s.size s.limit (mem.headD false) = true) :
    ∃ k c, victim s now = some k ∧ alookup k s.primary = some c ∧
      checkLimits s now mem = checkLimits (deleteNode s k) now mem.tail := by
  have hpos : 0 < s.size := by simp [Gen.limitsLoopCond] at hc; exact hc.1
  obtain ⟨k, c, hv, hk⟩ := victim_isSome h now hpos
  refine ⟨k, c, hv, hk, ?_⟩
  obtain ⟨m, hm⟩ : ∃ m, s.size = m + 1 := ⟨s.size - 1, by omega⟩
  have hsz := size_deleteNode_of_mem hk
  have hdm : (deleteNode s k).size = m := by omega
  have e1 : checkLimitsLoop (m + 1) s now mem = checkLimitsLoop m (deleteNode s k) now mem.tail := by
    show (if Gen.limitsLoopCond s.size s.limit (mem.headD false) = true then
      (match victim s now with
        | some k => checkLimitsLoop m (deleteNode s k) now mem.tail
        | none => s) else s) = _
    rw [if_pos hc, hv]
  show checkLimitsLoop s.size s now mem = checkLimitsLoop (deleteNode s k).size (deleteNode s k) now mem.tail
  rw [hdm, ← e1, hm]

/-- and when the guard does not hold nothing is evicted -/
theorem check_limits_stops {s : State} (now : Time) (mem : List Bool)
    (hc : Gen.limitsLoopCond s.size s.limit (mem.headD false) = false) : checkLimits s now mem = s := by
  unfold checkLimits
  cases s.size with
  | zero => rfl
  | succ n => unfold checkLimitsLoop; rw [hc]; rfl

/-- **expired first**: if some entry's deadline has passed, the victim is an entry whose deadline
has passed and is the earliest of all deadlines in the cache -/
theorem victim_expired_first {s : State} (h : Inv s) (now : Time) {k₀ : Key} {c₀ : Container}
    (h0 : alookup k₀ s.primary = some c₀) (hexp : c₀.deadline < now) :
    ∃ k c, victim s now = some k ∧ alookup k s.primary = some c ∧ c.deadline < now ∧
      ∀ k' c', alookup k' s.primary = some c' → c.deadline ≤ c'.deadline := by
  have hm : (c₀.deadline, k₀) ∈ s.timeout := (h.toMem _ _).mpr ⟨c₀, h0, rfl⟩
  cases hto : s.timeout with
  | nil => rw [hto] at hm; cases hm
  | cons p r =>
    obtain ⟨d, k⟩ := p
    have hmin := fun k' c' (hc' : alookup k' s.primary = some c') => timeout_head_min h hto hc'
    have hd : d < now := Int.lt_of_le_of_lt (hmin k₀ c₀ h0) hexp
    obtain ⟨c, hc, hcd⟩ := (h.toMem d k).mp (by rw [hto]; simp)
    refine ⟨k, c, ?_, hc, hcd ▸ hd, fun k' c' hc' => hcd ▸ hmin k' c' hc'⟩
    simp [victim, hto, Gen.evictExpired, hd]

/-- **else LRU tail**: if no entry has expired, the victim is the last element of `lru` -/
theorem victim_lru_tail {s : State} (h : Inv s) (now : Time)
    (hlive : ∀ k c, alookup k s.primary = some c → ¬ c.deadline < now) :
    victim s now = s.lru.getLast? := by
  unfold victim
  cases hto : s.timeout with
  | nil => simp [Gen.evictExpired]
  | cons p r =>
    obtain ⟨d, k⟩ := p
    obtain ⟨c, hc, hcd⟩ := (h.toMem d k).mp (by rw [hto]; simp)
    have : ¬ d < now := hcd ▸ hlive k c hc
    simp [Gen.evictExpired, this]

/-- among entries with the same deadline the one stored first is the first in the timeout index
(`std::multimap::insert` places a node after all nodes with keys ≤ the new key) -/
theorem timeout_insert_after_equal (d : Time) (k : Key) (l : List (Time × Key)) :
    tinsert d k l = l.takeWhile (fun p => decide (p.1 ≤ d)) ++ (d, k) :: l.dropWhile (fun p => decide (p.1 ≤ d)) :=
  tinsert_eq d k l

/-- every operation moves the entry it uses to the front of `lru` and keeps the relative order of all others -/
theorem lru_move_to_front (s : State) (op : Op) :
    ∃ rest, (step s op).1.lru = touched s op ++ rest ∧ rest.Sublist s.lru :=
  lru_step s op

/-- `lru` is the recency order (see `Lemmas.lru_recency`), stated for reachable states -/
theorem lru_is_recency_order (limit : Nat) (sl : Option Nat) (pre post : List Op) (opA : Op) {a b : Key}
    (hab : a ≠ b) (hA : touched (reach limit sl pre) opA = [a]) (hpost : ∀ o ∈ post, uses b o = false) :
    let s := reach limit sl (pre ++ opA :: post)
    a ∈ s.lru → b ∈ s.lru → [a, b].Sublist s.lru := by
  intro s
  have : s = run (step (reach limit sl pre) opA).1 post := by
    simp only [s, reach, run_append, run_cons]
  rw [this]
  exact lru_recency (inv_run (C07.inv_init limit sl) pre) hab opA hA post hpost

/-! ## stats -/

/-- The reported counts are those of the entries actually held: `keys` = number of keys `k` for
which the cache holds an entry (`abs s k ≠ none`), `triggers` = total number of (entry, trigger)
links, the key itself included — after any history, under the eviction rule above. -/
theorem stats_match_history (limit : Nat) (sl : Option Nat) (ops : List Op) :
    let s := reach limit sl ops
    (step s .stats).2 = .stats (s.primary.map Prod.fst).length ((s.primary.map fun p => p.2.trigs.length).sum) ∧
    (s.primary.map Prod.fst).Nodup ∧
    (∀ k, k ∈ s.primary.map Prod.fst ↔ abs s k ≠ none) ∧
    (∀ k c, alookup k s.primary = some c → abs s k = some ⟨c.data, c.trigs, c.deadline, c.gen⟩) := by
  intro s
  have h := inv_run (C07.inv_init limit sl) ops
  refine ⟨?_, h.keys, ?_, ?_⟩
  · simp only [step]
    rw [h.sizeEq, h.countEq]; simp [s, reach]
  · intro k
    rw [← alookup_isSome_iff]
    simp only [abs]
    cases alookup k s.primary <;> simp
  · intro k c hc; simp [abs, hc, toEntry]

/-- **Answers and counts are those implied by the history under the eviction rule.**
`Ref` (`Spec.lean`) is the reference cache written from the property text: entries in recency order;
before a store, while entries are held and (`limit` or more are held, or the allocator reports low
memory) drop the expired entry with the smallest (deadline, store sequence number), else the least
recently used one; a value that cannot be copied leaves the key absent; an allocation failure while
inserting empties the cache.  For **every** history and **every** allocation outcome (`StoreEnv`:
any `not_enough_memory()` answers, failing copies, `bad_alloc` inside) the concrete model of
`mem_cache` gives the same answer as the reference to every operation — every fetch result and
the `stats` counts — provided the entry-count cap `size > size_limit()` never fires (`refusedIn`;
it cannot with the thread back-end, see `matches_reference_thread`). -/
theorem matches_reference (limit : Nat) (sl : Option Nat) (ops : List Op) (op : Op)
    (hnr : ∀ a o b, ops ++ [op] = a ++ o :: b → refusedIn (reach limit sl a) o = false) :
    (step (reach limit sl ops) op).2 = ((refRun { limit := limit } ops).step op).2 := by
  have h := sim_run (sim_init limit sl) ops (fun a o b e => hnr a o (b ++ [op]) (by rw [e]; simp))
  exact (sim_step h op (hnr ops op [] rfl)).2

theorem matches_reference_thread (limit : Nat) (ops : List Op) (op : Op) :
    (step (reach limit none ops) op).2 = ((refRun { limit := limit } ops).step op).2 :=
  matches_reference limit none ops op (fun a o _ _ => refusedIn_of_none ((config_run _ a).2.trans rfl) o)

/-! ## non-vacuity -/

private def ka : Key := [97]
private def kb : Key := [98]
private def kc : Key := [99]

-- limit 2: third store evicts the least recently used (`ka` was fetched, so `kb` goes)
private def h₂ : List Op :=
  [.store 1000 ka [1] [] 1100, .store 1000 kb [2] [] 1100, .fetch 1000 ka, .store 1000 kc [3] [] 1100]
example : (step (reach 2 none h₂) (.fetch 1000 kb)).2 = .miss ∧
    (step (reach 2 none h₂) (.fetch 1000 ka)).2 = .hit [1] [ka] 1100 0 ∧
    (step (reach 2 none h₂) .stats).2 = .stats 2 2 := by decide
-- expired first: `ka` is the most recently used but its deadline has passed at the time of the third store
private def h₃ : List Op :=
  [.store 1000 kb [2] [] 1100, .store 1000 ka [1] [] 1001, .fetch 1000 ka, .store 1002 kc [3] [] 1100]
example : (reach 2 none h₃).lru = [kc, kb] := by decide
example : victim (reach 2 none (h₃.take 3)) 1002 = some ka ∧ victim (reach 2 none (h₃.take 3)) 1000 = some kb := by decide
-- memory pressure evicts even without a limit
example : (reach 0 (some 100) [.store 1000 ka [1] [] 1100, .store 1000 kb [2] [] 1100 none { lowMem := [true] }]).lru = [kb] := by
  decide
example : touched (reach 2 none (h₂.take 2)) (.fetch 1000 ka) = [ka] := by decide
-- the reference cache on the same histories (independent definitions): same victims, same counts
example : ((refRun { limit := 2 } h₂).step .stats).2 = .stats 2 2 ∧
    ((refRun { limit := 2 } h₂).step (.fetch 1000 kb)).2 = .miss ∧
    (refRun { limit := 2 } h₃).entries.map (·.key) = [kc, kb] := by decide
-- under memory pressure too: the allocator reports low memory once, the LRU entry goes, on both sides
example :
    let h := [Op.store 1000 ka [1] [] 1100, .store 1000 kb [2] [] 1100, .store 1000 kc [3] [] 1100 none { lowMem := [true, false] }]
    (refRun { limit := 0 } h).entries.map (·.key) = [kc, kb] ∧ (reach 0 (some 100) h).lru = [kc, kb] := by decide

/-! ## buddy allocator: memory of freed blocks is released

`Buddy.Arena` = the chunks the constructor creates, each a binary tree of blocks; `allocAt k off`
marks the block of order `k` at `off` used (splitting), `freeAt off` frees and coalesces.
`Normal` = no two free buddies side by side (all possible coalescing done). -/

open Buddy in
theorem buddy_init_normal (usable : Nat) : (init usable).Normal := init_normal usable

open Buddy in
/-- `Inv_buddy` (coalesced normal form) is preserved by every malloc and free, whichever block is chosen -/
theorem buddy_step_normal {a a' : Arena} {op : BOp} (h : a.step op = some a') (hn : a.Normal) : a'.Normal :=
  (Arena.step_spec h).2 hn

open Buddy in
/-- the blocks in use are exactly those allocated and not yet freed: malloc adds its block … -/
theorem buddy_used_after_alloc {a a' : Arena} {k off : Nat} (h : a.allocAt k off = some a') :
    a'.usedBlocks.Perm ((off, k) :: a.usedBlocks) := (Arena.allocAt_spec h).2.2

open Buddy in
/-- … and free removes exactly the freed one -/
theorem buddy_used_after_free {a a' : Arena} {off k : Nat} (h : a.freeAt off = some (a', k)) :
    a.usedBlocks.Perm ((off, k) :: a'.usedBlocks) := (Arena.freeAt_spec h).2.2

open Buddy in
/-- **fill, empty, refill indefinitely**: after any sequence of mallocs and frees, if no block is in
use any more the arena is exactly the freshly constructed one (every chunk one free block again) -/
theorem free_all_restores (usable : Nat) (ops : List BOp) (a : Arena)
    (hrun : (init usable).run ops = some a) (hnone : a.usedBlocks = []) : a = init usable := by
  obtain ⟨hs, hn⟩ := Arena.run_spec hrun
  exact Arena.eq_of_skeleton_allFree hs (Arena.allFree_of_noUsed (hn (init_normal usable)) hnone)
    (initChunks_allFree 64 0 usable)

/-- the segment of the process-shared cache and its locks are shared between processes: every `mmap` of
`mmap_anonymous` (generated flag lists) is `MAP_SHARED` and never `MAP_PRIVATE`, the mutex and the rwlock
are created `PTHREAD_PROCESS_SHARED`, inside such pages -/
theorem segment_and_locks_are_process_shared :
    (Gen.mmapFlags.all fun f => f.contains "MAP_SHARED" && !f.contains "MAP_PRIVATE") = true ∧
    Gen.mmapFlags.length = 3 ∧
    Gen.mutexPshared = "PTHREAD_PROCESS_SHARED" ∧ Gen.rwlockPshared = "PTHREAD_PROCESS_SHARED" ∧
    Gen.locksInSharedPages = true := by decide

/-- the cache's memory-pressure test looks at the allocator's largest free chunk (shape of
`shmem_control::max_available()` read by the translator), not at the total free memory -/
theorem max_available_is_max_free_chunk : Gen.maxAvailableIsMaxFreeChunk = true := rfl

/-- memory-pressure eviction is bounded by the allocator's state: once a free block of at least
10 % of the segment (plus header unit) exists, `not_enough_memory()` — modelled over the buddy
arena with the generated fraction — is false and `check_limits` stops evicting for memory reasons -/
theorem pressure_off_when_chunk_free {a : Buddy.Arena} {segment off b : Nat} (hm : (off, b) ∈ a.freeBlocks)
    (hpos : 0 < segment / 10) (hb : segment / 10 ≤ 2 ^ b - Gen.alignment) : a.notEnoughMemory segment = false :=
  Buddy.not_low_of_free_block hm hpos hb

/-- the address `get_buddy` computes (`p_len ^ p_ptr`, generated expression) for a block of order `k`
with even index is its right neighbour of the same order, for one with odd index its left neighbour:
the two halves of the enclosing block of order `k+1` — the sibling in the tree model -/
theorem buddy_address_is_sibling (q k : Nat) :
    Gen.buddyOf (2 ^ k) ((2 * q) * 2 ^ k) = (2 * q + 1) * 2 ^ k ∧
    Gen.buddyOf (2 ^ k) ((2 * q + 1) * 2 ^ k) = (2 * q) * 2 ^ k :=
  ⟨Buddy.xor_sibling_even q k, Buddy.xor_sibling_odd q k⟩

/-- every block `malloc` hands out is at least of the smallest order the allocator manages
(`2^minBits = 2·alignment ≥ sizeof(struct page)`): its header and free-list node fit inside it.
Depends on the clamp in `malloc` (generated `Gen.blockSize`); false of the code before the fix. -/
theorem malloc_order_ge_min (required : Nat) : Gen.minBits ≤ Buddy.orderOf required := by
  have h32 : 32 ≤ Gen.blockSize required := by
    unfold Gen.blockSize
    split
    · decide
    · rename_i h; simp [Gen.alignment, Gen.alignmentBits] at h ⊢; omega
  unfold Buddy.orderOf Buddy.orderOfSize
  have : ¬ Gen.blockSize required ≤ 1 := by omega
  simp only [Gen.getBitsInclusive, if_true, this, if_false]
  have h2 : 4 ≤ Nat.log2 (Gen.blockSize required - 1) := by
    rw [Nat.le_log2 (by omega)]
    omega
  simp only [Gen.minBits, Gen.alignmentBits]
  omega

/-- **a request gets the smallest block that holds it**: the block of order `orderOf n` holds the padded
request (`blockSize n` = request + header unit, rounded to the alignment) and the next smaller one
would not.  Depends on the comparison in `get_bits` (`Gen.getBitsInclusive`). -/
theorem malloc_order_is_smallest (required : Nat) :
    Gen.blockSize required ≤ 2 ^ Buddy.orderOf required ∧ 2 ^ (Buddy.orderOf required - 1) < Gen.blockSize required := by
  have h32 : 32 ≤ Gen.blockSize required := by
    unfold Gen.blockSize
    split
    · decide
    · rename_i h; simp [Gen.alignment, Gen.alignmentBits] at h ⊢; omega
  unfold Buddy.orderOf Buddy.orderOfSize
  have : ¬ Gen.blockSize required ≤ 1 := by omega
  simp only [Gen.getBitsInclusive, if_true, this, if_false, Nat.add_sub_cancel]
  have hne : Gen.blockSize required - 1 ≠ 0 := by omega
  have h1 : Gen.blockSize required - 1 < 2 ^ (Nat.log2 (Gen.blockSize required - 1) + 1) :=
    (Nat.log2_lt hne).mp (Nat.lt_succ_self _)
  have h2 : 2 ^ Nat.log2 (Gen.blockSize required - 1) ≤ Gen.blockSize required - 1 := Nat.log2_self_le hne
  omega

/-- the defect as found: without the clamp a request of 0 bytes gets a block of order 4 (16 bytes),
smaller than the 24-byte `struct page` the allocator writes into it -/
theorem malloc_zero_counterexample : Buddy.orderOfSize (Gen.blockSizeRaw 0) = 4 ∧ 4 < Gen.minBits := by decide

-- non-vacuity: 1000 usable bytes = chunks of 512, 256, 128, 64, 32; two blocks allocated in the 512 chunk and freed in the other order
example : (Buddy.init 1000).skeleton = [(9, 0), (8, 512), (7, 768), (6, 896), (5, 960)] := by decide
example :
    let ops := [Buddy.BOp.alloc 6 0, .alloc 7 128, .alloc 5 64, .free 0, .free 128, .free 64]
    ((Buddy.init 1000).run ops).map (·.usedBlocks) = some [] ∧
    ((Buddy.init 1000).run (ops.take 4)).map (·.freeBlocks) =
      some [(0, 6), (96, 5), (256, 8), (512, 8), (768, 7), (896, 6), (960, 5)] := by decide
-- fragmentation: 176 bytes are free in total (> 10 % of a 1544-byte segment) but the largest chunk is 112: memory is low
example :
    let a := (Buddy.init 1000).run [.alloc 9 0, .alloc 8 512]
    a.map (·.notEnoughMemory 1544) = some true ∧ a.map (·.totalFree) = some 176 ∧ a.map (·.maxFreeChunk) = some 112 := by decide
example : (960, 5) ∈ (Buddy.init 1000).freeBlocks ∧ 0 < 100 / 10 ∧ 100 / 10 ≤ 2 ^ 5 - Gen.alignment := by decide
example : Buddy.orderOf 1 = 5 ∧ Buddy.orderOf 16 = 5 ∧ Buddy.orderOf 17 = 6 ∧ Buddy.orderOf 2001 = 11 := by decide

end Cppcms.C08.Props
