import Cppcms.C08.Buddy
/-! # C08 — lemmas about the buddy allocator model -/
namespace Cppcms.C08.Buddy
open Cppcms

theorem normal_mk {l r : T} (hl : Normal l) (hr : Normal r) : Normal (mk l r) := by
  unfold mk
  by_cases h : l = .free ∧ r = .free
  · simp [h, Normal]
  · simp only [h, if_false]; exact ⟨hl, hr, h⟩

theorem hasUsed_mk (l r : T) : hasUsed (mk l r) = (hasUsed l || hasUsed r) := by
  unfold mk
  by_cases h : l = .free ∧ r = .free
  · simp [h, hasUsed]
  · simp [h, hasUsed]

/-- **uniqueness of the coalesced form**: a tree in normal form with no block in use is one free block -/
theorem normal_noUsed_eq_free {t : T} (hn : Normal t) (hu : hasUsed t = false) : t = .free := by
  induction t with
  | free => rfl
  | used => simp [hasUsed] at hu
  | node l r ihl ihr =>
    simp only [hasUsed, Bool.or_eq_false_iff] at hu
    obtain ⟨nl, nr, hne⟩ := hn
    exact absurd ⟨ihl nl hu.1, ihr nr hu.2⟩ hne

theorem allocAt_hasUsed {n : Nat} {t : T} {k off : Nat} {t' : T} (h : allocAt n t k off = some t') :
    hasUsed t' = true := by
  induction n generalizing t k off t' with
  | zero =>
    simp only [allocAt] at h
    split at h
    · cases h; rfl
    · cases h
  | succ n ih =>
    simp only [allocAt] at h
    split at h
    · split at h
      · cases h; rfl
      · cases h
    · cases t with
      | used => cases h
      | free =>
        simp only at h
        split at h
        · obtain ⟨l, hl, e⟩ := Option.map_eq_some_iff.mp h
          subst e; simp [hasUsed, ih hl]
        · obtain ⟨r, hr, e⟩ := Option.map_eq_some_iff.mp h
          subst e; simp [hasUsed, ih hr]
      | node l r =>
        simp only at h
        split at h
        · obtain ⟨l', hl, e⟩ := Option.map_eq_some_iff.mp h
          subst e; simp [hasUsed, ih hl]
        · obtain ⟨r', hr, e⟩ := Option.map_eq_some_iff.mp h
          subst e; simp [hasUsed, ih hr]

theorem allocAt_ne_free {n : Nat} {t : T} {k off : Nat} {t' : T} (h : allocAt n t k off = some t') : t' ≠ .free := by
  intro e; subst e
  have := allocAt_hasUsed h
  simp [hasUsed] at this

/-- splitting for an allocation never leaves two free buddies side by side -/
theorem normal_allocAt {n : Nat} {t : T} {k off : Nat} {t' : T} (hn : Normal t)
    (h : allocAt n t k off = some t') : Normal t' := by
  induction n generalizing t k off t' with
  | zero =>
    simp only [allocAt] at h
    split at h
    · cases h; trivial
    · cases h
  | succ n ih =>
    simp only [allocAt] at h
    split at h
    · split at h
      · cases h; trivial
      · cases h
    · cases t with
      | used => cases h
      | free =>
        simp only at h
        split at h
        · obtain ⟨l, hl, e⟩ := Option.map_eq_some_iff.mp h
          subst e
          exact ⟨ih (t := .free) trivial hl, trivial, fun hh => allocAt_ne_free hl hh.1⟩
        · obtain ⟨r, hr, e⟩ := Option.map_eq_some_iff.mp h
          subst e
          exact ⟨trivial, ih (t := .free) trivial hr, fun hh => allocAt_ne_free hr hh.2⟩
      | node l r =>
        obtain ⟨nl, nr, _⟩ := hn
        simp only at h
        split at h
        · obtain ⟨l', hl, e⟩ := Option.map_eq_some_iff.mp h
          subst e
          exact ⟨ih nl hl, nr, fun hh => allocAt_ne_free hl hh.1⟩
        · obtain ⟨r', hr, e⟩ := Option.map_eq_some_iff.mp h
          subst e
          exact ⟨nl, ih nr hr, fun hh => allocAt_ne_free hr hh.2⟩

/-- `free_page` restores the normal form (coalesces as far as possible) -/
theorem normal_freeAt {n : Nat} {t : T} {off : Nat} {t' : T} {k : Nat} (hn : Normal t)
    (h : freeAt n t off = some (t', k)) : Normal t' := by
  induction t generalizing n off t' k with
  | free => simp [freeAt] at h
  | used =>
    simp only [freeAt] at h
    split at h
    · cases h; trivial
    · cases h
  | node l r ihl ihr =>
    obtain ⟨nl, nr, _⟩ := hn
    simp only [freeAt] at h
    split at h
    · obtain ⟨p, hp, e⟩ := Option.map_eq_some_iff.mp h
      cases e
      exact normal_mk (ihl nl (by rw [hp])) nr
    · obtain ⟨p, hp, e⟩ := Option.map_eq_some_iff.mp h
      cases e
      exact normal_mk nl (ihr nr (by rw [hp]))

/-! ### which blocks are in use -/

theorem usedBlocks_mk (n base : Nat) (l r : T) :
    usedBlocks n base (mk l r) = usedBlocks (n - 1) base l ++ usedBlocks (n - 1) (base + 2 ^ (n - 1)) r := by
  unfold mk
  by_cases h : l = .free ∧ r = .free
  · obtain ⟨h1, h2⟩ := h; subst h1; subst h2; simp [usedBlocks]
  · simp [h, usedBlocks]

theorem hasUsed_false_iff (n base : Nat) (t : T) : hasUsed t = false ↔ usedBlocks n base t = [] := by
  induction t generalizing n base with
  | free => simp [hasUsed, usedBlocks]
  | used => simp [hasUsed, usedBlocks]
  | node l r ihl ihr =>
    simp only [hasUsed, Bool.or_eq_false_iff, usedBlocks, List.append_eq_nil_iff]
    rw [ihl (n - 1) base, ihr (n - 1) (base + 2 ^ (n - 1))]

/-- an allocation adds exactly the allocated block to the blocks in use -/
theorem usedBlocks_allocAt {n : Nat} {t : T} {k off : Nat} {t' : T} (base : Nat)
    (h : allocAt n t k off = some t') :
    (usedBlocks n base t').Perm ((base + off, k) :: usedBlocks n base t) := by
  induction n generalizing t k off t' base with
  | zero =>
    simp only [allocAt] at h
    split at h
    · rename_i hc
      obtain ⟨h1, h2, h3⟩ := hc
      cases h; subst h1; subst h2; subst h3
      simp [usedBlocks]
    · cases h
  | succ n ih =>
    simp only [allocAt] at h
    split at h
    · rename_i hk
      split at h
      · rename_i hc
        obtain ⟨h2, h3⟩ := hc
        cases h; subst h2; subst h3; subst hk
        simp [usedBlocks]
      · cases h
    · cases t with
      | used => cases h
      | free =>
        simp only at h
        split at h
        · obtain ⟨l, hl, e⟩ := Option.map_eq_some_iff.mp h
          subst e
          have := ih base hl
          simpa [usedBlocks] using this
        · rename_i hlt
          obtain ⟨r, hr, e⟩ := Option.map_eq_some_iff.mp h
          subst e
          have := ih (base + 2 ^ n) hr
          have e2 : base + 2 ^ n + (off - 2 ^ n) = base + off := by omega
          rw [e2] at this
          simpa [usedBlocks] using this
      | node l r =>
        simp only at h
        split at h
        · obtain ⟨l', hl, e⟩ := Option.map_eq_some_iff.mp h
          subst e
          have := ih base hl
          simp only [usedBlocks, Nat.add_sub_cancel]
          exact (this.append_right _).trans (by simp)
        · rename_i hlt
          obtain ⟨r', hr, e⟩ := Option.map_eq_some_iff.mp h
          subst e
          have := ih (base + 2 ^ n) hr
          have e2 : base + 2 ^ n + (off - 2 ^ n) = base + off := by omega
          rw [e2] at this
          simp only [usedBlocks, Nat.add_sub_cancel]
          exact (this.append_left _).trans (List.perm_middle)

/-- a free removes exactly the freed block from the blocks in use -/
theorem usedBlocks_freeAt {n : Nat} {t : T} {off : Nat} {t' : T} {k : Nat} (base : Nat)
    (h : freeAt n t off = some (t', k)) :
    (usedBlocks n base t).Perm ((base + off, k) :: usedBlocks n base t') := by
  induction t generalizing n off t' k base with
  | free => simp [freeAt] at h
  | used =>
    simp only [freeAt] at h
    split at h
    · rename_i h0
      cases h; subst h0
      simp [usedBlocks]
    · cases h
  | node l r ihl ihr =>
    simp only [freeAt] at h
    split at h
    · obtain ⟨p, hp, e⟩ := Option.map_eq_some_iff.mp h
      cases e
      have := ihl base (show freeAt (n - 1) l off = some (p.1, p.2) from hp)
      rw [usedBlocks_mk]
      simp only [usedBlocks]
      exact (this.append_right _).trans (by simp)
    · rename_i hlt
      obtain ⟨p, hp, e⟩ := Option.map_eq_some_iff.mp h
      cases e
      have := ihr (base + 2 ^ (n - 1)) (show freeAt (n - 1) r (off - 2 ^ (n - 1)) = some (p.1, p.2) from hp)
      have e2 : base + 2 ^ (n - 1) + (off - 2 ^ (n - 1)) = base + off := by omega
      rw [e2] at this
      rw [usedBlocks_mk]
      simp only [usedBlocks]
      exact (this.append_left _).trans (List.perm_middle)

/-! ### the arena -/

theorem Arena.allocAt_spec {a a' : Arena} {k off : Nat} (h : a.allocAt k off = some a') :
    a'.skeleton = a.skeleton ∧ (a.Normal → a'.Normal) ∧ a'.usedBlocks.Perm ((off, k) :: a.usedBlocks) := by
  induction a generalizing a' with
  | nil => simp [Arena.allocAt] at h
  | cons c cs ih =>
    simp only [Arena.allocAt] at h
    split at h
    · rename_i hin
      obtain ⟨t, ht, e⟩ := Option.map_eq_some_iff.mp h
      subst e
      refine ⟨rfl, ?_, ?_⟩
      · intro hn c' hc'
        rcases List.mem_cons.mp hc' with e | e
        · subst e; exact normal_allocAt (hn c (by simp)) ht
        · exact hn c' (by simp [e])
      · have := usedBlocks_allocAt c.base ht
        have e2 : c.base + (off - c.base) = off := by omega
        rw [e2] at this
        simp only [Arena.usedBlocks, List.flatMap_cons]
        exact (this.append_right _).trans (by simp)
    · obtain ⟨cs', hcs, e⟩ := Option.map_eq_some_iff.mp h
      subst e
      obtain ⟨h1, h2, h3⟩ := ih hcs
      refine ⟨by simp [Arena.skeleton] at h1 ⊢; exact h1, ?_, ?_⟩
      · intro hn c' hc'
        rcases List.mem_cons.mp hc' with e | e
        · subst e; exact hn c' (by simp)
        · exact h2 (fun c'' hc'' => hn c'' (by simp [hc''])) c' e
      · simp only [Arena.usedBlocks, List.flatMap_cons] at h3 ⊢
        exact (h3.append_left _).trans List.perm_middle

theorem Arena.freeAt_spec {a a' : Arena} {off k : Nat} (h : a.freeAt off = some (a', k)) :
    a'.skeleton = a.skeleton ∧ (a.Normal → a'.Normal) ∧ a.usedBlocks.Perm ((off, k) :: a'.usedBlocks) := by
  induction a generalizing a' with
  | nil => simp [Arena.freeAt] at h
  | cons c cs ih =>
    simp only [Arena.freeAt] at h
    split at h
    · rename_i hin
      obtain ⟨p, hp, e⟩ := Option.map_eq_some_iff.mp h
      cases e
      refine ⟨rfl, ?_, ?_⟩
      · intro hn c' hc'
        rcases List.mem_cons.mp hc' with e | e
        · subst e; exact normal_freeAt (hn c (by simp)) (show Buddy.freeAt c.order c.tree (off - c.base) = some (p.1, p.2) from hp)
        · exact hn c' (by simp [e])
      · have := usedBlocks_freeAt c.base (show Buddy.freeAt c.order c.tree (off - c.base) = some (p.1, p.2) from hp)
        have e2 : c.base + (off - c.base) = off := by omega
        rw [e2] at this
        simp only [Arena.usedBlocks, List.flatMap_cons]
        exact (this.append_right _).trans (by simp)
    · obtain ⟨p, hp, e⟩ := Option.map_eq_some_iff.mp h
      cases e
      obtain ⟨h1, h2, h3⟩ := ih (show Arena.freeAt cs off = some (p.1, p.2) from hp)
      refine ⟨by simp [Arena.skeleton] at h1 ⊢; exact h1, ?_, ?_⟩
      · intro hn c' hc'
        rcases List.mem_cons.mp hc' with e | e
        · subst e; exact hn c' (by simp)
        · exact h2 (fun c'' hc'' => hn c'' (by simp [hc''])) c' e
      · simp only [Arena.usedBlocks, List.flatMap_cons] at h3 ⊢
        exact (h3.append_left _).trans List.perm_middle

theorem Arena.step_spec {a a' : Arena} {op : BOp} (h : a.step op = some a') :
    a'.skeleton = a.skeleton ∧ (a.Normal → a'.Normal) := by
  cases op with
  | alloc k off => exact ⟨(Arena.allocAt_spec h).1, (Arena.allocAt_spec h).2.1⟩
  | free off =>
    simp only [Arena.step] at h
    obtain ⟨p, hp, e⟩ := Option.map_eq_some_iff.mp h
    subst e
    have := Arena.freeAt_spec (show a.freeAt off = some (p.1, p.2) from hp)
    exact ⟨this.1, this.2.1⟩

theorem Arena.run_spec {a a' : Arena} {ops : List BOp} (h : a.run ops = some a') :
    a'.skeleton = a.skeleton ∧ (a.Normal → a'.Normal) := by
  induction ops generalizing a with
  | nil => simp only [Arena.run, Option.some.injEq] at h; subst h; exact ⟨rfl, id⟩
  | cons op ops ih =>
    simp only [Arena.run] at h
    cases hs : a.step op with
    | none => rw [hs] at h; cases h
    | some a1 =>
      rw [hs] at h
      obtain ⟨s1, n1⟩ := Arena.step_spec hs
      obtain ⟨s2, n2⟩ := ih h
      exact ⟨s2.trans s1, fun hn => n2 (n1 hn)⟩

theorem Arena.allFree_of_noUsed {a : Arena} (hn : a.Normal) (hu : a.usedBlocks = []) : a.AllFree := by
  intro c hc
  apply normal_noUsed_eq_free (hn c hc)
  rw [hasUsed_false_iff c.order c.base]
  simp only [Arena.usedBlocks, List.flatMap_eq_nil_iff] at hu
  exact hu c hc

theorem Arena.eq_of_skeleton_allFree {a b : Arena} (hs : a.skeleton = b.skeleton) (ha : a.AllFree) (hb : b.AllFree) :
    a = b := by
  induction a generalizing b with
  | nil => cases b with
    | nil => rfl
    | cons c cs => simp [Arena.skeleton] at hs
  | cons c cs ih =>
    cases b with
    | nil => simp [Arena.skeleton] at hs
    | cons d ds =>
      simp only [Arena.skeleton, List.map_cons, List.cons.injEq, Prod.mk.injEq] at hs
      obtain ⟨⟨h1, h2⟩, h3⟩ := hs
      have e1 := ha c (by simp)
      have e2 := hb d (by simp)
      have : c = d := by
        cases c; cases d; simp_all
      rw [this, ih h3 (fun x hx => ha x (by simp [hx])) (fun x hx => hb x (by simp [hx]))]

theorem initChunks_allFree (fuel pos rem : Nat) : Arena.AllFree (initChunks fuel pos rem) := by
  induction fuel generalizing pos rem with
  | zero => intro c hc; simp [initChunks] at hc
  | succ n ih =>
    intro c hc
    simp only [initChunks] at hc
    split at hc
    · simp at hc
    · rcases List.mem_cons.mp hc with e | e
      · subst e; rfl
      · exact ih _ _ c e

theorem init_normal (usable : Nat) : (init usable).Normal := by
  intro c hc
  rw [initChunks_allFree 64 0 usable c hc]
  trivial

/-! ### `get_buddy`: `p_len xor p_ptr` is the sibling -/

theorem testBit_mul_pow (m k j : Nat) : (m * 2 ^ k).testBit j = (decide (k ≤ j) && m.testBit (j - k)) := by
  rw [Nat.mul_comm, Nat.testBit_two_pow_mul]

theorem xor_sibling_even (q k : Nat) : Gen.buddyOf (2 ^ k) ((2 * q) * 2 ^ k) = (2 * q + 1) * 2 ^ k := by
  unfold Gen.buddyOf
  apply Nat.eq_of_testBit_eq
  intro j
  rw [Nat.testBit_xor, Nat.testBit_two_pow, testBit_mul_pow, testBit_mul_pow]
  by_cases h : k ≤ j
  · obtain ⟨i, rfl⟩ : ∃ i, j = k + i := ⟨j - k, by omega⟩
    simp only [h, decide_true, Bool.true_and, Nat.add_sub_cancel_left]
    cases i with
    | zero => simp [Nat.testBit_zero]
    | succ i =>
      have : ¬ k = k + (i + 1) := by omega
      simp only [this, decide_false, Bool.false_xor, Nat.testBit_succ]
      congr 1; omega
  · have : ¬ k = j := by omega
    simp [h, this]

theorem xor_sibling_odd (q k : Nat) : Gen.buddyOf (2 ^ k) ((2 * q + 1) * 2 ^ k) = (2 * q) * 2 ^ k := by
  unfold Gen.buddyOf
  apply Nat.eq_of_testBit_eq
  intro j
  rw [Nat.testBit_xor, Nat.testBit_two_pow, testBit_mul_pow, testBit_mul_pow]
  by_cases h : k ≤ j
  · obtain ⟨i, rfl⟩ : ∃ i, j = k + i := ⟨j - k, by omega⟩
    simp only [h, decide_true, Bool.true_and, Nat.add_sub_cancel_left]
    cases i with
    | zero => simp [Nat.testBit_zero]
    | succ i =>
      have : ¬ k = k + (i + 1) := by omega
      simp only [this, decide_false, Bool.false_xor, Nat.testBit_succ]
      congr 1; omega
  · have : ¬ k = j := by omega
    simp [h, this]

/-! ### memory pressure as the cache sees it -/

theorem foldl_max_ge (l : List Nat) (init : Nat) : init ≤ l.foldl max init ∧ ∀ x ∈ l, x ≤ l.foldl max init := by
  induction l generalizing init with
  | nil => simp
  | cons a l ih =>
    simp only [List.foldl_cons]
    obtain ⟨h1, h2⟩ := ih (max init a)
    refine ⟨Nat.le_trans (Nat.le_max_left _ _) h1, ?_⟩
    intro x hx
    rcases List.mem_cons.mp hx with e | e
    · subst e; exact Nat.le_trans (Nat.le_max_right _ _) h1
    · exact h2 x e

theorem foldl_max_mem (l : List Nat) (init : Nat) : l.foldl max init = init ∨ l.foldl max init ∈ l := by
  induction l generalizing init with
  | nil => simp
  | cons a l ih =>
    simp only [List.foldl_cons]
    rcases ih (max init a) with h | h
    · rw [h]
      rcases Nat.le_total init a with h' | h'
      · right; rw [Nat.max_eq_right h']; simp
      · left; exact Nat.max_eq_left h'
    · right; exact List.mem_cons_of_mem _ h

/-- as soon as one free block of at least 10 % of the segment (plus its header unit) exists, the cache's
memory-pressure test is off: `check_limits` stops evicting for memory reasons -/
theorem not_low_of_free_block {a : Arena} {segment off b : Nat} (hm : (off, b) ∈ a.freeBlocks)
    (hpos : 0 < segment / 10) (hb : segment / 10 ≤ 2 ^ b - Gen.alignment) : a.notEnoughMemory segment = false := by
  unfold Arena.notEnoughMemory Cppcms.C07.Gen.processNotEnoughMemory Arena.maxFreeChunk
  have hbm : b ∈ a.freeBlocks.map (·.2) := List.mem_map.mpr ⟨(off, b), hm, rfl⟩
  have hge := (foldl_max_ge (a.freeBlocks.map (·.2)) 0).2 b hbm
  have hb1 : 1 ≤ b := by
    rcases Nat.eq_zero_or_pos b with e | e
    · subst e; simp [Gen.alignment, Gen.alignmentBits] at hb; omega
    · exact e
  generalize hM : (a.freeBlocks.map (·.2)).foldl max 0 = M at hge
  have hMmem : M ∈ a.freeBlocks.map (·.2) := by
    rcases foldl_max_mem (a.freeBlocks.map (·.2)) 0 with h | h
    · rw [hM] at h; omega
    · rw [hM] at h; exact h
  obtain ⟨x, hx, hxM⟩ := List.mem_map.mp hMmem
  have hlen : 1 ≤ (a.freeBlocks.filter (·.2 == M)).length := by
    apply List.length_pos_of_mem (a := x)
    simp [List.mem_filter, hx, hxM]
  have hpow : 2 ^ b ≤ 2 ^ M := Nat.pow_le_pow_right (by decide) hge
  cases M with
  | zero => omega
  | succ M' =>
    simp only [decide_eq_false_iff_not, Nat.not_lt]
    calc segment / 10 ≤ 2 ^ b - Gen.alignment := hb
      _ ≤ 2 ^ (M' + 1) - Gen.alignment := Nat.sub_le_sub_right hpow _
      _ = 1 * (2 ^ (M' + 1) - Gen.alignment) := (Nat.one_mul _).symm
      _ ≤ (a.freeBlocks.filter (·.2 == M' + 1)).length * (2 ^ (M' + 1) - Gen.alignment) := Nat.mul_le_mul_right _ hlen

end Cppcms.C08.Buddy
