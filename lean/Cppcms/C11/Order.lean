import Cppcms.C11.Lemmas
/-! Helper lemmas for C11, part 2: `Forall`/`depth` over lists, `keyLt` is a strict total order. -/
namespace Cppcms.C11
open Cppcms Spec

/-! ### `Forall` / `depth` over lists -/

theorem forallL_iff {N} (P : Value N → Prop) (l : List (Value N)) : ForallL P l ↔ ∀ v ∈ l, Forall P v := by
  induction l with
  | nil => simp [ForallL]
  | cons a l ih => simp [ForallL, ih]

theorem forallM_iff {N} (P : Value N → Prop) (l : List (Bytes × Value N)) : ForallM P l ↔ ∀ kv ∈ l, Forall P kv.2 := by
  induction l with
  | nil => simp [ForallM]
  | cons a l ih => obtain ⟨k, v⟩ := a; simp [ForallM, ih]

theorem forall_arr {N} (P : Value N → Prop) (l : List (Value N)) :
    Forall P (.arr l) ↔ P (.arr l) ∧ ∀ v ∈ l, Forall P v := by
  rw [Forall, forallL_iff]

theorem forall_obj {N} (P : Value N → Prop) (l : List (Bytes × Value N)) :
    Forall P (.obj l) ↔ P (.obj l) ∧ ∀ kv ∈ l, Forall P kv.2 := by
  rw [Forall, forallM_iff]

theorem depthL_le {N} (l : List (Value N)) (d : Nat) : depthL l ≤ d ↔ ∀ v ∈ l, depth v ≤ d := by
  induction l with
  | nil => simp [depthL]
  | cons a l ih => simp [depthL, Nat.max_le, ih]

theorem depthM_le {N} (l : List (Bytes × Value N)) (d : Nat) : depthM l ≤ d ↔ ∀ kv ∈ l, depth kv.2 ≤ d := by
  induction l with
  | nil => simp [depthM]
  | cons a l ih => obtain ⟨k, v⟩ := a; simp [depthM, Nat.max_le, ih]

/-! ### `keyLt` is a strict total order -/

theorem keyLt_irrefl (a : Bytes) : keyLt a a = false := by
  induction a with
  | nil => simp [keyLt]
  | cons x a ih => simp [keyLt, ih]

theorem keyLt_trans : ∀ (a b c : Bytes), keyLt a b = true → keyLt b c = true → keyLt a c = true := by
  intro a
  induction a with
  | nil =>
    intro b c h1 h2
    cases b with
    | nil => simp [keyLt] at h1
    | cons y b => cases c with
      | nil => simp [keyLt] at h2
      | cons z c => simp [keyLt]
  | cons x a ih =>
    intro b c h1 h2
    cases b with
    | nil => simp [keyLt] at h1
    | cons y b =>
      cases c with
      | nil => simp [keyLt] at h2
      | cons z c =>
        simp only [keyLt] at h1 h2 ⊢
        by_cases hxy : x.toNat < y.toNat
        · by_cases hyz : y.toNat < z.toNat
          · have : x.toNat < z.toNat := by omega
            simp [this]
          · by_cases hzy : z.toNat < y.toNat
            · simp [hyz, hzy] at h2
            · have : x.toNat < z.toNat := by omega
              simp [this]
        · by_cases hyx : y.toNat < x.toNat
          · simp [hxy, hyx] at h1
          · simp only [hxy, hyx, if_false] at h1
            by_cases hyz : y.toNat < z.toNat
            · have : x.toNat < z.toNat := by omega
              simp [this]
            · by_cases hzy : z.toNat < y.toNat
              · simp [hyz, hzy] at h2
              · simp only [hyz, hzy, if_false] at h2
                have h3 : ¬ x.toNat < z.toNat := by omega
                have h4 : ¬ z.toNat < x.toNat := by omega
                simp only [h3, h4, if_false]
                exact ih b c h1 h2

theorem keyLt_total : ∀ (a b : Bytes), a ≠ b → keyLt a b = true ∨ keyLt b a = true := by
  intro a
  induction a with
  | nil => intro b h; cases b with
    | nil => exact absurd rfl h
    | cons y b => simp [keyLt]
  | cons x a ih =>
    intro b h
    cases b with
    | nil => simp [keyLt]
    | cons y b =>
      simp only [keyLt]
      by_cases hxy : x.toNat < y.toNat
      · simp [hxy]
      · by_cases hyx : y.toNat < x.toNat
        · simp [hyx]
        · have hxe : x = y := UInt8.toNat_inj.mp (by omega)
          subst hxe
          have : a ≠ b := fun e => h (by rw [e])
          simpa [hxy] using ih b this

theorem keyLt_asymm (a b : Bytes) (h : keyLt a b = true) : keyLt b a = false := by
  cases hba : keyLt b a with
  | false => rfl
  | true => have := keyLt_trans a b a h hba; rw [keyLt_irrefl] at this; exact absurd this (by simp)
end Cppcms.C11
