import Cppcms.C11.Lemmas
/-! Helper lemmas for C11, part 2: `Forall`/`depth` over lists, `keyLt` is a strict total order. -/
namespace Cppcms.C11
open Cppcms Spec

/-! ### `Forall` / `depth` over lists -/

theorem forallL_iff {N} (P : Value N → Prop) (l : List (Value N)) : ForallL P l ↔ ∀ v ∈ l, Forall P v := by
  induction l with
  | nil => simp [ForallL]
  | cons a l ih => simp [ForallL, ih]

theorem forallM_iff {N} (P : Value N → Prop) (l : List (Bytes × Value N)) : ForallM P l ↔ ∀ kv ∈ l, Forall P kv.2 := by
  induction l with
  | nil => simp [ForallM]
  | cons a l ih => obtain ⟨k, v⟩ := a; simp [ForallM, ih]

theorem forall_arr {N} (P : Value N → Prop) (l : List (Value N)) :
    Forall P (.arr l) ↔ P (.arr l) ∧ ∀ v ∈ l, Forall P v := by
  rw [Forall, forallL_iff]

theorem forall_obj {N} (P : Value N → Prop) (l : List (Bytes × Value N)) :
    Forall P (.obj l) ↔ P (.obj l) ∧ ∀ kv ∈ l, Forall P kv.2 := by
  rw [Forall, forallM_iff]

theorem depthL_le {N} (l : List (Value N)) (d : Nat) : depthL l ≤ d ↔ ∀ v ∈ l, depth v ≤ d := by
  induction l with
  | nil => simp [depthL]
  | cons a l ih => simp [depthL, Nat.max_le, ih]

theorem depthM_le {N} (l : List (Bytes × Value N)) (d : Nat) : depthM l ≤ d ↔ ∀ kv ∈ l, depth kv.2 ≤ d := by
  induction l with
  | nil => simp [depthM]
  | cons a l ih => obtain ⟨k, v⟩ := a; simp [depthM, Nat.max_le, ih]

end Cppcms.C11
