import Cppcms.C11.Types
/-!
# C11 specification side

Written from RFC 3629 (UTF-8) and RFC 8259 (JSON), independently of the tokenizer and
the state machine of `src/json.cpp`: imports only `Types.lean` (the value type and the
`std::map` representation), neither `Gen.lean` nor `Model.lean`.
-/
namespace Cppcms.C11.Spec
open Cppcms Cppcms.C11

/-! ## RFC 3629 §4 -/

def Tail (b : UInt8) : Prop := 0x80 ≤ b.toNat ∧ b.toNat ≤ 0xBF

/-- one UTF-8 encoded character: UTF8-1 / UTF8-2 / UTF8-3 / UTF8-4 of the ABNF -/
inductive Utf8Char : Bytes → Prop
  | u1 (b : UInt8) : b.toNat ≤ 0x7F → Utf8Char [b]
  | u2 (b0 b1 : UInt8) : 0xC2 ≤ b0.toNat → b0.toNat ≤ 0xDF → Tail b1 → Utf8Char [b0, b1]
  | u3 (b0 b1 b2 : UInt8) :
      ((b0.toNat = 0xE0 ∧ 0xA0 ≤ b1.toNat ∧ b1.toNat ≤ 0xBF) ∨
       (0xE1 ≤ b0.toNat ∧ b0.toNat ≤ 0xEC ∧ Tail b1) ∨
       (b0.toNat = 0xED ∧ 0x80 ≤ b1.toNat ∧ b1.toNat ≤ 0x9F) ∨
       (0xEE ≤ b0.toNat ∧ b0.toNat ≤ 0xEF ∧ Tail b1)) →
      Tail b2 → Utf8Char [b0, b1, b2]
  | u4 (b0 b1 b2 b3 : UInt8) :
      ((b0.toNat = 0xF0 ∧ 0x90 ≤ b1.toNat ∧ b1.toNat ≤ 0xBF) ∨
       (0xF1 ≤ b0.toNat ∧ b0.toNat ≤ 0xF3 ∧ Tail b1) ∨
       (b0.toNat = 0xF4 ∧ 0x80 ≤ b1.toNat ∧ b1.toNat ≤ 0x8F)) →
      Tail b2 → Tail b3 → Utf8Char [b0, b1, b2, b3]

/-- UTF8-octets = *( UTF8-char ) -/
inductive Utf8 : Bytes → Prop
  | nil : Utf8 []
  | cons (c rest : Bytes) : Utf8Char c → Utf8 rest → Utf8 (c ++ rest)

/-- RFC 3629 §3: the encoding of a Unicode scalar value (arithmetic form of the bit table) -/
def encodeUtf8 (x : Nat) : Bytes :=
  if x ≤ 0x7F then [UInt8.ofNat x]
  else if x ≤ 0x7FF then [UInt8.ofNat (0xC0 + x / 64), UInt8.ofNat (0x80 + x % 64)]
  else if x ≤ 0xFFFF then [UInt8.ofNat (0xE0 + x / 4096), UInt8.ofNat (0x80 + x / 64 % 64), UInt8.ofNat (0x80 + x % 64)]
  else [UInt8.ofNat (0xF0 + x / 262144), UInt8.ofNat (0x80 + x / 4096 % 64), UInt8.ofNat (0x80 + x / 64 % 64), UInt8.ofNat (0x80 + x % 64)]

/-! ## Predicates on value trees -/

mutual
/-- `P` holds at every node of the tree -/
def Forall {N} (P : Value N → Prop) : Value N → Prop
  | .arr items => P (.arr items) ∧ ForallL P items
  | .obj ms => P (.obj ms) ∧ ForallM P ms
  | v => P v
def ForallL {N} (P : Value N → Prop) : List (Value N) → Prop
  | [] => True
  | v :: rest => Forall P v ∧ ForallL P rest
def ForallM {N} (P : Value N → Prop) : List (Bytes × Value N) → Prop
  | [] => True
  | (_, v) :: rest => Forall P v ∧ ForallM P rest
end

def keys {N} (ms : List (Bytes × Value N)) : List Bytes := ms.map Prod.fst

/-- node condition: a string member / every key of an object is valid UTF-8 -/
def StrNode {N} : Value N → Prop
  | .str s => Utf8 s
  | .obj ms => ∀ k ∈ keys ms, Utf8 k
  | _ => True

/-- node condition: the keys of an object are pairwise different -/
def KeyNode {N} : Value N → Prop
  | .obj ms => (keys ms).Nodup
  | _ => True

/-- node condition: the keys of an object are strictly increasing (what `std::map` maintains) -/
def SortedNode {N} : Value N → Prop
  | .obj ms => (keys ms).Pairwise (fun a b => keyLt a b = true)
  | _ => True

def DefinedNode {N} : Value N → Prop
  | .undef => False
  | _ => True

def FinNode {N} (fin : N → Prop) : Value N → Prop
  | .num x => fin x
  | _ => True

def AllStringsUtf8 {N} (v : Value N) : Prop := Forall StrNode v
def KeysUnique {N} (v : Value N) : Prop := Forall KeyNode v
def KeysSorted {N} (v : Value N) : Prop := Forall SortedNode v
def NoUndefined {N} (v : Value N) : Prop := Forall DefinedNode v
def NumsFinite {N} (fin : N → Prop) (v : Value N) : Prop := Forall (FinNode fin) v

mutual
/-- nesting depth: scalars 0, a container one more than its deepest member -/
def depth {N} : Value N → Nat
  | .arr items => depthL items + 1
  | .obj ms => depthM ms + 1
  | _ => 0
def depthL {N} : List (Value N) → Nat
  | [] => 0
  | v :: rest => max (depth v) (depthL rest)
def depthM {N} : List (Bytes × Value N) → Nat
  | [] => 0
  | (_, v) :: rest => max (depth v) (depthM rest)
end

mutual
/-- apply `f` to every number of the tree -/
def mapNum {N} (f : N → N) : Value N → Value N
  | .num x => .num (f x)
  | .arr items => .arr (mapNumL f items)
  | .obj ms => .obj (mapNumM f ms)
  | v => v
def mapNumL {N} (f : N → N) : List (Value N) → List (Value N)
  | [] => []
  | v :: rest => mapNum f v :: mapNumL f rest
def mapNumM {N} (f : N → N) : List (Bytes × Value N) → List (Bytes × Value N)
  | [] => []
  | (k, v) :: rest => (k, mapNum f v) :: mapNumM f rest
end

/-- the object with these members (a finite map built by successive insertion) -/
def fromMembers {N} (ms : List (Bytes × Value N)) : List (Bytes × Value N) :=
  ms.foldl (fun acc kv => insertKV kv.1 kv.2 acc) []

/-- bytewise lexicographic order, textbook form: `a` is a proper prefix of `b`, or at the first
position where they differ `a` has the smaller byte (as an unsigned value; NUL is a byte like
any other). -/
def BytesLt (a b : Bytes) : Prop :=
  ∃ p : Bytes, (∃ c r, a = p ∧ b = p ++ c :: r) ∨
    (∃ x y ra rb, a = p ++ x :: ra ∧ b = p ++ y :: rb ∧ x.toNat < y.toNat)

/-! ## RFC 8259 grammar -/

/-- ws = *( %x20 / %x09 / %x0A / %x0D ) -/
def IsWs (b : UInt8) : Prop := b = 0x20 ∨ b = 0x09 ∨ b = 0x0A ∨ b = 0x0D
def Ws (t : Bytes) : Prop := ∀ b ∈ t, IsWs b

def IsDigit (b : UInt8) : Prop := 48 ≤ b.toNat ∧ b.toNat ≤ 57
/-- 1*DIGIT -/
def Digits (t : Bytes) : Prop := t ≠ [] ∧ ∀ b ∈ t, IsDigit b
def natOf (t : Bytes) : Nat := t.foldl (fun a b => a * 10 + (b.toNat - 48)) 0

/-- int = zero / ( digit1-9 *DIGIT ) -/
def IntPart (t : Bytes) : Prop := t = [48] ∨ (Digits t ∧ t.head? ≠ some 48)

/-- [ minus ] -/
def minusText (neg : Bool) : Bytes := if neg then [45] else []
/-- [ frac ]:  `fp = []` means "no frac", otherwise decimal-point 1*DIGIT -/
def fracText (fp : Bytes) : Bytes := if fp = [] then [] else 46 :: fp
/-- [ exp ]: `none` means "no exp", otherwise `(e or E, optional sign with true = minus, digits)` -/
def expText (ex : Option (UInt8 × Option Bool × Bytes)) : Bytes :=
  match ex with
  | none => []
  | some (e, sg, ep) => e :: ((match sg with | none => [] | some true => [45] | some false => [43]) ++ ep)
/-- the power of ten the exp part denotes -/
def expVal (ex : Option (UInt8 × Option Bool × Bytes)) : Int :=
  match ex with
  | none => 0
  | some (_, some true, ep) => - (natOf ep : Int)
  | some (_, _, ep) => (natOf ep : Int)

/-- number = [ minus ] int [ frac ] [ exp ]  (§6), with the exact decimal it denotes:
`(-1)^neg · natOf(int frac-digits) · 10^(exp − number of frac digits)`. -/
inductive Number : Bytes → Dec → Prop
  | mk (neg : Bool) (ip fp : Bytes) (ex : Option (UInt8 × Option Bool × Bytes)) :
      IntPart ip → (fp = [] ∨ Digits fp) →
      (∀ e sg ep, ex = some (e, sg, ep) → (e = 101 ∨ e = 69) ∧ Digits ep) →
      Number (minusText neg ++ ip ++ fracText fp ++ expText ex)
        ⟨neg, natOf (ip ++ fp), expVal ex - (fp.length : Int)⟩

def IsHex (b : UInt8) : Prop :=
  (48 ≤ b.toNat ∧ b.toNat ≤ 57) ∨ (65 ≤ b.toNat ∧ b.toNat ≤ 70) ∨ (97 ≤ b.toNat ∧ b.toNat ≤ 102)

def hexDigitVal (b : UInt8) : Nat :=
  if b.toNat ≤ 57 then b.toNat - 48 else if b.toNat ≤ 70 then b.toNat - 55 else b.toNat - 87

def hex4Val (h1 h2 h3 h4 : UInt8) : Nat :=
  hexDigitVal h1 * 4096 + hexDigitVal h2 * 256 + hexDigitVal h3 * 16 + hexDigitVal h4

/-- `\"  \\  \/  \b  \f  \n  \r  \t` -/
def SimpleEsc (e b : UInt8) : Prop :=
  (e = 0x22 ∧ b = 0x22) ∨ (e = 0x5C ∧ b = 0x5C) ∨ (e = 0x2F ∧ b = 0x2F) ∨ (e = 0x62 ∧ b = 0x08) ∨
  (e = 0x66 ∧ b = 0x0C) ∨ (e = 0x6E ∧ b = 0x0A) ∨ (e = 0x72 ∧ b = 0x0D) ∨ (e = 0x74 ∧ b = 0x09)

/-- *char of §7: text of the characters and the UTF-8 string they denote.
unescaped = %x20-21 / %x23-5B / %x5D-10FFFF (as UTF-8 encoded characters); a `\uXXXX` that
is not a surrogate denotes that code point; a high surrogate escape immediately followed by
a low surrogate escape denotes the supplementary character (§7, "properly paired"). -/
inductive Chars : Bytes → Bytes → Prop
  | nil : Chars [] []
  | plain (c t s : Bytes) : Utf8Char c → c ≠ [0x22] → c ≠ [0x5C] → (∀ b, c = [b] → 0x20 ≤ b.toNat) →
      Chars t s → Chars (c ++ t) (c ++ s)
  | esc (e b : UInt8) (t s : Bytes) : SimpleEsc e b → Chars t s → Chars (0x5C :: e :: t) (b :: s)
  | u (h1 h2 h3 h4 : UInt8) (t s : Bytes) : IsHex h1 → IsHex h2 → IsHex h3 → IsHex h4 →
      ¬ (0xD800 ≤ hex4Val h1 h2 h3 h4 ∧ hex4Val h1 h2 h3 h4 ≤ 0xDFFF) →
      Chars t s → Chars (0x5C :: 0x75 :: h1 :: h2 :: h3 :: h4 :: t) (encodeUtf8 (hex4Val h1 h2 h3 h4) ++ s)
  | pair (h1 h2 h3 h4 l1 l2 l3 l4 : UInt8) (t s : Bytes) :
      IsHex h1 → IsHex h2 → IsHex h3 → IsHex h4 → IsHex l1 → IsHex l2 → IsHex l3 → IsHex l4 →
      0xD800 ≤ hex4Val h1 h2 h3 h4 → hex4Val h1 h2 h3 h4 ≤ 0xDBFF →
      0xDC00 ≤ hex4Val l1 l2 l3 l4 → hex4Val l1 l2 l3 l4 ≤ 0xDFFF →
      Chars t s →
      Chars (0x5C :: 0x75 :: h1 :: h2 :: h3 :: h4 :: 0x5C :: 0x75 :: l1 :: l2 :: l3 :: l4 :: t)
        (encodeUtf8 (0x10000 + (hex4Val h1 h2 h3 h4 - 0xD800) * 0x400 + (hex4Val l1 l2 l3 l4 - 0xDC00)) ++ s)

/-- string = quotation-mark *char quotation-mark -/
def StringLex (t s : Bytes) : Prop := ∃ body, t = 0x22 :: (body ++ [0x22]) ∧ Chars body s

mutual
/-- value (§3) with the tree it denotes; insignificant whitespace is allowed around the six
structural characters (§2). -/
inductive Val {N} (ops : NumOps N) : Bytes → Value N → Prop
  | null : Val ops [110, 117, 108, 108] .null
  | tru : Val ops [116, 114, 117, 101] (.bool true)
  | fls : Val ops [102, 97, 108, 115, 101] (.bool false)
  | num (t : Bytes) (d : Dec) (x : N) : Number t d → ops.ofDec d = some x → Val ops t (.num x)
  | str (t s : Bytes) : StringLex t s → Val ops t (.str s)
  | arr0 (w : Bytes) : Ws w → Val ops (91 :: (w ++ [93])) (.arr [])
  | arr (w1 t w2 : Bytes) (vs : List (Value N)) : Ws w1 → Ws w2 → Elems ops t vs →
      Val ops (91 :: (w1 ++ t ++ w2 ++ [93])) (.arr vs)
  | obj0 (w : Bytes) : Ws w → Val ops (123 :: (w ++ [125])) (.obj [])
  | obj (w1 t w2 : Bytes) (ms : List (Bytes × Value N)) : Ws w1 → Ws w2 → Members ops t ms →
      (keys ms).Nodup → Val ops (123 :: (w1 ++ t ++ w2 ++ [125])) (.obj (fromMembers ms))
/-- value *( value-separator value ) -/
inductive Elems {N} (ops : NumOps N) : Bytes → List (Value N) → Prop
  | one (t : Bytes) (v : Value N) : Val ops t v → Elems ops t [v]
  | cons (t w1 w2 t' : Bytes) (v : Value N) (vs : List (Value N)) : Val ops t v → Ws w1 → Ws w2 →
      Elems ops t' vs → Elems ops (t ++ w1 ++ 44 :: (w2 ++ t')) (v :: vs)
/-- member *( value-separator member ),  member = string name-separator value -/
inductive Members {N} (ops : NumOps N) : Bytes → List (Bytes × Value N) → Prop
  | one (kt k w1 w2 t : Bytes) (v : Value N) : StringLex kt k → Ws w1 → Ws w2 → Val ops t v →
      Members ops (kt ++ w1 ++ 58 :: (w2 ++ t)) [(k, v)]
  | cons (kt k w1 w2 t w3 w4 t' : Bytes) (v : Value N) (ms : List (Bytes × Value N)) :
      StringLex kt k → Ws w1 → Ws w2 → Val ops t v → Ws w3 → Ws w4 → Members ops t' ms →
      Members ops (kt ++ w1 ++ 58 :: (w2 ++ t) ++ w3 ++ 44 :: (w4 ++ t')) ((k, v) :: ms)
end

/-- JSON-text = ws value ws -/
def Doc {N} (ops : NumOps N) (text : Bytes) (v : Value N) : Prop :=
  ∃ w1 t w2, Ws w1 ∧ Ws w2 ∧ Val ops t v ∧ text = w1 ++ t ++ w2

/-! ## IEEE 754 binary64 bit patterns (for typed extraction) -/

/-- the finite double `bits` has exactly the integer value `n`:
`(-1)^s · mant · 2^e = n`, stated without negative powers -/
def DblIsInt (bits : Nat) (n : Int) : Prop :=
  dblExpField bits ≠ 2047 ∧
  ∃ a : Nat, n = (if dblNeg bits then -(a : Int) else (a : Int)) ∧
    (if dblExp2 bits ≥ 0 then a = dblMant bits * 2 ^ (dblExp2 bits).toNat
     else a * 2 ^ (- dblExp2 bits).toNat = dblMant bits)

/-! ## Hypotheses about the external numeric conversions (libc/libstdc++), never axioms -/

/-- On the set `fin` of numbers, printing produces an RFC 8259 number whose exact decimal
converts to `rt x` ("what survives one trip through text"; `rt x = x` up to the printed
precision is IEEE arithmetic and not part of this law). -/
def NumLaw {N} (ops : NumOps N) (fin : N → Prop) (rt : N → N) : Prop :=
  ∀ x, fin x → ∃ d, Number (ops.print x) d ∧ ops.ofDec d = some (rt x)

/-- a second trip changes nothing -/
def NumIdem {N} (fin : N → Prop) (rt : N → N) : Prop := ∀ x, fin x → fin (rt x) ∧ rt (rt x) = rt x

end Cppcms.C11.Spec
