import Cppcms.C11.Order
/-! Helper lemmas for C11, part 3: `insertKV`, `utf8Valid` = RFC 3629 (`Spec.Utf8`). -/
namespace Cppcms.C11
open Cppcms Spec

/-! ### `insertKV` -/

theorem hasKey_iff {N} (k : Bytes) (ms : List (Bytes × Value N)) : hasKey k ms = true ↔ k ∈ keys ms := by
  induction ms with
  | nil => simp [hasKey, keys]
  | cons a ms ih => obtain ⟨k', v'⟩ := a; simp [hasKey, keys] at ih ⊢; rw [ih]

theorem mem_insertKV {N} (k : Bytes) (v : Value N) (ms : List (Bytes × Value N)) (kv : Bytes × Value N) :
    kv ∈ insertKV k v ms → kv = (k, v) ∨ kv ∈ ms := by
  induction ms with
  | nil => simp [insertKV]
  | cons a ms ih =>
    obtain ⟨k', v'⟩ := a
    simp only [insertKV]
    split
    · intro h; simp at h; rcases h with h | h
      · exact Or.inl h
      · exact Or.inr (by simp [h])
    · split
      · intro h; simp at h; rcases h with h | h | h
        · exact Or.inl h
        · exact Or.inr (by simp [h])
        · exact Or.inr (by simp [h])
      · intro h; simp at h; rcases h with h | h
        · exact Or.inr (by simp [h])
        · rcases ih h with h' | h'
          · exact Or.inl h'
          · exact Or.inr (by simp [h'])

theorem keys_insertKV {N} (k : Bytes) (v : Value N) (ms : List (Bytes × Value N)) (k' : Bytes) :
    k' ∈ keys (insertKV k v ms) → k' = k ∨ k' ∈ keys ms := by
  intro h
  simp only [keys, List.mem_map] at h
  obtain ⟨kv, hm, rfl⟩ := h
  rcases mem_insertKV k v ms kv hm with h | h
  · left; rw [h]
  · right; exact List.mem_map.mpr ⟨kv, h, rfl⟩

theorem nodup_insertKV {N} (k : Bytes) (v : Value N) (ms : List (Bytes × Value N))
    (hk : k ∉ keys ms) (hn : (keys ms).Nodup) : (keys (insertKV k v ms)).Nodup := by
  induction ms with
  | nil => simp [insertKV, keys]
  | cons a ms ih =>
    obtain ⟨k', v'⟩ := a
    simp only [keys, List.map_cons, List.mem_cons, not_or, List.nodup_cons] at hk hn
    simp only [insertKV]
    have hne : (k == k') = false := by simpa using hk.1
    simp only [hne, Bool.false_eq_true, if_false]
    split
    · simp only [keys, List.map_cons, List.nodup_cons, List.mem_cons, not_or]
      exact ⟨⟨hk.1, hk.2⟩, hn.1, hn.2⟩
    · simp only [keys, List.map_cons, List.nodup_cons]
      refine ⟨?_, ih hk.2 hn.2⟩
      intro hmem
      rcases keys_insertKV k v ms k' hmem with h | h
      · exact hk.1 h.symm
      · exact hn.1 h

theorem sorted_insertKV {N} (k : Bytes) (v : Value N) (ms : List (Bytes × Value N))
    (hs : (keys ms).Pairwise (fun a b => keyLt a b = true)) :
    (keys (insertKV k v ms)).Pairwise (fun a b => keyLt a b = true) := by
  induction ms with
  | nil => simp [insertKV, keys]
  | cons a ms ih =>
    obtain ⟨k', v'⟩ := a
    simp only [keys, List.map_cons, List.pairwise_cons] at hs
    simp only [insertKV]
    split
    · rename_i he
      have : k = k' := by simpa using he
      subst this
      simp only [keys, List.map_cons, List.pairwise_cons]; exact hs
    · rename_i hne
      split
      · rename_i hlt
        simp only [keys, List.map_cons, List.pairwise_cons, List.mem_cons]
        refine ⟨?_, hs.1, hs.2⟩
        intro b hb
        rcases hb with rfl | hb
        · exact hlt
        · exact keyLt_trans _ _ _ hlt (hs.1 b hb)
      · rename_i hnlt
        simp only [keys, List.map_cons, List.pairwise_cons]
        refine ⟨?_, ih hs.2⟩
        intro b hb
        rcases keys_insertKV k v ms b hb with rfl | hb'
        · have hne' : b ≠ k' := by intro e; subst e; simp at hne
          rcases keyLt_total b k' hne' with h | h
          · exact absurd h hnlt
          · exact h
        · exact hs.1 b hb'

theorem isTail_iff (b : UInt8) : isTail b = true ↔ Tail b := by
  simp [isTail, Tail]

theorem utf8Valid_sound (s : Bytes) : utf8Valid s = true → Utf8 s := by
  fun_induction utf8Valid s
  all_goals intro h
  all_goals first
    | exact Utf8.nil
    | (simp at h; done)
    | skip
  · next b0 rest hn ih =>
    exact Utf8.cons [b0] rest (Utf8Char.u1 b0 (by omega)) (ih h)
  · next b0 hn h2 b1 r ih =>
    simp only [Bool.and_eq_true, isTail_iff] at h
    simp only [Bool.and_eq_true, decide_eq_true_eq] at h2
    exact Utf8.cons [b0, b1] r (Utf8Char.u2 b0 b1 h2.1 h2.2 h.1) (ih h.2)
  · next b0 hn h2 h3 b1 b2 r ih =>
    simp only [Bool.and_eq_true, isTail_iff, decide_eq_true_eq] at h h3
    refine Utf8.cons [b0, b1, b2] r (Utf8Char.u3 b0 b1 b2 ?_ h.1.2 ) (ih h.2)
    have h1 := h.1.1
    by_cases e0 : b0.toNat = 0xE0
    · simp [e0] at h1; left; exact ⟨e0, h1⟩
    · by_cases ed : b0.toNat = 0xED
      · simp [ed] at h1; right; right; left; exact ⟨ed, h1⟩
      · simp [e0, ed] at h1
        by_cases hl : b0.toNat ≤ 0xEC
        · right; left; exact ⟨by omega, hl, (isTail_iff b1).mp h1⟩
        · right; right; right; exact ⟨by omega, h3.2, (isTail_iff b1).mp h1⟩
  · next b0 hn h2 h3 h4 b1 b2 b3 r ih =>
    simp only [Bool.and_eq_true, isTail_iff, decide_eq_true_eq] at h h4
    refine Utf8.cons [b0, b1, b2, b3] r (Utf8Char.u4 b0 b1 b2 b3 ?_ h.1.1.2 h.1.2) (ih h.2)
    have h1 := h.1.1.1
    by_cases e0 : b0.toNat = 0xF0
    · simp [e0] at h1; left; exact ⟨e0, h1⟩
    · by_cases ed : b0.toNat = 0xF4
      · simp [ed] at h1; right; right; exact ⟨ed, h1⟩
      · simp [e0, ed] at h1
        right; left; exact ⟨by omega, by omega, (isTail_iff b1).mp h1⟩

theorem utf8Valid_complete (s : Bytes) (h : Utf8 s) : utf8Valid s = true := by
  induction h with
  | nil => simp [utf8Valid]
  | cons c rest hc _ ih =>
    cases hc with
    | u1 b hb =>
      have : b.toNat < 128 := by omega
      rw [utf8Valid.eq_def]; simp [this, ih]
    | u2 b0 b1 h1 h2 ht =>
      have hn : ¬ b0.toNat < 128 := by omega
      rw [utf8Valid.eq_def]; simp [hn, h1, h2, (isTail_iff b1).mpr ht, ih]
    | u3 b0 b1 b2 hr t2 =>
      have ht2 := (isTail_iff b2).mpr t2
      rcases hr with ⟨e, l, u⟩ | ⟨l0, u0, t1⟩ | ⟨e, l, u⟩ | ⟨l0, u0, t1⟩
      · rw [utf8Valid.eq_def]; simp [e, l, u, ht2, ih]
      · have hn : ¬ b0.toNat < 128 := by omega
        have h2 : ¬ (194 ≤ b0.toNat ∧ b0.toNat ≤ 223) := by omega
        have h3 : 224 ≤ b0.toNat ∧ b0.toNat ≤ 239 := by omega
        have e1 : ¬ b0.toNat = 224 := by omega
        have e2 : ¬ b0.toNat = 237 := by omega
        rw [utf8Valid.eq_def]; simp [hn, h2, h3, e1, e2, (isTail_iff b1).mpr t1, ht2, ih]
      · rw [utf8Valid.eq_def]; simp [e, l, u, ht2, ih]
      · have hn : ¬ b0.toNat < 128 := by omega
        have h2 : ¬ (194 ≤ b0.toNat ∧ b0.toNat ≤ 223) := by omega
        have h3 : 224 ≤ b0.toNat ∧ b0.toNat ≤ 239 := by omega
        have e1 : ¬ b0.toNat = 224 := by omega
        have e2 : ¬ b0.toNat = 237 := by omega
        rw [utf8Valid.eq_def]; simp [hn, h2, h3, e1, e2, (isTail_iff b1).mpr t1, ht2, ih]
    | u4 b0 b1 b2 b3 hr t2 t3 =>
      have ht2 := (isTail_iff b2).mpr t2
      have ht3 := (isTail_iff b3).mpr t3
      rcases hr with ⟨e, l, u⟩ | ⟨l0, u0, t1⟩ | ⟨e, l, u⟩
      · rw [utf8Valid.eq_def]; simp [e, l, u, ht2, ht3, ih]
      · have hn : ¬ b0.toNat < 128 := by omega
        have h2 : ¬ (194 ≤ b0.toNat ∧ b0.toNat ≤ 223) := by omega
        have h3 : ¬ (224 ≤ b0.toNat ∧ b0.toNat ≤ 239) := by omega
        have h4 : 240 ≤ b0.toNat ∧ b0.toNat ≤ 244 := by omega
        have e1 : ¬ b0.toNat = 240 := by omega
        have e2 : ¬ b0.toNat = 244 := by omega
        rw [utf8Valid.eq_def]; simp [hn, h2, h3, h4, e1, e2, (isTail_iff b1).mpr t1, ht2, ht3, ih]
      · rw [utf8Valid.eq_def]; simp [e, l, u, ht2, ht3, ih]

end Cppcms.C11
