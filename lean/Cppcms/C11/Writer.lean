import Cppcms.C11.Accept
/-! Helper lemmas for C11, part 8: the writer's output is a document of the RFC 8259 grammar. -/
namespace Cppcms.C11
open Cppcms Spec

/-! ### the writer's escaping is an RFC 8259 string denoting the same bytes -/

instance (e b : UInt8) : Decidable (SimpleEsc e b) := by unfold SimpleEsc; infer_instance
instance (b : UInt8) : Decidable (IsHex b) := by unfold IsHex; infer_instance

def nib0 (b : UInt8) : UInt8 := UInt8.ofNat (Gen.writerNib0 b.toNat)
def nib1 (b : UInt8) : UInt8 := UInt8.ofNat (Gen.writerNib1 b.toNat)
def esc2 (b : UInt8) : UInt8 := (escByte b).getD 1 0

/-- `generic_append` read back, for ASCII bytes: copied, two-character escape, or `\u00XX` -/
theorem escByte_ascii : ∀ b : UInt8, b.toNat ≤ 0x7F →
    (escByte b = [b] ∧ 0x20 ≤ b.toNat ∧ b ≠ 0x22 ∧ b ≠ 0x5C) ∨
    (escByte b = [0x5C, esc2 b] ∧ SimpleEsc (esc2 b) b) ∨
    (escByte b = [0x5C, 0x75, 0x30, 0x30, nib0 b, nib1 b] ∧ IsHex (nib0 b) ∧ IsHex (nib1 b) ∧
      hex4Val 0x30 0x30 (nib0 b) (nib1 b) = b.toNat ∧ b.toNat < 0x20) := by
  apply forall_uint8
  decide +kernel

theorem escByte_high : ∀ b : UInt8, 0x80 ≤ b.toNat → escByte b = [b] := by
  apply forall_uint8
  decide +kernel

theorem isHex_0 : IsHex 0x30 := by decide

theorem chars_escape {s : Bytes} (h : Utf8 s) : Chars (s.flatMap escByte) s := by
  induction h with
  | nil => exact Chars.nil
  | cons c rest hc _ ih =>
    rw [List.flatMap_append]
    cases hc with
    | u1 b hb =>
      simp only [List.flatMap_cons, List.flatMap_nil, List.append_nil]
      rcases escByte_ascii b hb with ⟨e, h1, h2, h3⟩ | ⟨e, he⟩ | ⟨e, x1, x2, hv, hlt⟩
      · rw [e]
        exact Chars.plain [b] _ _ (Utf8Char.u1 b hb) (by simpa using h2) (by simpa using h3)
          (by intro b' hb'; simp at hb'; subst hb'; exact h1) ih
      · rw [e]; exact Chars.esc (esc2 b) b _ _ he ih
      · rw [e]
        have := Chars.u 0x30 0x30 (nib0 b) (nib1 b) _ _ isHex_0 isHex_0 x1 x2 (by omega) ih
        rw [hv] at this
        have e1 : encodeUtf8 b.toNat = [b] := by
          have : b.toNat ≤ 0x7F := hb
          simp [encodeUtf8, this]
        rw [e1] at this
        exact this
    | u2 b0 b1 l u t1 =>
      unfold Tail at t1
      simp only [List.flatMap_cons, List.flatMap_nil, List.append_nil]
      rw [escByte_high b0 (by omega), escByte_high b1 (by omega)]
      exact Chars.plain [b0, b1] _ _ (Utf8Char.u2 b0 b1 l u t1) (by simp) (by simp) (by intro b h; simp at h) ih
    | u3 b0 b1 b2 hr t2 =>
      have r0 : 0xE0 ≤ b0.toNat := by rcases hr with h | h | h | h <;> omega
      have r1 : 0x80 ≤ b1.toNat := by unfold Tail at hr; rcases hr with h | h | h | h <;> omega
      have r2 : 0x80 ≤ b2.toNat := t2.1
      simp only [List.flatMap_cons, List.flatMap_nil, List.append_nil]
      rw [escByte_high b0 (by omega), escByte_high b1 r1, escByte_high b2 r2]
      exact Chars.plain [b0, b1, b2] _ _ (Utf8Char.u3 b0 b1 b2 hr t2) (by simp) (by simp) (by intro b h; simp at h) ih
    | u4 b0 b1 b2 b3 hr t2 t3 =>
      have r0 : 0xF0 ≤ b0.toNat := by rcases hr with h | h | h <;> omega
      have r1 : 0x80 ≤ b1.toNat := by unfold Tail at hr; rcases hr with h | h | h <;> omega
      simp only [List.flatMap_cons, List.flatMap_nil, List.append_nil]
      rw [escByte_high b0 (by omega), escByte_high b1 r1, escByte_high b2 t2.1, escByte_high b3 t3.1]
      exact Chars.plain [b0, b1, b2, b3] _ _ (Utf8Char.u4 b0 b1 b2 b3 hr t2 t3) (by simp) (by simp) (by intro b h; simp at h) ih

/-- `to_json(s)` is a string lexeme denoting `s`, for valid UTF-8 `s` -/
theorem escapeString_lex {s : Bytes} (h : Utf8 s) : StringLex (escapeString s) s :=
  ⟨s.flatMap escByte, rfl, chars_escape h⟩

/-! ### `indent` writes structural characters surrounded by whitespace -/

theorem ws_pad (n : Nat) : Ws (pad n) := by
  intro b hb
  simp only [pad, List.mem_replicate] at hb
  rw [hb.2]; right; left; rfl

theorem ws_nil : Ws [] := by intro b hb; cases hb

theorem ws_append {a b : Bytes} (ha : Ws a) (hb : Ws b) : Ws (a ++ b) := by
  intro c hc; rcases List.mem_append.mp hc with h | h; exact ha c h; exact hb c h

theorem ws_cons10 {a : Bytes} (ha : Ws a) : Ws (10 :: a) := by
  intro c hc; simp only [List.mem_cons] at hc; rcases hc with rfl | h
  · right; right; left; rfl
  · exact ha c h

theorem indent_open (c : UInt8) (hc : c = 91 ∨ c = 123) (tabs : Option Nat) :
    ∃ w, (indent c tabs).1 = c :: w ∧ Ws w := by
  cases tabs with
  | none => exact ⟨[], rfl, ws_nil⟩
  | some n => rcases hc with rfl | rfl <;> exact ⟨10 :: pad (n + 1), by simp [indent], ws_cons10 (ws_pad _)⟩

theorem indent_close (c : UInt8) (hc : c = 93 ∨ c = 125) (tabs : Option Nat) :
    ∃ w2 w3, (indent c tabs).1 = w2 ++ c :: w3 ∧ Ws w2 ∧ Ws w3 := by
  cases tabs with
  | none => exact ⟨[], [], rfl, ws_nil, ws_nil⟩
  | some n =>
    rcases hc with rfl | rfl <;>
      exact ⟨10 :: pad (n - 1), 10 :: pad (n - 1), by simp [indent], ws_cons10 (ws_pad _), ws_cons10 (ws_pad _)⟩

theorem indent_comma (tabs : Option Nat) : ∃ w, (indent 44 tabs).1 = 44 :: w ∧ Ws w := by
  cases tabs with
  | none => exact ⟨[], rfl, ws_nil⟩
  | some n => exact ⟨10 :: pad n, by simp [indent], ws_cons10 (ws_pad _)⟩

theorem indent_colon (tabs : Option Nat) : ∃ w1 w2, (indent 58 tabs).1 = w1 ++ 58 :: w2 ∧ Ws w1 ∧ Ws w2 := by
  cases tabs with
  | none => exact ⟨[], [], rfl, ws_nil, ws_nil⟩
  | some n =>
    refine ⟨[32], [9], by simp [indent, ofNats, Gen.colonReadable], ?_, ?_⟩
    · intro b hb; simp at hb; subst hb; left; rfl
    · intro b hb; simp at hb; subst hb; right; left; rfl

/-! ### `std::map` order: re-inserting the members of a sorted object gives it back -/

theorem insertKV_last {N} (k : Bytes) (v : Value N) (acc : List (Bytes × Value N))
    (h : ∀ k' ∈ keys acc, keyLt k' k = true) : insertKV k v acc = acc ++ [(k, v)] := by
  induction acc with
  | nil => rfl
  | cons a acc ih =>
    obtain ⟨k', v'⟩ := a
    have hlt : keyLt k' k = true := h k' (by simp [keys])
    have hne : (k == k') = false := by
      cases hh : k == k' with
      | false => rfl
      | true => have : k = k' := by simpa using hh
                subst this; rw [keyLt_irrefl] at hlt; cases hlt
    have hnlt : keyLt k k' = false := keyLt_asymm _ _ hlt
    simp only [insertKV, hne, hnlt, Bool.false_eq_true, if_false, List.cons_append]
    rw [ih (fun k2 hk2 => h k2 (by simp only [keys, List.map_cons, List.mem_cons]; right; exact hk2))]

theorem foldl_insert_sorted {N} (ms : List (Bytes × Value N)) : ∀ (acc : List (Bytes × Value N)),
    (keys (acc ++ ms)).Pairwise (fun a b => keyLt a b = true) →
    ms.foldl (fun a kv => insertKV kv.1 kv.2 a) acc = acc ++ ms := by
  induction ms with
  | nil => intro acc _; simp
  | cons a ms ih =>
    intro acc hs
    obtain ⟨k, v⟩ := a
    simp only [List.foldl_cons]
    have h1 : ∀ k' ∈ keys acc, keyLt k' k = true := by
      intro k' hk'
      simp only [keys, List.map_append, List.map_cons, List.pairwise_append, List.mem_cons] at hs
      exact hs.2.2 k' hk' k (Or.inl rfl)
    rw [insertKV_last k v acc h1, ih (acc ++ [(k, v)]) (by simpa [List.append_assoc] using hs)]
    simp

theorem fromMembers_sorted {N} (ms : List (Bytes × Value N)) (h : (keys ms).Pairwise (fun a b => keyLt a b = true)) :
    fromMembers ms = ms := by
  unfold fromMembers
  simpa using foldl_insert_sorted ms [] (by simpa using h)

theorem nodup_of_sorted (ks : List Bytes) (h : ks.Pairwise (fun a b => keyLt a b = true)) : ks.Nodup := by
  refine List.Pairwise.imp ?_ h
  intro a b hab e
  subst e; rw [keyLt_irrefl] at hab; cases hab

/-! ### `write_value` produces a value of the grammar -/

/-- node conditions under which the writer's output parses back -/
def WNode {N} (fin : N → Prop) (v : Value N) : Prop := DefinedNode v ∧ StrNode v ∧ FinNode fin v ∧ SortedNode v

theorem keys_mapNumM {N} (rt : N → N) (ms : List (Bytes × Value N)) : keys (mapNumM rt ms) = keys ms := by
  induction ms with
  | nil => rfl
  | cons a ms ih => obtain ⟨k, v⟩ := a; simp only [mapNumM, keys, List.map_cons] at ih ⊢; rw [ih]

section
variable {N : Type} (ops : NumOps N) (fin : N → Prop) (rt : N → N) (hlaw : NumLaw ops fin rt)
include hlaw

mutual
theorem wv : ∀ (v : Value N), Forall (WNode fin) v → ∀ tabs : Option Nat,
    ∃ t w, writeValue ops tabs v = some (t ++ w) ∧ Val ops t (mapNum rt v) ∧ Ws w
  | .undef, h, _ => by simp only [Forall, WNode, DefinedNode] at h; exact absurd h.1 id
  | .null, _, _ => ⟨[110, 117, 108, 108], [], by simp [writeValue, ofNats, Gen.kwNull], by simpa [mapNum] using Val.null, ws_nil⟩
  | .bool true, _, _ => ⟨[116, 114, 117, 101], [], by simp [writeValue, ofNats, Gen.kwTrue], by simpa [mapNum] using Val.tru, ws_nil⟩
  | .bool false, _, _ => ⟨[102, 97, 108, 115, 101], [], by simp [writeValue, ofNats, Gen.kwFalse], by simpa [mapNum] using Val.fls, ws_nil⟩
  | .num x, h, _ => by
    simp only [Forall, WNode, FinNode] at h
    obtain ⟨d, hn, hd⟩ := hlaw x h.2.2.1
    exact ⟨ops.print x, [], by simp [writeValue], by simpa [mapNum] using Val.num _ d _ hn hd, ws_nil⟩
  | .str s, h, _ => by
    simp only [Forall, WNode, StrNode] at h
    exact ⟨escapeString s, [], by simp [writeValue], by simpa [mapNum] using Val.str _ s (escapeString_lex h.2.1), ws_nil⟩
  | .arr items, h, tabs => by
    simp only [Forall] at h
    obtain ⟨w1, e1, hw1⟩ := indent_open 91 (Or.inl rfl) tabs
    obtain ⟨w2, w3, e2, hw2, hw3⟩ := indent_close 93 (Or.inl rfl) (indent 91 tabs).2
    cases items with
    | nil =>
      refine ⟨91 :: ((w1 ++ w2) ++ [93]), w3, ?_, by simpa [mapNum, mapNumL] using Val.arr0 (w1 ++ w2) (ws_append hw1 hw2), hw3⟩
      simp [writeValue, writeItems, e1, e2]
    | cons v rest =>
      obtain ⟨tb, wb, eb, hb, hwb⟩ := wl (v :: rest) h.2 (by simp) (indent 91 tabs).2
      refine ⟨91 :: (w1 ++ tb ++ (wb ++ w2) ++ [93]), w3, ?_, ?_, hw3⟩
      · simp [writeValue, eb, e1, e2]
      · simpa [mapNum] using Val.arr w1 tb (wb ++ w2) _ hw1 (ws_append hwb hw2) hb
  | .obj ms, h, tabs => by
    simp only [Forall] at h
    obtain ⟨w1, e1, hw1⟩ := indent_open 123 (Or.inr rfl) tabs
    obtain ⟨w2, w3, e2, hw2, hw3⟩ := indent_close 125 (Or.inr rfl) (indent 123 tabs).2
    have hsorted : (keys ms).Pairwise (fun a b => keyLt a b = true) := h.1.2.2.2
    have hkeys : ∀ k ∈ keys ms, Utf8 k := h.1.2.1
    cases ms with
    | nil =>
      refine ⟨123 :: ((w1 ++ w2) ++ [125]), w3, ?_, by simpa [mapNum, mapNumM] using Val.obj0 (w1 ++ w2) (ws_append hw1 hw2), hw3⟩
      simp [writeValue, writeMembers, e1, e2]
    | cons a rest =>
      obtain ⟨tb, wb, eb, hb, hwb⟩ := wm (a :: rest) h.2 hkeys (by simp) (indent 123 tabs).2
      refine ⟨123 :: (w1 ++ tb ++ (wb ++ w2) ++ [125]), w3, ?_, ?_, hw3⟩
      · simp [writeValue, eb, e1, e2]
      · have hs' : (keys (mapNumM rt (a :: rest))).Pairwise (fun a b => keyLt a b = true) := by
          rw [keys_mapNumM]; exact hsorted
        have := Val.obj w1 tb (wb ++ w2) _ hw1 (ws_append hwb hw2) hb (nodup_of_sorted _ hs')
        rw [fromMembers_sorted _ hs'] at this
        simpa [mapNum] using this
theorem wl : ∀ (items : List (Value N)), ForallL (WNode fin) items → items ≠ [] → ∀ tabs : Option Nat,
    ∃ t w, writeItems ops tabs items = some (t ++ w) ∧ Elems ops t (mapNumL rt items) ∧ Ws w
  | [], _, hne, _ => absurd rfl hne
  | v :: rest, h, _, tabs => by
    simp only [ForallL] at h
    obtain ⟨tv, wv', ev, hv, hwv⟩ := wv v h.1 tabs
    cases rest with
    | nil =>
      exact ⟨tv, wv', by simp [writeItems, ev], by simpa [mapNumL] using Elems.one tv _ hv, hwv⟩
    | cons v2 rest2 =>
      obtain ⟨tr, wr, er, hr, hwr⟩ := wl (v2 :: rest2) h.2 (by simp) tabs
      obtain ⟨w4, e4, hw4⟩ := indent_comma tabs
      refine ⟨tv ++ wv' ++ 44 :: (w4 ++ tr), wr, ?_, ?_, hwr⟩
      · rw [writeItems, ev, er]; simp [e4]
      · simpa [mapNumL] using Elems.cons tv wv' w4 tr _ _ hv hwv hw4 hr
theorem wm : ∀ (ms : List (Bytes × Value N)), ForallM (WNode fin) ms → (∀ k ∈ keys ms, Utf8 k) → ms ≠ [] →
    ∀ tabs : Option Nat, ∃ t w, writeMembers ops tabs ms = some (t ++ w) ∧ Members ops t (mapNumM rt ms) ∧ Ws w
  | [], _, _, hne, _ => absurd rfl hne
  | (k, v) :: rest, h, hk, _, tabs => by
    simp only [ForallM] at h
    obtain ⟨tv, wv', ev, hv, hwv⟩ := wv v h.1 tabs
    obtain ⟨w5, w6, e5, hw5, hw6⟩ := indent_colon tabs
    have hkl : StringLex (escapeString k) k := escapeString_lex (hk k (by simp [keys]))
    cases rest with
    | nil =>
      refine ⟨escapeString k ++ w5 ++ 58 :: (w6 ++ tv), wv', ?_, ?_, hwv⟩
      · simp [writeMembers, ev, e5]
      · simpa [mapNumM] using Members.one _ k w5 w6 tv _ hkl hw5 hw6 hv
    | cons a2 rest2 =>
      obtain ⟨tr, wr, er, hr, hwr⟩ := wm (a2 :: rest2) h.2 (fun k' hk' => hk k' (by simp only [keys, List.map_cons, List.mem_cons] at hk' ⊢; right; exact hk')) (by simp) tabs
      obtain ⟨w4, e4, hw4⟩ := indent_comma tabs
      refine ⟨escapeString k ++ w5 ++ 58 :: (w6 ++ tv) ++ wv' ++ 44 :: (w4 ++ tr), wr, ?_, ?_, hwr⟩
      · rw [writeMembers, ev, er]; simp [e4, e5]
      · simpa [mapNumM] using Members.cons _ k w5 w6 tv wv' w4 tr _ _ hkl hw5 hw6 hv hwv hw4 hr
end
end

end Cppcms.C11
