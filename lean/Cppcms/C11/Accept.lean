import Cppcms.C11.Numbers
/-! Helper lemmas for C11, part 7: the `parse_stream` machine accepts every derivation of the RFC 8259 grammar. -/
namespace Cppcms.C11
open Cppcms Spec
theorem depthM_insertKV {N} (k : Bytes) (v : Value N) (acc : List (Bytes × Value N)) (h : hasKey k acc = false) :
    depthM (insertKV k v acc) = max (depth v) (depthM acc) := by
  induction acc with
  | nil => simp [insertKV, depthM]
  | cons a acc ih =>
    obtain ⟨k', v'⟩ := a
    simp only [hasKey, Bool.or_eq_false_iff] at h
    simp only [insertKV, h.1, Bool.false_eq_true, if_false]
    split
    · simp [depthM]
    · simp only [depthM, ih h.2]; omega

theorem hasKey_insertKV {N} (k2 k : Bytes) (v : Value N) (acc : List (Bytes × Value N))
    (hne : k2 ≠ k) (h : hasKey k2 acc = false) : hasKey k2 (insertKV k v acc) = false := by
  cases hh : hasKey k2 (insertKV k v acc) with
  | false => rfl
  | true =>
    have := (hasKey_iff _ _).mp hh
    rcases keys_insertKV k v acc k2 this with e | e
    · exact absurd e hne
    · have := (hasKey_iff _ _).mpr e; rw [h] at this; cases this

theorem depthM_foldl {N} (ms : List (Bytes × Value N)) : ∀ (acc : List (Bytes × Value N)),
    (∀ k2 ∈ keys ms, hasKey k2 acc = false) → (keys ms).Nodup →
    depthM (ms.foldl (fun a kv => insertKV kv.1 kv.2 a) acc) = max (depthM ms) (depthM acc) := by
  induction ms with
  | nil => intro acc _ _; simp [depthM]
  | cons a ms ih =>
    intro acc hdis hnd
    obtain ⟨k, v⟩ := a
    simp only [keys, List.map_cons, List.nodup_cons, List.mem_cons, forall_eq_or_imp] at hdis hnd
    simp only [List.foldl_cons]
    rw [ih (insertKV k v acc) ?_ hnd.2, depthM_insertKV k v acc hdis.1]
    · simp only [depthM]; omega
    · intro k2 hk2
      refine hasKey_insertKV k2 k v acc ?_ (hdis.2 k2 hk2)
      intro e; subst e; exact hnd.1 hk2

theorem depthM_fromMembers {N} (ms : List (Bytes × Value N)) (hnd : (keys ms).Nodup) :
    depthM (fromMembers ms) = depthM ms := by
  unfold fromMembers
  rw [depthM_foldl ms [] (by intro k _; simp [hasKey]) hnd]
  simp [depthM]

/-! ### the machine on the token stream of a grammar derivation -/

/-- `run` without the position bookkeeping -/
def runC {N} (c : Cfg N) : List (Tok N × Bytes) → Cfg N × List (Tok N × Bytes)
  | [] => (c, [])
  | (t, r) :: more => if c.running then runC (step c t) more else (c, (t, r) :: more)

theorem run_eq_runC {N} (toks : List (Tok N × Bytes)) : ∀ (c : Cfg N) (pos : Bytes),
    (run c pos toks).1 = (runC c toks).1 ∧ (run c pos toks).2.2 = (runC c toks).2 := by
  induction toks with
  | nil => intro c pos; simp [run, runC]
  | cons p toks ih =>
    intro c pos
    obtain ⟨t, r⟩ := p
    simp only [run, runC]
    split
    · exact ih _ _
    · simp

theorem runC_step {N} (c : Cfg N) (t : Tok N) (r : Bytes) (toks : List (Tok N × Bytes)) (h : c.running = true) :
    runC c ((t, r) :: toks) = runC (step c t) toks := by
  simp [runC, h]

theorem running_of {N} (st : St) (k : Bytes) (f : Frame N) (more : List (Frame N)) (res : Value N)
    (h1 : st ≠ .error) (h2 : st ≠ .done) (h3 : more.length + 1 ≤ 512) :
    (⟨st, k, f :: more, res⟩ : Cfg N).running = true := by
  simp only [Cfg.running, List.isEmpty_cons, Bool.not_false, Bool.true_and, Bool.and_eq_true, bne_iff_ne, ne_eq,
    List.length_cons]
  refine ⟨⟨h1, h2⟩, ?_⟩
  simp only [Gen.depthGuard, Gen.jsonMaxDepth]; exact decide_eq_true h3

/-- state in which a value is expected inside this container / state after it was stored -/
def expectSt {N} : Cont N → St
  | .obj _ => .objValue
  | _ => .arrValue
def afterSt {N} : Cont N → St
  | .obj _ => .objCloseComma
  | _ => .arrCloseComma
/-- the key remembered in a nested container's stack entry -/
def slotKey {N} : Cont N → Bytes → Bytes
  | .obj _, k => k
  | _, _ => []
def CtxOk {N} : Cont N → Bytes → Prop
  | .arr _, _ => True
  | .obj ms, k => hasKey k ms = false
  | .undef, _ => False

theorem plug_slotKey {N} (cont : Cont N) (v : Value N) (k : Bytes) : cont.plug v (slotKey cont k) = cont.plug v k := by
  cases cont <;> rfl

/-- one scalar token in a value context -/
theorem step_scalar {N} (cont : Cont N) (k : Bytes) (hc : CtxOk cont k) (ret : St) (fk : Bytes) (more : List (Frame N))
    (res : Value N) (t : Tok N) (v : Value N) (hv : t.scalar? = some v) :
    step ⟨expectSt cont, k, ⟨ret, fk, cont⟩ :: more, res⟩ t =
      ⟨afterSt cont, k, ⟨ret, fk, cont.plug v k⟩ :: more, res⟩ := by
  cases cont with
  | undef => exact absurd hc (by simp [CtxOk])
  | arr r => cases t <;> simp [Tok.scalar?] at hv <;> subst hv <;> simp [step, expectSt, afterSt, Cfg.put, Cont.plug, Tok.scalar?]
  | obj ms =>
    simp only [CtxOk] at hc
    cases t <;> simp [Tok.scalar?] at hv <;> subst hv <;> simp [step, expectSt, afterSt, Cfg.put, Cont.plug, Tok.scalar?, hc]

theorem step_open_arr {N} (cont : Cont N) (k : Bytes) (hc : CtxOk cont k) (ret : St) (fk : Bytes) (more : List (Frame N))
    (res : Value N) :
    step ⟨expectSt cont, k, ⟨ret, fk, cont⟩ :: more, res⟩ (.punct 91) =
      ⟨.arrValue, k, ⟨afterSt cont, slotKey cont k, .arr []⟩ :: ⟨ret, fk, cont⟩ :: more, res⟩ := by
  cases cont with
  | undef => exact absurd hc (by simp [CtxOk])
  | arr r => simp [step, expectSt, afterSt, slotKey, Cfg.push]
  | obj ms => simp only [CtxOk] at hc; simp [step, expectSt, afterSt, slotKey, Cfg.push, hc]

theorem step_open_obj {N} (cont : Cont N) (k : Bytes) (hc : CtxOk cont k) (ret : St) (fk : Bytes) (more : List (Frame N))
    (res : Value N) :
    step ⟨expectSt cont, k, ⟨ret, fk, cont⟩ :: more, res⟩ (.punct 123) =
      ⟨.objKey, k, ⟨afterSt cont, slotKey cont k, .obj []⟩ :: ⟨ret, fk, cont⟩ :: more, res⟩ := by
  cases cont with
  | undef => exact absurd hc (by simp [CtxOk])
  | arr r => simp [step, expectSt, afterSt, slotKey, Cfg.push]
  | obj ms => simp only [CtxOk] at hc; simp [step, expectSt, afterSt, slotKey, Cfg.push, hc]

theorem expectSt_ne {N} (cont : Cont N) : expectSt cont ≠ .error ∧ expectSt cont ≠ .done := by
  cases cont <;> simp [expectSt]

theorem followOk_ws_or (w : Bytes) (c : UInt8) (y : Bytes) (hw : Ws w) (hc : c = 44 ∨ c = 93 ∨ c = 125 ∨ c = 58) :
    FollowOk (w ++ c :: y) := by
  intro d r h
  cases w with
  | nil =>
    simp only [List.nil_append, List.cons.injEq] at h
    rw [← h.1]
    rcases hc with rfl | rfl | rfl | rfl <;> decide
  | cons b w =>
    simp only [List.cons_append, List.cons.injEq] at h
    rw [← h.1]
    rcases hw b (by simp) with rfl | rfl | rfl | rfl <;> decide

theorem followOk_nil : FollowOk [] := by intro c r h; cases h

theorem followOk_ws (w : Bytes) (hw : Ws w) : FollowOk w := by
  intro d r h
  cases w with
  | nil => cases h
  | cons b w =>
    simp only [List.cons.injEq] at h
    rw [← h.1]
    rcases hw b (by simp) with rfl | rfl | rfl | rfl <;> decide


section
variable {N : Type} (ops : NumOps N)

def PV (t : Bytes) (v : Value N) : Prop :=
  ∀ (y k : Bytes) (cont : Cont N) (ret : St) (fk : Bytes) (more : List (Frame N)) (res : Value N),
    FollowOk y → CtxOk cont k → more.length + 1 + depth v ≤ 512 →
    ∃ k', runC ⟨expectSt cont, k, ⟨ret, fk, cont⟩ :: more, res⟩ (tokens ops (t ++ y)) =
          runC ⟨afterSt cont, k', ⟨ret, fk, cont.plug v k⟩ :: more, res⟩ (tokens ops y)

def PE (t : Bytes) (vs : List (Value N)) : Prop :=
  ∀ (y k : Bytes) (ret : St) (fk : Bytes) (r : List (Value N)) (more : List (Frame N)) (res : Value N),
    FollowOk y → more.length + 1 + depthL vs ≤ 512 →
    ∃ k', runC ⟨.arrValue, k, ⟨ret, fk, .arr r⟩ :: more, res⟩ (tokens ops (t ++ y)) =
          runC ⟨.arrCloseComma, k', ⟨ret, fk, .arr (vs.reverse ++ r)⟩ :: more, res⟩ (tokens ops y)

def PM (t : Bytes) (ms : List (Bytes × Value N)) : Prop :=
  ∀ (y k : Bytes) (ret : St) (fk : Bytes) (acc : List (Bytes × Value N)) (more : List (Frame N)) (res : Value N),
    FollowOk y → (∀ k2 ∈ keys ms, hasKey k2 acc = false) → (keys ms).Nodup → more.length + 1 + depthM ms ≤ 512 →
    ∃ k', runC ⟨.objKey, k, ⟨ret, fk, .obj acc⟩ :: more, res⟩ (tokens ops (t ++ y)) =
          runC ⟨.objCloseComma, k', ⟨ret, fk, .obj (ms.foldl (fun a kv => insertKV kv.1 kv.2 a) acc)⟩ :: more, res⟩ (tokens ops y)

/-- a value that is a single scalar token -/
theorem pv_scalar (t : Bytes) (tok : Tok N) (v : Value N) (hv : tok.scalar? = some v) (hd : depth v = 0)
    (hn : ∀ y, FollowOk y → next ops (t ++ y) = (tok, y)) : PV ops t v := by
  intro y k cont ret fk more res hy hc hdep
  have hstop : tok.isStop = false := by cases tok <;> simp [Tok.scalar?] at hv <;> rfl
  rw [tokens_cons ops _ tok y (hn y hy) hstop]
  rw [runC_step _ _ _ _ (running_of _ _ _ _ _ (expectSt_ne cont).1 (expectSt_ne cont).2 (by omega))]
  rw [step_scalar cont k hc ret fk more res tok v hv]
  exact ⟨k, rfl⟩

theorem pv_arr0 (w : Bytes) (hw : Ws w) : PV ops (91 :: (w ++ [93])) (.arr []) := by
  intro y k cont ret fk more res hy hc hdep
  simp only [depth, depthL] at hdep
  have e : (91 :: (w ++ [93])) ++ y = 91 :: (w ++ 93 :: y) := by simp
  rw [e, tokens_punct ops 91 _ (by simp), tokens_ws ops w _ hw, tokens_punct ops 93 _ (by simp)]
  rw [runC_step _ _ _ _ (running_of _ _ _ _ _ (expectSt_ne cont).1 (expectSt_ne cont).2 (by omega))]
  rw [step_open_arr cont k hc]
  rw [runC_step _ _ _ _ (running_of _ _ _ _ _ (by simp) (by simp) (by simp; omega))]
  refine ⟨k, ?_⟩
  simp [step, Cfg.pop, Cont.close, plug_slotKey]

theorem pv_obj0 (w : Bytes) (hw : Ws w) : PV ops (123 :: (w ++ [125])) (.obj []) := by
  intro y k cont ret fk more res hy hc hdep
  simp only [depth, depthM] at hdep
  have e : (123 :: (w ++ [125])) ++ y = 123 :: (w ++ 125 :: y) := by simp
  rw [e, tokens_punct ops 123 _ (by simp), tokens_ws ops w _ hw, tokens_punct ops 125 _ (by simp)]
  rw [runC_step _ _ _ _ (running_of _ _ _ _ _ (expectSt_ne cont).1 (expectSt_ne cont).2 (by omega))]
  rw [step_open_obj cont k hc]
  rw [runC_step _ _ _ _ (running_of _ _ _ _ _ (by simp) (by simp) (by simp; omega))]
  refine ⟨k, ?_⟩
  simp [step, Cfg.pop, Cont.close, plug_slotKey]

theorem pv_arr (w1 t w2 : Bytes) (vs : List (Value N)) (h1 : Ws w1) (h2 : Ws w2) (he : PE ops t vs) :
    PV ops (91 :: (w1 ++ t ++ w2 ++ [93])) (.arr vs) := by
  intro y k cont ret fk more res hy hc hdep
  simp only [depth] at hdep
  have e : (91 :: (w1 ++ t ++ w2 ++ [93])) ++ y = 91 :: (w1 ++ (t ++ (w2 ++ 93 :: y))) := by simp
  rw [e, tokens_punct ops 91 _ (by simp), tokens_ws ops w1 _ h1]
  rw [runC_step _ _ _ _ (running_of _ _ _ _ _ (expectSt_ne cont).1 (expectSt_ne cont).2 (by omega))]
  rw [step_open_arr cont k hc]
  obtain ⟨k', hk'⟩ := he (w2 ++ 93 :: y) k (afterSt cont) (slotKey cont k) [] (⟨ret, fk, cont⟩ :: more) res
    (followOk_ws_or w2 93 y h2 (by simp)) (by simp; omega)
  rw [hk', tokens_ws ops w2 _ h2, tokens_punct ops 93 _ (by simp)]
  rw [runC_step _ _ _ _ (running_of _ _ _ _ _ (by simp) (by simp) (by simp; omega))]
  refine ⟨k', ?_⟩
  simp [step, Cfg.pop, Cont.close, plug_slotKey]

theorem pv_obj (w1 t w2 : Bytes) (ms : List (Bytes × Value N)) (h1 : Ws w1) (h2 : Ws w2) (hm : PM ops t ms)
    (hnd : (keys ms).Nodup) : PV ops (123 :: (w1 ++ t ++ w2 ++ [125])) (.obj (fromMembers ms)) := by
  intro y k cont ret fk more res hy hc hdep
  simp only [depth, depthM_fromMembers ms hnd] at hdep
  have e : (123 :: (w1 ++ t ++ w2 ++ [125])) ++ y = 123 :: (w1 ++ (t ++ (w2 ++ 125 :: y))) := by simp
  rw [e, tokens_punct ops 123 _ (by simp), tokens_ws ops w1 _ h1]
  rw [runC_step _ _ _ _ (running_of _ _ _ _ _ (expectSt_ne cont).1 (expectSt_ne cont).2 (by omega))]
  rw [step_open_obj cont k hc]
  obtain ⟨k', hk'⟩ := hm (w2 ++ 125 :: y) k (afterSt cont) (slotKey cont k) [] (⟨ret, fk, cont⟩ :: more) res
    (followOk_ws_or w2 125 y h2 (by simp)) (by intro k2 _; simp [hasKey]) hnd (by simp; omega)
  rw [hk', tokens_ws ops w2 _ h2, tokens_punct ops 125 _ (by simp)]
  rw [runC_step _ _ _ _ (running_of _ _ _ _ _ (by simp) (by simp) (by simp; omega))]
  refine ⟨k', ?_⟩
  simp [step, Cfg.pop, Cont.close, plug_slotKey, fromMembers]

theorem pe_one (t : Bytes) (v : Value N) (hv : PV ops t v) : PE ops t [v] := by
  intro y k ret fk r more res hy hdep
  simp only [depthL] at hdep
  obtain ⟨k', h⟩ := hv y k (.arr r) ret fk more res hy trivial (by omega)
  exact ⟨k', by simpa [expectSt, afterSt, Cont.plug] using h⟩

theorem pe_cons (t w1 w2 t' : Bytes) (v : Value N) (vs : List (Value N)) (hv : PV ops t v) (h1 : Ws w1) (h2 : Ws w2)
    (he : PE ops t' vs) : PE ops (t ++ w1 ++ 44 :: (w2 ++ t')) (v :: vs) := by
  intro y k ret fk r more res hy hdep
  simp only [depthL] at hdep
  have e : (t ++ w1 ++ 44 :: (w2 ++ t')) ++ y = t ++ (w1 ++ 44 :: (w2 ++ (t' ++ y))) := by simp
  obtain ⟨k1, h⟩ := hv (w1 ++ 44 :: (w2 ++ (t' ++ y))) k (.arr r) ret fk more res
    (followOk_ws_or w1 44 _ h1 (by simp)) trivial (by omega)
  simp only [expectSt, afterSt, Cont.plug] at h
  rw [e, h, tokens_ws ops w1 _ h1, tokens_punct ops 44 _ (by simp), tokens_ws ops w2 _ h2]
  rw [runC_step _ _ _ _ (running_of _ _ _ _ _ (by simp) (by simp) (by omega))]
  obtain ⟨k2, h'⟩ := he y k1 ret fk (v :: r) more res hy (by omega)
  refine ⟨k2, ?_⟩
  simp only [step]
  rw [h']
  simp

theorem pm_member (kt key w1 w2 t : Bytes) (v : Value N) (hk : StringLex kt key) (h1 : Ws w1) (h2 : Ws w2) (hv : PV ops t v)
    (y k : Bytes) (ret : St) (fk : Bytes) (acc : List (Bytes × Value N)) (more : List (Frame N)) (res : Value N)
    (hy : FollowOk y) (hfresh : hasKey key acc = false) (hdep : more.length + 1 + depth v ≤ 512) :
    ∃ k', runC ⟨.objKey, k, ⟨ret, fk, .obj acc⟩ :: more, res⟩ (tokens ops ((kt ++ w1 ++ 58 :: (w2 ++ t)) ++ y)) =
          runC ⟨.objCloseComma, k', ⟨ret, fk, .obj (insertKV key v acc)⟩ :: more, res⟩ (tokens ops y) := by
  have e : (kt ++ w1 ++ 58 :: (w2 ++ t)) ++ y = kt ++ (w1 ++ 58 :: (w2 ++ (t ++ y))) := by simp
  rw [e, tokens_cons ops _ (.str key) _ (next_string ops kt key _ hk) rfl]
  rw [runC_step _ _ _ _ (running_of _ _ _ _ _ (by simp) (by simp) (by omega))]
  simp only [step]
  rw [tokens_ws ops w1 _ h1, tokens_punct ops 58 _ (by simp), tokens_ws ops w2 _ h2]
  rw [runC_step _ _ _ _ (running_of _ _ _ _ _ (by simp) (by simp) (by omega))]
  simp only [step]
  obtain ⟨k', h⟩ := hv y key (.obj acc) ret fk more res hy hfresh hdep
  exact ⟨k', by simpa [expectSt, afterSt, Cont.plug] using h⟩

theorem pm_one (kt key w1 w2 t : Bytes) (v : Value N) (hk : StringLex kt key) (h1 : Ws w1) (h2 : Ws w2) (hv : PV ops t v) :
    PM ops (kt ++ w1 ++ 58 :: (w2 ++ t)) [(key, v)] := by
  intro y k ret fk acc more res hy hfresh hnd hdep
  simp only [depthM] at hdep
  have := pm_member ops kt key w1 w2 t v hk h1 h2 hv y k ret fk acc more res hy (hfresh key (by simp [keys])) (by omega)
  simpa using this

theorem pm_cons (kt key w1 w2 t w3 w4 t' : Bytes) (v : Value N) (ms : List (Bytes × Value N))
    (hk : StringLex kt key) (h1 : Ws w1) (h2 : Ws w2) (hv : PV ops t v) (h3 : Ws w3) (h4 : Ws w4) (hm : PM ops t' ms) :
    PM ops (kt ++ w1 ++ 58 :: (w2 ++ t) ++ w3 ++ 44 :: (w4 ++ t')) ((key, v) :: ms) := by
  intro y k ret fk acc more res hy hfresh hnd hdep
  simp only [depthM] at hdep
  simp only [keys, List.map_cons, List.nodup_cons, List.mem_cons, forall_eq_or_imp] at hfresh hnd
  have e : (kt ++ w1 ++ 58 :: (w2 ++ t) ++ w3 ++ 44 :: (w4 ++ t')) ++ y =
      (kt ++ w1 ++ 58 :: (w2 ++ t)) ++ (w3 ++ 44 :: (w4 ++ (t' ++ y))) := by simp
  obtain ⟨k1, h⟩ := pm_member ops kt key w1 w2 t v hk h1 h2 hv (w3 ++ 44 :: (w4 ++ (t' ++ y))) k ret fk acc more res
    (followOk_ws_or w3 44 _ h3 (by simp)) hfresh.1 (by omega)
  rw [e, h, tokens_ws ops w3 _ h3, tokens_punct ops 44 _ (by simp), tokens_ws ops w4 _ h4]
  rw [runC_step _ _ _ _ (running_of _ _ _ _ _ (by simp) (by simp) (by omega))]
  simp only [step]
  obtain ⟨k2, h'⟩ := hm y k1 ret fk (insertKV key v acc) more res hy
    (by intro k2 hk2
        refine hasKey_insertKV k2 key v acc ?_ (hfresh.2 k2 hk2)
        intro e; subst e; exact hnd.1 hk2)
    hnd.2 (by omega)
  exact ⟨k2, by simpa using h'⟩

mutual
theorem val_run : ∀ {t : Bytes} {v : Value N}, Val ops t v → PV ops t v
  | _, _, .null => pv_scalar ops _ .nul .null rfl rfl (fun y _ => next_null ops y)
  | _, _, .tru => pv_scalar ops _ .tru (.bool true) rfl rfl (fun y _ => next_true ops y)
  | _, _, .fls => pv_scalar ops _ .fls (.bool false) rfl rfl (fun y _ => next_false ops y)
  | _, _, .num t d x hn hx => pv_scalar ops _ (.num x) (.num x) rfl rfl (fun y hy => next_number ops t d x y hn hx hy)
  | _, _, .str t s hs => pv_scalar ops _ (.str s) (.str s) rfl rfl (fun y _ => next_string ops t s y hs)
  | _, _, .arr0 w hw => pv_arr0 ops w hw
  | _, _, .arr w1 t w2 vs h1 h2 he => pv_arr ops w1 t w2 vs h1 h2 (elems_run he)
  | _, _, .obj0 w hw => pv_obj0 ops w hw
  | _, _, .obj w1 t w2 ms h1 h2 hm hnd => pv_obj ops w1 t w2 ms h1 h2 (members_run hm) hnd
theorem elems_run : ∀ {t : Bytes} {vs : List (Value N)}, Elems ops t vs → PE ops t vs
  | _, _, .one t v hv => pe_one ops t v (val_run hv)
  | _, _, .cons t w1 w2 t' v vs hv h1 h2 he => pe_cons ops t w1 w2 t' v vs (val_run hv) h1 h2 (elems_run he)
theorem members_run : ∀ {t : Bytes} {ms : List (Bytes × Value N)}, Members ops t ms → PM ops t ms
  | _, _, .one kt k w1 w2 t v hk h1 h2 hv => pm_one ops kt k w1 w2 t v hk h1 h2 (val_run hv)
  | _, _, .cons kt k w1 w2 t w3 w4 t' v ms hk h1 h2 hv h3 h4 hm =>
    pm_cons ops kt k w1 w2 t w3 w4 t' v ms hk h1 h2 (val_run hv) h3 h4 (members_run hm)
end
end

section
variable {N : Type} (ops : NumOps N)

theorem runC_done (k : Bytes) (v : Value N) (toks : List (Tok N × Bytes)) :
    runC ⟨.done, k, [], v⟩ toks = (⟨.done, k, [], v⟩, toks) := by
  cases toks with
  | nil => rfl
  | cons p toks => obtain ⟨t, r⟩ := p; simp [runC, Cfg.running]

theorem start_running : (Cfg.start : Cfg N).running = true := by
  simp [Cfg.start, Cfg.running, Gen.depthGuard, Gen.jsonMaxDepth]

theorem root_scalar (t : Bytes) (tok : Tok N) (v : Value N) (hv : tok.scalar? = some v)
    (hn : ∀ y, FollowOk y → next ops (t ++ y) = (tok, y)) (y : Bytes) (hy : FollowOk y) :
    ∃ k, runC Cfg.start (tokens ops (t ++ y)) = runC ⟨.done, k, [], v⟩ (tokens ops y) := by
  have hstop : tok.isStop = false := by cases tok <;> simp [Tok.scalar?] at hv <;> rfl
  rw [tokens_cons ops _ tok y (hn y hy) hstop, runC_step _ _ _ _ start_running]
  refine ⟨[], ?_⟩
  cases tok <;> simp [Tok.scalar?] at hv <;> subst hv <;> simp [step, Cfg.start, Tok.scalar?]

/-- the machine from its initial configuration on a value of the grammar -/
theorem root_run {t : Bytes} {v : Value N} (h : Val ops t v) (hd : depth v ≤ 512) (y : Bytes) (hy : FollowOk y) :
    ∃ k, runC Cfg.start (tokens ops (t ++ y)) = runC ⟨.done, k, [], v⟩ (tokens ops y) := by
  cases h with
  | null => exact root_scalar ops _ .nul .null rfl (fun y _ => next_null ops y) y hy
  | tru => exact root_scalar ops _ .tru (.bool true) rfl (fun y _ => next_true ops y) y hy
  | fls => exact root_scalar ops _ .fls (.bool false) rfl (fun y _ => next_false ops y) y hy
  | num t d x hn hx => exact root_scalar ops _ (.num x) (.num x) rfl (fun y hy => next_number ops t d x y hn hx hy) y hy
  | str t s hs => exact root_scalar ops _ (.str s) (.str s) rfl (fun y _ => next_string ops t s y hs) y hy
  | arr0 w hw =>
    have e : (91 :: (w ++ [93])) ++ y = 91 :: (w ++ 93 :: y) := by simp
    rw [e, tokens_punct ops 91 _ (by simp), tokens_ws ops w _ hw, tokens_punct ops 93 _ (by simp)]
    rw [runC_step _ _ _ _ start_running]
    simp only [step, Cfg.start]
    rw [runC_step _ _ _ _ (running_of _ _ _ _ _ (by simp) (by simp) (by simp))]
    exact ⟨[], by simp [step, Cfg.pop, Cont.close]⟩
  | obj0 w hw =>
    have e : (123 :: (w ++ [125])) ++ y = 123 :: (w ++ 125 :: y) := by simp
    rw [e, tokens_punct ops 123 _ (by simp), tokens_ws ops w _ hw, tokens_punct ops 125 _ (by simp)]
    rw [runC_step _ _ _ _ start_running]
    simp only [step, Cfg.start]
    rw [runC_step _ _ _ _ (running_of _ _ _ _ _ (by simp) (by simp) (by simp))]
    exact ⟨[], by simp [step, Cfg.pop, Cont.close]⟩
  | arr w1 t w2 vs h1 h2 he =>
    simp only [depth] at hd
    have e : (91 :: (w1 ++ t ++ w2 ++ [93])) ++ y = 91 :: (w1 ++ (t ++ (w2 ++ 93 :: y))) := by simp
    rw [e, tokens_punct ops 91 _ (by simp), tokens_ws ops w1 _ h1]
    rw [runC_step _ _ _ _ start_running]
    simp only [step, Cfg.start]
    obtain ⟨k', hk'⟩ := elems_run ops he (w2 ++ 93 :: y) [] .done [] [] [] .undef
      (followOk_ws_or w2 93 y h2 (by simp)) (by simp; omega)
    rw [hk', tokens_ws ops w2 _ h2, tokens_punct ops 93 _ (by simp)]
    rw [runC_step _ _ _ _ (running_of _ _ _ _ _ (by simp) (by simp) (by simp))]
    exact ⟨k', by simp [step, Cfg.pop, Cont.close]⟩
  | obj w1 t w2 ms h1 h2 hm hnd =>
    simp only [depth, depthM_fromMembers ms hnd] at hd
    have e : (123 :: (w1 ++ t ++ w2 ++ [125])) ++ y = 123 :: (w1 ++ (t ++ (w2 ++ 125 :: y))) := by simp
    rw [e, tokens_punct ops 123 _ (by simp), tokens_ws ops w1 _ h1]
    rw [runC_step _ _ _ _ start_running]
    simp only [step, Cfg.start]
    obtain ⟨k', hk'⟩ := members_run ops hm (w2 ++ 125 :: y) [] .done [] [] [] .undef
      (followOk_ws_or w2 125 y h2 (by simp)) (by intro k2 _; simp [hasKey]) hnd (by simp; omega)
    rw [hk', tokens_ws ops w2 _ h2, tokens_punct ops 125 _ (by simp)]
    rw [runC_step _ _ _ _ (running_of _ _ _ _ _ (by simp) (by simp) (by simp))]
    exact ⟨k', by simp [step, Cfg.pop, Cont.close, fromMembers]⟩

theorem tokens_only_ws (w : Bytes) (hw : Ws w) : tokens ops w = [(.eof, [])] := by
  have := tokens_ws ops w [] hw
  simp only [List.append_nil] at this
  rw [this]
  exact tokens_stop ops [] .eof [] rfl rfl

/-- every document of the grammar within the depth bound is accepted with the tree it denotes -/
theorem parse_doc {text : Bytes} {v : Value N} (h : Doc ops text v) (hd : depth v ≤ 512) :
    parseStream ops true text = some (v, []) := by
  obtain ⟨w1, t, w2, h1, h2, hv, rfl⟩ := h
  obtain ⟨k, hk⟩ := root_run ops hv hd w2 (followOk_ws w2 h2)
  have htok : tokens ops (w1 ++ t ++ w2) = tokens ops (t ++ w2) := by
    rw [List.append_assoc]; exact tokens_ws ops w1 _ h1
  unfold parseStream
  have hr := run_eq_runC (tokens ops (w1 ++ t ++ w2)) Cfg.start (w1 ++ t ++ w2)
  rw [htok, hk, runC_done, tokens_only_ws ops w2 h2] at hr
  rw [htok]
  rcases hrun : run Cfg.start (w1 ++ t ++ w2) (tokens ops (t ++ w2)) with ⟨c, pos, more⟩
  rw [hrun] at hr
  simp only at hr
  obtain ⟨rfl, rfl⟩ := hr
  simp
end

end Cppcms.C11
