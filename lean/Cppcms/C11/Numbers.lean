import Cppcms.C11.Lexing
/-! Helper lemmas for C11, part 6: an RFC 8259 number is one number token (`_M_extract_float` automaton + `strtod` syntax). -/
namespace Cppcms.C11
open Cppcms Spec
/-! ### numbers -/

def AllDigits (ds : Bytes) : Prop := ∀ b ∈ ds, isDigit b = true

/-- what may follow a number token: nothing, or a byte that cannot continue it -/
def FollowOk (y : Bytes) : Prop := ∀ c r, y = c :: r → isDigit c = false ∧ c ≠ 46 ∧ c ≠ 101 ∧ c ≠ 69

theorem isDigit_iff (b : UInt8) : isDigit b = true ↔ IsDigit b := by simp [isDigit, IsDigit]

theorem allDigits_of {t : Bytes} (h : Digits t) : AllDigits t := fun b hb => (isDigit_iff b).mpr (h.2 b hb)

theorem scanMain_cons (fm fd fs : Bool) (c : UInt8) (rest : Bytes) :
    scanMain fm fd fs (c :: rest) =
    if isDigit c then consTo c (scanMain true fd fs rest)
    else if c == 46 && !fd && !fs then consTo 46 (scanMain fm true fs rest)
    else if (c == 101 || c == 69) && !fs && fm then
      match rest with
      | [] => ([101], [])
      | s :: rest1 =>
        if s == 43 || s == 45 then consTo 101 (consTo s (scanMain fm fd true rest1))
        else if isDigit s then consTo 101 (consTo s (scanMain true fd true rest1))
        else ([101], s :: rest1)
    else ([], c :: rest) := by
  rw [scanMain.eq_def]; rfl

theorem scanMain_digits (ds : Bytes) (h : AllDigits ds) : ∀ (fm fd fs : Bool) (z : Bytes),
    scanMain fm fd fs (ds ++ z) =
      (ds ++ (scanMain (fm || !ds.isEmpty) fd fs z).1, (scanMain (fm || !ds.isEmpty) fd fs z).2) := by
  induction ds with
  | nil => intro fm fd fs z; simp
  | cons d ds ih =>
    intro fm fd fs z
    have hd : isDigit d = true := h d (by simp)
    have hds : AllDigits ds := fun b hb => h b (by simp [hb])
    simp only [List.cons_append]
    rw [scanMain_cons]
    simp only [hd, if_true, ih hds, consTo]
    simp

theorem scanMain_stop (fd fs : Bool) (y : Bytes) (h : FollowOk y) : scanMain true fd fs y = ([], y) := by
  cases y with
  | nil => simp [scanMain]
  | cons c r =>
    obtain ⟨h1, h2, h3, h4⟩ := h c r rfl
    rw [scanMain_cons]
    simp [h1, h2, h3, h4]

/-- the exponent part as accumulated in `__xtrc` (`E` becomes `e`) -/
def expNorm (ex : Option (UInt8 × Option Bool × Bytes)) : Bytes :=
  match ex with
  | none => []
  | some (_, sg, ep) => 101 :: ((match sg with | none => [] | some true => [45] | some false => [43]) ++ ep)

theorem scanMain_exp (fd : Bool) (ex : Option (UInt8 × Option Bool × Bytes)) (y : Bytes)
    (hex : ∀ e sg ep, ex = some (e, sg, ep) → (e = 101 ∨ e = 69) ∧ Digits ep) (hy : FollowOk y) :
    scanMain true fd false (expText ex ++ y) = (expNorm ex, y) := by
  cases ex with
  | none => simpa [expText, expNorm] using scanMain_stop fd false y hy
  | some p =>
    obtain ⟨e, sg, ep⟩ := p
    obtain ⟨he, hne, hdig⟩ := hex e sg ep rfl
    have hall : AllDigits ep := allDigits_of ⟨hne, hdig⟩
    have hend := scanMain_stop fd true y hy
    have ee : (e == 101 || e == 69) = true := by rcases he with rfl | rfl <;> decide
    have ed : isDigit e = false := by rcases he with rfl | rfl <;> decide
    have e46 : (e == 46) = false := by rcases he with rfl | rfl <;> decide
    simp only [expText, expNorm, List.cons_append]
    rw [scanMain_cons]
    simp only [ed, e46, ee, Bool.false_eq_true, if_false, Bool.false_and, Bool.not_false, Bool.and_self, if_true]
    cases sg with
    | none =>
      cases ep with
      | nil => exact absurd rfl hne
      | cons d ds =>
        have hd : isDigit d = true := hall d (by simp)
        have hds : AllDigits ds := fun b hb => hall b (by simp [hb])
        have n43 : (d == 43 || d == 45) = false := by
          have : 48 ≤ d.toNat := by simp [isDigit] at hd; omega
          have a : d ≠ 43 := by intro e; subst e; simp at this
          have b : d ≠ 45 := by intro e; subst e; simp at this
          simp [a, b]
        simp only [List.nil_append, List.cons_append, n43, hd, Bool.false_eq_true, if_false, if_true]
        rw [scanMain_digits ds hds]
        simp [consTo, hend]
    | some b =>
      cases b with
      | true =>
        simp only [List.cons_append, List.nil_append]
        simp only [show ((45 : UInt8) == 43 || (45 : UInt8) == 45) = true by decide, if_true]
        rw [scanMain_digits ep hall]
        simp [consTo, hend]
      | false =>
        simp only [List.cons_append, List.nil_append]
        simp only [show ((43 : UInt8) == 43 || (43 : UInt8) == 45) = true by decide, if_true]
        rw [scanMain_digits ep hall]
        simp [consTo, hend]

theorem followOk_exp (ex : Option (UInt8 × Option Bool × Bytes)) (y : Bytes)
    (hex : ∀ e sg ep, ex = some (e, sg, ep) → (e = 101 ∨ e = 69) ∧ Digits ep) (hy : FollowOk y) :
    ∀ c r, expText ex ++ y = c :: r → isDigit c = false ∧ c ≠ 46 := by
  intro c r h
  cases ex with
  | none => simp only [expText, List.nil_append] at h; exact ⟨(hy c r h).1, (hy c r h).2.1⟩
  | some p =>
    obtain ⟨e, sg, ep⟩ := p
    obtain ⟨he, _⟩ := hex e sg ep rfl
    simp only [expText, List.cons_append, List.cons.injEq] at h
    obtain ⟨rfl, _⟩ := h
    rcases he with rfl | rfl <;> decide

theorem scanMain_frac (fp : Bytes) (ex : Option (UInt8 × Option Bool × Bytes)) (y : Bytes)
    (hfp : fp = [] ∨ Digits fp)
    (hex : ∀ e sg ep, ex = some (e, sg, ep) → (e = 101 ∨ e = 69) ∧ Digits ep) (hy : FollowOk y) :
    scanMain true false false (fracText fp ++ expText ex ++ y) = (fracText fp ++ expNorm ex, y) := by
  by_cases hf : fp = []
  · simp only [fracText, hf, if_true, List.nil_append]
    exact scanMain_exp false ex y hex hy
  · have hd : Digits fp := by rcases hfp with h | h; exact absurd h hf; exact h
    simp only [fracText, hf, if_false, List.cons_append]
    rw [scanMain_cons]
    simp only [show isDigit 46 = false by decide, Bool.false_eq_true, if_false]
    simp only [show ((46 : UInt8) == 46) = true by decide, Bool.not_false, Bool.and_self, if_true]
    rw [List.append_assoc, scanMain_digits fp (allDigits_of hd)]
    simp [consTo, scanMain_exp true ex y hex hy]


theorem intPart_cases {ip : Bytes} (h : IntPart ip) :
    ip = [48] ∨ (∃ d ds, ip = d :: ds ∧ isDigit d = true ∧ d ≠ 48 ∧ AllDigits ds) := by
  rcases h with h | ⟨hd, hh⟩
  · exact Or.inl h
  · right
    cases ip with
    | nil => exact absurd rfl hd.1
    | cons d ds =>
      have hall := allDigits_of hd
      refine ⟨d, ds, rfl, hall d (by simp), ?_, fun b hb => hall b (by simp [hb])⟩
      intro e; subst e; simp at hh

theorem scanZeros_stop (fm : Bool) (z : Bytes) (h : ∀ c r, z = c :: r → c ≠ 48) : scanZeros fm z = (fm, [], z) := by
  cases z with
  | nil => simp [scanZeros]
  | cons c r =>
    have : (c == 48) = false := by simpa using h c r rfl
    simp [scanZeros, this]

theorem digit_not_sign (d : UInt8) (h : isDigit d = true) : (d == 43 || d == 45) = false := by
  have : 48 ≤ d.toNat := by simp [isDigit] at h; omega
  have a : d ≠ 43 := by intro e; subst e; simp at this
  have b : d ≠ 45 := by intro e; subst e; simp at this
  simp [a, b]

/-- `_M_extract_float` on an RFC 8259 number followed by something that cannot continue it:
consumes exactly the number; `__xtrc` is the text with `E` normalised to `e`. -/
theorem scanFloat_number (neg : Bool) (ip fp : Bytes) (ex : Option (UInt8 × Option Bool × Bytes)) (y : Bytes)
    (hip : IntPart ip) (hfp : fp = [] ∨ Digits fp)
    (hex : ∀ e sg ep, ex = some (e, sg, ep) → (e = 101 ∨ e = 69) ∧ Digits ep) (hy : FollowOk y) :
    scanFloat (minusText neg ++ ip ++ fracText fp ++ expText ex ++ y) =
      (minusText neg ++ ip ++ fracText fp ++ expNorm ex, y) := by
  have hz : ∀ c r, fracText fp ++ expText ex ++ y = c :: r → c ≠ 48 := by
    intro c r h
    by_cases hf : fp = []
    · simp only [fracText, hf, if_true, List.nil_append] at h
      have := (followOk_exp ex y hex hy c r h).1
      intro e; subst e; simp [isDigit] at this
    · simp only [fracText, hf, if_false, List.cons_append, List.cons.injEq] at h
      rw [← h.1]; decide
  -- the part after the sign
  have core : ∀ (pre : Bytes),
      (scanZeros false (ip ++ fracText fp ++ expText ex ++ y)).2.1 ++
        (scanMain (scanZeros false (ip ++ fracText fp ++ expText ex ++ y)).1 false false
          (scanZeros false (ip ++ fracText fp ++ expText ex ++ y)).2.2).1 = ip ++ fracText fp ++ expNorm ex ∧
      (scanMain (scanZeros false (ip ++ fracText fp ++ expText ex ++ y)).1 false false
          (scanZeros false (ip ++ fracText fp ++ expText ex ++ y)).2.2).2 = y := by
    intro _
    rcases intPart_cases hip with rfl | ⟨d, ds, rfl, hd, hd0, hds⟩
    · have e1 : scanZeros false ([48] ++ fracText fp ++ expText ex ++ y) = (true, [48], fracText fp ++ expText ex ++ y) := by
        simp only [List.cons_append, List.nil_append, List.append_assoc]
        rw [scanZeros]
        simp only [show ((48 : UInt8) == 48) = true by decide, if_true]
        rw [scanZeros_stop true _ (by simpa [List.append_assoc] using hz)]
        simp
      rw [e1]
      simp only
      rw [scanMain_frac fp ex y hfp hex hy]
      simp
    · have e1 : scanZeros false (d :: ds ++ fracText fp ++ expText ex ++ y) = (false, [], d :: ds ++ fracText fp ++ expText ex ++ y) := by
        apply scanZeros_stop
        intro c r h
        simp only [List.cons_append, List.cons.injEq] at h
        rw [← h.1]; exact hd0
      rw [e1]
      simp only
      have hall : AllDigits (d :: ds) := by
        intro b hb; simp at hb; rcases hb with rfl | hb; exact hd; exact hds b hb
      rw [List.append_assoc (d :: ds), List.append_assoc (d :: ds), scanMain_digits (d :: ds) hall]
      have : (false || !(d :: ds).isEmpty) = true := by simp
      rw [this, ← List.append_assoc, scanMain_frac fp ex y hfp hex hy]
      simp
  cases neg with
  | true =>
    have hs : scanSign (minusText true ++ ip ++ fracText fp ++ expText ex ++ y) = ([45], ip ++ fracText fp ++ expText ex ++ y) := by
      simp [minusText, scanSign]
    simp only [scanFloat, hs]
    obtain ⟨c1, c2⟩ := core []
    rw [c2]
    simp only [minusText, if_true, List.append_assoc] at c1 ⊢
    rw [c1]
  | false =>
    have hs : scanSign (minusText false ++ ip ++ fracText fp ++ expText ex ++ y) = ([], ip ++ fracText fp ++ expText ex ++ y) := by
      rcases intPart_cases hip with rfl | ⟨d, ds, rfl, hd, _, _⟩
      · simp [minusText, scanSign]
      · simp [minusText, scanSign, digit_not_sign d hd]
    simp only [scanFloat, hs]
    obtain ⟨c1, c2⟩ := core []
    rw [c2]
    simp only [minusText, Bool.false_eq_true, if_false, List.nil_append, List.append_assoc] at c1 ⊢
    rw [c1]

theorem takeWhile_digits (ds z : Bytes) (h : AllDigits ds) (hz : ∀ c r, z = c :: r → isDigit c = false) :
    (ds ++ z).takeWhile isDigit = ds ∧ (ds ++ z).dropWhile isDigit = z := by
  induction ds with
  | nil =>
    cases z with
    | nil => simp
    | cons c r => simp [List.takeWhile, List.dropWhile, hz c r rfl]
  | cons d ds ih =>
    have hd : isDigit d = true := h d (by simp)
    have := ih (fun b hb => h b (by simp [hb]))
    simp [List.takeWhile, List.dropWhile, hd, this]

theorem digitsVal_eq (t : Bytes) : digitsVal t = natOf t := rfl

theorem expNorm_head (ex : Option (UInt8 × Option Bool × Bytes)) : ∀ c r, expNorm ex = c :: r → isDigit c = false ∧ c ≠ 46 := by
  intro c r h
  cases ex with
  | none => simp [expNorm] at h
  | some p =>
    obtain ⟨e, sg, ep⟩ := p
    simp only [expNorm, List.cons.injEq] at h
    rw [← h.1]; decide

theorem stripSign_digit (d : UInt8) (r : Bytes) (h : isDigit d = true) : stripSign (d :: r) = (false, d :: r) := by
  have := digit_not_sign d h
  simp only [Bool.or_eq_false_iff, beq_eq_false_iff_ne] at this
  unfold stripSign
  split
  · rename_i h; simp only [List.cons.injEq] at h; exact absurd h.1 this.2
  · rename_i h; simp only [List.cons.injEq] at h; exact absurd h.1 this.1
  · rfl

theorem splitFrac_other (z : Bytes) (h : ∀ c r, z = c :: r → c ≠ 46) : splitFrac z = ([], z) := by
  unfold splitFrac
  split
  · rename_i r; exact absurd rfl (h 46 r rfl)
  · rfl

/-- `strtod` accepts the whole accumulated text of an RFC 8259 number and yields the decimal it denotes -/
theorem parseDec_number (neg : Bool) (ip fp : Bytes) (ex : Option (UInt8 × Option Bool × Bytes))
    (hip : IntPart ip) (hfp : fp = [] ∨ Digits fp)
    (hex : ∀ e sg ep, ex = some (e, sg, ep) → (e = 101 ∨ e = 69) ∧ Digits ep) :
    parseDec (minusText neg ++ ip ++ fracText fp ++ expNorm ex) =
      some ⟨neg, natOf (ip ++ fp), expVal ex - (fp.length : Int)⟩ := by
  have hipd : AllDigits ip ∧ ip ≠ [] := by
    rcases intPart_cases hip with rfl | ⟨d, ds, rfl, hd, _, hds⟩
    · exact ⟨by intro b hb; simp at hb; subst hb; decide, by simp⟩
    · exact ⟨by intro b hb; simp at hb; rcases hb with rfl | hb; exact hd; exact hds b hb, by simp⟩
  have hfh : ∀ c r, fracText fp ++ expNorm ex = c :: r → isDigit c = false := by
    intro c r h
    by_cases hf : fp = []
    · simp only [fracText, hf, if_true, List.nil_append] at h; exact (expNorm_head ex c r h).1
    · simp only [fracText, hf, if_false, List.cons_append, List.cons.injEq] at h; rw [← h.1]; decide
  have hsign : stripSign (minusText neg ++ ip ++ fracText fp ++ expNorm ex) = (neg, ip ++ (fracText fp ++ expNorm ex)) := by
    cases neg with
    | true => simp [minusText, stripSign]
    | false =>
      rcases intPart_cases hip with rfl | ⟨d, ds, rfl, hd, _, _⟩
      · simp [minusText, stripSign]
      · simp only [minusText, Bool.false_eq_true, if_false, List.nil_append, List.cons_append, List.append_assoc]
        exact stripSign_digit d _ hd
  obtain ⟨tw, dw⟩ := takeWhile_digits ip (fracText fp ++ expNorm ex) hipd.1 hfh
  have hfrac : splitFrac (fracText fp ++ expNorm ex) = (fp, expNorm ex) := by
    by_cases hf : fp = []
    · simp only [fracText, hf, if_true, List.nil_append]
      exact splitFrac_other _ (fun c r h => (expNorm_head ex c r h).2)
    · have hd : Digits fp := by rcases hfp with h | h; exact absurd h hf; exact h
      obtain ⟨a, b⟩ := takeWhile_digits fp (expNorm ex) (allDigits_of hd) (fun c r h => (expNorm_head ex c r h).1)
      simp only [fracText, hf, if_false, List.cons_append, splitFrac, a, b]
  have hlen : (ip.length + fp.length == 0) = false := by
    have : ip.length ≠ 0 := by intro e; exact hipd.2 (List.length_eq_zero_iff.mp e)
    have : ip.length + fp.length ≠ 0 := by omega
    simpa using this
  unfold parseDec
  simp only [hsign, tw, dw, hfrac, hlen, Bool.false_eq_true, if_false]
  cases ex with
  | none => simp [expNorm, expVal, digitsVal_eq]
  | some p =>
    obtain ⟨e, sg, ep⟩ := p
    obtain ⟨_, hne, hdig⟩ := hex e sg ep rfl
    have hall : AllDigits ep := allDigits_of ⟨hne, hdig⟩
    have hall' : ep.all isDigit = true := List.all_eq_true.mpr hall
    have hemp : ep.isEmpty = false := by cases ep with | nil => exact absurd rfl hne | cons _ _ => rfl
    cases sg with
    | none =>
      cases ep with
      | nil => exact absurd rfl hne
      | cons d ds =>
        have hd : isDigit d = true := hall d (by simp)
        simp only [expNorm, List.nil_append, stripSign_digit d ds hd]
        simp [hall', expVal, digitsVal_eq]
    | some b =>
      cases b with
      | true => simp [expNorm, expVal, stripSign, hall', hemp, digitsVal_eq]
      | false => simp [expNorm, expVal, stripSign, hall', hemp, digitsVal_eq]

/-- a number lexeme of the grammar, followed by something that cannot continue it, is one
`tock_number` token carrying the converted decimal -/
theorem next_number {N} (ops : NumOps N) (t : Bytes) (d : Dec) (x : N) (y : Bytes)
    (h : Number t d) (hx : ops.ofDec d = some x) (hy : FollowOk y) : next ops (t ++ y) = (.num x, y) := by
  cases h with
  | mk neg ip fp ex hip hfp hex =>
    have hs := scanFloat_number neg ip fp ex y hip hfp hex hy
    have hp := parseDec_number neg ip fp ex hip hfp hex
    -- first byte: '-' or a digit
    have hfirst : ∃ c rest, minusText neg ++ ip ++ fracText fp ++ expText ex ++ y = c :: rest ∧ (c = 45 ∨ isDigit c = true) := by
      cases neg with
      | true => exact ⟨45, ip ++ fracText fp ++ expText ex ++ y, by simp [minusText], Or.inl rfl⟩
      | false =>
        rcases intPart_cases hip with rfl | ⟨d, ds, rfl, hd, _, _⟩
        · exact ⟨48, fracText fp ++ expText ex ++ y, by simp [minusText], Or.inr (by decide)⟩
        · exact ⟨d, ds ++ fracText fp ++ expText ex ++ y, by simp [minusText], Or.inr hd⟩
    obtain ⟨c, rest, hc, hcd⟩ := hfirst
    have hpn : parseNumber ops (c :: rest) = some (x, y) := by
      rw [← hc]; unfold parseNumber; rw [hs]; simp only; rw [hp]; simp [hx]
    simp only [next]
    rw [hc, nextAux_false_cons]
    have hnum : Gen.tokNumStart.contains c.toNat = true ∧ Gen.tokPunct.contains c.toNat = false ∧
        (Gen.tokBlank.contains c.toNat || c.toNat == Gen.tokNewline) = false ∧ (c.toNat == Gen.tokQuote) = false ∧
        Gen.tokKeywords.find? (fun k => k.1 == c.toNat) = none := by
      rcases hcd with rfl | hd
      · decide
      · revert hd; revert c; intro c; intro _ _
        have : ∀ c : UInt8, isDigit c = true → Gen.tokNumStart.contains c.toNat = true ∧ Gen.tokPunct.contains c.toNat = false ∧
            (Gen.tokBlank.contains c.toNat || c.toNat == Gen.tokNewline) = false ∧ (c.toNat == Gen.tokQuote) = false ∧
            Gen.tokKeywords.find? (fun k => k.1 == c.toNat) = none := by
          apply forall_uint8; decide +kernel
        exact this c
    simp only [hnum.1, hnum.2.1, hnum.2.2.1, hnum.2.2.2.1, hnum.2.2.2.2, hpn, if_true, if_false, Bool.false_eq_true]

end Cppcms.C11
