import Cppcms.Common
/-!
# C11 data types shared by model and specification

`json::value` as an inductive type, the exact decimal a number text denotes, the
signature of the external numeric conversions, and the representation of
`json::object = std::map<string_key,value>` (sorted association list).
-/
namespace Cppcms.C11
open Cppcms

/-! ## Values -/

/-- exact decimal denoted by an accepted number text: `(-1)^neg · mant · 10^exp` -/
structure Dec where
  neg : Bool
  mant : Nat
  exp : Int
deriving DecidableEq, Repr

/-- the external numeric conversions (libc `strtod` + range check; `num_put` `%.16g`) -/
structure NumOps (N : Type) where
  /-- `strtod` on the accepted text; `none` = ±HUGE_VAL (libstdc++ sets failbit) -/
  ofDec : Dec → Option N
  /-- `out << std::setprecision(digits10+1) << x` in the "C" locale -/
  print : N → Bytes

/-- `json::value`.  Objects are `std::map<string_key,value>`: association lists kept
sorted by `keyLt` (bytewise, unsigned) without duplicate keys. -/
inductive Value (N : Type) where
  | undef
  | null
  | bool (b : Bool)
  | num (x : N)
  | str (s : Bytes)
  | arr (items : List (Value N))
  | obj (ms : List (Bytes × Value N))

instance {N} : Inhabited (Value N) := ⟨.undef⟩

def ofNats (l : List Nat) : Bytes := l.map UInt8.ofNat

/-- bytewise (unsigned) lexicographic order of byte strings: the order the specification
assumes for object keys.  That `string_key::operator<` (translated in `Gen.keyLess`, used by
the model as `mapLt`) *is* this order is `Props.key_order_is_bytewise_lexicographic`. -/
def keyLt : Bytes → Bytes → Bool
  | _, [] => false
  | [], _ :: _ => true
  | a :: as, b :: bs => if a.toNat < b.toNat then true else if b.toNat < a.toNat then false else keyLt as bs

def hasKey {N} (k : Bytes) : List (Bytes × Value N) → Bool
  | [] => false
  | (k', _) :: rest => k == k' || hasKey k rest

/-- `std::map::insert` position (callers check `hasKey` first; an equal key is replaced,
which the parser never reaches). -/
def insertKV {N} (k : Bytes) (v : Value N) : List (Bytes × Value N) → List (Bytes × Value N)
  | [] => [(k, v)]
  | (k', v') :: rest =>
    if k == k' then (k, v) :: rest
    else if keyLt k k' then (k, v) :: (k', v') :: rest
    else (k', v') :: insertKV k v rest

/-! ## IEEE 754 binary64 interchange format: fields of a bit pattern -/

def dblNeg (bits : Nat) : Bool := bits / 2 ^ 63 % 2 == 1
def dblExpField (bits : Nat) : Nat := bits / 2 ^ 52 % 2048
def dblFrac (bits : Nat) : Nat := bits % 2 ^ 52
/-- significand as an integer -/
def dblMant (bits : Nat) : Nat := if dblExpField bits = 0 then dblFrac bits else dblFrac bits + 2 ^ 52
/-- exponent of the last significand bit -/
def dblExp2 (bits : Nat) : Int := if dblExpField bits = 0 then -1074 else (dblExpField bits : Int) - 1075


end Cppcms.C11
