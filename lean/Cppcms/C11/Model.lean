import Cppcms.Common
import Cppcms.C11.Gen
import Cppcms.C11.Types
/-!
# C11 model: `src/json.cpp` — tokenizer, `parse_stream`, writer

Executable transcription of

* `tockenizer::next` / `check` / `parse_string` / `read_4_digits` / `parse_number`
  (`nextAux`, `strLoop`, `parseString`, `scanFloat` + `parseDec`),
* `parse_stream`'s explicit-stack state machine (`step`, `run`, `parseStream`) and
  `value::load` (`load`),
* `generic_append`, `pad`, `indent`, `value::write_value` (`escapeString`, `indent`,
  `writeValue`).

Constants, tables and byte conditions come from `Gen.lean` (regenerated from the C++
source on every run); control flow is written here by hand and tied to the code by the
correspondence run.

Numbers.  `is_ >> real` goes through libstdc++'s `num_get<char>::do_get(double&)`:
`_M_extract_float` decides which characters are consumed and accumulates them in a
narrow string (`scanFloat`, transcribed from `bits/locale_facets.tcc`, "C"-locale branch,
the tokenizer imbues `std::locale::classic()`); `__convert_to_v` then calls `strtod` on
that string and sets failbit when `strtod` does not consume all of it (`parseDec` = none)
or returns ±HUGE_VAL.  The numeric conversions themselves are a **parameter**
(`NumOps`): `ofDec` maps the exact decimal `(-1)^neg · mant · 10^exp` to a number or
reports overflow, `print` is `operator<<(double)` with precision `digits10+1` in the C
locale.  The driver instantiates `NumOps` with `F64.ops`, an exact, correctly rounded
binary64 implementation (below), which the correspondence run compares bit-for-bit with
glibc/libstdc++.
-/
namespace Cppcms.C11
open Cppcms

/-! ## `json::object = std::map<string_key,value>`: order and equivalence of keys as the code compares them -/

/-- `string_key::operator<`, as translated from `cppcms/string_key.h` (`Gen.keyLess`) -/
def mapLt (a b : Bytes) : Bool := Gen.keyLess (a.map UInt8.toNat) (b.map UInt8.toNat)

/-- the equivalence `std::map` derives from its comparator: neither key is less than the other -/
def mapEquiv (a b : Bytes) : Bool := !mapLt a b && !mapLt b a

/-- `obj.find(k) != obj.end()` -/
def mapHasKey {N} (k : Bytes) : List (Bytes × Value N) → Bool
  | [] => false
  | (k', _) :: rest => mapEquiv k k' || mapHasKey k rest

/-- the entry for `k` set to `v` (`obj[k] = v`; `insert` when the key is absent) -/
def mapInsert {N} (k : Bytes) (v : Value N) : List (Bytes × Value N) → List (Bytes × Value N)
  | [] => [(k, v)]
  | (k', v') :: rest =>
    if mapEquiv k k' then (k', v) :: rest
    else if mapLt k k' then (k, v) :: (k', v') :: rest
    else (k', v') :: mapInsert k v rest

/-! ## UTF-8 validation (`utf8::validate`, modelled as the RFC 3629 table) -/

def isTail (b : UInt8) : Bool := 0x80 ≤ b.toNat && b.toNat ≤ 0xBF

/-- RFC 3629 §4: UTF8-1 / UTF8-2 / UTF8-3 / UTF8-4 -/
def utf8Valid : Bytes → Bool
  | [] => true
  | b0 :: rest =>
    if b0.toNat < 0x80 then utf8Valid rest
    else if 0xC2 ≤ b0.toNat && b0.toNat ≤ 0xDF then
      match rest with
      | b1 :: r => isTail b1 && utf8Valid r
      | _ => false
    else if 0xE0 ≤ b0.toNat && b0.toNat ≤ 0xEF then
      match rest with
      | b1 :: b2 :: r =>
        (if b0.toNat == 0xE0 then 0xA0 ≤ b1.toNat && b1.toNat ≤ 0xBF
         else if b0.toNat == 0xED then 0x80 ≤ b1.toNat && b1.toNat ≤ 0x9F
         else isTail b1) && isTail b2 && utf8Valid r
      | _ => false
    else if 0xF0 ≤ b0.toNat && b0.toNat ≤ 0xF4 then
      match rest with
      | b1 :: b2 :: b3 :: r =>
        (if b0.toNat == 0xF0 then 0x90 ≤ b1.toNat && b1.toNat ≤ 0xBF
         else if b0.toNat == 0xF4 then 0x80 ≤ b1.toNat && b1.toNat ≤ 0x8F
         else isTail b1) && isTail b2 && isTail b3 && utf8Valid r
      | _ => false
    else false

/-! ## Tokenizer -/

inductive Tok (N : Type) where
  | punct (c : UInt8)
  | str (s : Bytes)
  | num (x : N)
  | tru
  | fls
  | nul
  | eof
  | err

/-- `tock_eof` / `tock_err`: nothing is read after them -/
def Tok.isStop {N} : Tok N → Bool
  | .eof => true
  | .err => true
  | _ => false

/-- value of a hex digit as `sscanf("%x")` reads it -/
def hexVal (c : UInt8) : Nat :=
  let n := c.toNat
  if 48 ≤ n ∧ n ≤ 57 then n - 48
  else if 97 ≤ n ∧ n ≤ 102 then n - 87
  else if 65 ≤ n ∧ n ≤ 70 then n - 55
  else 0

def hex4 (h1 h2 h3 h4 : UInt8) : Nat := ((hexVal h1 * 16 + hexVal h2) * 16 + hexVal h3) * 16 + hexVal h4

/-- `tockenizer::append(uint32_t)` -/
def utf8Enc (x : Nat) : Bytes := ofNats (Gen.utf8Encode x)

def pushBytes (pre : Bytes) : Option (Bytes × Bytes) → Option (Bytes × Bytes)
  | some (s, r) => some (pre ++ s, r)
  | none => none

/-- The `for(;;)` loop of `parse_string` after the opening quote.  `pend` is
`second_surragate_expected`/`first_surragate`.  Returns the decoded bytes and the input
after the closing quote. -/
def strLoop : Option Nat → Bytes → Option (Bytes × Bytes)
  | _, [] => none
  | pend, c :: rest =>
    if pend.isSome && c != 92 then none
    else if Gen.strCtl c.toNat then none
    else if c == 34 then some ([], rest)
    else if c == 92 then
      match rest with
      | [] => none
      | e :: rest1 =>
        if pend.isSome && e.toNat != Gen.strEscU then none
        else if Gen.strEscSelf.contains e.toNat then pushBytes [e] (strLoop none rest1)
        else match Gen.strEscMap.lookup e.toNat with
          | some b => pushBytes [UInt8.ofNat b] (strLoop none rest1)
          | none =>
            if e.toNat == Gen.strEscU then
              match rest1 with
              | h1 :: h2 :: h3 :: h4 :: rest2 =>
                if Gen.hexDigitOk h1.toNat && Gen.hexDigitOk h2.toNat && Gen.hexDigitOk h3.toNat && Gen.hexDigitOk h4.toNat then
                  let x := hex4 h1 h2 h3 h4
                  match pend with
                  | some hi =>
                    if Gen.isSecondSurrogate x then pushBytes (utf8Enc (Gen.combineSurrogate hi x)) (strLoop none rest2)
                    else none
                  | none =>
                    if Gen.isFirstSurrogate x then strLoop (some x) rest2
                    else pushBytes (utf8Enc x) (strLoop none rest2)
                else none
              | _ => none
            else none
    else pushBytes [c] (strLoop pend rest)

/-- `parse_string` (input positioned after the opening quote) -/
def parseString (inp : Bytes) : Option (Bytes × Bytes) :=
  match strLoop none inp with
  | some (s, r) => if utf8Valid s then some (s, r) else none
  | none => none

def isDigit (c : UInt8) : Bool := 48 ≤ c.toNat && c.toNat ≤ 57

def consTo (c : UInt8) (p : Bytes × Bytes) : Bytes × Bytes := (c :: p.1, p.2)

/-- main loop of `_M_extract_float` ("C" locale): flags found_mantissa / found_dec / found_sci.
Returns (characters appended to `__xtrc`, unconsumed input). -/
def scanMain : Bool → Bool → Bool → Bytes → Bytes × Bytes
  | _, _, _, [] => ([], [])
  | fm, fd, fs, c :: rest =>
    if isDigit c then consTo c (scanMain true fd fs rest)
    else if c == 46 && !fd && !fs then consTo 46 (scanMain fm true fs rest)
    else if (c == 101 || c == 69) && !fs && fm then
      match rest with
      | [] => ([101], [])
      | s :: rest1 =>
        if s == 43 || s == 45 then consTo 101 (consTo s (scanMain fm fd true rest1))
        -- `continue` without advancing: the loop re-examines `s` with found_sci set, where only a
        -- digit can still be consumed (the '.' and 'e' branches are disabled)
        else if isDigit s then consTo 101 (consTo s (scanMain true fd true rest1))
        else ([101], s :: rest1)
    else ([], c :: rest)

/-- leading zeros: only the first one is stored -/
def scanZeros : Bool → Bytes → Bool × Bytes × Bytes
  | fm, [] => (fm, [], [])
  | fm, c :: rest =>
    if c == 48 then
      ((scanZeros true rest).1, (if fm then (scanZeros true rest).2.1 else 48 :: (scanZeros true rest).2.1), (scanZeros true rest).2.2)
    else (fm, [], c :: rest)

/-- optional sign of `_M_extract_float` -/
def scanSign (inp : Bytes) : Bytes × Bytes :=
  match inp with
  | c :: rest => if c == 43 || c == 45 then ([c], rest) else ([], inp)
  | [] => ([], [])

/-- `_M_extract_float`: (`__xtrc`, unconsumed input) -/
def scanFloat (inp : Bytes) : Bytes × Bytes :=
  let s := scanSign inp
  let z := scanZeros false s.2
  let m := scanMain z.1 false false z.2.2
  (s.1 ++ z.2.1 ++ m.1, m.2)

def digitsVal (ds : Bytes) : Nat := ds.foldl (fun a d => a * 10 + (d.toNat - 48)) 0

/-- optional sign of `strtod` -/
def stripSign (x : Bytes) : Bool × Bytes :=
  match x with
  | 45 :: r => (true, r)
  | 43 :: r => (false, r)
  | r => (false, r)

/-- optional `.digits` of `strtod`: (fraction digits, rest) -/
def splitFrac (x : Bytes) : Bytes × Bytes :=
  match x with
  | 46 :: r => (r.takeWhile isDigit, r.dropWhile isDigit)
  | r => ([], r)

/-- `strtod` on a string over `[+-0-9.e]`: `none` when it would not consume the whole
string (libstdc++ then sets failbit), otherwise the exact decimal. -/
def parseDec (x : Bytes) : Option Dec :=
  let s := stripSign x
  let ip := s.2.takeWhile isDigit
  let f := splitFrac (s.2.dropWhile isDigit)
  if ip.length + f.1.length == 0 then none
  else
    match f.2 with
    | [] => some ⟨s.1, digitsVal (ip ++ f.1), - (f.1.length : Int)⟩
    | 101 :: r =>
      let es := stripSign r
      if es.2.isEmpty || !es.2.all isDigit then none
      else
        some ⟨s.1, digitsVal (ip ++ f.1),
          (if es.1 then - (digitsVal es.2 : Int) else (digitsVal es.2 : Int)) - (f.1.length : Int)⟩
    | _ => none

/-- `parse_number`: `is_ >> real; return !is_.fail()` -/
def parseNumber {N} (ops : NumOps N) (inp : Bytes) : Option (N × Bytes) :=
  match (parseDec (scanFloat inp).1).bind ops.ofDec with
  | some v => some (v, (scanFloat inp).2)
  | none => none

def kwTok {N} : Nat → Tok N
  | 0 => .tru
  | 1 => .fls
  | _ => .nul

/-- `tockenizer::next`; the flag is "inside a `//` comment".  Returns the token and the
unconsumed input (irrelevant after `err`). -/
def nextAux {N} (ops : NumOps N) : Bool → Bytes → Tok N × Bytes
  | _, [] => (.eof, [])
  | true, c :: rest => if c.toNat == Gen.tokNewline then nextAux ops false rest else nextAux ops true rest
  | false, c :: rest =>
    let n := c.toNat
    if Gen.tokPunct.contains n then (.punct c, rest)
    else if Gen.tokBlank.contains n || n == Gen.tokNewline then nextAux ops false rest
    else if n == Gen.tokQuote then
      match parseString rest with
      | some (s, r) => (.str s, r)
      | none => (.err, [])
    else
      match Gen.tokKeywords.find? (fun k => k.1 == n) with
      | some (_, kw, code) =>
        if (rest.take kw.length).map UInt8.toNat == kw then (kwTok code, rest.drop kw.length) else (.err, [])
      | none =>
        if Gen.tokNumStart.contains n then
          match parseNumber ops (c :: rest) with
          | some (v, r) => (.num v, r)
          | none => (.err, [])
        else if n == Gen.tokSlash then
          match rest with
          | c2 :: r2 => if c2.toNat == Gen.tokSlash then nextAux ops true r2 else (.err, [])
          | [] => (.err, [])
        else (.err, [])

def next {N} (ops : NumOps N) (inp : Bytes) : Tok N × Bytes := nextAux ops false inp

/-- the token stream `parse_stream` can observe: tokens with the input position after each,
up to and including the first `eof`/`err`.  Fuel = input length + 1 (every other token
consumes at least one byte, `Lemmas.next_length`). -/
def tokensAux {N} (ops : NumOps N) : Nat → Bytes → List (Tok N × Bytes)
  | 0, _ => []
  | fuel + 1, inp =>
    if (next ops inp).1.isStop then [next ops inp]
    else next ops inp :: tokensAux ops fuel (next ops inp).2

def tokens {N} (ops : NumOps N) (inp : Bytes) : List (Tok N × Bytes) := tokensAux ops (inp.length + 1) inp

/-! ## `parse_stream` -/

inductive St where
  | init            -- st_object_or_array_or_value_expected
  | objKey          -- st_object_key_or_close_expected
  | objColon        -- st_object_colon_expected
  | objValue        -- st_object_value_expected
  | objCloseComma   -- st_object_close_or_comma_expected
  | arrValue        -- st_array_value_or_close_expected
  | arrCloseComma   -- st_array_close_or_comma_expected
  | error
  | done
deriving DecidableEq, Repr

/-- the container a stack entry points to (array items newest first); `undef` is the
not-yet-assigned root `result`. -/
inductive Cont (N : Type) where
  | undef
  | arr (ritems : List (Value N))
  | obj (ms : List (Bytes × Value N))

/-- one entry of `std::stack<std::pair<state_type,value*>>`.  The C++ entry points into
the tree under construction; here the entry owns the container it points to and `key`
remembers under which key of the parent object it was inserted. -/
structure Frame (N : Type) where
  ret : St
  key : Bytes
  cont : Cont N

structure Cfg (N : Type) where
  st : St
  key : Bytes
  stack : List (Frame N)
  result : Value N

def Cont.close {N} : Cont N → Value N
  | .undef => .undef
  | .arr r => .arr r.reverse
  | .obj ms => .obj ms

/-- store `v` into the container: `push_back` / map slot `k` -/
def Cont.plug {N} (v : Value N) (k : Bytes) : Cont N → Cont N
  | .undef => .undef
  | .arr r => .arr (v :: r)
  | .obj ms => .obj (mapInsert k v ms)

def Tok.scalar? {N} : Tok N → Option (Value N)
  | .str s => some (.str s)
  | .num x => some (.num x)
  | .tru => some (.bool true)
  | .fls => some (.bool false)
  | .nul => some .null
  | _ => none

def Cfg.fail {N} (c : Cfg N) : Cfg N := { c with st := .error }

/-- `state=stack.top().first; stack.pop();` — the container of the popped entry is complete
and already sits in its parent (here: is stored into the parent now). -/
def Cfg.pop {N} (c : Cfg N) : Cfg N :=
  match c.stack with
  | [] => c.fail
  | [f] => { c with st := f.ret, stack := [], result := f.cont.close }
  | f :: p :: more => { c with st := f.ret, stack := { p with cont := p.cont.plug f.cont.close f.key } :: more }

/-- a scalar stored into the container on top of the stack -/
def Cfg.put {N} (c : Cfg N) (v : Value N) (st' : St) : Cfg N :=
  match c.stack with
  | [] => c.fail
  | f :: more => { c with st := st', stack := { f with cont := f.cont.plug v c.key } :: more }

def Cfg.push {N} (c : Cfg N) (f : Frame N) (st' : St) : Cfg N :=
  { c with st := st', stack := f :: c.stack }

/-- one iteration of the `while` loop of `parse_stream` on token `t` -/
def step {N} (c : Cfg N) (t : Tok N) : Cfg N :=
  match c.st with
  | .init =>
    match c.stack with
    | [] => c.fail
    | f :: more =>
      match t with
      | .punct 91 => { c with st := .arrValue, stack := { f with cont := .arr [] } :: more }
      | .punct 123 => { c with st := .objKey, stack := { f with cont := .obj [] } :: more }
      | _ =>
        match t.scalar? with
        | some v => { c with st := f.ret, stack := more, result := v }
        | none => c.fail
  | .objKey =>
    match t with
    | .punct 125 => c.pop
    | .str s => { c with key := s, st := .objColon }
    | _ => c.fail
  | .objColon =>
    match t with
    | .punct 58 => { c with st := .objValue }
    | _ => c.fail
  | .objValue =>
    match c.stack with
    | [] => c.fail
    | f :: _ =>
      match f.cont with
      | .obj ms =>
        if mapHasKey c.key ms then c.fail
        else
          match t with
          | .punct 91 => c.push ⟨.objCloseComma, c.key, .arr []⟩ .arrValue
          | .punct 123 => c.push ⟨.objCloseComma, c.key, .obj []⟩ .objKey
          | _ =>
            match t.scalar? with
            | some v => c.put v .objCloseComma
            | none => c.fail
      | _ => c.fail
  | .objCloseComma =>
    match t with
    | .punct 44 => { c with st := .objKey }
    | .punct 125 => c.pop
    | _ => c.fail
  | .arrValue =>
    match t with
    | .punct 93 => c.pop
    | .punct 91 => c.push ⟨.arrCloseComma, [], .arr []⟩ .arrValue
    | .punct 123 => c.push ⟨.arrCloseComma, [], .obj []⟩ .objKey
    | _ =>
      match t.scalar? with
      | some v => c.put v .arrCloseComma
      | none => c.fail
  | .arrCloseComma =>
    match t with
    | .punct 93 => c.pop
    | .punct 44 => { c with st := .arrValue }
    | _ => c.fail
  | .error => c
  | .done => c

/-- the `while` guard -/
def Cfg.running {N} (c : Cfg N) : Bool :=
  !c.stack.isEmpty && c.st != .error && c.st != .done && Gen.depthGuard c.stack.length

/-- the `while` loop: consumes tokens while the guard holds.  Returns the final
configuration, the input position reached and the tokens not consumed. -/
def run {N} (c : Cfg N) (pos : Bytes) : List (Tok N × Bytes) → Cfg N × Bytes × List (Tok N × Bytes)
  | [] => (c, pos, [])
  | (t, r) :: more => if c.running then run (step c t) r more else (c, pos, (t, r) :: more)

def Cfg.start {N} : Cfg N := ⟨.init, [], [⟨.done, [], .undef⟩], .undef⟩

/-- `parse_stream(in,out,force_eof,…)`: `some (result, unconsumed input)` = returns true
(and `out.swap(result)`), `none` = returns false. -/
def parseStream {N} (ops : NumOps N) (full : Bool) (inp : Bytes) : Option (Value N × Bytes) :=
  let (c, pos, more) := run Cfg.start inp (tokens ops inp)
  if c.st == .done then
    if full then
      match more with
      | (.eof, r) :: _ => some (c.result, r)
      | _ => none
    else some (c.result, pos)
  else none

/-- whole-document parse (`value::load(…, full=true)`) -/
def parse {N} (ops : NumOps N) (inp : Bytes) : Option (Value N) :=
  (parseStream ops true inp).map (·.1)

/-- `value::load`: returns (success, new content of `*this`) -/
def load {N} (ops : NumOps N) (target : Value N) (full : Bool) (inp : Bytes) : Bool × Value N :=
  match parseStream ops full inp with
  | some (v, _) => (true, v)
  | none => (false, target)

/-! ## Writer -/

/-- `generic_append`, per input byte -/
def escByte (c : UInt8) : Bytes :=
  match Gen.writerEscapes.lookup c.toNat with
  | some e => ofNats e
  | none =>
    if Gen.writerCtl c.toNat then ofNats (Gen.writerUPrefix ++ [Gen.writerNib0 c.toNat, Gen.writerNib1 c.toNat])
    else [c]

/-- `to_json(str,out)` -/
def escapeString (s : Bytes) : Bytes := 34 :: (s.flatMap escByte ++ [34])

def pad (tb : Nat) : Bytes := List.replicate tb (UInt8.ofNat Gen.padByte)

/-- `indent(out,c,tabs)`: `tabs = none` is the compact form (`tabs < 0`).
Returns what is written and the updated `tabs`. -/
def indent (c : UInt8) : Option Nat → Bytes × Option Nat
  | none => ([c], none)
  | some t =>
    if c == 123 || c == 91 then (c :: 10 :: pad (t + 1), some (t + 1))
    else if c == 44 then (c :: 10 :: pad t, some t)
    else if c == 58 then (ofNats Gen.colonReadable, some t)
    else if c == 125 || c == 93 then (10 :: (pad (t - 1) ++ c :: 10 :: pad (t - 1)), some (t - 1))
    else ([], some t)

mutual
/-- `value::write_value(out,tabs)`; `none` = throws `bad_value_cast` (undefined member) -/
def writeValue {N} (ops : NumOps N) (tabs : Option Nat) : Value N → Option Bytes
  | .undef => none
  | .null => some (ofNats Gen.kwNull)
  | .bool b => some (ofNats (if b then Gen.kwTrue else Gen.kwFalse))
  | .num x => some (ops.print x)
  | .str s => some (escapeString s)
  | .arr items =>
    let o := indent 91 tabs
    match writeItems ops o.2 items with
    | some body => some (o.1 ++ body ++ (indent 93 o.2).1)
    | none => none
  | .obj ms =>
    let o := indent 123 tabs
    match writeMembers ops o.2 ms with
    | some body => some (o.1 ++ body ++ (indent 125 o.2).1)
    | none => none
def writeItems {N} (ops : NumOps N) (tabs : Option Nat) : List (Value N) → Option Bytes
  | [] => some []
  | v :: rest =>
    match writeValue ops tabs v, writeItems ops tabs rest with
    | some a, some b => some (a ++ (if rest.isEmpty then [] else (indent 44 tabs).1) ++ b)
    | _, _ => none
def writeMembers {N} (ops : NumOps N) (tabs : Option Nat) : List (Bytes × Value N) → Option Bytes
  | [] => some []
  | (k, v) :: rest =>
    match writeValue ops tabs v, writeMembers ops tabs rest with
    | some a, some b =>
      some (escapeString k ++ (indent 58 tabs).1 ++ a ++ (if rest.isEmpty then [] else (indent 44 tabs).1) ++ b)
    | _, _ => none
end

/-- `value::save(how)`: `readable = true` starts with `tabs = 0` -/
def save {N} (ops : NumOps N) (readable : Bool) (v : Value N) : Option Bytes :=
  writeValue ops (if readable then some 0 else none) v

/-- the `numpunct<char>` facet of the locale of the stream a value is written to -/
structure StreamLocale where
  decimalPoint : UInt8
  thousandsSep : UInt8
  grouping : List Nat
deriving DecidableEq, Repr

def StreamLocale.classic : StreamLocale := ⟨46, 44, []⟩

/-- the locale in force while `write_value` runs: `value::write` imbues `Gen.writeImbue`
(`"C"`) on the stream before the write and restores the original afterwards — on the
unmodified tree unconditionally (`Gen.writeImbueUnconditional`, both read from the source). -/
def effectiveLocale (loc : StreamLocale) : StreamLocale :=
  if Gen.writeImbueUnconditional && Gen.writeImbue == [67] then StreamLocale.classic else loc

/-- `value::write(out,tabs)` / `save(ostream&,how)` / `operator<<` on a stream whose locale is
`loc`.  The number text of the model (`NumOps.print`) is `operator<<(double)` under the
classic locale, so the model speaks about the write only when the locale in force is the
classic one; `Props.save_locale_independent` shows that this is the case for **every**
stream locale. -/
def saveTo {N} (ops : NumOps N) (loc : StreamLocale) (readable : Bool) (v : Value N) : Option Bytes :=
  if effectiveLocale loc = StreamLocale.classic then save ops readable v else none

/-! ## Exact binary64 arithmetic: the driver's `NumOps` instance

A double is its 64-bit pattern (`Nat`).  `ofDec` is round-to-nearest-even of the exact
rational (what a correctly rounding `strtod` returns); `print` is `printf("%.*g", P, x)`
with exact decimal expansion and round-half-even (glibc).  No `Float` is used.
-/
namespace F64

def roundDiv (num den : Nat) : Nat :=
  let quo := num / den
  let rem := num % den
  if 2 * rem > den || (2 * rem == den && quo % 2 == 1) then quo + 1 else quo

/-- `p/q ≥ 2^E` -/
def geTwoPow (p q : Nat) (E : Int) : Bool :=
  if E ≥ 0 then decide (p ≥ q <<< E.toNat) else decide (p <<< (-E).toNat ≥ q)

/-- magnitude bits of the double nearest to `p/q` (`p,q > 0`); `none` = overflow -/
def ofRat (p q : Nat) : Option Nat :=
  let e : Int := (Nat.log2 p : Int) - (Nat.log2 q : Int)
  let E : Int := if geTwoPow p q e then e else e - 1          -- 2^E ≤ p/q < 2^(E+1)
  let e2 : Int := max (E - 52) (-1074)
  let m := if e2 ≥ 0 then roundDiv p (q <<< e2.toNat) else roundDiv (p <<< (-e2).toNat) q
  let m' := if m == 2 ^ 53 then 2 ^ 52 else m
  let e2' : Int := if m == 2 ^ 53 then e2 + 1 else e2
  if m' < 2 ^ 52 then some m'
  else
    let be : Int := e2' + 1075
    if be ≥ 2047 then none else some (be.toNat * 2 ^ 52 + (m' - 2 ^ 52))

def signBit (neg : Bool) : Nat := if neg then 2 ^ 63 else 0

def numDigits (n : Nat) : Nat := (Nat.toDigits 10 n).length

def ofDec (d : Dec) : Option Nat :=
  if d.mant == 0 then some (signBit d.neg)
  else
    let nd : Int := numDigits d.mant
    if d.exp + nd > 310 then none
    else if d.exp + nd < -330 then some (signBit d.neg)
    else
      let p := if d.exp ≥ 0 then d.mant * 10 ^ d.exp.toNat else d.mant
      let q := if d.exp ≥ 0 then 1 else 10 ^ (-d.exp).toNat
      match ofRat p q with
      | some b => some (signBit d.neg + b)
      | none => none

/-- `p/q ≥ 10^X` -/
def geTenPow (p q : Nat) (X : Int) : Bool :=
  if X ≥ 0 then decide (p ≥ q * 10 ^ X.toNat) else decide (p * 10 ^ (-X).toNat ≥ q)

def adjDown (p q : Nat) : Nat → Int → Int
  | 0, x => x
  | f + 1, x => if geTenPow p q x then x else adjDown p q f (x - 1)

def adjUp (p q : Nat) : Nat → Int → Int
  | 0, x => x
  | f + 1, x => if geTenPow p q (x + 1) then adjUp p q f (x + 1) else x

def stripZeros (ds : List Nat) : List Nat := (ds.reverse.dropWhile (· == 0)).reverse

def digitChars (ds : List Nat) : Bytes := ds.map fun d => UInt8.ofNat (48 + d)

/-- the P decimal digits of n, most significant first (n < 10^P) -/
def digitsOf (P n : Nat) : List Nat := (List.range P).map fun i => n / 10 ^ (P - 1 - i) % 10

def natChars (n : Nat) : Bytes := (Nat.toDigits 10 n).map fun c => UInt8.ofNat c.toNat

/-- `%.{P}g` of the positive rational `p/q` -/
def fmtG (P p q : Nat) : Bytes :=
  let x0 : Int := ((Nat.log2 p : Int) - (Nat.log2 q : Int)) * 30103 / 100000
  let X0 := adjUp p q 8 (adjDown p q 8 x0)                 -- 10^X0 ≤ p/q < 10^(X0+1)
  let sc : Int := X0 - (P - 1 : Nat)
  let D0 := if sc ≥ 0 then roundDiv p (q * 10 ^ sc.toNat) else roundDiv (p * 10 ^ (-sc).toNat) q
  let D := if D0 == 10 ^ P then 10 ^ (P - 1) else D0
  let X : Int := if D0 == 10 ^ P then X0 + 1 else X0
  let all := digitsOf P D
  if X < -4 || X ≥ (P : Int) then
    let ds := stripZeros all
    let mant := match ds with
      | [] => [48]
      | [d] => digitChars [d]
      | d :: more => digitChars [d] ++ 46 :: digitChars more
    let ax := X.natAbs
    mant ++ [101, (if X < 0 then 45 else 43)] ++ (if ax < 10 then 48 :: natChars ax else natChars ax)
  else if X ≥ 0 then
    let ip := all.take (X.toNat + 1)
    let fp := stripZeros (all.drop (X.toNat + 1))
    digitChars ip ++ (if fp.isEmpty then [] else 46 :: digitChars fp)
  else
    let ds := stripZeros all
    [48, 46] ++ List.replicate ((-X).toNat - 1) 48 ++ digitChars ds

def print (bits : Nat) : Bytes :=
  let neg := bits / 2 ^ 63 % 2 == 1
  let be : Nat := bits / 2 ^ 52 % 2048
  let frac : Nat := bits % 2 ^ 52
  let sign : Bytes := if neg then [45] else []
  if be == 2047 then sign ++ (if frac == 0 then [105, 110, 102] else [110, 97, 110])
  else if be == 0 && frac == 0 then sign ++ [48]
  else
    let m := if be == 0 then frac else frac + 2 ^ 52
    let e2 : Int := if be == 0 then -1074 else (be : Int) - 1075
    let p := if e2 ≥ 0 then m <<< e2.toNat else m
    let q : Nat := if e2 ≥ 0 then 1 else 1 <<< (-e2).toNat
    sign ++ fmtG Gen.writerPrecision p q

def ops : NumOps Nat := ⟨ofDec, print⟩

def isFinite (bits : Nat) : Bool := bits / 2 ^ 52 % 2048 != 2047

/-- `(-1)^neg · m · 2^e2` if that is an integer -/
def intOf (neg : Bool) (m : Nat) (e2 : Int) : Option Int :=
  if e2 ≥ 0 then some (if neg then -((m * 2 ^ e2.toNat : Nat) : Int) else ((m * 2 ^ e2.toNat : Nat) : Int))
  else if m % 2 ^ (-e2).toNat == 0 then
    some (if neg then -((m / 2 ^ (-e2).toNat : Nat) : Int) else ((m / 2 ^ (-e2).toNat : Nat) : Int))
  else none

/-- exact integer value of a finite double, if it is an integer -/
def toInt? (bits : Nat) : Option Int :=
  if dblExpField bits = 2047 then none else intOf (dblNeg bits) (dblMant bits) (dblExp2 bits)

end F64

/-- `traits<integer type>::get`: `static_cast` + compare-back, for a type with range
`[lo, hi]`: the exact integer or `none` (= throws `bad_value_cast`).  Out-of-range
casts are undefined behaviour in C++; the claim modelled is "throws". -/
def getInt (lo hi : Int) (bits : Nat) : Option Int :=
  match F64.toInt? bits with
  | some n => if lo ≤ n && n ≤ hi then some n else none
  | none => none

end Cppcms.C11
