import Cppcms.C11.Writer
/-! Helper lemmas for C11, part 9: the depth bound is exact; `mapNum` bookkeeping. -/
namespace Cppcms.C11
open Cppcms Spec

/-- `n` nested empty arrays: `[[…[]…]]` -/
def nestText (n : Nat) : Bytes := List.replicate n 91 ++ List.replicate n 93

def nestVal {N} : Nat → Value N
  | 0 => .arr []
  | n + 1 => .arr [nestVal n]

theorem nestText_succ (n : Nat) : nestText (n + 1) = 91 :: (nestText n ++ [93]) := by
  simp [nestText, List.replicate_succ, List.replicate_succ']
  rw [← List.replicate_succ', List.replicate_succ]

theorem depth_nestVal {N} (n : Nat) : depth (nestVal n : Value N) = n + 1 := by
  induction n with
  | zero => simp [nestVal, depth, depthL]
  | succ n ih => simp [nestVal, depth, depthL, ih]

theorem val_nest {N} (ops : NumOps N) (n : Nat) : Val ops (nestText (n + 1)) (nestVal n) := by
  induction n with
  | zero => exact Val.arr0 [] ws_nil
  | succ n ih =>
    rw [nestText_succ]
    have := Val.arr [] (nestText (n + 1)) [] [nestVal n] ws_nil ws_nil (Elems.one _ _ ih)
    simpa [nestVal] using this

/-- the entry `parse_stream` pushes for a nested array inside an array -/
def arrFrame {N} : Frame N := ⟨.arrCloseComma, [], .arr []⟩

theorem runC_pushes {N} (ops : NumOps N) (j : Nat) : ∀ (S : List (Frame N)) (f : Frame N) (res : Value N) (z : Bytes),
    S.length + 1 + j ≤ 513 →
    runC ⟨.arrValue, [], f :: S, res⟩ (tokens ops (List.replicate j 91 ++ z)) =
      runC ⟨.arrValue, [], List.replicate j arrFrame ++ f :: S, res⟩ (tokens ops z) := by
  induction j with
  | zero => intro S f res z _; simp
  | succ j ih =>
    intro S f res z h
    simp only [List.replicate_succ, List.cons_append]
    rw [tokens_punct ops 91 _ (by simp), runC_step _ _ _ _ (running_of _ _ _ _ _ (by simp) (by simp) (by omega))]
    have : step (⟨.arrValue, [], f :: S, res⟩ : Cfg N) (.punct 91) = ⟨.arrValue, [], arrFrame :: f :: S, res⟩ := by
      simp [step, Cfg.push, arrFrame]
    rw [this, ih (f :: S) arrFrame res z (by simp; omega)]
    have e : List.replicate j (arrFrame : Frame N) ++ arrFrame :: f :: S = arrFrame :: (List.replicate j arrFrame ++ f :: S) := by
      rw [show arrFrame :: (List.replicate j arrFrame ++ f :: S) = List.replicate (j + 1) arrFrame ++ f :: S by simp [List.replicate_succ]]
      rw [List.replicate_succ']; simp
    rw [e]

theorem not_running_of_len {N} (c : Cfg N) (h : c.stack.length = 513) : c.running = false := by
  simp [Cfg.running, h, Gen.depthGuard, Gen.jsonMaxDepth]

/-- 513 opening brackets: the loop guard stops the machine in a state that is not `st_done` -/
theorem parse_too_deep {N} (ops : NumOps N) (full : Bool) (n : Nat) (hn : 513 ≤ n) (z : Bytes) :
    parseStream ops full (List.replicate n 91 ++ z) = none := by
  obtain ⟨m, rfl⟩ : ∃ m, n = 513 + m := ⟨n - 513, by omega⟩
  have e : List.replicate (513 + m) (91 : UInt8) ++ z = 91 :: (List.replicate 512 91 ++ (List.replicate m 91 ++ z)) := by
    rw [show 513 + m = 1 + (512 + m) by omega, ← List.replicate_append_replicate, ← List.replicate_append_replicate]
    simp only [List.replicate_one, List.append_assoc, List.cons_append, List.nil_append]
  unfold parseStream
  have hr := run_eq_runC (tokens ops (List.replicate (513 + m) 91 ++ z)) Cfg.start (List.replicate (513 + m) 91 ++ z)
  rw [e] at hr ⊢
  rw [tokens_punct ops 91 _ (by simp), runC_step _ _ _ _ start_running] at hr
  have hs : step (Cfg.start : Cfg N) (.punct 91) = ⟨.arrValue, [], [⟨.done, [], .arr []⟩], .undef⟩ := by
    simp [step, Cfg.start]
  rw [hs, runC_pushes ops 512 [] _ _ _ (by simp)] at hr
  have hstop : ∀ toks, runC (⟨.arrValue, [], List.replicate 512 arrFrame ++ [⟨.done, [], .arr []⟩], .undef⟩ : Cfg N) toks =
      (⟨.arrValue, [], List.replicate 512 arrFrame ++ [⟨.done, [], .arr []⟩], .undef⟩, toks) := by
    intro toks
    cases toks with
    | nil => rfl
    | cons p toks =>
      obtain ⟨t, r⟩ := p
      have : (⟨.arrValue, [], List.replicate 512 arrFrame ++ [⟨.done, [], .arr []⟩], .undef⟩ : Cfg N).running = false :=
        not_running_of_len _ (by simp only [List.length_append, List.length_replicate, List.length_cons, List.length_nil])
      simp only [runC, this, Bool.false_eq_true, if_false]
  rw [hstop] at hr
  rw [← tokens_punct ops 91 _ (by simp)] at hr
  rcases hrun : run Cfg.start (91 :: (List.replicate 512 91 ++ (List.replicate m 91 ++ z)))
      (tokens ops (91 :: (List.replicate 512 91 ++ (List.replicate m 91 ++ z)))) with ⟨c, pos, more⟩
  rw [hrun] at hr
  simp only at hr
  have : c.st = .arrValue := by rw [hr.1]
  simp [this]

theorem parse_empty {N} (ops : NumOps N) : parse ops [] = none := by
  have : tokens ops [] = [(.eof, [])] := tokens_stop ops [] .eof [] rfl rfl
  simp only [parse, parseStream, this, run, start_running, if_true]
  simp [step, Cfg.start, Tok.scalar?, Cfg.fail]

mutual
theorem depth_mapNum {N} (f : N → N) : ∀ v : Value N, depth (mapNum f v) = depth v
  | .undef => rfl
  | .null => rfl
  | .bool _ => rfl
  | .num _ => rfl
  | .str _ => rfl
  | .arr items => by simp only [mapNum, depth, depthL_mapNum f items]
  | .obj ms => by simp only [mapNum, depth, depthM_mapNum f ms]
theorem depthL_mapNum {N} (f : N → N) : ∀ l : List (Value N), depthL (mapNumL f l) = depthL l
  | [] => rfl
  | v :: rest => by simp only [mapNumL, depthL, depth_mapNum f v, depthL_mapNum f rest]
theorem depthM_mapNum {N} (f : N → N) : ∀ l : List (Bytes × Value N), depthM (mapNumM f l) = depthM l
  | [] => rfl
  | (_, v) :: rest => by simp only [mapNumM, depthM, depth_mapNum f v, depthM_mapNum f rest]
end

mutual
theorem forall_and {N} {P Q : Value N → Prop} : ∀ v : Value N, Forall P v → Forall Q v → Forall (fun v => P v ∧ Q v) v
  | .undef, h1, h2 => by simp only [Forall] at *; exact ⟨h1, h2⟩
  | .null, h1, h2 => by simp only [Forall] at *; exact ⟨h1, h2⟩
  | .bool _, h1, h2 => by simp only [Forall] at *; exact ⟨h1, h2⟩
  | .num _, h1, h2 => by simp only [Forall] at *; exact ⟨h1, h2⟩
  | .str _, h1, h2 => by simp only [Forall] at *; exact ⟨h1, h2⟩
  | .arr items, h1, h2 => by simp only [Forall] at *; exact ⟨⟨h1.1, h2.1⟩, forallL_and items h1.2 h2.2⟩
  | .obj ms, h1, h2 => by simp only [Forall] at *; exact ⟨⟨h1.1, h2.1⟩, forallM_and ms h1.2 h2.2⟩
theorem forallL_and {N} {P Q : Value N → Prop} : ∀ l : List (Value N), ForallL P l → ForallL Q l → ForallL (fun v => P v ∧ Q v) l
  | [], _, _ => by simp [ForallL]
  | v :: rest, h1, h2 => by simp only [ForallL] at *; exact ⟨forall_and v h1.1 h2.1, forallL_and rest h1.2 h2.2⟩
theorem forallM_and {N} {P Q : Value N → Prop} : ∀ l : List (Bytes × Value N), ForallM P l → ForallM Q l → ForallM (fun v => P v ∧ Q v) l
  | [], _, _ => by simp [ForallM]
  | (_, v) :: rest, h1, h2 => by simp only [ForallM] at *; exact ⟨forall_and v h1.1 h2.1, forallM_and rest h1.2 h2.2⟩
end

/-- after one trip every number is a fixed point of `rt` (given `NumIdem`) -/
def FixNode {N} (fin : N → Prop) (rt : N → N) : Value N → Prop
  | .num x => fin x ∧ rt x = x
  | _ => True

mutual
theorem fixed_mapNum {N} (fin : N → Prop) (rt : N → N) (hid : NumIdem fin rt) :
    ∀ v : Value N, Forall (FinNode fin) v → Forall (FixNode fin rt) (mapNum rt v)
  | .undef, _ => by simp [mapNum, Forall, FixNode]
  | .null, _ => by simp [mapNum, Forall, FixNode]
  | .bool _, _ => by simp [mapNum, Forall, FixNode]
  | .num x, h => by simp only [Forall, FinNode] at h; simp only [mapNum, Forall, FixNode]; exact hid x h
  | .str _, _ => by simp [mapNum, Forall, FixNode]
  | .arr items, h => by simp only [Forall] at h; simp only [mapNum, Forall, FixNode, true_and]; exact fixedL_mapNum fin rt hid items h.2
  | .obj ms, h => by simp only [Forall] at h; simp only [mapNum, Forall, FixNode, true_and]; exact fixedM_mapNum fin rt hid ms h.2
theorem fixedL_mapNum {N} (fin : N → Prop) (rt : N → N) (hid : NumIdem fin rt) :
    ∀ l : List (Value N), ForallL (FinNode fin) l → ForallL (FixNode fin rt) (mapNumL rt l)
  | [], _ => by simp [mapNumL, ForallL]
  | v :: rest, h => by simp only [ForallL] at h; simp only [mapNumL, ForallL]; exact ⟨fixed_mapNum fin rt hid v h.1, fixedL_mapNum fin rt hid rest h.2⟩
theorem fixedM_mapNum {N} (fin : N → Prop) (rt : N → N) (hid : NumIdem fin rt) :
    ∀ l : List (Bytes × Value N), ForallM (FinNode fin) l → ForallM (FixNode fin rt) (mapNumM rt l)
  | [], _ => by simp [mapNumM, ForallM]
  | (_, v) :: rest, h => by simp only [ForallM] at h; simp only [mapNumM, ForallM]; exact ⟨fixed_mapNum fin rt hid v h.1, fixedM_mapNum fin rt hid rest h.2⟩
end

mutual
theorem mapNum_fixed {N} (fin : N → Prop) (rt : N → N) : ∀ v : Value N, Forall (FixNode fin rt) v → mapNum rt v = v
  | .undef, _ => rfl
  | .null, _ => rfl
  | .bool _, _ => rfl
  | .num x, h => by simp only [Forall, FixNode] at h; simp only [mapNum, h.2]
  | .str _, _ => rfl
  | .arr items, h => by simp only [Forall] at h; simp only [mapNum, mapNumL_fixed fin rt items h.2]
  | .obj ms, h => by simp only [Forall] at h; simp only [mapNum, mapNumM_fixed fin rt ms h.2]
theorem mapNumL_fixed {N} (fin : N → Prop) (rt : N → N) : ∀ l : List (Value N), ForallL (FixNode fin rt) l → mapNumL rt l = l
  | [], _ => rfl
  | v :: rest, h => by simp only [ForallL] at h; simp only [mapNumL, mapNum_fixed fin rt v h.1, mapNumL_fixed fin rt rest h.2]
theorem mapNumM_fixed {N} (fin : N → Prop) (rt : N → N) : ∀ l : List (Bytes × Value N), ForallM (FixNode fin rt) l → mapNumM rt l = l
  | [], _ => rfl
  | (k, v) :: rest, h => by simp only [ForallM] at h; simp only [mapNumM, mapNum_fixed fin rt v h.1, mapNumM_fixed fin rt rest h.2]
end

/-! ### integer extraction -/

theorem intOf_spec (neg : Bool) (m : Nat) (e2 : Int) (n : Int) :
    F64.intOf neg m e2 = some n ↔
      ∃ a : Nat, n = (if neg then -(a : Int) else (a : Int)) ∧
        (if e2 ≥ 0 then a = m * 2 ^ e2.toNat else a * 2 ^ (-e2).toNat = m) := by
  unfold F64.intOf
  by_cases he : e2 ≥ 0
  · simp only [he, if_true, Option.some.injEq]
    constructor
    · intro h; exact ⟨_, h.symm, rfl⟩
    · rintro ⟨a, hn, rfl⟩; exact hn.symm
  · simp only [he, if_false]
    have hpos : 0 < 2 ^ (-e2).toNat := Nat.pow_pos (by decide)
    constructor
    · intro h
      split at h
      · rename_i hm
        have hm' : m % 2 ^ (-e2).toNat = 0 := by simpa using hm
        simp only [Option.some.injEq] at h
        exact ⟨m / 2 ^ (-e2).toNat, h.symm, Nat.div_mul_cancel (Nat.dvd_of_mod_eq_zero hm')⟩
      · simp at h
    · rintro ⟨a, hn, ha⟩
      have hm : m % 2 ^ (-e2).toNat = 0 := by rw [← ha]; exact Nat.mul_mod_left _ _
      have hm' : (m % 2 ^ (-e2).toNat == 0) = true := by simpa using hm
      simp only [hm', if_true, Option.some.injEq]
      have : m / 2 ^ (-e2).toNat = a := by rw [← ha]; exact Nat.mul_div_cancel _ hpos
      rw [this, hn]

theorem toInt_spec (bits : Nat) (n : Int) : F64.toInt? bits = some n ↔ DblIsInt bits n := by
  unfold F64.toInt? DblIsInt
  by_cases h : dblExpField bits = 2047
  · simp [h]
  · simp only [h, if_false, ne_eq, not_false_eq_true, true_and]
    exact intOf_spec _ _ _ _

end Cppcms.C11
