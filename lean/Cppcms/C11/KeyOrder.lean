import Cppcms.C11.Model
import Cppcms.C11.Spec
/-! Helper lemmas for C11, part 0: the key order of `json::object`.
`string_key::operator<` as translated from the header (`Gen.keyLess`, `mapLt`) is the bytewise
lexicographic order `keyLt` on **all** byte strings (NUL included), a strict total order whose
induced equivalence is equality; hence the map operations of the model are the specification's
`hasKey` / `insertKV`. -/
namespace Cppcms.C11
open Cppcms Spec

/-! ### `keyLt` is a strict total order -/

theorem keyLt_irrefl (a : Bytes) : keyLt a a = false := by
  induction a with
  | nil => simp [keyLt]
  | cons x a ih => simp [keyLt, ih]

theorem keyLt_trans : ∀ (a b c : Bytes), keyLt a b = true → keyLt b c = true → keyLt a c = true := by
  intro a
  induction a with
  | nil =>
    intro b c h1 h2
    cases b with
    | nil => simp [keyLt] at h1
    | cons y b => cases c with
      | nil => simp [keyLt] at h2
      | cons z c => simp [keyLt]
  | cons x a ih =>
    intro b c h1 h2
    cases b with
    | nil => simp [keyLt] at h1
    | cons y b =>
      cases c with
      | nil => simp [keyLt] at h2
      | cons z c =>
        simp only [keyLt] at h1 h2 ⊢
        by_cases hxy : x.toNat < y.toNat
        · by_cases hyz : y.toNat < z.toNat
          · have : x.toNat < z.toNat := by omega
            simp [this]
          · by_cases hzy : z.toNat < y.toNat
            · simp [hyz, hzy] at h2
            · have : x.toNat < z.toNat := by omega
              simp [this]
        · by_cases hyx : y.toNat < x.toNat
          · simp [hxy, hyx] at h1
          · simp only [hxy, hyx, if_false] at h1
            by_cases hyz : y.toNat < z.toNat
            · have : x.toNat < z.toNat := by omega
              simp [this]
            · by_cases hzy : z.toNat < y.toNat
              · simp [hyz, hzy] at h2
              · simp only [hyz, hzy, if_false] at h2
                have h3 : ¬ x.toNat < z.toNat := by omega
                have h4 : ¬ z.toNat < x.toNat := by omega
                simp only [h3, h4, if_false]
                exact ih b c h1 h2

theorem keyLt_total : ∀ (a b : Bytes), a ≠ b → keyLt a b = true ∨ keyLt b a = true := by
  intro a
  induction a with
  | nil => intro b h; cases b with
    | nil => exact absurd rfl h
    | cons y b => simp [keyLt]
  | cons x a ih =>
    intro b h
    cases b with
    | nil => simp [keyLt]
    | cons y b =>
      simp only [keyLt]
      by_cases hxy : x.toNat < y.toNat
      · simp [hxy]
      · by_cases hyx : y.toNat < x.toNat
        · simp [hyx]
        · have hxe : x = y := UInt8.toNat_inj.mp (by omega)
          subst hxe
          have : a ≠ b := fun e => h (by rw [e])
          simpa [hxy] using ih b this

theorem keyLt_asymm (a b : Bytes) (h : keyLt a b = true) : keyLt b a = false := by
  cases hba : keyLt b a with
  | false => rfl
  | true => have := keyLt_trans a b a h hba; rw [keyLt_irrefl] at this; exact absurd this (by simp)

theorem keyLt_iff_bytesLt : ∀ (a b : Bytes), keyLt a b = true ↔ BytesLt a b := by
  intro a
  induction a with
  | nil =>
    intro b
    cases b with
    | nil =>
      simp only [keyLt, Bool.false_eq_true, false_iff]
      rintro ⟨p, ⟨c, r, h1, h2⟩ | ⟨x, y, ra, rb, h1, _, _⟩⟩
      · subst h1; simp at h2
      · cases p <;> simp at h1
    | cons y b => simp only [keyLt, true_iff]; exact ⟨[], Or.inl ⟨y, b, rfl, rfl⟩⟩
  | cons x a ih =>
    intro b
    cases b with
    | nil =>
      simp only [keyLt, Bool.false_eq_true, false_iff]
      rintro ⟨p, ⟨c, r, _, h2⟩ | ⟨x', y, ra, rb, _, h2, _⟩⟩
      · cases p <;> simp at h2
      · cases p <;> simp at h2
    | cons y b =>
      simp only [keyLt]
      by_cases hxy : x.toNat < y.toNat
      · simp only [hxy, if_true, true_iff]
        exact ⟨[], Or.inr ⟨x, y, a, b, rfl, rfl, hxy⟩⟩
      · by_cases hyx : y.toNat < x.toNat
        · simp only [hxy, hyx, if_false, if_true, Bool.false_eq_true, false_iff]
          rintro ⟨p, ⟨c, r, h1, h2⟩ | ⟨x', y', ra, rb, h1, h2, h3⟩⟩
          · cases p with
            | nil => simp at h1
            | cons q p => simp at h1 h2; rw [h1.1, h2.1] at hyx; omega
          · cases p with
            | nil => simp at h1 h2; rw [h1.1, h2.1] at hxy hyx; omega
            | cons q p => simp at h1 h2; rw [h1.1, h2.1] at hyx; omega
        · have hxe : x = y := UInt8.toNat_inj.mp (by omega)
          subst hxe
          simp only [hxy, if_false]
          rw [ih b]
          constructor
          · rintro ⟨p, ⟨c, r, h1, h2⟩ | ⟨x', y', ra, rb, h1, h2, h3⟩⟩
            · exact ⟨x :: p, Or.inl ⟨c, r, by rw [h1], by rw [h2]; rfl⟩⟩
            · exact ⟨x :: p, Or.inr ⟨x', y', ra, rb, by rw [h1]; rfl, by rw [h2]; rfl, h3⟩⟩
          · rintro ⟨p, ⟨c, r, h1, h2⟩ | ⟨x', y', ra, rb, h1, h2, h3⟩⟩
            · cases p with
              | nil => simp at h1
              | cons q p =>
                simp only [List.cons_append, List.cons.injEq] at h1 h2
                exact ⟨p, Or.inl ⟨c, r, h1.2, h2.2⟩⟩
            · cases p with
              | nil => simp at h1 h2; rw [← h1.1, ← h2.1] at h3; omega
              | cons q p =>
                simp only [List.cons_append, List.cons.injEq] at h1 h2
                exact ⟨p, Or.inr ⟨x', y', ra, rb, h1.2, h2.2, h3⟩⟩

/-! ### the translated comparator is that order -/

theorem mapLt_eq (a b : Bytes) : mapLt a b = keyLt a b := by
  unfold mapLt
  induction a generalizing b with
  | nil => cases b <;> simp [Gen.keyLess, keyLt]
  | cons x a ih =>
    cases b with
    | nil => simp [Gen.keyLess, keyLt]
    | cons y b => simp only [List.map_cons, Gen.keyLess, Gen.keyCharLt, keyLt, decide_eq_true_eq]; rw [ih b]

theorem mapEquiv_eq (a b : Bytes) : mapEquiv a b = (a == b) := by
  unfold mapEquiv
  rw [mapLt_eq, mapLt_eq]
  by_cases h : a = b
  · subst h; simp [keyLt_irrefl]
  · have : (a == b) = false := by simpa using h
    rw [this]
    rcases keyLt_total a b h with h' | h' <;> simp [h']

@[simp] theorem mapHasKey_eq {N} (k : Bytes) (ms : List (Bytes × Value N)) : mapHasKey k ms = hasKey k ms := by
  induction ms with
  | nil => rfl
  | cons a ms ih => obtain ⟨k', v'⟩ := a; simp only [mapHasKey, hasKey, mapEquiv_eq, ih]

@[simp] theorem mapInsert_eq {N} (k : Bytes) (v : Value N) (ms : List (Bytes × Value N)) : mapInsert k v ms = insertKV k v ms := by
  induction ms with
  | nil => rfl
  | cons a ms ih =>
    obtain ⟨k', v'⟩ := a
    simp only [mapInsert, insertKV, mapEquiv_eq, mapLt_eq, ih]
    by_cases h : k = k'
    · subst h; simp
    · have : (k == k') = false := by simpa using h
      simp [this]

end Cppcms.C11
