import Cppcms.C11.Invariant
/-! Helper lemmas for C11, part 5: lexing of RFC 8259 lexemes (whitespace, structural characters,
keywords, strings with all escape forms). -/
namespace Cppcms.C11
open Cppcms Spec

/-! ### whitespace, punctuators, keywords -/

theorem nextAux_false_cons {N} (ops : NumOps N) (c : UInt8) (rest : Bytes) :
    nextAux ops false (c :: rest) =
      if Gen.tokPunct.contains c.toNat then (.punct c, rest)
      else if Gen.tokBlank.contains c.toNat || c.toNat == Gen.tokNewline then nextAux ops false rest
      else if c.toNat == Gen.tokQuote then
        match parseString rest with
        | some (s, r) => (.str s, r)
        | none => (.err, [])
      else
        match Gen.tokKeywords.find? (fun k => k.1 == c.toNat) with
        | some (_, kw, code) =>
          if (rest.take kw.length).map UInt8.toNat == kw then (kwTok code, rest.drop kw.length) else (.err, [])
        | none =>
          if Gen.tokNumStart.contains c.toNat then
            match parseNumber ops (c :: rest) with
            | some (v, r) => (.num v, r)
            | none => (.err, [])
          else if c.toNat == Gen.tokSlash then
            match rest with
            | c2 :: r2 => if c2.toNat == Gen.tokSlash then nextAux ops true r2 else (.err, [])
            | [] => (.err, [])
          else (.err, []) := by
  rw [nextAux.eq_def]; rfl

theorem nextAux_ws_byte {N} (ops : NumOps N) (b : UInt8) (x : Bytes) (h : IsWs b) :
    nextAux ops false (b :: x) = nextAux ops false x := by
  rcases h with rfl | rfl | rfl | rfl <;> rw [nextAux_false_cons] <;> simp [Gen.tokPunct, Gen.tokBlank, Gen.tokNewline]

theorem next_ws {N} (ops : NumOps N) (w x : Bytes) (h : Ws w) : next ops (w ++ x) = next ops x := by
  induction w with
  | nil => rfl
  | cons b w ih =>
    have hb : IsWs b := h b (by simp)
    have hw : Ws w := fun c hc => h c (by simp [hc])
    simp only [next, List.cons_append] at ih ⊢
    rw [nextAux_ws_byte ops b _ hb]; exact ih hw

theorem tokens_ws {N} (ops : NumOps N) (w x : Bytes) (h : Ws w) : tokens ops (w ++ x) = tokens ops x := by
  have hn := next_ws ops w x h
  rcases hx : next ops x with ⟨t, r⟩
  rw [hx] at hn
  cases hs : t.isStop with
  | true => rw [tokens_stop ops _ t r hn hs, tokens_stop ops _ t r hx hs]
  | false => rw [tokens_cons ops _ t r hn hs, tokens_cons ops _ t r hx hs]

theorem next_punct {N} (ops : NumOps N) (c : UInt8) (x : Bytes)
    (h : c = 91 ∨ c = 93 ∨ c = 123 ∨ c = 125 ∨ c = 58 ∨ c = 44) : next ops (c :: x) = (.punct c, x) := by
  rcases h with rfl | rfl | rfl | rfl | rfl | rfl <;> simp [next, nextAux_false_cons, Gen.tokPunct]

theorem tokens_punct {N} (ops : NumOps N) (c : UInt8) (x : Bytes)
    (h : c = 91 ∨ c = 93 ∨ c = 123 ∨ c = 125 ∨ c = 58 ∨ c = 44) :
    tokens ops (c :: x) = (.punct c, x) :: tokens ops x :=
  tokens_cons ops _ _ _ (next_punct ops c x h) rfl

theorem next_null {N} (ops : NumOps N) (x : Bytes) : next ops (110 :: 117 :: 108 :: 108 :: x) = (.nul, x) := by
  simp [next, nextAux_false_cons, Gen.tokPunct, Gen.tokBlank, Gen.tokNewline, Gen.tokQuote, Gen.tokKeywords, kwTok]

theorem next_true {N} (ops : NumOps N) (x : Bytes) : next ops (116 :: 114 :: 117 :: 101 :: x) = (.tru, x) := by
  simp [next, nextAux_false_cons, Gen.tokPunct, Gen.tokBlank, Gen.tokNewline, Gen.tokQuote, Gen.tokKeywords, kwTok]

theorem next_false {N} (ops : NumOps N) (x : Bytes) : next ops (102 :: 97 :: 108 :: 115 :: 101 :: x) = (.fls, x) := by
  simp [next, nextAux_false_cons, Gen.tokPunct, Gen.tokBlank, Gen.tokNewline, Gen.tokQuote, Gen.tokKeywords, kwTok]

/-! ### strings -/

theorem strLoop_cons (pend : Option Nat) (c : UInt8) (rest : Bytes) :
    strLoop pend (c :: rest) =
    if pend.isSome && c != 92 then none
    else if Gen.strCtl c.toNat then none
    else if c == 34 then some ([], rest)
    else if c == 92 then
      match rest with
      | [] => none
      | e :: rest1 =>
        if pend.isSome && e.toNat != Gen.strEscU then none
        else if Gen.strEscSelf.contains e.toNat then pushBytes [e] (strLoop none rest1)
        else match Gen.strEscMap.lookup e.toNat with
          | some b => pushBytes [UInt8.ofNat b] (strLoop none rest1)
          | none =>
            if e.toNat == Gen.strEscU then
              match rest1 with
              | h1 :: h2 :: h3 :: h4 :: rest2 =>
                if Gen.hexDigitOk h1.toNat && Gen.hexDigitOk h2.toNat && Gen.hexDigitOk h3.toNat && Gen.hexDigitOk h4.toNat then
                  match pend with
                  | some hi =>
                    if Gen.isSecondSurrogate (hex4 h1 h2 h3 h4) then pushBytes (utf8Enc (Gen.combineSurrogate hi (hex4 h1 h2 h3 h4))) (strLoop none rest2)
                    else none
                  | none =>
                    if Gen.isFirstSurrogate (hex4 h1 h2 h3 h4) then strLoop (some (hex4 h1 h2 h3 h4)) rest2
                    else pushBytes (utf8Enc (hex4 h1 h2 h3 h4)) (strLoop none rest2)
                else none
              | _ => none
            else none
    else pushBytes [c] (strLoop pend rest) := by
  rw [strLoop.eq_def]; rfl

theorem strLoop_plain (b : UInt8) (y : Bytes) (h1 : 0x20 ≤ b.toNat) (h2 : b ≠ 34) (h3 : b ≠ 92) :
    strLoop none (b :: y) = pushBytes [b] (strLoop none y) := by
  rw [strLoop_cons]
  have : Gen.strCtl b.toNat = false := by simp [Gen.strCtl]; omega
  simp [this, h2, h3]

theorem strLoop_quote (y : Bytes) : strLoop none (34 :: y) = some ([], y) := by
  rw [strLoop_cons]; simp [Gen.strCtl]

theorem strLoop_esc (e b : UInt8) (y : Bytes) (h : SimpleEsc e b) :
    strLoop none (92 :: e :: y) = pushBytes [b] (strLoop none y) := by
  rw [strLoop_cons]
  rcases h with ⟨rfl, rfl⟩ | ⟨rfl, rfl⟩ | ⟨rfl, rfl⟩ | ⟨rfl, rfl⟩ | ⟨rfl, rfl⟩ | ⟨rfl, rfl⟩ | ⟨rfl, rfl⟩ | ⟨rfl, rfl⟩ <;>
    simp [Gen.strCtl, Gen.strEscSelf, Gen.strEscMap, Gen.strEscU, List.lookup]

theorem hexOk_of_isHex (b : UInt8) (h : IsHex b) : Gen.hexDigitOk b.toNat = true := by
  unfold IsHex at h
  simp [Gen.hexDigitOk]; omega

theorem hexVal_eq (b : UInt8) (h : IsHex b) : hexVal b = hexDigitVal b ∧ hexVal b < 16 := by
  unfold IsHex at h
  simp only [hexVal, hexDigitVal]
  rcases h with h | h | h
  · have : 48 ≤ b.toNat ∧ b.toNat ≤ 57 := h
    simp [this]; omega
  · have a : ¬ (48 ≤ b.toNat ∧ b.toNat ≤ 57) := by omega
    have c : ¬ (97 ≤ b.toNat ∧ b.toNat ≤ 102) := by omega
    have d : ¬ (b.toNat ≤ 57) := by omega
    have e : b.toNat ≤ 70 := by omega
    simp [a, c, h, d, e]; omega
  · have a : ¬ (48 ≤ b.toNat ∧ b.toNat ≤ 57) := by omega
    have d : ¬ (b.toNat ≤ 57) := by omega
    have e : ¬ b.toNat ≤ 70 := by omega
    simp [a, h, d, e]; omega

theorem hex4_eq (h1 h2 h3 h4 : UInt8) (a : IsHex h1) (b : IsHex h2) (c : IsHex h3) (d : IsHex h4) :
    hex4 h1 h2 h3 h4 = hex4Val h1 h2 h3 h4 ∧ hex4Val h1 h2 h3 h4 < 65536 := by
  have e1 := hexVal_eq h1 a; have e2 := hexVal_eq h2 b; have e3 := hexVal_eq h3 c; have e4 := hexVal_eq h4 d
  simp only [hex4, hex4Val]
  omega

/-- `a ||| (hi <<< i)` is addition when `a` fits below bit `i` -/
theorem or_shl (a hi i : Nat) (h : a < 2 ^ i) : a ||| (hi <<< i) = hi <<< i + a := by
  rw [Nat.or_comm]; exact (Nat.shiftLeft_add_eq_or_of_lt h hi).symm

theorem and63 (x : Nat) : x &&& 63 = x % 64 := Nat.and_two_pow_sub_one_eq_mod x 6
theorem and1023 (x : Nat) : x &&& 1023 = x % 1024 := Nat.and_two_pow_sub_one_eq_mod x 10

theorem utf8Enc_eq (x : Nat) (hx : x < 0x110000) : utf8Enc x = encodeUtf8 x := by
  unfold utf8Enc encodeUtf8 Gen.utf8Encode ofNats
  by_cases h1 : x ≤ 0x7F
  · have : x % 256 = x := by omega
    simp [h1, this]
  · by_cases h2 : x ≤ 0x7FF
    · have a : (x >>> 6) ||| 192 = 192 + x / 64 := by
        have := or_shl (x >>> 6) 3 6 (by simp [Nat.shiftRight_eq_div_pow]; omega)
        simp [Nat.shiftRight_eq_div_pow] at this ⊢; omega
      have b : (x &&& 63) ||| 128 = 128 + x % 64 := by
        rw [and63]
        have := or_shl (x % 64) 1 7 (by omega)
        simp at this; omega
      simp only [h1, h2, if_false, if_true, a, b, List.map]
      have c : (192 + x / 64) % 256 = 192 + x / 64 := by omega
      have d : (128 + x % 64) % 256 = 128 + x % 64 := by omega
      rw [c, d]
    · by_cases h3 : x ≤ 0xFFFF
      · have a : (x >>> 12) ||| 224 = 224 + x / 4096 := by
          have := or_shl (x >>> 12) 7 5 (by simp [Nat.shiftRight_eq_div_pow]; omega)
          simp [Nat.shiftRight_eq_div_pow] at this ⊢; omega
        have b : ((x >>> 6) &&& 63) ||| 128 = 128 + x / 64 % 64 := by
          rw [and63]
          have := or_shl ((x >>> 6) % 64) 1 7 (by omega)
          simp [Nat.shiftRight_eq_div_pow] at this ⊢; omega
        have b2 : (x &&& 63) ||| 128 = 128 + x % 64 := by
          rw [and63]
          have := or_shl (x % 64) 1 7 (by omega)
          simp at this; omega
        simp only [h1, h2, h3, if_false, if_true, a, b, b2, List.map]
        have c : (224 + x / 4096) % 256 = 224 + x / 4096 := by omega
        have d : (128 + x / 64 % 64) % 256 = 128 + x / 64 % 64 := by omega
        have e : (128 + x % 64) % 256 = 128 + x % 64 := by omega
        rw [c, d, e]
      · have a : (x >>> 18) ||| 240 = 240 + x / 262144 := by
          have := or_shl (x >>> 18) 15 4 (by simp [Nat.shiftRight_eq_div_pow]; omega)
          simp [Nat.shiftRight_eq_div_pow] at this ⊢; omega
        have b0 : ((x >>> 12) &&& 63) ||| 128 = 128 + x / 4096 % 64 := by
          rw [and63]
          have := or_shl ((x >>> 12) % 64) 1 7 (by omega)
          simp [Nat.shiftRight_eq_div_pow] at this ⊢; omega
        have b : ((x >>> 6) &&& 63) ||| 128 = 128 + x / 64 % 64 := by
          rw [and63]
          have := or_shl ((x >>> 6) % 64) 1 7 (by omega)
          simp [Nat.shiftRight_eq_div_pow] at this ⊢; omega
        have b2 : (x &&& 63) ||| 128 = 128 + x % 64 := by
          rw [and63]
          have := or_shl (x % 64) 1 7 (by omega)
          simp at this; omega
        simp only [h1, h2, h3, if_false, a, b0, b, b2, List.map]
        have c : (240 + x / 262144) % 256 = 240 + x / 262144 := by omega
        have d0 : (128 + x / 4096 % 64) % 256 = 128 + x / 4096 % 64 := by omega
        have d : (128 + x / 64 % 64) % 256 = 128 + x / 64 % 64 := by omega
        have e : (128 + x % 64) % 256 = 128 + x % 64 := by omega
        rw [c, d0, d, e]

theorem combine_eq (hi lo : Nat) (h1 : 0xD800 ≤ hi) (h2 : hi ≤ 0xDBFF) (l1 : 0xDC00 ≤ lo) (l2 : lo ≤ 0xDFFF) :
    Gen.combineSurrogate hi lo = 0x10000 + (hi - 0xD800) * 0x400 + (lo - 0xDC00) ∧
    Gen.combineSurrogate hi lo < 0x110000 := by
  unfold Gen.combineSurrogate
  rw [and1023, and1023]
  have := or_shl (lo % 1024) (hi % 1024) 10 (by omega)
  rw [Nat.or_comm] at this
  rw [this]
  simp [Nat.shiftLeft_eq]
  omega

theorem ofNat_toNat (n : Nat) (h : n < 256) : (UInt8.ofNat n).toNat = n := by
  simp [UInt8.toNat_ofNat']; omega

/-- RFC 3629: the encoding of a scalar value is one well-formed UTF-8 character -/
theorem encodeUtf8_char (x : Nat) (hx : x < 0x110000) (hs : ¬ (0xD800 ≤ x ∧ x ≤ 0xDFFF)) : Utf8Char (encodeUtf8 x) := by
  unfold encodeUtf8
  by_cases h1 : x ≤ 0x7F
  · simp only [h1, if_true]
    exact Utf8Char.u1 _ (by rw [ofNat_toNat _ (by omega)]; exact h1)
  · by_cases h2 : x ≤ 0x7FF
    · simp only [h1, h2, if_false, if_true]
      refine Utf8Char.u2 _ _ ?_ ?_ ?_
      · rw [ofNat_toNat _ (by omega)]; omega
      · rw [ofNat_toNat _ (by omega)]; omega
      · unfold Tail; rw [ofNat_toNat _ (by omega)]; omega
    · by_cases h3 : x ≤ 0xFFFF
      · simp only [h1, h2, h3, if_false, if_true]
        refine Utf8Char.u3 _ _ _ ?_ ?_
        · unfold Tail
          rw [ofNat_toNat _ (by omega), ofNat_toNat _ (by omega)]
          omega
        · unfold Tail; rw [ofNat_toNat _ (by omega)]; omega
      · simp only [h1, h2, h3, if_false]
        refine Utf8Char.u4 _ _ _ _ ?_ ?_ ?_
        · unfold Tail
          rw [ofNat_toNat _ (by omega), ofNat_toNat _ (by omega)]
          omega
        · unfold Tail; rw [ofNat_toNat _ (by omega)]; omega
        · unfold Tail; rw [ofNat_toNat _ (by omega)]; omega

theorem simpleEsc_ascii (e b : UInt8) (h : SimpleEsc e b) : b.toNat ≤ 0x7F := by
  rcases h with ⟨_, rfl⟩ | ⟨_, rfl⟩ | ⟨_, rfl⟩ | ⟨_, rfl⟩ | ⟨_, rfl⟩ | ⟨_, rfl⟩ | ⟨_, rfl⟩ | ⟨_, rfl⟩ <;> decide

/-- the string a `*char` sequence denotes is well-formed UTF-8 -/
theorem chars_utf8 {t s : Bytes} (h : Chars t s) : Utf8 s := by
  induction h with
  | nil => exact Utf8.nil
  | plain c t s hc _ _ _ _ ih => exact Utf8.cons c s hc ih
  | esc e b t s he _ ih => exact Utf8.cons [b] s (Utf8Char.u1 b (simpleEsc_ascii e b he)) ih
  | u h1 h2 h3 h4 t s a b c d hns _ ih =>
    have := (hex4_eq h1 h2 h3 h4 a b c d).2
    exact Utf8.cons _ s (encodeUtf8_char _ (by omega) hns) ih
  | pair h1 h2 h3 h4 l1 l2 l3 l4 t s a b c d a' b' c' d' hh1 hh2 hl1 hl2 _ ih =>
    exact Utf8.cons _ s (encodeUtf8_char _ (by omega) (by omega)) ih

theorem pushBytes_append (a b : Bytes) (o : Option (Bytes × Bytes)) :
    pushBytes a (pushBytes b o) = pushBytes (a ++ b) o := by
  cases o with
  | none => rfl
  | some p => simp [pushBytes]

/-- a multi-byte UTF-8 character passes through `parse_string` unchanged -/
theorem strLoop_char (c : Bytes) (y : Bytes) (hc : Utf8Char c) (hq : c ≠ [0x22]) (hb : c ≠ [0x5C])
    (h1 : ∀ b, c = [b] → 0x20 ≤ b.toNat) : strLoop none (c ++ y) = pushBytes c (strLoop none y) := by
  cases hc with
  | u1 b hb' =>
    have : b ≠ 34 := fun e => hq (by rw [e])
    have : b ≠ 92 := fun e => hb (by rw [e])
    exact strLoop_plain b y (h1 b rfl) ‹_› ‹_›
  | u2 b0 b1 l u t1 =>
    unfold Tail at t1
    have n0 : b0 ≠ 34 := by intro e; subst e; simp at l
    have m0 : b0 ≠ 92 := by intro e; subst e; simp at l
    have n1 : b1 ≠ 34 := by intro e; subst e; simp at t1
    have m1 : b1 ≠ 92 := by intro e; subst e; simp at t1
    simp only [List.cons_append, List.nil_append]
    rw [strLoop_plain b0 _ (by omega) n0 m0, strLoop_plain b1 _ (by omega) n1 m1, pushBytes_append]
    rfl
  | u3 b0 b1 b2 hr t2 =>
    unfold Tail at t2
    have r0 : 0xE0 ≤ b0.toNat := by rcases hr with h | h | h | h <;> omega
    have r1 : 0x80 ≤ b1.toNat := by unfold Tail at hr; rcases hr with h | h | h | h <;> omega
    have n0 : b0 ≠ 34 := by intro e; subst e; simp at r0
    have m0 : b0 ≠ 92 := by intro e; subst e; simp at r0
    have n1 : b1 ≠ 34 := by intro e; subst e; simp at r1
    have m1 : b1 ≠ 92 := by intro e; subst e; simp at r1
    have n2 : b2 ≠ 34 := by intro e; subst e; simp at t2
    have m2 : b2 ≠ 92 := by intro e; subst e; simp at t2
    simp only [List.cons_append, List.nil_append]
    rw [strLoop_plain b0 _ (by omega) n0 m0, strLoop_plain b1 _ (by omega) n1 m1,
      strLoop_plain b2 _ (by omega) n2 m2, pushBytes_append, pushBytes_append]
    rfl
  | u4 b0 b1 b2 b3 hr t2 t3 =>
    unfold Tail at t2 t3
    have r0 : 0xF0 ≤ b0.toNat := by rcases hr with h | h | h <;> omega
    have r1 : 0x80 ≤ b1.toNat := by unfold Tail at hr; rcases hr with h | h | h <;> omega
    have n0 : b0 ≠ 34 := by intro e; subst e; simp at r0
    have m0 : b0 ≠ 92 := by intro e; subst e; simp at r0
    have n1 : b1 ≠ 34 := by intro e; subst e; simp at r1
    have m1 : b1 ≠ 92 := by intro e; subst e; simp at r1
    have n2 : b2 ≠ 34 := by intro e; subst e; simp at t2
    have m2 : b2 ≠ 92 := by intro e; subst e; simp at t2
    have n3 : b3 ≠ 34 := by intro e; subst e; simp at t3
    have m3 : b3 ≠ 92 := by intro e; subst e; simp at t3
    simp only [List.cons_append, List.nil_append]
    rw [strLoop_plain b0 _ (by omega) n0 m0, strLoop_plain b1 _ (by omega) n1 m1,
      strLoop_plain b2 _ (by omega) n2 m2, strLoop_plain b3 _ (by omega) n3 m3,
      pushBytes_append, pushBytes_append, pushBytes_append]
    rfl

theorem strLoop_u (h1 h2 h3 h4 : UInt8) (y : Bytes) (a : IsHex h1) (b : IsHex h2) (c : IsHex h3) (d : IsHex h4)
    (hns : ¬ (0xD800 ≤ hex4Val h1 h2 h3 h4 ∧ hex4Val h1 h2 h3 h4 ≤ 0xDFFF)) :
    strLoop none (0x5C :: 0x75 :: h1 :: h2 :: h3 :: h4 :: y) =
      pushBytes (encodeUtf8 (hex4Val h1 h2 h3 h4)) (strLoop none y) := by
  obtain ⟨e, lt⟩ := hex4_eq h1 h2 h3 h4 a b c d
  rw [strLoop_cons]
  have nf : Gen.isFirstSurrogate (hex4Val h1 h2 h3 h4) = false := by
    simp [Gen.isFirstSurrogate]; omega
  simp [Gen.strCtl, Gen.strEscSelf, Gen.strEscMap, Gen.strEscU, List.lookup, hexOk_of_isHex, a, b, c, d, e, nf,
    utf8Enc_eq _ (by omega : hex4Val h1 h2 h3 h4 < 0x110000)]

theorem strLoop_pair (h1 h2 h3 h4 l1 l2 l3 l4 : UInt8) (y : Bytes)
    (a : IsHex h1) (b : IsHex h2) (c : IsHex h3) (d : IsHex h4)
    (a' : IsHex l1) (b' : IsHex l2) (c' : IsHex l3) (d' : IsHex l4)
    (hh1 : 0xD800 ≤ hex4Val h1 h2 h3 h4) (hh2 : hex4Val h1 h2 h3 h4 ≤ 0xDBFF)
    (hl1 : 0xDC00 ≤ hex4Val l1 l2 l3 l4) (hl2 : hex4Val l1 l2 l3 l4 ≤ 0xDFFF) :
    strLoop none (0x5C :: 0x75 :: h1 :: h2 :: h3 :: h4 :: 0x5C :: 0x75 :: l1 :: l2 :: l3 :: l4 :: y) =
      pushBytes (encodeUtf8 (0x10000 + (hex4Val h1 h2 h3 h4 - 0xD800) * 0x400 + (hex4Val l1 l2 l3 l4 - 0xDC00)))
        (strLoop none y) := by
  obtain ⟨e, _⟩ := hex4_eq h1 h2 h3 h4 a b c d
  obtain ⟨e', _⟩ := hex4_eq l1 l2 l3 l4 a' b' c' d'
  obtain ⟨ce, clt⟩ := combine_eq _ _ hh1 hh2 hl1 hl2
  have f1 : Gen.isFirstSurrogate (hex4Val h1 h2 h3 h4) = true := by
    simp [Gen.isFirstSurrogate]; omega
  have f2 : Gen.isSecondSurrogate (hex4Val l1 l2 l3 l4) = true := by
    simp [Gen.isSecondSurrogate]; omega
  rw [strLoop_cons]
  simp only [Gen.strCtl, Gen.strEscSelf, Gen.strEscMap, Gen.strEscU, List.lookup, hexOk_of_isHex, a, b, c, d, e, f1]
  simp
  rw [strLoop_cons]
  rw [ce] at clt
  simp [Gen.strCtl, Gen.strEscSelf, Gen.strEscMap, Gen.strEscU, List.lookup, hexOk_of_isHex, a', b', c', d', e', f2, ce,
    utf8Enc_eq _ clt]

theorem chars_strLoop {t s : Bytes} (h : Chars t s) (y : Bytes) : strLoop none (t ++ 0x22 :: y) = some (s, y) := by
  induction h with
  | nil => exact strLoop_quote y
  | plain c t s hc hq hb h1 _ ih =>
    rw [List.append_assoc, strLoop_char c _ hc hq hb h1, ih]; simp [pushBytes]
  | esc e b t s he _ ih =>
    simp only [List.cons_append]
    rw [strLoop_esc e b _ he, ih]; simp [pushBytes]
  | u h1 h2 h3 h4 t s a b c d hns _ ih =>
    simp only [List.cons_append]
    rw [strLoop_u h1 h2 h3 h4 _ a b c d hns, ih]; simp [pushBytes]
  | pair h1 h2 h3 h4 l1 l2 l3 l4 t s a b c d a' b' c' d' hh1 hh2 hl1 hl2 _ ih =>
    simp only [List.cons_append]
    rw [strLoop_pair h1 h2 h3 h4 l1 l2 l3 l4 _ a b c d a' b' c' d' hh1 hh2 hl1 hl2, ih]; simp [pushBytes]

/-- a string lexeme of the grammar is one `tock_str` token carrying the string it denotes -/
theorem next_string {N} (ops : NumOps N) (t s y : Bytes) (h : StringLex t s) : next ops (t ++ y) = (.str s, y) := by
  obtain ⟨body, rfl, hc⟩ := h
  have hs := chars_strLoop hc y
  have hv := utf8Valid_complete s (chars_utf8 hc)
  simp only [next, List.cons_append, List.append_assoc]
  rw [nextAux_false_cons]
  simp [Gen.tokPunct, Gen.tokBlank, Gen.tokNewline, Gen.tokQuote, parseString, hs, hv]

end Cppcms.C11
