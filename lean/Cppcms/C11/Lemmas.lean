import Cppcms.C11.KeyOrder
/-! Helper lemmas for C11, part 1: every token other than eof/err consumes input, hence the
fuel of `tokens` suffices and `tokens` unfolds along `next`. -/
namespace Cppcms.C11
open Cppcms
theorem pushBytes_some {pre : Bytes} {o : Option (Bytes × Bytes)} {s r : Bytes}
    (h : pushBytes pre o = some (s, r)) : ∃ s', o = some (s', r) ∧ s = pre ++ s' := by
  cases o with
  | none => simp [pushBytes] at h
  | some p =>
    obtain ⟨s', r'⟩ := p
    simp [pushBytes] at h
    exact ⟨s', by simp [h.2], h.1.symm⟩

theorem strLoop_length (pend : Option Nat) (inp : Bytes) : ∀ s r,
    strLoop pend inp = some (s, r) → r.length < inp.length := by
  fun_induction strLoop pend inp
  all_goals intro s r h
  all_goals first
    | (simp at h; done)
    | (simp at h; obtain ⟨_, rfl⟩ := h; simp; done)
    | (obtain ⟨s', h', _⟩ := pushBytes_some h
       have := (by assumption : ∀ (s r : Bytes), strLoop _ _ = some (s, r) → _) _ _ h'
       simp only [List.length_cons]; omega)
    | (have := (by assumption : ∀ (s r : Bytes), strLoop _ _ = some (s, r) → _) _ _ h
       simp only [List.length_cons]; omega)


theorem scanMain_length (fm fd fs : Bool) (inp : Bytes) : (scanMain fm fd fs inp).2.length ≤ inp.length := by
  fun_induction scanMain fm fd fs inp <;> simp [consTo] at * <;> omega

theorem scanZeros_length (fm : Bool) (inp : Bytes) : (scanZeros fm inp).2.2.length ≤ inp.length := by
  fun_induction scanZeros fm inp <;> simp_all <;> omega

theorem scanSign_length (inp : Bytes) : (scanSign inp).2.length ≤ inp.length := by
  unfold scanSign
  split
  · split <;> simp
  · simp

theorem scanFloat_length (inp : Bytes) : (scanFloat inp).2.length ≤ inp.length := by
  have h0 := scanSign_length inp
  have h1 := scanZeros_length false (scanSign inp).2
  have h2 := scanMain_length (scanZeros false (scanSign inp).2).1 false false (scanZeros false (scanSign inp).2).2.2
  simp only [scanFloat]; omega

/-- a number token starts with `-` or a digit and is accepted only if `strtod` takes a non-empty text -/
theorem scanFloat_lt (c : UInt8) (rest : Bytes) (h : c == 45 || isDigit c) :
    (scanFloat (c :: rest)).2.length < (c :: rest).length := by
  by_cases hm : c = 45
  · subst hm
    have h1 := scanZeros_length false rest
    have h2 := scanMain_length (scanZeros false rest).1 false false (scanZeros false rest).2.2
    simp [scanFloat, scanSign]; omega
  · have hd : isDigit c = true := by simpa [hm] using h
    have hs : scanSign (c :: rest) = ([], c :: rest) := by
      have : ¬ (c = 43) := by intro h43; subst h43; simp [isDigit] at hd
      simp [scanSign, this, hm]
    by_cases hz : c = 48
    · subst hz
      have h1 := scanZeros_length true rest
      have h2 := scanMain_length (scanZeros true rest).1 false false (scanZeros true rest).2.2
      simp [scanFloat, hs, scanZeros]; omega
    · have h2 := scanMain_length true false false rest
      have e : scanMain false false false (c :: rest) = consTo c (scanMain true false false rest) := by
        rw [scanMain.eq_def]; simp [hd]
      simp [scanFloat, hs, scanZeros, hz, e, consTo]; omega


theorem numStart_spec : ∀ c : UInt8, Gen.tokNumStart.contains c.toNat = true → (c == 45 || isDigit c) = true := by
  apply forall_uint8
  decide +kernel

theorem parseString_length {inp s r : Bytes} (h : parseString inp = some (s, r)) : r.length < inp.length := by
  unfold parseString at h
  split at h
  · rename_i s' r' h'
    split at h
    · simp at h; obtain ⟨_, rfl⟩ := h; exact strLoop_length _ _ _ _ h'
    · simp at h
  · simp at h

theorem parseNumber_length {N} (ops : NumOps N) (c : UInt8) (rest : Bytes) {v : N} {r : Bytes}
    (hc : Gen.tokNumStart.contains c.toNat = true)
    (h : parseNumber ops (c :: rest) = some (v, r)) : r.length < (c :: rest).length := by
  unfold parseNumber at h
  split at h
  · simp at h; obtain ⟨_, rfl⟩ := h; exact scanFloat_lt c rest (numStart_spec c hc)
  · simp at h

theorem nextAux_length {N} (ops : NumOps N) (b : Bool) (inp : Bytes) :
    ∀ t r, nextAux ops b inp = (t, r) → (t = .eof ∨ t = .err ∨ r.length < inp.length) := by
  fun_induction nextAux ops b inp
  all_goals intro t r h
  all_goals first
    | (simp at h; obtain ⟨rfl, rfl⟩ := h; simp; done)
    | (rename_i ih; rcases ih t r h with h1 | h1 | h1
       · exact Or.inl h1
       · exact Or.inr (Or.inl h1)
       · right; right; simp only [List.length_cons]; omega)
    | (simp only [Prod.mk.injEq] at h; obtain ⟨_, rfl⟩ := h
       right; right
       first
         | (have := parseString_length (by assumption); simp only [List.length_cons]; omega)
         | (have := parseNumber_length ops _ _ (by assumption) (by assumption); exact this)
         | (simp only [List.length_cons, List.length_drop]; omega))


theorem tokensAux_fuel {N} (ops : NumOps N) : ∀ n (inp : Bytes), inp.length < n →
    tokensAux ops n inp = tokensAux ops (inp.length + 1) inp := by
  intro n
  induction n using Nat.strongRecOn with
  | _ n ih =>
    intro inp hlt
    cases n with
    | zero => omega
    | succ n =>
      rw [tokensAux, tokensAux]
      split
      · rfl
      · rename_i hs
        have hl := nextAux_length ops false inp (next ops inp).1 (next ops inp).2 rfl
        have hl' : (next ops inp).2.length < inp.length := by
          rcases hl with h | h | h
          · rw [h] at hs; simp [Tok.isStop] at hs
          · rw [h] at hs; simp [Tok.isStop] at hs
          · exact h
        rw [ih n (by omega) _ (by omega), ih inp.length (by omega) _ (by omega)]

theorem tokens_cons {N} (ops : NumOps N) (inp : Bytes) (t : Tok N) (r : Bytes)
    (h : next ops inp = (t, r)) (h1 : t.isStop = false) :
    tokens ops inp = (t, r) :: tokens ops r := by
  have hl := nextAux_length ops false inp t r h
  have hl' : r.length < inp.length := by
    rcases hl with h' | h' | h'
    · rw [h'] at h1; simp [Tok.isStop] at h1
    · rw [h'] at h1; simp [Tok.isStop] at h1
    · exact h'
  unfold tokens
  rw [tokensAux, h]
  simp only [h1, Bool.false_eq_true, if_false]
  rw [tokensAux_fuel ops inp.length r hl']

theorem tokens_stop {N} (ops : NumOps N) (inp : Bytes) (t : Tok N) (r : Bytes)
    (h : next ops inp = (t, r)) (h1 : t.isStop = true) :
    tokens ops inp = [(t, r)] := by
  unfold tokens; rw [tokensAux, h]; simp [h1]

end Cppcms.C11
